
(** val negb : bool -> bool **)

let negb = function
| true -> false
| false -> true

type nat =
| O
| S of nat

(** val fst : ('a1 * 'a2) -> 'a1 **)

let fst = function
| (x, _) -> x

(** val snd : ('a1 * 'a2) -> 'a2 **)

let snd = function
| (_, y) -> y

(** val length : 'a1 list -> nat **)

let rec length = function
| [] -> O
| _ :: l' -> S (length l')

(** val app : 'a1 list -> 'a1 list -> 'a1 list **)

let rec app l m =
  match l with
  | [] -> m
  | a :: l1 -> a :: (app l1 m)

type comparison =
| Eq
| Lt
| Gt

(** val compOpp : comparison -> comparison **)

let compOpp = function
| Eq -> Eq
| Lt -> Gt
| Gt -> Lt

module Coq__1 = struct
 (** val add : nat -> nat -> nat **)
 let rec add n0 m =
   match n0 with
   | O -> m
   | S p -> S (add p m)
end
include Coq__1

(** val eqb : bool -> bool -> bool **)

let eqb b1 b2 =
  if b1 then b2 else if b2 then false else true

module Nat =
 struct
  (** val eqb : nat -> nat -> bool **)

  let rec eqb n0 m =
    match n0 with
    | O -> (match m with
            | O -> true
            | S _ -> false)
    | S n' -> (match m with
               | O -> false
               | S m' -> eqb n' m')

  (** val leb : nat -> nat -> bool **)

  let rec leb n0 m =
    match n0 with
    | O -> true
    | S n' -> (match m with
               | O -> false
               | S m' -> leb n' m')

  (** val ltb : nat -> nat -> bool **)

  let ltb n0 m =
    leb (S n0) m
 end

(** val map : ('a1 -> 'a2) -> 'a1 list -> 'a2 list **)

let rec map f = function
| [] -> []
| a :: t -> (f a) :: (map f t)

(** val flat_map : ('a1 -> 'a2 list) -> 'a1 list -> 'a2 list **)

let rec flat_map f = function
| [] -> []
| x :: t -> app (f x) (flat_map f t)

(** val existsb : ('a1 -> bool) -> 'a1 list -> bool **)

let rec existsb f = function
| [] -> false
| a :: l0 -> (||) (f a) (existsb f l0)

(** val forallb : ('a1 -> bool) -> 'a1 list -> bool **)

let rec forallb f = function
| [] -> true
| a :: l0 -> (&&) (f a) (forallb f l0)

(** val filter : ('a1 -> bool) -> 'a1 list -> 'a1 list **)

let rec filter f = function
| [] -> []
| x :: l0 -> if f x then x :: (filter f l0) else filter f l0

(** val combine : 'a1 list -> 'a2 list -> ('a1 * 'a2) list **)

let rec combine l l' =
  match l with
  | [] -> []
  | x :: tl ->
    (match l' with
     | [] -> []
     | y :: tl' -> (x, y) :: (combine tl tl'))

(** val seq : nat -> nat -> nat list **)

let rec seq start = function
| O -> []
| S len0 -> start :: (seq (S start) len0)

type positive =
| XI of positive
| XO of positive
| XH

type n =
| N0
| Npos of positive

type z =
| Z0
| Zpos of positive
| Zneg of positive

module Pos =
 struct
  (** val succ : positive -> positive **)

  let rec succ = function
  | XI p -> XO (succ p)
  | XO p -> XI p
  | XH -> XO XH

  (** val add : positive -> positive -> positive **)

  let rec add x y =
    match x with
    | XI p ->
      (match y with
       | XI q -> XO (add_carry p q)
       | XO q -> XI (add p q)
       | XH -> XO (succ p))
    | XO p ->
      (match y with
       | XI q -> XI (add p q)
       | XO q -> XO (add p q)
       | XH -> XI p)
    | XH -> (match y with
             | XI q -> XO (succ q)
             | XO q -> XI q
             | XH -> XO XH)

  (** val add_carry : positive -> positive -> positive **)

  and add_carry x y =
    match x with
    | XI p ->
      (match y with
       | XI q -> XI (add_carry p q)
       | XO q -> XO (add_carry p q)
       | XH -> XI (succ p))
    | XO p ->
      (match y with
       | XI q -> XO (add_carry p q)
       | XO q -> XI (add p q)
       | XH -> XO (succ p))
    | XH ->
      (match y with
       | XI q -> XI (succ q)
       | XO q -> XO (succ q)
       | XH -> XI XH)

  (** val pred_double : positive -> positive **)

  let rec pred_double = function
  | XI p -> XI (XO p)
  | XO p -> XI (pred_double p)
  | XH -> XH

  (** val mul : positive -> positive -> positive **)

  let rec mul x y =
    match x with
    | XI p -> add y (XO (mul p y))
    | XO p -> XO (mul p y)
    | XH -> y

  (** val iter : ('a1 -> 'a1) -> 'a1 -> positive -> 'a1 **)

  let rec iter f x = function
  | XI n' -> f (iter f (iter f x n') n')
  | XO n' -> iter f (iter f x n') n'
  | XH -> f x

  (** val compare_cont : comparison -> positive -> positive -> comparison **)

  let rec compare_cont r x y =
    match x with
    | XI p ->
      (match y with
       | XI q -> compare_cont r p q
       | XO q -> compare_cont Gt p q
       | XH -> Gt)
    | XO p ->
      (match y with
       | XI q -> compare_cont Lt p q
       | XO q -> compare_cont r p q
       | XH -> Gt)
    | XH -> (match y with
             | XH -> r
             | _ -> Lt)

  (** val compare : positive -> positive -> comparison **)

  let compare =
    compare_cont Eq

  (** val eqb : positive -> positive -> bool **)

  let rec eqb p q =
    match p with
    | XI p0 -> (match q with
                | XI q0 -> eqb p0 q0
                | _ -> false)
    | XO p0 -> (match q with
                | XO q0 -> eqb p0 q0
                | _ -> false)
    | XH -> (match q with
             | XH -> true
             | _ -> false)

  (** val iter_op : ('a1 -> 'a1 -> 'a1) -> positive -> 'a1 -> 'a1 **)

  let rec iter_op op p a =
    match p with
    | XI p0 -> op a (iter_op op p0 (op a a))
    | XO p0 -> iter_op op p0 (op a a)
    | XH -> a

  (** val to_nat : positive -> nat **)

  let to_nat x =
    iter_op Coq__1.add x (S O)

  (** val of_succ_nat : nat -> positive **)

  let rec of_succ_nat = function
  | O -> XH
  | S x -> succ (of_succ_nat x)
 end

module N =
 struct
  (** val compare : n -> n -> comparison **)

  let compare n0 m =
    match n0 with
    | N0 -> (match m with
             | N0 -> Eq
             | Npos _ -> Lt)
    | Npos n' -> (match m with
                  | N0 -> Gt
                  | Npos m' -> Pos.compare n' m')

  (** val eqb : n -> n -> bool **)

  let eqb n0 m =
    match n0 with
    | N0 -> (match m with
             | N0 -> true
             | Npos _ -> false)
    | Npos p -> (match m with
                 | N0 -> false
                 | Npos q -> Pos.eqb p q)

  (** val ltb : n -> n -> bool **)

  let ltb x y =
    match compare x y with
    | Lt -> true
    | _ -> false
 end

module Z =
 struct
  (** val double : z -> z **)

  let double = function
  | Z0 -> Z0
  | Zpos p -> Zpos (XO p)
  | Zneg p -> Zneg (XO p)

  (** val succ_double : z -> z **)

  let succ_double = function
  | Z0 -> Zpos XH
  | Zpos p -> Zpos (XI p)
  | Zneg p -> Zneg (Pos.pred_double p)

  (** val pred_double : z -> z **)

  let pred_double = function
  | Z0 -> Zneg XH
  | Zpos p -> Zpos (Pos.pred_double p)
  | Zneg p -> Zneg (XI p)

  (** val pos_sub : positive -> positive -> z **)

  let rec pos_sub x y =
    match x with
    | XI p ->
      (match y with
       | XI q -> double (pos_sub p q)
       | XO q -> succ_double (pos_sub p q)
       | XH -> Zpos (XO p))
    | XO p ->
      (match y with
       | XI q -> pred_double (pos_sub p q)
       | XO q -> double (pos_sub p q)
       | XH -> Zpos (Pos.pred_double p))
    | XH ->
      (match y with
       | XI q -> Zneg (XO q)
       | XO q -> Zneg (Pos.pred_double q)
       | XH -> Z0)

  (** val add : z -> z -> z **)

  let add x y =
    match x with
    | Z0 -> y
    | Zpos x' ->
      (match y with
       | Z0 -> x
       | Zpos y' -> Zpos (Pos.add x' y')
       | Zneg y' -> pos_sub x' y')
    | Zneg x' ->
      (match y with
       | Z0 -> x
       | Zpos y' -> pos_sub y' x'
       | Zneg y' -> Zneg (Pos.add x' y'))

  (** val opp : z -> z **)

  let opp = function
  | Z0 -> Z0
  | Zpos x0 -> Zneg x0
  | Zneg x0 -> Zpos x0

  (** val sub : z -> z -> z **)

  let sub m n0 =
    add m (opp n0)

  (** val mul : z -> z -> z **)

  let mul x y =
    match x with
    | Z0 -> Z0
    | Zpos x' ->
      (match y with
       | Z0 -> Z0
       | Zpos y' -> Zpos (Pos.mul x' y')
       | Zneg y' -> Zneg (Pos.mul x' y'))
    | Zneg x' ->
      (match y with
       | Z0 -> Z0
       | Zpos y' -> Zneg (Pos.mul x' y')
       | Zneg y' -> Zpos (Pos.mul x' y'))

  (** val pow_pos : z -> positive -> z **)

  let pow_pos z0 =
    Pos.iter (mul z0) (Zpos XH)

  (** val pow : z -> z -> z **)

  let pow x = function
  | Z0 -> Zpos XH
  | Zpos p -> pow_pos x p
  | Zneg _ -> Z0

  (** val compare : z -> z -> comparison **)

  let compare x y =
    match x with
    | Z0 -> (match y with
             | Z0 -> Eq
             | Zpos _ -> Lt
             | Zneg _ -> Gt)
    | Zpos x' -> (match y with
                  | Zpos y' -> Pos.compare x' y'
                  | _ -> Gt)
    | Zneg x' ->
      (match y with
       | Zneg y' -> compOpp (Pos.compare x' y')
       | _ -> Lt)

  (** val leb : z -> z -> bool **)

  let leb x y =
    match compare x y with
    | Gt -> false
    | _ -> true

  (** val ltb : z -> z -> bool **)

  let ltb x y =
    match compare x y with
    | Lt -> true
    | _ -> false

  (** val eqb : z -> z -> bool **)

  let eqb x y =
    match x with
    | Z0 -> (match y with
             | Z0 -> true
             | _ -> false)
    | Zpos p -> (match y with
                 | Zpos q -> Pos.eqb p q
                 | _ -> false)
    | Zneg p -> (match y with
                 | Zneg q -> Pos.eqb p q
                 | _ -> false)

  (** val max : z -> z -> z **)

  let max n0 m =
    match compare n0 m with
    | Lt -> m
    | _ -> n0

  (** val min : z -> z -> z **)

  let min n0 m =
    match compare n0 m with
    | Gt -> m
    | _ -> n0

  (** val abs : z -> z **)

  let abs = function
  | Zneg p -> Zpos p
  | x -> x

  (** val to_nat : z -> nat **)

  let to_nat = function
  | Zpos p -> Pos.to_nat p
  | _ -> O

  (** val to_N : z -> n **)

  let to_N = function
  | Zpos p -> Npos p
  | _ -> N0

  (** val of_nat : nat -> z **)

  let of_nat = function
  | O -> Z0
  | S n1 -> Zpos (Pos.of_succ_nat n1)

  (** val of_N : n -> z **)

  let of_N = function
  | N0 -> Z0
  | Npos p -> Zpos p

  (** val pos_div_eucl : positive -> z -> z * z **)

  let rec pos_div_eucl a b =
    match a with
    | XI a' ->
      let (q, r) = pos_div_eucl a' b in
      let r' = add (mul (Zpos (XO XH)) r) (Zpos XH) in
      if ltb r' b
      then ((mul (Zpos (XO XH)) q), r')
      else ((add (mul (Zpos (XO XH)) q) (Zpos XH)), (sub r' b))
    | XO a' ->
      let (q, r) = pos_div_eucl a' b in
      let r' = mul (Zpos (XO XH)) r in
      if ltb r' b
      then ((mul (Zpos (XO XH)) q), r')
      else ((add (mul (Zpos (XO XH)) q) (Zpos XH)), (sub r' b))
    | XH -> if leb (Zpos (XO XH)) b then (Z0, (Zpos XH)) else ((Zpos XH), Z0)

  (** val div_eucl : z -> z -> z * z **)

  let div_eucl a b =
    match a with
    | Z0 -> (Z0, Z0)
    | Zpos a' ->
      (match b with
       | Z0 -> (Z0, a)
       | Zpos _ -> pos_div_eucl a' b
       | Zneg b' ->
         let (q, r) = pos_div_eucl a' (Zpos b') in
         (match r with
          | Z0 -> ((opp q), Z0)
          | _ -> ((opp (add q (Zpos XH))), (add b r))))
    | Zneg a' ->
      (match b with
       | Z0 -> (Z0, a)
       | Zpos _ ->
         let (q, r) = pos_div_eucl a' b in
         (match r with
          | Z0 -> ((opp q), Z0)
          | _ -> ((opp (add q (Zpos XH))), (sub b r)))
       | Zneg b' -> let (q, r) = pos_div_eucl a' (Zpos b') in (q, (opp r)))

  (** val div : z -> z -> z **)

  let div a b =
    let (q, _) = div_eucl a b in q
 end

type str = n list

(** val str_eqb : str -> str -> bool **)

let rec str_eqb a b =
  match a with
  | [] -> (match b with
           | [] -> true
           | _ :: _ -> false)
  | x :: a' ->
    (match b with
     | [] -> false
     | y :: b' -> (&&) (N.eqb x y) (str_eqb a' b'))

(** val str_ltb : str -> str -> bool **)

let rec str_ltb a b =
  match a with
  | [] -> (match b with
           | [] -> false
           | _ :: _ -> true)
  | x :: a' ->
    (match b with
     | [] -> false
     | y :: b' ->
       if N.ltb x y then true else if N.eqb x y then str_ltb a' b' else false)

type jperr =
| ESyntax
| EType
| EIndex
| EName
| ELexer
| ERecursion

type pyexn =
| XOverflow
| XTypeError
| XKeyError
| XIndexError
| XAttribute
| XValue
| XRecursion
| XStopIteration
| XAssertion

type 'a result =
| Ok of 'a
| Err of jperr * z option
| Crash of pyexn
| OutOfFuel

(** val bind : 'a1 result -> ('a1 -> 'a2 result) -> 'a2 result **)

let bind r f =
  match r with
  | Ok a -> f a
  | Err (c, o) -> Err (c, o)
  | Crash x -> Crash x
  | OutOfFuel -> OutOfFuel

(** val jperr_code : jperr -> z **)

let jperr_code = function
| ESyntax -> Zpos XH
| EType -> Zpos (XO XH)
| EIndex -> Zpos (XI XH)
| EName -> Zpos (XO (XO XH))
| ELexer -> Zpos (XI (XO XH))
| ERecursion -> Zpos (XO (XI XH))

(** val pyexn_code : pyexn -> z **)

let pyexn_code = function
| XOverflow -> Zpos XH
| XTypeError -> Zpos (XO XH)
| XKeyError -> Zpos (XI XH)
| XIndexError -> Zpos (XO (XO XH))
| XAttribute -> Zpos (XI (XO XH))
| XValue -> Zpos (XO (XI XH))
| XRecursion -> Zpos (XI (XI XH))
| XStopIteration -> Zpos (XO (XO (XO XH)))
| XAssertion -> Zpos (XI (XO (XO XH)))

(** val flat_mapM :
    ('a1 -> 'a2 list result) -> 'a1 list -> 'a2 list result **)

let rec flat_mapM f = function
| [] -> Ok []
| x :: xs ->
  bind (f x) (fun y -> bind (flat_mapM f xs) (fun ys -> Ok (app y ys)))

(** val zlen : 'a1 list -> z **)

let zlen l =
  Z.of_nat (length l)

(** val znth_aux : 'a1 list -> z -> 'a1 option **)

let rec znth_aux l i =
  match l with
  | [] -> None
  | x :: xs -> if Z.eqb i Z0 then Some x else znth_aux xs (Z.sub i (Zpos XH))

(** val znth : 'a1 list -> z -> 'a1 option **)

let znth l i =
  if Z.ltb i Z0 then None else znth_aux l i

(** val find_assoc : str -> (str * 'a1) list -> 'a1 option **)

let rec find_assoc k = function
| [] -> None
| p :: m' ->
  let (k', v) = p in if str_eqb k k' then Some v else find_assoc k m'

type num =
| NInt of z
| NFlt of z * z
| NNegZero
| NInf of bool

type json =
| JNull
| JBool of bool
| JNum of num
| JStr of str
| JArr of json list
| JObj of (str * json) list

type xval =
| XFin of z * z
| XInf of bool

(** val num_xval : num -> xval **)

let num_xval = function
| NInt z0 -> XFin (z0, Z0)
| NFlt (m, e) -> XFin (m, e)
| NNegZero -> XFin (Z0, Z0)
| NInf s -> XInf s

(** val fin_compare : z -> z -> z -> z -> comparison **)

let fin_compare m1 e1 m2 e2 =
  if Z.leb e1 e2
  then Z.compare m1 (Z.mul m2 (Z.pow (Zpos (XO XH)) (Z.sub e2 e1)))
  else Z.compare (Z.mul m1 (Z.pow (Zpos (XO XH)) (Z.sub e1 e2))) m2

(** val xval_compare : xval -> xval -> comparison **)

let xval_compare a b =
  match a with
  | XFin (m1, e1) ->
    (match b with
     | XFin (m2, e2) -> fin_compare m1 e1 m2 e2
     | XInf neg -> if neg then Gt else Lt)
  | XInf neg ->
    if neg
    then (match b with
          | XFin (_, _) -> Lt
          | XInf neg0 -> if neg0 then Eq else Lt)
    else (match b with
          | XFin (_, _) -> Gt
          | XInf neg0 -> if neg0 then Gt else Eq)

(** val num_compare : num -> num -> comparison **)

let num_compare a b =
  xval_compare (num_xval a) (num_xval b)

(** val num_eqb : num -> num -> bool **)

let num_eqb a b =
  match num_compare a b with
  | Eq -> true
  | _ -> false

(** val num_ltb : num -> num -> bool **)

let num_ltb a b =
  match num_compare a b with
  | Lt -> true
  | _ -> false

(** val num_is_zero : num -> bool **)

let num_is_zero a =
  num_eqb a (NInt Z0)

type key =
| KName of str
| KIdx of z

type node = key list * json

(** val is_container : json -> bool **)

let is_container = function
| JArr _ -> true
| JObj _ -> true
| _ -> false

(** val enum_from : z -> 'a1 list -> (z * 'a1) list **)

let rec enum_from i = function
| [] -> []
| x :: xs -> (i, x) :: (enum_from (Z.add i (Zpos XH)) xs)

(** val children : node -> node list **)

let children n0 =
  match snd n0 with
  | JArr l ->
    map (fun ie -> ((app (fst n0) ((KIdx (fst ie)) :: [])), (snd ie)))
      (enum_from Z0 l)
  | JObj m ->
    map (fun kv -> ((app (fst n0) ((KName (fst kv)) :: [])), (snd kv))) m
  | _ -> []

type 'a dec = z list -> ('a * z list) option

(** val dec_z : z dec **)

let dec_z = function
| [] -> None
| x :: r -> Some (x, r)

(** val dec_bool : bool dec **)

let dec_bool = function
| [] -> None
| x :: r -> Some ((negb (Z.eqb x Z0)), r)

(** val dec_nat : nat dec **)

let dec_nat = function
| [] -> None
| x :: r -> Some ((Z.to_nat x), r)

(** val dec_opt : 'a1 dec -> 'a1 option dec **)

let dec_opt d = function
| [] -> None
| z0 :: r ->
  (match z0 with
   | Z0 -> Some (None, r)
   | _ ->
     (match d r with
      | Some p -> let (x, r') = p in Some ((Some x), r')
      | None -> None))

(** val dec_n : 'a1 dec -> nat -> z list -> ('a1 list * z list) option **)

let rec dec_n d n0 l =
  match n0 with
  | O -> Some ([], l)
  | S n' ->
    (match d l with
     | Some p ->
       let (x, r) = p in
       (match dec_n d n' r with
        | Some p0 -> let (xs, r') = p0 in Some ((x :: xs), r')
        | None -> None)
     | None -> None)

(** val dec_list : 'a1 dec -> 'a1 list dec **)

let dec_list d = function
| [] -> None
| n0 :: r -> dec_n d (Z.to_nat n0) r

(** val dec_cp : n dec **)

let dec_cp = function
| [] -> None
| x :: r -> Some ((Z.to_N x), r)

(** val dec_str : str dec **)

let dec_str =
  dec_list dec_cp

(** val dec_pair : 'a1 dec -> 'a2 dec -> ('a1 * 'a2) dec **)

let dec_pair da db l =
  match da l with
  | Some p ->
    let (a, r) = p in
    (match db r with
     | Some p0 -> let (b, r') = p0 in Some ((a, b), r')
     | None -> None)
  | None -> None

(** val dec_json_f : nat -> z list -> (json * z list) option **)

let rec dec_json_f fuel l =
  match fuel with
  | O -> None
  | S f ->
    (match l with
     | [] -> None
     | z0 :: r ->
       (match z0 with
        | Z0 -> Some (JNull, r)
        | Zpos p ->
          (match p with
           | XI p0 ->
             (match p0 with
              | XI p1 ->
                (match p1 with
                 | XH ->
                   (match dec_list (dec_json_f f) r with
                    | Some p2 -> let (xs, r') = p2 in Some ((JArr xs), r')
                    | None -> None)
                 | _ -> None)
              | XO p1 ->
                (match p1 with
                 | XH ->
                   (match r with
                    | [] -> None
                    | b :: r0 -> Some ((JNum (NInf (negb (Z.eqb b Z0)))), r0))
                 | _ -> None)
              | XH ->
                (match r with
                 | [] -> None
                 | m :: l0 ->
                   (match l0 with
                    | [] -> None
                    | e :: r0 -> Some ((JNum (NFlt (m, e))), r0))))
           | XO p0 ->
             (match p0 with
              | XI p1 ->
                (match p1 with
                 | XH ->
                   (match dec_str r with
                    | Some p2 -> let (s, r') = p2 in Some ((JStr s), r')
                    | None -> None)
                 | _ -> None)
              | XO p1 ->
                (match p1 with
                 | XI _ -> None
                 | XO p2 ->
                   (match p2 with
                    | XH ->
                      (match dec_list (dec_pair dec_str (dec_json_f f)) r with
                       | Some p3 -> let (xs, r') = p3 in Some ((JObj xs), r')
                       | None -> None)
                    | _ -> None)
                 | XH -> Some ((JNum NNegZero), r))
              | XH ->
                (match r with
                 | [] -> None
                 | z1 :: r0 -> Some ((JNum (NInt z1)), r0)))
           | XH ->
             (match r with
              | [] -> None
              | b :: r0 -> Some ((JBool (negb (Z.eqb b Z0))), r0)))
        | Zneg _ -> None))

(** val dec_json : json dec **)

let dec_json l =
  dec_json_f (S (length l)) l

(** val enc_bool : bool -> z list **)

let enc_bool b =
  (if b then Zpos XH else Z0) :: []

(** val enc_opt : ('a1 -> z list) -> 'a1 option -> z list **)

let enc_opt e = function
| Some x -> (Zpos XH) :: (e x)
| None -> Z0 :: []

(** val enc_list : ('a1 -> z list) -> 'a1 list -> z list **)

let enc_list e l =
  (zlen l) :: (flat_map e l)

(** val enc_str : str -> z list **)

let enc_str s =
  (zlen s) :: (map Z.of_N s)

(** val enc_num : num -> z list **)

let enc_num = function
| NInt z0 -> (Zpos (XO XH)) :: (z0 :: [])
| NFlt (m, e) -> (Zpos (XI XH)) :: (m :: (e :: []))
| NNegZero -> (Zpos (XO (XO XH))) :: []
| NInf b -> (Zpos (XI (XO XH))) :: (enc_bool b)

(** val enc_json : json -> z list **)

let rec enc_json = function
| JNull -> Z0 :: []
| JBool b -> (Zpos XH) :: (enc_bool b)
| JNum n0 -> enc_num n0
| JStr s -> (Zpos (XO (XI XH))) :: (enc_str s)
| JArr l -> (Zpos (XI (XI XH))) :: ((zlen l) :: (flat_map enc_json l))
| JObj m ->
  (Zpos (XO (XO (XO
    XH)))) :: ((zlen m) :: (flat_map (fun kv ->
                             app (enc_str (fst kv)) (enc_json (snd kv))) m))

(** val enc_key : key -> z list **)

let enc_key = function
| KName s -> Z0 :: (enc_str s)
| KIdx i -> (Zpos XH) :: (i :: [])

(** val enc_node : node -> z list **)

let enc_node n0 =
  app (enc_list enc_key (fst n0)) (enc_json (snd n0))

(** val enc_result : ('a1 -> z list) -> 'a1 result -> z list **)

let enc_result e = function
| Ok a -> Z0 :: (e a)
| Err (c, o) ->
  (Zpos XH) :: ((jperr_code c) :: (enc_opt (fun z0 -> z0 :: []) o))
| Crash x -> (Zpos (XO XH)) :: ((pyexn_code x) :: [])
| OutOfFuel -> (Zpos (XI XH)) :: []

(** val bad_request : z list **)

let bad_request =
  (Zneg XH) :: []

type ty3 =
| TValue
| TLogical
| TNodes

type cmpop =
| OEq
| ONe
| OLt
| OLe
| OGt
| OGe

type sel =
| SName of str
| SIndex of z
| SSlice of z option * z option * z option
| SWild
| SFilter of expr
and expr =
| ELit of json
| ERel of seg list
| EAbs of seg list
| ECall of str * expr list
| ENot of expr
| EAnd of expr * expr
| EOr of expr * expr
| ECmp of cmpop * expr * expr
and seg =
| Child of sel list
| Desc of sel list

type query = seg list

type pyobj =
| PVal of json
| PNodes of node list
| PNothing

type fimpl =
| FLength
| FCount
| FValue
| FMatch
| FSearch
| FConst of pyobj
| FFirst

type fdecl = { f_args : ty3 list; f_ret : ty3; f_impl : fimpl }

type registry = (str * fdecl) list

type envcfg = { min_idx : z; max_idx : z; max_depth : nat; reg : registry;
                rx : (bool -> str -> str -> bool) }

(** val dec_cmpop : cmpop dec **)

let dec_cmpop = function
| [] -> None
| z0 :: r ->
  (match z0 with
   | Z0 -> Some (OEq, r)
   | Zpos p ->
     (match p with
      | XI p0 ->
        (match p0 with
         | XI _ -> None
         | XO p1 -> (match p1 with
                     | XH -> Some (OGe, r)
                     | _ -> None)
         | XH -> Some (OLe, r))
      | XO p0 ->
        (match p0 with
         | XI _ -> None
         | XO p1 -> (match p1 with
                     | XH -> Some (OGt, r)
                     | _ -> None)
         | XH -> Some (OLt, r))
      | XH -> Some (ONe, r))
   | Zneg _ -> None)

(** val dec_ty3 : ty3 dec **)

let dec_ty3 = function
| [] -> None
| z0 :: r ->
  (match z0 with
   | Zpos p ->
     (match p with
      | XI p0 -> (match p0 with
                  | XH -> Some (TNodes, r)
                  | _ -> None)
      | XO p0 -> (match p0 with
                  | XH -> Some (TLogical, r)
                  | _ -> None)
      | XH -> Some (TValue, r))
   | _ -> None)

(** val dec_sel_f : nat -> z list -> (sel * z list) option **)

let rec dec_sel_f fuel l =
  match fuel with
  | O -> None
  | S f ->
    (match l with
     | [] -> None
     | z0 :: r ->
       (match z0 with
        | Z0 ->
          (match dec_str r with
           | Some p -> let (s, r') = p in Some ((SName s), r')
           | None -> None)
        | Zpos p ->
          (match p with
           | XI p0 -> (match p0 with
                       | XH -> Some (SWild, r)
                       | _ -> None)
           | XO p0 ->
             (match p0 with
              | XI _ -> None
              | XO p1 ->
                (match p1 with
                 | XH ->
                   (match dec_expr_f f r with
                    | Some p2 -> let (e, r') = p2 in Some ((SFilter e), r')
                    | None -> None)
                 | _ -> None)
              | XH ->
                (match dec_opt dec_z r with
                 | Some p1 ->
                   let (a, r1) = p1 in
                   (match dec_opt dec_z r1 with
                    | Some p2 ->
                      let (b, r2) = p2 in
                      (match dec_opt dec_z r2 with
                       | Some p3 ->
                         let (c, r3) = p3 in Some ((SSlice (a, b, c)), r3)
                       | None -> None)
                    | None -> None)
                 | None -> None))
           | XH ->
             (match r with
              | [] -> None
              | i :: r0 -> Some ((SIndex i), r0)))
        | Zneg _ -> None))

(** val dec_expr_f : nat -> z list -> (expr * z list) option **)

and dec_expr_f fuel l =
  match fuel with
  | O -> None
  | S f ->
    (match l with
     | [] -> None
     | z0 :: r ->
       (match z0 with
        | Z0 ->
          (match dec_json r with
           | Some p -> let (v, r') = p in Some ((ELit v), r')
           | None -> None)
        | Zpos p ->
          (match p with
           | XI p0 ->
             (match p0 with
              | XI p1 ->
                (match p1 with
                 | XH ->
                   (match dec_cmpop r with
                    | Some p2 ->
                      let (o, r0) = p2 in
                      (match dec_expr_f f r0 with
                       | Some p3 ->
                         let (a, r1) = p3 in
                         (match dec_expr_f f r1 with
                          | Some p4 ->
                            let (b, r2) = p4 in Some ((ECmp (o, a, b)), r2)
                          | None -> None)
                       | None -> None)
                    | None -> None)
                 | _ -> None)
              | XO p1 ->
                (match p1 with
                 | XH ->
                   (match dec_expr_f f r with
                    | Some p2 ->
                      let (a, r1) = p2 in
                      (match dec_expr_f f r1 with
                       | Some p3 ->
                         let (b, r2) = p3 in Some ((EAnd (a, b)), r2)
                       | None -> None)
                    | None -> None)
                 | _ -> None)
              | XH ->
                (match dec_str r with
                 | Some p1 ->
                   let (nm, r1) = p1 in
                   (match dec_list (dec_expr_f f) r1 with
                    | Some p2 ->
                      let (args, r2) = p2 in Some ((ECall (nm, args)), r2)
                    | None -> None)
                 | None -> None))
           | XO p0 ->
             (match p0 with
              | XI p1 ->
                (match p1 with
                 | XH ->
                   (match dec_expr_f f r with
                    | Some p2 ->
                      let (a, r1) = p2 in
                      (match dec_expr_f f r1 with
                       | Some p3 ->
                         let (b, r2) = p3 in Some ((EOr (a, b)), r2)
                       | None -> None)
                    | None -> None)
                 | _ -> None)
              | XO p1 ->
                (match p1 with
                 | XH ->
                   (match dec_expr_f f r with
                    | Some p2 -> let (a, r') = p2 in Some ((ENot a), r')
                    | None -> None)
                 | _ -> None)
              | XH ->
                (match dec_list (dec_seg_f f) r with
                 | Some p1 -> let (q, r') = p1 in Some ((EAbs q), r')
                 | None -> None))
           | XH ->
             (match dec_list (dec_seg_f f) r with
              | Some p0 -> let (q, r') = p0 in Some ((ERel q), r')
              | None -> None))
        | Zneg _ -> None))

(** val dec_seg_f : nat -> z list -> (seg * z list) option **)

and dec_seg_f fuel l =
  match fuel with
  | O -> None
  | S f ->
    (match l with
     | [] -> None
     | z0 :: r ->
       (match z0 with
        | Z0 ->
          (match dec_list (dec_sel_f f) r with
           | Some p -> let (ss, r') = p in Some ((Child ss), r')
           | None -> None)
        | Zpos p ->
          (match p with
           | XH ->
             (match dec_list (dec_sel_f f) r with
              | Some p0 -> let (ss, r') = p0 in Some ((Desc ss), r')
              | None -> None)
           | _ -> None)
        | Zneg _ -> None))

(** val dec_query : query dec **)

let dec_query l =
  dec_list (dec_seg_f (S (length l))) l

(** val dec_pyobj : pyobj dec **)

let dec_pyobj = function
| [] -> None
| z0 :: r ->
  (match z0 with
   | Z0 ->
     (match dec_json r with
      | Some p -> let (v, r') = p in Some ((PVal v), r')
      | None -> None)
   | Zpos p ->
     (match p with
      | XI _ -> None
      | XO p0 -> (match p0 with
                  | XH -> Some ((PNodes []), r)
                  | _ -> None)
      | XH -> Some (PNothing, r))
   | Zneg _ -> None)

(** val dec_fimpl : fimpl dec **)

let dec_fimpl = function
| [] -> None
| z0 :: r ->
  (match z0 with
   | Z0 -> Some (FLength, r)
   | Zpos p ->
     (match p with
      | XI p0 ->
        (match p0 with
         | XI _ -> None
         | XO p1 ->
           (match p1 with
            | XH ->
              (match dec_pyobj r with
               | Some p2 -> let (p3, r') = p2 in Some ((FConst p3), r')
               | None -> None)
            | _ -> None)
         | XH -> Some (FMatch, r))
      | XO p0 ->
        (match p0 with
         | XI p1 -> (match p1 with
                     | XH -> Some (FFirst, r)
                     | _ -> None)
         | XO p1 -> (match p1 with
                     | XH -> Some (FSearch, r)
                     | _ -> None)
         | XH -> Some (FValue, r))
      | XH -> Some (FCount, r))
   | Zneg _ -> None)

(** val dec_fdecl : (str * fdecl) dec **)

let dec_fdecl l =
  match dec_str l with
  | Some p ->
    let (nm, r0) = p in
    (match dec_list dec_ty3 r0 with
     | Some p0 ->
       let (args, r1) = p0 in
       (match dec_ty3 r1 with
        | Some p1 ->
          let (ret, r2) = p1 in
          (match dec_fimpl r2 with
           | Some p2 ->
             let (im, r3) = p2 in
             Some ((nm, { f_args = args; f_ret = ret; f_impl = im }), r3)
           | None -> None)
        | None -> None)
     | None -> None)
  | None -> None

(** val dec_registry : registry dec **)

let dec_registry =
  dec_list dec_fdecl

type rxrow = ((bool * str) * str) * bool

(** val dec_rxrow : rxrow dec **)

let dec_rxrow l =
  match dec_bool l with
  | Some p ->
    let (sr, r0) = p in
    (match dec_str r0 with
     | Some p0 ->
       let (s, r1) = p0 in
       (match dec_str r1 with
        | Some p1 ->
          let (p2, r2) = p1 in
          (match dec_bool r2 with
           | Some p3 -> let (b, r3) = p3 in Some ((((sr, s), p2), b), r3)
           | None -> None)
        | None -> None)
     | None -> None)
  | None -> None

(** val rx_lookup : rxrow list -> bool -> str -> str -> bool **)

let rec rx_lookup t sr s p =
  match t with
  | [] -> false
  | r :: t' ->
    let (p0, b) = r in
    let (p1, p') = p0 in
    let (sr', s') = p1 in
    if (&&) ((&&) (eqb sr sr') (str_eqb s s')) (str_eqb p p')
    then b
    else rx_lookup t' sr s p

(** val py_slice_indices :
    z -> z option -> z option -> z option -> (z * z) * z **)

let py_slice_indices len start stop step =
  let st = match step with
           | Some s -> s
           | None -> Zpos XH in
  let neg = Z.ltb st Z0 in
  let lower = if neg then Zneg XH else Z0 in
  let upper = if neg then Z.sub len (Zpos XH) else len in
  let clamp = fun x dflt ->
    match x with
    | Some v ->
      if Z.ltb v Z0
      then let v' = Z.add v len in if Z.ltb v' lower then lower else v'
      else if Z.ltb upper v then upper else v
    | None -> dflt
  in
  (((clamp start (if neg then upper else lower)),
  (clamp stop (if neg then lower else upper))), st)

(** val py_range_len : z -> z -> z -> z **)

let py_range_len lo hi step =
  if Z.ltb Z0 step
  then if Z.ltb lo hi
       then Z.add (Z.div (Z.sub (Z.sub hi lo) (Zpos XH)) step) (Zpos XH)
       else Z0
  else if Z.ltb hi lo
       then Z.add (Z.div (Z.sub (Z.sub lo hi) (Zpos XH)) (Z.opp step)) (Zpos
              XH)
       else Z0

(** val py_range : z -> z -> z -> z list **)

let py_range lo hi step =
  map (fun k -> Z.add lo (Z.mul (Z.of_nat k) step))
    (seq O (Z.to_nat (py_range_len lo hi step)))

(** val py_list_getitem : 'a1 list -> z -> 'a1 option **)

let py_list_getitem l i =
  znth l (if Z.ltb i Z0 then Z.add i (zlen l) else i)

(** val m_normalized_index : z -> z -> z **)

let m_normalized_index len i =
  if (&&) (Z.ltb i Z0) (Z.leb (Z.abs i) len) then Z.add len i else i

(** val m_index_select : json list -> z -> (z * json) list **)

let m_index_select l i =
  match py_list_getitem l i with
  | Some x -> ((m_normalized_index (zlen l) i), x) :: []
  | None -> []

(** val m_slice_select :
    json list -> z option -> z option -> z option -> (z * json) list **)

let m_slice_select l s e t = match t with
| Some z0 ->
  (match z0 with
   | Z0 -> []
   | Zpos _ ->
     let (p, st) = py_slice_indices (zlen l) s e t in
     let (lo, hi) = p in
     let idxs = py_range lo hi st in
     let elems =
       flat_map (fun i -> match znth l i with
                          | Some x -> x :: []
                          | None -> []) idxs
     in
     combine idxs elems
   | Zneg _ ->
     let (p, st) = py_slice_indices (zlen l) s e t in
     let (lo, hi) = p in
     let idxs = py_range lo hi st in
     let elems =
       flat_map (fun i -> match znth l i with
                          | Some x -> x :: []
                          | None -> []) idxs
     in
     combine idxs elems)
| None ->
  let (p, st) = py_slice_indices (zlen l) s e t in
  let (lo, hi) = p in
  let idxs = py_range lo hi st in
  let elems =
    flat_map (fun i -> match znth l i with
                       | Some x -> x :: []
                       | None -> []) idxs
  in
  combine idxs elems

(** val normalize : z -> z -> z **)

let normalize i len =
  if Z.leb Z0 i then i else Z.add len i

(** val bounds : z -> z -> z -> z -> z * z **)

let bounds start end_ step len =
  let n_start = normalize start len in
  let n_end = normalize end_ len in
  if Z.leb Z0 step
  then ((Z.min (Z.max n_start Z0) len), (Z.min (Z.max n_end Z0) len))
  else ((Z.min (Z.max n_end (Zneg XH)) (Z.sub len (Zpos XH))),
         (Z.min (Z.max n_start (Zneg XH)) (Z.sub len (Zpos XH))))

(** val loop_up : nat -> z -> z -> z -> z list **)

let rec loop_up fuel i upper step =
  match fuel with
  | O -> []
  | S f ->
    if Z.ltb i upper then i :: (loop_up f (Z.add i step) upper step) else []

(** val loop_down : nat -> z -> z -> z -> z list **)

let rec loop_down fuel i lower step =
  match fuel with
  | O -> []
  | S f ->
    if Z.ltb lower i then i :: (loop_down f (Z.add i step) lower step) else []

(** val slice_fuel : z -> nat **)

let slice_fuel len =
  S (Z.to_nat len)

(** val rfc_slice_fuel :
    nat -> z -> z option -> z option -> z option -> z list **)

let rfc_slice_fuel fuel len s e t =
  let step = match t with
             | Some x -> x
             | None -> Zpos XH in
  if Z.eqb step Z0
  then []
  else let start =
         match s with
         | Some x -> x
         | None -> if Z.leb Z0 step then Z0 else Z.sub len (Zpos XH)
       in
       let end_ =
         match e with
         | Some x -> x
         | None -> if Z.leb Z0 step then len else Z.sub (Z.opp len) (Zpos XH)
       in
       let (lower, upper) = bounds start end_ step len in
       if Z.ltb Z0 step
       then loop_up fuel lower upper step
       else loop_down fuel upper lower step

(** val rfc_slice : z -> z option -> z option -> z option -> z list **)

let rfc_slice len s e t =
  rfc_slice_fuel (slice_fuel len) len s e t

(** val rfc_index : z -> z -> z list **)

let rfc_index len i =
  let n0 = normalize i len in
  if (&&) (Z.leb Z0 n0) (Z.ltb n0 len) then n0 :: [] else []

(** val py_bool : json -> bool **)

let py_bool = function
| JNull -> false
| JBool b -> b
| JNum n0 -> negb (num_is_zero n0)
| JStr s -> (match s with
             | [] -> false
             | _ :: _ -> true)
| JArr l -> (match l with
             | [] -> false
             | _ :: _ -> true)
| JObj m -> (match m with
             | [] -> false
             | _ :: _ -> true)

(** val m_is_truthy : pyobj -> bool **)

let m_is_truthy = function
| PVal v -> (match v with
             | JNull -> true
             | _ -> py_bool v)
| PNodes ns -> (match ns with
                | [] -> false
                | _ :: _ -> true)
| PNothing -> false

(** val m_json_eq : json -> json -> bool **)

let rec m_json_eq a b =
  match a with
  | JNull -> (match b with
              | JNull -> true
              | _ -> false)
  | JBool x -> (match b with
                | JBool y -> eqb x y
                | _ -> false)
  | JNum x -> (match b with
               | JNum y -> num_eqb x y
               | _ -> false)
  | JStr x -> (match b with
               | JStr y -> str_eqb x y
               | _ -> false)
  | JArr x ->
    (match b with
     | JArr y ->
       let rec go x0 y0 =
         match x0 with
         | [] -> (match y0 with
                  | [] -> true
                  | _ :: _ -> false)
         | a' :: x' ->
           (match y0 with
            | [] -> false
            | b' :: y' -> (&&) (m_json_eq a' b') (go x' y'))
       in go x y
     | _ -> false)
  | JObj x ->
    (match b with
     | JObj y ->
       (&&) (Nat.eqb (length x) (length y))
         (let rec go = function
          | [] -> true
          | p :: x' ->
            let (k, v) = p in
            (match find_assoc k y with
             | Some v' -> (&&) (m_json_eq v v') (go x')
             | None -> false)
          in go x)
     | _ -> false)

(** val m_eq : pyobj -> pyobj -> bool **)

let m_eq left0 right0 = match right0 with
| PNodes _ ->
  (match right0 with
   | PVal l -> (match left0 with
                | PVal r -> m_json_eq l r
                | _ -> false)
   | PNodes ln ->
     (match left0 with
      | PNodes rn ->
        (match ln with
         | [] -> (match rn with
                  | [] -> true
                  | _ :: _ -> false)
         | _ :: _ -> false)
      | _ ->
        (match ln with
         | [] -> (match left0 with
                  | PNothing -> true
                  | _ -> false)
         | _ :: _ -> false))
   | PNothing -> (match left0 with
                  | PNothing -> true
                  | _ -> false))
| _ ->
  (match left0 with
   | PVal l -> (match right0 with
                | PVal r -> m_json_eq l r
                | _ -> false)
   | PNodes ln ->
     (match right0 with
      | PNodes rn ->
        (match ln with
         | [] -> (match rn with
                  | [] -> true
                  | _ :: _ -> false)
         | _ :: _ -> false)
      | _ ->
        (match ln with
         | [] -> (match right0 with
                  | PNothing -> true
                  | _ -> false)
         | _ :: _ -> false))
   | PNothing -> (match right0 with
                  | PNothing -> true
                  | _ -> false))

(** val m_lt : pyobj -> pyobj -> bool **)

let m_lt lhs rhs =
  match lhs with
  | PVal v ->
    (match v with
     | JNum a ->
       (match rhs with
        | PVal v0 -> (match v0 with
                      | JNum b -> num_ltb a b
                      | _ -> false)
        | _ -> false)
     | JStr a ->
       (match rhs with
        | PVal v0 -> (match v0 with
                      | JStr b -> str_ltb a b
                      | _ -> false)
        | _ -> false)
     | _ -> false)
  | _ -> false

(** val m_cmp : cmpop -> pyobj -> pyobj -> bool **)

let m_cmp o l r =
  match o with
  | OEq -> m_eq l r
  | ONe -> negb (m_eq l r)
  | OLt -> m_lt l r
  | OLe -> (||) (m_lt l r) (m_eq l r)
  | OGt -> m_lt r l
  | OGe -> (||) (m_lt r l) (m_eq l r)

(** val mk_child : node -> key -> json -> node **)

let mk_child n0 k v =
  ((app (fst n0) (k :: [])), v)

(** val m_visit : nat -> nat -> key list -> json -> node list result **)

let rec m_visit limit d loc v =
  if Nat.ltb limit d
  then Err (ERecursion, None)
  else (match v with
        | JArr l ->
          bind
            (let rec go i = function
             | [] -> Ok []
             | x :: xs ->
               bind
                 (if is_container x
                  then m_visit limit (S d) (app loc ((KIdx i) :: [])) x
                  else Ok []) (fun a ->
                 bind (go (Z.add i (Zpos XH)) xs) (fun b -> Ok (app a b)))
             in go Z0 l) (fun rest -> Ok ((loc, v) :: rest))
        | JObj m ->
          bind
            (let rec go = function
             | [] -> Ok []
             | p :: xs ->
               let (k, x) = p in
               bind
                 (if is_container x
                  then m_visit limit (S d) (app loc ((KName k) :: [])) x
                  else Ok []) (fun a -> bind (go xs) (fun b -> Ok (app a b)))
             in go m) (fun rest -> Ok ((loc, v) :: rest))
        | _ -> Ok ((loc, v) :: []))

(** val m_py_len : pyobj -> z option **)

let m_py_len = function
| PVal v ->
  (match v with
   | JStr s -> Some (zlen s)
   | JArr l -> Some (zlen l)
   | JObj m -> Some (zlen m)
   | _ -> None)
| PNodes ns -> Some (zlen ns)
| PNothing -> None

(** val m_apply : envcfg -> fdecl -> pyobj list -> pyobj result **)

let m_apply cfg d args =
  match d.f_impl with
  | FLength ->
    (match args with
     | [] -> Crash XTypeError
     | o :: l ->
       (match l with
        | [] ->
          (match m_py_len o with
           | Some n0 -> Ok (PVal (JNum (NInt n0)))
           | None -> Ok PNothing)
        | _ :: _ -> Crash XTypeError))
  | FCount ->
    (match args with
     | [] -> Crash XTypeError
     | o :: l ->
       (match l with
        | [] ->
          (match m_py_len o with
           | Some n0 -> Ok (PVal (JNum (NInt n0)))
           | None -> Crash XTypeError)
        | _ :: _ -> Crash XTypeError))
  | FValue ->
    (match args with
     | [] -> Crash XTypeError
     | o :: l ->
       (match l with
        | [] ->
          (match o with
           | PNodes ns ->
             (match ns with
              | [] -> Ok PNothing
              | n0 :: l0 ->
                (match l0 with
                 | [] -> Ok (PVal (snd n0))
                 | _ :: _ -> Ok PNothing))
           | _ ->
             (match m_py_len o with
              | Some z0 ->
                (match z0 with
                 | Zpos p ->
                   (match p with
                    | XH -> Crash XAttribute
                    | _ -> Ok PNothing)
                 | _ -> Ok PNothing)
              | None -> Crash XTypeError))
        | _ :: _ -> Crash XTypeError))
  | FMatch ->
    (match args with
     | [] -> Crash XTypeError
     | s :: l ->
       (match l with
        | [] -> Crash XTypeError
        | p :: l0 ->
          (match l0 with
           | [] ->
             (match s with
              | PVal v ->
                (match v with
                 | JStr s' ->
                   (match p with
                    | PVal v0 ->
                      (match v0 with
                       | JStr p' -> Ok (PVal (JBool (cfg.rx false s' p')))
                       | _ -> Ok (PVal (JBool false)))
                    | _ -> Ok (PVal (JBool false)))
                 | _ -> Ok (PVal (JBool false)))
              | _ -> Ok (PVal (JBool false)))
           | _ :: _ -> Crash XTypeError)))
  | FSearch ->
    (match args with
     | [] -> Crash XTypeError
     | s :: l ->
       (match l with
        | [] -> Crash XTypeError
        | p :: l0 ->
          (match l0 with
           | [] ->
             (match s with
              | PVal v ->
                (match v with
                 | JStr s' ->
                   (match p with
                    | PVal v0 ->
                      (match v0 with
                       | JStr p' -> Ok (PVal (JBool (cfg.rx true s' p')))
                       | _ -> Ok (PVal (JBool false)))
                    | _ -> Ok (PVal (JBool false)))
                 | _ -> Ok (PVal (JBool false)))
              | _ -> Ok (PVal (JBool false)))
           | _ :: _ -> Crash XTypeError)))
  | FConst p -> Ok p
  | FFirst -> (match args with
               | [] -> Crash XTypeError
               | o :: _ -> Ok o)

(** val m_unpack : ty3 list -> pyobj list -> pyobj list result **)

let rec m_unpack tys = function
| [] -> Ok []
| a :: args' ->
  (match tys with
   | [] -> Crash XIndexError
   | t :: tys' ->
     let a' =
       match t with
       | TValue ->
         (match a with
          | PNodes ns ->
            (match ns with
             | [] -> PNothing
             | n0 :: l -> (match l with
                           | [] -> PVal (snd n0)
                           | _ :: _ -> a))
          | _ -> a)
       | TLogical -> PVal (JBool (m_is_truthy a))
       | TNodes -> a
     in
     bind (m_unpack tys' args') (fun r -> Ok (a' :: r)))

(** val m_unwrap1 : pyobj -> pyobj **)

let m_unwrap1 o = match o with
| PNodes ns ->
  (match ns with
   | [] -> o
   | n0 :: l -> (match l with
                 | [] -> PVal (snd n0)
                 | _ :: _ -> o))
| _ -> o

(** val run_segs :
    (seg -> node list -> node list result) -> seg list -> node list -> node
    list result **)

let rec run_segs f q ns =
  match q with
  | [] -> Ok ns
  | sg :: q' -> bind (f sg ns) (fun ns' -> run_segs f q' ns')

(** val m_seg : envcfg -> json -> seg -> node list -> node list result **)

let m_seg cfg =
  let rec m_sel root s n0 =
    match s with
    | SName k ->
      (match snd n0 with
       | JNull -> Ok []
       | JBool _ -> Ok []
       | JNum _ -> Ok []
       | JStr _ -> Ok []
       | JArr _ -> Ok []
       | JObj m ->
         (match find_assoc k m with
          | Some v -> Ok ((mk_child n0 (KName k) v) :: [])
          | None -> Ok []))
    | SIndex i ->
      (match snd n0 with
       | JArr l ->
         Ok
           (map (fun p -> mk_child n0 (KIdx (fst p)) (snd p))
             (m_index_select l i))
       | _ -> Ok [])
    | SSlice (a, b, c) ->
      (match snd n0 with
       | JArr l ->
         Ok
           (map (fun p -> mk_child n0 (KIdx (fst p)) (snd p))
             (m_slice_select l a b c))
       | _ -> Ok [])
    | SWild -> Ok (children n0)
    | SFilter e ->
      let rec go = function
      | [] -> Ok []
      | c :: cs' ->
        bind (m_expr root (snd c) e) (fun o ->
          bind (go cs') (fun r -> Ok (if m_is_truthy o then c :: r else r)))
      in go (children n0)
  and m_expr root cur = function
  | ELit v -> Ok (PVal v)
  | ERel q ->
    bind
      (let rec segs q0 ns =
         match q0 with
         | [] -> Ok ns
         | sg :: q' -> bind (m_seg0 root sg ns) (fun ns' -> segs q' ns')
       in segs q (([], cur) :: [])) (fun ns -> Ok (PNodes ns))
  | EAbs q ->
    bind
      (let rec segs q0 ns =
         match q0 with
         | [] -> Ok ns
         | sg :: q' -> bind (m_seg0 root sg ns) (fun ns' -> segs q' ns')
       in segs q (([], root) :: [])) (fun ns -> Ok (PNodes ns))
  | ECall (f, args) ->
    (match find_assoc f cfg.reg with
     | Some d ->
       bind
         (let rec go = function
          | [] -> Ok []
          | a :: args' ->
            bind (m_expr root cur a) (fun x ->
              bind (go args') (fun r -> Ok (x :: r)))
          in go args) (fun vs ->
         bind (m_unpack d.f_args vs) (fun us -> m_apply cfg d us))
     | None -> Ok PNothing)
  | ENot a ->
    bind (m_expr root cur a) (fun o -> Ok (PVal (JBool
      (negb (m_is_truthy o)))))
  | EAnd (a, b) ->
    bind (m_expr root cur a) (fun x ->
      bind (m_expr root cur b) (fun y -> Ok (PVal (JBool
        ((&&) (m_is_truthy x) (m_is_truthy y))))))
  | EOr (a, b) ->
    bind (m_expr root cur a) (fun x ->
      bind (m_expr root cur b) (fun y -> Ok (PVal (JBool
        ((||) (m_is_truthy x) (m_is_truthy y))))))
  | ECmp (o, a, b) ->
    bind (m_expr root cur a) (fun x ->
      bind (m_expr root cur b) (fun y -> Ok (PVal (JBool
        (m_cmp o (m_unwrap1 x) (m_unwrap1 y))))))
  and m_seg0 root sg ns =
    match sg with
    | Child ss ->
      flat_mapM (fun n0 ->
        let rec go = function
        | [] -> Ok []
        | s :: ss' ->
          bind (m_sel root s n0) (fun a ->
            bind (go ss') (fun b -> Ok (app a b)))
        in go ss) ns
    | Desc ss ->
      flat_mapM (fun n0 ->
        bind (m_visit cfg.max_depth (S O) (fst n0) (snd n0)) (fun vs ->
          flat_mapM (fun v ->
            let rec go = function
            | [] -> Ok []
            | s :: ss' ->
              bind (m_sel root s v) (fun a ->
                bind (go ss') (fun b -> Ok (app a b)))
            in go ss) vs)) ns
  in m_seg0

(** val m_segs :
    envcfg -> json -> seg list -> node list -> node list result **)

let m_segs cfg root q ns =
  run_segs (m_seg cfg root) q ns

(** val m_find : envcfg -> query -> json -> node list result **)

let m_find cfg q v =
  m_segs cfg v q (([], v) :: [])

type comparand =
| Nothing
| Val of json

(** val json_eq : json -> json -> bool **)

let rec json_eq a b =
  match a with
  | JNull -> (match b with
              | JNull -> true
              | _ -> false)
  | JBool x -> (match b with
                | JBool y -> eqb x y
                | _ -> false)
  | JNum x -> (match b with
               | JNum y -> num_eqb x y
               | _ -> false)
  | JStr x -> (match b with
               | JStr y -> str_eqb x y
               | _ -> false)
  | JArr x ->
    (match b with
     | JArr y ->
       let rec go x0 y0 =
         match x0 with
         | [] -> (match y0 with
                  | [] -> true
                  | _ :: _ -> false)
         | a' :: x' ->
           (match y0 with
            | [] -> false
            | b' :: y' -> (&&) (json_eq a' b') (go x' y'))
       in go x y
     | _ -> false)
  | JObj x ->
    (match b with
     | JObj y ->
       (&&)
         (let rec go = function
          | [] -> true
          | p :: x' ->
            let (k, v) = p in
            (match find_assoc k y with
             | Some v' -> (&&) (json_eq v v') (go x')
             | None -> false)
          in go x)
         (forallb (fun k -> existsb (str_eqb k) (map fst x)) (map fst y))
     | _ -> false)

(** val c_eq : comparand -> comparand -> bool **)

let c_eq a b =
  match a with
  | Nothing -> (match b with
                | Nothing -> true
                | Val _ -> false)
  | Val x -> (match b with
              | Nothing -> false
              | Val y -> json_eq x y)

(** val c_lt : comparand -> comparand -> bool **)

let c_lt a b =
  match a with
  | Nothing -> false
  | Val v ->
    (match v with
     | JNum x ->
       (match b with
        | Nothing -> false
        | Val v0 -> (match v0 with
                     | JNum y -> num_ltb x y
                     | _ -> false))
     | JStr x ->
       (match b with
        | Nothing -> false
        | Val v0 -> (match v0 with
                     | JStr y -> str_ltb x y
                     | _ -> false))
     | _ -> false)

(** val cmp : cmpop -> comparand -> comparand -> bool **)

let cmp o a b =
  match o with
  | OEq -> c_eq a b
  | ONe -> negb (c_eq a b)
  | OLt -> c_lt a b
  | OLe -> (||) (c_lt a b) (c_eq a b)
  | OGt -> c_lt b a
  | OGe -> (||) (c_lt b a) (c_eq a b)

(** val child_at : node -> key -> json -> node **)

let child_at n0 k v =
  ((app (fst n0) (k :: [])), v)

(** val descendants : key list -> json -> node list **)

let rec descendants loc v =
  (loc,
    v) :: (match v with
           | JArr l ->
             let rec go i = function
             | [] -> []
             | x :: xs ->
               app (descendants (app loc ((KIdx i) :: [])) x)
                 (go (Z.add i (Zpos XH)) xs)
             in go Z0 l
           | JObj m ->
             let rec go = function
             | [] -> []
             | p :: xs ->
               let (k, x) = p in
               app (descendants (app loc ((KName k) :: [])) x) (go xs)
             in go m
           | _ -> [])

(** val select_idx : node -> json list -> z list -> node list **)

let select_idx n0 l idxs =
  flat_map (fun i ->
    match znth l i with
    | Some x -> (child_at n0 (KIdx i) x) :: []
    | None -> []) idxs

type sval =
| SV of comparand
| SL of bool
| SN of node list

(** val as_val : sval -> comparand **)

let as_val = function
| SV c -> c
| _ -> Nothing

(** val as_bool : sval -> bool **)

let as_bool = function
| SV _ -> false
| SL b -> b
| SN ns -> (match ns with
            | [] -> false
            | _ :: _ -> true)

(** val as_nodes : sval -> node list **)

let as_nodes = function
| SN ns -> ns
| _ -> []

(** val nonempty : 'a1 list -> bool **)

let nonempty = function
| [] -> false
| _ :: _ -> true

(** val conv_nodes : ty3 -> node list -> sval **)

let conv_nodes want ns =
  match want with
  | TValue ->
    SV
      (match ns with
       | [] -> Nothing
       | n0 :: l -> (match l with
                     | [] -> Val (snd n0)
                     | _ :: _ -> Nothing))
  | TLogical -> SL (nonempty ns)
  | TNodes -> SN ns

(** val coerce : ty3 -> ty3 -> sval -> sval **)

let coerce want ret r =
  match want with
  | TLogical -> (match ret with
                 | TNodes -> SL (nonempty (as_nodes r))
                 | _ -> r)
  | _ -> r

(** val sval_of_pyobj : ty3 -> pyobj -> sval **)

let sval_of_pyobj t p =
  match t with
  | TValue -> (match p with
               | PVal v -> SV (Val v)
               | _ -> SV Nothing)
  | TLogical ->
    (match p with
     | PVal v -> (match v with
                  | JBool b -> SL b
                  | _ -> SL false)
     | _ -> SL false)
  | TNodes -> (match p with
               | PNodes ns -> SN ns
               | _ -> SN [])

(** val fn_sem :
    (bool -> str -> str -> bool) -> fdecl -> sval list -> sval **)

let fn_sem rx0 d args =
  match d.f_impl with
  | FLength ->
    (match args with
     | [] -> SV Nothing
     | s0 :: l0 ->
       (match s0 with
        | SV c ->
          (match c with
           | Nothing -> SV Nothing
           | Val v ->
             (match v with
              | JStr s ->
                (match l0 with
                 | [] -> SV (Val (JNum (NInt (zlen s))))
                 | _ :: _ -> SV Nothing)
              | JArr l ->
                (match l0 with
                 | [] -> SV (Val (JNum (NInt (zlen l))))
                 | _ :: _ -> SV Nothing)
              | JObj m ->
                (match l0 with
                 | [] -> SV (Val (JNum (NInt (zlen m))))
                 | _ :: _ -> SV Nothing)
              | _ -> SV Nothing))
        | _ -> SV Nothing))
  | FCount ->
    (match args with
     | [] -> SV Nothing
     | s :: l ->
       (match s with
        | SN ns ->
          (match l with
           | [] -> SV (Val (JNum (NInt (zlen ns))))
           | _ :: _ -> SV Nothing)
        | _ -> SV Nothing))
  | FValue ->
    (match args with
     | [] -> SV Nothing
     | s :: l ->
       (match s with
        | SN ns ->
          (match ns with
           | [] -> SV Nothing
           | n0 :: l0 ->
             (match l0 with
              | [] ->
                (match l with
                 | [] -> SV (Val (snd n0))
                 | _ :: _ -> SV Nothing)
              | _ :: _ -> SV Nothing))
        | _ -> SV Nothing))
  | FMatch ->
    (match args with
     | [] -> SL false
     | s0 :: l ->
       (match s0 with
        | SV c ->
          (match c with
           | Nothing -> SL false
           | Val v ->
             (match v with
              | JStr s ->
                (match l with
                 | [] -> SL false
                 | s1 :: l0 ->
                   (match s1 with
                    | SV c0 ->
                      (match c0 with
                       | Nothing -> SL false
                       | Val v0 ->
                         (match v0 with
                          | JStr p ->
                            (match l0 with
                             | [] -> SL (rx0 false s p)
                             | _ :: _ -> SL false)
                          | _ -> SL false))
                    | _ -> SL false))
              | _ -> SL false))
        | _ -> SL false))
  | FSearch ->
    (match args with
     | [] -> SL false
     | s0 :: l ->
       (match s0 with
        | SV c ->
          (match c with
           | Nothing -> SL false
           | Val v ->
             (match v with
              | JStr s ->
                (match l with
                 | [] -> SL false
                 | s1 :: l0 ->
                   (match s1 with
                    | SV c0 ->
                      (match c0 with
                       | Nothing -> SL false
                       | Val v0 ->
                         (match v0 with
                          | JStr p ->
                            (match l0 with
                             | [] -> SL (rx0 true s p)
                             | _ :: _ -> SL false)
                          | _ -> SL false))
                    | _ -> SL false))
              | _ -> SL false))
        | _ -> SL false))
  | FConst p -> sval_of_pyobj d.f_ret p
  | FFirst -> (match args with
               | [] -> SV Nothing
               | a :: _ -> a)

(** val run_segs_s :
    (seg -> node list -> node list) -> seg list -> node list -> node list **)

let rec run_segs_s f q ns =
  match q with
  | [] -> ns
  | sg :: q' -> run_segs_s f q' (f sg ns)

(** val s_seg :
    registry -> (bool -> str -> str -> bool) -> json -> seg -> node list ->
    node list **)

let s_seg rg rx0 =
  let rec s_sel root s n0 =
    match s with
    | SName k ->
      (match snd n0 with
       | JNull -> []
       | JBool _ -> []
       | JNum _ -> []
       | JStr _ -> []
       | JArr _ -> []
       | JObj m ->
         (match find_assoc k m with
          | Some v -> (child_at n0 (KName k) v) :: []
          | None -> []))
    | SIndex i ->
      (match snd n0 with
       | JArr l -> select_idx n0 l (rfc_index (zlen l) i)
       | _ -> [])
    | SSlice (a, b, c) ->
      (match snd n0 with
       | JArr l -> select_idx n0 l (rfc_slice (zlen l) a b c)
       | _ -> [])
    | SWild -> children n0
    | SFilter e ->
      filter (fun c -> as_bool (s_expr TLogical root (snd c) e)) (children n0)
  and s_expr want root cur = function
  | ELit v -> SV (Val v)
  | ERel q ->
    conv_nodes want
      (let rec segs q0 ns =
         match q0 with
         | [] -> ns
         | sg :: q' -> segs q' (s_seg0 root sg ns)
       in segs q (([], cur) :: []))
  | EAbs q ->
    conv_nodes want
      (let rec segs q0 ns =
         match q0 with
         | [] -> ns
         | sg :: q' -> segs q' (s_seg0 root sg ns)
       in segs q (([], root) :: []))
  | ECall (f, args) ->
    (match find_assoc f rg with
     | Some d ->
       coerce want d.f_ret
         (fn_sem rx0 d
           (let rec go tys = function
            | [] -> []
            | a :: args' ->
              (match tys with
               | [] -> []
               | t :: tys' -> (s_expr t root cur a) :: (go tys' args'))
            in go d.f_args args))
     | None -> SV Nothing)
  | ENot a -> SL (negb (as_bool (s_expr TLogical root cur a)))
  | EAnd (a, b) ->
    SL
      ((&&) (as_bool (s_expr TLogical root cur a))
        (as_bool (s_expr TLogical root cur b)))
  | EOr (a, b) ->
    SL
      ((||) (as_bool (s_expr TLogical root cur a))
        (as_bool (s_expr TLogical root cur b)))
  | ECmp (o, a, b) ->
    SL
      (cmp o (as_val (s_expr TValue root cur a))
        (as_val (s_expr TValue root cur b)))
  and s_seg0 root sg ns =
    match sg with
    | Child ss ->
      flat_map (fun n0 ->
        let rec go = function
        | [] -> []
        | s :: ss' -> app (s_sel root s n0) (go ss')
        in go ss) ns
    | Desc ss ->
      flat_map (fun n0 ->
        flat_map (fun d ->
          let rec go = function
          | [] -> []
          | s :: ss' -> app (s_sel root s d) (go ss')
          in go ss) (descendants (fst n0) (snd n0))) ns
  in s_seg0

(** val s_segs :
    registry -> (bool -> str -> str -> bool) -> json -> seg list -> node list
    -> node list **)

let s_segs rg rx0 root q ns =
  run_segs_s (s_seg rg rx0 root) q ns

(** val sem :
    registry -> (bool -> str -> str -> bool) -> query -> json -> node list **)

let sem rg rx0 q v =
  s_segs rg rx0 v q (([], v) :: [])

(** val iota_json : z -> json list **)

let iota_json len =
  map (fun k -> JNum (NInt (Z.of_nat k))) (seq O (Z.to_nat len))

(** val enc_sel : (z * json) list -> z list **)

let enc_sel r =
  enc_list (fun p -> (fst p) :: (enc_json (snd p))) r

(** val mk_cfg : nat -> registry -> rxrow list -> envcfg **)

let mk_cfg depth rg t =
  { min_idx =
    (Z.add (Z.opp (Z.pow (Zpos (XO XH)) (Zpos (XI (XO (XI (XO (XI XH))))))))
      (Zpos XH)); max_idx =
    (Z.sub (Z.pow (Zpos (XO XH)) (Zpos (XI (XO (XI (XO (XI XH))))))) (Zpos
      XH)); max_depth = depth; reg = rg; rx = (rx_lookup t) }

(** val op_find : z list -> z list **)

let op_find r =
  match dec_nat r with
  | Some p ->
    let (depth, r0) = p in
    (match dec_registry r0 with
     | Some p0 ->
       let (rg, r1) = p0 in
       (match dec_list dec_rxrow r1 with
        | Some p1 ->
          let (t, r2) = p1 in
          (match dec_query r2 with
           | Some p2 ->
             let (q, r3) = p2 in
             (match dec_json r3 with
              | Some p3 ->
                let (v, _) = p3 in
                enc_result (enc_list enc_node)
                  (m_find (mk_cfg depth rg t) q v)
              | None -> bad_request)
           | None -> bad_request)
        | None -> bad_request)
     | None -> bad_request)
  | None -> bad_request

(** val op_sem : z list -> z list **)

let op_sem r =
  match dec_registry r with
  | Some p ->
    let (rg, r1) = p in
    (match dec_list dec_rxrow r1 with
     | Some p0 ->
       let (t, r2) = p0 in
       (match dec_query r2 with
        | Some p1 ->
          let (q, r3) = p1 in
          (match dec_json r3 with
           | Some p2 ->
             let (v, _) = p2 in
             Z0 :: (enc_list enc_node (sem rg (rx_lookup t) q v))
           | None -> bad_request)
        | None -> bad_request)
     | None -> bad_request)
  | None -> bad_request

(** val dec_comparand : comparand dec **)

let dec_comparand = function
| [] -> None
| z0 :: r ->
  (match z0 with
   | Z0 -> Some (Nothing, r)
   | Zpos p ->
     (match p with
      | XH ->
        (match dec_json r with
         | Some p0 -> let (v, r') = p0 in Some ((Val v), r')
         | None -> None)
      | _ -> None)
   | Zneg _ -> None)

(** val op_cmp : z list -> z list **)

let op_cmp r =
  match dec_cmpop r with
  | Some p ->
    let (o, r0) = p in
    (match dec_comparand r0 with
     | Some p0 ->
       let (a, r1) = p0 in
       (match dec_comparand r1 with
        | Some p1 -> let (b, _) = p1 in enc_bool (cmp o a b)
        | None -> bad_request)
     | None -> bad_request)
  | None -> bad_request

(** val dispatch : z list -> z list **)

let dispatch = function
| [] -> bad_request
| z0 :: r ->
  (match z0 with
   | Zpos p ->
     (match p with
      | XI p0 ->
        (match p0 with
         | XI p1 ->
           (match p1 with
            | XI p2 ->
              (match p2 with
               | XO p3 ->
                 (match p3 with
                  | XO p4 ->
                    (match p4 with
                     | XI p5 ->
                       (match p5 with
                        | XH -> op_sem r
                        | _ -> bad_request)
                     | _ -> bad_request)
                  | _ -> bad_request)
               | _ -> bad_request)
            | XO p2 ->
              (match p2 with
               | XI p3 ->
                 (match p3 with
                  | XO p4 ->
                    (match p4 with
                     | XI p5 ->
                       (match p5 with
                        | XH ->
                          (match r with
                           | [] -> bad_request
                           | len :: r0 ->
                             (match dec_opt dec_z r0 with
                              | Some p6 ->
                                let (s, r1) = p6 in
                                (match dec_opt dec_z r1 with
                                 | Some p7 ->
                                   let (e, r2) = p7 in
                                   (match dec_opt dec_z r2 with
                                    | Some p8 ->
                                      let (t, _) = p8 in
                                      enc_list (fun z1 -> z1 :: [])
                                        (rfc_slice len s e t)
                                    | None -> bad_request)
                                 | None -> bad_request)
                              | None -> bad_request))
                        | _ -> bad_request)
                     | _ -> bad_request)
                  | _ -> bad_request)
               | _ -> bad_request)
            | XH ->
              (match r with
               | [] -> bad_request
               | len :: r0 ->
                 (match dec_opt dec_z r0 with
                  | Some p2 ->
                    let (s, r1) = p2 in
                    (match dec_opt dec_z r1 with
                     | Some p3 ->
                       let (e, r2) = p3 in
                       (match dec_opt dec_z r2 with
                        | Some p4 ->
                          let (t, _) = p4 in
                          enc_sel (m_slice_select (iota_json len) s e t)
                        | None -> bad_request)
                     | None -> bad_request)
                  | None -> bad_request)))
         | XO _ -> bad_request
         | XH -> op_find r)
      | XO p0 ->
        (match p0 with
         | XI p1 ->
           (match p1 with
            | XO p2 ->
              (match p2 with
               | XI p3 ->
                 (match p3 with
                  | XO p4 ->
                    (match p4 with
                     | XI p5 ->
                       (match p5 with
                        | XH -> op_cmp r
                        | _ -> bad_request)
                     | _ -> bad_request)
                  | _ -> bad_request)
               | _ -> bad_request)
            | _ -> bad_request)
         | XO p1 ->
           (match p1 with
            | XI p2 ->
              (match p2 with
               | XI p3 ->
                 (match p3 with
                  | XO p4 ->
                    (match p4 with
                     | XI p5 ->
                       (match p5 with
                        | XH ->
                          (match r with
                           | [] -> bad_request
                           | len :: l ->
                             (match l with
                              | [] -> bad_request
                              | i :: _ ->
                                enc_list (fun z1 -> z1 :: [])
                                  (rfc_index len i)))
                        | _ -> bad_request)
                     | _ -> bad_request)
                  | _ -> bad_request)
               | _ -> bad_request)
            | XO p2 ->
              (match p2 with
               | XH ->
                 (match r with
                  | [] -> bad_request
                  | len :: l ->
                    (match l with
                     | [] -> bad_request
                     | i :: _ -> enc_sel (m_index_select (iota_json len) i)))
               | _ -> bad_request)
            | XH -> bad_request)
         | XH -> bad_request)
      | XH -> bad_request)
   | _ -> bad_request)
