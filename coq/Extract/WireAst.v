(* wire coding of queries, registries and the regex oracle table *)
From JP Require Import Base.Json Model.Ast Extract.Wire.

Definition dec_cmpop : dec cmpop := fun l =>
  match l with
  | 0 :: r => Some (OEq, r) | 1 :: r => Some (ONe, r) | 2 :: r => Some (OLt, r)
  | 3 :: r => Some (OLe, r) | 4 :: r => Some (OGt, r) | 5 :: r => Some (OGe, r)
  | _ => None
  end.
Definition enc_cmpop (o : cmpop) : list Z :=
  match o with OEq => [0] | ONe => [1] | OLt => [2] | OLe => [3] | OGt => [4] | OGe => [5] end.
Definition dec_ty3 : dec ty3 := fun l =>
  match l with 1 :: r => Some (TValue, r) | 2 :: r => Some (TLogical, r) | 3 :: r => Some (TNodes, r) | _ => None end.

Fixpoint dec_sel_f (fuel : nat) (l : list Z) {struct fuel} : option (sel * list Z) :=
  match fuel with O => None | S f =>
    match l with
    | 0 :: r => match dec_str r with Some (s, r') => Some (SName s, r') | None => None end
    | 1 :: i :: r => Some (SIndex i, r)
    | 2 :: r => match dec_opt dec_z r with Some (a, r1) =>
                match dec_opt dec_z r1 with Some (b, r2) =>
                match dec_opt dec_z r2 with Some (c, r3) => Some (SSlice a b c, r3)
                | None => None end | None => None end | None => None end
    | 3 :: r => Some (SWild, r)
    | 4 :: r => match dec_expr_f f r with Some (e, r') => Some (SFilter e, r') | None => None end
    | _ => None
    end
  end
with dec_expr_f (fuel : nat) (l : list Z) {struct fuel} : option (expr * list Z) :=
  match fuel with O => None | S f =>
    match l with
    | 0 :: r => match dec_json r with Some (v, r') => Some (ELit v, r') | None => None end
    | 1 :: r => match dec_list (dec_seg_f f) r with Some (q, r') => Some (ERel q, r') | None => None end
    | 2 :: r => match dec_list (dec_seg_f f) r with Some (q, r') => Some (EAbs q, r') | None => None end
    | 3 :: r => match dec_str r with Some (nm, r1) =>
                match dec_list (dec_expr_f f) r1 with Some (args, r2) => Some (ECall nm args, r2)
                | None => None end | None => None end
    | 4 :: r => match dec_expr_f f r with Some (a, r') => Some (ENot a, r') | None => None end
    | 5 :: r => match dec_expr_f f r with Some (a, r1) =>
                match dec_expr_f f r1 with Some (b, r2) => Some (EAnd a b, r2) | None => None end | None => None end
    | 6 :: r => match dec_expr_f f r with Some (a, r1) =>
                match dec_expr_f f r1 with Some (b, r2) => Some (EOr a b, r2) | None => None end | None => None end
    | 7 :: r => match dec_cmpop r with Some (o, r0) =>
                match dec_expr_f f r0 with Some (a, r1) =>
                match dec_expr_f f r1 with Some (b, r2) => Some (ECmp o a b, r2)
                | None => None end | None => None end | None => None end
    | _ => None
    end
  end
with dec_seg_f (fuel : nat) (l : list Z) {struct fuel} : option (seg * list Z) :=
  match fuel with O => None | S f =>
    match l with
    | 0 :: r => match dec_list (dec_sel_f f) r with Some (ss, r') => Some (Child ss, r') | None => None end
    | 1 :: r => match dec_list (dec_sel_f f) r with Some (ss, r') => Some (Desc ss, r') | None => None end
    | _ => None
    end
  end.
Definition dec_query : dec query := fun l => dec_list (dec_seg_f (S (length l))) l.

Fixpoint enc_sel (s : sel) : list Z :=
  match s with
  | SName k => 0 :: enc_str k
  | SIndex i => [1; i]
  | SSlice a b c => 2 :: enc_opt (fun z => [z]) a ++ enc_opt (fun z => [z]) b ++ enc_opt (fun z => [z]) c
  | SWild => [3]
  | SFilter e => 4 :: enc_expr e
  end
with enc_expr (e : expr) : list Z :=
  match e with
  | ELit v => 0 :: enc_json v
  | ERel q => 1 :: zlen q :: (fix go (q : list seg) := match q with [] => [] | s :: q' => enc_seg s ++ go q' end) q
  | EAbs q => 2 :: zlen q :: (fix go (q : list seg) := match q with [] => [] | s :: q' => enc_seg s ++ go q' end) q
  | ECall f args => 3 :: enc_str f ++ zlen args ::
                    (fix go (l : list expr) := match l with [] => [] | a :: l' => enc_expr a ++ go l' end) args
  | ENot a => 4 :: enc_expr a
  | EAnd a b => 5 :: enc_expr a ++ enc_expr b
  | EOr a b => 6 :: enc_expr a ++ enc_expr b
  | ECmp o a b => 7 :: enc_cmpop o ++ enc_expr a ++ enc_expr b
  end
with enc_seg (s : seg) : list Z :=
  match s with
  | Child ss => 0 :: zlen ss :: (fix go (l : list sel) := match l with [] => [] | a :: l' => enc_sel a ++ go l' end) ss
  | Desc ss => 1 :: zlen ss :: (fix go (l : list sel) := match l with [] => [] | a :: l' => enc_sel a ++ go l' end) ss
  end.
Definition enc_query (q : query) : list Z := enc_list enc_seg q.

Definition dec_pyobj : dec pyobj := fun l =>
  match l with
  | 0 :: r => match dec_json r with Some (v, r') => Some (PVal v, r') | None => None end
  | 1 :: r => Some (PNothing, r)
  | 2 :: r => Some (PNodes [], r)
  | _ => None
  end.
Definition enc_pyobj (p : pyobj) : list Z :=
  match p with PVal v => 0 :: enc_json v | PNothing => [1] | PNodes ns => 2 :: enc_list enc_node ns end.

Definition dec_fimpl : dec fimpl := fun l =>
  match l with
  | 0 :: r => Some (FLength, r) | 1 :: r => Some (FCount, r) | 2 :: r => Some (FValue, r)
  | 3 :: r => Some (FMatch, r) | 4 :: r => Some (FSearch, r)
  | 5 :: r => match dec_pyobj r with Some (p, r') => Some (FConst p, r') | None => None end
  | 6 :: r => Some (FFirst, r)
  | _ => None
  end.
Definition dec_fdecl : dec (str * fdecl) := fun l =>
  match dec_str l with Some (nm, r0) =>
  match dec_list dec_ty3 r0 with Some (args, r1) =>
  match dec_ty3 r1 with Some (ret, r2) =>
  match dec_fimpl r2 with Some (im, r3) => Some ((nm, {| f_args := args; f_ret := ret; f_impl := im |}), r3)
  | None => None end | None => None end | None => None end | None => None end.
Definition dec_registry : dec registry := dec_list dec_fdecl.

(* regex oracle table: (search?, subject, pattern, result) *)
Definition rxrow := (bool * str * str * bool)%type.
Definition dec_rxrow : dec rxrow := fun l =>
  match dec_bool l with Some (sr, r0) =>
  match dec_str r0 with Some (s, r1) =>
  match dec_str r1 with Some (p, r2) =>
  match dec_bool r2 with Some (b, r3) => Some ((sr, s, p, b), r3)
  | None => None end | None => None end | None => None end | None => None end.
Fixpoint rx_lookup (t : list rxrow) (sr : bool) (s p : str) : bool :=
  match t with
  | [] => false
  | (sr', s', p', b) :: t' => if Bool.eqb sr sr' && str_eqb s s' && str_eqb p p' then b else rx_lookup t' sr s p
  end.
