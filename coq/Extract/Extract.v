From Coq Require Import Extraction ExtrOcamlBasic.
From JP Require Import Extract.Dispatch.
Extraction Language OCaml.
Extraction "jpx.ml" dispatch.
