(* One entry point for the harness: request (list Z) -> reply (list Z). *)
From JP Require Import Base.Json Extract.Wire Extract.WireAst Model.Slice Spec.Slice Model.Ast Model.Eval Spec.Sem Spec.Compare Model.Tokens Model.Lex Model.PyFloat Model.Parse Model.Api Spec.Rfc9535Grammar Spec.BuiltinGrammar Spec.Types Spec.StringLit Model.Position Spec.Position Model.Serialize Spec.NormPath Model.History Model.Descent Model.NdVisit Model.NdEval Model.NdEval2 Model.NdGraph Spec.Nondet Spec.NondetQ Spec.IRegexp Model.MapRe Spec.Printable.

Definition iota_json (len : Z) : list json := map (fun k => JNum (NInt (Z.of_nat k))) (seq 0 (Z.to_nat len)).
Definition enc_sel (r : list (Z * json)) : list Z := enc_list (fun p => fst p :: enc_json (snd p)) r.

Definition mk_cfg (depth : nat) (rg : registry) (t : list rxrow) : envcfg :=
  {| min_idx := - (2 ^ 53) + 1; max_idx := 2 ^ 53 - 1; max_depth := depth; reg := rg; rx := rx_lookup t |}.

(* [3; depth; registry; rx table; query; value] *)
Definition op_find (r : list Z) : list Z :=
  match dec_nat r with Some (depth, r0) =>
  match dec_registry r0 with Some (rg, r1) =>
  match dec_list dec_rxrow r1 with Some (t, r2) =>
  match dec_query r2 with Some (q, r3) =>
  match dec_json r3 with Some (v, _) => enc_result (enc_list enc_node) (m_find (mk_cfg depth rg t) q v)
  | None => bad_request end | None => bad_request end | None => bad_request end | None => bad_request end
  | None => bad_request end.
Definition op_sem (r : list Z) : list Z :=
  match dec_registry r with Some (rg, r1) =>
  match dec_list dec_rxrow r1 with Some (t, r2) =>
  match dec_query r2 with Some (q, r3) =>
  match dec_json r3 with Some (v, _) => 0 :: enc_list enc_node (sem rg (rx_lookup t) q v)
  | None => bad_request end | None => bad_request end | None => bad_request end | None => bad_request end.

Definition dec_comparand : dec comparand := fun l =>
  match l with
  | 0 :: r => Some (Nothing, r)
  | 1 :: r => match dec_json r with Some (v, r') => Some (Val v, r') | None => None end
  | _ => None
  end.
(* [106; op; comparand; comparand] *)
Definition op_cmp (r : list Z) : list Z :=
  match dec_cmpop r with Some (o, r0) =>
  match dec_comparand r0 with Some (a, r1) =>
  match dec_comparand r1 with Some (b, _) => enc_bool (cmp o a b)
  | None => bad_request end | None => bad_request end | None => bad_request end.

Definition enc_token (t : token) : list Z := ttype_code (ty t) :: tidx t :: enc_str (tval t).
(* [1; query text] *)
Definition op_tokenize (r : list Z) : list Z :=
  match dec_str r with Some (q, _) => enc_result (enc_list enc_token) (m_tokenize q) | None => bad_request end.

(* [20; text] -> float(text) and int(float(text)) *)
Definition op_float (r : list Z) : list Z :=
  match dec_str r with
  | Some (q, _) => match py_float q with
                   | None => [0]
                   | Some x => 1 :: enc_num x ++ enc_opt (fun z => [z]) (py_int_of_float x)
                   end
  | None => bad_request end.

(* [2; min; max; registry; text] -> compiled AST or error class + token index *)
Definition op_compile (r : list Z) : list Z :=
  match r with
  | lo :: hi :: r0 =>
    match dec_registry r0 with Some (rg, r1) =>
    match dec_str r1 with Some (q, _) =>
      enc_result enc_query (m_compile {| min_idx := lo; max_idx := hi; max_depth := 100; reg := rg; rx := fun _ _ _ => false |} q)
    | None => bad_request end | None => bad_request end
  | _ => bad_request
  end.

(* [104; fuel multiplier; text] -> in the RFC 9535 grammar? *)
Definition op_in_rfc (r : list Z) : list Z :=
  match r with
  | k :: r0 => match dec_str r0 with
               | Some (q, _) => enc_bool (in_rfc_fuel (Z.to_nat k * rfc_fuel q) q)
               | None => bad_request end
  | _ => bad_request
  end.

(* [109; lo; hi; registry; query AST; text] -> [in grammar?; well-typed?; integers in range?] *)
Definition op_valid (r : list Z) : list Z :=
  match r with
  | lo :: hi :: r0 =>
    match dec_registry r0 with Some (rg, r1) =>
    match dec_query r1 with Some (q, r2) =>
    match dec_str r2 with Some (t, _) =>
      enc_bool (in_rfc t) ++ enc_bool (wt_query rg q) ++ enc_bool (ints_in_range lo hi q)
    | None => bad_request end | None => bad_request end | None => bad_request end
  | _ => bad_request
  end.

(* [110; quote; body] -> RFC value of the string literal body *)
Definition op_strlit (r : list Z) : list Z :=
  match r with
  | q :: r0 => match dec_str r0 with
               | Some (b, _) => enc_opt enc_str (spec_decode (Z.to_N q) b)
               | None => bad_request end
  | _ => bad_request
  end.

(* [19; text] -> compile with the built-ins; on error: class, offset, line, column *)
Definition op_errpos (r : list Z) : list Z :=
  match dec_str r with
  | Some (q, _) =>
      match m_compile {| min_idx := - (2 ^ 53) + 1; max_idx := 2 ^ 53 - 1; max_depth := 100; reg := builtin_registry; rx := fun _ _ _ => false |} q with
      | Ok _ => [0]
      | Err c (Some o) => let '(ln, col) := m_position q o in [1; jperr_code c; o; ln; col]
      | Err c None => [1; jperr_code c; -99]
      | Crash x => [2; pyexn_code x]
      | OutOfFuel => [3]
      end
  | None => bad_request end.
(* [119; offset; text] -> line, column by the specification *)
Definition op_linecol (r : list Z) : list Z :=
  match r with
  | o :: r0 => match dec_str r0 with
               | Some (q, _) => [line_of q (Z.to_nat o); col_of q (Z.to_nat o)]
               | None => bad_request end
  | _ => bad_request
  end.

(* [4; depth; registry; rx table; text; value] -> compile then find *)
Definition op_env_find (r : list Z) : list Z :=
  match dec_nat r with Some (depth, r0) =>
  match dec_registry r0 with Some (rg, r1) =>
  match dec_list dec_rxrow r1 with Some (t, r2) =>
  match dec_str r2 with Some (q, r3) =>
  match dec_json r3 with Some (v, _) => enc_result (enc_list enc_node) (m_env_find (mk_cfg depth rg t) q v)
  | None => bad_request end | None => bad_request end | None => bad_request end | None => bad_request end
  | None => bad_request end.

(* [5; registry; text] -> str(compile(text)) *)
Definition op_str_query (r : list Z) : list Z :=
  match dec_registry r with Some (rg, r1) =>
  match dec_str r1 with Some (q, _) =>
    enc_result enc_str (do c <- m_compile (mk_cfg 100 rg []) q; Ok (m_str c))
  | None => bad_request end | None => bad_request end.
(* [22; registry; text] -> does the compiled query satisfy the decidable hypothesis of C12_roundtrip (lx_query)? *)
Definition op_lx_query (r : list Z) : list Z :=
  match dec_registry r with Some (rg, r1) =>
  match dec_str r1 with Some (q, _) =>
    enc_result enc_bool (do c <- m_compile (mk_cfg 100 rg []) q; Ok (lx_query c))
  | None => bad_request end | None => bad_request end.
(* [6; location] -> JSONPathNode.path() *)
Definition op_path (r : list Z) : list Z :=
  match dec_list dec_key r with Some (loc, _) => enc_str (m_path loc) | None => bad_request end.
Definition dec_num : dec num := fun l =>
  match l with
  | 2 :: z :: r => Some (NInt z, r) | 3 :: m :: e :: r => Some (NFlt m e, r) | 4 :: r => Some (NNegZero, r)
  | 5 :: b :: r => Some (NInf (negb (b =? 0)), r) | _ => None
  end.
(* [21; num] -> repr *)
Definition op_repr (r : list Z) : list Z :=
  match dec_num r with Some (n, _) => enc_str (repr_float n) | None => bad_request end.

(* [108; location] -> RFC normalized path *)
Definition op_norm_path (r : list Z) : list Z :=
  match dec_list dec_key r with Some (loc, _) => enc_str (norm_path loc) | None => bad_request end.

(* [12; rx table; ops] : a history of API operations, see Model/History.v *)
Definition dec_hop (t : list rxrow) : dec hop := fun l =>
  match l with
  | 0 :: depth :: lo :: hi :: r =>
      match dec_registry r with
      | Some (rg, r') => Some (HNewEnv {| min_idx := lo; max_idx := hi; max_depth := Z.to_nat depth; reg := rg ++ builtin_registry; rx := rx_lookup t |}, r')
      | None => None end
  | 1 :: e :: r => match dec_fdecl r with Some ((nm, d), r') => Some (HRegister (Z.to_nat e) nm d, r') | None => None end
  | 2 :: e :: r => match dec_str r with Some (t', r') => Some (HCompile (Z.to_nat e) t', r') | None => None end
  | 3 :: c :: r => match dec_json r with Some (v, r') => Some (HApply (Z.to_nat c) v, r') | None => None end
  | 4 :: e :: r => match dec_str r with Some (t', r1) =>
                   match dec_json r1 with Some (v, r') => Some (HFindEnv (Z.to_nat e) t' v, r') | None => None end | None => None end
  | 5 :: r => match dec_str r with Some (t', r1) =>
              match dec_json r1 with Some (v, r') => Some (HFindModule t' v, r') | None => None end | None => None end
  | _ => None
  end.
Definition enc_hout (o : hout) : list Z :=
  match o with
  | HNone => [0]
  | HNodes r => 1 :: enc_result (enc_list enc_node) r
  | HCompiled r => 2 :: enc_result (fun n => [Z.of_nat n]) r
  end.
Definition op_history (r : list Z) : list Z :=
  match dec_list dec_rxrow r with
  | Some (t, r1) =>
      match dec_list (dec_hop t) r1 with
      | Some (ops, _) => enc_list enc_hout (snd (hrun (mk_cfg 100 builtin_registry t) {| envs := []; compiled := [] |} ops))
      | None => bad_request end
  | None => bad_request end.

Definition enc_loc (l : list key) : list Z := enc_list enc_key l.
(* [10; limit; script; value] -> nondeterministic visit order (locations) *)
Definition op_nd_visit (r : list Z) : list Z :=
  match dec_nat r with Some (limit, r0) =>
  match dec_list dec_z r0 with Some (script, r1) =>
  match dec_json r1 with Some (v, _) => enc_result (enc_list (fun n => enc_loc (fst n))) (nd_visit limit script ([], v))
  | None => bad_request end | None => bad_request end | None => bad_request end.
(* [11; limit; graph] -> locations returned by $..* on possibly self-referential data *)
Definition dec_cell : dec cell := fun l =>
  match l with
  | 0 :: r => Some (CScalar, r)
  | 1 :: r => match dec_list dec_nat r with Some (ks, r') => Some (CArr ks, r') | None => None end
  | 2 :: r => match dec_list (dec_pair dec_str dec_nat) r with Some (ks, r') => Some (CObj ks, r') | None => None end
  | _ => None
  end.
Definition op_graph (r : list Z) : list Z :=
  match dec_nat r with Some (limit, r0) =>
  match dec_list dec_cell r0 with Some (g, _) => enc_result (enc_list enc_loc) (gdesc_wild g limit)
  | None => bad_request end | None => bad_request end.
(* [25; loop bound; limit; script; graph] -> _nondeterministic_visit from cell 0 of the graph (data that may be self-referential), driven by the script:
   the locations in the order visited, or the error *)
Definition op_gnd_visit (r : list Z) : list Z :=
  match dec_nat r with Some (fuel, r0) =>
  match dec_nat r0 with Some (limit, r1) =>
  match dec_list dec_z r1 with Some (script, r2) =>
  match dec_list dec_cell r2 with Some (g, _) => enc_result (enc_list (fun n : gnode => enc_loc (fst n))) (gnd_visit g fuel limit script ([], 0%nat))
  | None => bad_request end | None => bad_request end | None => bad_request end | None => bad_request end.
(* [116; value; order] -> is the visiting order valid?   [117; value] -> every valid order *)
Definition op_valid_order (r : list Z) : list Z :=
  match dec_json r with Some (v, r0) =>
  match dec_list (dec_list dec_key) r0 with Some (o, _) => enc_bool (valid_order ([], v) o)
  | None => bad_request end | None => bad_request end.
Definition op_all_orders (r : list Z) : list Z :=
  match dec_json r with Some (v, _) => enc_list (enc_list (fun n => enc_loc (fst n))) (all_orders ([], v))
  | None => bad_request end.

(* [23; depth; registry; rx table; supply of scripts; query; value] -> find() in nondeterministic mode, the random episodes taking the scripts in turn *)
Definition op_find_nd (r : list Z) : list Z :=
  match dec_nat r with Some (depth, r0) =>
  match dec_registry r0 with Some (rg, r1) =>
  match dec_list dec_rxrow r1 with Some (t, r2) =>
  match dec_list (dec_list dec_z) r2 with Some (sup, r3) =>
  match dec_query r3 with Some (q, r4) =>
  match dec_json r4 with Some (v, _) => enc_result (enc_list (fun n => enc_loc (fst n))) (m_find_nd (mk_cfg depth rg t) sup q v)
  | None => bad_request end | None => bad_request end | None => bad_request end | None => bad_request end | None => bad_request end
  | None => bad_request end.
(* [24; depth; registry; rx table; supply of the query's own episodes; supply of the episodes inside filter expressions; query; value]
   -> find() in nondeterministic mode with the queries nested in filters shuffled too (Model/NdEval2.v): the nodelist, then how many scripts of
   either supply were left over *)
Definition op_find_nd2 (r : list Z) : list Z :=
  match dec_nat r with Some (depth, r0) =>
  match dec_registry r0 with Some (rg, r1) =>
  match dec_list dec_rxrow r1 with Some (t, r2) =>
  match dec_list (dec_list dec_z) r2 with Some (sup, r3) =>
  match dec_list (dec_list dec_z) r3 with Some (nsup, r4) =>
  match dec_query r4 with Some (q, r5) =>
  match dec_json r5 with Some (v, _) =>
    enc_result (fun a : list node * st2 => enc_list (fun n => enc_loc (fst n)) (fst a) ++ [Z.of_nat (length (fst (snd a))); Z.of_nat (length (snd (snd a)))])
               (nd2_segs (mk_cfg depth rg t) v (sup, nsup) q [([], v)])
  | None => bad_request end | None => bad_request end | None => bad_request end | None => bad_request end | None => bad_request end
  | None => bad_request end | None => bad_request end.
(* [120; registry; rx table; query; value] -> every nodelist (as locations) RFC 9535 permits for the query on the value *)
Definition op_nd_results (r : list Z) : list Z :=
  match dec_registry r with Some (rg, r1) =>
  match dec_list dec_rxrow r1 with Some (t, r2) =>
  match dec_query r2 with Some (q, r3) =>
  match dec_json r3 with Some (v, _) => enc_list (enc_list (fun n => enc_loc (fst n))) (nd_results rg (rx_lookup t) q v)
  | None => bad_request end | None => bad_request end | None => bad_request end | None => bad_request end.

(* [121; text] -> is the text in the grammar with well-typed calls of the built-in functions? *)
Definition op_in_bf (r : list Z) : list Z :=
  match dec_str r with Some (q, _) => enc_bool (in_bf q) | None => bad_request end.

(* [15; pattern] -> map_re(pattern) *)
Definition op_map_re (r : list Z) : list Z :=
  match dec_str r with Some (p, _) => enc_str (m_map_re p) | None => bad_request end.
(* [114; search?; category table (code point, category)...; subject; pattern] -> 0 undecided / 1 false / 2 true *)
Fixpoint gc_lookup (t : list (N * str)) (c : N) : str :=
  match t with [] => [] | (c', g) :: r => if N.eqb c c' then g else gc_lookup r c end.
Definition op_iregexp (r : list Z) : list Z :=
  match dec_bool r with Some (sr, r0) =>
  match dec_list (dec_pair dec_cp dec_str) r0 with Some (t, r1) =>
  match dec_str r1 with Some (subj, r2) =>
  match dec_str r2 with Some (pat, _) => [if sr then i_search (gc_lookup t) subj pat else i_match (gc_lookup t) subj pat]
  | None => bad_request end | None => bad_request end | None => bad_request end | None => bad_request end.

(* opcodes: model side 1..99, specification side 101..199 *)
Definition dispatch (req : list Z) : list Z :=
  match req with
  | 1 :: r => op_tokenize r
  | 2 :: r => op_compile r
  | 3 :: r => op_find r
  | 4 :: r => op_env_find r
  | 5 :: r => op_str_query r
  | 22 :: r => op_lx_query r
  | 6 :: r => op_path r
  | 21 :: r => op_repr r
  | 10 :: r => op_nd_visit r
  | 23 :: r => op_find_nd r
  | 24 :: r => op_find_nd2 r
  | 120 :: r => op_nd_results r
  | 121 :: r => op_in_bf r
  | 11 :: r => op_graph r
  | 25 :: r => op_gnd_visit r
  | 12 :: r => op_history r
  | 15 :: r => op_map_re r
  | 19 :: r => op_errpos r
  | 20 :: r => op_float r
  | 103 :: r => op_sem r
  | 104 :: r => op_in_rfc r
  | 106 :: r => op_cmp r
  | 109 :: r => op_valid r
  | 110 :: r => op_strlit r
  | 114 :: r => op_iregexp r
  | 116 :: r => op_valid_order r
  | 117 :: r => op_all_orders r
  | 118 :: r => op_norm_path r
  | 119 :: r => op_linecol r
  | 7 :: len :: r =>        (* slice selector on [0, 1, ..., len-1] *)
    match dec_opt dec_z r with Some (s, r1) =>
    match dec_opt dec_z r1 with Some (e, r2) =>
    match dec_opt dec_z r2 with Some (t, _) => enc_sel (m_slice_select (iota_json len) s e t)
    | None => bad_request end | None => bad_request end | None => bad_request end
  | 8 :: len :: i :: _ => enc_sel (m_index_select (iota_json len) i)
  | 107 :: len :: r =>
    match dec_opt dec_z r with Some (s, r1) =>
    match dec_opt dec_z r1 with Some (e, r2) =>
    match dec_opt dec_z r2 with Some (t, _) => enc_list (fun z => [z]) (rfc_slice len s e t)
    | None => bad_request end | None => bad_request end | None => bad_request end
  | 108 :: len :: i :: _ => enc_list (fun z => [z]) (rfc_index len i)
  | _ => bad_request
  end.
