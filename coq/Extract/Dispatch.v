(* One entry point for the harness: request (list Z) -> reply (list Z). *)
From JP Require Import Base.Json Extract.Wire Model.Slice Spec.Slice.

Definition iota_json (len : Z) : list json := map (fun k => JNum (NInt (Z.of_nat k))) (seq 0 (Z.to_nat len)).
Definition enc_sel (r : list (Z * json)) : list Z := enc_list (fun p => fst p :: enc_json (snd p)) r.

(* opcodes: model side 1..99, specification side 101..199 *)
Definition dispatch (req : list Z) : list Z :=
  match req with
  | 7 :: len :: r =>        (* slice selector on [0, 1, ..., len-1] *)
    match dec_opt dec_z r with Some (s, r1) =>
    match dec_opt dec_z r1 with Some (e, r2) =>
    match dec_opt dec_z r2 with Some (t, _) => enc_sel (m_slice_select (iota_json len) s e t)
    | None => bad_request end | None => bad_request end | None => bad_request end
  | 8 :: len :: i :: _ => enc_sel (m_index_select (iota_json len) i)
  | 107 :: len :: r =>
    match dec_opt dec_z r with Some (s, r1) =>
    match dec_opt dec_z r1 with Some (e, r2) =>
    match dec_opt dec_z r2 with Some (t, _) => enc_list (fun z => [z]) (rfc_slice len s e t)
    | None => bad_request end | None => bad_request end | None => bad_request end
  | 108 :: len :: i :: _ => enc_list (fun z => [z]) (rfc_index len i)
  | _ => bad_request
  end.
