(* Integer wire format between the harness and the executable model/specification.
   A request and a reply are lists of Z.  Decoders and encoders live here, in Gallina,
   so the OCaml driver is a fixed 40-line loop that only converts integers. *)
From JP Require Import Base.Json.

Definition dec (A : Type) := list Z -> option (A * list Z).

Definition dec_z : dec Z := fun l => match l with x :: r => Some (x, r) | [] => None end.
Definition dec_bool : dec bool := fun l => match l with x :: r => Some (negb (x =? 0), r) | [] => None end.
Definition dec_nat : dec nat := fun l => match l with x :: r => Some (Z.to_nat x, r) | [] => None end.
Definition dec_opt {A} (d : dec A) : dec (option A) := fun l =>
  match l with
  | 0 :: r => Some (None, r)
  | _ :: r => match d r with Some (x, r') => Some (Some x, r') | None => None end
  | [] => None
  end.
Fixpoint dec_n {A} (d : dec A) (n : nat) (l : list Z) : option (list A * list Z) :=
  match n with
  | O => Some ([], l)
  | S n' => match d l with
            | Some (x, r) => match dec_n d n' r with Some (xs, r') => Some (x :: xs, r') | None => None end
            | None => None
            end
  end.
Definition dec_list {A} (d : dec A) : dec (list A) := fun l =>
  match l with n :: r => dec_n d (Z.to_nat n) r | [] => None end.
Definition dec_cp : dec N := fun l => match l with x :: r => Some (Z.to_N x, r) | [] => None end.
Definition dec_str : dec str := dec_list dec_cp.
Definition dec_pair {A B} (da : dec A) (db : dec B) : dec (A * B) := fun l =>
  match da l with
  | Some (a, r) => match db r with Some (b, r') => Some ((a, b), r') | None => None end
  | None => None
  end.

Fixpoint dec_json_f (fuel : nat) (l : list Z) : option (json * list Z) :=
  match fuel with
  | O => None
  | S f =>
    match l with
    | 0 :: r => Some (JNull, r)
    | 1 :: b :: r => Some (JBool (negb (b =? 0)), r)
    | 2 :: z :: r => Some (JNum (NInt z), r)
    | 3 :: m :: e :: r => Some (JNum (NFlt m e), r)
    | 4 :: r => Some (JNum NNegZero, r)
    | 5 :: b :: r => Some (JNum (NInf (negb (b =? 0))), r)
    | 6 :: r => match dec_str r with Some (s, r') => Some (JStr s, r') | None => None end
    | 7 :: r => match dec_list (dec_json_f f) r with Some (xs, r') => Some (JArr xs, r') | None => None end
    | 8 :: r => match dec_list (dec_pair dec_str (dec_json_f f)) r with
                | Some (xs, r') => Some (JObj xs, r') | None => None end
    | _ => None
    end
  end.
Definition dec_json : dec json := fun l => dec_json_f (S (length l)) l.

Definition enc_bool (b : bool) : list Z := [if b then 1 else 0].
Definition enc_opt {A} (e : A -> list Z) (o : option A) : list Z :=
  match o with None => [0] | Some x => 1 :: e x end.
Definition enc_list {A} (e : A -> list Z) (l : list A) : list Z := zlen l :: flat_map e l.
Definition enc_str (s : str) : list Z := zlen s :: map Z.of_N s.
Definition enc_num (n : num) : list Z :=
  match n with
  | NInt z => [2; z] | NFlt m e => [3; m; e] | NNegZero => [4] | NInf b => 5 :: enc_bool b
  end.
Fixpoint enc_json (v : json) : list Z :=
  match v with
  | JNull => [0]
  | JBool b => 1 :: enc_bool b
  | JNum n => enc_num n
  | JStr s => 6 :: enc_str s
  | JArr l => 7 :: zlen l :: flat_map enc_json l
  | JObj m => 8 :: zlen m :: flat_map (fun kv => enc_str (fst kv) ++ enc_json (snd kv)) m
  end.
Definition enc_key (k : key) : list Z :=
  match k with KName s => 0 :: enc_str s | KIdx i => [1; i] end.
Definition enc_node (n : node) : list Z := enc_list enc_key (fst n) ++ enc_json (snd n).
Definition enc_result {A} (e : A -> list Z) (r : result A) : list Z :=
  match r with
  | Ok a => 0 :: e a
  | Err c o => 1 :: jperr_code c :: enc_opt (fun z => [z]) o
  | Crash x => [2; pyexn_code x]
  | OutOfFuel => [3]
  end.
Definition dec_key : dec key := fun l =>
  match l with
  | 0 :: r => match dec_str r with Some (s, r') => Some (KName s, r') | None => None end
  | 1 :: i :: r => Some (KIdx i, r)
  | _ => None
  end.

(* reply used when a request cannot be decoded *)
Definition bad_request : list Z := [-1].
