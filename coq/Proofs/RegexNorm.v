(* Comparing regular expressions up to the spelling of character classes: [ \n\r\t] and [\t\n\r ], [+] and \+,
   [a-z_0-9] and [0-9_a-z] are the same expression for the matcher.  Used to tie the regenerated lexer patterns to the
   model's without depending on how a class happens to be written in lex.py. *)
From JP Require Import Base.Prelude Model.Regex.
From Coq Require Import ZifyBool ZifyN.

Fixpoint insert_r (x : N * N) (l : list (N * N)) : list (N * N) :=
  match l with
  | [] => [x]
  | y :: l' => if (fst x <=? fst y)%N then x :: l else y :: insert_r x l'
  end.
Fixpoint isort (l : list (N * N)) : list (N * N) :=
  match l with [] => [] | x :: l' => insert_r x (isort l') end.
Fixpoint merge_r (cur : N * N) (rs : list (N * N)) : list (N * N) :=
  match rs with
  | [] => [cur]
  | (lo, hi) :: rs' =>
      if ((fst cur <=? lo) && (lo <=? snd cur + 1))%N then merge_r (fst cur, N.max (snd cur) hi) rs'
      else cur :: merge_r (lo, hi) rs'
  end.
Definition nonempty_r (r : N * N) : bool := (fst r <=? snd r)%N.
Definition norm_cls (rs : list (N * N)) : list (N * N) :=
  match isort (filter nonempty_r rs) with [] => [] | x :: r => merge_r x r end.

Lemma in_ranges_cons c x l : in_ranges c (x :: l) = (((fst x <=? c) && (c <=? snd x))%N || in_ranges c l).
Proof. destruct x. reflexivity. Qed.
Lemma in_insert c x : forall l, in_ranges c (insert_r x l) = in_ranges c (x :: l).
Proof.
  induction l as [|y l IH]; [reflexivity|]. cbn [insert_r]. destruct (fst x <=? fst y)%N; [reflexivity|].
  rewrite !in_ranges_cons, IH, !in_ranges_cons. destruct ((fst x <=? c) && (c <=? snd x))%N, ((fst y <=? c) && (c <=? snd y))%N; reflexivity.
Qed.
Lemma in_isort c : forall l, in_ranges c (isort l) = in_ranges c l.
Proof. induction l as [|x l IH]; [reflexivity|]. cbn [isort]. rewrite in_insert, !in_ranges_cons, IH. reflexivity. Qed.
Lemma in_filter_nonempty c : forall l, in_ranges c (filter nonempty_r l) = in_ranges c l.
Proof.
  induction l as [|x l IH]; [reflexivity|]. cbn [filter]. unfold nonempty_r at 1. destruct (fst x <=? snd x)%N eqn:E.
  - rewrite !in_ranges_cons, IH. reflexivity.
  - rewrite IH, in_ranges_cons. assert (((fst x <=? c) && (c <=? snd x))%N = false) by lia. rewrite H. reflexivity.
Qed.
Lemma in_merge c : forall rs cur, nonempty_r cur = true -> forallb nonempty_r rs = true ->
  in_ranges c (merge_r cur rs) = in_ranges c (cur :: rs).
Proof.
  induction rs as [|[lo hi] rs IH]; intros cur Hc Hr; [reflexivity|]. cbn [merge_r]. cbn [forallb] in Hr. apply andb_true_iff in Hr as [Hr1 Hr2].
  destruct ((fst cur <=? lo) && (lo <=? snd cur + 1))%N eqn:E.
  - rewrite IH by (try exact Hr2; unfold nonempty_r in *; cbn [fst snd] in *; lia). rewrite !in_ranges_cons. cbn [fst snd].
    unfold nonempty_r in Hc, Hr1. cbn [fst snd] in Hr1.
    destruct (in_ranges c rs); [rewrite !orb_true_r; reflexivity|]. rewrite !orb_false_r. lia.
  - rewrite (in_ranges_cons c cur), (IH (lo, hi) Hr1 Hr2), (in_ranges_cons c cur). reflexivity.
Qed.
Lemma forallb_insert (p : N * N -> bool) x : forall l, forallb p (insert_r x l) = p x && forallb p l.
Proof.
  induction l as [|y l IH]; [reflexivity|]. cbn [insert_r]. destruct (fst x <=? fst y)%N; [reflexivity|].
  cbn [forallb]. rewrite IH. destruct (p x), (p y); reflexivity.
Qed.
Lemma forallb_isort (p : N * N -> bool) : forall l, forallb p (isort l) = forallb p l.
Proof. induction l as [|x l IH]; [reflexivity|]. cbn [isort forallb]. rewrite forallb_insert, IH. reflexivity. Qed.
Lemma forallb_filter_same {A} (p : A -> bool) : forall l, forallb p (filter p l) = true.
Proof. induction l as [|x l IH]; [reflexivity|]. cbn [filter]. destruct (p x) eqn:E; [cbn [forallb]; rewrite E, IH; reflexivity | exact IH]. Qed.

Theorem in_norm_cls c rs : in_ranges c (norm_cls rs) = in_ranges c rs.
Proof.
  unfold norm_cls. rewrite <- (in_filter_nonempty c rs), <- (in_isort c (filter nonempty_r rs)).
  pose proof (forallb_isort nonempty_r (filter nonempty_r rs)) as Hf. rewrite forallb_filter_same in Hf.
  destruct (isort (filter nonempty_r rs)) as [|x r]; [reflexivity|]. cbn [forallb] in Hf. apply andb_true_iff in Hf as [H1 H2].
  apply in_merge; assumption.
Qed.

(* --- whole expressions ---------------------------------------------------------------------------------- *)
Fixpoint re_norm (r : re) : re :=
  match r with
  | REps => REps
  | RClass neg rs => RClass neg (norm_cls rs)
  | RSeq a b => RSeq (re_norm a) (re_norm b)
  | RAlt a b => RAlt (re_norm a) (re_norm b)
  | RStar a => RStar (re_norm a)
  end.

Lemma rm_ext : forall fuel r s n k1 k2, (forall s' n', k1 s' n' = k2 s' n') -> rm fuel r s n k1 = rm fuel r s n k2.
Proof.
  induction fuel as [|f IH]; intros r s n k1 k2 Hk; [reflexivity|]. destruct r as [|neg rs|a b|a b|a]; cbn [rm].
  - apply Hk.
  - destruct s as [|c s']; [reflexivity|]. destruct (xorb neg (in_ranges c rs)); [apply Hk | reflexivity].
  - apply IH. intros s' n'. apply IH. exact Hk.
  - rewrite (IH a s n k1 k2 Hk), (IH b s n k1 k2 Hk). reflexivity.
  - rewrite (IH a s n _ (fun s' n' => if n' =? n then None else rm f (RStar a) s' n' k2)).
    + rewrite (Hk s n). reflexivity.
    + intros s' n'. destruct (n' =? n); [reflexivity|]. apply IH. exact Hk.
Qed.

Lemma rm_norm : forall fuel r s n k, rm fuel (re_norm r) s n k = rm fuel r s n k.
Proof.
  induction fuel as [|f IH]; intros r s n k; [reflexivity|]. destruct r as [|neg rs|a b|a b|a]; cbn [rm re_norm].
  - reflexivity.
  - destruct s as [|c s']; [reflexivity|]. rewrite in_norm_cls. reflexivity.
  - rewrite IH. apply rm_ext. intros s' n'. apply IH.
  - rewrite !IH. reflexivity.
  - rewrite IH. rewrite (rm_ext f a s n _ (fun s' n' => if n' =? n then None else rm f (RStar a) s' n' k)); [reflexivity|].
    intros s' n'. destruct (n' =? n); [reflexivity|]. apply (IH (RStar a)).
Qed.

Theorem same_norm_same_match r1 r2 : re_norm r1 = re_norm r2 -> forall s, re_match r1 s = re_match r2 s.
Proof. intros H s. unfold re_match. rewrite <- (rm_norm _ r1), <- (rm_norm _ r2), H. reflexivity. Qed.
