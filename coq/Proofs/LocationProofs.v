(* C08: every node of every result lies at its location (specification level: holds for all queries). *)
From JP Require Import Base.Json Model.Ast Spec.Slice Spec.Sem Proofs.AstInd Proofs.EvalProofs Proofs.CompareProofs.
From Coq Require Import ZifyBool.

Definition located (root : json) (n : node) : Prop := lookup root (fst n) = Some (snd n) /\ wf_json (snd n) = true.

Lemma lookup_app : forall loc root v k, lookup root loc = Some v -> lookup root (loc ++ [k]) = lookup v [k].
Proof.
  induction loc as [|k0 loc IH]; intros root v k H; cbn [app].
  - cbn [lookup] in H. inversion H; subst. reflexivity.
  - cbn [lookup] in *. destruct k0 as [s|i].
    + destruct root; try discriminate. destruct (find_assoc s m); [|discriminate]. apply IH. exact H.
    + destruct root; try discriminate. destruct (znth l i); [|discriminate]. apply IH. exact H.
Qed.

Lemma distinct_find k (x : json) (m : list (str * json)) : names_distinct (map fst m) = true -> In (k, x) m -> find_assoc k m = Some x.
Proof.
  induction m as [|[k' y] m IH]; cbn [map fst names_distinct In find_assoc]; [tauto|].
  intros Hd [E|Hin].
  - inversion E; subst. rewrite str_eqb_refl. reflexivity.
  - apply andb_true_iff in Hd as [Hn Hd]. destruct (str_eqb k k') eqn:Ek.
    + apply str_eqb_eq in Ek. subst k'. apply negb_true_iff in Hn.
      assert (existsb (str_eqb k) (map fst m) = true); [|congruence].
      apply existsb_exists. exists k. split; [|apply str_eqb_refl]. apply in_map_iff. exists (k, x). split; [reflexivity|exact Hin].
    + apply IH; assumption.
Qed.

Lemma enum_from_znth {A} (l : list A) : forall j i x, In (i, x) (enum_from j l) -> j <= i /\ znth_aux l (i - j) = Some x.
Proof.
  induction l as [|y l IH]; intros j i x; cbn [enum_from In znth_aux]; [tauto|].
  intros [E|H].
  - inversion E; subst. split; [lia|]. replace (i - i) with 0 by lia. reflexivity.
  - destruct (IH _ _ _ H) as [Hle Hz]. split; [lia|].
    assert (E : (i - j =? 0) = false) by lia. rewrite E. replace (i - j - 1) with (i - (j + 1)) by lia. exact Hz.
Qed.

Lemma member_located root n k x :
  located root n -> lookup (snd n) [k] = Some x -> In x (members (snd n)) -> located root (fst n ++ [k], x).
Proof.
  intros [Hl Hw] Hk Hin. split; cbn [fst snd].
  - rewrite (lookup_app _ _ _ k Hl). exact Hk.
  - eapply hereditary_wf; eassumption.
Qed.

Lemma children_located root n c : located root n -> In c (children n) -> located root c.
Proof.
  intros Hn. pose proof Hn as [Hl Hw]. unfold children. destruct (snd n) as [| | | | l | m] eqn:E; cbn [In]; try tauto; rewrite in_map_iff.
  - intros [[i x] [<- Hp]]. cbn [fst snd]. apply member_located; [exact Hn | | rewrite E; cbn [members]; eapply (enum_from_in l 0 (i, x)); exact Hp].
    rewrite E. cbn [lookup]. destruct (enum_from_znth l 0 i x Hp) as [Hle Hz].
    unfold znth. assert (Ei : (i <? 0) = false) by lia. rewrite Ei. replace (i - 0) with i in Hz by lia. rewrite Hz. reflexivity.
  - intros [[k x] [<- Hp]]. cbn [fst snd]. apply member_located; [exact Hn | | rewrite E; cbn [members]; apply in_map_iff; exists (k, x); split; [reflexivity|exact Hp]].
    rewrite E. cbn [lookup]. cbn [wf_json] in Hw. apply andb_true_iff in Hw as [Hd _].
    rewrite (distinct_find k x m Hd Hp). reflexivity.
Qed.

Lemma select_idx_located root n l idxs c : snd n = JArr l -> located root n -> In c (select_idx n l idxs) -> located root c.
Proof.
  intros En Hn. unfold select_idx. rewrite in_flat_map. intros [i [_ Hi]].
  destruct (znth l i) as [x|] eqn:Ez; [|destruct Hi]. destruct Hi as [<-|[]]. unfold child_at.
  apply member_located; [exact Hn | rewrite En; cbn [lookup]; rewrite Ez; reflexivity | rewrite En; cbn [members]; eapply znth_in; exact Ez].
Qed.

Lemma s_sel_located rg rxf root s n c : located root n -> In c (s_sel rg rxf root s n) -> located root c.
Proof.
  intros Hn. destruct s as [k | i | a b c' | | e]; cbn [s_sel].
  - destruct (snd n) as [| | | | l | m] eqn:En; cbn [In]; try tauto.
    destruct (find_assoc k m) as [v|] eqn:Ef; cbn [In]; [|tauto].
    intros [<-|[]]. unfold child_at. apply member_located; [exact Hn | rewrite En; cbn [lookup]; rewrite Ef; reflexivity |].
    rewrite En. cbn [members]. destruct (find_assoc_in _ _ _ Ef) as [k' Hk]. apply in_map_iff. exists (k', v). split; [reflexivity|exact Hk].
  - destruct (snd n) as [| | | | l | m] eqn:En; cbn [In]; try tauto. apply select_idx_located; assumption.
  - destruct (snd n) as [| | | | l | m] eqn:En; cbn [In]; try tauto. apply select_idx_located; assumption.
  - apply children_located. exact Hn.
  - intros Hc. apply filter_In in Hc as [Hc _]. eapply children_located; eassumption.
Qed.

Lemma descendants_located root : forall v loc d, located root (loc, v) -> In d (descendants loc v) -> located root d.
Proof.
  induction v as [| b | n | s | l IH | m IH] using json_ind'; intros loc d Hv; cbn [descendants In];
    try (intros [<-|[]]; exact Hv).
  - intros [<-|H]; [exact Hv|].
    assert (Hc : forall i x, In (i, x) (enum_from 0 l) -> located root (loc ++ [KIdx i], x)).
    { intros i x Hix. apply (children_located root (loc, JArr l)); [exact Hv|]. unfold children. cbn [snd fst].
      apply in_map_iff. exists (i, x). split; [reflexivity|exact Hix]. }
    clear Hv. revert Hc H. generalize 0 as j.
    induction IH as [|x l Px _ IHl]; intros j Hc; cbn [In enum_from]; [tauto|]. rewrite in_app_iff.
    intros [H|H]; [eapply Px; [apply (Hc j x); left; reflexivity | exact H] |].
    eapply (IHl (j + 1)); [|exact H]. intros i y Hy. apply Hc. right. exact Hy.
  - intros [<-|H]; [exact Hv|].
    assert (Hc : forall k x, In (k, x) m -> located root (loc ++ [KName k], x)).
    { intros k x Hkx. apply (children_located root (loc, JObj m)); [exact Hv|]. unfold children. cbn [snd fst].
      apply in_map_iff. exists (k, x). split; [reflexivity|exact Hkx]. }
    clear Hv. revert Hc H.
    induction IH as [|[k x] m Px _ IHm]; intros Hc; cbn [In]; [tauto|]. rewrite in_app_iff. cbn [snd] in Px.
    intros [H|H]; [eapply Px; [apply (Hc k x); left; reflexivity | exact H] |].
    eapply IHm; [|exact H]. intros k' y Hy. apply Hc. right. exact Hy.
Qed.

Lemma s_seg_located rg rxf root sg ns : Forall (located root) ns -> Forall (located root) (s_seg rg rxf root sg ns).
Proof.
  intros Hns. rewrite Forall_forall in *. destruct sg as [ss|ss]; cbn [s_seg]; intros c Hc;
    apply in_flat_map in Hc as [n [Hn Hc]].
  - specialize (Hns n Hn). revert Hc. induction ss as [|s ss IH]; cbn [In]; [tauto|]. rewrite in_app_iff.
    intros [H|H]; [eapply s_sel_located; eassumption | apply IH; exact H].
  - apply in_flat_map in Hc as [d [Hd Hc]]. specialize (Hns n Hn).
    assert (Hdl : located root d) by (destruct n as [loc v]; eapply descendants_located; [exact Hns | exact Hd]).
    revert Hc. induction ss as [|s ss IH]; cbn [In]; [tauto|]. rewrite in_app_iff.
    intros [H|H]; [eapply s_sel_located; eassumption | apply IH; exact H].
Qed.

Theorem sem_located rg rxf q v : wf_json v = true -> Forall (located v) (sem rg rxf q v).
Proof.
  intros Hw. unfold sem, s_segs. assert (H0 : Forall (located v) [([], v)]) by (constructor; [split; [reflexivity|exact Hw] | constructor]).
  revert H0. generalize [(@nil key, v)] as ns. induction q as [|sg q IH]; intros ns Hns; cbn [run_segs_s]; [exact Hns|].
  apply IH. apply s_seg_located. exact Hns.
Qed.

(* a location that can be followed has no negative index *)
Lemma lookup_nonneg : forall loc root x, lookup root loc = Some x ->
  Forall (fun k => match k with KIdx i => 0 <= i | _ => True end) loc.
Proof.
  induction loc as [|k loc IH]; intros root x H; [constructor|]. cbn [lookup] in H. destruct k as [s|i].
  - destruct root; try discriminate. destruct (find_assoc s m) eqn:E; [|discriminate]. constructor; [exact I | eapply IH; exact H].
  - destruct root; try discriminate. destruct (znth l i) eqn:E; [|discriminate]. constructor; [|eapply IH; exact H].
    unfold znth in E. destruct (i <? 0) eqn:Ei; [discriminate|]. lia.
Qed.
