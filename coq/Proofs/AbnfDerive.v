(* Building derivations of the transcribed RFC 9535 ABNF (Spec/Rfc9535Grammar.v) from what the lexer's regular expressions matched
   and from what the parser checked: the lexical half of "whatever compile() accepts is derivable from the grammar". *)
From JP Require Import Base.Prelude Model.Regex Model.Lex Model.Parse Spec.Abnf Spec.Rfc9535Grammar Proofs.LexInv Proofs.Requery Proofs.Reparse Proofs.LexSpell.
From Coq Require Import ZifyBool ZifyN.

Notation D := (derives rfc_grammar).

(* ---------------------------------------------------------------------------------------------------------------------------- *)
(* generic derivation steps *)
Lemma d_ref r s : D (rule_body r) s -> D (R r) s.
Proof. intros H. unfold R. apply DRef. unfold rfc_grammar. rewrite all_rules_indexed. exact H. Qed.
Lemma d_char c : D (GChar c) [c].
Proof. unfold GChar. apply DRange; apply N.le_refl. Qed.
Lemma d_C c : D (C c) [c]. Proof. apply d_char. Qed.
Lemma d_seq a b s1 s2 s : D a s1 -> D b s2 -> s = s1 ++ s2 -> D (GSeq a b) s.
Proof. intros H1 H2 ->. apply DSeq; assumption. Qed.
Lemma d_opt_none a : D (GOpt a) []. Proof. apply DAltR. apply DEps. Qed.
Lemma d_opt_some a s : D a s -> D (GOpt a) s. Proof. intros H. apply DAltL. exact H. Qed.
Lemma d_lit : forall s, D (GLit s) s.
Proof.
  induction s as [|c s IH]; [apply DEps|]. destruct s as [|d s']; [apply d_char|]. change (GLit (c :: d :: s')) with (GSeq (GChar c) (GLit (d :: s'))).
  apply (d_seq _ _ [c] (d :: s')); [apply d_char | exact IH | reflexivity].
Qed.

Lemma d_star_app e s1 : D (GStar e) s1 -> forall s2, D (GStar e) s2 -> D (GStar e) (s1 ++ s2).
Proof.
  intros H. remember (GStar e) as g eqn:Eg. induction H; try discriminate Eg; intros t Ht.
  - exact Ht.
  - inversion Eg; subst a. rewrite <- app_assoc. apply DStarS; [assumption | assumption | apply IHderives2; [reflexivity | exact Ht]].
Qed.
Lemma d_star_one e s : D e s -> s <> [] -> D (GStar e) s.
Proof. intros H Hne. rewrite <- (app_nil_r s). apply DStarS; [exact Hne | exact H | apply DStar0]. Qed.
Lemma d_star_snoc e s s1 : D (GStar e) s -> D e s1 -> s1 <> [] -> D (GStar e) (s ++ s1).
Proof. intros H H1 Hne. apply d_star_app; [exact H | apply d_star_one; assumption]. Qed.
Lemma d_star_chars e : forall s, (forall c, In c s -> D e [c]) -> D (GStar e) s.
Proof.
  induction s as [|x s IH]; intros H; [apply DStar0|]. change (x :: s) with ([x] ++ s).
  apply DStarS; [discriminate | apply H; left; reflexivity | apply IH; intros d Hd; apply H; right; exact Hd].
Qed.

(* blank space *)
Lemma d_B c : is_blank c = true -> D (R r_B) [c].
Proof.
  intros H. apply d_ref. cbn [rule_body GAlts]. unfold is_blank in H.
  destruct (N.eqb c 32) eqn:E1; [apply N.eqb_eq in E1; subst c; apply DAltL; apply d_C|].
  destruct (N.eqb c 9) eqn:E2; [apply N.eqb_eq in E2; subst c; apply DAltR; apply DAltL; apply d_C|].
  destruct (N.eqb c 10) eqn:E3; [apply N.eqb_eq in E3; subst c; apply DAltR; apply DAltR; apply DAltL; apply d_C|].
  destruct (N.eqb c 13) eqn:E4; [apply N.eqb_eq in E4; subst c; apply DAltR; apply DAltR; apply DAltR; apply d_C|].
  discriminate H.
Qed.
Lemma d_S b : blanks b -> D S_ b.
Proof.
  intros H. unfold S_. apply d_ref. cbn [rule_body]. apply d_star_chars. intros c Hc. apply d_B. unfold blanks in H. rewrite forallb_forall in H. exact (H c Hc).
Qed.

(* ---------------------------------------------------------------------------------------------------------------------------- *)
(* what a regular expression of lex.py can match: the language of the expression, and soundness of the backtracking matcher *)
Inductive lang : re -> list N -> Prop :=
| L_eps : lang REps []
| L_cls neg rs c : xorb neg (in_ranges c rs) = true -> lang (RClass neg rs) [c]
| L_seq a b s1 s2 : lang a s1 -> lang b s2 -> lang (RSeq a b) (s1 ++ s2)
| L_altl a b s : lang a s -> lang (RAlt a b) s
| L_altr a b s : lang b s -> lang (RAlt a b) s
| L_star0 a : lang (RStar a) []
| L_starS a s1 s2 : lang a s1 -> lang (RStar a) s2 -> lang (RStar a) (s1 ++ s2).

Lemma rm_sound : forall F r s n k x, rm F r s n k = Some x -> exists p s', s = p ++ s' /\ lang r p /\ k s' (n + zlen p) = Some x.
Proof.
  induction F as [|f IH]; intros r s n k x H; [discriminate|]. destruct r.
  - rewrite rm_eps_S in H. exists [], s. split; [reflexivity|]. split; [constructor|]. change (zlen (@nil N)) with 0. rewrite Z.add_0_r. exact H.
  - rewrite rm_class_S in H. destruct s as [|c s']; [discriminate|]. destruct (xorb neg (in_ranges c rs)) eqn:E; [|discriminate].
    exists [c], s'. split; [reflexivity|]. split; [constructor; exact E | exact H].
  - rewrite rm_seq_S in H. apply IH in H as (p1 & s1 & -> & L1 & H). apply IH in H as (p2 & s2 & -> & L2 & H).
    exists (p1 ++ p2), s2. split; [rewrite app_assoc; reflexivity|]. split; [constructor; assumption|]. rewrite zl_app, Z.add_assoc. exact H.
  - rewrite rm_alt_S in H. destruct (rm f r1 s n k) as [y|] eqn:E.
    + inversion H; subst y. apply IH in E as (p & s' & -> & L & E). exists p, s'. split; [reflexivity|]. split; [apply L_altl; exact L | exact E].
    + apply IH in H as (p & s' & -> & L & E'). exists p, s'. split; [reflexivity|]. split; [apply L_altr; exact L | exact E'].
  - rewrite rm_star_S in H. destruct (rm f r s n (fun s' n' => if n' =? n then None else rm f (RStar r) s' n' k)) as [y|] eqn:E.
    + inversion H; subst y. apply IH in E as (p1 & s1 & -> & L1 & E). destruct (n + zlen p1 =? n); [discriminate|].
      apply IH in E as (p2 & s2 & -> & L2 & E). exists (p1 ++ p2), s2. split; [rewrite app_assoc; reflexivity|]. split; [constructor; assumption|].
      rewrite zl_app, Z.add_assoc. exact E.
    + exists [], s. split; [reflexivity|]. split; [constructor|]. change (zlen (@nil N)) with 0. rewrite Z.add_0_r. exact H.
Qed.

Lemma app_eq_len {A} (a b c d : list A) : a ++ b = c ++ d -> length a = length c -> a = c.
Proof.
  revert c. induction a as [|x a IH]; intros c H Hl; destruct c as [|y c]; try discriminate Hl; [reflexivity|].
  cbn [app] in H. inversion H; subst. f_equal. apply (IH c); [assumption | cbn [length] in Hl; lia].
Qed.
Lemma pmatch_lang r v : pmatch r v -> lang r v.
Proof.
  intros [rest H]. unfold re_match in H. apply rm_sound in H as (p & s' & E & L & H). inversion H as [Hz].
  assert (p = v) by (symmetry; apply (app_eq_len v rest p s' E); unfold zlen in Hz; lia). subst p. exact L.
Qed.

(* inversions *)
Lemma lang_cls_inv neg rs s : lang (RClass neg rs) s -> exists c, s = [c] /\ xorb neg (in_ranges c rs) = true.
Proof. intros H. inversion H; subst. exists c. split; [reflexivity | assumption]. Qed.
Lemma lang_seq_inv a b s : lang (RSeq a b) s -> exists s1 s2, s = s1 ++ s2 /\ lang a s1 /\ lang b s2.
Proof. intros H. inversion H; subst. exists s1, s2. repeat split; assumption. Qed.
Lemma lang_alt_inv a b s : lang (RAlt a b) s -> lang a s \/ lang b s.
Proof. intros H. inversion H; subst; [left | right]; assumption. Qed.
Lemma lang_eps_inv s : lang REps s -> s = []. Proof. intros H. inversion H. reflexivity. Qed.
Lemma lang_star_cls rs s : lang (RStar (RClass false rs)) s -> forallb (fun c => in_ranges c rs) s = true.
Proof.
  intros H. remember (RStar (RClass false rs)) as r eqn:Er. induction H; try discriminate Er; [reflexivity|]. inversion Er; subst a.
  apply lang_cls_inv in H as (c & -> & Hc). cbn [app forallb xorb] in *. destruct (in_ranges c rs); [|discriminate Hc]. cbn [andb]. apply IHlang2. reflexivity.
Qed.
Lemma lang_opt_inv a s : lang (ROpt a) s -> lang a s \/ s = [].
Proof. intros H. apply lang_alt_inv in H as [H | H]; [left; exact H | right; apply lang_eps_inv; exact H]. Qed.
Lemma lang_char_inv c s : lang (RChar c) s -> s = [c].
Proof.
  intros H. apply lang_cls_inv in H as (d & -> & Hd). cbn [xorb in_ranges] in Hd. f_equal.
  destruct (N.leb_spec c d), (N.leb_spec d c); cbn in Hd; try discriminate Hd. apply N.le_antisymm; assumption.
Qed.
Lemma lang_plus_cls rs s : lang (RPlus (RClass false rs)) s -> s <> [] /\ forallb (fun c => in_ranges c rs) s = true.
Proof.
  intros H. apply lang_seq_inv in H as (s1 & s2 & -> & H1 & H2). apply lang_cls_inv in H1 as (c & -> & Hc). apply lang_star_cls in H2.
  split; [discriminate|]. cbn [app forallb xorb] in *. destruct (in_ranges c rs); [|discriminate Hc]. rewrite H2. reflexivity.
Qed.

(* ---------------------------------------------------------------------------------------------------------------------------- *)
(* names, function names, integers *)
Ltac range_cases H :=
  cbn [in_ranges] in H;
  repeat match type of H with
  | (_ || _) = true => apply orb_true_iff in H; destruct H as [H | H]
  end;
  try discriminate H;
  match type of H with (_ && _) = true => let A := fresh "A" in let B := fresh "B" in apply andb_true_iff in H as [A B]; apply N.leb_le in A; apply N.leb_le in B end.

Lemma d_digit c : isd c = true -> D (R r_DIGIT) [c].
Proof. intros H. unfold isd in H. apply andb_true_iff in H as [A B]. apply N.leb_le in A. apply N.leb_le in B. apply d_ref. cbn [rule_body]. apply DRange; assumption. Qed.
Lemma d_digits s : forallb isd s = true -> D (GStar (R r_DIGIT)) s.
Proof. intros H. apply d_star_chars. intros c Hc. apply d_digit. rewrite forallb_forall in H. exact (H c Hc). Qed.

Lemma d_name_first c : in_ranges c cls_name_first = true -> D (R r_name_first) [c].
Proof.
  intros H. apply d_ref. cbn [rule_body GAlts]. unfold cls_name_first in H. range_cases H.
  - apply DAltR, DAltR, DAltL. apply DRange; assumption.
  - apply DAltR, DAltR, DAltR. apply DRange; assumption.
  - apply DAltL. apply d_ref. cbn [rule_body]. apply DAltR. apply DRange; assumption.
  - apply DAltL. apply d_ref. cbn [rule_body]. apply DAltL. apply DRange; assumption.
  - apply DAltR, DAltL. unfold C, GChar. apply DRange; assumption.
Qed.
Lemma d_name_char c : in_ranges c cls_name_char = true -> D (R r_name_char) [c].
Proof.
  intros H. apply d_ref. cbn [rule_body]. destruct (in_ranges c cls_name_first) eqn:E; [apply DAltL; apply d_name_first; exact E|].
  apply DAltR. apply d_digit. unfold cls_name_char in H. unfold cls_name_first in E. cbn [in_ranges] in H, E. unfold isd.
  repeat match type of E with (_ || _) = false => apply orb_false_iff in E; destruct E as [? E] end.
  repeat match goal with Hx : _ = false |- _ => rewrite Hx in H end. cbn [orb] in H. rewrite orb_false_r in H. exact H.
Qed.
Lemma d_member_name k : lang RE_PROPERTY k -> D (R r_member_name_shorthand) k.
Proof.
  intros H. unfold RE_PROPERTY in H. apply lang_seq_inv in H as (s1 & s2 & -> & H1 & H2). apply lang_cls_inv in H1 as (c & -> & Hc). apply lang_star_cls in H2.
  apply d_ref. cbn [rule_body]. apply DSeq; [apply d_name_first; cbn [xorb] in Hc; destruct (in_ranges c cls_name_first); [reflexivity | discriminate Hc]|].
  apply d_star_chars. intros d Hd. apply d_name_char. rewrite forallb_forall in H2. exact (H2 d Hd).
Qed.

Lemma d_function_name k : lang RE_FUNCTION_NAME k -> D (R r_function_name) k.
Proof.
  intros H. unfold RE_FUNCTION_NAME in H. apply lang_seq_inv in H as (s1 & s2 & -> & H1 & H2). apply lang_cls_inv in H1 as (c & -> & Hc). apply lang_star_cls in H2.
  apply d_ref. cbn [rule_body]. apply DSeq.
  - cbn [xorb] in Hc. destruct (in_ranges c [(97, 122)]%N) eqn:E; [|discriminate Hc]. range_cases E. apply DRange; assumption.
  - apply d_star_chars. intros d Hd. rewrite forallb_forall in H2. specialize (H2 d Hd). cbn [GAlts]. range_cases H2.
    + apply DAltL. apply DRange; assumption.
    + apply DAltR, DAltL. unfold C, GChar. apply DRange; assumption.
    + apply DAltR, DAltR. apply d_digit. unfold isd. apply andb_true_iff. split; apply N.leb_le; assumption.
Qed.

Lemma d_digit1 c : isd c = true -> c <> 48%N -> D (R r_DIGIT1) [c].
Proof. intros H Hn. unfold isd in H. apply andb_true_iff in H as [A B]. apply N.leb_le in A. apply N.leb_le in B. apply d_ref. cbn [rule_body]. apply DRange; lia. Qed.

(* a sign, then digits with no superfluous leading zero, not "-0": an ABNF int *)
Lemma d_int_parts sign body : (sign = [] \/ sign = [45%N]) -> body <> [] -> forallb isd body = true ->
  ((1 <? zlen (sign ++ body)) && starts_with [48%N] (sign ++ body) || starts_with [45%N; 48%N] (sign ++ body)) = false -> D (R r_int) (sign ++ body).
Proof.
  intros Hs Hb Hd Hz. destruct body as [|d rest]; [congruence|]. cbn [forallb] in Hd. apply andb_true_iff in Hd as [Hd1 Hd2].
  apply orb_false_iff in Hz as [Z1 Z2]. apply d_ref. cbn [rule_body GSeqs].
  destruct (N.eqb d 48) eqn:E0.
  - apply N.eqb_eq in E0. subst d. destruct Hs as [-> | ->]; [|cbn in Z2; discriminate Z2]. cbn [app] in *.
    destruct rest as [|e rest']; [apply DAltL; apply d_C|]. exfalso. unfold zlen in Z1. cbn [length] in Z1. cbn [starts_with] in Z1. replace (1 <? Z.of_nat (S (S (length rest')))) with true in Z1 by lia. discriminate Z1.
  - apply N.eqb_neq in E0. apply DAltR. apply (d_seq _ _ sign (d :: rest)); [| |reflexivity].
    + destruct Hs as [-> | ->]; [apply d_opt_none | apply d_opt_some; apply d_C].
    + apply (d_seq _ _ [d] rest); [apply d_digit1; assumption | apply d_digits; exact Hd2 | reflexivity].
Qed.
Lemma d_int ds i : int_text_ok ds i -> D (R r_int) ds.
Proof. intros (_ & _ & (sign & body & -> & Hs & Hb & Hd) & Hz). apply d_int_parts; assumption. Qed.

(* ---------------------------------------------------------------------------------------------------------------------------- *)
(* string literals: a body the RFC decoder of Spec/StringLit.v accepts is derivable *)
From JP Require Import Spec.StringLit Proofs.LexNoCrash.

Lemma hexv_cases c v : hexv c = Some v ->
  (isd c = true /\ v = Z.of_N c - 48) \/ ((65 <= c <= 70)%N /\ v = Z.of_N c - 55) \/ ((97 <= c <= 102)%N /\ v = Z.of_N c - 87).
Proof.
  unfold hexv, isd. destruct ((48 <=? c)%N && (c <=? 57)%N) eqn:E1; [intros H; inversion H; left; split; reflexivity|].
  destruct ((65 <=? c)%N && (c <=? 70)%N) eqn:E2; [intros H; inversion H; right; left; split; [lia | reflexivity]|].
  destruct ((97 <=? c)%N && (c <=? 102)%N) eqn:E3; [intros H; inversion H; right; right; split; [lia | reflexivity]|]. discriminate.
Qed.
Lemma d_ci lower c : c = lower \/ c = (lower - 32)%N -> D (GCi lower) [c].
Proof. intros [-> | ->]; [apply DAltL | apply DAltR]; apply d_char. Qed.
Lemma d_hexdig c v : hexv c = Some v -> D (R r_HEXDIG) [c].
Proof.
  intros H. apply d_ref. cbn [rule_body GAlts]. destruct (hexv_cases c v H) as [[Hd _] | [[Hc _] | [Hc _]]].
  - apply DAltL. apply d_digit. exact Hd.
  - apply DAltR. assert (X : (c = 65 \/ c = 66 \/ c = 67 \/ c = 68 \/ c = 69 \/ c = 70)%N) by lia.
    destruct X as [-> | [-> | [-> | [-> | [-> | ->]]]]]; [apply DAltL | apply DAltR, DAltL | apply DAltR, DAltR, DAltL | apply DAltR, DAltR, DAltR, DAltL | apply DAltR, DAltR, DAltR, DAltR, DAltL | apply DAltR, DAltR, DAltR, DAltR, DAltR]; apply d_ci; right; reflexivity.
  - apply DAltR. assert (X : (c = 97 \/ c = 98 \/ c = 99 \/ c = 100 \/ c = 101 \/ c = 102)%N) by lia.
    destruct X as [-> | [-> | [-> | [-> | [-> | ->]]]]]; [apply DAltL | apply DAltR, DAltL | apply DAltR, DAltR, DAltL | apply DAltR, DAltR, DAltR, DAltL | apply DAltR, DAltR, DAltR, DAltR, DAltL | apply DAltR, DAltR, DAltR, DAltR, DAltR]; apply d_ci; left; reflexivity.
Qed.
Lemma hexv_range c v : hexv c = Some v -> 0 <= v <= 15.
Proof. intros H. destruct (hexv_cases c v H) as [[Hd ->] | [[Hc ->] | [Hc ->]]]; [unfold isd in Hd|..]; lia. Qed.
Lemma hexv_13 c : hexv c = Some 13 -> c = 68%N \/ c = 100%N.
Proof. intros H. destruct (hexv_cases c 13 H) as [[Hd E] | [[Hc E] | [Hc E]]]; [unfold isd in Hd|..]; lia. Qed.

Lemma hex4_inv a b c d x : hex4 a b c d = Some x ->
  exists va vb vc vd, hexv a = Some va /\ hexv b = Some vb /\ hexv c = Some vc /\ hexv d = Some vd /\ x = va * 4096 + vb * 256 + vc * 16 + vd.
Proof.
  unfold hex4. destruct (hexv a) as [va|]; [|discriminate]. destruct (hexv b) as [vb|]; [|discriminate]. destruct (hexv c) as [vc|]; [|discriminate].
  destruct (hexv d) as [vd|]; [|discriminate]. intros H; inversion H. exists va, vb, vc, vd. repeat split; reflexivity.
Qed.

(* the four hex digits of a code unit that is not a surrogate / a high surrogate / a low surrogate *)
Lemma d_non_surrogate a b c d x : hex4 a b c d = Some x -> is_low x = false -> is_high x = false -> D (R r_non_surrogate) [a; b; c; d].
Proof.
  intros H Hl Hh. destruct (hex4_inv _ _ _ _ _ H) as (va & vb & vc & vd & Ha & Hb & Hc & Hd & ->).
  pose proof (hexv_range _ _ Ha). pose proof (hexv_range _ _ Hb). pose proof (hexv_range _ _ Hc). pose proof (hexv_range _ _ Hd).
  unfold is_low, is_high in *. apply d_ref. cbn [rule_body GSeqs].
  destruct (Z.eq_dec va 13) as [E13 | N13].
  - subst va. assert (vb <= 7) by lia. apply DAltR. change [a; b; c; d] with ([a] ++ [b] ++ [c] ++ [d]).
    apply DSeq; [apply d_ci; destruct (hexv_13 a Ha) as [-> | ->]; [right | left]; reflexivity|].
    apply DSeq; [|apply DSeq; [eapply d_hexdig; exact Hc | eapply d_hexdig; exact Hd]].
    destruct (hexv_cases b vb Hb) as [[Hd' E] | [[Hc' E] | [Hc' E]]]; [unfold isd in Hd'; apply DRange; lia | lia | lia].
  - apply DAltL. change [a; b; c; d] with ([a] ++ [b] ++ [c] ++ [d]).
    apply DSeq; [|apply DSeq; [eapply d_hexdig; exact Hb | apply DSeq; [eapply d_hexdig; exact Hc | eapply d_hexdig; exact Hd]]].
    cbn [GAlts]. destruct (hexv_cases a va Ha) as [[Hd' E] | [[Hc' E] | [Hc' E]]].
    + apply DAltL. apply d_digit. exact Hd'.
    + apply DAltR. assert (X : (a = 65 \/ a = 66 \/ a = 67 \/ a = 69 \/ a = 70)%N) by lia.
      destruct X as [-> | [-> | [-> | [-> | ->]]]]; [apply DAltL | apply DAltR, DAltL | apply DAltR, DAltR, DAltL | apply DAltR, DAltR, DAltR, DAltL | apply DAltR, DAltR, DAltR, DAltR]; apply d_ci; right; reflexivity.
    + apply DAltR. assert (X : (a = 97 \/ a = 98 \/ a = 99 \/ a = 101 \/ a = 102)%N) by lia.
      destruct X as [-> | [-> | [-> | [-> | ->]]]]; [apply DAltL | apply DAltR, DAltL | apply DAltR, DAltR, DAltL | apply DAltR, DAltR, DAltR, DAltL | apply DAltR, DAltR, DAltR, DAltR]; apply d_ci; left; reflexivity.
Qed.
Lemma d_high_surrogate a b c d x : hex4 a b c d = Some x -> is_high x = true -> D (R r_high_surrogate) [a; b; c; d].
Proof.
  intros H Hh. destruct (hex4_inv _ _ _ _ _ H) as (va & vb & vc & vd & Ha & Hb & Hc & Hd & ->).
  pose proof (hexv_range _ _ Ha). pose proof (hexv_range _ _ Hb). pose proof (hexv_range _ _ Hc). pose proof (hexv_range _ _ Hd).
  unfold is_high in *. assert (va = 13 /\ 8 <= vb <= 11) as [-> Hvb] by lia. apply d_ref. cbn [rule_body GSeqs GAlts].
  change [a; b; c; d] with ([a] ++ [b] ++ [c] ++ [d]).
  apply DSeq; [apply d_ci; destruct (hexv_13 a Ha) as [-> | ->]; [right | left]; reflexivity|].
  apply DSeq; [|apply DSeq; [eapply d_hexdig; exact Hc | eapply d_hexdig; exact Hd]].
  destruct (hexv_cases b vb Hb) as [[Hd' E] | [[Hc' E] | [Hc' E]]].
  - unfold isd in Hd'. assert (X : (b = 56 \/ b = 57)%N) by lia. destruct X as [-> | ->]; [apply DAltL | apply DAltR, DAltL]; apply d_C.
  - assert (X : (b = 65 \/ b = 66)%N) by lia. destruct X as [-> | ->]; [apply DAltR, DAltR, DAltL | apply DAltR, DAltR, DAltR]; apply d_ci; right; reflexivity.
  - assert (X : (b = 97 \/ b = 98)%N) by lia. destruct X as [-> | ->]; [apply DAltR, DAltR, DAltL | apply DAltR, DAltR, DAltR]; apply d_ci; left; reflexivity.
Qed.
Lemma d_low_surrogate a b c d x : hex4 a b c d = Some x -> is_low x = true -> D (R r_low_surrogate) [a; b; c; d].
Proof.
  intros H Hh. destruct (hex4_inv _ _ _ _ _ H) as (va & vb & vc & vd & Ha & Hb & Hc & Hd & ->).
  pose proof (hexv_range _ _ Ha). pose proof (hexv_range _ _ Hb). pose proof (hexv_range _ _ Hc). pose proof (hexv_range _ _ Hd).
  unfold is_low in *. assert (va = 13 /\ 12 <= vb <= 15) as [-> Hvb] by lia. apply d_ref. cbn [rule_body GSeqs GAlts].
  change [a; b; c; d] with ([a] ++ [b] ++ [c] ++ [d]).
  apply DSeq; [apply d_ci; destruct (hexv_13 a Ha) as [-> | ->]; [right | left]; reflexivity|].
  apply DSeq; [|apply DSeq; [eapply d_hexdig; exact Hc | eapply d_hexdig; exact Hd]].
  destruct (hexv_cases b vb Hb) as [[Hd' E] | [[Hc' E] | [Hc' E]]].
  - unfold isd in Hd'. lia.
  - assert (X : (b = 67 \/ b = 68 \/ b = 69 \/ b = 70)%N) by lia.
    destruct X as [-> | [-> | [-> | ->]]]; [apply DAltL | apply DAltR, DAltL | apply DAltR, DAltR, DAltL | apply DAltR, DAltR, DAltR]; apply d_ci; right; reflexivity.
  - assert (X : (b = 99 \/ b = 100 \/ b = 101 \/ b = 102)%N) by lia.
    destruct X as [-> | [-> | [-> | ->]]]; [apply DAltL | apply DAltR, DAltL | apply DAltR, DAltR, DAltL | apply DAltR, DAltR, DAltR]; apply d_ci; left; reflexivity.
Qed.

Definition quoted (q : N) : rule := if N.eqb q 39 then r_single_quoted else r_double_quoted.
Lemma d_q_raw q c : qok q -> raw_ok q c = true -> D (R (quoted q)) [c].
Proof.
  intros Hq H. unfold raw_ok in H. repeat (apply andb_true_iff in H; destruct H as [H ?]).
  assert (Hc : (32 <= c)%N /\ c <> 92%N /\ c <> q /\ ~ (55296 <= c <= 57343)%N /\ (c <= 1114111)%N) by lia. destruct Hc as (C1 & C2 & C3 & C4 & C5).
  assert (U : c <> 34%N -> c <> 39%N -> D (R r_unescaped) [c]).
  { intros N1 N2. apply d_ref. cbn [rule_body GAlts].
    assert (X : ((32 <= c <= 33) \/ (35 <= c <= 38) \/ (40 <= c <= 91) \/ (93 <= c <= 55295) \/ (57344 <= c <= 1114111))%N) by lia.
    destruct X as [X | [X | [X | [X | X]]]]; [apply DAltL | apply DAltR, DAltL | apply DAltR, DAltR, DAltL | apply DAltR, DAltR, DAltR, DAltL | apply DAltR, DAltR, DAltR, DAltR]; apply DRange; lia. }
  apply d_ref. destruct Hq as [-> | ->]; cbn [quoted N.eqb Pos.eqb rule_body GAlts].
  - destruct (N.eq_dec c 34) as [-> | N1]; [apply DAltR, DAltL; apply d_C | apply DAltL; apply U; assumption].
  - destruct (N.eq_dec c 39) as [-> | N1]; [apply DAltR, DAltL; apply d_C | apply DAltL; apply U; assumption].
Qed.
Lemma d_q_escq q : qok q -> D (R (quoted q)) [92%N; q].
Proof.
  intros Hq. apply d_ref. destruct Hq as [-> | ->]; cbn [quoted N.eqb Pos.eqb rule_body GAlts]; apply DAltR, DAltR, DAltL;
    [apply (d_seq _ _ [92%N] [39%N]) | apply (d_seq _ _ [92%N] [34%N])]; try apply d_C; reflexivity.
Qed.
Lemma d_q_esc q e : qok q -> D (R r_escapable) e -> D (R (quoted q)) (92%N :: e).
Proof.
  intros Hq He. apply d_ref. destruct Hq as [-> | ->]; cbn [quoted N.eqb Pos.eqb rule_body GAlts]; apply DAltR, DAltR, DAltR;
    apply (d_seq _ _ [92%N] e); try apply d_C; try exact He; reflexivity.
Qed.
Lemma d_esc_simple d : In d [98; 102; 110; 114; 116; 47; 92]%N -> D (R r_escapable) [d].
Proof.
  intros H. apply d_ref. cbn [rule_body GAlts]. cbn [In] in H.
  destruct H as [<- | [<- | [<- | [<- | [<- | [<- | [<- | []]]]]]]];
    [apply DAltL | apply DAltR, DAltL | apply DAltR, DAltR, DAltL | apply DAltR, DAltR, DAltR, DAltL | apply DAltR, DAltR, DAltR, DAltR, DAltL
    | apply DAltR, DAltR, DAltR, DAltR, DAltR, DAltL | apply DAltR, DAltR, DAltR, DAltR, DAltR, DAltR, DAltL]; apply d_C.
Qed.
Lemma d_esc_u h : D (R r_hexchar) h -> D (R r_escapable) (117%N :: h).
Proof.
  intros H. apply d_ref. cbn [rule_body GAlts]. apply DAltR, DAltR, DAltR, DAltR, DAltR, DAltR, DAltR. apply (d_seq _ _ [117%N] h); [apply d_C | exact H | reflexivity].
Qed.

Lemma d_body q : qok q -> forall n s k, (length s <= n)%nat -> spec_decode q s = Some k -> D (GStar (R (quoted q))) s.
Proof.
  intros Hq. induction n as [|n IH]; intros s k Hn H.
  { destruct s; [apply DStar0 | cbn [length] in Hn; lia]. }
  destruct s as [|c r]; [apply DStar0|]. cbn [length] in Hn. cbn [spec_decode] in H.
  destruct (N.eqb c 92) eqn:Ec.
  - apply N.eqb_eq in Ec. subst c. destruct r as [|d r']; [discriminate|]. cbn [length] in Hn.
    assert (Simple : forall k', spec_decode q r' = Some k' -> D (R (quoted q)) [92%N; d] -> D (GStar (R (quoted q))) (92%N :: d :: r')).
    { intros k' Hk Hd. change (92%N :: d :: r') with ([92%N; d] ++ r'). apply DStarS; [discriminate | exact Hd | apply (IH r' k'); [lia | exact Hk]]. }
    assert (Sim2 : forall x0, match spec_decode q r' with Some t => Some (x0 :: t) | None => None end = Some k -> D (R (quoted q)) [92%N; d] -> D (GStar (R (quoted q))) (92%N :: d :: r')).
    { intros x0 Hx Hd. destruct (spec_decode q r') as [t|] eqn:Et; [|discriminate]. apply (Simple t eq_refl Hd). }
    destruct (N.eqb d q) eqn:E0. { apply N.eqb_eq in E0. subst d. apply (Sim2 _ H). apply d_q_escq. exact Hq. }
    destruct (N.eqb d 98) eqn:E1. { apply N.eqb_eq in E1. subst d. apply (Sim2 _ H). apply d_q_esc; [exact Hq | apply d_esc_simple; cbn; tauto]. }
    destruct (N.eqb d 102) eqn:E2. { apply N.eqb_eq in E2. subst d. apply (Sim2 _ H). apply d_q_esc; [exact Hq | apply d_esc_simple; cbn; tauto]. }
    destruct (N.eqb d 110) eqn:E3. { apply N.eqb_eq in E3. subst d. apply (Sim2 _ H). apply d_q_esc; [exact Hq | apply d_esc_simple; cbn; tauto]. }
    destruct (N.eqb d 114) eqn:E4. { apply N.eqb_eq in E4. subst d. apply (Sim2 _ H). apply d_q_esc; [exact Hq | apply d_esc_simple; cbn; tauto]. }
    destruct (N.eqb d 116) eqn:E5. { apply N.eqb_eq in E5. subst d. apply (Sim2 _ H). apply d_q_esc; [exact Hq | apply d_esc_simple; cbn; tauto]. }
    destruct (N.eqb d 47) eqn:E6. { apply N.eqb_eq in E6. subst d. apply (Sim2 _ H). apply d_q_esc; [exact Hq | apply d_esc_simple; cbn; tauto]. }
    destruct (N.eqb d 92) eqn:E7. { apply N.eqb_eq in E7. subst d. apply (Sim2 _ H). apply d_q_esc; [exact Hq | apply d_esc_simple; cbn; tauto]. }
    destruct (N.eqb d 117) eqn:E8; [|discriminate]. apply N.eqb_eq in E8. subst d.
    destruct r' as [|h1 [|h2 [|h3 [|h4 r2]]]]; try discriminate. destruct (hex4 h1 h2 h3 h4) as [x|] eqn:Ex; [|discriminate].
    destruct (is_low x) eqn:El; [discriminate|]. destruct (is_high x) eqn:Eh.
    + destruct r2 as [|b [|u [|l1 [|l2 [|l3 [|l4 r3]]]]]]; try discriminate. destruct (N.eqb b 92 && N.eqb u 117) eqn:Ebu; [|discriminate].
      apply andb_true_iff in Ebu as [Eb Eu]. apply N.eqb_eq in Eb. apply N.eqb_eq in Eu. subst b u.
      destruct (hex4 l1 l2 l3 l4) as [y|] eqn:Ey; [|discriminate]. destruct (is_low y) eqn:Ely; [|discriminate].
      destruct (spec_decode q r3) as [t|] eqn:Et; [|discriminate].
      change (92%N :: 117%N :: h1 :: h2 :: h3 :: h4 :: 92%N :: 117%N :: l1 :: l2 :: l3 :: l4 :: r3) with ((92%N :: 117%N :: [h1; h2; h3; h4] ++ [92%N] ++ [117%N] ++ [l1; l2; l3; l4]) ++ r3).
      apply DStarS; [discriminate | | apply (IH r3 t); [cbn [length] in Hn; lia | exact Et]].
      apply d_q_esc; [exact Hq|]. apply d_esc_u. apply d_ref. cbn [rule_body GSeqs]. apply DAltR.
      apply DSeq; [eapply d_high_surrogate; eassumption|]. apply DSeq; [apply d_C|]. apply DSeq; [apply d_C | eapply d_low_surrogate; eassumption].
    + destruct (spec_decode q r2) as [t|] eqn:Et; [|discriminate].
      change (92%N :: 117%N :: h1 :: h2 :: h3 :: h4 :: r2) with ((92%N :: 117%N :: [h1; h2; h3; h4]) ++ r2).
      apply DStarS; [discriminate | | apply (IH r2 t); [cbn [length] in Hn; lia | exact Et]].
      apply d_q_esc; [exact Hq|]. apply d_esc_u. apply d_ref. cbn [rule_body]. apply DAltL. eapply d_non_surrogate; eassumption.
  - destruct (raw_ok q c) eqn:Er; [|discriminate]. destruct (spec_decode q r) as [t|] eqn:Et; [|discriminate].
    change (c :: r) with ([c] ++ r). apply DStarS; [discriminate | apply d_q_raw; assumption | apply (IH r t); [lia | exact Et]].
Qed.

(* a string token: opening quote, body, closing quote *)
Lemma d_string_literal q body k : qok q -> spec_decode q body = Some k -> D (R r_string_literal) ([q] ++ body ++ [q]).
Proof.
  intros Hq H. pose proof (d_body q Hq (length body) body k (le_n _) H) as Hb. apply d_ref. cbn [rule_body GSeqs].
  destruct Hq as [-> | ->]; [apply DAltR | apply DAltL]; (apply DSeq; [apply d_C|]); (apply DSeq; [exact Hb | apply d_C]).
Qed.

(* ---------------------------------------------------------------------------------------------------------------------------- *)
(* number literals: what RE_INT / RE_FLOAT matched, minus what the parser refuses (leading zeros, text float() rejects) *)
From JP Require Import Model.PyFloat.

Lemma isd_digits s : forallb (fun c => in_ranges c cls_digit) s = true -> forallb isd s = true.
Proof. intros H. rewrite forallb_forall in *. intros c Hc. specialize (H c Hc). unfold cls_digit in H. cbn [in_ranges] in H. rewrite orb_false_r in H. exact H. Qed.
Lemma lang_digits s : lang re_digits s -> s <> [] /\ forallb isd s = true.
Proof. intros H. apply lang_plus_cls in H as [A B]. split; [exact A | apply isd_digits; exact B]. Qed.
Lemma lang_minus_opt s : lang re_minus_opt s -> s = [] \/ s = [45%N].
Proof. intros H. apply lang_opt_inv in H as [H | ->]; [right; apply lang_char_inv; exact H | left; reflexivity]. Qed.

Lemma take_until_all stop : forall a b, forallb (fun c => negb (stop c)) a = true -> take_until stop (a ++ b) = a ++ take_until stop b.
Proof.
  induction a as [|c a IH]; intros b H; [reflexivity|]. cbn [forallb] in H. apply andb_true_iff in H as [Hc Ha]. cbn [app take_until].
  destruct (stop c); [discriminate Hc|]. rewrite IH by exact Ha. reflexivity.
Qed.
Lemma digits_not (stop : N -> bool) s : (forall c, isd c = true -> stop c = false) -> forallb isd s = true -> forallb (fun c => negb (stop c)) s = true.
Proof. intros Hs H. rewrite forallb_forall in *. intros c Hc. rewrite (Hs c (H c Hc)). reflexivity. Qed.

(* the general spelling: sign, integer part, optional fraction, optional exponent *)
Definition frac_ok (fr : list N) : Prop := fr = [] \/ exists fp, fr = 46%N :: fp /\ fp <> [] /\ forallb isd fp = true.
Definition exp_ok (ex : list N) : Prop :=
  ex = [] \/ exists e sg ed, ex = e :: sg ++ ed /\ (e = 101%N \/ e = 69%N) /\ (sg = [] \/ sg = [43%N] \/ sg = [45%N]) /\ ed <> [] /\ forallb isd ed = true.

Lemma hlz_form sg ip fr ex : (sg = [] \/ sg = [45%N]) -> ip <> [] -> forallb isd ip = true -> frac_ok fr -> exp_ok ex ->
  has_leading_zero (sg ++ ip ++ fr ++ ex) = (1 <? zlen ip) && starts_with [48%N] ip.
Proof.
  intros Hs Hne Hd Hf He. unfold has_leading_zero.
  assert (L : lstrip_minus (sg ++ ip ++ fr ++ ex) = ip ++ fr ++ ex).
  { destruct ip as [|d ip']; [congruence|]. cbn [forallb] in Hd. apply andb_true_iff in Hd as [Hd1 _]. unfold isd in Hd1.
    destruct Hs as [-> | ->]; cbn [app lstrip_minus]; destruct d; try reflexivity; repeat (destruct p; try reflexivity); cbn in Hd1; discriminate Hd1. }
  rewrite L.
  assert (T1 : take_until (fun c => N.eqb c 101 || N.eqb c 69) (ip ++ fr ++ ex) = ip ++ fr).
  { rewrite app_assoc. assert (Hn : forallb (fun c => negb (N.eqb c 101 || N.eqb c 69)) (ip ++ fr) = true).
    { rewrite forallb_app. apply andb_true_iff. split.
      - apply digits_not; [|exact Hd]. intros c Hc. unfold isd in Hc. lia.
      - destruct Hf as [-> | (fp & -> & _ & Hfp)]; [reflexivity|]. cbn [forallb]. apply andb_true_iff. split; [reflexivity|]. apply digits_not; [|exact Hfp]. intros c Hc. unfold isd in Hc. lia. }
    rewrite (take_until_all _ (ip ++ fr) ex Hn). destruct He as [-> | (e & sg' & ed & -> & [-> | ->] & _)]; cbn [take_until N.eqb Pos.eqb orb]; rewrite ?app_nil_r; reflexivity. }
  rewrite T1.
  assert (T2 : take_until (fun c => N.eqb c 46) (ip ++ fr) = ip).
  { rewrite (take_until_all _ ip fr) by (apply digits_not; [|exact Hd]; intros c Hc; unfold isd in Hc; lia).
    destruct Hf as [-> | (fp & -> & _)]; cbn [take_until N.eqb Pos.eqb]; rewrite app_nil_r; reflexivity. }
  rewrite T2. reflexivity.
Qed.

Lemma sw_cons c p d s : starts_with (c :: p) (d :: s) = N.eqb c d && starts_with p s. Proof. reflexivity. Qed.
Lemma d_plus_digits s : s <> [] -> forallb isd s = true -> D (GPlus (R r_DIGIT)) s.
Proof.
  intros Hne H. destruct s as [|c r]; [congruence|]. cbn [forallb] in H. apply andb_true_iff in H as [H1 H2]. unfold GPlus.
  apply (d_seq _ _ [c] r); [apply d_digit; exact H1 | apply d_digits; exact H2 | reflexivity].
Qed.

Lemma d_number_form sg ip fr ex : (sg = [] \/ sg = [45%N]) -> ip <> [] -> forallb isd ip = true -> frac_ok fr -> exp_ok ex ->
  has_leading_zero (sg ++ ip ++ fr ++ ex) = false -> D (R r_number) (sg ++ ip ++ fr ++ ex).
Proof.
  intros Hs Hne Hd Hf He Hz. rewrite (hlz_form sg ip fr ex Hs Hne Hd Hf He) in Hz. apply d_ref. cbn [rule_body GSeqs].
  rewrite app_assoc. apply DSeq; [|apply DSeq].
  - (* int / "-0" *)
    destruct ip as [|d rest]; [congruence|]. destruct (N.eqb d 48) eqn:E0.
    + apply N.eqb_eq in E0. subst d. destruct rest as [|e rest'].
      * destruct Hs as [-> | ->]; [apply DAltL; apply d_ref; cbn [rule_body]; apply DAltL; apply d_C | apply DAltR; apply (d_lit [45; 48]%N)].
      * exfalso. unfold zlen in Hz. cbn [length starts_with N.eqb Pos.eqb andb] in Hz. replace (1 <? Z.of_nat (S (S (length rest')))) with true in Hz by lia. discriminate Hz.
    + apply DAltL. apply d_int_parts; try assumption.
      assert (E0' : N.eqb 48 d = false) by (rewrite N.eqb_sym; exact E0).
      assert (E45 : N.eqb 45 d = false) by (cbn [forallb] in Hd; apply andb_true_iff in Hd as [Hd1 _]; unfold isd in Hd1; lia).
      destruct Hs as [-> | ->]; cbn [app]; rewrite !sw_cons, ?E0', ?E45; cbn [andb orb]; rewrite ?andb_false_r; reflexivity.
  - destruct Hf as [-> | (fp & -> & Hfn & Hfd)]; [apply d_opt_none|]. apply d_opt_some. apply d_ref. cbn [rule_body].
    apply (d_seq _ _ [46%N] fp); [apply d_C | apply d_plus_digits; assumption | reflexivity].
  - destruct He as [-> | (e & sg' & ed & -> & Hee & Hsg & Hen & Hed)]; [apply d_opt_none|]. apply d_opt_some. apply d_ref. cbn [rule_body GSeqs].
    apply (d_seq _ _ [e] (sg' ++ ed)); [apply d_ci; destruct Hee as [-> | ->]; [left | right]; reflexivity | | reflexivity].
    apply DSeq; [|apply d_plus_digits; assumption].
    destruct Hsg as [-> | [-> | ->]]; [apply d_opt_none | apply d_opt_some; apply DAltR; apply d_C | apply d_opt_some; apply DAltL; apply d_C].
Qed.

Lemma lang_eE s : lang re_eE s -> s = [101%N] \/ s = [69%N].
Proof.
  intros H. apply lang_cls_inv in H as (c & -> & Hc). cbn [xorb in_ranges] in Hc.
  destruct (N.leb_spec 101 c), (N.leb_spec c 101), (N.leb_spec 69 c), (N.leb_spec c 69); cbn in Hc; try discriminate Hc;
    first [left; f_equal; lia | right; f_equal; lia].
Qed.

Lemma d_number_int v : lang RE_INT v -> has_leading_zero v = false -> D (R r_number) v.
Proof.
  intros H Hz. unfold RE_INT in H. apply lang_seq_inv in H as (sg & r1 & -> & Hsg & H). apply lang_seq_inv in H as (ip & ex & -> & Hip & Hex).
  apply lang_minus_opt in Hsg. apply lang_digits in Hip as [Hne Hd].
  assert (He : exp_ok ex).
  { apply lang_opt_inv in Hex as [Hex | ->]; [|left; reflexivity]. apply lang_seq_inv in Hex as (e & r2 & -> & He & Hex). apply lang_seq_inv in Hex as (pl & ed & -> & Hpl & Hed).
    apply lang_digits in Hed as [Hen Hedd]. right. apply lang_eE in He. apply lang_opt_inv in Hpl.
    destruct He as [-> | ->]; [exists 101%N | exists 69%N]; exists pl, ed; (split; [reflexivity|]); (split; [tauto|]);
      (split; [destruct Hpl as [Hpl | ->]; [right; left; apply lang_char_inv; exact Hpl | left; reflexivity]|]); split; assumption. }
  replace (sg ++ ip ++ ex) with (sg ++ ip ++ [] ++ ex) in * by reflexivity. apply d_number_form; try assumption. left; reflexivity.
Qed.

Lemma d_number_float v x : lang RE_FLOAT v -> has_leading_zero v = false -> py_float v = Some x -> D (R r_number) v.
Proof.
  intros H Hz Hp. unfold RE_FLOAT in H. apply lang_alt_inv in H as [H | H].
  - apply lang_seq_inv in H as (oc & r0 & -> & Hoc & H). apply lang_opt_inv in Hoc as [Hoc | ->].
    { apply lang_char_inv in Hoc. subst oc. unfold py_float in Hp. cbn in Hp. discriminate Hp. }
    cbn [app] in *. apply lang_seq_inv in H as (sg & r1 & -> & Hsg & H). apply lang_seq_inv in H as (ip & r2 & -> & Hip & H).
    apply lang_seq_inv in H as (dot & r3 & -> & Hdot & H). apply lang_seq_inv in H as (fp & ex & -> & Hfp & Hex).
    apply lang_minus_opt in Hsg. apply lang_digits in Hip as [Hne Hd]. apply lang_char_inv in Hdot. subst dot. apply lang_digits in Hfp as [Hfn Hfd].
    assert (He : exp_ok ex).
    { apply lang_opt_inv in Hex as [Hex | ->]; [|left; reflexivity]. apply lang_seq_inv in Hex as (e & r4 & -> & He & Hex). apply lang_seq_inv in Hex as (pl & ed & -> & Hpl & Hed).
      apply lang_digits in Hed as [Hen Hedd]. right. apply lang_eE in He. apply lang_opt_inv in Hpl.
      assert (Hpl' : pl = [] \/ pl = [43%N] \/ pl = [45%N]).
      { destruct Hpl as [Hpl | ->]; [|left; reflexivity]. apply lang_cls_inv in Hpl as (c & -> & Hc). cbn [xorb in_ranges] in Hc.
        destruct (N.leb_spec 43 c), (N.leb_spec c 43), (N.leb_spec 45 c), (N.leb_spec c 45); cbn in Hc; try discriminate Hc;
          first [right; left; f_equal; lia | right; right; f_equal; lia]. }
      destruct He as [-> | ->]; [exists 101%N | exists 69%N]; exists pl, ed; (split; [reflexivity|]); (split; [tauto|]); (split; [exact Hpl'|]); split; assumption. }
    replace (sg ++ ip ++ [46%N] ++ fp ++ ex) with (sg ++ ip ++ (46%N :: fp) ++ ex) in * by reflexivity.
    apply d_number_form; try assumption. right. exists fp. repeat split; assumption.
  - apply lang_seq_inv in H as (sg & r1 & -> & Hsg & H). apply lang_seq_inv in H as (ip & r2 & -> & Hip & H).
    apply lang_seq_inv in H as (e & r3 & -> & He & H). apply lang_seq_inv in H as (mi & ed & -> & Hmi & Hed).
    apply lang_minus_opt in Hsg. apply lang_digits in Hip as [Hne Hd]. apply lang_eE in He. apply lang_char_inv in Hmi. subst mi. apply lang_digits in Hed as [Hen Hedd].
    replace (sg ++ ip ++ e ++ [45%N] ++ ed) with (sg ++ ip ++ [] ++ (e ++ [45%N] ++ ed)) in * by reflexivity.
    apply d_number_form; try assumption; [left; reflexivity|]. right.
    destruct He as [-> | ->]; [exists 101%N | exists 69%N]; exists [45%N], ed; (split; [reflexivity|]); (split; [tauto|]); (split; [right; right; reflexivity|]); split; assumption.
Qed.
