(* C09, lexer half: the string states of the lexer (lex_string_factory) emit a string token for exactly the
   bodies described by lex_ok, every literal the RFC derives is among them, and the token carries the body
   unchanged, so C09_decode applies to it. *)
From JP Require Import Base.Json Spec.StringLit Model.Regex Model.Tokens Model.Lex Model.Parse Proofs.StringProofs.

Fixpoint lex_steps (n : nat) (st : lstate) (l : lexer) : lexout :=
  match n with
  | O => LNext st l
  | S k => match lex_step st l with LNext st' l' => lex_steps k st' l' | o => o end
  end.
Lemma lex_run_steps : forall n f st l st' l', lex_steps n st l = LNext st' l' -> lex_run (n + f) st l = lex_run f st' l'.
Proof.
  induction n as [|k IH]; intros f st l st' l' H; cbn [lex_steps] in H.
  - inversion H. reflexivity.
  - cbn [Nat.add lex_run]. destruct (lex_step st l); try discriminate. apply IH. exact H.
Qed.
Lemma lex_run_steps_stop : forall n f st l l', lex_steps n st l = LStop l' -> lex_run (n + f) st l = Ok l'.
Proof.
  induction n as [|k IH]; intros f st l l' H; cbn [lex_steps] in H; [discriminate|].
  cbn [Nat.add lex_run]. destruct (lex_step st l); try discriminate; [apply IH; exact H | inversion H; reflexivity].
Qed.

(* the scan the string-body state performs: consumed text (reversed) and the rest, starting at the closing quote *)
Fixpoint scan (q : N) (s : str) (cur : list N) : option (list N * str) :=
  match s with
  | [] => None
  | c :: r =>
      if N.eqb c 92 then
        match r with
        | d :: r' => if existsb (N.eqb d) ESCAPES || N.eqb d q then scan q r' (d :: 92%N :: cur) else None
        | [] => None
        end
      else if N.eqb c q then Some (cur, s) else scan q r (c :: cur)
  end.

Definition mk (l0 : lexer) rest cur pos : lexer := upd_text l0 rest cur (l_start l0) pos.
Definition fin (l0 : lexer) (t : ttype) (cur' : list N) (r : str) (p : Z) : lexer :=
  {| l_rest := r; l_cur := []; l_start := p + 1; l_pos := p + 1; l_fdepth := l_fdepth l0; l_ffd := l_ffd l0;
     l_fcs := l_fcs l0; l_bs := l_bs l0;
     l_toks := {| ty := t; tval := rev cur'; tidx := l_start l0 |} :: l_toks l0 |}.
Definition after (inf : bool) : lstate := if inf then Lex.SFilter else Lex.SBracket.
Definition is_error_stop (o : lexout) : Prop :=
  exists lx, o = LStop lx /\ match l_toks lx with t :: _ => ty t = T_ERROR | [] => False end.
Lemma l_error_is_error_stop l : is_error_stop (l_error l).
Proof. eexists. split; [reflexivity|]. reflexivity. Qed.

Lemma step_body q inf l : lex_step (SStringBody q inf) l =
  let '(c, l1) := l_next l in
  match c with
  | None => l_error l1
  | Some c' =>
    if N.eqb c' 92 then
      match l_peek l1 with
      | Some p => if existsb (N.eqb p) ESCAPES || N.eqb p q then LNext (SStringBody q inf) (snd (l_next l1)) else l_error l1
      | None => l_error l1
      end
    else if N.eqb c' q then
      match l_backup l1 with
      | None => LRaise ESyntax (l_pos l1)
      | Some l2 => LNext (after inf) (l_ignore (snd (l_next (l_emit (tt_of q) l2))))
      end
    else LNext (SStringBody q inf) l1
  end.
Proof. reflexivity. Qed.

Lemma fin_pos l0 t cur r p p' : p = p' -> fin l0 t cur r p = fin l0 t cur r p'.
Proof. intros ->. reflexivity. Qed.
Lemma mk_pos l0 s cur p p' : p = p' -> mk l0 s cur p = mk l0 s cur p'.
Proof. intros ->. reflexivity. Qed.

Lemma body_steps q inf l0 : forall n s cur pos, (length s <= n)%nat ->
  exists k, (k <= length s + 1)%nat /\
    match scan q s cur with
    | Some (cur', rest') => exists r, rest' = q :: r /\ (k + length rest' <= length s + 1)%nat /\
        lex_steps k (SStringBody q inf) (mk l0 s cur pos) = LNext (after inf) (fin l0 (tt_of q) cur' r (pos + zlen cur' - zlen cur))
    | None => is_error_stop (lex_steps k (SStringBody q inf) (mk l0 s cur pos))
    end.
Proof.
  induction n as [|n IH]; intros s cur pos Hn.
  { destruct s; [|cbn [length] in Hn; lia]. exists 1%nat. split; [cbn [length]; lia|]. cbn [scan lex_steps]. rewrite step_body.
    apply l_error_is_error_stop. }
  destruct s as [|c r].
  { exists 1%nat. split; [cbn [length]; lia|]. cbn [scan lex_steps]. rewrite step_body. apply l_error_is_error_stop. }
  cbn [length] in Hn. cbn [scan].
  destruct (N.eqb c 92) eqn:E92.
  - destruct r as [|d r'].
    { exists 1%nat. split; [cbn [length]; lia|]. cbn [lex_steps]. rewrite step_body.
      change (l_next (mk l0 [c] cur pos)) with (Some c, mk l0 [] (c :: cur) (pos + 1)). cbv beta iota. rewrite E92.
      apply l_error_is_error_stop. }
    destruct (existsb (N.eqb d) ESCAPES || N.eqb d q) eqn:Eesc.
    + cbn [length] in Hn. destruct (IH r' (d :: 92%N :: cur) (pos + 1 + 1)) as [k [Hk Hres]]; [lia|].
      exists (S k). split; [cbn [length]; lia|].
      assert (Hstep : lex_step (SStringBody q inf) (mk l0 (c :: d :: r') cur pos) = LNext (SStringBody q inf) (mk l0 r' (d :: c :: cur) (pos + 1 + 1))).
      { rewrite step_body. change (l_next (mk l0 (c :: d :: r') cur pos)) with (Some c, mk l0 (d :: r') (c :: cur) (pos + 1)).
        cbv beta iota. rewrite E92. change (l_peek (mk l0 (d :: r') (c :: cur) (pos + 1))) with (Some d). cbv iota. rewrite Eesc. reflexivity. }
      apply N.eqb_eq in E92. subst c.
      destruct (scan q r' (d :: 92%N :: cur)) as [[cur' rest']|].
      * destruct Hres as [r2 [-> [Hb Hres]]]. exists r2. split; [reflexivity|]. split; [cbn [length] in *; lia|]. cbn [lex_steps]. rewrite Hstep, Hres.
        f_equal. apply fin_pos. rewrite !zlen_cons. lia.
      * cbn [lex_steps]. rewrite Hstep. exact Hres.
    + exists 1%nat. split; [cbn [length]; lia|]. cbn [lex_steps]. rewrite step_body.
      change (l_next (mk l0 (c :: d :: r') cur pos)) with (Some c, mk l0 (d :: r') (c :: cur) (pos + 1)).
      cbv beta iota. rewrite E92. change (l_peek (mk l0 (d :: r') (c :: cur) (pos + 1))) with (Some d). cbv iota. rewrite Eesc.
      apply l_error_is_error_stop.
  - destruct (N.eqb c q) eqn:Eq.
    + exists 1%nat. split; [cbn [length]; lia|]. exists r. apply N.eqb_eq in Eq. subst c. split; [reflexivity|]. split; [cbn [length]; lia|].
      cbn [lex_steps]. rewrite step_body. change (l_next (mk l0 (q :: r) cur pos)) with (Some q, mk l0 r (q :: cur) (pos + 1)).
      cbv beta iota. rewrite E92, N.eqb_refl.
      change (l_backup (mk l0 r (q :: cur) (pos + 1))) with (Some (mk l0 (q :: r) cur (pos + 1 - 1))). cbv iota.
      f_equal. rewrite (mk_pos l0 (q :: r) cur (pos + 1 - 1) pos) by lia.
      transitivity (fin l0 (tt_of q) cur r pos); [reflexivity | apply fin_pos; lia].
    + destruct (IH r (c :: cur) (pos + 1)) as [k [Hk Hres]]; [lia|].
      exists (S k). split; [cbn [length]; lia|].
      assert (Hstep : lex_step (SStringBody q inf) (mk l0 (c :: r) cur pos) = LNext (SStringBody q inf) (mk l0 r (c :: cur) (pos + 1))).
      { rewrite step_body. change (l_next (mk l0 (c :: r) cur pos)) with (Some c, mk l0 r (c :: cur) (pos + 1)).
        cbv beta iota. rewrite E92, Eq. reflexivity. }
      destruct (scan q r (c :: cur)) as [[cur' rest']|].
      * destruct Hres as [r2 [-> [Hb Hres]]]. exists r2. split; [reflexivity|]. split; [cbn [length] in *; lia|]. cbn [lex_steps]. rewrite Hstep, Hres.
        f_equal. apply fin_pos. rewrite !zlen_cons. lia.
      * cbn [lex_steps]. rewrite Hstep. exact Hres.
Qed.

(* --- scan and lex_ok ----------------------------------------------------------------------------- *)
Lemma scan_ok q : N.eqb q 92 = false -> forall n body cur rest, (length body <= n)%nat -> lex_ok q body = true ->
  scan q (body ++ q :: rest) cur = Some (rev body ++ cur, q :: rest).
Proof.
  intros Hq. induction n as [|n IH]; intros body cur rest Hn Hl.
  { destruct body; [|cbn [length] in Hn; lia]. cbn [app scan rev]. rewrite Hq, N.eqb_refl. reflexivity. }
  destruct body as [|c b]; [cbn [app scan rev]; rewrite Hq, N.eqb_refl; reflexivity|].
  cbn [length] in Hn. cbn [lex_ok] in Hl. cbn [app scan]. destruct (N.eqb c 92) eqn:E92.
  - destruct b as [|d b']; [discriminate|]. apply andb_true_iff in Hl as [He Hl]. cbn [app].
    change (existsb (N.eqb d) ESCAPES) with (existsb (N.eqb d) [98; 102; 110; 114; 116; 117; 47; 92]%N). rewrite He.
    cbn [length] in Hn. rewrite IH by (try assumption; lia). apply N.eqb_eq in E92. subst c.
    cbn [rev]. rewrite <- !app_assoc. reflexivity.
  - apply andb_true_iff in Hl as [Hc Hl]. apply negb_true_iff in Hc. rewrite Hc.
    rewrite IH by (try assumption; lia). cbn [rev]. rewrite <- app_assoc. reflexivity.
Qed.

Lemma scan_sound q : forall n s cur cur' rest', (length s <= n)%nat -> scan q s cur = Some (cur', rest') ->
  exists body r, s = body ++ q :: r /\ rest' = q :: r /\ cur' = rev body ++ cur /\ lex_ok q body = true.
Proof.
  induction n as [|n IH]; intros s cur cur' rest' Hn H.
  { destruct s; [discriminate | cbn [length] in Hn; lia]. }
  destruct s as [|c r]; [discriminate|]. cbn [length] in Hn. cbn [scan] in H. destruct (N.eqb c 92) eqn:E92.
  - destruct r as [|d r']; [discriminate|]. destruct (existsb (N.eqb d) ESCAPES || N.eqb d q) eqn:Eesc; [|discriminate].
    cbn [length] in Hn. apply IH in H as (body & r2 & -> & -> & -> & Hl); [|lia].
    exists (c :: d :: body), r2. repeat split.
    + apply N.eqb_eq in E92. subst c. cbn [rev]. rewrite <- !app_assoc. reflexivity.
    + cbn [lex_ok]. rewrite E92. change (existsb (N.eqb d) ESCAPES) with (existsb (N.eqb d) [98; 102; 110; 114; 116; 117; 47; 92]%N) in Eesc.
      rewrite Eesc, Hl. reflexivity.
  - destruct (N.eqb c q) eqn:Eq.
    + inversion H; subst. apply N.eqb_eq in Eq. subst c. exists [], r. repeat split.
    + apply IH in H as (body & r2 & -> & -> & -> & Hl); [|lia]. exists (c :: body), r2. repeat split.
      * cbn [rev]. rewrite <- app_assoc. reflexivity.
      * cbn [lex_ok]. rewrite E92, Eq, Hl. reflexivity.
Qed.

(* --- everything the RFC derives passes the lexer and consists of scalar values -------------------- *)
Lemma hexv_scalar a v : hexv a = Some v -> is_scalar a = true.
Proof.
  unfold hexv, is_scalar. intros H.
  repeat match type of H with context [if ?t then _ else _] => destruct t eqn:? end; try discriminate; lia.
Qed.
Lemma lex_ok_hex4 q a b c d l x : q = 39%N \/ q = 34%N -> hex4 a b c d = Some x ->
  lex_ok q (a :: b :: c :: d :: l) = lex_ok q l /\ forallb is_scalar (a :: b :: c :: d :: l) = forallb is_scalar l.
Proof.
  intros Hq. unfold hex4. destruct (hexv a) eqn:Ea, (hexv b) eqn:Eb, (hexv c) eqn:Ec, (hexv d) eqn:Ed; try discriminate. intros _.
  destruct (hexv_plain _ _ Ea) as [A1 [A2 A3]]. destruct (hexv_plain _ _ Eb) as [B1 [B2 B3]].
  destruct (hexv_plain _ _ Ec) as [C1 [C2 C3]]. destruct (hexv_plain _ _ Ed) as [D1 [D2 D3]].
  split.
  - cbn [lex_ok]. rewrite A1, B1, C1, D1. destruct Hq as [-> | ->]; rewrite ?A2, ?A3, ?B2, ?B3, ?C2, ?C3, ?D2, ?D3; reflexivity.
  - cbn [forallb]. rewrite (hexv_scalar _ _ Ea), (hexv_scalar _ _ Eb), (hexv_scalar _ _ Ec), (hexv_scalar _ _ Ed). reflexivity.
Qed.

Lemma spec_lex_ok q : q = 39%N \/ q = 34%N -> forall n body v, (length body <= n)%nat -> spec_decode q body = Some v ->
  lex_ok q body = true /\ forallb is_scalar body = true.
Proof.
  intros Hq. induction n as [|n IH]; intros body v Hn H.
  { destruct body; [split; reflexivity | cbn [length] in Hn; lia]. }
  destruct body as [|c r]; [split; reflexivity|]. cbn [length] in Hn. cbn [spec_decode] in H. cbn [lex_ok forallb].
  destruct (N.eqb c 92) eqn:E92.
  - destruct r as [|d r']; [discriminate|]. cbn [length] in Hn.
    assert (Hc : is_scalar c = true) by (apply N.eqb_eq in E92; subst c; reflexivity). rewrite Hc. cbn [forallb andb].
    assert (simple : forall x, match spec_decode q r' with Some t => Some (x :: t) | None => None end = Some v ->
                               is_scalar d = true -> (existsb (N.eqb d) [98; 102; 110; 114; 116; 117; 47; 92]%N || N.eqb d q) = true ->
                               ((existsb (N.eqb d) [98; 102; 110; 114; 116; 117; 47; 92]%N || N.eqb d q) && lex_ok q r' = true) /\ (is_scalar d && forallb is_scalar r' = true)).
    { intros x Hx Hd He. destruct (spec_decode q r') as [t|] eqn:Et; [|discriminate].
      destruct (IH r' t) as [A B]; [lia | exact Et |]. rewrite He, Hd, A, B. split; reflexivity. }
    destruct (N.eqb d q) eqn:Edq.
    { apply (simple q H); [apply N.eqb_eq in Edq; subst d; destruct Hq as [-> | ->]; reflexivity | apply orb_true_r]. }
    destruct (N.eqb d 98) eqn:E98; [apply N.eqb_eq in E98; subst d; apply (simple _ H); reflexivity|].
    destruct (N.eqb d 102) eqn:E102; [apply N.eqb_eq in E102; subst d; apply (simple _ H); reflexivity|].
    destruct (N.eqb d 110) eqn:E110; [apply N.eqb_eq in E110; subst d; apply (simple _ H); reflexivity|].
    destruct (N.eqb d 114) eqn:E114; [apply N.eqb_eq in E114; subst d; apply (simple _ H); reflexivity|].
    destruct (N.eqb d 116) eqn:E116; [apply N.eqb_eq in E116; subst d; apply (simple _ H); reflexivity|].
    destruct (N.eqb d 47) eqn:E47; [apply N.eqb_eq in E47; subst d; apply (simple _ H); reflexivity|].
    destruct (N.eqb d 92) eqn:Ed92; [apply N.eqb_eq in Ed92; subst d; apply (simple _ H); reflexivity|].
    destruct (N.eqb d 117) eqn:E117; [|discriminate]. apply N.eqb_eq in E117. subst d.
    change (existsb (N.eqb 117) [98; 102; 110; 114; 116; 117; 47; 92]%N || N.eqb 117 q) with true.
    change (is_scalar 117) with true. cbn [andb].
    destruct r' as [|h1 [|h2 [|h3 [|h4 r2]]]]; try discriminate.
    destruct (hex4 h1 h2 h3 h4) as [x|] eqn:Ex; [|discriminate].
    destruct (lex_ok_hex4 q h1 h2 h3 h4 r2 x Hq Ex) as [-> ->]. cbn [length] in Hn.
    destruct (is_low x); [discriminate|]. destruct (is_high x).
    + destruct r2 as [|b [|u [|l1 [|l2 [|l3 [|l4 r3]]]]]]; try discriminate.
      destruct (N.eqb b 92 && N.eqb u 117) eqn:Ebu; [|discriminate]. apply andb_true_iff in Ebu as [Eb Eu].
      apply N.eqb_eq in Eb, Eu. subst b u.
      destruct (hex4 l1 l2 l3 l4) as [y|] eqn:Ey; [|discriminate]. destruct (is_low y); [|discriminate].
      destruct (spec_decode q r3) as [t|] eqn:Et; [|discriminate]. cbn [length] in Hn.
      destruct (IH r3 t) as [A B]; [lia | exact Et |].
      destruct (lex_ok_hex4 q l1 l2 l3 l4 r3 y Hq Ey) as [L1 L2].
      change (lex_ok q (92%N :: 117%N :: l1 :: l2 :: l3 :: l4 :: r3)) with
        ((existsb (N.eqb 117) [98; 102; 110; 114; 116; 117; 47; 92]%N || N.eqb 117 q) && lex_ok q (l1 :: l2 :: l3 :: l4 :: r3)).
      change (forallb is_scalar (92%N :: 117%N :: l1 :: l2 :: l3 :: l4 :: r3)) with (forallb is_scalar (l1 :: l2 :: l3 :: l4 :: r3)).
      rewrite L1, L2, A, B. split; reflexivity.
    + destruct (spec_decode q r2) as [t|] eqn:Et; [|discriminate]. apply (IH r2 t); [lia | exact Et].
  - destruct (raw_ok q c) eqn:Eraw; [|discriminate]. destruct (spec_decode q r) as [t|] eqn:Et; [|discriminate].
    destruct (IH r t) as [A B]; [lia | exact Et |]. rewrite A, B. unfold raw_ok in Eraw.
    apply andb_true_iff in Eraw as [Eraw E5]. apply andb_true_iff in Eraw as [Eraw E4].
    apply andb_true_iff in Eraw as [Eraw E3]. apply negb_true_iff in E3.
    change (N.eqb c q) with (c =? q)%N. rewrite E3. unfold is_scalar. rewrite E4, E5. split; reflexivity.
Qed.

(* --- the two string states together ---------------------------------------------------------------- *)
Lemma step_string q inf l : lex_step (SString q inf) l =
  let l0 := l_ignore l in
  match l_peek l0 with
  | None => LNext (after inf) (l_ignore (snd (l_next (l_emit (tt_of q) l0))))
  | Some _ => LNext (SStringBody q inf) l0
  end.
Proof. reflexivity. Qed.

Definition with_string_token (l : lexer) (q : N) (body rest : str) : lexer :=
  {| l_rest := rest; l_cur := []; l_start := l_pos l + zlen body + 1; l_pos := l_pos l + zlen body + 1;
     l_fdepth := l_fdepth l; l_ffd := l_ffd l; l_fcs := l_fcs l; l_bs := l_bs l;
     l_toks := {| ty := tt_of q; tval := body; tidx := l_pos l |} :: l_toks l |}.

Theorem lex_string_literal q inf l body rest : q = 39%N \/ q = 34%N ->
  l_rest l = body ++ q :: rest -> lex_ok q body = true ->
  exists k, (k <= length body + 2)%nat /\
    lex_steps k (SString q inf) l = LNext (after inf) (with_string_token l q body rest).
Proof.
  intros Hq Hrest Hl.
  assert (Hq92 : N.eqb q 92 = false) by (destruct Hq as [-> | ->]; reflexivity).
  set (L0 := l_ignore l).
  assert (HL0 : L0 = mk L0 (body ++ q :: rest) [] (l_pos l)) by (rewrite <- Hrest; reflexivity).
  assert (Hstep : lex_step (SString q inf) l = LNext (SStringBody q inf) L0).
  { rewrite step_string. cbv zeta. fold L0. unfold l_peek. rewrite HL0.
    change (l_rest (mk L0 (body ++ q :: rest) [] (l_pos l))) with (body ++ q :: rest). destruct body; reflexivity. }
  destruct (body_steps q inf L0 (length (body ++ q :: rest)) (body ++ q :: rest) [] (l_pos l) (le_n _)) as [k [_ Hres]].
  rewrite (scan_ok q Hq92 (length body) body [] rest (le_n _) Hl) in Hres. destruct Hres as [r [Hr [Hb Hres]]].
  inversion Hr; subst r. exists (S k). split.
  { rewrite app_length in Hb. cbn [length] in Hb. lia. }
  cbn [lex_steps]. rewrite Hstep, HL0, Hres. f_equal. unfold fin, with_string_token. rewrite app_nil_r, rev_involutive.
  change (zlen (@nil N)) with 0. unfold zlen. rewrite rev_length. f_equal; try lia; reflexivity.
Qed.

(* a body that is not of that shape never becomes a string token *)
Theorem lex_string_reject q inf l : l_rest l <> [] -> scan q (l_rest l) [] = None ->
  exists k, (k <= length (l_rest l) + 2)%nat /\ is_error_stop (lex_steps k (SString q inf) l).
Proof.
  intros Hne Hscan. set (L0 := l_ignore l).
  assert (HL0 : L0 = mk L0 (l_rest l) [] (l_pos l)) by reflexivity.
  assert (Hstep : lex_step (SString q inf) l = LNext (SStringBody q inf) L0).
  { rewrite step_string. cbv zeta. fold L0. unfold l_peek. change (l_rest L0) with (l_rest l). destruct (l_rest l); [congruence | reflexivity]. }
  destruct (body_steps q inf L0 (length (l_rest l)) (l_rest l) [] (l_pos l) (le_n _)) as [k [Hk Hres]].
  rewrite Hscan in Hres. exists (S k). split; [lia|]. cbn [lex_steps]. rewrite Hstep, HL0. exact Hres.
Qed.

(* every literal the RFC derives reaches the parser as a token carrying its body, and decodes to the RFC value *)
Theorem string_literal_end_to_end q inf l body rest v : q = 39%N \/ q = 34%N ->
  l_rest l = body ++ q :: rest -> spec_decode q body = Some v ->
  exists k, (k <= length body + 2)%nat /\
    lex_steps k (SString q inf) l = LNext (after inf) (with_string_token l q body rest) /\
    decode_string_literal {| ty := tt_of q; tval := body; tidx := l_pos l |} = Ok v.
Proof.
  intros Hq Hrest Hv. destruct (spec_lex_ok q Hq (length body) body v (le_n _) Hv) as [Hl Hs].
  destruct (lex_string_literal q inf l body rest Hq Hrest Hl) as [k [Hk Hsteps]].
  exists k. repeat split; try assumption.
  assert (D := decode_dq body (l_pos l)). assert (S := decode_sq body (l_pos l)).
  destruct Hq as [-> | ->]; [change (tt_of 39) with T_SQ_STRING; rewrite (S Hl Hs) | change (tt_of 34) with T_DQ_STRING; rewrite (D Hl Hs)]; rewrite Hv; reflexivity.
Qed.
