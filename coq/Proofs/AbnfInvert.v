(* From derivations of the transcribed RFC 9535 ABNF (Spec/Rfc9535Grammar.v) to what the lexer's token patterns and the parser's conversions
   require: every alternative of every lexical rule - blank space, member-name shorthand with its non-ASCII ranges, integers, every number
   spelling, function names, both kinds of string literal with every escape form - is a token text the spelling relation of
   Proofs/LexSpell.v ranges over, and converts without error. *)
From JP Require Import Base.Prelude Base.Json Model.Regex Model.Tokens Model.Lex Model.PyFloat Model.Parse Spec.Abnf Spec.Rfc9535Grammar Spec.StringLit Spec.Printable Spec.Printable
  Proofs.StringProofs Proofs.LexString Proofs.LexNoCrash Proofs.LexInv Proofs.Requery Proofs.Reparse Proofs.ReparseF Proofs.LexSpell Proofs.AbnfDerive Proofs.LexComplete Proofs.NumMatch Proofs.LexCompleteF.
From Coq Require Import ZifyBool ZifyN.

(* ---- generic inversion ---- *)
Lemma i_ref r s : D (R r) s -> D (rule_body r) s.
Proof. unfold R. intros H. inversion H; subst. unfold rfc_grammar in *. rewrite all_rules_indexed in *. assumption. Qed.
Lemma i_seq a b s : D (GSeq a b) s -> exists s1 s2, s = s1 ++ s2 /\ D a s1 /\ D b s2.
Proof. intros H. inversion H; subst. eexists; eexists; split; [reflexivity | split; assumption]. Qed.
Lemma i_alt a b s : D (GAlt a b) s -> D a s \/ D b s.
Proof. intros H. inversion H; subst; [left | right]; assumption. Qed.
Lemma i_eps s : D GEps s -> s = [].
Proof. intros H. inversion H. reflexivity. Qed.
Lemma i_range lo hi s : D (GRange lo hi) s -> exists c, s = [c] /\ (lo <= c)%N /\ (c <= hi)%N.
Proof. intros H. inversion H; subst. eexists. split; [reflexivity | split; assumption]. Qed.
Lemma i_char c s : D (GChar c) s -> s = [c].
Proof. intros H. apply i_range in H as (x & -> & H1 & H2). f_equal. lia. Qed.
Lemma i_C c s : D (C c) s -> s = [c]. Proof. apply i_char. Qed.
Lemma i_opt a s : D (GOpt a) s -> D a s \/ s = [].
Proof. intros H. apply i_alt in H as [H | H]; [left; exact H | right; apply i_eps; exact H]. Qed.
Lemma i_ci c s : D (GCi c) s -> s = [c] \/ s = [(c - 32)%N].
Proof. intros H. apply i_alt in H as [H | H]; apply i_char in H; [left | right]; exact H. Qed.
Lemma i_lit : forall l s, D (GLit l) s -> s = l.
Proof.
  induction l as [|c l IH]; intros s H; [apply i_eps; exact H|]. destruct l as [|d l']; [apply i_char; exact H|].
  change (GLit (c :: d :: l')) with (GSeq (GChar c) (GLit (d :: l'))) in H. apply i_seq in H as (s1 & s2 & -> & H1 & H2). apply i_char in H1. subst. rewrite (IH _ H2). reflexivity.
Qed.
Lemma i_star e s : D (GStar e) s -> s = [] \/ exists s1 s2, s = s1 ++ s2 /\ s1 <> [] /\ D e s1 /\ D (GStar e) s2.
Proof. intros H. inversion H; subst; [left; reflexivity | right; eexists; eexists; split; [reflexivity | repeat split; assumption]]. Qed.
(* a star of single characters *)
Lemma i_star_chars e (P : N -> bool) : (forall s, D e s -> exists c, s = [c] /\ P c = true) -> forall s, D (GStar e) s -> forallb P s = true.
Proof.
  intros He s H. remember (GStar e) as g eqn:Eg. induction H; try discriminate Eg; [reflexivity|]. inversion Eg; subst a.
  destruct (He _ H0) as (c & -> & Hc). cbn [app forallb]. rewrite Hc. apply IHderives2. reflexivity.
Qed.
Lemma i_plus_chars e (P : N -> bool) : (forall s, D e s -> exists c, s = [c] /\ P c = true) -> forall s, D (GPlus e) s -> s <> [] /\ forallb P s = true.
Proof.
  intros He s H. unfold GPlus in H. apply i_seq in H as (s1 & s2 & -> & H1 & H2). destruct (He _ H1) as (c & -> & Hc). split; [discriminate|].
  cbn [app forallb]. rewrite Hc. apply (i_star_chars e P He). exact H2.
Qed.

(* ---- blank space ---- *)
Lemma i_B s : D (R r_B) s -> exists c, s = [c] /\ is_blank c = true.
Proof.
  intros H. apply i_ref in H. cbn [rule_body GAlts] in H. repeat (apply i_alt in H as [H | H]); apply i_C in H; subst; eexists; split; reflexivity.
Qed.
Lemma i_S b : D S_ b -> blanks b.
Proof. intros H. unfold S_ in H. apply i_ref in H. cbn [rule_body] in H. apply (i_star_chars _ is_blank i_B). exact H. Qed.

(* ---- digits, letters, names ---- *)
Lemma i_DIGIT s : D (R r_DIGIT) s -> exists c, s = [c] /\ isd c = true.
Proof. intros H. apply i_ref in H. cbn [rule_body] in H. apply i_range in H as (c & -> & H1 & H2). exists c. split; [reflexivity | unfold isd; lia]. Qed.
Lemma i_ALPHA s : D (R r_ALPHA) s -> exists c, s = [c] /\ ((65 <= c <= 90)%N \/ (97 <= c <= 122)%N).
Proof. intros H. apply i_ref in H. cbn [rule_body] in H. apply i_alt in H as [H | H]; apply i_range in H as (c & -> & H1 & H2); exists c; (split; [reflexivity | lia]). Qed.
Lemma i_name_first s : D (R r_name_first) s -> exists c, s = [c] /\ in_ranges c cls_name_first = true.
Proof.
  intros H. apply i_ref in H. cbn [rule_body GAlts] in H. unfold cls_name_first. cbn [in_ranges].
  apply i_alt in H as [H | H]; [apply i_ALPHA in H as (c & -> & Hc); exists c; split; [reflexivity | lia]|].
  apply i_alt in H as [H | H]; [apply i_C in H; subst; exists 95%N; split; reflexivity|].
  apply i_alt in H as [H | H]; apply i_range in H as (c & -> & H1 & H2); exists c; (split; [reflexivity | lia]).
Qed.
Lemma i_name_char s : D (R r_name_char) s -> exists c, s = [c] /\ in_ranges c cls_name_char = true.
Proof.
  intros H. apply i_ref in H. cbn [rule_body] in H. apply i_alt in H as [H | H].
  - apply i_name_first in H as (c & -> & Hc). exists c. split; [reflexivity|]. unfold cls_name_first, cls_name_char in *. cbn [in_ranges] in *. lia.
  - apply i_DIGIT in H as (c & -> & Hc). exists c. split; [reflexivity|]. unfold isd, cls_name_char in *. cbn [in_ranges]. lia.
Qed.
(* member-name-shorthand: the text of a PROPERTY token *)
Theorem abnf_name s : D (R r_member_name_shorthand) s -> name_shape s.
Proof.
  intros H. apply i_ref in H. cbn [rule_body] in H. apply i_seq in H as (s1 & s2 & -> & H1 & H2). apply i_name_first in H1 as (c & -> & Hc).
  exists c, s2. split; [reflexivity|]. split; [exact Hc|]. apply (i_star_chars _ (fun x => in_ranges x cls_name_char) i_name_char). exact H2.
Qed.

(* function-name *)
Theorem abnf_function_name s : D (R r_function_name) s -> exists c cs, s = c :: cs /\ in_ranges c cls_fn_first = true /\ forallb (fun y => in_ranges y cls_fn_char) cs = true.
Proof.
  intros H. apply i_ref in H. cbn [rule_body] in H. apply i_seq in H as (s1 & s2 & -> & H1 & H2). apply i_range in H1 as (c & -> & A & B).
  exists c, s2. split; [reflexivity|]. split; [unfold cls_fn_first; cbn [in_ranges]; lia|].
  refine (i_star_chars _ (fun y => in_ranges y cls_fn_char) _ s2 H2). intros s Hs. cbn [GAlts] in Hs. unfold cls_fn_char. cbn [in_ranges].
  apply i_alt in Hs as [Hs | Hs]; [apply i_range in Hs as (x & -> & X1 & X2); exists x; split; [reflexivity | lia]|].
  apply i_alt in Hs as [Hs | Hs]; [apply i_C in Hs; subst; exists 95%N; split; reflexivity|].
  apply i_DIGIT in Hs as (x & -> & Hx). exists x. split; [reflexivity | unfold isd in Hx; lia].
Qed.

(* ---- integers: the text of an INDEX token ---- *)
Lemma i_digits s : D (GStar (R r_DIGIT)) s -> forallb isd s = true.
Proof. apply (i_star_chars _ isd i_DIGIT). Qed.
(* int = "0" / (["-"] DIGIT1 *DIGIT): sign, first digit, rest; no leading zero *)
Lemma i_int_parts s : D (R r_int) s -> s = [48%N] \/ exists sg d ds, s = sg ++ d :: ds /\ (sg = [] \/ sg = [45%N]) /\ (49 <= d <= 57)%N /\ forallb isd ds = true.
Proof.
  intros H. apply i_ref in H. cbn [rule_body GSeqs] in H. apply i_alt in H as [H | H]; [left; apply i_C; exact H | right].
  apply i_seq in H as (sg & r & -> & Hs & H). apply i_seq in H as (d1 & ds & -> & Hd & Hds).
  apply i_ref in Hd. cbn [rule_body] in Hd. apply i_range in Hd as (d & -> & A & B). apply i_digits in Hds.
  exists sg, d, ds. split; [reflexivity|]. split; [apply i_opt in Hs as [Hs | ->]; [right; apply i_C; exact Hs | left; reflexivity]|]. split; [lia | exact Hds].
Qed.
Lemma d1_facts d : (49 <= d <= 57)%N -> isd d = true /\ N.eqb 48 d = false /\ N.eqb 45 d = false.
Proof. unfold isd. lia. Qed.
Theorem abnf_int s : D (R r_int) s -> int_text_ok s (int_of_index s).
Proof.
  intros H. apply i_int_parts in H as [-> | (sg & d & ds & -> & Hs & Hd & Hds)].
  - split; [discriminate|]. split; [reflexivity|]. split; [exists [], [48%N]; repeat split; try discriminate; left; reflexivity | reflexivity].
  - destruct (d1_facts d Hd) as (D1 & D2 & D3).
    split; [destruct Hs as [-> | ->]; discriminate|]. split; [reflexivity|]. split.
    + exists sg, (d :: ds). split; [reflexivity|]. split; [exact Hs|]. split; [discriminate|]. cbn [forallb]. rewrite D1, Hds. reflexivity.
    + destruct Hs as [-> | ->]; cbn [app]; rewrite !sw_cons, ?D2, ?D3; cbn [andb orb]; rewrite ?andb_false_r; reflexivity.
Qed.

(* ---- numbers: every spelling is the text of an INT or a FLOAT token, has no leading zero, and converts ---- *)
Lemma take_digits_app : forall ds r, forallb isd ds = true -> match r with c :: _ => isd c = false | [] => True end -> take_digits (ds ++ r) = (ds, r).
Proof.
  induction ds as [|d ds IH]; cbn [forallb app]; intros r H Hr.
  - destruct r as [|c r]; [reflexivity|]. cbn [take_digits]. change (is_digit c) with (isd c). rewrite Hr. reflexivity.
  - apply andb_true_iff in H as [H1 H2]. cbn [take_digits]. change (is_digit d) with (isd d). rewrite H1, (IH r H2 Hr). reflexivity.
Qed.

Definition fracp (fr : list N) : Prop := fr = [] \/ exists fp, fr = 46%N :: fp /\ digs fp.
Definition expp (ex : list N) : Prop := ex = [] \/ exists e pm ed, ex = e :: pm ++ ed /\ eEc e /\ (pm = [] \/ pm = [43%N] \/ pm = [45%N]) /\ digs ed.

Lemma eEc_cases e : eEc e -> e = 101%N \/ e = 69%N.
Proof. unfold eEc. cbn [in_ranges]. lia. Qed.
Lemma eEc_nd e : eEc e -> isd e = false /\ N.eqb e 46 = false.
Proof. intros H. destruct (eEc_cases e H) as [-> | ->]; split; reflexivity. Qed.

Lemma expp_head ex : expp ex -> match ex with c :: _ => isd c = false /\ N.eqb c 46 = false | [] => True end.
Proof. intros [-> | (e & pm & ed & -> & He & _)]; [exact I | apply eEc_nd; exact He]. Qed.

Lemma parse_decimal_total sg ip fr ex : sgn sg -> digs ip -> fracp fr -> expp ex -> exists d, parse_decimal (sg ++ ip ++ fr ++ ex) = Some d.
Proof.
  intros Hs Hip Hfr Hex. destruct (digs_cons ip Hip) as (d & ds & -> & Hd1 & Hd2).
  assert (Hipd : forallb isd (d :: ds) = true) by (cbn [forallb]; rewrite Hd1, Hd2; reflexivity).
  assert (E45 : N.eqb d 45 = false) by (unfold isd in Hd1; lia).
  unfold parse_decimal.
  assert (E1 : (if hd_is 45 (sg ++ (d :: ds) ++ fr ++ ex) then tl (sg ++ (d :: ds) ++ fr ++ ex) else sg ++ (d :: ds) ++ fr ++ ex) = (d :: ds) ++ fr ++ ex).
  { destruct Hs as [-> | ->]; cbn [app hd_is tl]; [rewrite E45|]; reflexivity. }
  rewrite E1. clear E1.
  assert (Hhd : match fr ++ ex with c :: _ => isd c = false | [] => True end).
  { destruct Hfr as [-> | (fp & -> & _)]; [cbn [app]; pose proof (expp_head ex Hex) as H; destruct ex; [exact I | exact (proj1 H)] | reflexivity]. }
  rewrite (take_digits_app (d :: ds) (fr ++ ex) Hipd Hhd).
  assert (Efr : (if hd_is 46 (fr ++ ex) then take_digits (tl (fr ++ ex)) else ([], fr ++ ex)) = (match fr with [] => [] | _ :: fp => fp end, ex)).
  { destruct Hfr as [-> | (fp & -> & Hfp)].
    - cbn [app]. pose proof (expp_head ex Hex) as H. destruct ex as [|c ex']; [reflexivity|]. cbn [hd_is]. rewrite (proj2 H). reflexivity.
    - cbn [app hd_is tl]. change (N.eqb 46 46) with true. cbv iota. apply take_digits_app; [apply Hfp|]. pose proof (expp_head ex Hex) as H. destruct ex; [exact I | exact (proj1 H)]. }
  rewrite Efr. clear Efr.
  destruct Hex as [-> | (e & pm & ed & -> & He & Hpm & Hed)]; [eexists; reflexivity|].
  assert (HeE : (hd_is 101 (e :: pm ++ ed) || hd_is 69 (e :: pm ++ ed)) = true) by (cbn [hd_is]; destruct (eEc_cases e He) as [-> | ->]; reflexivity).
  rewrite HeE. cbn [tl]. destruct (digs_cons ed Hed) as (f & fs & -> & Hf1 & Hf2).
  assert (Hfd : forallb isd (f :: fs) = true) by (cbn [forallb]; rewrite Hf1, Hf2; reflexivity).
  assert (F45 : N.eqb f 45 = false /\ N.eqb f 43 = false) by (unfold isd in Hf1; lia). destruct F45 as [F45 F43].
  assert (Er1 : (if hd_is 45 (pm ++ f :: fs) || hd_is 43 (pm ++ f :: fs) then tl (pm ++ f :: fs) else pm ++ f :: fs) = (f :: fs) ++ []).
  { rewrite app_nil_r. destruct Hpm as [-> | [-> | ->]]; cbn [app hd_is tl]; [rewrite F45, F43|..]; reflexivity. }
  rewrite Er1. rewrite (take_digits_app (f :: fs) [] Hfd I). eexists. reflexivity.
Qed.

Lemma i_plus_digits s : D (GPlus (R r_DIGIT)) s -> digs s.
Proof. apply (i_plus_chars _ isd i_DIGIT). Qed.
Lemma i_frac s : D (R r_frac) s -> exists fp, s = 46%N :: fp /\ digs fp.
Proof. intros H. apply i_ref in H. cbn [rule_body] in H. apply i_seq in H as (a & fp & -> & Ha & Hfp). apply i_C in Ha. subst a. exists fp. split; [reflexivity | apply i_plus_digits; exact Hfp]. Qed.
Lemma i_exp s : D (R r_exp) s -> exists e pm ed, s = e :: pm ++ ed /\ eEc e /\ (pm = [] \/ pm = [43%N] \/ pm = [45%N]) /\ digs ed.
Proof.
  intros H. apply i_ref in H. cbn [rule_body GSeqs] in H. apply i_seq in H as (a & r & -> & Ha & H). apply i_seq in H as (pm & ed & -> & Hpm & Hed).
  apply i_ci in Ha. apply i_plus_digits in Hed.
  assert (Hp : pm = [] \/ pm = [43%N] \/ pm = [45%N]).
  { apply i_opt in Hpm as [Hpm | ->]; [|left; reflexivity]. apply i_alt in Hpm as [Hpm | Hpm]; apply i_C in Hpm; subst; [right; right | right; left]; reflexivity. }
  destruct Ha as [-> | ->]; [exists 101%N | exists 69%N]; exists pm, ed; (split; [reflexivity|]); (split; [reflexivity|]); split; assumption.
Qed.

(* number = (int / "-0") [ frac ] [ exp ] *)
Lemma i_number v : D (R r_number) v -> exists sg ip fr ex, v = sg ++ ip ++ fr ++ ex /\ sgn sg /\ digs ip /\ fracp fr /\ expp ex /\ ((1 <? zlen ip) && starts_with [48%N] ip = false).
Proof.
  intros H. apply i_ref in H. cbn [rule_body GSeqs] in H. apply i_seq in H as (hd & r & -> & Hhd & H). apply i_seq in H as (fr & ex & -> & Hfr & Hex).
  assert (Hf : fracp fr) by (apply i_opt in Hfr as [Hfr | ->]; [right; apply i_frac; exact Hfr | left; reflexivity]).
  assert (He : expp ex) by (apply i_opt in Hex as [Hex | ->]; [right; apply i_exp; exact Hex | left; reflexivity]).
  assert (Hh : exists sg ip, hd = sg ++ ip /\ sgn sg /\ digs ip /\ ((1 <? zlen ip) && starts_with [48%N] ip = false)).
  { apply i_alt in Hhd as [Hi | Hm].
    - apply i_int_parts in Hi as [-> | (sg & d & ds & -> & Hs & Hd & Hds)].
      + exists [], [48%N]. split; [reflexivity|]. split; [left; reflexivity|]. split; [split; [discriminate | reflexivity] | reflexivity].
      + destruct (d1_facts d Hd) as (D1 & D2 & _). exists sg, (d :: ds). split; [reflexivity|]. split; [exact Hs|]. split; [split; [discriminate | cbn [forallb]; rewrite D1, Hds; reflexivity]|].
        rewrite sw_cons, D2. cbn [andb]. apply andb_false_r.
    - apply i_lit in Hm. subst hd. exists [45%N], [48%N]. split; [reflexivity|]. split; [right; reflexivity|]. split; [split; [discriminate | reflexivity] | reflexivity]. }
  destruct Hh as (sg & ip & -> & Hs & Hip & Hz). exists sg, ip, fr, ex. rewrite <- app_assoc. split; [reflexivity|]. split; [exact Hs|]. split; [exact Hip|]. split; [exact Hf|]. split; [exact He | exact Hz].
Qed.

Lemma fracp_ok fr : fracp fr -> frac_ok fr.
Proof. intros [-> | (fp & -> & Hn & Hd)]; [left; reflexivity | right; exists fp; repeat split; assumption]. Qed.
Lemma expp_ok ex : expp ex -> exp_ok ex.
Proof.
  intros [-> | (e & pm & ed & -> & He & Hpm & Hn & Hd)]; [left; reflexivity | right]. exists e, pm, ed. split; [reflexivity|]. split; [apply eEc_cases; exact He|]. split; [exact Hpm | split; assumption].
Qed.

Theorem abnf_number v : D (R r_number) v ->
  has_leading_zero v = false /\ (int_form v \/ float_form v) /\ exists x, py_float v = Some x.
Proof.
  intros H. apply i_number in H as (sg & ip & fr & ex & -> & Hs & Hip & Hfr & Hex & Hz). split; [|split].
  - rewrite (hlz_form sg ip fr ex Hs (proj1 Hip) (proj2 Hip) (fracp_ok fr Hfr) (expp_ok ex Hex)). exact Hz.
  - destruct Hfr as [-> | (fp & -> & Hfp)].
    + cbn [app]. destruct Hex as [-> | (e & pm & ed & -> & He & Hpm & Hed)].
      * left. exists sg, ip, []. repeat split; try apply Hip; try assumption. left; reflexivity.
      * destruct Hpm as [-> | [-> | ->]].
        -- left. exists sg, ip, (e :: [] ++ ed). split; [reflexivity|]. split; [exact Hs|]. split; [exact Hip|]. right. exists e, [], ed. repeat split; try apply Hed; try assumption. left; reflexivity.
        -- left. exists sg, ip, (e :: [43%N] ++ ed). split; [reflexivity|]. split; [exact Hs|]. split; [exact Hip|]. right. exists e, [43%N], ed. repeat split; try apply Hed; try assumption. right; reflexivity.
        -- right. exists sg, ip. split; [exact Hs|]. split; [exact Hip|]. right. exists e, ed. split; [reflexivity|]. split; [exact He | exact Hed].
    + right. exists sg, ip. split; [exact Hs|]. split; [exact Hip|]. left. exists fp, ex. split; [reflexivity|]. split; [exact Hfp|]. exact Hex.
  - destruct (parse_decimal_total sg ip fr ex Hs Hip Hfr Hex) as [d E]. unfold py_float. rewrite E. eexists. reflexivity.
Qed.

(* ---- string literals: every escape form decodes ---- *)
Lemma i_HEXDIG s : D (R r_HEXDIG) s -> exists c v, s = [c] /\ hexv c = Some v /\ 0 <= v <= 15.
Proof.
  intros H. apply i_ref in H. cbn [rule_body GAlts] in H. apply i_alt in H as [H | H].
  - apply i_DIGIT in H as (c & -> & Hc). exists c, (Z.of_N c - 48). split; [reflexivity|]. unfold isd in Hc. unfold hexv. rewrite Hc. split; [reflexivity | lia].
  - repeat (apply i_alt in H as [H | H]); apply i_char in H; subst; eexists; eexists; (split; [reflexivity|]); (split; [reflexivity | lia]).
Qed.
Lemma hex4_of a b c d va vb vc vd : hexv a = Some va -> hexv b = Some vb -> hexv c = Some vc -> hexv d = Some vd -> hex4 a b c d = Some (va * 4096 + vb * 256 + vc * 16 + vd).
Proof. intros Ha Hb Hc Hd. unfold hex4. rewrite Ha, Hb, Hc, Hd. reflexivity. Qed.
Lemma i_ciD s : D (GCi 100) s -> exists c, s = [c] /\ hexv c = Some 13.
Proof. intros H. apply i_ci in H as [-> | ->]; eexists; split; reflexivity. Qed.

Lemma i_non_surrogate s : D (R r_non_surrogate) s -> exists a b c d x, s = [a; b; c; d] /\ hex4 a b c d = Some x /\ is_low x = false /\ is_high x = false.
Proof.
  intros H. apply i_ref in H. cbn [rule_body GSeqs] in H. apply i_alt in H as [H | H].
  - apply i_seq in H as (s1 & r & -> & H1 & H). apply i_seq in H as (s2 & r2 & -> & H2 & H). apply i_seq in H as (s3 & s4 & -> & H3 & H4).
    apply i_HEXDIG in H2 as (b & vb & -> & Hb & Bb). apply i_HEXDIG in H3 as (c & vc & -> & Hc & Bc). apply i_HEXDIG in H4 as (d & vd & -> & Hd & Bd).
    assert (Ha : exists a va, s1 = [a] /\ hexv a = Some va /\ (0 <= va <= 12 \/ 14 <= va <= 15)).
    { cbn [GAlts] in H1. apply i_alt in H1 as [H1 | H1].
      - apply i_DIGIT in H1 as (a & -> & Ha). exists a, (Z.of_N a - 48). split; [reflexivity|]. unfold isd in Ha. unfold hexv. rewrite Ha. split; [reflexivity | lia].
      - repeat (apply i_alt in H1 as [H1 | H1]); apply i_char in H1; subst; eexists; eexists; (split; [reflexivity|]); (split; [reflexivity | lia]). }
    destruct Ha as (a & va & -> & Ha & Ba). exists a, b, c, d, (va * 4096 + vb * 256 + vc * 16 + vd). split; [reflexivity|]. split; [apply hex4_of; assumption|].
    unfold is_low, is_high. lia.
  - apply i_seq in H as (s1 & r & -> & H1 & H). apply i_seq in H as (s2 & r2 & -> & H2 & H). apply i_seq in H as (s3 & s4 & -> & H3 & H4).
    apply i_ciD in H1 as (a & -> & Ha). apply i_range in H2 as (b & -> & B1 & B2). apply i_HEXDIG in H3 as (c & vc & -> & Hc & Bc). apply i_HEXDIG in H4 as (d & vd & -> & Hd & Bd).
    assert (Hb : hexv b = Some (Z.of_N b - 48)) by (unfold hexv; replace ((48 <=? b) && (b <=? 57))%N with true by lia; reflexivity).
    exists a, b, c, d, (13 * 4096 + (Z.of_N b - 48) * 256 + vc * 16 + vd). split; [reflexivity|]. split; [apply hex4_of; assumption|]. unfold is_low, is_high. lia.
Qed.
Lemma i_surrogate (hi : bool) s : D (R (if hi then r_high_surrogate else r_low_surrogate)) s ->
  exists a b c d x, s = [a; b; c; d] /\ hex4 a b c d = Some x /\ is_low x = negb hi /\ is_high x = hi.
Proof.
  intros H. apply i_ref in H.
  assert (H' : exists s1 s2 s3 s4, s = s1 ++ s2 ++ s3 ++ s4 /\ D (GCi 100) s1 /\ (exists b vb, s2 = [b] /\ hexv b = Some vb /\ if hi then 8 <= vb <= 11 else 12 <= vb <= 15) /\ D (R r_HEXDIG) s3 /\ D (R r_HEXDIG) s4).
  { destruct hi; cbn [rule_body GSeqs GAlts] in H; apply i_seq in H as (s1 & r & -> & H1 & H); apply i_seq in H as (s2 & r2 & -> & H2 & H); apply i_seq in H as (s3 & s4 & -> & H3 & H4);
      exists s1, s2, s3, s4; (split; [reflexivity|]); (split; [exact H1|]); (split; [|split; assumption]).
    - apply i_alt in H2 as [H2 | H2]; [apply i_C in H2; subst; exists 56%N, 8; split; [reflexivity | split; [reflexivity | lia]]|].
      apply i_alt in H2 as [H2 | H2]; [apply i_C in H2; subst; exists 57%N, 9; split; [reflexivity | split; [reflexivity | lia]]|].
      repeat (apply i_alt in H2 as [H2 | H2]); apply i_char in H2; subst; eexists; eexists; (split; [reflexivity|]); (split; [reflexivity | lia]).
    - repeat (apply i_alt in H2 as [H2 | H2]); apply i_char in H2; subst; eexists; eexists; (split; [reflexivity|]); (split; [reflexivity | lia]). }
  destruct H' as (s1 & s2 & s3 & s4 & -> & H1 & (b & vb & -> & Hb & Bb) & H3 & H4).
  apply i_ciD in H1 as (a & -> & Ha). apply i_HEXDIG in H3 as (c & vc & -> & Hc & Bc). apply i_HEXDIG in H4 as (d & vd & -> & Hd & Bd).
  exists a, b, c, d, (13 * 4096 + vb * 256 + vc * 16 + vd). split; [reflexivity|]. split; [apply hex4_of; assumption|]. unfold is_low, is_high. destruct hi; cbn [negb]; lia.
Qed.

Lemma i_unescaped s : D (R r_unescaped) s -> exists c, s = [c] /\ N.eqb c 92 = false /\ c <> 34%N /\ c <> 39%N /\ raw_ok 34 c = true /\ raw_ok 39 c = true.
Proof.
  intros H. apply i_ref in H. cbn [rule_body GAlts] in H. repeat (apply i_alt in H as [H | H]); apply i_range in H as (c & -> & A & B); exists c; (split; [reflexivity|]); unfold raw_ok; lia.
Qed.

Lemma sd_simple q x r : qok q -> (x = 98 \/ x = 102 \/ x = 110 \/ x = 114 \/ x = 116 \/ x = 47 \/ x = 92)%N ->
  exists y, spec_decode q (92%N :: x :: r) = match spec_decode q r with Some t => Some (y :: t) | None => None end.
Proof. intros [-> | ->] [-> | [-> | [-> | [-> | [-> | [-> | ->]]]]]]; eexists; reflexivity. Qed.

Lemma sd_u q a b c d r : qok q ->
  spec_decode q (92%N :: 117%N :: a :: b :: c :: d :: r) =
      match hex4 a b c d with
            | None => None
            | Some x =>
              if is_low x then None
              else if is_high x then
                match r with
                | b :: u :: l1 :: l2 :: l3 :: l4 :: r3 =>
                  if N.eqb b 92 && N.eqb u 117 then
                    match hex4 l1 l2 l3 l4 with
                    | Some y => if is_low y
                                then match spec_decode q r3 with
                                     | Some t => Some (Z.to_N (65536 + (x - 55296) * 1024 + (y - 56320)) :: t)
                                     | None => None
                                     end
                                else None
                    | None => None
                    end
                  else None
                | _ => None
                end
              else match spec_decode q r with Some t => Some (Z.to_N x :: t) | None => None end
            end.
Proof. intros [-> | ->]; reflexivity. Qed.
Lemma sd_u_nonsur q a b c d x r : qok q -> hex4 a b c d = Some x -> is_low x = false -> is_high x = false ->
  spec_decode q (92%N :: 117%N :: a :: b :: c :: d :: r) = match spec_decode q r with Some t => Some (Z.to_N x :: t) | None => None end.
Proof. intros Hq E1 E2 E3. rewrite (sd_u q a b c d r Hq), E1, E2, E3. reflexivity. Qed.
Lemma sd_u_pair q a b c d x a' b' c' d' y r : qok q -> hex4 a b c d = Some x -> is_low x = false -> is_high x = true -> hex4 a' b' c' d' = Some y -> is_low y = true ->
  spec_decode q (92%N :: 117%N :: a :: b :: c :: d :: 92%N :: 117%N :: a' :: b' :: c' :: d' :: r)
  = match spec_decode q r with Some t => Some (Z.to_N (65536 + (x - 55296) * 1024 + (y - 56320)) :: t) | None => None end.
Proof. intros Hq E1 E2 E3 E4 E5. rewrite (sd_u q a b c d _ Hq), E1, E2, E3. change (N.eqb 92 92 && N.eqb 117 117) with true. cbv iota. rewrite E4, E5. reflexivity. Qed.

(* one item of a string body in front of a decodable rest *)
Lemma quoted_step q s1 : qok q -> D (R (quoted q)) s1 -> forall s2 k2, spec_decode q s2 = Some k2 -> exists k, spec_decode q (s1 ++ s2) = Some k.
Proof.
  intros Hq H s2 k2 E2. apply i_ref in H.
  assert (Hq92 : N.eqb 92 q = false /\ N.eqb q 92 = false) by (destruct Hq as [-> | ->]; split; reflexivity).
  assert (Cases : (exists c, s1 = [c] /\ N.eqb c 92 = false /\ raw_ok q c = true) \/ s1 = [92%N; q] \/ (exists esc, s1 = 92%N :: esc /\ D (R r_escapable) esc)).
  { destruct Hq as [-> | ->]; unfold quoted in H; [change (N.eqb 39 39) with true in H | change (N.eqb 34 39) with false in H]; cbv iota in H; cbn [rule_body GAlts] in H.
    - apply i_alt in H as [H | H]; [apply i_unescaped in H as (c & -> & A & _ & _ & _ & B); left; exists c; repeat split; assumption|].
      apply i_alt in H as [H | H]; [apply i_C in H; subst; left; exists 34%N; repeat split; reflexivity|].
      apply i_alt in H as [H | H]; apply i_seq in H as (a & b & -> & Ha & Hb); apply i_C in Ha; subst a; [apply i_C in Hb; subst; right; left; reflexivity | right; right; exists b; split; [reflexivity | exact Hb]].
    - apply i_alt in H as [H | H]; [apply i_unescaped in H as (c & -> & A & _ & _ & B & _); left; exists c; repeat split; assumption|].
      apply i_alt in H as [H | H]; [apply i_C in H; subst; left; exists 39%N; repeat split; reflexivity|].
      apply i_alt in H as [H | H]; apply i_seq in H as (a & b & -> & Ha & Hb); apply i_C in Ha; subst a; [apply i_C in Hb; subst; right; left; reflexivity | right; right; exists b; split; [reflexivity | exact Hb]]. }
  destruct Cases as [(c & -> & Ec & Hr) | [-> | (esc & -> & He)]].
  - cbn [app spec_decode]. rewrite Ec, Hr, E2. eexists. reflexivity.
  - cbn [app spec_decode]. change (N.eqb 92 92) with true. cbv iota. rewrite N.eqb_refl, E2. eexists. reflexivity.
  - apply i_ref in He. cbn [rule_body GAlts] in He.
    assert (Simple : forall x, (x = 98 \/ x = 102 \/ x = 110 \/ x = 114 \/ x = 116 \/ x = 47 \/ x = 92)%N -> esc = [x] -> exists k, spec_decode q ((92%N :: esc) ++ s2) = Some k).
    { intros x Hx ->. cbn [app]. destruct (sd_simple q x s2 Hq Hx) as [y Ey]. rewrite Ey, E2. eexists. reflexivity. }
    assert (Nq : forall x, (x = 98 \/ x = 102 \/ x = 110 \/ x = 114 \/ x = 116 \/ x = 47 \/ x = 92 \/ x = 117)%N -> N.eqb x q = false) by (intros x Hx; destruct Hq as [-> | ->]; lia).
    apply i_alt in He as [He | He]; [apply i_C in He; apply (Simple 98%N ltac:(tauto) He)|].
    apply i_alt in He as [He | He]; [apply i_C in He; apply (Simple 102%N ltac:(tauto) He)|].
    apply i_alt in He as [He | He]; [apply i_C in He; apply (Simple 110%N ltac:(tauto) He)|].
    apply i_alt in He as [He | He]; [apply i_C in He; apply (Simple 114%N ltac:(tauto) He)|].
    apply i_alt in He as [He | He]; [apply i_C in He; apply (Simple 116%N ltac:(tauto) He)|].
    apply i_alt in He as [He | He]; [apply i_C in He; apply (Simple 47%N ltac:(tauto) He)|].
    apply i_alt in He as [He | He]; [apply i_C in He; apply (Simple 92%N ltac:(tauto) He)|].
    apply i_seq in He as (u & hc & -> & Hu & Hhc). apply i_C in Hu. subst u. apply i_ref in Hhc. cbn [rule_body GSeqs] in Hhc.
    pose proof (Nq 117%N ltac:(tauto)) as Nu.
    apply i_alt in Hhc as [Hn | Hs].
    + apply i_non_surrogate in Hn as (a & b & c & d & x & -> & Ex & El & Eh).
      cbn [app]. rewrite (sd_u_nonsur q a b c d x s2 Hq Ex El Eh), E2. eexists. reflexivity.
    + apply i_seq in Hs as (hs & r & -> & Hh & Hs). apply i_seq in Hs as (b1 & r1 & -> & Hb1 & Hs). apply i_seq in Hs as (u1 & ls & -> & Hu1 & Hl).
      apply i_C in Hb1. apply i_C in Hu1. subst b1 u1.
      apply (i_surrogate true) in Hh as (a & b & c & d & x & -> & Ex & El & Eh). apply (i_surrogate false) in Hl as (a' & b' & c' & d' & y & -> & Ey & Ely & Ehy).
      cbn [app]. cbn [negb] in *. rewrite (sd_u_pair q a b c d x a' b' c' d' y s2 Hq Ex El Eh Ey Ely), E2. eexists. reflexivity.
Qed.

Lemma i_body q : qok q -> forall s, D (GStar (R (quoted q))) s -> exists k, spec_decode q s = Some k.
Proof.
  intros Hq s H. remember (GStar (R (quoted q))) as g eqn:Eg. induction H; try discriminate Eg; [exists []; reflexivity|]. inversion Eg; subst a.
  destruct (IHderives2 eq_refl) as [k2 E2]. apply (quoted_step q s1 Hq H0 s2 k2 E2).
Qed.

(* string-literal: quote, body, the same quote; the body decodes *)
Theorem abnf_string s : D (R r_string_literal) s -> exists q body k, s = q :: body ++ [q] /\ qok q /\ spec_decode q body = Some k.
Proof.
  intros H. apply i_ref in H. cbn [rule_body GSeqs] in H. apply i_alt in H as [H | H]; apply i_seq in H as (a & r & -> & Ha & H); apply i_seq in H as (body & c & -> & Hb & Hc);
    apply i_C in Ha; apply i_C in Hc; subst a c.
  - destruct (i_body 34%N (or_intror eq_refl) body Hb) as [k E]. exists 34%N, body, k. split; [reflexivity|]. split; [right; reflexivity | exact E].
  - destruct (i_body 39%N (or_introl eq_refl) body Hb) as [k E]. exists 39%N, body, k. split; [reflexivity|]. split; [left; reflexivity | exact E].
Qed.
