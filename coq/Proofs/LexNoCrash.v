(* C13, lexer part: the state machine never pops an empty filter stack (no IndexError), and every string token it
   emits has a body of the shape lex_ok describes, so that C09_decode applies to every token the parser sees. *)
From JP Require Import Base.Prelude Model.Regex Model.Tokens Model.Lex Proofs.StringProofs.

Definition strtok_ok (t : token) : Prop :=
  (ty t = T_SQ_STRING -> lex_ok 39 (tval t) = true) /\ (ty t = T_DQ_STRING -> lex_ok 34 (tval t) = true).
Definition qok (q : N) : Prop := q = 39%N \/ q = 34%N.
Definition JS (st : lstate) (l : lexer) : Prop :=
  match st with
  | Lex.SFilter => l_ffd l <> []
  | SString q inf => qok q /\ (inf = true -> l_ffd l <> [])
  | SStringBody q inf => qok q /\ (inf = true -> l_ffd l <> []) /\ lex_ok q (rev (l_cur l)) = true
  | _ => True
  end.
Record J (st : lstate) (l : lexer) : Prop := {
  j_depth : l_fdepth l = zlen (l_ffd l);
  j_toks : Forall strtok_ok (l_toks l);
  j_state : JS st l
}.

(* --- lex_ok on prefixes ------------------------------------------------------------------------------- *)
Lemma lex_ok_app q : forall n x y, (length x <= n)%nat -> lex_ok q x = true -> lex_ok q (x ++ y) = lex_ok q y.
Proof.
  induction n as [|n IH]; intros x y Hn Hx.
  { destruct x; [reflexivity | cbn [length] in Hn; lia]. }
  destruct x as [|c r]; [reflexivity|]. cbn [length] in Hn. cbn [lex_ok app] in *. destruct (N.eqb c 92).
  - destruct r as [|d r']; [discriminate|]. cbn [app length] in *. apply andb_true_iff in Hx as [He Hr]. rewrite He. cbn [andb].
    apply IH; [lia | exact Hr].
  - apply andb_true_iff in Hx as [Hc Hr]. rewrite Hc. cbn [andb]. apply IH; [lia | exact Hr].
Qed.
Lemma lex_ok_snoc q x c : lex_ok q x = true -> N.eqb c 92 = false -> N.eqb c q = false -> lex_ok q (x ++ [c]) = true.
Proof. intros Hx H1 H2. rewrite (lex_ok_app q (length x) x [c] (le_n _) Hx). cbn [lex_ok]. rewrite H1, H2. reflexivity. Qed.
Lemma lex_ok_snoc2 q x p : lex_ok q x = true -> (existsb (N.eqb p) ESCAPES || N.eqb p q) = true -> lex_ok q (x ++ [92%N; p]) = true.
Proof.
  intros Hx Hp. rewrite (lex_ok_app q (length x) x [92%N; p] (le_n _) Hx). cbn [lex_ok]. change (N.eqb 92 92) with true. cbv iota.
  change (existsb (N.eqb p) [98; 102; 110; 114; 116; 117; 47; 92]%N) with (existsb (N.eqb p) ESCAPES). rewrite Hp. reflexivity.
Qed.

(* --- what the primitives leave alone ------------------------------------------------------------------ *)
Definition frame (l l' : lexer) : Prop :=
  l_fdepth l' = l_fdepth l /\ l_ffd l' = l_ffd l /\ l_fcs l' = l_fcs l /\ l_bs l' = l_bs l /\ l_toks l' = l_toks l.
Lemma frame_refl l : frame l l. Proof. repeat split. Qed.
Lemma frame_next l c l1 : l_next l = (c, l1) -> frame l l1.
Proof. unfold l_next. destruct (l_rest l); intros H; inversion H; subst; repeat split. Qed.
Lemma frame_next_snd l : frame l (snd (l_next l)).
Proof. eapply frame_next. apply surjective_pairing. Qed.
Lemma frame_backup l l2 : l_backup l = Some l2 -> frame l l2.
Proof. unfold l_backup. destruct (l_cur l); intros H; inversion H; subst; repeat split. Qed.
Lemma frame_advance l n : frame l (l_advance l n).
Proof. unfold l_advance. destruct (skipn_push _ _ _). repeat split. Qed.
Lemma frame_accept_match r l b l' : l_accept_match r l = (b, l') -> frame l l'.
Proof. unfold l_accept_match. destruct (re_match r (l_rest l)); intros H; inversion H; subst; [apply frame_advance | apply frame_refl]. Qed.
Lemma frame_accept p l b l' : l_accept p l = (b, l') -> frame l l'.
Proof. unfold l_accept. destruct (is_prefix p (l_rest l)); intros H; inversion H; subst; [apply frame_advance | apply frame_refl]. Qed.
Lemma frame_ignore_ws l b l' : l_ignore_ws l = Some (b, l') -> frame l l'.
Proof.
  unfold l_ignore_ws. destruct (l_cur l); [|discriminate]. destruct (l_accept_match RE_WHITESPACE l) as [w a] eqn:E.
  intros H; inversion H; subst. apply frame_accept_match in E. destruct b; [|exact E]. destruct E as (A & B & C & D & F). repeat split; assumption.
Qed.

(* --- one transition -------------------------------------------------------------------------------------- *)
Definition okJ (o : lexout) : Prop :=
  match o with
  | LNext st' l' => J st' l'
  | LStop l' => Forall strtok_ok (l_toks l')
  | LRaise _ _ => True
  | LCrash _ => False
  end.

Lemma strtok_other t v i : t <> T_SQ_STRING -> t <> T_DQ_STRING -> strtok_ok {| ty := t; tval := v; tidx := i |}.
Proof. intros A B. split; cbn [ty]; intros E; congruence. Qed.

Ltac frames :=
  repeat match goal with
  | H : l_next _ = (_, _) |- _ => apply frame_next in H
  | H : l_backup _ = Some _ |- _ => apply frame_backup in H
  | H : l_accept_match _ _ = (_, _) |- _ => apply frame_accept_match in H
  | H : l_accept _ _ = (_, _) |- _ => apply frame_accept in H
  | H : l_ignore_ws _ = Some (_, _) |- _ => apply frame_ignore_ws in H
  end;
  repeat match goal with
  | |- context [snd (l_next ?x)] =>
      lazymatch goal with H : frame x (snd (l_next x)) |- _ => fail | _ => pose proof (frame_next_snd x) end
  end;
  repeat match goal with H : frame _ _ |- _ => destruct H as (? & ? & ? & ? & ?) end.
Ltac proj := cbn [l_fdepth l_ffd l_fcs l_bs l_toks l_emit l_error l_ignore add_tok upd_text set_stacks push_bracket].
Ltac rw :=
  repeat match goal with
  | H : l_fdepth _ = l_fdepth _ |- _ => rewrite H in *; clear H
  | H : l_ffd _ = l_ffd _ |- _ => rewrite H in *; clear H
  | H : l_fcs _ = l_fcs _ |- _ => rewrite H in *; clear H
  | H : l_bs _ = l_bs _ |- _ => rewrite H in *; clear H
  | H : l_toks _ = l_toks _ |- _ => rewrite H in *; clear H
  end.
Ltac toks_ok Ht :=
  repeat first [ exact Ht | apply Forall_cons; [apply strtok_other; discriminate|] ].
Ltac head_splitJ :=
  repeat match goal with
  | |- okJ (let '(_, _) := ?X in _) => destruct X as [? ?] eqn:?
  | |- okJ (match ?X with _ => _ end) => first [is_var X; destruct X | destruct X eqn:?]
  | |- okJ (if ?X then _ else _) => destruct X eqn:?
  end.
Ltac ffd_cons := repeat match goal with H : l_ffd _ = _ :: _ |- _ => rewrite H in * end.
Ltac prw := proj; rw; proj; rw; proj; rw; proj.
Ltac jsolve := cbn [JS]; prw;
  first [ exact I | discriminate | assumption
        | (intros E0; ffd_cons; first [discriminate | congruence])
        | (split; [first [left; reflexivity | right; reflexivity] | first [ (intros; discriminate) | (intros; assumption) | idtac ]]) | idtac ].
Ltac finJ Hd Ht :=
  unfold emit2, l_error in *;
  repeat match goal with H : l_ffd (l_emit _ _) = _ |- _ => cbn [l_ffd l_emit l_ignore add_tok upd_text] in H end;
  repeat match goal with |- context [if ?b then l_emit _ _ else l_emit _ _] => destruct b end;
  repeat match goal with |- context [match l_fcs ?x with _ => _ end] => destruct (l_fcs x) eqn:? end;
  frames; cbn [okJ];
  lazymatch goal with
  | |- True => exact I
  | |- False => prw; try congruence
  | |- Forall _ _ => prw; toks_ok Ht
  | |- J _ _ => split;
                [ prw; try first [exact Hd | (ffd_cons; unfold zlen in *; cbn [length] in *; lia) ] | prw; toks_ok Ht | jsolve ]
  | |- _ => idtac
  end.

Lemma step_root_J l : J SRoot l -> okJ (lex_step SRoot l).
Proof. intros [Hd Ht _]. cbn [lex_step]. head_splitJ; finJ Hd Ht. Qed.
Lemma step_desc_J l : J SDescendant l -> okJ (lex_step SDescendant l).
Proof. intros [Hd Ht _]. cbn [lex_step]. head_splitJ; finJ Hd Ht. Qed.
Lemma step_short_J l : J SShorthand l -> okJ (lex_step SShorthand l).
Proof. intros [Hd Ht _]. cbn [lex_step]. cbv zeta. head_splitJ; finJ Hd Ht. Qed.
Lemma step_seg_J l : J SSegment l -> okJ (lex_step SSegment l).
Proof.
  intros [Hd Ht _]. cbn [lex_step]. head_splitJ; finJ Hd Ht.
  intros E. rewrite E in Hd. change (zlen (@nil Z)) with 0 in Hd.
  match goal with H : negb (l_fdepth l =? 0) = true |- _ => rewrite Hd in H; discriminate end.
Qed.

Lemma step_bracket_J l : J SBracket l -> okJ (lex_step SBracket l).
Proof. intros [Hd Ht _]. cbn [lex_step]. head_splitJ; finJ Hd Ht. Qed.
Lemma step_filter_J l : J Lex.SFilter l -> okJ (lex_step Lex.SFilter l).
Proof. intros [Hd Ht Hs]. cbn [JS] in Hs. cbn [lex_step]. head_splitJ; finJ Hd Ht. Qed.

Lemma next_cur l c l1 : l_next l = (Some c, l1) -> l_cur l1 = c :: l_cur l.
Proof. unfold l_next. destruct (l_rest l); intros H; inversion H; subst. reflexivity. Qed.
Lemma peek_next_cur l p : l_peek l = Some p -> l_cur (snd (l_next l)) = p :: l_cur l.
Proof. unfold l_peek, l_next. destruct (l_rest l); intros H; inversion H; subst. reflexivity. Qed.
Lemma backup_cur l l2 : l_backup l = Some l2 -> exists c, l_cur l = c :: l_cur l2.
Proof. unfold l_backup. destruct (l_cur l) as [|c r]; intros H; inversion H; subst. exists c. reflexivity. Qed.

Lemma strtok_string q v i : qok q -> lex_ok q v = true ->
  strtok_ok {| ty := if N.eqb q 39 then T_SQ_STRING else T_DQ_STRING; tval := v; tidx := i |}.
Proof. intros [-> | ->] H; split; cbn [ty tval N.eqb Pos.eqb]; intros E; first [exact H | discriminate]. Qed.

Lemma after_J inf l : l_fdepth l = zlen (l_ffd l) -> Forall strtok_ok (l_toks l) -> (inf = true -> l_ffd l <> []) ->
  J (if inf then Lex.SFilter else SBracket) l.
Proof. intros A B C. split; [exact A | exact B |]. destruct inf; cbn [JS]; auto. Qed.

Lemma step_string_J q inf l : J (SString q inf) l -> okJ (lex_step (SString q inf) l).
Proof.
  intros [Hd Ht [Hq Hf]]. cbn [lex_step]. cbv zeta. destruct (l_peek (l_ignore l)); cbn [okJ].
  - split; [exact Hd | exact Ht |]. cbn [JS]. repeat split; assumption.
  - pose proof (frame_next_snd (l_emit (if N.eqb q 39 then T_SQ_STRING else T_DQ_STRING) (l_ignore l))) as (F1 & F2 & F3 & F4 & F5).
    apply after_J; proj; rewrite ?F1, ?F2, ?F5; proj; try assumption.
    apply Forall_cons; [|exact Ht]. apply strtok_string; [exact Hq | reflexivity].
Qed.

Lemma step_body_J q inf l : J (SStringBody q inf) l -> okJ (lex_step (SStringBody q inf) l).
Proof.
  intros [Hd Ht (Hq & Hf & Hl)]. cbn [lex_step].
  destruct (l_next l) as [c l1] eqn:En. destruct c as [c'|]; [|apply frame_next in En; destruct En as (E1 & E2 & E3 & E4 & E5); unfold l_error; cbn [okJ]; proj; rewrite E5; toks_ok Ht].
  pose proof (next_cur _ _ _ En) as Ec. apply frame_next in En. destruct En as (E1 & E2 & E3 & E4 & E5).
  destruct (N.eqb c' 92) eqn:E92.
  - destruct (l_peek l1) as [p|] eqn:Ep; [|unfold l_error; cbn [okJ]; proj; rewrite E5; toks_ok Ht].
    destruct (existsb (N.eqb p) ESCAPES || N.eqb p q) eqn:Eesc; [|unfold l_error; cbn [okJ]; proj; rewrite E5; toks_ok Ht].
    cbn [okJ]. pose proof (frame_next_snd l1) as (F1 & F2 & F3 & F4 & F5). pose proof (peek_next_cur _ _ Ep) as Ec2.
    split; [rewrite F1, F2, E1, E2; exact Hd | rewrite F5, E5; exact Ht |]. cbn [JS]. split; [exact Hq|]. split; [rewrite F2, E2; exact Hf|].
    rewrite Ec2, Ec. apply N.eqb_eq in E92. subst c'. cbn [rev]. rewrite <- app_assoc. cbn [app]. apply lex_ok_snoc2; assumption.
  - destruct (N.eqb c' q) eqn:Eq.
    + destruct (l_backup l1) as [l2|] eqn:Eb; [|exact I]. cbn [okJ].
      destruct (backup_cur _ _ Eb) as [x Ex]. rewrite Ec in Ex. inversion Ex; subst x. apply frame_backup in Eb. destruct Eb as (B1 & B2 & B3 & B4 & B5).
      pose proof (frame_next_snd (l_emit (if N.eqb q 39 then T_SQ_STRING else T_DQ_STRING) l2)) as (F1 & F2 & F3 & F4 & F5).
      apply after_J; proj; rewrite ?F1, ?F2, ?F5; proj; rewrite ?B1, ?B2, ?B5, ?E1, ?E2, ?E5; try assumption.
      apply Forall_cons; [|exact Ht]. apply strtok_string; [exact Hq|]. match goal with H : l_cur l = l_cur l2 |- _ => rewrite <- H end. exact Hl.
    + cbn [okJ]. split; [rewrite E1, E2; exact Hd | rewrite E5; exact Ht |]. cbn [JS]. split; [exact Hq|]. split; [rewrite E2; exact Hf|].
      rewrite Ec. cbn [rev]. apply lex_ok_snoc; assumption.
Qed.

Theorem lex_step_J st l : J st l -> okJ (lex_step st l).
Proof.
  destruct st; [apply step_root_J | apply step_seg_J | apply step_desc_J | apply step_short_J | apply step_bracket_J | apply step_filter_J
               | apply step_string_J | apply step_body_J].
Qed.

Lemma J_init q : J SRoot (lexer_init q).
Proof. split; cbn; [reflexivity | constructor | exact I]. Qed.

Theorem lex_run_J : forall fuel st l, J st l ->
  match lex_run fuel st l with
  | Ok l' => Forall strtok_ok (l_toks l')
  | Crash _ => False
  | _ => True
  end.
Proof.
  induction fuel as [|f IH]; intros st l H; [exact I|]. cbn [lex_run].
  pose proof (lex_step_J st l H) as Hs. destruct (lex_step st l); cbn [okJ] in Hs; [apply IH; exact Hs | exact Hs | exact I | exact Hs].
Qed.

Theorem tokenize_no_crash q :
  match m_tokenize q with
  | Ok toks => Forall strtok_ok toks
  | Crash _ => False
  | _ => True
  end.
Proof.
  unfold m_tokenize. pose proof (lex_run_J (lex_fuel q) SRoot (lexer_init q) (J_init q)) as H.
  destruct (lex_run (lex_fuel q) SRoot (lexer_init q)) as [l| | |]; cbn [bind]; try exact H.
  destruct (l_toks l) as [|t ts] eqn:Et.
  - destruct (l_bs l) as [|[c i] r]; [constructor | exact I].
  - destruct (ttype_eqb (ty t) T_ERROR); [exact I|]. destruct (l_bs l) as [|[c i] r]; [|exact I]. apply Forall_rev. exact H.
Qed.
