(* C13 (termination of the parser): the recursion fuel the model gives Parser.parse is never exhausted.
   Weight of a stream = number of tokens that are not EOF among current + pushed back + not yet read.  next() takes
   exactly the weight of the current token off, peek leaves the weight alone, push(current) adds the weight of current.
   Every cycle in the call graph of the fourteen mutually recursive functions consumes a token that is not EOF, so
   "5 * weight + rank of the function" bounds the depth of the recursion (rank <= 5), and parse_fuel = 6 * len + 16. *)
From JP Require Import Base.Prelude Model.Tokens Model.Ast Model.Parse Proofs.ParseInv.
Local Open Scope nat_scope.

Definition wt (t : token) : nat := if ttype_eqb (ty t) T_EOF then 0 else 1.
Definition wsum (l : list token) : nat := fold_right (fun t n => wt t + n) 0 l.
Definition W (s : stream) : nat := wt (cur s) + wsum (pushed s) + wsum (rest s).

Lemma wsum_app a b : wsum (a ++ b) = wsum a + wsum b.
Proof. induction a as [|x a IH]; cbn; [reflexivity|]. fold (wsum (a ++ b)) (wsum a). rewrite IH. lia. Qed.
Lemma wt_eof : wt eof_token = 0. Proof. reflexivity. Qed.
Lemma wsum_le_length l : wsum l <= length l.
Proof. induction l as [|x l IH]; cbn; [lia|]. fold (wsum l). unfold wt. destruct (ttype_eqb _ _); lia. Qed.

(* --- the stream invariant: at most one token pushed back; once current is EOF so is what was pushed back --- *)
Definition J (s : stream) : Prop :=
  length (pushed s) <= 1 /\ (ty (cur s) = T_EOF -> Forall (fun t => ty t = T_EOF) (pushed s)).
Definition J0 (s : stream) : Prop := J s /\ pushed s = [].

Lemma J0_J s : J0 s -> J s. Proof. intros [H _]; exact H. Qed.

Lemma W_adv s : W (adv s) = W s - wt (cur s).
Proof.
  unfold adv, s_next, W. destruct (pushed s) as [|p ps] eqn:Ep; cbn [snd].
  - destruct (ttype_eqb (ty (cur s)) T_EOF) eqn:E.
    + cbn [snd]. rewrite Ep. assert (wt (cur s) = 0) by (unfold wt; rewrite E; reflexivity). lia.
    + assert (wt (cur s) = 1) by (unfold wt; rewrite E; reflexivity).
      destruct (rest s) as [|t r]; cbn [snd cur pushed rest wsum fold_right]; [rewrite wt_eof|]; lia.
  - cbn [cur pushed rest]. unfold wsum. cbn [fold_right]. lia.
Qed.
Lemma J0_adv s : J s -> J0 (adv s).
Proof.
  intros [Hl He]. unfold adv, s_next. destruct (pushed s) as [|p ps] eqn:Ep.
  - destruct (ttype_eqb (ty (cur s)) T_EOF).
    + cbn [snd]. repeat split; rewrite ?Ep; cbn; auto.
    + destruct (rest s); cbn [snd]; repeat split; cbn; auto.
  - destruct ps; [|cbn in Hl; lia]. cbn [snd]. repeat split; cbn; auto.
Qed.
Lemma J_adv s : J s -> J (adv s). Proof. intros H. exact (J0_J _ (J0_adv s H)). Qed.

Lemma after_peek_eq s : after_peek s = s_push (adv s) (cur s).
Proof. unfold after_peek, adv. rewrite peek_eq. cbn [snd]. rewrite next_fst. reflexivity. Qed.
Lemma cur_after_peek s : cur (after_peek s) = cur s.
Proof. rewrite after_peek_eq. reflexivity. Qed.
Lemma W_after_peek s : W (after_peek s) = W s.
Proof.
  rewrite after_peek_eq. pose proof (W_adv s) as H. unfold s_push, W in *. cbn [cur pushed rest].
  rewrite wsum_app. cbn [wsum fold_right].
  assert (Hc : wt (cur s) = 0 \/ wt (cur s) = 1) by (unfold wt; destruct (ttype_eqb _ _); auto).
  destruct Hc as [Hc | Hc]; [lia|].
  (* current is not EOF: next() moved, the weight before was at least 1 *)
  assert (1 <= wt (cur s) + wsum (pushed s) + wsum (rest s)) by lia. lia.
Qed.
Lemma peek_ty_eq s : peek_ty s = ty (cur (adv s)).
Proof. unfold peek_ty, adv. rewrite peek_eq. reflexivity. Qed.
Lemma J_after_peek s : J s -> J (after_peek s).
Proof.
  intros H. pose proof (J0_adv s H) as [[Hl' He'] E']. rewrite after_peek_eq. unfold s_push, J. cbn [cur pushed]. rewrite E'. cbn [app length].
  split; [lia|]. intros Ec. constructor; [|constructor].
  destruct H as [Hl He]. specialize (He Ec). unfold adv, s_next. destruct (pushed s) as [|p ps] eqn:Ep.
  - rewrite Ec. cbn. exact Ec.
  - cbn [snd cur]. inversion He; assumption.
Qed.
Lemma J_push_cur s : J0 s -> J (s_push s (cur s)).
Proof. intros [[Hl He] E]. unfold s_push, J. cbn [cur pushed]. rewrite E. cbn. split; [lia|]. intros Ec. constructor; [exact Ec|constructor]. Qed.
Lemma W_push_cur s : W (s_push s (cur s)) = W s + wt (cur s).
Proof. unfold s_push, W. cbn [cur pushed rest]. rewrite wsum_app. cbn. lia. Qed.

(* a token ahead that is not EOF: current is not EOF either, and next() makes that token current *)
Lemma peek_cur s : J s -> peek_ty s <> T_EOF -> ty (cur s) <> T_EOF.
Proof.
  intros [Hl He] Hp Ec. apply Hp. rewrite peek_ty_eq. specialize (He Ec). unfold adv, s_next. destruct (pushed s) as [|p ps].
  - rewrite Ec. cbn. exact Ec.
  - cbn [snd cur]. inversion He; assumption.
Qed.
Lemma peek_after_peek s : J s -> peek_ty (after_peek s) = peek_ty s.
Proof.
  intros H. pose proof (J0_adv s H) as [_ E']. rewrite !peek_ty_eq. rewrite after_peek_eq. unfold s_push. rewrite E'. cbn [app].
  unfold adv at 1, s_next. cbn [pushed snd cur]. reflexivity.
Qed.
Lemma wt_ne t : ty t <> T_EOF -> wt t = 1.
Proof. unfold wt, ttype_eqb. destruct (ty t); cbn; intros H; try reflexivity. congruence. Qed.
Lemma teqb_true a b : ttype_eqb a b = true -> a = b.
Proof. destruct a, b; cbn; intros H; try discriminate; reflexivity. Qed.

(* --- results: not out of fuel, and a returned stream satisfies the invariant and a bound ---------------- *)
Definition fine {A} (P : stream -> Prop) (r : pres A) : Prop :=
  match r with
  | POk _ s' => J s' /\ P s'
  | PFuel => False
  | _ => True
  end.
Lemma fine_bind {A B} (P Q : stream -> Prop) (r : pres A) (f : A -> stream -> pres B) :
  fine P r -> (forall a s, J s -> P s -> fine Q (f a s)) -> fine Q (pbind r f).
Proof. destruct r; cbn [fine pbind]; intros H Hf; try exact H. destruct H; apply Hf; assumption. Qed.
Lemma fine_weaken {A} (P Q : stream -> Prop) (r : pres A) : (forall s, J s -> P s -> Q s) -> fine P r -> fine Q r.
Proof. intros Hw. destruct r; cbn; intros H; try exact H. destruct H; split; auto. Qed.

Ltac jsolve := first [ assumption | apply J0_J; assumption | apply J_adv; jsolve | apply J_after_peek; jsolve | apply J_push_cur; j0solve ]
with j0solve := first [ assumption | apply J0_adv; jsolve ].

(* facts "the current token of x is not EOF", found in the tests already made on x *)
Ltac peek_ne :=
  match goal with
  | H : ttype_eqb (peek_ty ?x) T_EOF = false |- peek_ty ?x <> T_EOF => let E := fresh "E" in intros E; rewrite E in H; discriminate
  | H : binary_operator (peek_ty ?x) = Some _ |- peek_ty ?x <> T_EOF => let E := fresh "E" in intros E; rewrite E in H; discriminate
  | H : ttype_eqb (peek_ty ?x) ?T = true |- peek_ty ?x <> T_EOF => let E := fresh "E" in intros E; rewrite E in H; discriminate
  | H : negb (ttype_eqb (peek_ty ?x) ?T) = false |- peek_ty ?x <> T_EOF => let E := fresh "E" in intros E; rewrite E in H; discriminate
  end.
Ltac noteof :=
  apply wt_ne;
  first
  [ assumption
  | match goal with
    | H : is_ty ?T ?x = true |- ty (cur ?x) <> T_EOF => let E := fresh "E" in intros E; unfold is_ty, cty in H; rewrite E in H; discriminate
    | H : is_ty T_EOF ?x = false |- ty (cur ?x) <> T_EOF => let E := fresh "E" in intros E; unfold is_ty, cty in H; rewrite E in H; discriminate
    | H : cty ?x = ?T |- ty (cur ?x) <> T_EOF => let E := fresh "E" in intros E; unfold cty in H; rewrite E in H; discriminate
    | H : context [cty ?x] |- ty (cur ?x) <> T_EOF => let E := fresh "E" in intros E; unfold is_ty, cty in H; rewrite E in H; cbn in H; discriminate
    | H : context [is_ty _ ?x] |- ty (cur ?x) <> T_EOF => let E := fresh "E" in intros E; unfold is_ty, cty in H; rewrite E in H; cbn in H; discriminate
    end
  | apply peek_cur; [jsolve | rewrite ?peek_after_peek by jsolve; peek_ne] ].

Lemma W_adv' s : W (adv s) + wt (cur s) = W s.
Proof. rewrite W_adv. unfold W. lia. Qed.
Lemma wt_le1 t : wt t <= 1.
Proof. unfold wt. destruct (ttype_eqb _ _); lia. Qed.

Ltac wnorm := repeat first [ rewrite W_after_peek in * | rewrite cur_after_peek in * | rewrite W_push_cur in * ].
Ltac wpose :=
  repeat match goal with
  | |- context [W (adv ?x)] =>
      lazymatch goal with | _ : W (adv x) + _ = _ |- _ => fail | _ => idtac end; pose proof (W_adv' x)
  | _ : context [W (adv ?x)] |- _ =>
      lazymatch goal with | _ : W (adv x) + _ = _ |- _ => fail | _ => idtac end; pose proof (W_adv' x)
  end.
Ltac wle :=
  repeat match goal with
  | |- context [wt (cur ?x)] =>
      lazymatch goal with | _ : wt (cur x) <= 1 |- _ => fail | _ => idtac end; pose proof (wt_le1 (cur x))
  | _ : context [wt (cur ?x)] |- _ =>
      lazymatch goal with | _ : wt (cur x) <= 1 |- _ => fail | _ => idtac end; pose proof (wt_le1 (cur x))
  end.
Ltac wfacts :=
  repeat match goal with
  | |- context [wt (cur ?x)] =>
      lazymatch goal with | _ : wt (cur x) = 1 |- _ => fail | _ => idtac end; assert (wt (cur x) = 1) by noteof
  | _ : context [wt (cur ?x)] |- _ =>
      lazymatch goal with | _ : wt (cur x) = 1 |- _ => fail | _ => idtac end; assert (wt (cur x) = 1) by noteof
  end.
Ltac wsolve := cbn beta in *; wnorm; repeat (progress wpose; wnorm); wle; wfacts; lia.

(* --- the non-recursive pieces ---------------------------------------------------------------------------- *)
Section ParseTerm.
Variable cfg : envcfg.

Lemma decode_no_fuel t : decode_string_literal t <> OutOfFuel.
Proof. unfold decode_string_literal. destruct (unescape_loop _ _ _ _) as [[?|]|]; discriminate. Qed.

Lemma fine_literal s : J s -> fine (fun s' => W s' <= W s) (p_literal s).
Proof.
  intros H. unfold p_literal. cbv zeta. destruct (ty (cur s)); try exact I; try (cbn [fine]; split; [exact H | lia]).
  all: try (unfold decode_string_literal; destruct (unescape_loop _ _ _ _) as [[?|]|]; cbn [fine]; try exact I; split; [exact H | lia]).
  all: repeat match goal with
       | |- fine _ (if ?b then _ else _) => destruct b
       | |- fine _ (match ?x with _ => _ end) => destruct x
       end; try exact I; cbn [fine]; split; first [exact H | lia].
Qed.

Lemma fine_slice s : J s -> (is_ty T_INDEX s = true \/ pushed s = []) -> fine (fun s' => W s' <= W s) (p_slice cfg s).
Proof.
  intros H Hs. unfold p_slice.
  assert (Hfirst : maybe_index s = POk true s \/ (maybe_index s = POk false s /\ pushed s = []) \/ maybe_index s = err_cur ESyntax s).
  { unfold maybe_index. destruct Hs as [Hs | Hs]; [rewrite Hs; destruct (_ && _); auto|]. destruct (is_ty T_INDEX s); [destruct (_ && _)|]; auto. }
  clear Hs.
  destruct Hfirst as [E | [[E E0] | E]]; rewrite E; cbn [pbind]; try exact I.
  all: cbv zeta beta iota.
  all: match goal with |- fine _ (if negb (is_ty T_COLON ?x) then _ else _) =>
         assert (Hx : J x) by jsolve; destruct (is_ty T_COLON x) eqn:Ecolon; cbn [negb]; [|exact I] end.
  all: match goal with |- context [maybe_index (adv ?x)] =>
         assert (H1 : J0 (adv x)) by j0solve;
         destruct (maybe_index_cases (adv x)) as [E1 | [E1 | E1]]; rewrite E1; cbn [pbind]; try exact I end.
  all: cbv zeta beta iota.
  all: repeat match goal with
       | |- context [is_ty T_COLON ?x] => destruct (is_ty T_COLON x) eqn:?
       end; cbv beta iota.
  all: repeat match goal with
       | |- context [maybe_index ?x] =>
           let E2 := fresh "E2" in destruct (maybe_index_cases x) as [E2 | [E2 | E2]]; rewrite E2; cbn [pbind]; cbv beta iota
       end.
  all: try exact I.
  all: cbn [pbind]; cbv beta iota zeta.
  all: match goal with
       | |- fine _ (if ?b then POk _ (s_push ?x _) else PErr _ _) =>
           destruct b; cbn [fine]; [|exact I]; split; [apply J_push_cur; first [j0solve | split; [jsolve | assumption]] | ]
       end.
  all: wsolve.
Qed.

(* --- the fourteen mutually recursive functions ---------------------------------------------------------- *)
Definition le (s : stream) : stream -> Prop := fun s' => W s' <= W s.
Definition ne (s : stream) : Prop := ty (cur s) <> T_EOF.
Definition T (f : nat) : Prop :=
  (forall (inf : bool) s, J0 s -> 5 * W s + 2 <= f -> fine (fun s' => W s' <= W s + (if inf then 1 else 0)) (p_query cfg f inf s)) /\
  (forall s, J s -> 5 * W s + 1 <= f -> fine (fun s' => W s' <= W s /\ W (adv s') <= W (adv s)) (p_selectors cfg f s)) /\
  (forall s, J0 s -> 5 * W s + 2 <= f -> fine (le s) (p_bracket_loop cfg f s)) /\
  (forall s, J s -> ne s -> 5 * W s + 1 <= f -> fine (le s) (p_filter_selector cfg f s)) /\
  (forall prec s, J s -> 5 * W s + 3 <= f -> fine (le s) (p_fexpr cfg f prec s)) /\
  (forall prec lhs s, J s -> 5 * W s + 1 <= f -> fine (le s) (p_fexpr_loop cfg f prec lhs s)) /\
  (forall s, J s -> 5 * W s + 2 <= f -> fine (le s) (p_primary cfg f s)) /\
  (forall lhs s, J s -> 5 * W s + 4 <= f -> fine (le (adv s)) (p_infix cfg f lhs s)) /\
  (forall s, J s -> ne s -> 5 * W s + 1 <= f -> fine (le s) (p_grouped cfg f s)) /\
  (forall e s, J s -> 5 * W s + 5 <= f -> fine (le s) (p_grouped_loop cfg f e s)) /\
  (forall s, J s -> ne s -> 5 * W s + 1 <= f -> fine (le s) (p_prefix cfg f s)) /\
  (forall s, J s -> ne s -> 5 * W s + 1 <= f -> fine (le s) (p_function cfg f s)) /\
  (forall s, J s -> 5 * W s + 3 <= f -> fine (le s) (p_args_loop cfg f s)) /\
  (forall e s, J s -> 5 * W s + 1 <= f -> fine (le s) (p_arg_infix_loop cfg f e s)).

Ltac nesolve := unfold ne; match goal with |- ty (cur ?x) <> T_EOF =>
  let H := fresh in assert (H : wt (cur x) = 1) by (rewrite ?cur_after_peek; noteof);
  let E := fresh in intros E; unfold wt in H; rewrite E in H; discriminate end.
Ltac leaf := cbn [fine]; first [ exact I | split; [ jsolve | unfold le in *; try split; wsolve ] ].

Theorem T_all : forall f, T f.
Proof.
  induction f as [|f IH]; [repeat split; intros; lia|].
  destruct IH as (IHquery & IHsel & IHbr & IHfs & IHfe & IHfl & IHpr & IHin & IHgr & IHgl & IHpf & IHfn & IHal & IHai).
  Ltac call IHx :=
    match goal with
    | |- fine ?P _ => first [ is_evar P; apply IHx | eapply fine_weaken; [ | apply IHx ]; [ intros ? ? ?; unfold le in *; try split; wsolve | .. ] ]
    end.
  Ltac tgo IHquery IHsel IHbr IHfs IHfe IHfl IHpr IHin IHgr IHgl IHpf IHfn IHal IHai :=
    repeat (cbv zeta beta;
      match goal with
      | H : decode_string_literal _ = OutOfFuel |- _ => exfalso; exact (decode_no_fuel _ H)
      | H : J0 ?s |- _ \/ pushed ?s = [] => right; exact (proj2 H)
      | H : cty ?s = T_INDEX |- is_ty T_INDEX (after_peek ?s) = true \/ _ => left; unfold is_ty, cty in *; rewrite cur_after_peek, H; reflexivity
      | |- fine _ (pbind (if negb (ttype_eqb (peek_ty ?x) _) then _ else _) _) => eapply (fine_bind (fun s1 => W (adv s1) + 1 <= W x)); [ | intros ? ? ? ? ]
      | |- fine _ (pbind _ _) => eapply fine_bind; [ | intros ? ? ? ? ]
      | |- fine _ (p_query _ _ _ _) => call IHquery; [ j0solve | unfold le in *; wsolve ]
      | |- fine _ (p_selectors _ _ _) => call IHsel; [ jsolve | unfold le in *; wsolve ]
      | |- fine _ (p_bracket_loop _ _ _) => call IHbr; [ j0solve | unfold le in *; wsolve ]
      | |- fine _ (p_filter_selector _ _ _) => call IHfs; [ jsolve | nesolve | unfold le in *; wsolve ]
      | |- fine _ (p_fexpr _ _ _ _) => call IHfe; [ jsolve | unfold le in *; wsolve ]
      | |- fine _ (p_fexpr_loop _ _ _ _ _) => call IHfl; [ jsolve | unfold le in *; wsolve ]
      | |- fine _ (p_primary _ _ _) => call IHpr; [ jsolve | unfold le in *; wsolve ]
      | |- fine _ (p_infix _ _ _ _) => call IHin; [ jsolve | unfold le in *; wsolve ]
      | |- fine _ (p_grouped _ _ _) => call IHgr; [ jsolve | nesolve | unfold le in *; wsolve ]
      | |- fine _ (p_grouped_loop _ _ _ _) => call IHgl; [ jsolve | unfold le in *; wsolve ]
      | |- fine _ (p_prefix _ _ _) => call IHpf; [ jsolve | nesolve | unfold le in *; wsolve ]
      | |- fine _ (p_function _ _ _) => call IHfn; [ jsolve | nesolve | unfold le in *; wsolve ]
      | |- fine _ (p_args_loop _ _ _) => call IHal; [ jsolve | unfold le in *; wsolve ]
      | |- fine _ (p_arg_infix_loop _ _ _ _) => call IHai; [ jsolve | unfold le in *; wsolve ]
      | |- fine ?P (p_slice _ _) => first [ is_evar P; apply fine_slice; [ jsolve | ] | eapply fine_weaken; [ | apply fine_slice ]; [ intros ? ? ?; unfold le in *; wsolve | jsolve | ] ]
      | |- fine ?P (p_literal _) => first [ is_evar P; apply fine_literal; jsolve | eapply fine_weaken; [ | apply fine_literal; jsolve ]; intros ? ? ?; unfold le in *; wsolve ]
      | |- fine _ (err_cur _ _) => exact I
      | |- fine _ (err_peek _ _) => exact I
      | |- fine _ (match ?x with _ => _ end) => first [is_var x; destruct x | destruct x eqn:?]
      | |- fine _ (if ?x then _ else _) => destruct x eqn:?
      | |- fine _ (let '(_, _) := ?x in _) => first [is_var x; destruct x | destruct x eqn:?]
      | |- fine _ (POk _ (if ?b then _ else _)) => destruct b eqn:?
      | |- fine _ (POk _ _) => leaf
      | |- fine _ (PErr _ _) => exact I
      | |- fine _ (PCrash _ _) => exact I
      end).
  repeat split.
  - intros inf s H Hf. rewrite p_query_S. pose proof (J0_J _ H). tgo IHquery IHsel IHbr IHfs IHfe IHfl IHpr IHin IHgr IHgl IHpf IHfn IHal IHai. 
  - intros s H Hf. rewrite p_selectors_S. tgo IHquery IHsel IHbr IHfs IHfe IHfl IHpr IHin IHgr IHgl IHpf IHfn IHal IHai.
  - intros s H Hf. rewrite p_bracket_loop_S. pose proof (J0_J _ H). tgo IHquery IHsel IHbr IHfs IHfe IHfl IHpr IHin IHgr IHgl IHpf IHfn IHal IHai.
  - intros s H Hn Hf. rewrite p_filter_selector_S. tgo IHquery IHsel IHbr IHfs IHfe IHfl IHpr IHin IHgr IHgl IHpf IHfn IHal IHai.
  - intros prec s H Hf. rewrite p_fexpr_S. destruct (negb (in_token_map (cty s))); [exact I|].
    assert (G : fine (le s) (p_primary cfg f s)) by (apply IHpr; [exact H | lia]).
    destruct (p_primary cfg f s) as [lhs s1|c off|x s1|]; cbn [fine] in G.
    + destruct G as [G1 G2]. tgo IHquery IHsel IHbr IHfs IHfe IHfl IHpr IHin IHgr IHgl IHpf IHfn IHal IHai.
    + exact I.
    + destruct x; exact I.
    + contradiction.
  - intros prec lhs s H Hf. rewrite p_fexpr_loop_S. tgo IHquery IHsel IHbr IHfs IHfe IHfl IHpr IHin IHgr IHgl IHpf IHfn IHal IHai.
  - intros s H Hf. rewrite p_primary_S. tgo IHquery IHsel IHbr IHfs IHfe IHfl IHpr IHin IHgr IHgl IHpf IHfn IHal IHai.
  - intros lhs s H Hf. rewrite p_infix_S. tgo IHquery IHsel IHbr IHfs IHfe IHfl IHpr IHin IHgr IHgl IHpf IHfn IHal IHai.
  - intros s H Hn Hf. rewrite p_grouped_S. tgo IHquery IHsel IHbr IHfs IHfe IHfl IHpr IHin IHgr IHgl IHpf IHfn IHal IHai.
  - intros e s H Hf. rewrite p_grouped_loop_S. tgo IHquery IHsel IHbr IHfs IHfe IHfl IHpr IHin IHgr IHgl IHpf IHfn IHal IHai.
  - intros s H Hn Hf. rewrite p_prefix_S. tgo IHquery IHsel IHbr IHfs IHfe IHfl IHpr IHin IHgr IHgl IHpf IHfn IHal IHai.
  - intros s H Hn Hf. rewrite p_function_S. tgo IHquery IHsel IHbr IHfs IHfe IHfl IHpr IHin IHgr IHgl IHpf IHfn IHal IHai.
  - intros s H Hf. rewrite p_args_loop_S. tgo IHquery IHsel IHbr IHfs IHfe IHfl IHpr IHin IHgr IHgl IHpf IHfn IHal IHai.
  - intros e s H Hf. rewrite p_arg_infix_loop_S. tgo IHquery IHsel IHbr IHfs IHfe IHfl IHpr IHin IHgr IHgl IHpf IHfn IHal IHai.
Qed.
End ParseTerm.

(* --- Parser.parse never runs out of fuel ---------------------------------------------------------------- *)
Lemma W_init toks : W (stream_init toks) <= length toks.
Proof.
  unfold stream_init, W. destruct toks as [|t r]; cbn [cur pushed rest wsum fold_right length]; [cbn; lia|].
  pose proof (wsum_le_length r). pose proof (wt_le1 t). unfold wsum in *. lia.
Qed.
Lemma J_init toks : J (stream_init toks).
Proof. unfold stream_init, J. destruct toks; cbn; split; auto. Qed.

Theorem parse_terminates cfg toks : p_parse cfg toks <> PFuel.
Proof.
  unfold p_parse. cbv zeta. destruct (negb (is_ty T_ROOT (stream_init toks))); [discriminate|].
  destruct (T_all cfg (parse_fuel toks)) as (Hq & _).
  pose proof (J_init toks) as HJ. pose proof (W_init toks) as HW. pose proof (W_adv' (stream_init toks)) as Ha.
  assert (G : fine (fun s' => W s' <= W (adv (stream_init toks)) + 0) (p_query cfg (parse_fuel toks) false (adv (stream_init toks)))).
  { apply Hq; [apply J0_adv; exact HJ | unfold parse_fuel; lia]. }
  destruct (p_query cfg (parse_fuel toks) false (adv (stream_init toks))) as [q s1|c1 o1|x s1|]; cbn [pbind fine] in *; try discriminate; [|contradiction].
  destruct (negb (is_ty T_EOF s1)); discriminate.
Qed.
