(* The lexer's patterns and escape set as lex.py builds them on this run (Gen/LexConst.v, regenerated) are the model's,
   up to the spelling of character classes and the order of the escape set: the same matcher results on every text. *)
From JP Require Import Base.Json Model.Regex Model.Tokens Model.Lex Gen.LexConst Proofs.RegexNorm.

Definition lex_tables_agree : Prop :=
  (forall s, re_match g_RE_WHITESPACE s = re_match RE_WHITESPACE s) /\
  (forall s, re_match g_RE_PROPERTY s = re_match RE_PROPERTY s) /\
  (forall s, re_match g_RE_INDEX s = re_match RE_INDEX s) /\
  (forall s, re_match g_RE_INT s = re_match RE_INT s) /\
  (forall s, re_match g_RE_FLOAT s = re_match RE_FLOAT s) /\
  (forall s, re_match g_RE_FUNCTION_NAME s = re_match RE_FUNCTION_NAME s) /\
  (forall c, existsb (N.eqb c) g_ESCAPES = existsb (N.eqb c) ESCAPES).

Lemma existsb_same (a b : list N) :
  forallb (fun x => existsb (N.eqb x) b) a = true -> forallb (fun x => existsb (N.eqb x) a) b = true ->
  forall c, existsb (N.eqb c) a = existsb (N.eqb c) b.
Proof.
  intros H1 H2 c. rewrite forallb_forall in H1, H2.
  destruct (existsb (N.eqb c) a) eqn:Ea.
  - apply existsb_exists in Ea as [x [Hx Ex]]. apply N.eqb_eq in Ex. subst x. symmetry. exact (H1 c Hx).
  - destruct (existsb (N.eqb c) b) eqn:Eb; [|reflexivity].
    apply existsb_exists in Eb as [x [Hx Ex]]. apply N.eqb_eq in Ex. subst x. rewrite (H2 c Hx) in Ea. discriminate.
Qed.

Theorem lex_tables_regenerated : lex_tables_agree.
Proof.
  unfold lex_tables_agree. repeat split; try (apply same_norm_same_match; vm_compute; reflexivity).
  apply existsb_same; vm_compute; reflexivity.
Qed.
