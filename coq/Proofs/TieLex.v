(* regenerated lexer constants = the model's (tools/pygen/gen_consts.py -> Gen/LexConst.v) *)
From JP Require Import Base.Json Model.Regex Model.Tokens Model.Lex Gen.LexConst.
Theorem lex_regexes_regenerated :
  g_RE_WHITESPACE = RE_WHITESPACE /\ g_RE_PROPERTY = RE_PROPERTY /\ g_RE_INDEX = RE_INDEX /\ g_RE_INT = RE_INT /\
  g_RE_FLOAT = RE_FLOAT /\ g_RE_FUNCTION_NAME = RE_FUNCTION_NAME /\ g_ESCAPES = ESCAPES.
Proof. repeat split; reflexivity. Qed.

