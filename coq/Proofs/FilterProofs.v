(* C02 / C10: the evaluator model refines the RFC filter semantics on well-typed expressions. *)
From JP Require Import Base.Json Model.Ast Model.Compare Model.Slice Model.Eval.
From JP Require Import Spec.Slice Spec.Compare Spec.Sem Spec.Types.
From JP Require Import Proofs.SliceProofs Proofs.AstInd Proofs.EvalProofs Proofs.CompareProofs.

(* --- selection only ever yields members: hereditary predicates are preserved ---------- *)
Section Hered.
  Variable P : json -> Prop.
  Hypothesis HP : hereditary P.

  Lemma children_P n c : P (snd n) -> In c (children n) -> P (snd c).
  Proof.
    intros Hn. unfold children. destruct (snd n) as [| | | | l | m] eqn:E; cbn [In]; try tauto; rewrite in_map_iff.
    - intros [p [<- Hp]]. cbn [snd]. apply (HP (JArr l)); [exact Hn|]. cbn [members]. eapply enum_from_in; exact Hp.
    - intros [[k x] [<- Hp]]. cbn [snd fst]. apply (HP (JObj m)); [exact Hn|]. cbn [members].
      apply in_map_iff. exists (k, x). split; [reflexivity | exact Hp].
  Qed.

  Lemma select_idx_P n l idxs c : snd n = JArr l -> P (snd n) -> In c (select_idx n l idxs) -> P (snd c).
  Proof.
    intros En Hn. unfold select_idx. rewrite in_flat_map. intros [i [_ Hi]].
    destruct (znth l i) as [x|] eqn:Ez; [|destruct Hi]. destruct Hi as [<-|[]]. cbn [child_at snd].
    apply (HP (JArr l)); [rewrite <- En; exact Hn|]. cbn [members]. eapply znth_in; exact Ez.
  Qed.

  Lemma descendants_P : forall v loc d, P v -> In d (descendants loc v) -> P (snd d).
  Proof.
    induction v as [| b | n | s | l IH | m IH] using json_ind'; intros loc d Hv; cbn [descendants In];
      try (intros [<-|[]]; exact Hv).
    - intros [<-|H]; [exact Hv|].
      assert (Hx : forall x, In x l -> P x) by (intros x Hx; apply (HP (JArr l)); [exact Hv | exact Hx]).
      clear Hv. revert H. generalize 0 as i.
      induction IH as [|x l Px _ IHl]; intros i; cbn [In]; [tauto|]. rewrite in_app_iff.
      intros [H|H]; [eapply Px; [apply Hx; left; reflexivity | exact H] |].
      eapply IHl; [|exact H]. intros y Hy. apply Hx. right. exact Hy.
    - intros [<-|H]; [exact Hv|].
      assert (Hx : forall k x, In (k, x) m -> P x).
      { intros k x Hx. apply (HP (JObj m)); [exact Hv|]. cbn [members]. apply in_map_iff. exists (k, x). split; [reflexivity|exact Hx]. }
      clear Hv. revert H.
      induction IH as [|[k x] m Px _ IHm]; cbn [In]; [tauto|]. rewrite in_app_iff. cbn [snd] in Px.
      intros [H|H]; [eapply Px; [apply (Hx k); left; reflexivity | exact H] |].
      eapply IHm; [|exact H]. intros k' y Hy. apply (Hx k'). right. exact Hy.
  Qed.

  Lemma s_sel_P rg rxf root s n c : P (snd n) -> In c (s_sel rg rxf root s n) -> P (snd c).
  Proof.
    intros Hn. destruct s as [k | i | a b c' | | e]; cbn [s_sel].
    - destruct (snd n) as [| | | | l | m] eqn:En; cbn [In]; try tauto.
      destruct (find_assoc k m) as [v|] eqn:Ef; cbn [In]; [|tauto].
      intros [<-|[]]. cbn [child_at snd]. apply (HP (JObj m)); [exact Hn|]. cbn [members].
      destruct (find_assoc_in _ _ _ Ef) as [k' Hk]. apply in_map_iff. exists (k', v). split; [reflexivity|exact Hk].
    - destruct (snd n) as [| | | | l | m] eqn:En; cbn [In]; try tauto.
      intros Hc. eapply select_idx_P; [exact En | rewrite En; exact Hn | exact Hc].
    - destruct (snd n) as [| | | | l | m] eqn:En; cbn [In]; try tauto.
      intros Hc. eapply select_idx_P; [exact En | rewrite En; exact Hn | exact Hc].
    - apply children_P. exact Hn.
    - intros Hc. apply filter_In in Hc as [Hc _]. eapply children_P; eassumption.
  Qed.

  Lemma sels_sem_P cfg root ss n c : P (snd n) -> In c (sels_sem cfg root ss n) -> P (snd c).
  Proof.
    intros Hn. unfold sels_sem. induction ss as [|s ss IH]; cbn [In]; [tauto|]. rewrite in_app_iff.
    intros [H|H]; [eapply s_sel_P; eassumption | apply IH; exact H].
  Qed.

  Lemma s_seg_P cfg root sg ns : Forall (fun n => P (snd n)) ns ->
    Forall (fun n => P (snd n)) (s_seg (reg cfg) (rx cfg) root sg ns).
  Proof.
    intros Hns. rewrite Forall_forall in *. destruct sg as [ss|ss]; cbn [s_seg]; intros c Hc;
      apply in_flat_map in Hc as [n [Hn Hc]].
    - eapply (sels_sem_P cfg root ss n); [apply Hns; exact Hn | exact Hc].
    - apply in_flat_map in Hc as [d [Hd Hc]].
      eapply (sels_sem_P cfg root ss d); [|exact Hc]. destruct n as [loc v]. cbn [fst snd] in *.
      eapply descendants_P; [|exact Hd]. apply (Hns (loc, v)). exact Hn.
  Qed.
End Hered.

(* --- typed refinement relation between model values and specification values ---------- *)
Definition nodes_wf (ns : list node) : Prop := Forall (fun n => wf_json (snd n) = true) ns.

Definition R (want : ty3) (o : pyobj) (s : sval) : Prop :=
  match want with
  | TValue => exists c, s = SV c /\ reaches c o /\ wf_c c = true
  | TLogical => as_bool s = m_is_truthy o
  | TNodes => exists ns, o = PNodes ns /\ s = SN ns /\ nodes_wf ns
  end.

(* arguments as the function body receives them, after _unpack_node_lists *)
Definition A (t : ty3) (u : pyobj) (s : sval) : Prop :=
  match t with
  | TValue => exists c, s = SV c /\ wf_c c = true /\
                        match c with Val v => u = PVal v | Nothing => u = PNothing end
  | TLogical => u = PVal (JBool (as_bool s))
  | TNodes => exists ns, u = PNodes ns /\ s = SN ns /\ nodes_wf ns
  end.

Inductive args_ok : list ty3 -> list pyobj -> list sval -> Prop :=
| AO_nil : args_ok [] [] []
| AO_cons t ts u us s ss : A t u s -> args_ok ts us ss -> args_ok (t :: ts) (u :: us) (s :: ss).

Lemma unpack_A t o s : R t o s ->
  A t (match t with
       | TLogical => PVal (JBool (m_is_truthy o))
       | TNodes => o
       | TValue => match o with PNodes [] => PNothing | PNodes [n] => PVal (snd n) | _ => o end
       end) s.
Proof.
  destruct t; cbn [R A].
  - intros [c [-> [Hr Hw]]]. exists c. split; [reflexivity|]. split; [exact Hw|]. destruct Hr; reflexivity.
  - intros ->. reflexivity.
  - intros H. exact H.
Qed.

(* declared signatures of the built-ins, and type-consistent test doubles *)
Definition decl_ok (d : fdecl) : bool :=
  match f_impl d with
  | FLength => match f_args d, f_ret d with [TValue], TValue => true | _, _ => false end
  | FCount | FValue => match f_args d, f_ret d with [TNodes], TValue => true | _, _ => false end
  | FMatch | FSearch => match f_args d, f_ret d with [TValue; TValue], TLogical => true | _, _ => false end
  | FConst p => match f_ret d, p with
                | TValue, PVal v => wf_json v
                | TValue, PNothing => true
                | TLogical, PVal (JBool _) => true
                | TNodes, PNodes [] => true
                | _, _ => false
                end
  | FFirst => match f_args d with t :: _ => ty3_eqb t (f_ret d) | [] => false end
  end.
Definition reg_ok (rg : registry) : bool := forallb (fun kd => decl_ok (snd kd)) rg.

Lemma reg_ok_find rg f d : reg_ok rg = true -> find_assoc f rg = Some d -> decl_ok d = true.
Proof.
  intros Hr Hf. destruct (find_assoc_in _ _ _ Hf) as [k Hk]. unfold reg_ok in Hr. rewrite forallb_forall in Hr.
  apply (Hr (k, d)). exact Hk.
Qed.

Lemma zlen_wf_c n : wf_c (Val (JNum (NInt n))) = true. Proof. reflexivity. Qed.

Lemma apply_ok cfg d us svs : decl_ok d = true -> args_ok (f_args d) us svs ->
  exists o, m_apply cfg d us = Ok o /\ R (f_ret d) o (fn_sem (rx cfg) d svs).
Proof.
  unfold decl_ok, m_apply, fn_sem. destruct d as [targs tret impl]. cbn [f_impl f_args f_ret].
  destruct impl as [| | | | | p |]; intros Hd Ha.
  - (* length *)
    destruct targs as [|[] [|]]; try discriminate; destruct tret; try discriminate.
    inversion Ha as [|t ts u us' s ss HA Hrest]; subst. inversion Hrest; subst. cbn [A] in HA.
    destruct HA as [c [-> [Hw Hu]]]. destruct c as [|v]; subst u.
    + eexists. split; [reflexivity|]. exists Nothing. repeat split. constructor.
    + destruct v; cbn [m_py_len]; eexists; (split; [reflexivity|]);
        first [ exists Nothing; repeat split; constructor | eexists; repeat split; constructor ].
  - (* count *)
    destruct targs as [|[] [|]]; try discriminate; destruct tret; try discriminate.
    inversion Ha as [|t ts u us' s ss HA Hrest]; subst. inversion Hrest; subst. cbn [A] in HA.
    destruct HA as [ns [-> [-> Hw]]]. cbn [m_py_len]. eexists. split; [reflexivity|].
    eexists. repeat split. constructor.
  - (* value *)
    destruct targs as [|[] [|]]; try discriminate; destruct tret; try discriminate.
    inversion Ha as [|t ts u us' s ss HA Hrest]; subst. inversion Hrest; subst. cbn [A] in HA.
    destruct HA as [ns [-> [-> Hw]]]. destruct ns as [|n [|n' ns]].
    + eexists. split; [reflexivity|]. exists Nothing. repeat split. constructor.
    + eexists. split; [reflexivity|]. exists (Val (snd n)). repeat split; [constructor|].
      inversion Hw; subst. assumption.
    + eexists. split; [reflexivity|]. exists Nothing. repeat split. constructor.
  - (* match *)
    destruct targs as [|[] [|[] [|]]]; try discriminate; destruct tret; try discriminate.
    inversion Ha as [|t ts u us' s ss HA Hrest]; subst. inversion Hrest as [|t2 ts2 u2 us2 s2 ss2 HA2 Hrest2]; subst.
    inversion Hrest2; subst. cbn [A] in HA, HA2.
    destruct HA as [c [-> [_ Hu]]]. destruct HA2 as [c2 [-> [_ Hu2]]].
    destruct c as [|v]; subst u; [eexists; split; [reflexivity|]; destruct c2 as [|[]]; reflexivity|].
    destruct c2 as [|v2]; subst u2; [eexists; split; [destruct v; reflexivity|]; destruct v; reflexivity|].
    destruct v; try (eexists; split; [reflexivity|]; destruct v2; reflexivity).
    destruct v2; eexists; (split; [reflexivity|]); cbn [R as_bool m_is_truthy py_bool]; reflexivity.
  - (* search *)
    destruct targs as [|[] [|[] [|]]]; try discriminate; destruct tret; try discriminate.
    inversion Ha as [|t ts u us' s ss HA Hrest]; subst. inversion Hrest as [|t2 ts2 u2 us2 s2 ss2 HA2 Hrest2]; subst.
    inversion Hrest2; subst. cbn [A] in HA, HA2.
    destruct HA as [c [-> [_ Hu]]]. destruct HA2 as [c2 [-> [_ Hu2]]].
    destruct c as [|v]; subst u; [eexists; split; [reflexivity|]; destruct c2 as [|[]]; reflexivity|].
    destruct c2 as [|v2]; subst u2; [eexists; split; [destruct v; reflexivity|]; destruct v; reflexivity|].
    destruct v; try (eexists; split; [reflexivity|]; destruct v2; reflexivity).
    destruct v2; eexists; (split; [reflexivity|]); cbn [R as_bool m_is_truthy py_bool]; reflexivity.
  - (* constant double *)
    exists p. split; [reflexivity|].
    destruct tret, p as [v|ns|]; try discriminate; cbn [R sval_of_pyobj].
    + exists (Val v). repeat split; [constructor | exact Hd].
    + exists Nothing. repeat split. constructor.
    + destruct v; try discriminate. reflexivity.
    + destruct ns; try discriminate. exists []. repeat split. constructor.
  - (* echo double *)
    destruct targs as [|t ts]; try discriminate.
    inversion Ha as [|t' ts' u us' s ss HA Hrest]; subst. exists u. split; [reflexivity|].
    assert (t = tret) by (destruct t, tret; try discriminate; reflexivity). subst tret.
    destruct t; cbn [A R] in *.
    + destruct HA as [c [-> [Hw Hu]]]. exists c. repeat split; [|exact Hw]. destruct c; subst u; constructor.
    + subst u. destruct (as_bool s); reflexivity.
    + exact HA.
Qed.

Lemma R_coerce want ret o s : ret_ok want ret = true -> R ret o s -> R want o (coerce want ret s).
Proof.
  destruct want, ret; try discriminate; intros _ H; try exact H.
  cbn [R coerce] in *. destruct H as [ns [-> [-> _]]]. destruct ns; reflexivity.
Qed.

Lemma singular_seg_le1 cfg root sg ns : singular_seg sg = true -> (length ns <= 1)%nat ->
  (length (s_seg (reg cfg) (rx cfg) root sg ns) <= 1)%nat.
Proof.
  intros Hs Hl. destruct ns as [|n [|n' ns]]; cbn [length] in Hl; try lia.
  - destruct sg; cbn; lia.
  - destruct sg as [ss|ss]; try discriminate. destruct ss as [|s ss]; try discriminate.
    destruct s as [k|i| | |]; try discriminate; destruct ss; try discriminate; cbn [s_seg flat_map s_sel]; rewrite !app_nil_r.
    + destruct (snd n); cbn [length]; try lia. destruct (find_assoc k m); cbn [length]; lia.
    + destruct (snd n); cbn [length]; try lia. unfold select_idx, rfc_index.
      destruct ((0 <=? normalize i (zlen l)) && (normalize i (zlen l) <? zlen l)); cbn [flat_map length]; [|lia].
      destruct (znth l (normalize i (zlen l))); cbn [length app]; lia.
Qed.

Lemma singular_le1 cfg root q : forall ns, singular q = true -> (length ns <= 1)%nat ->
  (length (s_segs (reg cfg) (rx cfg) root q ns) <= 1)%nat.
Proof.
  unfold s_segs. induction q as [|sg q IH]; intros ns Hs Hl; cbn [run_segs_s]; [exact Hl|].
  cbn [singular forallb] in Hs. apply andb_true_iff in Hs as [H1 H2].
  apply IH; [exact H2|]. apply singular_seg_le1; assumption.
Qed.

Lemma filter_loop (F : node -> result pyobj) (p : node -> bool) cs :
  (forall c, In c cs -> exists o, F c = Ok o /\ p c = m_is_truthy o) ->
  (fix go (cs : list node) : result (list node) :=
     match cs with
     | [] => Ok []
     | c :: cs' => do o <- F c; do r <- go cs'; Ok (if m_is_truthy o then c :: r else r)
     end) cs = Ok (filter p cs).
Proof.
  induction cs as [|c cs IH]; intros H; [reflexivity|].
  destruct (H c (or_introl eq_refl)) as [o [Eo Ep]]. rewrite Eo. cbn [bind].
  rewrite IH by (intros c' Hc'; apply H; right; exact Hc'). cbn [bind filter]. rewrite Ep. reflexivity.
Qed.

Section Main.
  Variable cfg : envcfg.
  Notation rg := (reg cfg).
  Notation rxf := (rx cfg).
  Notation N := (max_depth cfg).
  Hypothesis Hreg : reg_ok rg = true.
  Hypothesis HN : (1 <= N)%nat.

  Definition good (v : json) : Prop := (nesting v <= N)%nat /\ wf_json v = true.
  Lemma good_hered : hereditary good.
  Proof. apply hereditary_and; [apply hereditary_nesting | apply hereditary_wf]. Qed.
  Definition goods (ns : list node) : Prop := Forall (fun n => good (snd n)) ns.

  Definition m_args root cur (args : list expr) : result (list pyobj) :=
    (fix go (args : list expr) : result (list pyobj) :=
       match args with
       | [] => Ok []
       | a :: args' => do x <- m_expr cfg root cur a; do r <- go args'; Ok (x :: r)
       end) args.
  Definition s_args root cur (tys : list ty3) (args : list expr) : list sval :=
    (fix go (tys : list ty3) (args : list expr) {struct args} : list sval :=
       match args with
       | [] => []
       | a :: args' => match tys with [] => [] | t :: tys' => s_expr rg rxf t root cur a :: go tys' args' end
       end) tys args.
  Definition wt_args (tys : list ty3) (args : list expr) : bool :=
    (fix go (tys : list ty3) (args : list expr) {struct args} : bool :=
       match args with
       | [] => match tys with [] => true | _ => false end
       | a :: args' => match tys with [] => false | t :: tys' => wt_expr rg t a && go tys' args' end
       end) tys args.
  Definition wt_segs (q : list seg) : bool :=
    (fix go (q : list seg) : bool := match q with [] => true | sg :: q' => wt_seg rg sg && go q' end) q.
  Definition wt_sels (ss : list sel) : bool :=
    (fix go (ss : list sel) : bool := match ss with [] => true | s :: ss' => wt_sel rg s && go ss' end) ss.

  Lemma fix_segs_run (F : seg -> list node -> result (list node)) q ns :
    (fix segs (q : list seg) (ns : list node) : result (list node) :=
       match q with [] => Ok ns | sg :: q' => do ns' <- F sg ns; segs q' ns' end) q ns = run_segs F q ns.
  Proof. revert ns. induction q as [|sg q IH]; intros ns; [reflexivity|]. cbn [run_segs]. destruct (F sg ns); cbn [bind]; auto. Qed.
  Lemma fix_segs_run_s (F : seg -> list node -> list node) q ns :
    (fix segs (q : list seg) (ns : list node) : list node :=
       match q with [] => ns | sg :: q' => segs q' (F sg ns) end) q ns = run_segs_s F q ns.
  Proof. revert ns. induction q as [|sg q IH]; intros ns; [reflexivity|]. cbn [run_segs_s]. apply IH. Qed.

  Lemma m_expr_rel root cur q :
    m_expr cfg root cur (ERel q) = (do ns <- m_segs cfg root q [([], cur)]; Ok (PNodes ns)).
  Proof. cbn [m_expr]. rewrite (fix_segs_run (m_seg cfg root)). reflexivity. Qed.
  Lemma m_expr_abs root cur q :
    m_expr cfg root cur (EAbs q) = (do ns <- m_segs cfg root q [([], root)]; Ok (PNodes ns)).
  Proof. cbn [m_expr]. rewrite (fix_segs_run (m_seg cfg root)). reflexivity. Qed.
  Lemma s_expr_rel want root cur q :
    s_expr rg rxf want root cur (ERel q) = conv_nodes want (s_segs rg rxf root q [([], cur)]).
  Proof. cbn [s_expr]. rewrite (fix_segs_run_s (s_seg rg rxf root)). reflexivity. Qed.
  Lemma s_expr_abs want root cur q :
    s_expr rg rxf want root cur (EAbs q) = conv_nodes want (s_segs rg rxf root q [([], root)]).
  Proof. cbn [s_expr]. rewrite (fix_segs_run_s (s_seg rg rxf root)). reflexivity. Qed.

  Definition Ps (s : sel) : Prop := wt_sel rg s = true -> forall root n, good root -> good (snd n) ->
    m_sel cfg root s n = Ok (s_sel rg rxf root s n).
  Definition Pe (e : expr) : Prop := forall want root cur, wt_expr rg want e = true -> good root -> good cur ->
    exists o, m_expr cfg root cur e = Ok o /\ R want o (s_expr rg rxf want root cur e).
  Definition Pg (g : seg) : Prop := wt_seg rg g = true -> forall root ns, good root -> goods ns ->
    m_seg cfg root g ns = Ok (s_seg rg rxf root g ns).

  Lemma goods_seg root sg ns : goods ns -> goods (s_seg rg rxf root sg ns).
  Proof. apply (s_seg_P good good_hered cfg). Qed.

  Lemma segs_ok root q : Forall Pg q -> wt_segs q = true -> good root -> forall ns, goods ns ->
    m_segs cfg root q ns = Ok (s_segs rg rxf root q ns) /\ goods (s_segs rg rxf root q ns).
  Proof.
    unfold m_segs, s_segs. intros HF. induction HF as [|sg q Hsg _ IH]; intros Hwt Hr ns Hns; cbn [run_segs run_segs_s]; [split; [reflexivity|exact Hns]|].
    cbn [wt_segs] in Hwt. apply andb_true_iff in Hwt as [H1 H2].
    rewrite (Hsg H1 root ns Hr Hns). cbn [bind]. apply IH; [exact H2 | exact Hr | apply goods_seg; exact Hns].
  Qed.

  Lemma query_R want root start q : Forall Pg q -> wt_segs q = true ->
    match want with TValue => singular q | _ => true end = true ->
    good root -> good start ->
    exists ns, m_segs cfg root q [([], start)] = Ok ns /\ R want (PNodes ns) (conv_nodes want ns)
               /\ ns = s_segs rg rxf root q [([], start)].
  Proof.
    intros HF Hwt Hs Hr Hst.
    destruct (segs_ok root q HF Hwt Hr [([], start)]) as [E Hg]; [constructor; [exact Hst|constructor]|].
    eexists. split; [exact E|]. split; [|reflexivity].
    set (ns := s_segs rg rxf root q [([], start)]) in *.
    assert (Hwf : nodes_wf ns).
    { unfold nodes_wf, goods in *. eapply Forall_impl; [|exact Hg]. cbn. intros n [_ H]. exact H. }
    destruct want; cbn [R conv_nodes].
    - pose proof (singular_le1 cfg root q [([], start)] Hs ltac:(cbn; lia)) as Hl. fold ns in Hl.
      destruct ns as [|[loc v] [|n' ns']]; cbn [length] in Hl; try lia.
      + exists Nothing. repeat split. constructor.
      + exists (Val v). repeat split; [constructor|]. inversion Hwf; subst. assumption.
    - destruct ns; reflexivity.
    - exists ns. repeat split. exact Hwf.
  Qed.

  Lemma args_ok_eval root cur args : Forall Pe args -> forall tys, wt_args tys args = true -> good root -> good cur ->
    exists vs us, m_args root cur args = Ok vs /\ m_unpack tys vs = Ok us /\ args_ok tys us (s_args root cur tys args).
  Proof.
    intros HF. induction HF as [|a args Ha _ IH]; intros tys Hwt Hr Hc.
    - destruct tys; [|discriminate]. exists [], []. repeat split. constructor.
    - destruct tys as [|t tys]; [discriminate|]. cbn [wt_args] in Hwt. apply andb_true_iff in Hwt as [H1 H2].
      destruct (Ha t root cur H1 Hr Hc) as [o [Eo Ro]].
      destruct (IH tys H2 Hr Hc) as [vs [us [Evs [Eus Hok]]]].
      exists (o :: vs). eexists. cbn [m_args]. fold (m_args root cur args). rewrite Eo. cbn [bind]. rewrite Evs. cbn [bind].
      split; [reflexivity|]. cbn [m_unpack]. rewrite Eus. cbn [bind]. split; [reflexivity|].
      cbn [s_args]. fold (s_args root cur tys args). constructor; [|exact Hok]. apply unpack_A. exact Ro.
  Qed.

  Lemma sels_ok root ss n : Forall Ps ss -> wt_sels ss = true -> good root -> good (snd n) ->
    (fix go (ss : list sel) : result (list node) :=
       match ss with
       | [] => Ok []
       | s :: ss' => do a <- m_sel cfg root s n; do b <- go ss'; Ok (a ++ b)
       end) ss = Ok (sels_sem cfg root ss n).
  Proof.
    intros HF. induction HF as [|s ss Hs _ IH]; intros Hwt Hr Hn; [reflexivity|].
    cbn [wt_sels] in Hwt. apply andb_true_iff in Hwt as [H1 H2].
    rewrite (Hs H1 root n Hr Hn). cbn [bind]. rewrite (IH H2 Hr Hn). reflexivity.
  Qed.

  Lemma s_sel_scalar_any root s n : isc n = false -> s_sel rg rxf root s n = [].
  Proof.
    unfold isc. destruct n as [loc v]. cbn [snd]. intros Hc. destruct s; cbn [s_sel snd]; destruct v; try discriminate; reflexivity.
  Qed.
  Lemma sels_sem_scalar_any root ss n : isc n = false -> sels_sem cfg root ss n = [].
  Proof.
    intros Hc. unfold sels_sem. induction ss as [|s ss IH]; [reflexivity|]. rewrite s_sel_scalar_any by exact Hc. exact IH.
  Qed.

  Theorem refine_all : (forall s, Ps s) /\ (forall e, Pe e) /\ (forall g, Pg g).
  Proof.
    apply ast_ind; unfold Ps, Pe, Pg.
    - intros k _ root n _ _. apply m_sel_ff. reflexivity.
    - intros i _ root n _ _. apply m_sel_ff. reflexivity.
    - intros a b c _ root n _ _. apply m_sel_ff. reflexivity.
    - intros _ root n _ _. apply m_sel_ff. reflexivity.
    - (* filter selector *)
      intros e IHe Hwt root n Hr Hn. cbn [wt_sel] in Hwt. cbn [m_sel s_sel].
      apply (filter_loop (fun c => m_expr cfg root (snd c) e)
                         (fun c => as_bool (s_expr rg rxf TLogical root (snd c) e))).
      intros c Hc. assert (Hg : good (snd c)) by (eapply (children_P good good_hered); eassumption).
      destruct (IHe TLogical root (snd c) Hwt Hr Hg) as [o [Eo Ro]]. exists o. split; [exact Eo | exact Ro].
    - (* literal *)
      intros v want root cur Hwt _ _. destruct want; try discriminate. cbn [wt_expr] in Hwt.
      exists (PVal v). split; [reflexivity|]. exists (Val v). repeat split; [constructor|].
      cbn [wf_c]. destruct v; try discriminate; reflexivity.
    - (* relative query *)
      intros q HF want root cur Hwt Hr Hc. cbn [wt_expr] in Hwt. apply andb_true_iff in Hwt as [H1 H2].
      destruct (query_R want root cur q HF H1 H2 Hr Hc) as [ns [E [HR Ens]]].
      exists (PNodes ns). rewrite m_expr_rel, E, s_expr_rel, <- Ens. split; [reflexivity|exact HR].
    - (* absolute query *)
      intros q HF want root cur Hwt Hr Hc. cbn [wt_expr] in Hwt. apply andb_true_iff in Hwt as [H1 H2].
      destruct (query_R want root root q HF H1 H2 Hr Hr) as [ns [E [HR Ens]]].
      exists (PNodes ns). rewrite m_expr_abs, E, s_expr_abs, <- Ens. split; [reflexivity|exact HR].
    - (* function call *)
      intros f args HF want root cur Hwt Hr Hc. cbn [wt_expr] in Hwt.
      change (m_expr cfg root cur (ECall f args)) with
        (match find_assoc f rg with
         | None => Ok PNothing
         | Some d => do vs <- m_args root cur args; do us <- m_unpack (f_args d) vs; m_apply cfg d us
         end).
      change (s_expr rg rxf want root cur (ECall f args)) with
        (match find_assoc f rg with
         | None => SV Nothing
         | Some d => coerce want (f_ret d) (fn_sem rxf d (s_args root cur (f_args d) args))
         end).
      destruct (find_assoc f rg) as [d|] eqn:Ef; [|discriminate].
      apply andb_true_iff in Hwt as [Hret Hargs].
      destruct (args_ok_eval root cur args HF (f_args d) Hargs Hr Hc) as [vs [us [Evs [Eus Hok]]]].
      rewrite Evs. cbn [bind]. rewrite Eus. cbn [bind].
      destruct (apply_ok cfg d us _ (reg_ok_find _ _ _ Hreg Ef) Hok) as [o [Eo Ro]].
      exists o. split; [exact Eo|]. apply R_coerce; assumption.
    - (* not *)
      intros a IHa want root cur Hwt Hr Hc. cbn [wt_expr] in Hwt. apply andb_true_iff in Hwt as [Hl Ha].
      destruct want; try discriminate. destruct (IHa TLogical root cur Ha Hr Hc) as [o [Eo Ro]].
      cbn [m_expr s_expr]. rewrite Eo. cbn [bind]. eexists. split; [reflexivity|]. cbn [R] in *. rewrite Ro.
      destruct (m_is_truthy o); reflexivity.
    - (* and *)
      intros a b IHa IHb want root cur Hwt Hr Hc. cbn [wt_expr] in Hwt.
      apply andb_true_iff in Hwt as [Hwt Hb]. apply andb_true_iff in Hwt as [Hl Ha].
      destruct want; try discriminate. destruct (IHa TLogical root cur Ha Hr Hc) as [x [Ex Rx]].
      destruct (IHb TLogical root cur Hb Hr Hc) as [y [Ey Ry]].
      cbn [m_expr s_expr]. rewrite Ex. cbn [bind]. rewrite Ey. cbn [bind]. eexists. split; [reflexivity|].
      cbn [R] in *. rewrite Rx, Ry. destruct (m_is_truthy x), (m_is_truthy y); reflexivity.
    - (* or *)
      intros a b IHa IHb want root cur Hwt Hr Hc. cbn [wt_expr] in Hwt.
      apply andb_true_iff in Hwt as [Hwt Hb]. apply andb_true_iff in Hwt as [Hl Ha].
      destruct want; try discriminate. destruct (IHa TLogical root cur Ha Hr Hc) as [x [Ex Rx]].
      destruct (IHb TLogical root cur Hb Hr Hc) as [y [Ey Ry]].
      cbn [m_expr s_expr]. rewrite Ex. cbn [bind]. rewrite Ey. cbn [bind]. eexists. split; [reflexivity|].
      cbn [R] in *. rewrite Rx, Ry. destruct (m_is_truthy x), (m_is_truthy y); reflexivity.
    - (* comparison *)
      intros o a b IHa IHb want root cur Hwt Hr Hc. cbn [wt_expr] in Hwt.
      apply andb_true_iff in Hwt as [Hwt Hb]. apply andb_true_iff in Hwt as [Hl Ha].
      destruct want; try discriminate. destruct (IHa TValue root cur Ha Hr Hc) as [x [Ex [ca [Esa [Rca Wa]]]]].
      destruct (IHb TValue root cur Hb Hr Hc) as [y [Ey [cb [Esb [Rcb Wb]]]]].
      cbn [m_expr s_expr]. rewrite Ex. cbn [bind]. rewrite Ey. cbn [bind]. eexists. split; [reflexivity|].
      cbn [R]. rewrite Esa, Esb. cbn [as_val as_bool].
      rewrite (compare_table o ca cb x y Wa Wb Rca Rcb). destruct (cmp o ca cb); reflexivity.
    - (* child segment *)
      intros ss HF Hwt root ns Hr Hns. cbn [wt_seg] in Hwt. cbn [m_seg s_seg].
      apply flat_mapM_ok. intros n Hn. unfold goods in Hns. rewrite Forall_forall in Hns.
      apply sels_ok; [exact HF | exact Hwt | exact Hr | apply Hns; exact Hn].
    - (* descendant segment *)
      intros ss HF Hwt root ns Hr Hns. cbn [wt_seg] in Hwt. cbn [m_seg s_seg].
      apply flat_mapM_ok. intros n Hn. unfold goods in Hns. rewrite Forall_forall in Hns. specialize (Hns n Hn).
      destruct Hns as [Hnest Hwf].
      rewrite visit_spec by lia. cbn [bind]. destruct n as [loc v]. cbn [fst snd] in *.
      rewrite (flat_mapM_ok _ (sels_sem cfg root ss)).
      + f_equal. replace (descendants loc v) with ((loc, v) :: tl (descendants loc v)) at 2 by (destruct v; reflexivity).
        cbn [flat_map]. f_equal. apply flat_map_filter_nil. intros x Hx. apply sels_sem_scalar_any. exact Hx.
      + intros d Hd. apply sels_ok; [exact HF | exact Hwt | exact Hr |].
        assert (Hd' : In d (descendants loc v)).
        { replace (descendants loc v) with ((loc, v) :: tl (descendants loc v)) by (destruct v; reflexivity).
          destruct Hd as [<-|Hd]; [left; reflexivity|]. right. apply filter_In in Hd as [Hd _]. exact Hd. }
        eapply (descendants_P good good_hered); [|exact Hd']. split; assumption.
  Qed.

  (* FilterSelector.resolve selects exactly the children whose RFC logical value is true *)
  Theorem filter_selects e root n : wt_expr rg TLogical e = true -> good root -> good (snd n) ->
    m_sel cfg root (SFilter e) n
    = Ok (filter (fun c => as_bool (s_expr rg rxf TLogical root (snd c) e)) (children n)).
  Proof. intros Hwt Hr Hn. destruct refine_all as [Hs _]. apply (Hs (SFilter e)); assumption. Qed.

  Theorem find_well_typed q v : wt_query rg q = true -> good v -> m_find cfg q v = Ok (sem rg rxf q v).
  Proof.
    intros Hwt Hv. unfold m_find, sem. destruct refine_all as [_ [_ Hg]].
    apply segs_ok; [rewrite Forall_forall; intros g _; apply Hg | | exact Hv | constructor; [exact Hv|constructor]].
    unfold wt_query in Hwt. induction q as [|g q IH]; [reflexivity|]. cbn [forallb] in Hwt. cbn [wt_segs].
    apply andb_true_iff in Hwt as [H1 H2]. rewrite H1. apply IH. exact H2.
  Qed.

  Theorem expr_refines e want root cur : wt_expr rg want e = true -> good root -> good cur ->
    exists o, m_expr cfg root cur e = Ok o /\ R want o (s_expr rg rxf want root cur e).
  Proof. destruct refine_all as [_ [He _]]. apply He. Qed.
End Main.
