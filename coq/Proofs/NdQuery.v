(* C17 for whole queries: whatever the scripts of random choices, the nodelist find() returns in nondeterministic mode
   (Model/NdEval.v) is one RFC 9535 permits (Spec/NondetQ.v nd_permitted); conversely every permitted nodelist is returned
   for some supply of scripts. *)
From JP Require Import Base.Json Model.Ast Model.Eval Model.NdVisit Model.NdEval Spec.Sem Spec.Types Spec.Nondet Spec.NondetQ.
From JP Require Import Proofs.AstInd Proofs.EvalProofs Proofs.FilterProofs Proofs.NdSpec Proofs.NdSim.
From Coq Require Import Permutation Lia.

(* the traversal from any node (not only the root of the value): a valid order, every descendant once *)
Theorem nd_visit_valid_at limit script loc v ns : wf_json v = true -> nd_visit limit script (loc, v) = Ok ns ->
  valid_order (loc, v) (map fst ns) = true /\ Permutation ns (descendants loc v).
Proof.
  intros Hw E. pose proof (nd_visit_reach limit script (loc, v)) as H. rewrite E in H. destruct H as (o & -> & Hr). split.
  - apply reach_valid; assumption.
  - rewrite descendants_unfold. apply perm_skip. pose proof (reach_nodes o _ Hr) as P. rewrite concat_queues_of in P. exact P.
Qed.

Section Valid.
  Variable cfg : envcfg.
  Notation rg := (reg cfg).
  Notation rxf := (rx cfg).
  Hypothesis Hreg : reg_ok rg = true.
  Hypothesis HN : (1 <= max_depth cfg)%nat.
  Notation good := (good cfg).
  Notation goods := (goods cfg).

  Lemma goods_iff ns : goods ns <-> forall c, In c ns -> good (snd c).
  Proof. unfold FilterProofs.goods. apply Forall_forall. Qed.

  Lemma nd_children_order sup n : kids_order n (fst (nd_children sup n)).
  Proof.
    unfold kids_order, nd_children. destruct (snd n); try reflexivity. destruct (take_sub sup) as [s r]. cbn [fst].
    apply Permutation_sym. apply shuffle_perm.
  Qed.
  Lemma kids_order_in n cs c : kids_order n cs -> In c cs -> In c (children n).
  Proof. unfold kids_order. destruct (snd n); intros H Hc; try (subst cs; exact Hc); eapply Permutation_in; eassumption. Qed.
  Lemma kids_order_good n cs : good (snd n) -> kids_order n cs -> goods cs.
  Proof.
    intros Hg Hk. apply goods_iff. intros c Hc. eapply (children_P good (good_hered cfg)); [exact Hg | eapply kids_order_in; eassumption].
  Qed.

  Lemma filter_list_ok root e cs : wt_expr rg TLogical e = true -> good root -> goods cs ->
    m_filter_list cfg root e cs = Ok (filter (fun c => as_bool (s_expr rg rxf TLogical root (snd c) e)) cs).
  Proof.
    intros Hwt Hr Hcs. unfold m_filter_list.
    apply (filter_loop (fun c => m_expr cfg root (snd c) e) (fun c => as_bool (s_expr rg rxf TLogical root (snd c) e))).
    intros c Hc. rewrite goods_iff in Hcs.
    destruct (expr_refines cfg Hreg HN e TLogical root (snd c) Hwt Hr (Hcs c Hc)) as [o [Eo Ro]]. exists o. split; [exact Eo | exact Ro].
  Qed.

  Lemma nd_sel_valid root sup s n r sup' : wt_sel rg s = true -> good root -> good (snd n) ->
    NdEval.nd_sel cfg root sup s n = Ok (r, sup') -> NondetQ.nd_sel rg rxf root n s r /\ goods r.
  Proof.
    intros Hwt Hr Hn E.
    assert (Hdet : forall s0, s0 = s -> (do r0 <- m_sel cfg root s0 n; Ok (r0, sup)) = Ok (r, sup') -> r = s_sel rg rxf root s0 n /\ goods r).
    { intros s0 -> E0. destruct (refine_all cfg Hreg HN) as [Hs _]. rewrite (Hs s Hwt root n Hr Hn) in E0. cbn [bind] in E0. inversion E0; subst. split; [reflexivity|].
      apply goods_iff. intros c Hc. eapply (s_sel_P good (good_hered cfg)); eassumption. }
    destruct s as [k | i | a b c | | e]; cbn [NdEval.nd_sel NondetQ.nd_sel] in *; try (apply (Hdet _ eq_refl E)).
    - inversion E; subst. pose proof (nd_children_order sup n) as Hk. rewrite H0 in Hk. cbn [fst] in Hk. split; [exact Hk | eapply kids_order_good; eassumption].
    - pose proof (nd_children_order sup n) as Hk. destruct (nd_children sup n) as [cs sup1]. cbn [fst] in Hk.
      pose proof (kids_order_good n cs Hn Hk) as Hcs. rewrite (filter_list_ok root e cs Hwt Hr Hcs) in E. cbn [bind] in E. inversion E; subst. split.
      + exists cs. split; [exact Hk | reflexivity].
      + apply goods_iff. intros c Hc. apply filter_In in Hc as [Hc _]. rewrite goods_iff in Hcs. exact (Hcs c Hc).
  Qed.

  Lemma goods_app a b : goods a -> goods b -> goods (a ++ b).
  Proof. unfold FilterProofs.goods. intros; apply Forall_app; split; assumption. Qed.

  Lemma nd_sels_valid root ss : wt_sels cfg ss = true -> good root -> forall sup n r sup', good (snd n) ->
    NdEval.nd_sels cfg root sup ss n = Ok (r, sup') -> NondetQ.nd_sels rg rxf root ss n r /\ goods r.
  Proof.
    intros Hwt Hr. induction ss as [|s ss IH]; intros sup n r sup' Hn E; cbn [NdEval.nd_sels] in E.
    - inversion E; subst. split; constructor.
    - cbn [wt_sels] in Hwt. apply andb_true_iff in Hwt as [H1 H2].
      destruct (NdEval.nd_sel cfg root sup s n) as [[r1 sup1]| | |] eqn:E1; try discriminate E. cbn [bind fst snd] in E.
      destruct (NdEval.nd_sels cfg root sup1 ss n) as [[r2 sup2]| | |] eqn:E2; try discriminate E. cbn [bind fst snd] in E. inversion E; subst.
      destruct (nd_sel_valid root sup s n r1 sup1 H1 Hr Hn E1) as [A1 G1]. destruct (IH H2 sup1 n r2 sup' Hn E2) as [A2 G2].
      split; [constructor; assumption | apply goods_app; assumption].
  Qed.

  (* the loop over nodes, for any per-node step that meets its specification *)
  Lemma nd_nodes_valid (F : supply -> node -> result (list node * supply)) (P : node -> list node -> Prop) :
    (forall sup n r sup', good (snd n) -> F sup n = Ok (r, sup') -> P n r /\ goods r) ->
    forall ns sup r sup', goods ns -> nd_nodes F sup ns = Ok (r, sup') -> nd_each P ns r /\ goods r.
  Proof.
    intros HF. induction ns as [|n ns IH]; intros sup r sup' Hns E; cbn [nd_nodes] in E.
    - inversion E; subst. split; constructor.
    - inversion Hns as [|? ? Hn Hns']; subst.
      destruct (F sup n) as [[r1 sup1]| | |] eqn:E1; try discriminate E. cbn [bind fst snd] in E.
      destruct (nd_nodes F sup1 ns) as [[r2 sup2]| | |] eqn:E2; try discriminate E. cbn [bind fst snd] in E. inversion E; subst.
      destruct (HF sup n r1 sup1 Hn E1) as [A1 G1]. destruct (IH sup1 r2 sup' Hns' E2) as [A2 G2].
      split; [constructor; assumption | apply goods_app; assumption].
  Qed.

  Lemma nd_seg_valid root sg : wt_seg rg sg = true -> good root -> forall sup ns r sup', goods ns ->
    NdEval.nd_seg cfg root sup sg ns = Ok (r, sup') -> NondetQ.nd_seg rg rxf root sg ns r /\ goods r.
  Proof.
    intros Hwt Hr sup ns r sup' Hns E. destruct sg as [ss | ss]; cbn [NdEval.nd_seg NondetQ.nd_seg] in *.
    - apply (nd_nodes_valid (fun sup n => NdEval.nd_sels cfg root sup ss n) (NondetQ.nd_sels rg rxf root ss)) with (sup := sup) (sup' := sup'); [|exact Hns | exact E].
      intros sup0 n r0 sup0' Hn E0. apply (nd_sels_valid root ss Hwt Hr sup0 n r0 sup0' Hn E0).
    - refine (nd_nodes_valid _ (fun n r => exists o, Permutation o (descendants (fst n) (snd n)) /\ valid_order n (map fst o) = true /\ nd_each (NondetQ.nd_sels rg rxf root ss) o r) _ ns sup r sup' Hns E).
      intros sup0 n r0 sup0' Hn E0. destruct (take_sub sup0) as [s sup1].
      destruct (nd_visit (max_depth cfg) s n) as [vs| | |] eqn:Ev; try discriminate E0. cbn [bind] in E0.
      destruct n as [loc v]. destruct (nd_visit_valid_at _ _ loc v vs (proj2 Hn) Ev) as [Hval Hperm].
      assert (Hvs : goods vs).
      { apply goods_iff. intros d Hd. eapply (descendants_P good (good_hered cfg)); [exact Hn | eapply Permutation_in; [exact Hperm | exact Hd]]. }
      destruct (nd_nodes_valid (fun sup n => NdEval.nd_sels cfg root sup ss n) (NondetQ.nd_sels rg rxf root ss) (fun sup1 n1 r1 sup1' Hn1 E1 => nd_sels_valid root ss Hwt Hr sup1 n1 r1 sup1' Hn1 E1) vs sup1 r0 sup0' Hvs E0) as [A G].
      split; [|exact G]. exists vs. split; [exact Hperm | split; [exact Hval | exact A]].
  Qed.

  Lemma nd_segs_valid root q : wt_query rg q = true -> good root -> forall sup ns r sup', goods ns ->
    NdEval.nd_segs cfg root sup q ns = Ok (r, sup') -> NondetQ.nd_segs rg rxf root q ns r.
  Proof.
    intros Hwt Hr. induction q as [|sg q IH]; intros sup ns r sup' Hns E; cbn [NdEval.nd_segs] in E.
    - inversion E; subst. constructor.
    - unfold wt_query in Hwt. cbn [forallb] in Hwt. apply andb_true_iff in Hwt as [H1 H2].
      destruct (NdEval.nd_seg cfg root sup sg ns) as [[mid sup1]| | |] eqn:E1; try discriminate E. cbn [bind fst snd] in E.
      destruct (nd_seg_valid root sg H1 Hr sup ns mid sup1 Hns E1) as [A G].
      econstructor; [exact A | apply (IH H2 sup1 mid r sup' G E)].
  Qed.

  Theorem nd_query_valid sup q v r : wt_query rg q = true -> good v -> m_find_nd cfg sup q v = Ok r -> nd_permitted rg rxf q v r.
  Proof.
    intros Hwt Hv E. unfold m_find_nd in E. destruct (NdEval.nd_segs cfg v sup q [([], v)]) as [[r0 sup']| | |] eqn:E0; try discriminate E. cbn [bind fst] in E. inversion E; subst.
    apply (nd_segs_valid v q Hwt Hv sup [([], v)] r sup'); [constructor; [exact Hv | constructor] | exact E0].
  Qed.
End Valid.

(* ---- a permitted nodelist has exactly the nodes of the deterministic one, with the same multiplicities ---- *)
Section Perm.
  Variable rg : registry.
  Variable rxf : bool -> str -> str -> bool.

  Lemma nd_each_perm {A} (P : A -> list node -> Prop) (f : A -> list node) l r :
    (forall x r1, P x r1 -> Permutation r1 (f x)) -> nd_each P l r -> Permutation r (flat_map f l).
  Proof. intros HP H. induction H as [|x xs r1 r2 H1 _ IH]; [constructor|]. cbn [flat_map]. apply Permutation_app; [apply HP; exact H1 | exact IH]. Qed.

  Lemma kids_order_perm n cs : kids_order n cs -> Permutation cs (children n).
  Proof. unfold kids_order. destruct (snd n); intros H; first [exact H | subst cs; apply Permutation_refl]. Qed.

  Lemma nd_sel_perm root n s r : NondetQ.nd_sel rg rxf root n s r -> Permutation r (s_sel rg rxf root s n).
  Proof.
    destruct s; cbn [NondetQ.nd_sel s_sel]; intros H; try (subst r; apply Permutation_refl).
    - apply kids_order_perm. exact H.
    - destruct H as (cs & Hk & ->). apply Permutation_filter. apply kids_order_perm. exact Hk.
  Qed.

  Definition sels_det (root : json) (ss : list sel) (n : node) : list node :=
    (fix go (ss : list sel) : list node := match ss with [] => [] | s :: ss' => s_sel rg rxf root s n ++ go ss' end) ss.
  Lemma sels_det_flat root ss n : sels_det root ss n = flat_map (fun s => s_sel rg rxf root s n) ss.
  Proof. induction ss as [|s ss IH]; [reflexivity|]. cbn [sels_det flat_map]. f_equal; exact IH. Qed.

  Lemma nd_sels_perm root ss n r : NondetQ.nd_sels rg rxf root ss n r -> Permutation r (sels_det root ss n).
  Proof. intros H. rewrite sels_det_flat. apply (nd_each_perm _ _ _ _ (fun s r1 => nd_sel_perm root n s r1) H). Qed.

  Lemma nd_seg_perm root sg ns r ns0 : NondetQ.nd_seg rg rxf root sg ns r -> Permutation ns ns0 -> Permutation r (s_seg rg rxf root sg ns0).
  Proof.
    intros H Hp. destruct sg as [ss | ss]; cbn [NondetQ.nd_seg s_seg] in *.
    - eapply Permutation_trans; [apply (nd_each_perm _ (sels_det root ss) _ _ (nd_sels_perm root ss) H)|]. apply Permutation_flat_map. exact Hp.
    - eapply Permutation_trans; [|apply Permutation_flat_map; exact Hp].
      apply (nd_each_perm _ (fun n => flat_map (sels_det root ss) (descendants (fst n) (snd n))) _ _) in H; [exact H|].
      intros n r1 (o & Ho & _ & He). eapply Permutation_trans; [apply (nd_each_perm _ (sels_det root ss) _ _ (nd_sels_perm root ss) He)|]. apply Permutation_flat_map. exact Ho.
  Qed.

  Lemma nd_segs_perm root q : forall ns r ns0, NondetQ.nd_segs rg rxf root q ns r -> Permutation ns ns0 -> Permutation r (s_segs rg rxf root q ns0).
  Proof.
    induction q as [|sg q IH]; intros ns r ns0 H Hp; inversion H; subst; cbn [s_segs run_segs_s].
    - exact Hp.
    - apply (IH mid r (s_seg rg rxf root sg ns0)); [assumption|]. eapply nd_seg_perm; eassumption.
  Qed.

  Theorem nd_permitted_perm q v r : nd_permitted rg rxf q v r -> Permutation r (sem rg rxf q v).
  Proof. intros H. apply (nd_segs_perm v q [([], v)] r [([], v)] H). apply Permutation_refl. Qed.
End Perm.

(* ---- exhaustiveness: every permitted nodelist is returned for some supply of scripts ---- *)
From JP Require Import Proofs.NdExh Proofs.NdReloc.

Lemma shuffle_onto {A} (items target : list A) : Permutation target items -> exists s, fst (shuffle s items) = target.
Proof.
  intros Hp. unfold shuffle. destruct items as [|a [|b cs]].
  - apply Permutation_sym, Permutation_nil in Hp. subst. exists []. reflexivity.
  - apply Permutation_sym, Permutation_length_1_inv in Hp. subst. exists []. reflexivity.
  - destruct (apply_perm_onto target (a :: b :: cs) (Permutation_sym Hp)) as [idx E]. exists [idx]. cbn [take1 fst]. exact E.
Qed.

Lemma nd_children_onto n cs : kids_order n cs -> exists pre, forall sup, nd_children (pre ++ sup) n = (cs, sup).
Proof.
  unfold kids_order, nd_children. destruct (snd n); try (intros ->; exists []; reflexivity).
  intros Hp. destruct (shuffle_onto (children n) cs Hp) as [s E]. exists [s]. intros sup. cbn [app take_sub]. rewrite E. reflexivity.
Qed.

Lemma nd_each_scalar_nil {A} (P : A -> list node -> Prop) (f : A -> bool) :
  (forall x r1, f x = false -> (P x r1 <-> r1 = [])) -> forall l r, nd_each P l r <-> nd_each P (filter f l) r.
Proof.
  intros HP. induction l as [|x l IH]; intros r; [reflexivity|]. cbn [filter]. destruct (f x) eqn:Ex.
  - split; intros H; inversion H; subst; constructor; try assumption; apply IH; assumption.
  - split; intros H.
    + inversion H; subst. match goal with H1 : P x ?r1 |- _ => apply (HP x r1 Ex) in H1; subst end. cbn [app]. apply IH. assumption.
    + change r with ([] ++ r). constructor; [apply (HP x [] Ex); reflexivity | apply IH; exact H].
Qed.

Section Exhaustive.
  Variable cfg : envcfg.
  Notation rg := (reg cfg).
  Notation rxf := (rx cfg).
  Hypothesis Hreg : reg_ok rg = true.
  Hypothesis HN : (1 <= max_depth cfg)%nat.
  Notation good := (good cfg).
  Notation goods := (goods cfg).

  Lemma nd_sel_exh root s n r : wt_sel rg s = true -> good root -> good (snd n) -> NondetQ.nd_sel rg rxf root n s r ->
    exists pre, forall sup, NdEval.nd_sel cfg root (pre ++ sup) s n = Ok (r, sup).
  Proof.
    intros Hwt Hr Hn H.
    assert (Hdet : forall s0, s0 = s -> r = s_sel rg rxf root s0 n -> exists pre : supply, forall sup, (do r0 <- m_sel cfg root s0 n; Ok (r0, pre ++ sup)) = Ok (r, sup)).
    { intros s0 -> ->. exists []. intros sup. destruct (refine_all cfg Hreg HN) as [Hs _]. rewrite (Hs s Hwt root n Hr Hn). reflexivity. }
    destruct s as [k | i | a b c | | e]; cbn [NdEval.nd_sel NondetQ.nd_sel] in *; try (apply (Hdet _ eq_refl H)).
    - destruct (nd_children_onto n r H) as [pre Hp]. exists pre. intros sup. rewrite Hp. reflexivity.
    - destruct H as (cs & Hk & ->). destruct (nd_children_onto n cs Hk) as [pre Hp]. exists pre. intros sup. rewrite Hp.
      rewrite (filter_list_ok cfg Hreg HN root e cs Hwt Hr (kids_order_good cfg n cs Hn Hk)). reflexivity.
  Qed.

  Lemma nd_sels_exh root ss n r : wt_sels cfg ss = true -> good root -> good (snd n) -> NondetQ.nd_sels rg rxf root ss n r ->
    exists pre, forall sup, NdEval.nd_sels cfg root (pre ++ sup) ss n = Ok (r, sup).
  Proof.
    intros Hwt Hr Hn H. unfold NondetQ.nd_sels in H. induction H as [|s ss r1 r2 H1 _ IH].
    - exists []. reflexivity.
    - cbn [wt_sels] in Hwt. apply andb_true_iff in Hwt as [W1 W2]. destruct (nd_sel_exh root s n r1 W1 Hr Hn H1) as [p1 E1]. destruct (IH W2) as [p2 E2].
      exists (p1 ++ p2). intros sup. rewrite <- app_assoc. cbn [NdEval.nd_sels]. rewrite E1. cbn [bind fst snd]. rewrite E2. reflexivity.
  Qed.

  Lemma nd_nodes_exh (F : supply -> node -> result (list node * supply)) (P : node -> list node -> Prop) :
    (forall n r, good (snd n) -> P n r -> exists pre, forall sup, F (pre ++ sup) n = Ok (r, sup)) ->
    forall ns r, goods ns -> nd_each P ns r -> exists pre, forall sup, nd_nodes F (pre ++ sup) ns = Ok (r, sup).
  Proof.
    intros HF ns r Hns H. induction H as [|n ns r1 r2 H1 _ IH].
    - exists []. reflexivity.
    - inversion Hns as [|? ? Hn Hns']; subst. destruct (HF n r1 Hn H1) as [p1 E1]. destruct (IH Hns') as [p2 E2].
      exists (p1 ++ p2). intros sup. rewrite <- app_assoc. cbn [nd_nodes]. rewrite E1. cbn [bind fst snd]. rewrite E2. reflexivity.
  Qed.

  Lemma kids_order_scalar n cs : isc n = false -> kids_order n cs -> cs = [].
  Proof. unfold isc, kids_order, children. destruct (snd n); try discriminate; intros _ ->; reflexivity. Qed.

  Lemma nd_sels_scalar root ss x r1 : isc x = false -> (NondetQ.nd_sels rg rxf root ss x r1 <-> r1 = []).
  Proof.
    intros Hx. unfold NondetQ.nd_sels. split.
    - intros H. induction H as [|s ss r1 r2 H1 _ IH]; [reflexivity|]. rewrite IH, app_nil_r.
      destruct s; cbn [NondetQ.nd_sel] in H1; try (rewrite H1; apply (s_sel_scalar_any cfg); exact Hx).
      + apply (kids_order_scalar x r1 Hx H1).
      + destruct H1 as (cs & Hk & ->). rewrite (kids_order_scalar x cs Hx Hk). reflexivity.
    - intros ->. induction ss as [|s ss IH]; [constructor|]. change (@nil node) with (@nil node ++ []). constructor; [|exact IH].
      destruct s; cbn [NondetQ.nd_sel]; try (symmetry; apply (s_sel_scalar_any cfg); exact Hx).
      + unfold isc, kids_order, children in *. destruct (snd x); try discriminate; reflexivity.
      + exists []. split; [unfold isc, kids_order, children in *; destruct (snd x); try discriminate; reflexivity | reflexivity].
  Qed.

  Lemma nd_seg_exh root sg ns r : wt_seg rg sg = true -> good root -> goods ns -> NondetQ.nd_seg rg rxf root sg ns r ->
    exists pre, forall sup, NdEval.nd_seg cfg root (pre ++ sup) sg ns = Ok (r, sup).
  Proof.
    intros Hwt Hr Hns H. destruct sg as [ss | ss]; cbn [NdEval.nd_seg NondetQ.nd_seg] in *.
    - apply (nd_nodes_exh (fun sup n => NdEval.nd_sels cfg root sup ss n) (NondetQ.nd_sels rg rxf root ss)); [|exact Hns | exact H].
      intros n r0 Hn H0. apply (nd_sels_exh root ss n r0 Hwt Hr Hn H0).
    - refine (nd_nodes_exh _ _ _ ns r Hns H).
      intros n r0 Hn (o & Hperm & Hval & He). destruct n as [loc v]. cbn [fst snd] in *.
      destruct (nd_exhaustive_at (max_depth cfg) loc v o (proj2 Hn) HN (proj1 Hn) Hperm Hval) as (script & vs & Ev & Hf).
      destruct (nd_visit_valid_at _ _ loc v vs (proj2 Hn) Ev) as [_ Hpv].
      assert (Hvs : goods vs).
      { apply goods_iff. intros d Hd. eapply (descendants_P good (good_hered cfg)); [exact Hn | eapply Permutation_in; [exact Hpv | exact Hd]]. }
      assert (He' : nd_each (NondetQ.nd_sels rg rxf root ss) vs r0).
      { apply (proj2 (nd_each_scalar_nil _ isc (nd_sels_scalar root ss) vs r0)). rewrite Hf. apply (proj1 (nd_each_scalar_nil _ isc (nd_sels_scalar root ss) o r0)). exact He. }
      destruct (nd_nodes_exh (fun sup n => NdEval.nd_sels cfg root sup ss n) (NondetQ.nd_sels rg rxf root ss)
                  (fun n1 r1 Hn1 H1 => nd_sels_exh root ss n1 r1 Hwt Hr Hn1 H1) vs r0 Hvs He') as [p2 E2].
      exists (script :: p2). intros sup. cbn [app take_sub]. rewrite Ev. cbn [bind]. apply E2.
  Qed.

  Lemma nd_segs_exh root q : wt_query rg q = true -> good root -> forall ns r, goods ns -> NondetQ.nd_segs rg rxf root q ns r ->
    exists pre, forall sup, NdEval.nd_segs cfg root (pre ++ sup) q ns = Ok (r, sup).
  Proof.
    intros Hwt Hr ns r Hns H. induction H as [ns | sg q ns mid r H1 _ IH].
    - exists []. reflexivity.
    - unfold wt_query in Hwt. cbn [forallb] in Hwt. apply andb_true_iff in Hwt as [W1 W2].
      destruct (nd_seg_exh root sg ns mid W1 Hr Hns H1) as [p1 E1].
      assert (Hmid : goods mid). { pose proof (E1 []) as E. apply (nd_seg_valid cfg Hreg HN root sg W1 Hr _ ns mid _ Hns) in E. exact (proj2 E). }
      destruct (IH W2 Hmid) as [p2 E2]. exists (p1 ++ p2). intros sup. rewrite <- app_assoc. cbn [NdEval.nd_segs]. rewrite E1. cbn [bind fst snd]. apply E2.
  Qed.

  Theorem nd_query_exhaustive q v r : wt_query rg q = true -> good v -> nd_permitted rg rxf q v r -> exists sup, m_find_nd cfg sup q v = Ok r.
  Proof.
    intros Hwt Hv H. destruct (nd_segs_exh v q Hwt Hv [([], v)] r ltac:(constructor; [exact Hv | constructor]) H) as [pre E].
    exists pre. unfold m_find_nd. rewrite <- (app_nil_r pre), E. reflexivity.
  Qed.
End Exhaustive.
