(* The converse of Proofs/AbnfSpellG.v: whatever compile() accepts in an environment whose registry is exactly the five built-in functions is a
   string of bf_grammar (Spec/BuiltinGrammar.v).  Proofs/TextSound.v, run again with the typed grammar: where that file derives comparable,
   test-expr and function-expr from the typing premises of the token grammar, this one uses them to pick the typed alternative. *)
From JP Require Import Base.Prelude Base.Json Model.Regex Model.Tokens Model.Lex Model.Ast Model.Parse Model.Api Model.PyFloat Spec.Abnf Spec.Rfc9535Grammar
  Spec.Types Spec.StringLit Proofs.StringProofs Proofs.LexNoCrash Proofs.Requery Proofs.Reparse Proofs.ParseComplete Proofs.ParseSound Proofs.LexShape
  Proofs.LexSpell Proofs.AbnfDerive.
From Coq Require Import ZifyBool ZifyN.

From JP Require Import Spec.BuiltinGrammar Proofs.TextSound Proofs.AbnfSpellG.

Notation DB := (derives bf_grammar).
Lemma d2b e s : derives rfc_grammar e s -> lexexp e = true -> DB e s.
Proof.
  intros H. induction H; cbn [lexexp]; intros Hl.
  - constructor.
  - constructor; assumption.
  - apply andb_true_iff in Hl as [A B]. constructor; auto.
  - apply andb_true_iff in Hl as [A B]. apply DAltL; auto.
  - apply andb_true_iff in Hl as [A B]. apply DAltR; auto.
  - constructor.
  - apply DStarS; auto.
  - destruct (lex_same n Hl) as [E1 E2]. apply DRef. rewrite E1. apply IHderives. exact E2.
Qed.
(* the derivation steps of Proofs/AbnfDerive.v, for this grammar *)
Lemma d_ref r s : r <> r_comparable -> r <> r_test_expr -> DB (rule_body r) s -> DB (R r) s.
Proof. intros H1 H2 H. unfold R. apply DRef. rewrite (bf_rule r H1 H2). exact H. Qed.
Ltac dref := apply d_ref; [discriminate | discriminate |].
Lemma d_C c : DB (C c) [c]. Proof. apply d2b; [apply AbnfDerive.d_C | reflexivity]. Qed.
Lemma d_S b : blanks b -> DB S_ b. Proof. intros H. apply d2b; [apply AbnfDerive.d_S; exact H | reflexivity]. Qed.
Lemma d_seq a b s1 s2 s : DB a s1 -> DB b s2 -> s = s1 ++ s2 -> DB (GSeq a b) s. Proof. intros H1 H2 ->. apply DSeq; assumption. Qed.
Lemma d_opt_none a : DB (GOpt a) []. Proof. apply DAltR. apply DEps. Qed.
Lemma d_opt_some a s : DB a s -> DB (GOpt a) s. Proof. intros H. apply DAltL. exact H. Qed.
Lemma d_lit s : DB (GLit s) s. Proof. apply d2b; [apply AbnfDerive.d_lit | apply lexexp_lit]. Qed.
Lemma d_member_name k : lang RE_PROPERTY k -> DB (R r_member_name_shorthand) k. Proof. intros H. apply d2b; [apply AbnfDerive.d_member_name; exact H | reflexivity]. Qed.
Lemma d_int ds i : int_text_ok ds i -> DB (R r_int) ds. Proof. intros H. apply d2b; [eapply AbnfDerive.d_int; exact H | reflexivity]. Qed.
Lemma d_string_literal q body k : qok q -> spec_decode q body = Some k -> DB (R r_string_literal) ([q] ++ body ++ [q]).
Proof. intros H1 H2. apply d2b; [eapply AbnfDerive.d_string_literal; eassumption | reflexivity]. Qed.
Lemma d_number_int v : lang RE_INT v -> has_leading_zero v = false -> DB (R r_number) v. Proof. intros H1 H2. apply d2b; [apply AbnfDerive.d_number_int; assumption | reflexivity]. Qed.
Lemma d_number_float v x : lang RE_FLOAT v -> has_leading_zero v = false -> py_float v = Some x -> DB (R r_number) v.
Proof. intros H1 H2 H3. apply d2b; [eapply AbnfDerive.d_number_float; eassumption | reflexivity]. Qed.

Lemma db_comparable y : DB (GAlts [R r_literal; R r_singular_query; GRef id_vfn]) y -> DB (R r_comparable) y.
Proof. intros H. unfold R. apply DRef. exact H. Qed.
Lemma db_varg y : DB (GAlts [R r_literal; R r_singular_query; GRef id_vfn]) y -> DB (GRef id_varg) y.
Proof. intros H. apply DRef. exact H. Qed.
Lemma db_test no y : DB (GOpt (GSeq (C 33) S_)) no -> DB (GAlt (R r_filter_query) (GRef id_lfn)) y -> DB (R r_test_expr) (no ++ y).
Proof. intros H1 H2. unfold R. apply DRef. change (bf_grammar (rule_id r_test_expr)) with (GSeq (GOpt (GSeq (C 33) S_)) (GAlt (R r_filter_query) (GRef id_lfn))). apply DSeq; assumption. Qed.
(* the text of an argument list, by the declared parameter types *)
Definition argD (w : ty3) (y : list N) : Prop := match w with TValue => DB (GRef id_varg) y | TNodes => DB (R r_filter_query) y | TLogical => True end.
Inductive ArgsD : list ty3 -> list N -> Prop :=
| AD_nil : ArgsD [] []
| AD_one w b y : blanks b -> argD w y -> ArgsD [w] (b ++ y)
| AD_cons w tys b y b1 rest : blanks b -> argD w y -> blanks b1 -> tys <> [] -> ArgsD tys rest -> ArgsD (w :: tys) (b ++ y ++ b1 ++ [44%N] ++ rest).
(* the registry is the built-in one: nothing else is declared *)
Definition std_only (cfg : envcfg) : Prop := forall f d, find_assoc f (reg cfg) = Some d ->
  (f = s_length /\ f_args d = [TValue] /\ f_ret d = TValue) \/ (f = s_count /\ f_args d = [TNodes] /\ f_ret d = TValue) \/ (f = s_value /\ f_args d = [TNodes] /\ f_ret d = TValue) \/
  (f = s_match /\ f_args d = [TValue; TValue] /\ f_ret d = TLogical) \/ (f = s_search /\ f_args d = [TValue; TValue] /\ f_ret d = TLogical).

Definition seg_item : gexp := GSeq S_ (R r_segment).
Definition sel_item : gexp := GSeqs [S_; C 44; S_; R r_selector].
Definition or_item : gexp := GSeqs [S_; C 124; C 124; S_; R r_logical_and_expr].
Definition and_item : gexp := GSeqs [S_; C 38; C 38; S_; R r_basic_expr].
Definition arg_item : gexp := GSeqs [S_; C 44; S_; R r_function_argument].
Definition Dlev (k : Z) (y : list N) : Prop :=
  if k =? 3 then exists y1 ys, y = y1 ++ ys /\ DB (R r_logical_and_expr) y1 /\ DB (GStar or_item) ys
  else if k =? 4 then exists y1 ys, y = y1 ++ ys /\ DB (R r_basic_expr) y1 /\ DB (GStar and_item) ys
  else DB (R r_basic_expr) y.

Lemma after_sel_steps a a' : am a = MBrk -> after_sel a a' -> astep a' T_COMMA = Some (GBl, a) /\ astep a' T_RBRACKET = Some (GBl, amode_set a MSeg).
Proof.
  intros Hm [-> | (Hf & E1 & E2 & E3)]; [unfold astep; rewrite Hm; split; reflexivity|].
  rewrite !(fl_astep a' _ Hf) by discriminate. unfold fil_step. rewrite E2, E3. replace (zlen (afcs a) <? zlen (afcs a)) with false by lia.
  replace (afd a' - 1) with (afd a) by lia. assert (E : mkA MBrk (afd a) (affd a) (afcs a) = a) by (destruct a; cbn in *; subst; reflexivity).
  rewrite E. split; reflexivity.
Qed.

Section B.
Variable cfg : envcfg.
Hypothesis Hstd : std_only cfg.
Notation QT := (QT cfg). Notation SegT := (SegT cfg). Notation SelsT := (SelsT cfg). Notation SelT := (SelT cfg). Notation ET := (ET cfg).
Notation CT := (CT cfg). Notation TT := (TT cfg). Notation ArgsT := (ArgsT cfg). Notation ArgT := (ArgT cfg).

Definition P_QT (q : list seg) (t : list token) : Prop :=
  forall a z a', okS a -> am a = MSeg -> sc z -> RunT a t z a' -> a' = a /\ DB (GStar seg_item) z.
Definition P_SegT (g : seg) (t : list token) : Prop :=
  forall a z a', okS a -> am a = MSeg -> sc z -> RunT a t z a' -> a' = a /\ DB seg_item z /\ z <> [].
Definition P_SelsT (ss : list sel) (t : list token) : Prop :=
  forall a z a', okS a -> am a = MBrk -> sc z -> RunT a t z a' ->
    after_sel a a' /\ exists b y1 ys, z = b ++ y1 ++ ys /\ blanks b /\ DB (R r_selector) y1 /\ DB (GStar sel_item) ys.
Definition P_SelT (s : sel) (t : list token) : Prop :=
  forall a z a', okS a -> am a = MBrk -> sc z -> RunT a t z a' -> after_sel a a' /\ exists b y, z = b ++ y /\ blanks b /\ DB (R r_selector) y.
Definition P_ET (k : Z) (e : expr) (t : list token) : Prop :=
  forall a z a', okS a -> 1 <= afd a -> fl a -> sc z -> RunT a t z a' -> fl a' /\ same_stk a a' /\ exists b y, z = b ++ y /\ blanks b /\ Dlev k y.
Definition P_CT (e : expr) (t : list token) : Prop :=
  forall a z a', okS a -> 1 <= afd a -> fl a -> sc z -> RunT a t z a' ->
    fl a' /\ same_stk a a' /\ exists b y, z = b ++ y /\ blanks b /\ DB (R r_comparable) y /\ DB (GRef id_varg) y.
Definition P_TT (want : ty3) (e : expr) (t : list token) : Prop :=
  forall a z a', okS a -> 1 <= afd a -> fl a -> sc z -> RunT a t z a' ->
    fl a' /\ same_stk a a' /\ exists b y, z = b ++ y /\ blanks b /\ (want = TLogical -> DB (GAlt (R r_filter_query) (GRef id_lfn)) y) /\ (want = TNodes -> DB (R r_filter_query) y) /\
                                          (want = TValue -> DB (R r_comparable) y /\ DB (GRef id_varg) y).
Definition P_ArgsT (tys : list ty3) (args : list expr) (t : list token) : Prop :=
  forall a z a', okS a -> 1 <= afd a -> fl a -> TextSound.incall a -> sc z -> RunT a t z a' ->
    fl a' /\ same_stk a a' /\ ArgsD tys z.
Definition P_ArgT (w : ty3) (e : expr) (t : list token) : Prop :=
  forall a z a', okS a -> 1 <= afd a -> fl a -> sc z -> RunT a t z a' ->
    fl a' /\ same_stk a a' /\ exists b y, z = b ++ y /\ blanks b /\ argD w y.

(* --- segments ------------------------------------------------------------------------------------------------------------- *)
Lemma d_segment_shorthand b x : blanks b -> DB (GAlt (C 42) (R r_member_name_shorthand)) x -> DB seg_item (b ++ [46%N] ++ x).
Proof.
  intros Hb Hx. apply DSeq; [apply d_S; exact Hb|]. dref. cbn [rule_body]. apply DAltL. dref. cbn [rule_body]. apply DAltR.
  apply DSeq; [apply d_C | exact Hx].
Qed.

Lemma case_sg_prop k i : P_SegT (Child [SName k]) [tk T_PROPERTY k i].
Proof.
  intros a z a' Ho Hm Hsc H. runc H k0 a1 b z' Hs Hb Hn Ht HR. runnil HR. stepM Hs Hm. rewrite (amode_same a MSeg Hm).
  split; [reflexivity|]. cbn [pre post]. rewrite !app_nil_r. split; [|destruct b; discriminate].
  apply d_segment_shorthand; [exact Hb|]. apply DAltR. apply d_member_name. apply pmatch_lang. exact Ht.
Qed.
Lemma case_sg_wild v i : P_SegT (Child [SWild]) [tk T_WILD v i].
Proof.
  intros a z a' Ho Hm Hsc H. runc H k0 a1 b z' Hs Hb Hn Ht HR. runnil HR. stepM Hs Hm. rewrite (amode_same a MSeg Hm).
  split; [reflexivity|]. cbn [pre post]. rewrite !app_nil_r. split; [|destruct b; discriminate]. try subst v.
  apply d_segment_shorthand; [exact Hb|]. apply DAltL. apply d_C.
Qed.

(* the selectors and the closing bracket, the machine being inside the brackets *)
Lemma sels_close ss t v i : P_SelsT ss t -> forall a z a', okS a -> am a = MBrk -> sc z -> RunT a (t ++ [tk T_RBRACKET v i]) z a' ->
  a' = amode_set a MSeg /\ DB (GSeqs [S_; R r_selector; GStar sel_item; S_; C 93]) z.
Proof.
  intros IH a z a' Ho Hm Hsc H. apply RunT_app in H as (z1 & z2 & a1 & -> & H1 & H2). apply sc_app in Hsc as [Hsc1 Hsc2].
  destruct (IH a z1 a1 Ho Hm Hsc1 H1) as (Has & b & y1 & ys & -> & Hb & Dy1 & Dys).
  runc H2 k0 a2 b2 z' Hs Hb2 Hn Ht HR. runnil HR. destruct (after_sel_steps a a1 Hm Has) as [_ E].
  assert (k0 = GBl /\ a2 = amode_set a MSeg) as [-> ->] by (rewrite E in Hs; inversion Hs; split; reflexivity). try subst v.
  split; [reflexivity|]. cbn [pre post GSeqs]. rewrite !app_nil_r, <- !app_assoc.
  apply DSeq; [apply d_S; exact Hb|]. apply DSeq; [exact Dy1|]. apply DSeq; [exact Dys|]. apply DSeq; [apply d_S; exact Hb2 | apply d_C].
Qed.
Lemma d_bracketed z : DB (GSeqs [S_; R r_selector; GStar sel_item; S_; C 93]) z -> DB (R r_bracketed_selection) ([91%N] ++ z).
Proof. intros H. dref. cbn [rule_body]. change (GSeqs [C 91; S_; R r_selector; GStar (GSeqs [S_; C 44; S_; R r_selector]); S_; C 93]) with (GSeq (C 91) (GSeqs [S_; R r_selector; GStar sel_item; S_; C 93])). apply DSeq; [apply d_C | exact H]. Qed.

Lemma case_sg_br ss t v1 i1 v2 i2 : P_SelsT ss t -> P_SegT (Child ss) (tk T_LBRACKET v1 i1 :: t ++ [tk T_RBRACKET v2 i2]).
Proof.
  intros IH a z a' Ho Hm Hsc H. runc H k0 a1 b z' Hs Hb Hn Ht HR. stepM Hs Hm. try subst v1.
  repeat (apply sc_app in Hsc as [_ Hsc]).
  destruct (sels_close ss t v2 i2 IH (amode_set a MBrk) z' a' (okS_same _ _ (same_stk_mode a MBrk) Ho) eq_refl Hsc HR) as [-> Dz].
  rewrite amode_twice, (amode_same a MSeg Hm). split; [reflexivity|]. cbn [pre post app]. split; [|destruct b; discriminate].
  apply DSeq; [apply d_S; exact Hb|]. dref. cbn [rule_body]. apply DAltL. dref. cbn [rule_body]. apply DAltL. apply (d_bracketed z' Dz).
Qed.

Lemma d_desc b x : blanks b -> DB (GAlts [R r_bracketed_selection; C 42; R r_member_name_shorthand]) x -> DB seg_item (b ++ [46; 46]%N ++ x).
Proof.
  intros Hb Hx. apply DSeq; [apply d_S; exact Hb|]. dref. cbn [rule_body]. apply DAltR. dref. cbn [rule_body GSeqs].
  change ([46; 46]%N ++ x) with ([46%N] ++ [46%N] ++ x). apply DSeq; [apply d_C|]. apply DSeq; [apply d_C | exact Hx].
Qed.
Lemma step_dd a k a1 : am a = MSeg -> astep a T_DOUBLE_DOT = Some (k, a1) -> k = GBl /\ a1 = amode_set a MDesc.
Proof. intros Hm Hs. stepM Hs Hm. split; reflexivity. Qed.

Lemma case_sg_dprop k i v0 i0 : P_SegT (Desc [SName k]) [tk T_DOUBLE_DOT v0 i0; tk T_PROPERTY k i].
Proof.
  intros a z a' Ho Hm Hsc H. runc H k0 a1 b z' Hs Hb Hn Ht HR. destruct (step_dd a k0 a1 Hm Hs) as [-> ->]. try subst v0.
  runc HR k1 a2 b1 z'' Hs1 Hb1 Hn1 Ht1 HR1. runnil HR1. unfold astep in Hs1. cbn in Hs1. inversion Hs1; subst. rewrite (Hn1 eq_refl).
  rewrite amode_twice, (amode_same a MSeg Hm). split; [reflexivity|]. cbn [pre post app]. rewrite !app_nil_r. split; [|destruct b; discriminate].
  apply (d_desc b k Hb). cbn [GAlts]. apply DAltR, DAltR. apply d_member_name. apply pmatch_lang. exact Ht1.
Qed.
Lemma case_sg_dwild v i v0 i0 : P_SegT (Desc [SWild]) [tk T_DOUBLE_DOT v0 i0; tk T_WILD v i].
Proof.
  intros a z a' Ho Hm Hsc H. runc H k0 a1 b z' Hs Hb Hn Ht HR. destruct (step_dd a k0 a1 Hm Hs) as [-> ->]. try subst v0.
  runc HR k1 a2 b1 z'' Hs1 Hb1 Hn1 Ht1 HR1. runnil HR1. unfold astep in Hs1. cbn in Hs1. inversion Hs1; subst. rewrite (Hn1 eq_refl). try subst v.
  rewrite amode_twice, (amode_same a MSeg Hm). split; [reflexivity|]. cbn [pre post app]. split; [|destruct b; discriminate].
  apply (d_desc b [42%N] Hb). cbn [GAlts]. apply DAltR, DAltL. apply d_C.
Qed.
Lemma case_sg_dbr ss t v0 i0 v1 i1 v2 i2 : P_SelsT ss t -> P_SegT (Desc ss) (tk T_DOUBLE_DOT v0 i0 :: tk T_LBRACKET v1 i1 :: t ++ [tk T_RBRACKET v2 i2]).
Proof.
  intros IH a z a' Ho Hm Hsc H. runc H k0 a1 b z' Hs Hb Hn Ht HR. destruct (step_dd a k0 a1 Hm Hs) as [-> ->]. try subst v0.
  runc HR k1 a2 b1 z'' Hs1 Hb1 Hn1 Ht1 HR1. unfold astep in Hs1. cbn in Hs1. inversion Hs1; subst. rewrite (Hn1 eq_refl). try subst v1.
  repeat (apply sc_app in Hsc as [_ Hsc]).
  destruct (sels_close ss t v2 i2 IH (amode_set (amode_set a MDesc) MBrk) z'' a' (okS_same _ _ (same_stk_mode a MBrk) Ho) eq_refl Hsc HR1) as [-> Dz].
  rewrite !amode_twice, (amode_same a MSeg Hm). split; [reflexivity|]. cbn [pre post app]. split; [|destruct b; discriminate].
  apply (d_desc b (91%N :: z'') Hb). cbn [GAlts]. apply DAltL. apply (d_bracketed z'' Dz).
Qed.

(* --- the query ---------------------------------------------------------------------------------------------------------------- *)
Lemma case_qt_nil : P_QT [] [].
Proof. intros a z a' Ho Hm Hsc H. runnil H. split; [reflexivity | apply DStar0]. Qed.
Lemma case_qt_cons g tg q tq : P_SegT g tg -> P_QT q tq -> P_QT (g :: q) (tg ++ tq).
Proof.
  intros Hg Hq a z a' Ho Hm Hsc H. apply RunT_app in H as (z1 & z2 & a1 & -> & H1 & H2). apply sc_app in Hsc as [Hsc1 Hsc2].
  destruct (Hg a z1 a1 Ho Hm Hsc1 H1) as (-> & D1 & Hne). destruct (Hq a z2 a' Ho Hm Hsc2 H2) as (-> & D2). split; [reflexivity|]. apply DStarS; assumption.
Qed.

(* --- selectors -------------------------------------------------------------------------------------------------------------- *)
Lemma str_tok t k : (ty t = T_SQ_STRING \/ ty t = T_DQ_STRING) -> tshape (ty t) (tval t) -> sc (tval t) -> decode_string_literal t = Ok k ->
  exists q, pre GBl (ty t) = [q] /\ post (ty t) = [q] /\ DB (R r_string_literal) ([q] ++ tval t ++ [q]).
Proof.
  intros Hty Ht Hsc Hd. destruct t as [T v i]. cbn [ty tval] in *. destruct Hty as [-> | ->]; cbn [tshape] in Ht.
  - rewrite (decode_sq v i Ht Hsc) in Hd. destruct (spec_decode 39 v) as [s|] eqn:E; [|discriminate]. exists 39%N. split; [reflexivity|]. split; [reflexivity|].
    apply (d_string_literal 39 v s); [left; reflexivity | exact E].
  - rewrite (decode_dq v i Ht Hsc) in Hd. destruct (spec_decode 34 v) as [s|] eqn:E; [|discriminate]. exists 34%N. split; [reflexivity|]. split; [reflexivity|].
    apply (d_string_literal 34 v s); [right; reflexivity | exact E].
Qed.
Lemma sc_mid a b c : sc (a ++ b ++ c) -> sc b.
Proof. intros H. apply sc_app in H as [_ H]. apply sc_app in H as [H _]. exact H. Qed.

Lemma case_name t k : (ty t = T_SQ_STRING \/ ty t = T_DQ_STRING) -> decode_string_literal t = Ok k -> P_SelT (SName k) [t].
Proof.
  intros Hty Hd a z a' Ho Hm Hsc H. runc H k0 a1 b z' Hs Hb Hn Ht HR. runnil HR.
  assert (Hs' : k0 = GBl /\ a1 = a) by (unfold astep in Hs; rewrite Hm in Hs; destruct Hty as [E | E]; rewrite E in Hs; inversion Hs; split; reflexivity).
  destruct Hs' as [-> ->]. split; [left; reflexivity|].
  assert (Hscv : sc (tval t)) by (apply (sc_mid (b ++ pre GBl (ty t)) (tval t) (post (ty t) ++ [])); rewrite <- !app_assoc; exact Hsc).
  destruct (str_tok t k Hty Ht Hscv Hd) as (q & E1 & E2 & Dq). exists b, ([q] ++ tval t ++ [q]). rewrite E1, E2, app_nil_r. split; [reflexivity|]. split; [exact Hb|].
  dref. cbn [rule_body GAlts]. apply DAltL. exact Dq.
Qed.
Lemma case_index ds j i : int_text_ok ds i -> in_range cfg i = true -> P_SelT (SIndex i) [tk T_INDEX ds j].
Proof.
  intros Hi _ a z a' Ho Hm Hsc H. runc H k0 a1 b z' Hs Hb Hn Ht HR. runnil HR. stepM Hs Hm. split; [left; reflexivity|].
  exists b, ds. cbn [pre post]. rewrite !app_nil_r. split; [reflexivity|]. split; [exact Hb|]. dref. cbn [rule_body GAlts]. apply DAltR, DAltR, DAltR, DAltL. apply (d_int ds i Hi).
Qed.
Lemma case_wild v i : P_SelT SWild [tk T_WILD v i].
Proof.
  intros a z a' Ho Hm Hsc H. runc H k0 a1 b z' Hs Hb Hn Ht HR. runnil HR. stepM Hs Hm. split; [left; reflexivity|].
  exists b, [42%N]. cbn [pre post]. rewrite !app_nil_r. split; [reflexivity|]. split; [exact Hb|]. dref. cbn [rule_body GAlts]. apply DAltR, DAltL. apply d_C.
Qed.

Lemma d_or_expr y : Dlev 3 y -> DB (R r_logical_or_expr) y.
Proof. intros (y1 & ys & -> & D1 & D2). dref. cbn [rule_body]. apply DSeq; assumption. Qed.

Lemma case_st_filter e t v i : P_ET 3 e t -> P_SelT (SFilter e) (tk T_FILTER v i :: t).
Proof.
  intros IH a z a' Ho Hm Hsc H. runc H k0 a1 b z' Hs Hb Hn Ht HR. stepM Hs Hm. repeat (apply sc_app in Hsc as [_ Hsc]).
  destruct Ho as (O1 & O2 & O3).
  assert (Ho1 : okS (mkA MFil (afd a + 1) (zlen (afcs a) :: affd a) (afcs a))).
  { split; [exact O1|]. cbn [affd afcs afd]. split; [intros d r E; inversion E; lia | lia]. }
  destruct (IH _ z' a' Ho1 ltac:(cbn [afd]; lia) (or_introl eq_refl) Hsc HR) as (Hf & (S1 & S2 & S3) & b1 & y & -> & Hb1 & Dy). cbn [afd affd afcs] in S1, S2, S3.
  split; [right; repeat split; assumption|]. exists b, ([63%N] ++ b1 ++ y). cbn [pre post app]. split; [reflexivity|]. split; [exact Hb|].
  dref. cbn [rule_body GAlts]. apply DAltR, DAltR, DAltR, DAltR. dref. cbn [rule_body GSeqs].
  change (63%N :: b1 ++ y) with ([63%N] ++ b1 ++ y). apply DSeq; [apply d_C|]. apply DSeq; [apply d_S; exact Hb1 | apply d_or_expr; exact Dy].
Qed.

Lemma case_ss_one s t : P_SelT s t -> P_SelsT [s] t.
Proof.
  intros IH a z a' Ho Hm Hsc H. destruct (IH a z a' Ho Hm Hsc H) as (Ha & b & y & -> & Hb & Dy). split; [exact Ha|].
  exists b, y, []. rewrite app_nil_r. repeat split; try assumption. apply DStar0.
Qed.
Lemma case_ss_cons s t v i rest trest : P_SelT s t -> P_SelsT rest trest -> P_SelsT (s :: rest) (t ++ tk T_COMMA v i :: trest).
Proof.
  intros IHs IHr a z a' Ho Hm Hsc H. apply RunT_app in H as (z1 & z2 & a1 & -> & H1 & H2). apply sc_app in Hsc as [Hsc1 Hsc2].
  destruct (IHs a z1 a1 Ho Hm Hsc1 H1) as (Ha & b & y & -> & Hb & Dy).
  runc H2 k0 a2 bc z' Hs Hbc Hn Ht HR. destruct (after_sel_steps a a1 Hm Ha) as [E _].
  assert (k0 = GBl /\ a2 = a) as [-> ->] by (rewrite E in Hs; inversion Hs; split; reflexivity). try subst v.
  repeat (apply sc_app in Hsc2 as [_ Hsc2]).
  destruct (IHr a z' a' Ho Hm Hsc2 HR) as (Ha' & br & y1 & ys & -> & Hbr & Dy1 & Dys). split; [exact Ha'|].
  exists b, y, (bc ++ [44%N] ++ br ++ y1 ++ ys). split; [cbn [pre post app]; rewrite ?app_nil_r, <- ?app_assoc; cbn [app]; reflexivity|]. split; [exact Hb|]. split; [exact Dy|].
  replace (bc ++ [44%N] ++ br ++ y1 ++ ys) with ((bc ++ [44%N] ++ br ++ y1) ++ ys) by (rewrite <- !app_assoc; reflexivity).
  apply DStarS; [destruct bc; discriminate | | exact Dys]. unfold sel_item. cbn [GSeqs].
  apply DSeq; [apply d_S; exact Hbc|]. apply DSeq; [apply d_C|]. apply DSeq; [apply d_S; exact Hbr | exact Dy1].
Qed.

(* --- slices ----------------------------------------------------------------------------------------------------------------- *)
Definition tail_exp : gexp := GOpt (GSeq (C 58) (GOpt (GSeq S_ (R r_int)))).
Definition opt_form (z : list N) : Prop := z = [] \/ exists b ds, z = b ++ ds /\ blanks b /\ DB (R r_int) ds.

Lemma run_optI o t a z a' : OptI cfg o t -> am a = MBrk -> RunT a t z a' -> a' = a /\ opt_form z.
Proof.
  intros Ho Hm H. destruct o as [x|]; cbn [OptI] in Ho.
  - destruct Ho as (ds & j & -> & Hi & _). runc H k0 a1 b z' Hs Hb Hn Ht HR. runnil HR. stepM Hs Hm. split; [reflexivity|]. right. exists b, ds.
    cbn [pre post app]. rewrite app_nil_r. split; [reflexivity|]. split; [exact Hb | apply (d_int ds x Hi)].
  - subst t. runnil H. split; [reflexivity | left; reflexivity].
Qed.
Lemma run_colon a v i ts z a' : am a = MBrk -> RunT a (tk T_COLON v i :: ts) z a' -> exists b z', z = b ++ [58%N] ++ z' /\ blanks b /\ RunT a ts z' a'.
Proof.
  intros Hm H. runc H k0 a1 b z' Hs Hb Hn Ht HR. stepM Hs Hm. exists b, z'. cbn [pre post app]. split; [reflexivity|]. split; assumption.
Qed.
Definition step_form (z : list N) : Prop := z = [] \/ exists b z', z = b ++ [58%N] ++ z' /\ blanks b /\ opt_form z'.
Lemma run_stepT c t a z a' : StepT cfg c t -> am a = MBrk -> RunT a t z a' -> a' = a /\ step_form z.
Proof.
  intros [[-> ->] | (v & i & t' & -> & Ho)] Hm H.
  - runnil H. split; [reflexivity | left; reflexivity].
  - destruct (run_colon a v i t' z a' Hm H) as (b & z' & -> & Hb & HR). destruct (run_optI c t' a z' a' Ho Hm HR) as [-> Hf]. split; [reflexivity|].
    right. exists b, z'. repeat split; assumption.
Qed.

Lemma d_startS ds b : DB (R r_int) ds -> blanks b -> DB (GOpt (GSeq (R r_int) S_)) (ds ++ b).
Proof. intros Hd Hb. apply d_opt_some. apply DSeq; [exact Hd | apply d_S; exact Hb]. Qed.
Lemma d_tail_colon : DB tail_exp [58%N].
Proof. apply d_opt_some. apply (d_seq _ _ [58%N] []); [apply d_C | apply d_opt_none | reflexivity]. Qed.
Lemma d_tail_step b ds : blanks b -> DB (R r_int) ds -> DB tail_exp ([58%N] ++ b ++ ds).
Proof. intros Hb Hd. apply d_opt_some. apply DSeq; [apply d_C|]. apply d_opt_some. apply DSeq; [apply d_S; exact Hb | exact Hd]. Qed.

(* everything after the first colon *)
Ltac txteq := cbn [app pre post ty tval tk]; rewrite ?app_nil_r, <- ?app_assoc; cbn [app]; rewrite ?app_nil_r, <- ?app_assoc; reflexivity.
Lemma slice_rest zb zc : opt_form zb -> step_form zc ->
  exists cs es tl, zb ++ zc = cs ++ es ++ tl /\ DB S_ cs /\ DB (GOpt (GSeq (R r_int) S_)) es /\ DB tail_exp tl.
Proof.
  intros [-> | (b3 & dsb & -> & Hb3 & Db)] [-> | (b4 & zc' & -> & Hb4 & [-> | (b5 & dsc & -> & Hb5 & Dc)])].
  - exists [], [], []. repeat split; [apply d_S; reflexivity | apply d_opt_none | apply d_opt_none].
  - exists b4, [], [58%N]. split; [txteq|]. split; [apply d_S; exact Hb4|]. split; [apply d_opt_none | apply d_tail_colon].
  - exists b4, [], ([58%N] ++ b5 ++ dsc). split; [txteq|]. split; [apply d_S; exact Hb4|]. split; [apply d_opt_none | apply d_tail_step; assumption].
  - exists b3, (dsb ++ []), []. split; [txteq|]. split; [apply d_S; exact Hb3|]. split; [apply d_startS; [exact Db | reflexivity] | apply d_opt_none].
  - exists b3, (dsb ++ b4), [58%N]. split; [txteq|]. split; [apply d_S; exact Hb3|]. split; [apply d_startS; assumption | apply d_tail_colon].
  - exists b3, (dsb ++ b4), ([58%N] ++ b5 ++ dsc). split; [txteq|]. split; [apply d_S; exact Hb3|]. split; [apply d_startS; assumption | apply d_tail_step; assumption].
Qed.

Lemma case_slice a b c ta tb tc v1 i1 : OptI cfg a ta -> OptI cfg b tb -> StepT cfg c tc -> P_SelT (SSlice a b c) (ta ++ tk T_COLON v1 i1 :: tb ++ tc).
Proof.
  intros Ha Hb Hc a0 z a' Ho Hm Hsc H. apply RunT_app in H as (za & z2 & a1 & -> & H1 & H2). destruct (run_optI a ta a0 za a1 Ha Hm H1) as [-> Fa].
  destruct (run_colon a0 v1 i1 (tb ++ tc) z2 a' Hm H2) as (b2 & z3 & -> & Hb2 & H3). apply RunT_app in H3 as (zb & zc & a2 & -> & H4 & H5).
  destruct (run_optI b tb a0 zb a2 Hb Hm H4) as [-> Fb]. destruct (run_stepT c tc a0 zc a' Hc Hm H5) as [-> Fc].
  split; [left; reflexivity|]. destruct (slice_rest zb zc Fb Fc) as (cs & es & tl & E & Dcs & Des & Dtl). rewrite E.
  assert (Build : forall st, DB (GOpt (GSeq (R r_int) S_)) st -> DB (R r_selector) (st ++ [58%N] ++ cs ++ es ++ tl)).
  { intros st Dst. dref. cbn [rule_body GAlts]. apply DAltR, DAltR, DAltL. dref. cbn [rule_body GSeqs].
    apply DSeq; [exact Dst|]. apply DSeq; [apply d_C|]. apply DSeq; [exact Dcs|]. apply DSeq; [exact Des | exact Dtl]. }
  destruct Fa as [-> | (b1 & dsa & -> & Hb1 & Da)].
  - exists b2, ([] ++ [58%N] ++ cs ++ es ++ tl). split; [reflexivity|]. split; [exact Hb2 | apply Build; apply d_opt_none].
  - exists b1, ((dsa ++ b2) ++ [58%N] ++ cs ++ es ++ tl). split; [rewrite <- !app_assoc; reflexivity|]. split; [exact Hb1 | apply Build; apply d_startS; assumption].
Qed.

(* --- logical expressions ----------------------------------------------------------------------------------------------------- *)
Ltac ftok Hs Hf := apply (fl_step _ _ _ _ Hf) in Hs; [|discriminate|discriminate]; cbn [fil_step] in Hs; inversion Hs; subst; clear Hs.

Lemma d_and_expr y : Dlev 4 y -> DB (R r_logical_and_expr) y.
Proof. intros (y1 & ys & -> & D1 & D2). dref. cbn [rule_body]. apply DSeq; assumption. Qed.
Lemma okS_fil a a1 : okS a -> same_stk a a1 -> okS (amode_set a1 MFil).
Proof. intros Ho S. apply (okS_same a); [|exact Ho]. apply (same_stk_trans a a1); [exact S | apply same_stk_mode]. Qed.

Lemma case_et_or x y tx v i ty0 : P_ET 4 x tx -> P_ET 3 y ty0 -> P_ET 3 (EOr x y) (tx ++ tk T_OR v i :: ty0).
Proof.
  intros IHx IHy a z a' Ho Hd Hf Hsc H. apply RunT_app in H as (z1 & z2 & a1 & -> & H1 & H2). apply sc_app in Hsc as [Hsc1 Hsc2].
  destruct (IHx a z1 a1 Ho Hd Hf Hsc1 H1) as (Hf1 & S1 & bx & yx & -> & Hbx & Dx).
  runc H2 k0 a2 bo z' Hs Hbo Hn Ht HR. ftok Hs Hf1. repeat (apply sc_app in Hsc2 as [_ Hsc2]).
  destruct (IHy (amode_set a1 MFil) z' a' (okS_fil a a1 Ho S1) ltac:(destruct S1 as (E & _); cbn [amode_set afd]; lia) (fl_mode_fil a1) Hsc2 HR)
    as (Hf' & S2 & bz & yy & -> & Hbz & (q1 & qs & -> & Dq1 & Dqs)).
  split; [exact Hf'|]. split; [apply (same_stk_trans a (amode_set a1 MFil)); [apply (same_stk_trans a a1); [exact S1 | apply same_stk_mode] | exact S2]|].
  exists bx, (yx ++ (bo ++ [124; 124]%N ++ bz ++ q1) ++ qs). split; [txteq|]. split; [exact Hbx|].
  exists yx, ((bo ++ [124; 124]%N ++ bz ++ q1) ++ qs). split; [reflexivity|]. split; [apply d_and_expr; exact Dx|].
  apply DStarS; [destruct bo; discriminate | | exact Dqs]. unfold or_item. cbn [GSeqs]. change ([124; 124]%N ++ bz ++ q1) with ([124%N] ++ [124%N] ++ bz ++ q1).
  apply DSeq; [apply d_S; exact Hbo|]. apply DSeq; [apply d_C|]. apply DSeq; [apply d_C|]. apply DSeq; [apply d_S; exact Hbz | exact Dq1].
Qed.
Lemma case_et_34 e t : P_ET 4 e t -> P_ET 3 e t.
Proof.
  intros IH a z a' Ho Hd Hf Hsc H. destruct (IH a z a' Ho Hd Hf Hsc H) as (Hf' & S & b & y & -> & Hb & Dy). split; [exact Hf'|]. split; [exact S|].
  exists b, y. split; [reflexivity|]. split; [exact Hb|]. exists y, []. rewrite app_nil_r. split; [reflexivity|]. split; [apply d_and_expr; exact Dy | apply DStar0].
Qed.
Lemma case_et_and x y tx v i ty0 : P_ET 5 x tx -> P_ET 4 y ty0 -> P_ET 4 (EAnd x y) (tx ++ tk T_AND v i :: ty0).
Proof.
  intros IHx IHy a z a' Ho Hd Hf Hsc H. apply RunT_app in H as (z1 & z2 & a1 & -> & H1 & H2). apply sc_app in Hsc as [Hsc1 Hsc2].
  destruct (IHx a z1 a1 Ho Hd Hf Hsc1 H1) as (Hf1 & S1 & bx & yx & -> & Hbx & Dx).
  runc H2 k0 a2 bo z' Hs Hbo Hn Ht HR. ftok Hs Hf1. repeat (apply sc_app in Hsc2 as [_ Hsc2]).
  destruct (IHy (amode_set a1 MFil) z' a' (okS_fil a a1 Ho S1) ltac:(destruct S1 as (E & _); cbn [amode_set afd]; lia) (fl_mode_fil a1) Hsc2 HR)
    as (Hf' & S2 & bz & yy & -> & Hbz & (q1 & qs & -> & Dq1 & Dqs)).
  split; [exact Hf'|]. split; [apply (same_stk_trans a (amode_set a1 MFil)); [apply (same_stk_trans a a1); [exact S1 | apply same_stk_mode] | exact S2]|].
  exists bx, (yx ++ (bo ++ [38; 38]%N ++ bz ++ q1) ++ qs). split; [txteq|]. split; [exact Hbx|].
  exists yx, ((bo ++ [38; 38]%N ++ bz ++ q1) ++ qs). split; [reflexivity|]. split; [exact Dx|].
  apply DStarS; [destruct bo; discriminate | | exact Dqs]. unfold and_item. cbn [GSeqs]. change ([38; 38]%N ++ bz ++ q1) with ([38%N] ++ [38%N] ++ bz ++ q1).
  apply DSeq; [apply d_S; exact Hbo|]. apply DSeq; [apply d_C|]. apply DSeq; [apply d_C|]. apply DSeq; [apply d_S; exact Hbz | exact Dq1].
Qed.
Lemma case_et_45 e t : P_ET 5 e t -> P_ET 4 e t.
Proof.
  intros IH a z a' Ho Hd Hf Hsc H. destruct (IH a z a' Ho Hd Hf Hsc H) as (Hf' & S & b & y & -> & Hb & Dy). split; [exact Hf'|]. split; [exact S|].
  exists b, y. split; [reflexivity|]. split; [exact Hb|]. exists y, []. rewrite app_nil_r. split; [reflexivity|]. split; [exact Dy | apply DStar0].
Qed.
Lemma case_et_57 e t : P_ET 7 e t -> P_ET 5 e t.
Proof. intros IH. exact IH. Qed.

Lemma cmp_tok_facts o a v k a1 : fl a -> astep a (cmp_tok o) = Some (k, a1) -> tshape (cmp_tok o) v ->
  k = GBl /\ a1 = amode_set a MFil /\ pre GBl (cmp_tok o) = [] /\ post (cmp_tok o) = [] /\ v <> [] /\ DB (R r_comparison_op) v.
Proof.
  intros Hf Hs Ht. assert (N1 : cmp_tok o <> T_EOF) by (destruct o; discriminate). assert (N2 : cmp_tok o <> T_LBRACKET) by (destruct o; discriminate).
  apply (fl_step _ _ _ _ Hf) in Hs; [|exact N1|exact N2].
  destruct o; cbn [cmp_tok fil_step tshape] in *; inversion Hs; subst; (split; [reflexivity|]); (split; [reflexivity|]); (split; [reflexivity|]); (split; [reflexivity|]);
    (split; [discriminate|]); dref; cbn [rule_body GAlts].
  - apply DAltL. apply (d_lit [61; 61]%N).
  - apply DAltR, DAltL. apply (d_lit [33; 61]%N).
  - apply DAltR, DAltR, DAltR, DAltR, DAltL. apply d_C.
  - apply DAltR, DAltR, DAltL. apply (d_lit [60; 61]%N).
  - apply DAltR, DAltR, DAltR, DAltR, DAltR. apply d_C.
  - apply DAltR, DAltR, DAltR, DAltL. apply (d_lit [62; 61]%N).
Qed.

Lemma case_et_cmp o x y ta v i tb : P_CT x ta -> P_CT y tb -> P_ET 5 (ECmp o x y) (ta ++ tk (cmp_tok o) v i :: tb).
Proof.
  intros IHx IHy a z a' Ho Hd Hf Hsc H. apply RunT_app in H as (z1 & z2 & a1 & -> & H1 & H2). apply sc_app in Hsc as [Hsc1 Hsc2].
  destruct (IHx a z1 a1 Ho Hd Hf Hsc1 H1) as (Hf1 & S1 & bx & yx & -> & Hbx & Dx & _).
  apply RunT_cons_inv in H2 as (k0 & a2 & bo & z' & Hs & Hbo & Hn & Ht & HR & ->). cbn [ty tval tk] in Hs, Ht.
  destruct (cmp_tok_facts o a1 v k0 a2 Hf1 Hs Ht) as (-> & -> & Epre & Epost & Hvn & Dv). cbn [ty tval tk] in *. rewrite ?Epre, ?Epost in *.
  repeat (apply sc_app in Hsc2 as [_ Hsc2]).
  destruct (IHy (amode_set a1 MFil) z' a' (okS_fil a a1 Ho S1) ltac:(destruct S1 as (E & _); cbn [amode_set afd]; lia) (fl_mode_fil a1) Hsc2 HR)
    as (Hf' & S2 & bz & yy & -> & Hbz & Dy & _).
  split; [exact Hf'|]. split; [apply (same_stk_trans a (amode_set a1 MFil)); [apply (same_stk_trans a a1); [exact S1 | apply same_stk_mode] | exact S2]|].
  exists bx, (yx ++ bo ++ v ++ bz ++ yy). split; [txteq|]. split; [exact Hbx|].
  unfold Dlev. cbn [Z.eqb Pos.eqb]. dref. cbn [rule_body GAlts]. apply DAltR, DAltL. dref. cbn [rule_body GSeqs].
  apply DSeq; [exact Dx|]. apply DSeq; [apply d_S; exact Hbo|]. apply DSeq; [exact Dv|]. apply DSeq; [apply d_S; exact Hbz | exact Dy].
Qed.

(* parentheses: "(" bumps the count of the innermost open call, ")" restores it *)
Definition bump (l : list Z) : list Z := match l with n :: r => n + 1 :: r | [] => [] end.
Definition unbump (l : list Z) : list Z := match l with n :: r => if n =? 1 then r else n - 1 :: r | [] => [] end.
Lemma unbump_bump l : Forall (fun n => 1 <= n) l -> unbump (bump l) = l.
Proof. intros H. destruct l as [|n r]; [reflexivity|]. inversion H; subst. cbn [bump unbump]. replace (n + 1 =? 1) with false by lia. f_equal. lia. Qed.
Lemma okS_bump a : okS a -> okS (mkA MFil (afd a) (affd a) (bump (afcs a))).
Proof.
  intros (O1 & O2 & O3). split; [|split; [|exact O3]]; cbn [afcs affd].
  - destruct (afcs a) as [|n r]; [constructor|]. inversion O1; subst. constructor; [lia | assumption].
  - intros d r E. specialize (O2 d r E). destruct (afcs a); cbn [bump]; unfold zlen in *; cbn [length] in *; lia.
Qed.

(* "(" logical-expr ")" read from a filter-like state *)
Lemma paren_core e t v1 i1 v2 i2 : P_ET 3 e t -> forall a z a', okS a -> 1 <= afd a -> fl a -> sc z ->
  RunT a (tk T_LPAREN v1 i1 :: t ++ [tk T_RPAREN v2 i2]) z a' ->
  fl a' /\ same_stk a a' /\ exists b y, z = b ++ y /\ blanks b /\ DB (GSeqs [C 40; S_; R r_logical_or_expr; S_; C 41]) y.
Proof.
  intros IH a z a' Ho Hd Hf Hsc H. runc H k0 a1 b z' Hs Hb Hn Ht HR. ftok Hs Hf. fold (bump (afcs a)) in HR.
  apply RunT_app in HR as (z1 & z2 & a2 & -> & H1 & H2). do 4 (apply sc_app in Hsc as [_ Hsc]). apply sc_app in Hsc as [Hsc1 Hsc2].
  destruct (IH _ z1 a2 (okS_bump a Ho) Hd (or_introl eq_refl) Hsc1 H1) as (Hf2 & (S1 & S2 & S3) & b1 & y & -> & Hb1 & Dy). cbn [afd affd afcs] in S1, S2, S3.
  runc H2 k1 a3 b2 z'' Hs2 Hb2 Hn2 Ht2 HR2. runnil HR2. ftok Hs2 Hf2. rewrite S3. fold (unbump (bump (afcs a))). rewrite (unbump_bump _ (proj1 Ho)).
  split; [left; reflexivity|]. split; [repeat split; cbn [afd affd afcs]; congruence|].
  exists b, ([40%N] ++ b1 ++ y ++ b2 ++ [41%N]). split; [txteq|]. split; [exact Hb|]. cbn [GSeqs].
  apply DSeq; [apply d_C|]. apply DSeq; [apply d_S; exact Hb1|]. apply DSeq; [apply d_or_expr; exact Dy|]. apply DSeq; [apply d_S; exact Hb2 | apply d_C].
Qed.
Lemma d_basic_paren no y : DB (GOpt (GSeq (C 33) S_)) no -> DB (GSeqs [C 40; S_; R r_logical_or_expr; S_; C 41]) y -> DB (R r_basic_expr) (no ++ y).
Proof. intros Hn Hy. dref. cbn [rule_body GAlts]. apply DAltL. dref. cbn [rule_body]. apply (DSeq _ _ _ no y Hn Hy). Qed.
Lemma d_not b : blanks b -> DB (GOpt (GSeq (C 33) S_)) ([33%N] ++ b).
Proof. intros Hb. apply d_opt_some. apply DSeq; [apply d_C | apply d_S; exact Hb]. Qed.

Lemma case_paren e t v1 i1 v2 i2 : P_ET 3 e t -> P_ET 7 e (tk T_LPAREN v1 i1 :: t ++ [tk T_RPAREN v2 i2]).
Proof.
  intros IH a z a' Ho Hd Hf Hsc H. destruct (paren_core e t v1 i1 v2 i2 IH a z a' Ho Hd Hf Hsc H) as (Hf' & S & b & y & -> & Hb & Dy).
  split; [exact Hf'|]. split; [exact S|]. exists b, ([] ++ y). split; [reflexivity|]. split; [exact Hb|]. apply d_basic_paren; [apply d_opt_none | exact Dy].
Qed.
Lemma case_not_paren x t v0 i0 v1 i1 v2 i2 : P_ET 3 x t -> P_ET 7 (ENot x) (tk T_NOT v0 i0 :: tk T_LPAREN v1 i1 :: t ++ [tk T_RPAREN v2 i2]).
Proof.
  intros IH a z a' Ho Hd Hf Hsc H. runc H k0 a1 b z' Hs Hb Hn Ht HR. ftok Hs Hf. repeat (apply sc_app in Hsc as [_ Hsc]).
  destruct (paren_core x t v1 i1 v2 i2 IH (amode_set a MFil) z' a' (okS_same _ _ (same_stk_mode a MFil) Ho) Hd (fl_mode_fil a) Hsc HR) as (Hf' & S & b1 & y & -> & Hb1 & Dy).
  split; [exact Hf'|]. split; [exact S|]. exists b, (([33%N] ++ b1) ++ y). split; [txteq|]. split; [exact Hb|]. apply d_basic_paren; [apply d_not; exact Hb1 | exact Dy].
Qed.
Lemma d_basic_test no y : DB (GOpt (GSeq (C 33) S_)) no -> DB (GAlt (R r_filter_query) (GRef id_lfn)) y -> DB (R r_basic_expr) (no ++ y).
Proof. intros Hn Hy. dref. cbn [rule_body GAlts]. apply DAltR, DAltR. apply db_test; assumption. Qed.
Lemma case_not_test x t v0 i0 : P_TT TLogical x t -> P_ET 7 (ENot x) (tk T_NOT v0 i0 :: t).
Proof.
  intros IH a z a' Ho Hd Hf Hsc H. runc H k0 a1 b z' Hs Hb Hn Ht HR. ftok Hs Hf. repeat (apply sc_app in Hsc as [_ Hsc]).
  destruct (IH (amode_set a MFil) z' a' (okS_same _ _ (same_stk_mode a MFil) Ho) Hd (fl_mode_fil a) Hsc HR) as (Hf' & S & b1 & y & -> & Hb1 & Dy & _).
  split; [exact Hf'|]. split; [exact S|]. exists b, (([33%N] ++ b1) ++ y). split; [txteq|]. split; [exact Hb|]. apply d_basic_test; [apply d_not; exact Hb1 | exact (Dy eq_refl)].
Qed.
Lemma case_et_test x t : P_TT TLogical x t -> P_ET 7 x t.
Proof.
  intros IH a z a' Ho Hd Hf Hsc H. destruct (IH a z a' Ho Hd Hf Hsc H) as (Hf' & S & b & y & -> & Hb & Dy & _).
  split; [exact Hf'|]. split; [exact S|]. exists b, ([] ++ y). split; [reflexivity|]. split; [exact Hb|]. apply d_basic_test; [apply d_opt_none | exact (Dy eq_refl)].
Qed.

(* --- comparables, tests, arguments ------------------------------------------------------------------------------------------- *)
Lemma d_lit_both y : DB (R r_literal) y -> DB (R r_comparable) y /\ DB (GRef id_varg) y.
Proof. intros H. split; [apply db_comparable | apply db_varg]; cbn [GAlts]; apply DAltL; exact H. Qed.

Lemma case_ct_lit v t : lit_tok v t -> P_CT (ELit v) [t].
Proof.
  intros Hl a z a' Ho Hd Hf Hsc H. runc H k0 a1 b z' Hs Hb Hn Ht HR. runnil HR.
  assert (Hscv : sc (tval t)) by (apply (sc_mid (b ++ pre k0 (ty t)) (tval t) (post (ty t) ++ [])); rewrite <- !app_assoc; exact Hsc).
  assert (Fin : forall y, k0 = GBl -> a1 = amode_set a MFil -> pre GBl (ty t) ++ tval t ++ post (ty t) ++ [] = y -> DB (R r_literal) y ->
                fl a1 /\ same_stk a a1 /\ exists b0 y0, b ++ pre k0 (ty t) ++ tval t ++ post (ty t) ++ [] = b0 ++ y0 /\ blanks b0 /\ DB (R r_comparable) y0 /\ DB (GRef id_varg) y0).
  { intros y -> -> Ey Dy. split; [apply fl_mode_fil|]. split; [apply same_stk_mode|]. exists b, y. rewrite Ey. split; [reflexivity|]. split; [exact Hb|]. apply d_lit_both. exact Dy. }
  destruct Hl as [[E _] | [[E _] | [[E _] | [[Hty (s0 & Hdec & _)] | [(E & Hz & x & Hp & _) | (E & Hz & x & Hp & _)]]]]].
  - rewrite E in *. cbn [tshape] in Ht. ftok Hs Hf. apply (Fin s_true); try reflexivity; [cbn [pre post]; rewrite Ht; reflexivity|].
    dref. cbn [rule_body GAlts]. apply DAltR, DAltR, DAltL. apply (d_lit s_true).
  - rewrite E in *. cbn [tshape] in Ht. ftok Hs Hf. apply (Fin s_false); try reflexivity; [cbn [pre post]; rewrite Ht; reflexivity|].
    dref. cbn [rule_body GAlts]. apply DAltR, DAltR, DAltR, DAltL. apply (d_lit s_false).
  - rewrite E in *. cbn [tshape] in Ht. ftok Hs Hf. apply (Fin s_null); try reflexivity; [cbn [pre post]; rewrite Ht; reflexivity|].
    dref. cbn [rule_body GAlts]. apply DAltR, DAltR, DAltR, DAltR. apply (d_lit s_null).
  - destruct (str_tok t s0 Hty Ht Hscv Hdec) as (q & E1 & E2 & Dq).
    assert (Hst : k0 = GBl /\ a1 = amode_set a MFil) by (destruct Hty as [E | E]; rewrite E in Hs; ftok Hs Hf; split; reflexivity). destruct Hst as [-> ->].
    apply (Fin ([q] ++ tval t ++ [q])); try reflexivity; [rewrite E1, E2, app_nil_r; reflexivity|].
    dref. cbn [rule_body GAlts]. apply DAltR, DAltL. exact Dq.
  - rewrite E in *. cbn [tshape] in Ht. ftok Hs Hf. apply (Fin (tval t)); try reflexivity; [cbn [pre post app]; rewrite app_nil_r; reflexivity|].
    dref. cbn [rule_body GAlts]. apply DAltL. apply d_number_int; [apply pmatch_lang; exact Ht | exact Hz].
  - rewrite E in *. cbn [tshape] in Ht. ftok Hs Hf. apply (Fin (tval t)); try reflexivity; [cbn [pre post app]; rewrite app_nil_r; reflexivity|].
    dref. cbn [rule_body GAlts]. apply DAltL. apply (d_number_float (tval t) x); [apply pmatch_lang; exact Ht | exact Hz | exact Hp].
Qed.
Lemma case_ct_test x t : P_TT TValue x t -> P_CT x t.
Proof.
  intros IH a z a' Ho Hd Hf Hsc H. destruct (IH a z a' Ho Hd Hf Hsc H) as (Hf' & S & b & y & -> & Hb & _ & _ & Dc).
  split; [exact Hf'|]. split; [exact S|]. exists b, y. split; [reflexivity|]. split; [exact Hb|]. exact (Dc eq_refl).
Qed.

(* --- singular queries (the operands of comparisons) ---------------------------------------------------------------------------- *)
Definition sing_item : gexp := GSeq S_ (GAlt (R r_name_segment) (R r_index_segment)).

Lemma sing_segments q t : QT q t -> singular q = true -> forall a z a', okS a -> am a = MSeg -> sc z -> RunT a t z a' -> a' = a /\ DB (GStar sing_item) z.
Proof.
  induction 1 as [|g tg q tq Hg HQ IH]; intros Hsing a z a' Ho Hm Hsc H.
  - runnil H. split; [reflexivity | apply DStar0].
  - cbn [singular forallb] in Hsing. apply andb_true_iff in Hsing as [Hg1 Hq1]. apply RunT_app in H as (z1 & z2 & a1 & -> & H1 & H2). apply sc_app in Hsc as [Hsc1 Hsc2].
    assert (Seg : a1 = a /\ DB sing_item z1 /\ z1 <> []).
    { destruct g as [ss | ss]; [|discriminate Hg1]. destruct ss as [|s0 [|s1 ss']]; try discriminate Hg1. destruct s0; try discriminate Hg1.
      - (* name *)
        inversion Hg; subst.
        + runc H1 k0 a2 b z' Hs Hb Hn Ht HR. runnil HR. stepM Hs Hm. rewrite (amode_same a MSeg Hm). split; [reflexivity|]. split; [|destruct b; discriminate].
          cbn [pre post]. rewrite !app_nil_r. apply DSeq; [apply d_S; exact Hb|]. apply DAltL. dref. cbn [rule_body]. apply DAltR.
          apply DSeq; [apply d_C | apply d_member_name; apply pmatch_lang; exact Ht].
        + match goal with Hs : ParseComplete.SelsT _ _ _ |- _ => inversion Hs; subst end.
          2:{ match goal with Hs : ParseComplete.SelsT _ [] _ |- _ => inversion Hs end. }
          match goal with Hs : ParseComplete.SelT _ _ _ |- _ => inversion Hs; subst end.
          runc H1 k0 a2 b z' Hs Hb Hn Ht HR. stepM Hs Hm. runc HR k1 a3 b1 z'' Hs1 Hb1 Hn1 Ht1 HR1.
          assert (Hst : k1 = GBl /\ a3 = amode_set a MBrk) by (unfold astep in Hs1; cbn [amode_set am] in Hs1; match goal with Hty : _ \/ _ |- _ => destruct Hty as [E | E] end; rewrite E in Hs1; inversion Hs1; split; reflexivity).
          destruct Hst as [-> ->]. runc HR1 k2 a4 b2 z3 Hs2 Hb2 Hn2 Ht2 HR2. runnil HR2. unfold astep in Hs2. cbn in Hs2. inversion Hs2; subst.
          rewrite amode_twice, (amode_same a MSeg Hm). split; [reflexivity|]. split; [|destruct b; discriminate].
          match goal with Hty : _ \/ _, Hdec : decode_string_literal ?t0 = Ok _ |- _ =>
            assert (Hscv : sc (tval t0)) by (do 6 (apply sc_app in Hsc1 as [_ Hsc1]); apply sc_app in Hsc1 as [Hsc1 _]; exact Hsc1);
            destruct (str_tok t0 _ Hty Ht1 Hscv Hdec) as (q0 & E1 & E2 & Dq)
          end.
          match goal with |- DB _ ?X => replace X with (b ++ [91%N] ++ b1 ++ ([q0] ++ tval t0 ++ [q0]) ++ b2 ++ [93%N]) by (rewrite E1, E2; txteq) end.
          apply DSeq; [apply d_S; exact Hb|]. apply DAltL. dref. cbn [rule_body GSeqs]. apply DAltL.
          apply DSeq; [apply d_C|]. apply DSeq; [apply d_S; exact Hb1|]. apply DSeq; [exact Dq|]. apply DSeq; [apply d_S; exact Hb2 | apply d_C].
      - (* index *)
        inversion Hg; subst.
        match goal with Hs : ParseComplete.SelsT _ _ _ |- _ => inversion Hs; subst end.
        2:{ match goal with Hs : ParseComplete.SelsT _ [] _ |- _ => inversion Hs end. }
        match goal with Hs : ParseComplete.SelT _ _ _ |- _ => inversion Hs; subst end.
        runc H1 k0 a2 b z' Hs Hb Hn Ht HR. stepM Hs Hm. runc HR k1 a3 b1 z'' Hs1 Hb1 Hn1 Ht1 HR1. unfold astep in Hs1. cbn in Hs1. inversion Hs1; subst.
        runc HR1 k2 a4 b2 z3 Hs2 Hb2 Hn2 Ht2 HR2. runnil HR2. unfold astep in Hs2. cbn in Hs2. inversion Hs2; subst.
        rewrite amode_twice, (amode_same a MSeg Hm). split; [reflexivity|]. split; [|destruct b; discriminate].
        match goal with Hi : int_text_ok ?ds _ |- DB _ ?X => replace X with (b ++ [91%N] ++ b1 ++ ds ++ b2 ++ [93%N]) by txteq; pose proof (d_int _ _ Hi) as Di end.
        apply DSeq; [apply d_S; exact Hb|]. apply DAltR. dref. cbn [rule_body GSeqs].
        apply DSeq; [apply d_C|]. apply DSeq; [apply d_S; exact Hb1|]. apply DSeq; [exact Di|]. apply DSeq; [apply d_S; exact Hb2 | apply d_C].
      - destruct s0; discriminate Hg1. }
    destruct Seg as (-> & D1 & Hne). destruct (IH Hq1 a z2 a' Ho Hm Hsc2 H2) as [-> D2]. split; [reflexivity | apply DStarS; assumption].
Qed.

Lemma d_segments z : DB (GStar seg_item) z -> DB (R r_segments) z.
Proof. intros H. dref. exact H. Qed.

Lemma case_tt_query (rel : bool) want q t v i : QT q t -> P_QT q t -> (want = TValue -> singular q = true) ->
  P_TT want (if rel then ERel q else EAbs q) (tk (if rel then T_CURRENT else T_ROOT) v i :: t).
Proof.
  intros HQ IH Hsing a z a' Ho Hd Hf Hsc H. runc H k0 a1 b z' Hs Hb Hn Ht HR.
  assert (Hst : k0 = GBl /\ a1 = amode_set a MSeg /\ v = [if rel then 64%N else 36%N]).
  { destruct rel; cbn [tshape] in Ht; ftok Hs Hf; repeat split; reflexivity. }
  destruct Hst as (-> & -> & ->). do 4 (apply sc_app in Hsc as [_ Hsc]).
  assert (Ho1 : okS (amode_set a MSeg)) by (apply (okS_same a); [apply same_stk_mode | exact Ho]).
  destruct (IH (amode_set a MSeg) z' a' Ho1 eq_refl Hsc HR) as [-> Dz].
  split; [right; split; [reflexivity | cbn [amode_set afd]; lia]|]. split; [apply same_stk_mode|].
  exists b, ([if rel then 64%N else 36%N] ++ z'). split; [destruct rel; txteq|]. split; [exact Hb|].
  assert (Dfq : DB (R r_filter_query) ([if rel then 64%N else 36%N] ++ z')).
  { dref. cbn [rule_body]. destruct rel; [apply DAltL | apply DAltR]; dref; cbn [rule_body]; (apply DSeq; [apply d_C | apply d_segments; exact Dz]). }
  split; [intros _; apply DAltL; exact Dfq|]. split; [intros _; exact Dfq|].
  intros Hw. destruct (sing_segments q t HQ (Hsing Hw) (amode_set a MSeg) z' (amode_set a MSeg) Ho1 eq_refl Hsc HR) as [_ Ds].
  assert (Dsq : DB (R r_singular_query) ([if rel then 64%N else 36%N] ++ z')).
  { dref. cbn [rule_body]. apply DSeq; [destruct rel; [apply DAltL | apply DAltR]; apply d_C | dref; exact Ds]. }
  split; [apply db_comparable | apply db_varg]; cbn [GAlts]; apply DAltR, DAltL; exact Dsq.
Qed.

Lemma case_tt_call want f d args t i v2 i2 : find_assoc f (reg cfg) = Some d -> ret_ok want (f_ret d) = true ->
  P_ArgsT (f_args d) args t -> P_TT want (ECall f args) (tk T_FUNCTION f i :: t ++ [tk T_RPAREN v2 i2]).
Proof.
  intros Ef Hret IH a z a' Ho Hd Hf Hsc H. runc H k0 a1 b z' Hs Hb Hn Ht HR. ftok Hs Hf.
  apply RunT_app in HR as (z1 & z2 & a2 & -> & H1 & H2). do 4 (apply sc_app in Hsc as [_ Hsc]). apply sc_app in Hsc as [Hsc1 Hsc2].
  destruct Ho as (O1 & O2 & O3).
  assert (Ho1 : okS (mkA MFil (afd a) (affd a) (1 :: afcs a))).
  { split; [constructor; [lia | exact O1]|]. cbn [affd afcs afd]. split; [intros d0 r E; specialize (O2 d0 r E); unfold zlen in *; cbn [length]; lia | exact O3]. }
  assert (Hin : TextSound.incall (mkA MFil (afd a) (affd a) (1 :: afcs a))) by (intros d0 r E; cbn [affd afcs] in *; specialize (O2 d0 r E); unfold zlen in *; cbn [length]; lia).
  destruct (IH _ z1 a2 Ho1 Hd (or_introl eq_refl) Hin Hsc1 H1) as (Hf2 & (S1 & S2 & S3) & Hargs). cbn [afd affd afcs] in S1, S2, S3.
  runc H2 k1 a3 b2 z'' Hs2 Hb2 Hn2 Ht2 HR2. runnil HR2. ftok Hs2 Hf2. rewrite S3. cbn [Z.eqb Pos.eqb].
  split; [left; reflexivity|]. split; [repeat split; cbn [afd affd afcs]; congruence|].
  exists b, (f ++ [40%N] ++ z1 ++ b2 ++ [41%N]). split; [txteq|]. split; [exact Hb|].
  (* which of the five functions, and so which typed alternative *)
  assert (One : forall fn w, ArgsD [w] z1 -> exists b1 y, z1 = b1 ++ y /\ blanks b1 /\ argD w y /\
            forall argG, DB argG y -> DB (call1 fn argG) (fn ++ [40%N] ++ z1 ++ b2 ++ [41%N])).
  { intros fn w HA. inversion HA as [| w0 b1 y Hb1 Hy | w0 tys0 b1 y b3 rest _ _ _ Hne _]; subst; [|congruence].
    exists b1, y. split; [reflexivity|]. split; [exact Hb1|]. split; [exact Hy|]. intros argG Dy. unfold call1. cbn [GSeqs].
    apply DSeq; [apply d_lit|]. apply DSeq; [apply d_C|]. rewrite <- !app_assoc. apply DSeq; [apply d_S; exact Hb1|]. apply DSeq; [exact Dy|]. apply DSeq; [apply d_S; exact Hb2 | apply d_C]. }
  assert (Two : forall fn, ArgsD [TValue; TValue] z1 -> DB (call2 fn (GRef id_varg) (GRef id_varg)) (fn ++ [40%N] ++ z1 ++ b2 ++ [41%N])).
  { intros fn HA. inversion HA as [| | w0 tys0 b1 y b3 rest Hb1 Hy Hb3 _ HR0]; subst.
    inversion HR0 as [| w1 b4 y4 Hb4 Hy4 | w1 tys1 b4 y4 b5 rest1 _ _ _ Hne _]; subst; [|congruence].
    unfold call2. cbn [GSeqs]. apply DSeq; [apply d_lit|]. apply DSeq; [apply d_C|]. rewrite <- !app_assoc. apply DSeq; [apply d_S; exact Hb1|]. apply DSeq; [exact Hy|].
    apply DSeq; [apply d_S; exact Hb3|]. cbn [app]. apply (DSeq _ _ _ [44%N] (b4 ++ y4 ++ b2 ++ [41%N])); [apply d_C|]. apply DSeq; [apply d_S; exact Hb4|]. apply DSeq; [exact Hy4|].
    apply DSeq; [apply d_S; exact Hb2 | apply d_C]. }
  assert (Vfn : DB (GRef id_vfn) (f ++ [40%N] ++ z1 ++ b2 ++ [41%N]) -> want = TValue ->
            (want = TLogical -> DB (GAlt (R r_filter_query) (GRef id_lfn)) (f ++ [40%N] ++ z1 ++ b2 ++ [41%N])) /\ (want = TNodes -> DB (R r_filter_query) (f ++ [40%N] ++ z1 ++ b2 ++ [41%N])) /\
            (want = TValue -> DB (R r_comparable) (f ++ [40%N] ++ z1 ++ b2 ++ [41%N]) /\ DB (GRef id_varg) (f ++ [40%N] ++ z1 ++ b2 ++ [41%N]))).
  { intros Dv ->. split; [discriminate|]. split; [discriminate|]. intros _. split; [apply db_comparable | apply db_varg]; cbn [GAlts]; apply DAltR, DAltR; exact Dv. }
  assert (Lfn : DB (GRef id_lfn) (f ++ [40%N] ++ z1 ++ b2 ++ [41%N]) -> want = TLogical ->
            (want = TLogical -> DB (GAlt (R r_filter_query) (GRef id_lfn)) (f ++ [40%N] ++ z1 ++ b2 ++ [41%N])) /\ (want = TNodes -> DB (R r_filter_query) (f ++ [40%N] ++ z1 ++ b2 ++ [41%N])) /\
            (want = TValue -> DB (R r_comparable) (f ++ [40%N] ++ z1 ++ b2 ++ [41%N]) /\ DB (GRef id_varg) (f ++ [40%N] ++ z1 ++ b2 ++ [41%N]))).
  { intros Dl ->. split; [intros _; apply DAltR; exact Dl|]. split; discriminate. }
  destruct (Hstd f d Ef) as [(-> & Ea & Er) | [(-> & Ea & Er) | [(-> & Ea & Er) | [(-> & Ea & Er) | (-> & Ea & Er)]]]]; rewrite Ea in Hargs; rewrite Er in Hret.
  - destruct (One s_length TValue Hargs) as (b1 & y & _ & _ & Hy & K). apply Vfn; [|destruct want; try discriminate Hret; reflexivity].
    apply DRef. change (bf_grammar id_vfn) with (GAlts [call1 s_length (GRef id_varg); call1 s_count (R r_filter_query); call1 s_value (R r_filter_query)]). cbn [GAlts]. apply DAltL. apply K. exact Hy.
  - destruct (One s_count TNodes Hargs) as (b1 & y & _ & _ & Hy & K). apply Vfn; [|destruct want; try discriminate Hret; reflexivity].
    apply DRef. change (bf_grammar id_vfn) with (GAlts [call1 s_length (GRef id_varg); call1 s_count (R r_filter_query); call1 s_value (R r_filter_query)]). cbn [GAlts]. apply DAltR, DAltL. apply K. exact Hy.
  - destruct (One s_value TNodes Hargs) as (b1 & y & _ & _ & Hy & K). apply Vfn; [|destruct want; try discriminate Hret; reflexivity].
    apply DRef. change (bf_grammar id_vfn) with (GAlts [call1 s_length (GRef id_varg); call1 s_count (R r_filter_query); call1 s_value (R r_filter_query)]). cbn [GAlts]. apply DAltR, DAltR. apply K. exact Hy.
  - apply Lfn; [|destruct want; try discriminate Hret; reflexivity]. apply DRef.
    change (bf_grammar id_lfn) with (GAlt (call2 s_match (GRef id_varg) (GRef id_varg)) (call2 s_search (GRef id_varg) (GRef id_varg))). apply DAltL. apply Two. exact Hargs.
  - apply Lfn; [|destruct want; try discriminate Hret; reflexivity]. apply DRef.
    change (bf_grammar id_lfn) with (GAlt (call2 s_match (GRef id_varg) (GRef id_varg)) (call2 s_search (GRef id_varg) (GRef id_varg))). apply DAltR. apply Two. exact Hargs.
Qed.

Lemma case_as_nil : P_ArgsT [] [] [].
Proof. intros a z a' Ho Hd Hf Hin Hsc H. runnil H. split; [exact Hf|]. split; [apply same_stk_refl|]. constructor. Qed.
Lemma case_as_one w e ta : P_ArgT w e ta -> P_ArgsT [w] [e] ta.
Proof.
  intros IH a z a' Ho Hd Hf Hin Hsc H. destruct (IH a z a' Ho Hd Hf Hsc H) as (Hf' & S & b & y & -> & Hb & Dy). split; [exact Hf'|]. split; [exact S|].
  constructor; assumption.
Qed.
Lemma case_as_cons w e ta v i tys args targs : ArgsT tys args targs -> P_ArgT w e ta -> P_ArgsT tys args targs -> args <> [] -> P_ArgsT (w :: tys) (e :: args) (ta ++ tk T_COMMA v i :: targs).
Proof.
  intros HAT IHa IHr Hne a z a' Ho Hd Hf Hin Hsc H. apply RunT_app in H as (z1 & z2 & a1 & -> & H1 & H2). apply sc_app in Hsc as [Hsc1 Hsc2].
  destruct (IHa a z1 a1 Ho Hd Hf Hsc1 H1) as (Hf1 & S1 & b & y & -> & Hb & Dy).
  runc H2 k0 a2 bc z' Hs Hbc Hn Ht HR. apply (fl_step _ _ _ _ Hf1) in Hs; [|discriminate|discriminate]. cbn [fil_step] in Hs.
  destruct S1 as (E1 & E2 & E3). destruct (affd a1) as [|d0 r0] eqn:Effd; [discriminate Hs|].
  assert (Hlt : d0 <? zlen (afcs a1) = true) by (rewrite E3; pose proof (Hin d0 r0 (eq_sym E2)); lia).
  rewrite Hlt in Hs. inversion Hs; subst k0 a2. clear Hs. do 4 (apply sc_app in Hsc2 as [_ Hsc2]).
  assert (S1' : same_stk a (amode_set a1 MFil)) by (repeat split; cbn [amode_set afd affd afcs]; congruence).
  destruct (IHr (amode_set a1 MFil) z' a' (okS_same _ _ S1' Ho) ltac:(cbn [amode_set afd]; lia) (fl_mode_fil a1)
              ltac:(intros d1 r1 E; cbn [amode_set affd afcs] in *; rewrite E3; apply (Hin d1 r1); congruence) Hsc2 HR) as (Hf' & S2 & Hr).
  split; [exact Hf'|]. split; [apply (same_stk_trans a (amode_set a1 MFil)); assumption|].
  subst v. match goal with |- ArgsD _ ?X => replace X with (b ++ y ++ bc ++ [44%N] ++ z') by txteq end.
  apply AD_cons; [exact Hb | exact Dy | exact Hbc | | exact Hr]. intros E. subst tys. inversion HAT; subst; congruence.
Qed.

Lemma case_ar_value e t : P_CT e t -> P_ArgT TValue e t.
Proof.
  intros IH a z a' Ho Hd Hf Hsc H. destruct (IH a z a' Ho Hd Hf Hsc H) as (Hf' & S & b & y & -> & Hb & _ & Da).
  split; [exact Hf'|]. split; [exact S|]. exists b, y. repeat split; assumption.
Qed.
Lemma case_ar_nodes e t : P_TT TNodes e t -> P_ArgT TNodes e t.
Proof.
  intros IH a z a' Ho Hd Hf Hsc H. destruct (IH a z a' Ho Hd Hf Hsc H) as (Hf' & S & b & y & -> & Hb & _ & Da & _).
  split; [exact Hf'|]. split; [exact S|]. exists b, y. split; [reflexivity|]. split; [exact Hb|]. exact (Da eq_refl).
Qed.
Lemma case_ar_logical e t : P_ET 3 e t -> P_ArgT TLogical e t.
Proof.
  intros IH a z a' Ho Hd Hf Hsc H. destruct (IH a z a' Ho Hd Hf Hsc H) as (Hf' & S & b & y & -> & Hb & Dy).
  split; [exact Hf'|]. split; [exact S|]. exists b, y. split; [reflexivity|]. split; [exact Hb|]. exact I.
Qed.

(* ================= all productions together ================================================================================== *)
Theorem grammar_spelled :
  (forall q t, QT q t -> P_QT q t) /\ (forall g t, SegT g t -> P_SegT g t) /\ (forall ss t, SelsT ss t -> P_SelsT ss t) /\
  (forall s t, SelT s t -> P_SelT s t) /\ (forall k e t, ET k e t -> P_ET k e t) /\ (forall e t, CT e t -> P_CT e t) /\
  (forall w e t, TT w e t -> P_TT w e t) /\ (forall tys args t, ArgsT tys args t -> P_ArgsT tys args t) /\
  (forall w a t, ArgT w a t -> P_ArgT w a t).
Proof.
  apply grammar_mutind.
  - exact case_qt_nil.
  - intros g tg q tq _ Hg _ Hq. apply case_qt_cons; assumption.
  - exact case_sg_prop.
  - exact case_sg_wild.
  - intros ss t v1 i1 v2 i2 _ H. apply case_sg_br; exact H.
  - exact case_sg_dprop.
  - exact case_sg_dwild.
  - intros ss t v0 i0 v1 i1 v2 i2 _ H. apply case_sg_dbr; exact H.
  - intros s t _ H. apply case_ss_one; exact H.
  - intros s t v i rest trest _ H _ Hr. apply case_ss_cons; assumption.
  - exact case_name.
  - exact case_index.
  - exact case_slice.
  - exact case_wild.
  - intros e t v i _ H. apply case_st_filter; exact H.
  - intros x y tx v i ty0 _ Hx _ Hy. apply case_et_or; assumption.
  - intros e t _ H. apply case_et_34; exact H.
  - intros x y tx v i ty0 _ Hx _ Hy. apply case_et_and; assumption.
  - intros e t _ H. apply case_et_45; exact H.
  - intros o a b ta v i tb _ Ha _ Hb. apply case_et_cmp; assumption.
  - intros e t _ H. apply case_et_57; exact H.
  - intros e t v1 i1 v2 i2 _ H. apply case_paren; exact H.
  - intros x t v0 i0 v1 i1 v2 i2 _ H. apply case_not_paren; exact H.
  - intros x t v0 i0 _ H. apply case_not_test; exact H.
  - intros x t _ H. apply case_et_test; exact H.
  - exact case_ct_lit.
  - intros x t _ H. apply case_ct_test; exact H.
  - intros want q t v i HQ Hq Hs. apply (case_tt_query true want q t v i HQ Hq Hs).
  - intros want q t v i HQ Hq Hs. apply (case_tt_query false want q t v i HQ Hq Hs).
  - intros want f d args t i v2 i2 Ef Hr _ HA. apply (case_tt_call want f d args t i v2 i2 Ef Hr HA).
  - exact case_as_nil.
  - intros t a ta _ H. apply case_as_one; exact H.
  - intros t a ta v i tys args targs _ Ha HAT Hr Hne. apply case_as_cons; assumption.
  - intros a t _ H. apply case_ar_value; exact H.
  - intros a t _ H. apply case_ar_nodes; exact H.
  - intros a t _ H. apply case_ar_logical; exact H.
Qed.
End B.


(* Whatever compile() accepts, in an environment whose registry is the built-in one, is a string of the grammar with well-typed built-in calls. *)
Theorem compile_text_sound_builtin cfg text q : std_only cfg -> forallb is_scalar text = true -> m_compile cfg text = Ok q -> DB (R r_jsonpath_query) text.
Proof.
  intros Hstd Hsc Hc. destruct (compile_sound_tokens cfg text q Hc) as (root & t & e & Htok & Hroot & Hwf & HQ).
  destruct (tokenize_spelled text _ Htok) as (r & ts & y & a & E & _ & -> & HRun). inversion E; subst r ts. clear E.
  destruct (Run_RunT _ _ _ _ _ HRun) as (z & HT & Ez). rewrite lastT_snoc, (wf_last t e Hwf) in Ez. cbn [post app] in Ez. rewrite app_nil_r in Ez. subst z.
  apply RunT_app in HT as (z1 & z2 & a1 & -> & H1 & H2). change (36%N :: z1 ++ z2) with ([36%N] ++ z1 ++ z2) in Hsc.
  apply sc_app in Hsc as [_ Hsc]. apply sc_app in Hsc as [Hsc1 _].
  destruct (proj1 (grammar_spelled cfg Hstd) q t HQ a0 z1 a1 okS_a0 eq_refl Hsc1 H1) as [-> Dz].
  apply RunT_cons_inv in H2 as (k0 & a2 & b & z' & Hs & Hb & Hn & Ht & HR & ->). rewrite (wf_last t e Hwf) in Hs, Ht. cbn [tshape] in Ht.
  unfold astep in Hs. cbn in Hs. inversion Hs; subst k0 a2. apply RunT_nil_inv in HR as [-> _]. rewrite (Hn eq_refl), Ht, (wf_last t e Hwf). cbn [pre post app]. rewrite app_nil_r.
  dref. cbn [rule_body]. change (36%N :: z1) with ([36%N] ++ z1). apply DSeq; [apply d_C | apply d_segments; exact Dz].
Qed.
Print Assumptions compile_text_sound_builtin.

(* the registry JSONPathEnvironment.setup_function_extensions builds (Model/Ast.v builtin_registry, tied to environment.py by Proofs/TieEnv.v) *)
Lemma builtin_std cfg : reg cfg = builtin_registry -> std cfg /\ std_only cfg.
Proof.
  intros E. split.
  - unfold std, sig_ok. rewrite E. repeat split; eexists; (split; [reflexivity | split; reflexivity]).
  - intros f d H. rewrite E in H. unfold builtin_registry in H. cbn [find_assoc] in H.
    destruct (str_eqb f Ast.s_length) eqn:E1; [apply str_eqb_eq in E1; inversion H; subst; left; repeat split; reflexivity|].
    destruct (str_eqb f Ast.s_count) eqn:E2; [apply str_eqb_eq in E2; inversion H; subst; right; left; repeat split; reflexivity|].
    destruct (str_eqb f Ast.s_match) eqn:E3; [apply str_eqb_eq in E3; inversion H; subst; right; right; right; left; repeat split; reflexivity|].
    destruct (str_eqb f Ast.s_search) eqn:E4; [apply str_eqb_eq in E4; inversion H; subst; right; right; right; right; repeat split; reflexivity|].
    destruct (str_eqb f Ast.s_value) eqn:E5; [apply str_eqb_eq in E5; inversion H; subst; right; right; left; repeat split; reflexivity | discriminate H].
Qed.

(* compile() with the built-in registry accepts exactly the strings of bf_grammar whose integers are in range *)
Theorem builtin_exact cfg s : reg cfg = builtin_registry -> forallb is_scalar s = true ->
  ((exists q, m_compile cfg s = Ok q) -> DB (R r_jsonpath_query) s) /\
  (DB (R r_jsonpath_query) s -> exists B, min_idx cfg <= - B -> B <= max_idx cfg -> exists q, m_compile cfg s = Ok q).
Proof.
  intros E Hsc. destruct (builtin_std cfg E) as [Hs Ho]. split.
  - intros (q & Hc). exact (compile_text_sound_builtin cfg s q Ho Hsc Hc).
  - intros H. destruct (abnf_builtin_compiles s H) as (B & K). exists B. intros H1 H2. apply K; [split; assumption | exact Hs].
Qed.
Print Assumptions builtin_exact.
