(* C18, nondeterministic mode on self-referential data: the traversal over a graph of cells (Model/NdGraph.v) does, step for step,
   what the traversal of Model/NdVisit.v does on the tree obtained by unfolding the graph down to the depth limit (containers at
   depth limit + 1 shown empty: the loop raises when it reaches one and never looks inside).  So everything proved for trees
   (Proofs/NdDepth.v: raises exactly when the nesting exceeds the limit, whatever the random choices; never another error; the loop
   bound suffices) carries over, with the nesting of the unfolding = the longest chain of nested containers of the graph. *)
From JP Require Import Base.Json Model.Descent Model.NdVisit Model.NdGraph Proofs.DescentProofs Proofs.EvalProofs Proofs.NdSpec Proofs.NdSim Proofs.NdDepth.
From Coq Require Import Lia.

Fixpoint unfold (g : graph) (b : nat) (id : nat) {struct b} : json :=
  match b with
  | O => match cell_of g id with CScalar => JNull | CArr _ => JArr [] | CObj _ => JObj [] end
  | S b' => match cell_of g id with
            | CScalar => JNull
            | CArr ks => JArr (map (unfold g b') ks)
            | CObj ks => JObj (map (fun kc => (fst kc, unfold g b' (snd kc))) ks)
            end
  end.

Lemma enum_from_map {A B} (f : A -> B) l : forall i, enum_from i (map f l) = map (fun p => (fst p, f (snd p))) (enum_from i l).
Proof. induction l as [|x l IH]; intros i; [reflexivity|]. cbn [map enum_from fst snd]. f_equal. apply IH. Qed.

Lemma apply_perm_map {A B} (f : A -> B) : forall fuel idx (l : list A), apply_perm fuel idx (map f l) = map f (apply_perm fuel idx l).
Proof.
  induction fuel as [|n IH]; intros idx l; [reflexivity|]. cbn [apply_perm]. destruct l as [|x l]; [reflexivity|].
  change (map f (x :: l)) with (map f (x :: l)). set (l0 := x :: l).
  assert (Hz : zlen (map f l0) = zlen l0) by (unfold zlen; rewrite map_length; reflexivity).
  replace (match map f l0 with [] => [] | _ :: _ => _ end) with
    (match nth_error (map f l0) (Z.to_nat (idx mod zlen (map f l0))) with
     | Some y => y :: apply_perm n (idx / zlen (map f l0)) (remove_nth (Z.to_nat (idx mod zlen (map f l0))) (map f l0)) | None => [] end) by reflexivity.
  rewrite Hz. rewrite nth_error_map. destruct (nth_error l0 (Z.to_nat (idx mod zlen l0))) as [y|]; cbn [option_map map]; [|reflexivity].
  f_equal. assert (Hr : forall k (m : list A), remove_nth k (map f m) = map f (remove_nth k m)).
  { intros k m. revert k. induction m as [|z m IHm]; intros k; [destruct k; reflexivity|]. destruct k; cbn [map remove_nth]; [reflexivity | f_equal; apply IHm]. }
  rewrite Hr. apply IH.
Qed.

Lemma shuffle_map {A B} (f : A -> B) script (l : list A) : shuffle script (map f l) = (map f (fst (shuffle script l)), snd (shuffle script l)).
Proof.
  unfold shuffle. destruct l as [|x [|y l]]; try reflexivity. cbn [map]. destruct (take1 script) as [p r]. cbn [fst snd].
  change (f x :: f y :: map f l) with (map f (x :: y :: l)). rewrite apply_perm_map, map_length. reflexivity.
Qed.

Section Sim.
  Variable g : graph.
  Variable limit : nat.
  Notation L := (S limit).

  (* the tree node standing for a graph node met at depth d *)
  Definition emb (d : nat) (n : gnode) : node := (fst n, unfold g (L - d) (snd n)).

  Lemma emb_cont d n : is_container (snd (emb d n)) = g_iscont g n.
  Proof. unfold emb, g_iscont. cbn [snd]. destruct (L - d)%nat; cbn [unfold]; destruct (cell_of g (snd n)); reflexivity. Qed.

  Lemma emb_children d n : (d <= limit)%nat -> children (emb d n) = map (emb (S d)) (gchildren g n).
  Proof.
    intros Hd. unfold emb, gchildren, children. cbn [fst snd]. replace (L - d)%nat with (S (L - S d)) by lia. cbn [unfold].
    destruct (cell_of g (snd n)) as [|ks|ks]; cbn [kids_of map]; [reflexivity| |].
    - rewrite enum_from_map, !map_map. apply map_ext. intros p. reflexivity.
    - rewrite !map_map. apply map_ext. intros p. reflexivity.
  Qed.

  Definition grel (D : nat) (s : ggen_state) (t : gen_state) : Prop :=
    match s with
    | GUnstarted n => t = Unstarted (emb (D - 1) n) /\ (1 <= D)%nat
    | GRemaining ns => t = Remaining (map (emb D) ns)
    end.

  Lemma gen_next_sim D script s t : grel D s t -> (D <= L)%nat ->
    gen_next script t = (option_map (emb D) (fst (fst (ggen_next g script s))),
                         match snd (fst (ggen_next g script s)) with GRemaining ns => Remaining (map (emb D) ns) | GUnstarted n => Unstarted (emb (D - 1) n) end,
                         snd (ggen_next g script s))
    /\ grel D (snd (fst (ggen_next g script s))) (match snd (fst (ggen_next g script s)) with GRemaining ns => Remaining (map (emb D) ns) | GUnstarted n => Unstarted (emb (D - 1) n) end).
  Proof.
    intros Hr HD. destruct s as [n | [|x r]]; cbn [grel] in Hr.
    - destruct Hr as [-> H1]. cbn [gen_next ggen_next].
      assert (Hk : children (emb (D - 1) n) = map (emb D) (gchildren g n)) by (rewrite emb_children by lia; replace (S (D - 1)) with D by lia; reflexivity).
      assert (Hobj : match snd (emb (D - 1) n) with JObj _ => true | _ => false end = g_isobj g n).
      { unfold emb, g_isobj. cbn [snd]. destruct (L - (D - 1))%nat; cbn [unfold]; destruct (cell_of g (snd n)); reflexivity. }
      destruct (g_isobj g n) eqn:Eo.
      + assert (Ej : exists m, snd (emb (D - 1) n) = JObj m) by (destruct (snd (emb (D - 1) n)); try discriminate; eexists; reflexivity).
        destruct Ej as [m Em]. rewrite Em. rewrite Hk, shuffle_map. destruct (shuffle script (gchildren g n)) as [items sc]. cbn [fst snd].
        destruct items as [|x r]; cbn [map fst snd option_map grel]; split; reflexivity.
      + assert (Ej : (let '(items, script') := match snd (emb (D - 1) n) with JObj _ => shuffle script (children (emb (D - 1) n)) | _ => (children (emb (D - 1) n), script) end in
                      match items with x :: r => (Some x, Remaining r, script') | [] => (None, Remaining [], script') end)
                     = match map (emb D) (gchildren g n) with x :: r => (Some x, Remaining r, script) | [] => (None, Remaining [], script) end).
        { rewrite <- Hk. destruct (snd (emb (D - 1) n)); try discriminate; reflexivity. }
        rewrite Ej. destruct (gchildren g n) as [|x r]; cbn [map fst snd option_map grel]; split; reflexivity.
    - subst t. cbn [gen_next ggen_next map fst snd option_map grel]. split; reflexivity.
    - subst t. cbn [gen_next ggen_next map fst snd option_map grel]. split; reflexivity.
  Qed.

  Definition tstate (D : nat) (s : ggen_state) : gen_state :=
    match s with GRemaining ns => Remaining (map (emb D) ns) | GUnstarted n => Unstarted (emb (D - 1) n) end.

  Lemma grel_tstate D s t : grel D s t -> t = tstate D s.
  Proof. destruct s; cbn [grel tstate]; [intros [-> _]; reflexivity | intros ->; reflexivity]. Qed.

  Lemma drain_sim D : (D <= L)%nat -> forall fuel script s t skipped, grel D s t ->
    drain fuel script t (map (emb D) skipped) =
      (map (emb D) (fst (fst (fst (gdrain g fuel script s skipped)))), option_map (emb D) (snd (fst (fst (gdrain g fuel script s skipped)))),
       tstate D (snd (fst (gdrain g fuel script s skipped))), snd (gdrain g fuel script s skipped))
    /\ grel D (snd (fst (gdrain g fuel script s skipped))) (tstate D (snd (fst (gdrain g fuel script s skipped)))).
  Proof.
    intros HD. induction fuel as [|f IH]; intros script s t skipped Hr.
    - cbn [drain gdrain fst snd option_map]. rewrite <- (grel_tstate D s t Hr). split; [reflexivity | exact Hr].
    - cbn [drain gdrain]. destruct (gen_next_sim D script s t Hr HD) as [E Hr'].
      rewrite E. fold (tstate D (snd (fst (ggen_next g script s)))) in *.
      destruct (ggen_next g script s) as [[on s'] sc']. cbn [fst snd] in *.
      destruct on as [nd|]; cbn [option_map].
      + rewrite emb_cont. destruct (g_iscont g nd); cbn [fst snd option_map].
        * split; [reflexivity | exact Hr'].
        * replace (map (emb D) skipped ++ [emb D nd]) with (map (emb D) (skipped ++ [nd])) by (rewrite map_app; reflexivity).
          apply IH. exact Hr'.
      + cbn [fst snd option_map]. split; [reflexivity | exact Hr'].
  Qed.

  Definition erel (a : ggen_state * nat) (b : gen_state * nat) : Prop := snd a = snd b /\ (snd a <= L)%nat /\ grel (snd a) (fst a) (fst b).

  Lemma F2_nth {A B} (R : A -> B -> Prop) l1 l2 : Forall2 R l1 l2 -> forall k,
    match nth_error l1 k, nth_error l2 k with Some a, Some b => R a b | None, None => True | _, _ => False end.
  Proof. induction 1 as [|a b l1 l2 Hab _ IH]; intros [|k]; cbn [nth_error]; try exact I; [exact Hab | apply IH]. Qed.
  Lemma F2_remove {A B} (R : A -> B -> Prop) l1 l2 : Forall2 R l1 l2 -> forall k, Forall2 R (remove_nth k l1) (remove_nth k l2).
  Proof. induction 1 as [|a b l1 l2 Hab H IH]; intros k; [destruct k; constructor|]. destruct k; cbn [remove_nth]; [exact H | constructor; [exact Hab | apply IH]]. Qed.
  Lemma F2_set {A B} (R : A -> B -> Prop) l1 l2 x y : Forall2 R l1 l2 -> R x y -> forall k, Forall2 R (set_nth k x l1) (set_nth k y l2).
  Proof. induction 1 as [|a b l1 l2 Hab H IH]; intros Hxy k; [destruct k; constructor|]. destruct k; cbn [set_nth]; constructor; try assumption. apply IH. exact Hxy. Qed.

  Lemma F2_length {A B} (R : A -> B -> Prop) l1 l2 : Forall2 R l1 l2 -> length l1 = length l2.
  Proof. induction 1; cbn [length]; congruence. Qed.
  Lemma map_fst_emb D ns : map fst (map (emb D) ns) = map fst ns.
  Proof. rewrite map_map. apply map_ext. reflexivity. Qed.

  Theorem loop_sim : forall fuel script gp tp gacc tacc, Forall2 erel gp tp -> map fst tacc = map fst gacc ->
    match gnd_loop g fuel limit script gp gacc with
    | Ok r => exists r', nd_loop fuel limit script tp tacc = Ok r' /\ map fst r' = map fst r
    | Err e o => nd_loop fuel limit script tp tacc = Err e o
    | Crash x => nd_loop fuel limit script tp tacc = Crash x
    | OutOfFuel => nd_loop fuel limit script tp tacc = OutOfFuel
    end.
  Proof.
    induction fuel as [|f IH]; intros script gp tp gacc tacc Hp Hacc; [reflexivity|]. cbn [gnd_loop nd_loop].
    pose proof (F2_length _ _ _ Hp) as Hlen.
    destruct gp as [|ge gp0] eqn:Egp.
    { inversion Hp; subst. eexists. split; [reflexivity|]. rewrite !map_rev. f_equal. exact Hacc. }
    destruct tp as [|te tp0] eqn:Etp; [inversion Hp|]. rewrite <- Egp, <- Etp in *.
    assert (Hz : zlen tp = zlen gp) by (unfold zlen; rewrite Hlen; reflexivity). rewrite Hz.
    destruct (take1 script) as [r script1]. set (idx := Z.to_nat (r mod zlen gp)).
    pose proof (F2_nth erel gp tp Hp idx) as Hn.
    destruct (nth_error gp idx) as [[s depth]|]; destruct (nth_error tp idx) as [[t depth']|]; try contradiction; [|reflexivity].
    destruct Hn as (Hd & HD & Hr). cbn [fst snd] in Hd, HD, Hr. subst depth'.
    destruct (drain_sim depth HD (S (S f)) script1 s t [] Hr) as [E Hr']. cbn [map] in E. rewrite E. clear E.
    destruct (gdrain g (S (S f)) script1 s []) as [[[skipped on] s'] script2]. cbn [fst snd] in *.
    destruct on as [nd|]; cbn [option_map].
    - destruct (limit <? depth)%nat eqn:El; [reflexivity|]. apply Nat.ltb_ge in El.
      apply IH.
      + apply Forall2_app; [apply F2_set; [exact Hp | repeat split; [exact HD | exact Hr']]|].
        constructor; [|constructor]. repeat split; cbn [fst snd]; [lia | replace (S depth - 1)%nat with depth by lia; reflexivity | lia].
      + cbn [map]. apply (f_equal2 cons); [reflexivity|]. rewrite !map_app. apply (f_equal2 (@app _)); [|exact Hacc]. rewrite <- map_rev, map_fst_emb. reflexivity.
    - apply IH; [apply F2_remove; exact Hp|]. rewrite !map_app. apply (f_equal2 (@app _)); [|exact Hacc]. rewrite <- map_rev, map_fst_emb. reflexivity.
  Qed.
End Sim.

(* ---- the nesting of the unfolding is the longest chain of nested containers (up to the depth unfolded) ---- *)
Lemma in_enum_from {A} (x : A) l : In x l -> forall j, exists i, In (i, x) (enum_from j l).
Proof.
  induction l as [|y l IH]; intros H j; [destruct H|]. cbn [enum_from]. destruct H as [-> | H].
  - exists j. left. reflexivity.
  - destruct (IH H (j + 1)%Z) as [i Hi]. exists i. right. exact Hi.
Qed.
Lemma enum_in_snd {A} (x : A) l : forall j i, In (i, x) (enum_from j l) -> In x l.
Proof.
  induction l as [|y l IH]; intros j i H; [destruct H|]. cbn [enum_from] in H. destruct H as [E | H].
  - inversion E; subst. left. reflexivity.
  - right. eapply IH. exact H.
Qed.

Lemma kid_of_arr g id ks kid : cell_of g id = CArr ks -> (In kid ks <-> exists k, In (k, kid) (kids_of (cell_of g id))).
Proof.
  intros E. rewrite E. cbn [kids_of]. split.
  - intros H. destruct (in_enum_from kid ks H 0%Z) as [i Hi]. exists (KIdx i). apply in_map_iff. exists (i, kid). split; [reflexivity | exact Hi].
  - intros [k H]. apply in_map_iff in H as [[i x] [E2 H]]. inversion E2; subst. eapply enum_in_snd. exact H.
Qed.
Lemma kid_of_obj g id ks kid : cell_of g id = CObj ks -> ((exists k, In (k, kid) ks) <-> exists k, In (k, kid) (kids_of (cell_of g id))).
Proof.
  intros E. rewrite E. cbn [kids_of]. split.
  - intros [k H]. exists (KName k). apply in_map_iff. exists (k, kid). split; [reflexivity | exact H].
  - intros [k H]. apply in_map_iff in H as [[s x] [E2 H]]. inversion E2; subst. exists s. exact H.
Qed.

Lemma fold_max_arr_ge l x : In x l -> (nesting x <= fold_right (fun x acc => Nat.max (nesting x) acc) O l)%nat.
Proof. induction l as [|y l IH]; intros H; [destruct H|]. cbn [fold_right]. destruct H as [-> | H]; [lia | specialize (IH H); lia]. Qed.
Lemma fold_max_obj_ge (m : list (str * json)) k x : In (k, x) m -> (nesting x <= fold_right (fun kv acc => Nat.max (nesting (snd kv)) acc) O m)%nat.
Proof. induction m as [|y m IH]; intros H; [destruct H|]. cbn [fold_right]. destruct H as [-> | H]; [cbn [snd]; lia | specialize (IH H); lia]. Qed.

Lemma unfold_chain g : forall b id, (1 <= nesting (unfold g b id))%nat -> cchain g id (nesting (unfold g b id)).
Proof.
  induction b as [|b IH]; intros id H.
  - cbn [unfold] in *. destruct (cell_of g id) eqn:Ec; cbn [nesting fold_right] in *; try lia; constructor; rewrite Ec; reflexivity.
  - cbn [unfold] in *. destruct (cell_of g id) as [|ks|ks] eqn:Ec; cbn [nesting] in *; [lia| |].
    + assert (Hc : is_cont (cell_of g id) = true) by (rewrite Ec; reflexivity).
      destruct (fold_right (fun x acc => Nat.max (nesting x) acc) O (map (unfold g b) ks)) as [|m] eqn:Ef; [constructor; exact Hc|].
      destruct (max_arr_member (map (unfold g b) ks)) as [x [Hx Hn]]; [lia|]. rewrite Ef in Hn.
      apply in_map_iff in Hx as [kid [<- Hkid]]. destruct (proj1 (kid_of_arr g id ks kid Ec) Hkid) as [k Hk].
      eapply CC_step; [exact Hk | exact Hc |]. rewrite <- Hn. apply IH. lia.
    + assert (Hc : is_cont (cell_of g id) = true) by (rewrite Ec; reflexivity).
      destruct (fold_right (fun kv acc => Nat.max (nesting (snd kv)) acc) O (map (fun kc => (fst kc, unfold g b (snd kc))) ks)) as [|m] eqn:Ef; [constructor; exact Hc|].
      destruct (max_obj_member (map (fun kc => (fst kc, unfold g b (snd kc))) ks)) as [s [x [Hx Hn]]]; [lia|]. rewrite Ef in Hn.
      apply in_map_iff in Hx as [[s' kid] [E2 Hkid]]. cbn [fst snd] in E2. assert (Ex : x = unfold g b kid) by congruence. rewrite Ex in Hn. clear E2.
      destruct (proj1 (kid_of_obj g id ks kid Ec) (ex_intro _ s' Hkid)) as [k Hk].
      eapply CC_step; [exact Hk | exact Hc |]. rewrite <- Hn. apply IH. lia.
Qed.

Lemma chain_unfold g id n : cchain g id n -> forall b, (n <= S b)%nat -> (n <= nesting (unfold g b id))%nat.
Proof.
  induction 1 as [id Hc | id k kid n Hin Hc Hch IH]; intros b Hb.
  - destruct b; cbn [unfold]; destruct (cell_of g id); try discriminate; cbn [nesting]; lia.
  - assert (1 <= n)%nat by (inversion Hch; lia). destruct b as [|b]; [lia|]. cbn [unfold].
    destruct (cell_of g id) as [|ks|ks] eqn:Ec; [discriminate| |]; cbn [nesting].
    + assert (Hk : In kid ks). { apply (proj2 (kid_of_arr g id ks kid Ec)). exists k. rewrite Ec. exact Hin. }
      pose proof (fold_max_arr_ge (map (unfold g b) ks) (unfold g b kid) (in_map _ _ _ Hk)). specialize (IH b ltac:(lia)). lia.
    + assert (Hk : exists s, In (s, kid) ks). { apply (proj2 (kid_of_obj g id ks kid Ec)). exists k. rewrite Ec. exact Hin. }
      destruct Hk as [s Hk].
      pose proof (fold_max_obj_ge (map (fun kc => (fst kc, unfold g b (snd kc))) ks) s (unfold g b kid)) as Hge.
      assert (Hm : In (s, unfold g b kid) (map (fun kc => (fst kc, unfold g b (snd kc))) ks)) by (apply in_map_iff; exists (s, kid); split; [reflexivity | exact Hk]).
      specialize (Hge Hm). specialize (IH b ltac:(lia)). lia.
Qed.

(* the tree loop from a root, with any loop bound above the one nd_visit uses *)
Lemma nd_loop_root fuel limit script root : (1 <= limit)%nat -> (2 * count_nodes (snd root) + 2 <= fuel)%nat ->
  (exists ns, nd_loop fuel limit script [(Unstarted root, 2%nat)] [root] = Ok ns /\ (nesting (snd root) <= limit)%nat)
  \/ (nd_loop fuel limit script [(Unstarted root, 2%nat)] [root] = Err ERecursion None /\ (limit < nesting (snd root))%nat).
Proof.
  intros Hl Hf.
  assert (Hphi : (phi [(Unstarted root, 2%nat)] < fuel)%nat).
  { cbn [phi fst]. unfold ecost. cbn [items]. pose proof (cost_count (snd root)).
    destruct (is_container (snd root)) eqn:Ec; [pose proof (children_cost root Ec); lia | rewrite children_scalar by exact Ec; cbn [lcost]; lia]. }
  assert (Hsh : shallow limit [(Unstarted root, 2%nat)]) by (intros g d [Hin | []]; inversion Hin; subst; lia).
  pose proof (nd_loop_depth fuel limit script _ [root] Hphi Hsh) as H.
  assert (Hiff : fits limit [(Unstarted root, 2%nat)] <-> (nesting (snd root) <= limit)%nat).
  { split.
    - intros Hfit. destruct (is_container (snd root)) eqn:Ec.
      + assert (nesting (snd root) <= S (limit - 1))%nat; [|lia]. apply nesting_container; [exact Ec|]. intros c Hc.
        specialize (Hfit (Unstarted root) 2%nat (or_introl eq_refl) c Hc). lia.
      + destruct (snd root); try discriminate; cbn [nesting]; lia.
    - intros Hn g d [Hin | []] c Hc. inversion Hin; subst. cbn [items] in Hc. pose proof (children_nesting root c Hc). lia. }
  destruct (nd_loop fuel limit script _ [root]) as [out|c o|x|]; try contradiction.
  - left. exists out. split; [reflexivity | apply Hiff; exact H].
  - right. destruct H as (-> & -> & Hnf). split; [reflexivity|]. destruct (Nat.lt_ge_cases limit (nesting (snd root))) as [Hlt | Hge]; [exact Hlt | exfalso; apply Hnf; apply Hiff; exact Hge].
Qed.

(* ---- the traversal of a graph: completes with every node reached exactly when no chain of more than `limit` nested containers starts at
   the root, raises JSONPathRecursionError otherwise; never anything else; within a number of loop iterations fixed by graph and limit ---- *)
Definition gnd_bound (g : graph) (limit id : nat) : nat := 2 * count_nodes (unfold g limit id) + 2.

Lemma gnd_visit_sim g limit script loc id fuel : (1 <= limit)%nat ->
  match gnd_visit g fuel limit script (loc, id) with
  | Ok r => exists r', nd_loop fuel limit script [(Unstarted (loc, unfold g limit id), 2%nat)] [(loc, unfold g limit id)] = Ok r' /\ map fst r' = map fst r
  | Err e o => nd_loop fuel limit script [(Unstarted (loc, unfold g limit id), 2%nat)] [(loc, unfold g limit id)] = Err e o
  | Crash x => nd_loop fuel limit script [(Unstarted (loc, unfold g limit id), 2%nat)] [(loc, unfold g limit id)] = Crash x
  | OutOfFuel => nd_loop fuel limit script [(Unstarted (loc, unfold g limit id), 2%nat)] [(loc, unfold g limit id)] = OutOfFuel
  end.
Proof.
  intros Hl. unfold gnd_visit. assert (E : (limit <? 1)%nat = false) by (apply Nat.ltb_ge; exact Hl). rewrite E.
  set (troot := (loc, unfold g limit id) : node).
  assert (Hroot : emb g limit 1 (loc, id) = troot) by (unfold emb, troot; cbn [fst snd]; replace (S limit - 1)%nat with limit by lia; reflexivity).
  assert (Hp : Forall2 (erel g limit) [(GUnstarted (loc, id), 2%nat)] [(Unstarted troot, 2%nat)]).
  { constructor; [|constructor]. repeat split; cbn [fst snd]; [lia | rewrite <- Hroot; reflexivity | lia]. }
  exact (loop_sim g limit fuel script [(GUnstarted (loc, id), 2%nat)] [(Unstarted troot, 2%nat)] [(loc, id)] [troot] Hp eq_refl).
Qed.

Theorem gnd_visit_outcome g limit script loc id fuel : (1 <= limit)%nat -> (gnd_bound g limit id <= fuel)%nat ->
  (~ cchain g id (S limit) /\ exists r, gnd_visit g fuel limit script (loc, id) = Ok r)
  \/ (cchain g id (S limit) /\ gnd_visit g fuel limit script (loc, id) = Err ERecursion None).
Proof.
  intros Hl Hf. pose proof (gnd_visit_sim g limit script loc id fuel Hl) as Hs.
  set (T := unfold g limit id) in *.
  destruct (nd_loop_root fuel limit script (loc, T) Hl Hf) as [(ns & En & Hn) | (En & Hn)]; cbn [snd] in Hn.
  - left. split.
    + intros Hc. pose proof (chain_unfold g id (S limit) Hc limit (le_n _)) as H. fold T in H. lia.
    + destruct (gnd_visit g fuel limit script (loc, id)) as [r|c o|x|]; [exists r; reflexivity | pose proof (eq_trans (eq_sym En) Hs) as X; discriminate X ..].
  - right. split.
    + pose proof (unfold_chain g limit id ltac:(fold T; lia)) as Hc. fold T in Hc. destruct (nesting T) as [|m] eqn:Em; [lia|].
      eapply cchain_shorter; [exact Hc | lia].
    + destruct (gnd_visit g fuel limit script (loc, id)) as [r|c o|x|].
      * destruct Hs as (r' & Hr' & _). pose proof (eq_trans (eq_sym En) Hr') as X. discriminate X.
      * pose proof (eq_trans (eq_sym En) Hs) as X. inversion X; subst. reflexivity.
      * pose proof (eq_trans (eq_sym En) Hs) as X. discriminate X.
      * pose proof (eq_trans (eq_sym En) Hs) as X. discriminate X.
Qed.

Theorem gnd_cyclic_raises g limit script loc id fuel : (1 <= limit)%nat -> (gnd_bound g limit id <= fuel)%nat -> reaches g id id ->
  gnd_visit g fuel limit script (loc, id) = Err ERecursion None.
Proof.
  intros Hl Hf Hr. destruct (gnd_visit_outcome g limit script loc id fuel Hl Hf) as [[Hn _] | [_ E]]; [|exact E].
  exfalso. apply Hn. apply cyclic_has_long_chains; [exact Hr | lia].
Qed.

(* a result, when there is one, lists the locations the traversal of the unfolding lists: a valid order of all its nodes *)
Theorem gnd_visit_locations g limit script loc id fuel r : (1 <= limit)%nat -> gnd_visit g fuel limit script (loc, id) = Ok r ->
  exists r', nd_loop fuel limit script [(Unstarted (loc, unfold g limit id), 2%nat)] [(loc, unfold g limit id)] = Ok r' /\ map fst r' = map fst r.
Proof. intros Hl Er. pose proof (gnd_visit_sim g limit script loc id fuel Hl) as Hs. rewrite Er in Hs. exact Hs. Qed.
