(* C19 (and stage 1 of C03/C04): invariants of the lexer state machine.  For the text q being scanned, in every
   reachable lexer state: the consumed/pending/remaining parts partition q at the recorded offsets, every token
   carries the slice of q found at its index, and every bracket-stack entry is an offset inside q.  Every error
   the lexer or tokenize() raises therefore names an offset of q. *)
From JP Require Import Base.Prelude Model.Regex Model.Tokens Model.Lex.

(* --- regular-expression matches consume a prefix ------------------------------------------------- *)
Lemma rm_bound (total : Z) (Q := fun x : Z => 0 <= x <= total) :
  forall fuel r s n k x,
    (forall s' n', 0 <= n' -> n' + zlen s' = total -> k s' n' = Some x -> Q x) ->
    0 <= n -> n + zlen s = total -> rm fuel r s n k = Some x -> Q x.
Proof.
  induction fuel as [|f IH]; intros r s n k x Hk Hn Ht H; [discriminate|].
  cbn [rm] in H. destruct r as [|neg rs|a b|a b|a].
  - eapply Hk; eauto.
  - destruct s as [|c s']; [discriminate|]. destruct (xorb neg (in_ranges c rs)); [|discriminate].
    eapply Hk; [| |exact H]; [lia|]. unfold zlen in *. cbn [length] in Ht. lia.
  - eapply (IH a s n); [| exact Hn | exact Ht | exact H]. intros s' n' Hn' Ht' H'. eapply (IH b s' n'); eauto.
  - destruct (rm f a s n k) eqn:E.
    + injection H as <-. eapply (IH a s n k); eauto.
    + eapply (IH b s n k); eauto.
  - match type of H with match ?X with _ => _ end = _ => destruct X eqn:E end.
    + injection H as <-. eapply (IH a s n); [| exact Hn | exact Ht | exact E].
      intros s' n' Hn' Ht' H'. cbv beta in H'. revert H'. destruct (n' =? n); [discriminate|]. intros H'. eapply (IH (RStar a) s' n'); eauto.
    + eapply Hk; eauto.
Qed.
Lemma re_match_bound r s n : re_match r s = Some n -> 0 <= n <= zlen s.
Proof.
  unfold re_match. intros H. eapply (rm_bound (zlen s)); [| | |exact H]; [|lia|lia].
  intros s' n' Hn' Ht' H'. inversion H'; subst. unfold zlen in *. lia.
Qed.

(* --- the invariant ------------------------------------------------------------------------------ *)
Definition tok_ok (q : str) (t : token) : Prop := exists a b, q = a ++ tval t ++ b /\ zlen a = tidx t.
Definition off_ok (q : str) (i : Z) : Prop := 0 <= i <= zlen q.
Record Inv (q : str) (l : lexer) : Prop := {
  inv_geo : exists pre, q = pre ++ rev (l_cur l) ++ l_rest l /\ zlen pre = l_start l /\ l_pos l = l_start l + zlen (l_cur l);
  inv_toks : Forall (tok_ok q) (l_toks l);
  inv_bs : Forall (fun e => off_ok q (snd e)) (l_bs l)
}.

Lemma zl_app {A} (a b : list A) : zlen (a ++ b) = zlen a + zlen b.
Proof. unfold zlen. rewrite app_length. lia. Qed.
Lemma zl_rev {A} (a : list A) : zlen (rev a) = zlen a.
Proof. unfold zlen. rewrite rev_length. reflexivity. Qed.
Lemma zl_cons {A} (x : A) l : zlen (x :: l) = zlen l + 1.
Proof. unfold zlen. cbn [length]. lia. Qed.
Lemma zl_nonneg {A} (l : list A) : 0 <= zlen l. Proof. unfold zlen. lia. Qed.

Lemma tok_ok_off q t : tok_ok q t -> off_ok q (tidx t).
Proof.
  intros (a & b & -> & <-). unfold off_ok. rewrite !zl_app. pose proof (zl_nonneg a). pose proof (zl_nonneg (tval t)). pose proof (zl_nonneg b). lia.
Qed.
Lemma inv_pos q l : Inv q l -> 0 <= l_start l /\ l_start l <= l_pos l /\ l_pos l + zlen (l_rest l) = zlen q.
Proof.
  intros [(pre & E & Hs & Hp) _ _]. rewrite E, !zl_app, zl_rev, Hp, <- Hs.
  pose proof (zl_nonneg pre). pose proof (zl_nonneg (l_cur l)). lia.
Qed.
Lemma inv_pos_ok q l : Inv q l -> off_ok q (l_pos l).
Proof. intros H. destruct (inv_pos q l H) as (A & B & C). unfold off_ok. pose proof (zl_nonneg (l_rest l)). lia. Qed.

Lemma inv_init q : Inv q (lexer_init q).
Proof. split; cbn; [exists []; repeat split | constructor | constructor]. Qed.

Ltac lsimpl := cbn [l_ignore l_rest l_cur l_start l_pos l_toks l_bs l_fdepth l_ffd l_fcs upd_text add_tok set_stacks snd fst].

(* --- the primitives of the Lexer class keep it ----------------------------------------------------- *)
Lemma inv_next_snd q l : Inv q l -> Inv q (snd (l_next l)).
Proof.
  intros H. unfold l_next. destruct (l_rest l) as [|c r] eqn:Er; [exact H|]. cbn [snd].
  destruct H as [(pre & E & Hs & Hp) Ht Hb]. split; lsimpl; [|exact Ht|exact Hb].
  exists pre. rewrite Er in E. repeat split; [rewrite E; cbn [rev]; rewrite <- app_assoc; reflexivity | exact Hs | rewrite zl_cons; lia].
Qed.
Lemma inv_next q l c l1 : l_next l = (c, l1) -> Inv q l -> Inv q l1.
Proof. intros E H. replace l1 with (snd (l_next l)) by (rewrite E; reflexivity). apply inv_next_snd. exact H. Qed.
Lemma next_pos l c l1 : l_next l = (Some c, l1) -> l_pos l1 = l_pos l + 1.
Proof. unfold l_next. destruct (l_rest l); intros H; inversion H. reflexivity. Qed.
Lemma inv_ignore q l : Inv q l -> Inv q (l_ignore l).
Proof.
  intros [(pre & E & Hs & Hp) Ht Hb]. split; lsimpl; [|exact Ht|exact Hb].
  exists (pre ++ rev (l_cur l)). repeat split; [rewrite E, <- app_assoc; reflexivity | rewrite zl_app, zl_rev; lia | change (zlen (@nil N)) with 0; lia].
Qed.
Lemma inv_backup q l l2 : l_backup l = Some l2 -> Inv q l -> Inv q l2.
Proof.
  unfold l_backup. destruct (l_cur l) as [|c cur'] eqn:Ec; [discriminate|]. intros H; inversion H; subst l2. clear H.
  intros [(pre & E & Hs & Hp) Ht Hb]. split; lsimpl; [|exact Ht|exact Hb].
  exists pre. rewrite Ec in E, Hp. cbn [rev] in E. rewrite <- app_assoc in E. repeat split; [exact E | exact Hs | rewrite zl_cons in Hp; lia].
Qed.
Lemma inv_add_tok q l t : Inv q l -> tok_ok q t -> Inv q (add_tok l t).
Proof. intros [G Ht Hb] Hk. split; lsimpl; [exact G | constructor; assumption | exact Hb]. Qed.
Lemma cur_tok_ok q l t : Inv q l -> tok_ok q {| ty := t; tval := rev (l_cur l); tidx := l_start l |}.
Proof. intros [(pre & E & Hs & Hp) _ _]. exists pre, (l_rest l). split; [exact E | exact Hs]. Qed.
Lemma inv_emit q t l : Inv q l -> Inv q (l_emit t l).
Proof. intros H. unfold l_emit. apply inv_ignore, inv_add_tok; [exact H | apply cur_tok_ok; exact H]. Qed.
Lemma emit_pos t l : l_pos (l_emit t l) = l_pos l. Proof. reflexivity. Qed.
Lemma emit_bs t l : l_bs (l_emit t l) = l_bs l. Proof. reflexivity. Qed.

Lemma skipn_push_spec : forall k rest cur, (k <= length rest)%nat ->
  skipn_push k rest cur = (skipn k rest, rev (firstn k rest) ++ cur).
Proof.
  induction k as [|k IH]; intros rest cur Hk; [reflexivity|]. destruct rest as [|c r]; [cbn [length] in Hk; lia|].
  cbn [skipn_push skipn firstn rev length] in *. rewrite IH by lia. rewrite <- app_assoc. reflexivity.
Qed.
Lemma inv_advance q l n : 0 <= n <= zlen (l_rest l) -> Inv q l -> Inv q (l_advance l n).
Proof.
  intros Hn [(pre & E & Hs & Hp) Ht Hb]. unfold l_advance.
  rewrite skipn_push_spec by (unfold zlen in Hn; lia). split; lsimpl; [|exact Ht|exact Hb].
  exists pre. repeat split; [|exact Hs|].
  - rewrite rev_app_distr, rev_involutive, <- app_assoc, firstn_skipn. exact E.
  - rewrite zl_app, zl_rev. unfold zlen at 1. rewrite firstn_length_le by (unfold zlen in Hn; lia). lia.
Qed.
Lemma inv_accept_match q r l b l' : l_accept_match r l = (b, l') -> Inv q l -> Inv q l'.
Proof.
  unfold l_accept_match. destruct (re_match r (l_rest l)) as [n|] eqn:E; intros H Hi; inversion H; subst; [|exact Hi].
  apply inv_advance; [apply re_match_bound in E; exact E | exact Hi].
Qed.
Lemma is_prefix_len : forall p s, is_prefix p s = true -> zlen p <= zlen s.
Proof.
  induction p as [|c p IH]; intros s H; [unfold zlen; cbn [length]; lia|]. destruct s as [|d s]; [discriminate|].
  cbn [is_prefix] in H. apply andb_true_iff in H as [_ H]. apply IH in H. rewrite !zl_cons. lia.
Qed.
Lemma inv_accept q p l b l' : l_accept p l = (b, l') -> Inv q l -> Inv q l'.
Proof.
  unfold l_accept. destruct (is_prefix p (l_rest l)) eqn:E; intros H Hi; inversion H; subst; [|exact Hi].
  apply inv_advance; [pose proof (zl_nonneg p); apply is_prefix_len in E; lia | exact Hi].
Qed.
Lemma inv_ignore_ws q l b l' : l_ignore_ws l = Some (b, l') -> Inv q l -> Inv q l'.
Proof.
  unfold l_ignore_ws. destruct (l_cur l); [|discriminate]. destruct (l_accept_match RE_WHITESPACE l) as [w a] eqn:E.
  intros H Hi; inversion H; subst. pose proof (inv_accept_match q _ _ _ _ E Hi) as Ha. destruct b; [apply inv_ignore|]; exact Ha.
Qed.
Lemma inv_set_stacks q l fd ffd fcs bs : Inv q l -> Forall (fun e => off_ok q (snd e)) bs -> Inv q (set_stacks l fd ffd fcs bs).
Proof. intros [G Ht Hb] H. split; lsimpl; assumption. Qed.
Lemma inv_set_stacks_same q l fd ffd fcs : Inv q l -> Inv q (set_stacks l fd ffd fcs (l_bs l)).
Proof. intros H. apply inv_set_stacks; [exact H | apply (inv_bs q l H)]. Qed.
Lemma inv_set_stacks_tail q l fd ffd fcs x bs' : l_bs l = x :: bs' -> Inv q l -> Inv q (set_stacks l fd ffd fcs bs').
Proof. intros E H. apply inv_set_stacks; [exact H|]. pose proof (inv_bs q l H) as Hb. rewrite E in Hb. inversion Hb; assumption. Qed.
Lemma inv_push_bracket q c idx l : Inv q l -> off_ok q idx -> Inv q (push_bracket c idx l).
Proof. intros H Hi. unfold push_bracket. apply inv_set_stacks; [exact H|]. constructor; [exact Hi | apply (inv_bs q l H)]. Qed.
Lemma inv_push_after_next q l0 c l1 k t : l_next l0 = (Some c, l1) -> Inv q l0 ->
  Inv q (push_bracket k (l_pos l1 - 1) (l_emit t l1)).
Proof.
  intros E H. apply inv_push_bracket; [apply inv_emit; eapply inv_next; eauto|].
  rewrite (next_pos _ _ _ E). replace (l_pos l0 + 1 - 1) with (l_pos l0) by lia. apply inv_pos_ok. exact H.
Qed.
Lemma inv_push_pos q c l : Inv q l -> Inv q (push_bracket c (l_pos l) l).
Proof. intros H. apply inv_push_bracket; [exact H | apply inv_pos_ok; exact H]. Qed.
Lemma inv_emit2 q l c t2 t1 : Inv q l -> Inv q (emit2 l c t2 t1).
Proof. intros H. unfold emit2. destruct (ceq (l_peek l) c); apply inv_emit; [apply inv_next_snd|]; exact H. Qed.

(* --- one transition of the state machine -------------------------------------------------------- *)
Definition step_ok (q : str) (o : lexout) : Prop :=
  match o with
  | LNext _ l' => Inv q l'
  | LStop l' => Inv q l'
  | LRaise _ off => off_ok q off
  | LCrash _ => True
  end.
Lemma step_ok_error q l : Inv q l -> step_ok q (l_error l).
Proof. intros H. unfold l_error. cbn [step_ok]. apply inv_add_tok; [exact H | apply cur_tok_ok; exact H]. Qed.

Create HintDb lexinv.
#[local] Hint Resolve inv_next_snd inv_next inv_ignore inv_backup inv_emit inv_accept_match inv_accept inv_ignore_ws
  inv_set_stacks_same inv_set_stacks_tail inv_push_after_next inv_push_pos inv_emit2 step_ok_error inv_pos_ok : lexinv.

Ltac head_split :=
  repeat match goal with
  | |- step_ok _ (let '(_, _) := ?X in _) => destruct X as [? ?] eqn:?
  | |- step_ok _ (match ?X with _ => _ end) => first [is_var X; destruct X | destruct X eqn:?]
  | |- step_ok _ (if ?X then _ else _) => destruct X eqn:?
  end.
Ltac inner_split :=
  repeat match goal with
  | |- context [match ?X with _ => _ end] => first [is_var X; destruct X | destruct X eqn:?]
  end.
Ltac leaf := cbn [step_ok]; eauto 12 with lexinv.

Theorem lex_step_inv q st l : Inv q l -> step_ok q (lex_step st l).
Proof.
  intros H. destruct st; cbn [lex_step]; head_split; try (solve [leaf]); inner_split; try (solve [leaf]).
Qed.

(* --- the run loop and tokenize() ----------------------------------------------------------------- *)
Theorem lex_run_inv q : forall fuel st l, Inv q l ->
  match lex_run fuel st l with
  | Ok l' => Inv q l'
  | Err _ (Some off) => off_ok q off
  | Err _ None => False
  | _ => True
  end.
Proof.
  induction fuel as [|f IH]; intros st l H; [exact I|]. cbn [lex_run].
  pose proof (lex_step_inv q st l H) as Hs. destruct (lex_step st l); cbn [step_ok] in Hs; [apply IH; exact Hs | exact Hs | exact Hs | exact I].
Qed.

Theorem tokenize_offsets q :
  match m_tokenize q with
  | Ok toks => Forall (tok_ok q) toks
  | Err _ (Some off) => off_ok q off
  | Err _ None => False
  | _ => True
  end.
Proof.
  unfold m_tokenize. pose proof (lex_run_inv q (lex_fuel q) SRoot (lexer_init q) (inv_init q)) as H.
  destruct (lex_run (lex_fuel q) SRoot (lexer_init q)) as [l| c [off|] | x |]; cbn [bind]; try exact H.
  destruct H as [_ Ht Hb].
  assert (Hbs : match l_bs l with (_, idx) :: _ => off_ok q idx | [] => True end).
  { destruct (l_bs l) as [|[c idx] r]; [exact I|]. inversion Hb; assumption. }
  destruct (l_toks l) as [|t ts] eqn:Et.
  - destruct (l_bs l) as [|[c idx] r]; [constructor | exact Hbs].
  - destruct (ttype_eqb (ty t) T_ERROR).
    + apply tok_ok_off. inversion Ht; assumption.
    + destruct (l_bs l) as [|[c idx] r]; [|exact Hbs]. apply Forall_rev. exact Ht.
Qed.

(* --- a successful run ends with the EOF token ------------------------------------------------------- *)
Definition stop_ok (o : lexout) : Prop :=
  match o with
  | LStop l' => exists t ts, l_toks l' = t :: ts /\ (ty t = T_ERROR \/ ty t = T_EOF)
  | _ => True
  end.
Lemma lex_step_stop st l : stop_ok (lex_step st l).
Proof.
  destruct st; cbn [lex_step];
    repeat match goal with
    | |- stop_ok (let '(_, _) := ?X in _) => destruct X as [? ?]
    | |- stop_ok (match ?X with _ => _ end) => destruct X
    | |- stop_ok (if ?X then _ else _) => destruct X
    end;
    try exact I; unfold l_error, l_emit; cbn [stop_ok l_toks l_ignore upd_text add_tok]; eexists; eexists; (split; [reflexivity|]); cbn [ty]; auto.
Qed.
Lemma lex_run_stop : forall fuel st l l', lex_run fuel st l = Ok l' ->
  exists t ts, l_toks l' = t :: ts /\ (ty t = T_ERROR \/ ty t = T_EOF).
Proof.
  induction fuel as [|f IH]; intros st l l' H; [discriminate|]. cbn [lex_run] in H.
  pose proof (lex_step_stop st l) as Hs. destruct (lex_step st l); try discriminate.
  - eapply IH; exact H.
  - injection H as <-. exact Hs.
Qed.
Theorem tokenize_ends_with_eof q toks : m_tokenize q = Ok toks -> toks <> [] /\ ty (last toks eof_token) = T_EOF.
Proof.
  unfold m_tokenize. destruct (lex_run (lex_fuel q) SRoot (lexer_init q)) as [l| | |] eqn:E; cbn [bind]; try discriminate.
  destruct (lex_run_stop _ _ _ _ E) as (t & ts & Et & Hty). rewrite Et.
  destruct (ttype_eqb (ty t) T_ERROR) eqn:Ee; [discriminate|].
  destruct (l_bs l) as [|[c idx] r]; [|discriminate]. intros H. injection H as <-.
  cbn [rev]. split; [destruct (rev ts); discriminate|]. rewrite last_last.
  destruct Hty as [Hty | Hty]; [rewrite Hty in Ee; discriminate | exact Hty].
Qed.
