(* C17, model side: whatever the random choices (the script), what _nondeterministic_visit yields is produced by the
   frontier relation of Proofs/NdSpec.v - hence (reach_valid) a valid order - and the fuel the model gives the loop
   always suffices. *)
From JP Require Import Base.Json Spec.Sem Spec.Nondet Model.NdVisit Proofs.NdSpec.
From Coq Require Import Permutation.

(* --- random.shuffle returns a permutation ------------------------------------------------------------------- *)
Lemma remove_nth_perm {A} : forall (l : list A) j x, nth_error l j = Some x -> Permutation l (x :: remove_nth j l).
Proof.
  induction l as [|a l IH]; intros j x H; [destruct j; discriminate|]. destruct j as [|j]; cbn [nth_error remove_nth] in *.
  - inversion H. apply Permutation_refl.
  - eapply perm_trans; [apply perm_skip; apply (IH j x H) | apply perm_swap].
Qed.
Lemma remove_nth_length {A} : forall (l : list A) j x, nth_error l j = Some x -> length (remove_nth j l) = pred (length l).
Proof. intros l j x H. apply remove_nth_perm in H. apply Permutation_length in H. cbn [length] in H. lia. Qed.

Lemma apply_perm_perm {A} : forall fuel idx (pool : list A), (length pool <= fuel)%nat -> Permutation pool (apply_perm fuel idx pool).
Proof.
  induction fuel as [|f IH]; intros idx pool Hf.
  - destruct pool; [constructor | cbn [length] in Hf; lia].
  - cbn [apply_perm]. destruct pool as [|a pool]; [constructor|].
    set (P := a :: pool) in *. set (k := zlen P).
    assert (Hk : 0 < k) by (unfold k, zlen, P; cbn [length]; lia).
    assert (Hj : (Z.to_nat (idx mod k) < length P)%nat).
    { pose proof (Z.mod_pos_bound idx k Hk). unfold k, zlen in *. lia. }
    destruct (nth_error P (Z.to_nat (idx mod k))) as [x|] eqn:En; [|apply nth_error_None in En; lia].
    eapply perm_trans; [apply (remove_nth_perm _ _ _ En)|]. apply perm_skip. apply IH.
    rewrite (remove_nth_length _ _ _ En). unfold P in *. cbn [length] in *. lia.
Qed.
Lemma shuffle_perm {A} script (items : list A) : Permutation items (fst (shuffle script items)).
Proof.
  unfold shuffle. destruct items as [|a [|b r]]; try apply Permutation_refl. destruct (take1 script) as [p s]. cbn [fst].
  apply apply_perm_perm. apply le_n.
Qed.

(* --- steps of the frontier, insensitive to queue order and to empty queues -------------------------------------- *)
Definition lstep (qs : list (list node)) (x : node) (qs' : list (list node)) : Prop :=
  exists q r, Permutation (ne qs) ((x :: q) :: r) /\ Permutation (ne qs') (ne (q :: r)).

Lemma ne_idem {A} (qs : list (list A)) : ne (ne qs) = ne qs.
Proof. unfold ne. induction qs as [|q qs IH]; [reflexivity|]. cbn [filter]. destruct (nonnil q) eqn:E; [cbn [filter]; rewrite E, IH|]; auto. Qed.

Lemma ne_all {A} (l : list (list A)) : (forall q, In q l -> nonnil q = true) -> ne l = l.
Proof.
  induction l as [|a l IH]; intros H; [reflexivity|]. unfold ne in *. cbn [filter]. rewrite (H a (or_introl eq_refl)). f_equal.
  apply IH. intros q Hq. apply H. right. exact Hq.
Qed.
Lemma ne_in {A} (qs : list (list A)) q : In q (ne qs) -> nonnil q = true.
Proof. unfold ne. intros H. apply filter_In in H. tauto. Qed.

Lemma lstep_reach qs x qs' rest : lstep qs x qs' -> reach (qs' ++ queues_of x) rest -> reach qs (x :: rest).
Proof.
  intros (q & r & H1 & H2) Hr.
  apply (reach_perm_ne (x :: rest) ((x :: q) :: r) qs).
  - apply Permutation_sym. eapply perm_trans; [exact H1|].
    rewrite ne_all; [apply Permutation_refl|]. intros q0 Hq0. apply (ne_in qs). eapply Permutation_in; [apply Permutation_sym; exact H1 | exact Hq0].
  - cbn [reach]. exists (q :: r). split; [exists q, r; split; [apply Permutation_refl | reflexivity]|].
    apply (reach_perm_ne rest (qs' ++ queues_of x)); [|exact Hr]. rewrite !ne_app. apply Permutation_app_tail. exact H2.
Qed.

Lemma lstep_frame qa qb qe x qe' : lstep qe x qe' -> lstep (qa ++ qe ++ qb) x (qa ++ qe' ++ qb).
Proof.
  intros (q & r & H1 & H2). exists q, (r ++ ne qa ++ ne qb). split.
  - rewrite !ne_app. eapply perm_trans; [apply Permutation_app_comm|]. rewrite <- app_assoc.
    eapply perm_trans; [apply Permutation_app_tail; exact H1|]. cbn [app]. apply perm_skip. apply Permutation_app_head. apply Permutation_app_comm.
  - rewrite !ne_app. change (q :: r ++ ne qa ++ ne qb) with ((q :: r) ++ (ne qa ++ ne qb)). rewrite ne_app, ne_app, !ne_idem.
    eapply perm_trans; [apply Permutation_app_comm|]. rewrite <- app_assoc.
    eapply perm_trans; [apply Permutation_app_tail; exact H2|]. apply Permutation_app_head. apply Permutation_app_comm.
Qed.

(* --- generators and the queues they stand for ---------------------------------------------------------------------- *)
Inductive erel : gen_state -> list (list node) -> Prop :=
| er_unstarted n : erel (Unstarted n) (queues_of n)
| er_queue ns : erel (Remaining ns) [ns]                               (* what is left of an array *)
| er_single ns : erel (Remaining ns) (map (fun c => [c]) ns).          (* what is left of an object, in the shuffled order *)

Definition items (g : gen_state) : list node := match g with Unstarted n => children n | Remaining ns => ns end.

Lemma ne_singles (ns : list node) : ne (map (fun c => [c]) ns) = map (fun c => [c]) ns.
Proof. apply ne_all. intros q H. apply in_map_iff in H as [c [<- _]]. reflexivity. Qed.
Lemma erel_concat g qe : erel g qe -> concat qe = items g.
Proof. intros []; cbn [items]; [apply concat_queues_of | cbn; apply app_nil_r | apply concat_singletons]. Qed.

Lemma lstep_head (x : node) q : lstep [x :: q] x [q].
Proof. exists q, []. split; apply Permutation_refl. Qed.
Lemma lstep_singles x (r l : list node) : Permutation l (x :: r) -> lstep (map (fun c => [c]) l) x (map (fun c => [c]) r).
Proof.
  intros H. exists [], (map (fun c => [c]) r). split.
  - rewrite ne_singles. apply (Permutation_map (fun c => [c])) in H. exact H.
  - rewrite ne_singles. cbn [ne filter nonnil]. fold (@ne node (map (fun c => [c]) r)). rewrite ne_singles. apply Permutation_refl.
Qed.

Lemma gen_next_yield script g x g' script' qe : gen_next script g = (Some x, g', script') -> erel g qe ->
  exists qe', lstep qe x qe' /\ erel g' qe' /\ Permutation (items g) (x :: items g').
Proof.
  intros H Hr. destruct Hr as [n | ns | ns]; cbn [gen_next] in H.
  - (* first call *)
    unfold queues_of. destruct (snd n) eqn:Ev; try (rewrite children_scalar in H by (rewrite Ev; reflexivity); discriminate).
    + (* array: in index order *) cbn [items]. destruct (children n) as [|c cs] eqn:Ec; [discriminate|]. inversion H; subst.
      exists [cs]. split; [apply lstep_head | split; [constructor | cbn [items]; apply Permutation_refl]].
    + (* object: shuffled *) cbn [items]. pose proof (shuffle_perm script (children n)) as Hp. destruct (shuffle script (children n)) as [its s'] eqn:Es. cbn [fst] in Hp.
      destruct its as [|c cs]; [discriminate|]. inversion H; subst.
      exists (map (fun c => [c]) cs). split; [apply lstep_singles; exact Hp | split; [constructor | exact Hp]].
  - destruct ns as [|c cs]; [discriminate|]. inversion H; subst. exists [cs]. split; [apply lstep_head | split; [constructor | apply Permutation_refl]].
  - destruct ns as [|c cs]; [discriminate|]. inversion H; subst. exists (map (fun c => [c]) cs).
    split; [apply lstep_singles; apply Permutation_refl | split; [constructor | apply Permutation_refl]].
Qed.

Lemma gen_next_done script g g' script' : gen_next script g = (None, g', script') -> items g = [] /\ items g' = [].
Proof.
  destruct g as [n|ns]; cbn [gen_next items].
  - destruct (snd n) eqn:Ev; try (rewrite children_scalar by (rewrite Ev; reflexivity); intros H; inversion H; split; reflexivity).
    + destruct (children n); intros H; inversion H; split; reflexivity.
    + pose proof (shuffle_perm script (children n)) as Hp. destruct (shuffle script (children n)) as [its s']. cbn [fst] in Hp.
      destruct its; intros H; inversion H. apply Permutation_sym, Permutation_nil in Hp. split; [exact Hp | reflexivity].
  - destruct ns; intros H; inversion H. split; reflexivity.
Qed.

(* --- draining the scalars of one generator ------------------------------------------------------------------------ *)
Fixpoint lsteps (qs : list (list node)) (xs : list node) (qs' : list (list node)) : Prop :=
  match xs with [] => qs' = qs | x :: r => exists q1, lstep qs x q1 /\ lsteps q1 r qs' end.
Definition scalar (c : node) : Prop := is_container (snd c) = false.

Lemma drain_spec : forall f script g sk qe, (length (items g) < f)%nat -> erel g qe ->
  forall sk' res g' s', drain f script g sk = (sk', res, g', s') ->
  exists sc qe1, sk' = sk ++ sc /\ Forall scalar sc /\ lsteps qe sc qe1 /\
    match res with
    | None => concat qe1 = [] /\ Permutation (items g) sc
    | Some nd => is_container (snd nd) = true /\ exists qe', lstep qe1 nd qe' /\ erel g' qe' /\ Permutation (items g) (sc ++ nd :: items g')
    end.
Proof.
  induction f as [|f IH]; intros script g sk qe Hf Hr sk' res g' s' H; [lia|]. cbn [drain] in H.
  destruct (gen_next script g) as [[o g1] s1] eqn:Eg. destruct o as [nd|].
  - destruct (gen_next_yield _ _ _ _ _ _ Eg Hr) as (qe' & Hst & Hr' & Hp).
    destruct (is_container (snd nd)) eqn:Ec.
    + inversion H; subst. exists [], qe. rewrite app_nil_r. repeat split; [constructor | exact Ec | exists qe'; repeat split; assumption].
    + assert (Hlen : (length (items g1) < f)%nat) by (apply Permutation_length in Hp; cbn [length] in Hp; lia).
      destruct (IH s1 g1 (sk ++ [nd]) qe' Hlen Hr' _ _ _ _ H) as (sc & qe1 & E1 & Hsc & Hls & Hres).
      exists (nd :: sc), qe1. rewrite <- app_assoc in E1. repeat split; [exact E1 | constructor; [exact Ec | exact Hsc] | exists qe'; split; assumption |].
      destruct res as [nd'|].
      * destruct Hres as (Hc & qe'' & A & B & C). split; [exact Hc|]. exists qe''. repeat split; try assumption.
        eapply perm_trans; [exact Hp|]. cbn [app]. apply perm_skip. exact C.
      * destruct Hres as [A B]. split; [exact A|]. eapply perm_trans; [exact Hp|]. apply perm_skip. exact B.
  - inversion H; subst. destruct (gen_next_done _ _ _ _ Eg) as [E1 E2]. exists [], qe. rewrite app_nil_r.
    repeat split; [constructor | rewrite (erel_concat _ _ Hr); exact E1 | rewrite E1; constructor].
Qed.

Lemma queues_of_scalar c : scalar c -> queues_of c = [].
Proof. unfold scalar, queues_of. destruct (snd c); try reflexivity; discriminate. Qed.

Lemma reach_lsteps : forall sc qe qe1 qa qb o, Forall scalar sc -> lsteps qe sc qe1 ->
  reach (qa ++ qe1 ++ qb) o -> reach (qa ++ qe ++ qb) (sc ++ o).
Proof.
  induction sc as [|x sc IH]; intros qe qe1 qa qb o Hs Hl Hr; cbn [lsteps app] in *.
  - subst qe1. exact Hr.
  - destruct Hl as (q1 & Hst & Hl). inversion Hs; subst.
    apply (lstep_reach _ x (qa ++ q1 ++ qb)); [apply lstep_frame; exact Hst|].
    rewrite queues_of_scalar by assumption. rewrite app_nil_r. apply (IH q1 qe1); assumption.
Qed.

(* --- a potential that pays for every iteration: fuel is never exhausted --------------------------------------------- *)
Fixpoint cost (v : json) : nat :=
  match v with
  | JArr l => 2 + fold_right (fun x a => cost x + a) 0 l
  | JObj m => 2 + fold_right (fun kv a => cost (snd kv) + a) 0 m
  | _ => 1
  end%nat.
Fixpoint lcost (ns : list node) : nat := match ns with [] => 0 | c :: r => cost (snd c) + lcost r end%nat.
Definition ecost (g : gen_state) : nat := S (lcost (items g)).
Fixpoint phi (pend : pending) : nat := match pend with [] => 0 | e :: r => ecost (fst e) + phi r end%nat.

Lemma cost_pos v : (1 <= cost v)%nat. Proof. destruct v; cbn [cost]; lia. Qed.
Lemma lcost_app a b : lcost (a ++ b) = (lcost a + lcost b)%nat.
Proof. induction a as [|x a IH]; cbn [app lcost]; [reflexivity | rewrite IH; lia]. Qed.
Lemma lcost_perm a b : Permutation a b -> lcost a = lcost b.
Proof. induction 1; cbn [lcost]; lia. Qed.
Lemma lcost_len ns : (length ns <= lcost ns)%nat.
Proof. induction ns as [|x ns IH]; cbn [length lcost]; [lia|]. pose proof (cost_pos (snd x)). lia. Qed.
Lemma lcost_scalars sc : Forall scalar sc -> lcost sc = length sc.
Proof.
  induction 1 as [|x sc Hx _ IH]; [reflexivity|]. cbn [lcost length]. rewrite IH.
  unfold scalar in Hx. destruct (snd x); try discriminate; reflexivity.
Qed.
Lemma children_cost n : is_container (snd n) = true -> (lcost (children n) + 2 = cost (snd n))%nat.
Proof.
  unfold children. destruct (snd n) as [| | | |l|m]; try discriminate; intros _; cbn [cost].
  - generalize 0. induction l as [|x l IH]; intros j; cbn [enum_from map lcost fold_right]; [reflexivity|]. cbn [snd]. specialize (IH (j + 1)). lia.
  - induction m as [|kv m IH]; cbn [map lcost fold_right]; [reflexivity|]. cbn [snd]. lia.
Qed.
Lemma phi_app a b : phi (a ++ b) = (phi a + phi b)%nat.
Proof. induction a as [|x a IH]; cbn [app phi]; [reflexivity | rewrite IH; lia]. Qed.
Lemma cost_count v : (cost v <= 2 * count_nodes v)%nat.
Proof.
  induction v using json_ind'; cbn [cost count_nodes]; try lia.
  - assert (fold_right (fun x a => cost x + a) 0 l <= 2 * fold_right (fun x a => count_nodes x + a) 0 l)%nat; [|lia].
    induction H as [|x l Hx _ IH]; cbn [fold_right]; lia.
  - assert (fold_right (fun kv a => cost (snd kv) + a) 0 m <= 2 * fold_right (fun kv a => count_nodes (snd kv) + a) 0 m)%nat; [|lia].
    induction H as [|x l Hx _ IH]; cbn [fold_right]; lia.
Qed.

(* --- positions in the pending list ------------------------------------------------------------------------------------- *)
Lemma remove_nth_mid {A} (p1 : list A) e p2 : remove_nth (length p1) (p1 ++ e :: p2) = p1 ++ p2.
Proof. induction p1 as [|x p1 IH]; cbn [length app remove_nth]; [reflexivity | f_equal; exact IH]. Qed.
Lemma set_nth_mid {A} (p1 : list A) e e' p2 : set_nth (length p1) e' (p1 ++ e :: p2) = p1 ++ e' :: p2.
Proof. induction p1 as [|x p1 IH]; cbn [length app set_nth]; [reflexivity | f_equal; exact IH]. Qed.
Lemma Forall2_mid {A B} (R : A -> B -> Prop) p1 e p2 l : Forall2 R (p1 ++ e :: p2) l ->
  exists q1 qe q2, l = q1 ++ qe :: q2 /\ Forall2 R p1 q1 /\ R e qe /\ Forall2 R p2 q2.
Proof.
  intros H. apply Forall2_app_inv_l in H as (q1 & l2 & H1 & H2 & ->). inversion H2 as [|a b c d Hr H3]; subst.
  exists q1, b, d. auto.
Qed.

(* --- the loop ---------------------------------------------------------------------------------------------------------- *)
Definition Rel (e : gen_state * nat) (qe : list (list node)) : Prop := erel (fst e) qe.

Lemma nd_loop_reach : forall fuel limit script pend acc qss, Forall2 Rel pend qss -> (phi pend < fuel)%nat ->
  match nd_loop fuel limit script pend acc with
  | Ok out => exists o, out = rev acc ++ o /\ reach (concat qss) o
  | OutOfFuel => False
  | _ => True
  end.
Proof.
  induction fuel as [|f IH]; intros limit script pend acc qss HR Hphi; [lia|]. cbn [nd_loop].
  destruct pend as [|e0 pend0] eqn:Epend.
  { inversion HR; subst. exists []. rewrite app_nil_r. split; reflexivity. }
  rewrite <- Epend in *. clear e0 pend0 Epend.
  destruct (take1 script) as [r script1].
  destruct (nth_error pend (Z.to_nat (r mod zlen pend))) as [[g depth]|] eqn:En; [|exact I].
  apply nth_error_split in En as (p1 & p2 & Ep & Elen). rewrite <- Elen. subst pend.
  destruct (Forall2_mid _ _ _ _ _ HR) as (q1 & qe & q2 & -> & H1 & He & H2). unfold Rel in He. cbn [fst] in He.
  rewrite phi_app in Hphi. cbn [phi fst] in Hphi. unfold ecost in Hphi at 1.
  assert (Hlen : (length (items g) < S (S f))%nat) by (pose proof (lcost_len (items g)); lia).
  destruct (drain (S (S f)) script1 g []) as [[[skipped res] g'] script2] eqn:Ed.
  destruct (drain_spec _ _ _ _ _ Hlen He _ _ _ _ Ed) as (sc & qe1 & Esk & Hsc & Hls & Hres). cbn [app] in Esk. subst skipped.
  destruct res as [nd|].
  - destruct Hres as (Hc & qe' & Hst & He' & Hp).
    destruct (limit <? depth)%nat; [exact I|].
    rewrite set_nth_mid.
    assert (HR' : Forall2 Rel ((p1 ++ (g', depth) :: p2) ++ [(Unstarted nd, S depth)]) ((q1 ++ qe' :: q2) ++ [queues_of nd])).
    { apply Forall2_app; [apply Forall2_app; [exact H1 | constructor; [exact He' | exact H2]] | constructor; [constructor | constructor]]. }
    assert (Hphi' : (phi ((p1 ++ (g', depth) :: p2) ++ [(Unstarted nd, S depth)]) < f)%nat).
    { rewrite !phi_app. cbn [phi fst]. unfold ecost. cbn [items]. pose proof (children_cost nd Hc).
      apply lcost_perm in Hp. rewrite lcost_app in Hp. cbn [lcost] in Hp. rewrite (lcost_scalars sc Hsc) in Hp. lia. }
    specialize (IH limit script2 _ (nd :: rev sc ++ acc) _ HR' Hphi').
    destruct (nd_loop f limit script2 _ (nd :: rev sc ++ acc)) as [out| | |]; try exact IH.
    destruct IH as (o & Eo & Hr). exists (sc ++ nd :: o). split.
    + rewrite Eo. cbn [rev]. rewrite rev_app_distr, rev_involutive, <- !app_assoc. reflexivity.
    + rewrite concat_app. cbn [concat]. apply (reach_lsteps sc qe qe1 (concat q1) (concat q2) (nd :: o) Hsc Hls).
      apply (lstep_reach _ nd (concat q1 ++ qe' ++ concat q2)); [apply lstep_frame; exact Hst|].
      rewrite !concat_app in Hr. cbn [concat] in Hr. rewrite app_nil_r in Hr. rewrite <- !app_assoc in Hr. rewrite <- !app_assoc. exact Hr.
  - destruct Hres as (Hnil & Hp). rewrite remove_nth_mid.
    assert (HR' : Forall2 Rel (p1 ++ p2) (q1 ++ q2)) by (apply Forall2_app; assumption).
    assert (Hphi' : (phi (p1 ++ p2) < f)%nat) by (rewrite phi_app; lia).
    specialize (IH limit script2 _ (rev sc ++ acc) _ HR' Hphi').
    destruct (nd_loop f limit script2 (p1 ++ p2) (rev sc ++ acc)) as [out| | |]; try exact IH.
    destruct IH as (o & Eo & Hr). exists (sc ++ o). split.
    + rewrite Eo. rewrite rev_app_distr, rev_involutive, <- app_assoc. reflexivity.
    + rewrite concat_app. cbn [concat]. apply (reach_lsteps sc qe qe1 (concat q1) (concat q2) o Hsc Hls).
      apply (reach_perm_ne o (concat q1 ++ concat q2)); [|rewrite <- concat_app; exact Hr].
      rewrite !ne_app. rewrite (ne_nil_concat qe1 Hnil). apply Permutation_refl.
Qed.

Theorem nd_visit_reach limit script root :
  match nd_visit limit script root with
  | Ok ns => exists o, ns = root :: o /\ reach (queues_of root) o
  | OutOfFuel => False
  | _ => True
  end.
Proof.
  unfold nd_visit. destruct (limit <? 1)%nat; [exact I|].
  assert (HR : Forall2 Rel [(Unstarted root, 2%nat)] [queues_of root]) by (constructor; [constructor | constructor]).
  assert (Hphi : (phi [(Unstarted root, 2%nat)] < 2 * count_nodes (snd root) + 2)%nat).
  { cbn [phi fst]. unfold ecost. cbn [items]. pose proof (cost_count (snd root)).
    destruct (is_container (snd root)) eqn:Ec; [pose proof (children_cost root Ec); lia | rewrite children_scalar by exact Ec; cbn [lcost]; lia]. }
  pose proof (nd_loop_reach _ limit script _ [root] _ HR Hphi) as H.
  destruct (nd_loop _ limit script _ [root]) as [out| | |]; try exact H.
  destruct H as (o & Eo & Hr). exists o. cbn [rev app concat] in *. rewrite app_nil_r in Hr. split; assumption.
Qed.

(* C17_valid, for every value, limit and script *)
Theorem nd_visit_valid limit script v ns : wf_json v = true -> nd_visit limit script ([], v) = Ok ns ->
  valid_order ([], v) (map fst ns) = true.
Proof.
  intros Hw E. pose proof (nd_visit_reach limit script ([], v)) as H. rewrite E in H. destruct H as (o & -> & Hr).
  apply reach_valid; assumption.
Qed.
