(* The parser's recursion fuel only decides WHETHER an answer is reached, never WHICH: a result other than PFuel is
   the same for every larger fuel.  (Used to compose statements of the form "for some fuel the parser returns ...".) *)
From JP Require Import Base.Prelude Model.Tokens Model.Ast Model.Parse Proofs.ParseInv.

Definition mono {A} (r r' : pres A) : Prop := r = PFuel \/ r' = r.
Lemma mono_refl {A} (r : pres A) : mono r r. Proof. right; reflexivity. Qed.
Lemma mono_bind {A B} (r r' : pres A) (k k' : A -> stream -> pres B) :
  mono r r' -> (forall a s, mono (k a s) (k' a s)) -> mono (pbind r k) (pbind r' k').
Proof. intros [-> | ->] Hk; [left; reflexivity|]. destruct r; cbn [pbind]; first [apply Hk | apply mono_refl]. Qed.

Section Mono.
Variable cfg : envcfg.

Definition M (f : nat) : Prop :=
  (forall inf s, mono (p_query cfg f inf s) (p_query cfg (S f) inf s)) /\
  (forall s, mono (p_selectors cfg f s) (p_selectors cfg (S f) s)) /\
  (forall s, mono (p_bracket_loop cfg f s) (p_bracket_loop cfg (S f) s)) /\
  (forall s, mono (p_filter_selector cfg f s) (p_filter_selector cfg (S f) s)) /\
  (forall prec s, mono (p_fexpr cfg f prec s) (p_fexpr cfg (S f) prec s)) /\
  (forall prec lhs s, mono (p_fexpr_loop cfg f prec lhs s) (p_fexpr_loop cfg (S f) prec lhs s)) /\
  (forall s, mono (p_primary cfg f s) (p_primary cfg (S f) s)) /\
  (forall lhs s, mono (p_infix cfg f lhs s) (p_infix cfg (S f) lhs s)) /\
  (forall s, mono (p_grouped cfg f s) (p_grouped cfg (S f) s)) /\
  (forall e s, mono (p_grouped_loop cfg f e s) (p_grouped_loop cfg (S f) e s)) /\
  (forall s, mono (p_prefix cfg f s) (p_prefix cfg (S f) s)) /\
  (forall s, mono (p_function cfg f s) (p_function cfg (S f) s)) /\
  (forall s, mono (p_args_loop cfg f s) (p_args_loop cfg (S f) s)) /\
  (forall e s, mono (p_arg_infix_loop cfg f e s) (p_arg_infix_loop cfg (S f) e s)).

Theorem M_all : forall f, M f.
Proof.
  induction f as [|f IH]; [repeat split; intros; left; reflexivity|].
  destruct IH as (IHquery & IHsel & IHbr & IHfs & IHfe & IHfl & IHpr & IHin & IHgr & IHgl & IHpf & IHfn & IHal & IHai).
  Ltac mgo IHquery IHsel IHbr IHfs IHfe IHfl IHpr IHin IHgr IHgl IHpf IHfn IHal IHai :=
    repeat (cbv zeta beta;
      match goal with
      | |- mono ?x ?x => apply mono_refl
      | |- mono (pbind _ _) (pbind _ _) => apply mono_bind; [ | intros ? ? ]
      | |- mono (p_query _ _ _ _) _ => apply IHquery
      | |- mono (p_selectors _ _ _) _ => apply IHsel
      | |- mono (p_bracket_loop _ _ _) _ => apply IHbr
      | |- mono (p_filter_selector _ _ _) _ => apply IHfs
      | |- mono (p_fexpr _ _ _ _) _ => apply IHfe
      | |- mono (p_fexpr_loop _ _ _ _ _) _ => apply IHfl
      | |- mono (p_primary _ _ _) _ => apply IHpr
      | |- mono (p_infix _ _ _ _) _ => apply IHin
      | |- mono (p_grouped _ _ _) _ => apply IHgr
      | |- mono (p_grouped_loop _ _ _ _) _ => apply IHgl
      | |- mono (p_prefix _ _ _) _ => apply IHpf
      | |- mono (p_function _ _ _) _ => apply IHfn
      | |- mono (p_args_loop _ _ _) _ => apply IHal
      | |- mono (p_arg_infix_loop _ _ _ _) _ => apply IHai
      | |- mono (match ?x with _ => _ end) (match ?x with _ => _ end) => destruct x
      | |- mono (if ?x then _ else _) (if ?x then _ else _) => destruct x
      | |- mono (let '(_, _) := ?x in _) (let '(_, _) := ?x in _) => destruct x
      end).
  repeat split.
  - intros inf s. rewrite !p_query_S. mgo IHquery IHsel IHbr IHfs IHfe IHfl IHpr IHin IHgr IHgl IHpf IHfn IHal IHai.
  - intros s. rewrite !p_selectors_S. mgo IHquery IHsel IHbr IHfs IHfe IHfl IHpr IHin IHgr IHgl IHpf IHfn IHal IHai.
  - intros s. rewrite !p_bracket_loop_S. mgo IHquery IHsel IHbr IHfs IHfe IHfl IHpr IHin IHgr IHgl IHpf IHfn IHal IHai.
  - intros s. rewrite !p_filter_selector_S. mgo IHquery IHsel IHbr IHfs IHfe IHfl IHpr IHin IHgr IHgl IHpf IHfn IHal IHai.
  - intros prec s. rewrite !p_fexpr_S. destruct (negb (in_token_map (cty s))); [apply mono_refl|].
    destruct (IHpr s) as [E | E]; rewrite E; [left; reflexivity|].
    destruct (p_primary cfg f s) as [lhs s1|c off|x s1|]; try apply mono_refl. apply IHfl.
  - intros prec lhs s. rewrite !p_fexpr_loop_S. mgo IHquery IHsel IHbr IHfs IHfe IHfl IHpr IHin IHgr IHgl IHpf IHfn IHal IHai.
  - intros s. rewrite !p_primary_S. mgo IHquery IHsel IHbr IHfs IHfe IHfl IHpr IHin IHgr IHgl IHpf IHfn IHal IHai.
  - intros lhs s. rewrite !p_infix_S. mgo IHquery IHsel IHbr IHfs IHfe IHfl IHpr IHin IHgr IHgl IHpf IHfn IHal IHai.
  - intros s. rewrite !p_grouped_S. mgo IHquery IHsel IHbr IHfs IHfe IHfl IHpr IHin IHgr IHgl IHpf IHfn IHal IHai.
  - intros e s. rewrite !p_grouped_loop_S. mgo IHquery IHsel IHbr IHfs IHfe IHfl IHpr IHin IHgr IHgl IHpf IHfn IHal IHai.
  - intros s. rewrite !p_prefix_S. mgo IHquery IHsel IHbr IHfs IHfe IHfl IHpr IHin IHgr IHgl IHpf IHfn IHal IHai.
  - intros s. rewrite !p_function_S. mgo IHquery IHsel IHbr IHfs IHfe IHfl IHpr IHin IHgr IHgl IHpf IHfn IHal IHai.
  - intros s. rewrite !p_args_loop_S. mgo IHquery IHsel IHbr IHfs IHfe IHfl IHpr IHin IHgr IHgl IHpf IHfn IHal IHai.
  - intros e s. rewrite !p_arg_infix_loop_S. mgo IHquery IHsel IHbr IHfs IHfe IHfl IHpr IHin IHgr IHgl IHpf IHfn IHal IHai.
Qed.
End Mono.
