(* C13 (find): on ANY well-formed value - however deeply nested - find() of a well-typed query returns a nodelist or
   raises JSONPathRecursionError; nothing else.  The evaluator depends on max_recursion_depth only through the depth
   test of the recursive descent, so evaluation under the limit N either agrees with evaluation under any larger limit
   or is a JSONPathRecursionError (lrel, by induction on the AST); under a limit the value fits in, find_well_typed
   gives a nodelist. *)
From JP Require Import Base.Json Model.Ast Model.Compare Model.Slice Model.Eval Spec.Sem Spec.Types.
From JP Require Import Proofs.AstInd Proofs.EvalProofs Proofs.DescentProofs Proofs.FilterProofs.

Definition lrel {A} (r r' : result A) : Prop := r = r' \/ r = Err ERecursion None.
Lemma lrel_refl {A} (r : result A) : lrel r r. Proof. left; reflexivity. Qed.
Lemma lrel_bind {A B} (r r' : result A) (f f' : A -> result B) :
  lrel r r' -> (forall a, lrel (f a) (f' a)) -> lrel (bind r f) (bind r' f').
Proof. intros [-> | ->] Hf; [|right; reflexivity]. destruct r'; cbn [bind]; first [apply Hf | apply lrel_refl]. Qed.
Lemma lrel_flat_mapM {A B} (f f' : A -> result (list B)) l :
  (forall x, lrel (f x) (f' x)) -> lrel (flat_mapM f l) (flat_mapM f' l).
Proof.
  intros Hf. induction l as [|x l IH]; [apply lrel_refl|]. cbn [flat_mapM].
  apply lrel_bind; [apply Hf|]. intros y. apply lrel_bind; [exact IH|]. intros ys. apply lrel_refl.
Qed.

Lemma m_visit_mono N N' v d loc : (N <= N')%nat -> lrel (m_visit N d loc v) (m_visit N' d loc v).
Proof.
  intros Hle. destruct (m_visit_ok_or_rec N v d loc) as [[r Hr] | He]; [|right; exact He]. left.
  assert (Hd : (d <= N)%nat).
  { destruct (Nat.le_gt_cases d N) as [H|H]; [exact H|]. exfalso.
    assert (E : (N <? d)%nat = true) by (apply Nat.ltb_lt; exact H). destruct v; cbn [m_visit] in Hr; rewrite E in Hr; discriminate. }
  assert (Hn : (nesting v + d <= S N)%nat).
  { destruct (Nat.le_gt_cases (nesting v + d) (S N)) as [H|H]; [exact H|]. exfalso.
    destruct (is_container v) eqn:Ec.
    - rewrite (visit_raises N v d loc Ec) in Hr by lia. discriminate.
    - destruct v; try discriminate; cbn [nesting] in H; lia. }
  rewrite (visit_spec N v d loc Hd Hn). rewrite (visit_spec N' v d loc) by lia. reflexivity.
Qed.

Section Mono.
  Variable cfg : envcfg.
  Variable N' : nat.
  Hypothesis HN : (max_depth cfg <= N')%nat.
  Definition cfg' : envcfg := {| min_idx := min_idx cfg; max_idx := max_idx cfg; max_depth := N'; reg := reg cfg; rx := rx cfg |}.

  Definition Qs (s : sel) : Prop := forall root n, lrel (m_sel cfg root s n) (m_sel cfg' root s n).
  Definition Qe (e : expr) : Prop := forall root cur, lrel (m_expr cfg root cur e) (m_expr cfg' root cur e).
  Definition Qg (g : seg) : Prop := forall root ns, lrel (m_seg cfg root g ns) (m_seg cfg' root g ns).

  Lemma sels_mono root ss n : Forall Qs ss ->
    lrel ((fix go (ss : list sel) : result (list node) :=
             match ss with [] => Ok [] | s :: ss' => do a <- m_sel cfg root s n; do b <- go ss'; Ok (a ++ b) end) ss)
         ((fix go (ss : list sel) : result (list node) :=
             match ss with [] => Ok [] | s :: ss' => do a <- m_sel cfg' root s n; do b <- go ss'; Ok (a ++ b) end) ss).
  Proof.
    induction 1 as [|s ss Hs _ IH]; [apply lrel_refl|]. apply lrel_bind; [apply Hs|]. intros a.
    apply lrel_bind; [exact IH|]. intros b. apply lrel_refl.
  Qed.
  Lemma segs_mono root q : Forall Qg q -> forall ns, lrel (m_segs cfg root q ns) (m_segs cfg' root q ns).
  Proof.
    unfold m_segs. induction 1 as [|g q Hg _ IH]; intros ns; [apply lrel_refl|]. cbn [run_segs].
    apply lrel_bind; [apply Hg|]. intros ns'. apply IH.
  Qed.
  Lemma args_mono root cur args : Forall Qe args -> lrel (m_args cfg root cur args) (m_args cfg' root cur args).
  Proof.
    unfold m_args. induction 1 as [|a args Ha _ IH]; [apply lrel_refl|]. apply lrel_bind; [apply Ha|]. intros x.
    apply lrel_bind; [exact IH|]. intros r. apply lrel_refl.
  Qed.

  Theorem mono_all : (forall s, Qs s) /\ (forall e, Qe e) /\ (forall g, Qg g).
  Proof.
    apply ast_ind; unfold Qs, Qe, Qg.
    - intros k root n. apply lrel_refl.
    - intros i root n. apply lrel_refl.
    - intros a b c root n. apply lrel_refl.
    - intros root n. apply lrel_refl.
    - intros e IHe root n. cbn [m_sel]. induction (children n) as [|c cs IH]; [apply lrel_refl|].
      apply lrel_bind; [apply IHe|]. intros o. apply lrel_bind; [exact IH|]. intros r. apply lrel_refl.
    - intros v root cur. apply lrel_refl.
    - intros q HF root cur. rewrite !m_expr_rel. apply lrel_bind; [apply segs_mono; exact HF|]. intros ns. apply lrel_refl.
    - intros q HF root cur. rewrite !m_expr_abs. apply lrel_bind; [apply segs_mono; exact HF|]. intros ns. apply lrel_refl.
    - intros f args HF root cur.
      change (m_expr cfg root cur (ECall f args)) with
        (match find_assoc f (reg cfg) with
         | None => Ok PNothing
         | Some d => do vs <- m_args cfg root cur args; do us <- m_unpack (f_args d) vs; m_apply cfg d us
         end).
      change (m_expr cfg' root cur (ECall f args)) with
        (match find_assoc f (reg cfg) with
         | None => Ok PNothing
         | Some d => do vs <- m_args cfg' root cur args; do us <- m_unpack (f_args d) vs; m_apply cfg' d us
         end).
      destruct (find_assoc f (reg cfg)) as [d|]; [|apply lrel_refl].
      apply lrel_bind; [apply args_mono; exact HF|]. intros vs. apply lrel_bind; [apply lrel_refl|]. intros us. apply lrel_refl.
    - intros a IHa root cur. cbn [m_expr]. apply lrel_bind; [apply IHa|]. intros o. apply lrel_refl.
    - intros a b IHa IHb root cur. cbn [m_expr]. apply lrel_bind; [apply IHa|]. intros x. apply lrel_bind; [apply IHb|]. intros y. apply lrel_refl.
    - intros a b IHa IHb root cur. cbn [m_expr]. apply lrel_bind; [apply IHa|]. intros x. apply lrel_bind; [apply IHb|]. intros y. apply lrel_refl.
    - intros o a b IHa IHb root cur. cbn [m_expr]. apply lrel_bind; [apply IHa|]. intros x. apply lrel_bind; [apply IHb|]. intros y. apply lrel_refl.
    - intros ss HF root ns. cbn [m_seg]. apply lrel_flat_mapM. intros n. apply sels_mono. exact HF.
    - intros ss HF root ns. cbn [m_seg]. apply lrel_flat_mapM. intros n.
      apply lrel_bind; [apply m_visit_mono; exact HN|]. intros vs. apply lrel_flat_mapM. intros v. apply sels_mono. exact HF.
  Qed.

  Lemma find_mono q v : lrel (m_find cfg q v) (m_find cfg' q v).
  Proof. unfold m_find. apply segs_mono. rewrite Forall_forall. intros g _. apply (proj2 (proj2 mono_all)). Qed.
End Mono.

(* find() is total on well-typed queries: a nodelist, or JSONPathRecursionError *)
Theorem find_total cfg q v : reg_ok (reg cfg) = true -> wt_query (reg cfg) q = true -> wf_json v = true ->
  (exists ns, m_find cfg q v = Ok ns) \/ m_find cfg q v = Err ERecursion None.
Proof.
  intros Hr Hwt Hwf. set (N' := Nat.max (max_depth cfg) (S (nesting v))).
  assert (HN : (max_depth cfg <= N')%nat) by (unfold N'; lia).
  destruct (find_mono cfg N' HN q v) as [E | E]; [|right; exact E]. left. rewrite E.
  eexists. apply (find_well_typed (cfg' cfg N')); [exact Hr | cbn; lia | exact Hwt | split; [cbn; lia | exact Hwf]].
Qed.
