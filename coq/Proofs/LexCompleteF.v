(* C03, the lexer on every spelling of a query WITH filters.  Forward lemmas for the filter state under
   general FOLLOW conditions (generalised from Proofs/ReparseF.v, where what follows a token is a blank, a comma or a closing bracket),
   then the induction over the expression productions of the token grammar, threading the lexer's three stacks. *)
From JP Require Import Base.Prelude Base.Json Model.Regex Model.Tokens Model.Lex Model.Ast Model.Parse Model.Serialize Model.Api Spec.Types Spec.StringLit Spec.Printable
  Proofs.StringProofs Proofs.LexString Proofs.LexNoCrash Proofs.LexInv Proofs.Requery Proofs.Reparse Proofs.ReparseF Proofs.ParseComplete Proofs.ParseSound
  Proofs.LexShape Proofs.LexSpell Proofs.AbnfDerive Proofs.TextSound Proofs.EvalProofs Proofs.LexComplete Proofs.NumMatch.
From Coq Require Import ZifyBool ZifyN.

Lemma lang_eEc s : lang re_eE s -> exists e, s = [e] /\ eEc e.
Proof. intros H. apply lang_eE in H as [-> | ->]; eexists; split; reflexivity. Qed.

Lemma lang_int_form v : lang RE_INT v -> int_form v.
Proof.
  intros H. unfold RE_INT in H. apply lang_seq_inv in H as (sg & r1 & -> & Hsg & H). apply lang_seq_inv in H as (ip & ex & -> & Hip & Hex).
  apply lang_minus_opt in Hsg. apply lang_digits in Hip as [Hne Hd]. exists sg, ip, ex. split; [reflexivity|]. split; [exact Hsg|]. split; [split; assumption|].
  apply lang_opt_inv in Hex as [Hex | ->]; [|left; reflexivity]. apply lang_seq_inv in Hex as (e & r2 & -> & He & Hex). apply lang_seq_inv in Hex as (pl & ed & -> & Hps & Hed).
  apply lang_digits in Hed as [Hen Hedd]. right. apply lang_eEc in He as (e0 & -> & He). apply lang_opt_inv in Hps.
  exists e0, pl, ed. split; [reflexivity|]. split; [exact He|]. split; [|split; assumption].
  destruct Hps as [Hps | ->]; [right; apply lang_char_inv; exact Hps | left; reflexivity].
Qed.

Lemma lang_float_form v : lang RE_FLOAT v -> (forall r, v <> 58%N :: r) -> float_form v.
Proof.
  intros H Hn. unfold RE_FLOAT in H. apply lang_alt_inv in H as [H | H].
  - apply lang_seq_inv in H as (oc & r0 & -> & Hoc & H). apply lang_opt_inv in Hoc as [Hoc | ->].
    { apply lang_char_inv in Hoc. subst oc. exfalso. apply (Hn r0). reflexivity. }
    cbn [app] in *. apply lang_seq_inv in H as (sg & r1 & -> & Hsg & H). apply lang_seq_inv in H as (ip & r2 & -> & Hip & H).
    apply lang_seq_inv in H as (dot & r3 & -> & Hdot & H). apply lang_seq_inv in H as (fp & ex & -> & Hfp & Hex).
    apply lang_minus_opt in Hsg. apply lang_digits in Hip as [Hne Hd]. apply lang_char_inv in Hdot. subst dot. apply lang_digits in Hfp as [Hfn Hfd].
    exists sg, ip. split; [exact Hsg|]. split; [split; assumption|]. left. exists fp, ex. split; [reflexivity|]. split; [split; assumption|].
    apply lang_opt_inv in Hex as [Hex | ->]; [|left; reflexivity]. apply lang_seq_inv in Hex as (e & r4 & -> & He & Hex). apply lang_seq_inv in Hex as (pl & ed & -> & Hps & Hed).
    apply lang_digits in Hed as [Hen Hedd]. right. apply lang_eEc in He as (e0 & -> & He). apply lang_opt_inv in Hps.
    assert (Hps' : pl = [] \/ pl = [43%N] \/ pl = [45%N]).
    { destruct Hps as [Hps | ->]; [|left; reflexivity]. apply lang_cls_inv in Hps as (c & -> & Hc). cbn [xorb in_ranges] in Hc.
      destruct (N.leb_spec 43 c), (N.leb_spec c 43), (N.leb_spec 45 c), (N.leb_spec c 45); cbn in Hc; try discriminate Hc;
        first [right; left; f_equal; lia | right; right; f_equal; lia]. }
    exists e0, pl, ed. split; [reflexivity|]. split; [exact He|]. split; [exact Hps'|]. split; assumption.
  - apply lang_seq_inv in H as (sg & r1 & -> & Hsg & H). apply lang_seq_inv in H as (ip & r2 & -> & Hip & H).
    apply lang_seq_inv in H as (e & r3 & -> & He & H). apply lang_seq_inv in H as (mi & ed & -> & Hmi & Hed).
    apply lang_minus_opt in Hsg. apply lang_digits in Hip as [Hne Hd]. apply lang_eEc in He as (e0 & -> & He). apply lang_char_inv in Hmi. subst mi. apply lang_digits in Hed as [Hen Hedd].
    exists sg, ip. split; [exact Hsg|]. split; [split; assumption|]. right. exists e0, ed. split; [reflexivity|]. split; [exact He | split; assumption].
Qed.

(* ---- the step and reach lemmas of Proofs/LexComplete.v for arbitrary filter stacks and an arbitrary outer bracket stack ---- *)
Section GS.
Variables (fd : Z) (ffd fcs : list Z).
Notation C0 := (G fd ffd fcs).
Lemma ws_skip_g b rest p bs T : blanks b -> nb_head rest ->
  l_ignore_ws (C0 (b ++ rest) p bs T) = Some (match b with [] => false | _ => true end, C0 rest (p + zlen b) bs T).
Proof.
  intros Hb Hr. unfold l_ignore_ws, G. cbn [l_cur LX]. unfold l_accept_match. cbn [l_rest LX]. destruct b as [|c b'].
  - cbn [app]. assert (E : re_match RE_WHITESPACE rest = None).
    { unfold re_match. destruct rest as [|d r]; [apply ws_no_match_nil | apply ws_no_match; rewrite blank_ws; exact Hr]. }
    rewrite E. f_equal. f_equal. apply GX_pos. unfold zlen. cbn [length]. lia.
  - rewrite (ws_match (c :: b') rest ltac:(discriminate) Hb Hr). rewrite advance_app. reflexivity.
Qed.

(* ---- names ---- *)
Lemma seg_ws_g b X p bs T : blanks b -> nbh X -> lex_step SSegment (C0 (b ++ X) p bs T) = lex_step SSegment (C0 X (p + zlen b) bs T).
Proof.
  intros Hb HX. pose proof (nbh_nb X HX) as Hn. destruct HX as (c & r & -> & Hc). cbn [lex_step].
  pose proof (ws_skip_g [] (c :: r) (p + zlen b) bs T eq_refl Hn) as E0. cbn [app] in E0.
  rewrite (ws_skip_g b (c :: r) p bs T Hb Hn), E0.
  replace (p + zlen b + zlen (@nil N)) with (p + zlen b) by (unfold zlen; cbn [length]; lia).
  unfold G. cbn [l_peek l_rest LX]. rewrite !andb_false_r. reflexivity.
Qed.
Lemma brk_ws_g b X p bs T : blanks b -> nbh X -> lex_step SBracket (C0 (b ++ X) p bs T) = lex_step SBracket (C0 X (p + zlen b) bs T).
Proof.
  intros Hb HX. pose proof (nbh_nb X HX) as Hn. cbn [lex_step].
  pose proof (ws_skip_g [] X (p + zlen b) bs T eq_refl Hn) as E0. cbn [app] in E0.
  rewrite (ws_skip_g b X p bs T Hb Hn), E0.
  replace (p + zlen b + zlen (@nil N)) with (p + zlen b) by (unfold zlen; cbn [length]; lia). reflexivity.
Qed.

Lemma sh_wild_g r s q bs T : lex_step SShorthand (GX fd ffd fcs (42%N :: r) [46%N] s q bs T) = LNext SSegment (C0 r (q + 1) bs (tk T_WILD [42%N] q :: T)).
Proof.
  cbn [lex_step]. cbv zeta. rewrite (acc_ws_no (l_ignore (GX fd ffd fcs (42%N :: r) [46%N] s q bs T)) 42 r eq_refl eq_refl). reflexivity.
Qed.
Lemma sh_name_g nm r s q bs T : name_shape nm -> nn_head r ->
  lex_step SShorthand (GX fd ffd fcs (nm ++ r) [46%N] s q bs T) = LNext SSegment (C0 r (q + zlen nm) bs (tk T_PROPERTY nm q :: T)).
Proof.
  intros Hn Hr. pose proof (name_match nm r Hn Hr) as Hm. destruct Hn as (c & cs & -> & Hc & Hcs). destruct (name_first_facts c Hc) as (B & E42 & _ & _).
  cbn [lex_step app]. cbv zeta. rewrite ign_GX. rewrite (acc_ws_no (GX fd ffd fcs (c :: cs ++ r) [] q q bs T) c (cs ++ r) eq_refl B).
  change (l_next (GX fd ffd fcs (c :: cs ++ r) [] q q bs T)) with (Some c, GX fd ffd fcs (cs ++ r) [c] q (q + 1) bs T). cbv beta iota. cbn [ceq]. rewrite E42.
  change (l_backup (GX fd ffd fcs (cs ++ r) [c] q (q + 1) bs T)) with (Some (GX fd ffd fcs ((c :: cs) ++ r) [] q (q + 1 - 1) bs T)). cbv iota.
  unfold l_accept_match. cbn [l_rest LX]. rewrite Hm. rewrite advance_app.
  rewrite emit_GX, app_nil_r, rev_involutive. unfold G. f_equal. replace (q + 1 - 1 + zlen (c :: cs)) with (q + zlen (c :: cs)) by lia. reflexivity.
Qed.

Lemma seg_dd_g b r p T bs : blanks b ->
  lex_step SSegment (C0 (b ++ 46%N :: 46%N :: r) p bs T) = LNext SDescendant (C0 r (p + zlen b + 2) bs (tk T_DOUBLE_DOT [46; 46]%N (p + zlen b) :: T)).
Proof.
  intros Hb. cbn [lex_step]. rewrite (ws_skip_g b (46%N :: 46%N :: r) p bs T Hb eq_refl). unfold G. cbn. rewrite andb_false_r. cbn. lx_eq.
Qed.

(* ---- reaching the state after one token, from the spelled text: blanks, the token's extra characters, its text ---- *)
Lemma reach_ws_g st b X p bs T : (st = SSegment \/ st = SBracket) -> blanks b -> nbh X -> reachS st (C0 (b ++ X) p bs T) st (C0 X (p + zlen b) bs T).
Proof. intros [-> | ->] Hb HX; apply reachS_sim; apply sim_of_step; [apply seg_ws_g | apply brk_ws_g]; assumption. Qed.
Lemma seg_dot_g x r p T bs : N.eqb x 46 = false -> lex_step SSegment (C0 (46%N :: x :: r) p bs T) = LNext SShorthand (GX fd ffd fcs (x :: r) [46%N] p (p + 1) bs T).
Proof.
  intros Hx. cbn [lex_step]. pose proof (ws_skip_g [] (46%N :: x :: r) p bs T eq_refl eq_refl) as E0. cbn [app] in E0. rewrite E0.
  replace (p + zlen (@nil N)) with p by (unfold zlen; cbn [length]; lia). unfold G.
  change (l_peek (GX fd ffd fcs (46%N :: x :: r) [] p p bs T)) with (Some 46%N). cbv iota. cbn [andb].
  change (l_next (GX fd ffd fcs (46%N :: x :: r) [] p p bs T)) with (Some 46%N, GX fd ffd fcs (x :: r) [46%N] p (p + 1) bs T). cbv beta iota.
  change (N.eqb 46 46) with true. cbv iota. change (l_peek (GX fd ffd fcs (x :: r) [46%N] p (p + 1) bs T)) with (Some x). cbn [ceq]. rewrite Hx. reflexivity.
Qed.

Lemma R_prop_g b nm fr p T bs : blanks b -> name_shape nm -> nn_head fr ->
  exists p' i, reachS SSegment (C0 (b ++ [46%N] ++ nm ++ fr) p bs T) SSegment (C0 fr p' bs (tk T_PROPERTY nm i :: T)).
Proof.
  intros Hb Hn Hf. pose proof Hn as (c & cs & E & Hc & Hcs). destruct (name_first_facts c Hc) as (_ & _ & E46 & _).
  eexists; eexists. eapply reachS_trans; [apply (reach_ws_g SSegment b ([46%N] ++ nm ++ fr) p bs T (or_introl eq_refl) Hb (nbh_cons 46 _ eq_refl))|].
  subst nm. cbn [app]. eapply reachS_trans; [apply reachS_step; apply (seg_dot_g c (cs ++ fr) _ T _ E46)|].
  apply reachS_step. apply (sh_name_g (c :: cs) fr _ _ bs T); [exists c, cs; auto | exact Hf].
Qed.
Lemma R_wild_sh_g b fr p T bs : blanks b -> exists p' i, reachS SSegment (C0 (b ++ [46%N] ++ [42%N] ++ fr) p bs T) SSegment (C0 fr p' bs (tk T_WILD [42%N] i :: T)).
Proof.
  intros Hb. eexists; eexists. eapply reachS_trans; [apply (reach_ws_g SSegment b ([46%N] ++ [42%N] ++ fr) p bs T (or_introl eq_refl) Hb (nbh_cons 46 _ eq_refl))|].
  cbn [app]. eapply reachS_trans; [apply reachS_step; apply (seg_dot_g 42 fr _ T _ eq_refl)|]. apply reachS_step. apply sh_wild_g.
Qed.
Lemma R_dd_g b fr p T bs : blanks b -> exists p' i, reachS SSegment (C0 (b ++ [46; 46]%N ++ fr) p bs T) SDescendant (C0 fr p' bs (tk T_DOUBLE_DOT [46; 46]%N i :: T)).
Proof. intros Hb. eexists; eexists. apply reachS_step. apply seg_dd_g. exact Hb. Qed.
Lemma R_lb_g b fr p T bs : blanks b -> exists p' i j, reachS SSegment (C0 (b ++ [91%N] ++ fr) p bs T) SBracket (C0 fr p' ((91%N, j) :: bs) (tk T_LBRACKET [91%N] i :: T)).
Proof.
  intros Hb. eexists; eexists; eexists. eapply reachS_trans; [apply (reach_ws_g SSegment b ([91%N] ++ fr) p bs T (or_introl eq_refl) Hb (nbh_cons 91 _ eq_refl))|].
  apply reachS_step. cbn [app]. apply (Requery.step_seg_open fd ffd fcs bs fr _ T).
Qed.


(* after ".." *)
Lemma D_wild_g fr p T bs : exists p' i, reachS SDescendant (C0 ([42%N] ++ fr) p bs T) SSegment (C0 fr p' bs (tk T_WILD [42%N] i :: T)).
Proof. eexists; eexists. apply reachS_step. reflexivity. Qed.
Lemma D_lb_g fr p T bs : exists p' i j, reachS SDescendant (C0 ([91%N] ++ fr) p bs T) SBracket (C0 fr p' ((91%N, j) :: bs) (tk T_LBRACKET [91%N] i :: T)).
Proof. eexists; eexists; eexists. apply reachS_step. reflexivity. Qed.
Lemma D_prop_g nm fr p T bs : name_shape nm -> nn_head fr -> exists p' i, reachS SDescendant (C0 (nm ++ fr) p bs T) SSegment (C0 fr p' bs (tk T_PROPERTY nm i :: T)).
Proof.
  intros Hn Hr. pose proof (name_match nm fr Hn Hr) as Hm. destruct Hn as (c & cs & -> & Hc & Hcs). destruct (name_first_facts c Hc) as (_ & E42 & _ & E91).
  eexists; eexists. apply reachS_step. unfold G. cbn [lex_step app].
  change (l_next (GX fd ffd fcs (c :: cs ++ fr) [] p p bs T)) with (Some c, GX fd ffd fcs (cs ++ fr) [c] p (p + 1) bs T). cbv beta iota. rewrite E42, E91.
  change (l_backup (GX fd ffd fcs (cs ++ fr) [c] p (p + 1) bs T)) with (Some (GX fd ffd fcs ((c :: cs) ++ fr) [] p (p + 1 - 1) bs T)). cbv iota.
  unfold l_accept_match. cbn [l_rest LX]. rewrite Hm. rewrite advance_app. rewrite emit_GX, app_nil_r, rev_involutive. reflexivity.
Qed.

(* inside brackets *)
Lemma B_rb_g b fr p j T bs : blanks b -> exists p' i, reachS SBracket (C0 (b ++ [93%N] ++ fr) p ((91%N, j) :: bs) T) SSegment (C0 fr p' bs (tk T_RBRACKET [93%N] i :: T)).
Proof.
  intros Hb. eexists; eexists. eapply reachS_trans; [apply (reach_ws_g SBracket b ([93%N] ++ fr) p _ T (or_intror eq_refl) Hb (nbh_cons 93 _ eq_refl))|].
  apply reachS_step. cbn [app]. apply (Requery.step_bracket_close fd ffd fcs bs fr _ j T).
Qed.
Lemma B_char_g b c t fr p bs T : blanks b -> (c = 42%N /\ t = T_WILD) \/ (c = 44%N /\ t = T_COMMA) \/ (c = 58%N /\ t = T_COLON) ->
  exists p' i, reachS SBracket (C0 (b ++ [c] ++ fr) p bs T) SBracket (C0 fr p' bs (tk t [c] i :: T)).
Proof.
  intros Hb Hc. assert (Hnb : is_blank c = false) by (destruct Hc as [[-> _] | [[-> _] | [-> _]]]; reflexivity).
  eexists; eexists. eapply reachS_trans; [apply (reach_ws_g SBracket b ([c] ++ fr) p bs T (or_intror eq_refl) Hb (nbh_cons c _ Hnb))|].
  apply reachS_step. cbn [app]. apply (step_bracket_char fd ffd fcs c t fr _ bs T Hc).
Qed.
Lemma B_int_g b ds i0 c r p bs T : blanks b -> int_text_ok ds i0 -> isd c = false ->
  exists p' i, reachS SBracket (C0 (b ++ ds ++ c :: r) p bs T) SBracket (C0 (c :: r) p' bs (tk T_INDEX ds i :: T)).
Proof.
  intros Hb Hi Hc. destruct (int_head_nonblank ds i0 Hi) as (d & ds' & Ed & Hd).
  eexists; eexists. eapply reachS_trans; [apply (reach_ws_g SBracket b (ds ++ c :: r) p bs T (or_intror eq_refl) Hb)|].
  { rewrite Ed. cbn [app]. apply nbh_cons. exact Hd. }
  apply reachS_step. apply (step_bracket_int fd ffd fcs ds i0 c r _ bs T Hi Hc).
Qed.
Lemma B_str_g b q body fr p bs T : blanks b -> qok q -> lex_ok q body = true ->
  exists p' i, reachS SBracket (C0 (b ++ [q] ++ body ++ [q] ++ fr) p bs T) SBracket (C0 fr p' bs (tk (tt_of q) body i :: T)).
Proof.
  intros Hb Hq Hl. assert (Hnb : is_blank q = false) by (destruct Hq as [-> | ->]; reflexivity).
  eexists; eexists. eapply reachS_trans; [apply (reach_ws_g SBracket b ([q] ++ body ++ [q] ++ fr) p bs T (or_intror eq_refl) Hb (nbh_cons q _ Hnb))|].
  cbn [app]. set (p1 := p + zlen b).
  assert (E1 : lex_step SBracket (C0 (q :: body ++ q :: fr) p1 bs T) = LNext (SString q false) (GX fd ffd fcs (body ++ q :: fr) [q] p1 (p1 + 1) bs T)).
  { cbn [lex_step]. pose proof (ws_skip_g [] (q :: body ++ q :: fr) p1 bs T eq_refl Hnb) as E0. cbn [app] in E0. rewrite E0.
    replace (p1 + zlen (@nil N)) with p1 by (unfold zlen; cbn [length]; lia). destruct Hq as [-> | ->]; reflexivity. }
  eapply reachS_trans; [apply reachS_step; exact E1|].
  destruct (lex_string_literal q false (GX fd ffd fcs (body ++ q :: fr) [q] p1 (p1 + 1) bs T) body fr Hq eq_refl Hl) as (k & _ & Hk).
  eapply reachS_steps. rewrite Hk. unfold after, with_string_token, G, tk. cbn [l_pos l_fdepth l_ffd l_fcs l_bs l_toks LX]. reflexivity.
Qed.


End GS.

(* ---- filter tokens under general FOLLOW conditions ---- *)
Definition kwfol (x : N) : Prop := in_ranges x cls_fn_char = false /\ x <> 40%N.

Lemma sf_true_g fd ffd fcs x r p bs T : kwfol x -> exists q, lex_step Lex.SFilter (GX fd ffd fcs (s_true ++ x :: r) [] p p bs T)
  = LNext Lex.SFilter (GX fd ffd fcs (x :: r) [] q q bs (tk T_TRUE s_true p :: T)).
Proof.
  intros Hx. destruct Hx as [A B].
  apply (sf_word fd ffd fcs s_true 116%N [114; 117; 101]%N (x :: r) p bs T T_TRUE eq_refl eq_refl eq_refl).
  - intros l2 E. apply (fn_match_nocall l2 116%N [114; 117; 101]%N x r E eq_refl eq_refl A B).
  - intros l2 E. rewrite (accept_mismatch l2 38%N [38%N] 116%N _ E ltac:(discriminate)). rewrite (accept_mismatch l2 124%N [124%N] 116%N _ E ltac:(discriminate)).
    rewrite (accept_prefix l2 s_true (x :: r) E). reflexivity.
Qed.

Lemma sf_false_g fd ffd fcs x r p bs T : kwfol x -> exists q, lex_step Lex.SFilter (GX fd ffd fcs (s_false ++ x :: r) [] p p bs T)
  = LNext Lex.SFilter (GX fd ffd fcs (x :: r) [] q q bs (tk T_FALSE s_false p :: T)).
Proof.
  intros Hx. destruct Hx as [A B].
  apply (sf_word fd ffd fcs s_false 102%N [97; 108; 115; 101]%N (x :: r) p bs T T_FALSE eq_refl eq_refl eq_refl).
  - intros l2 E. apply (fn_match_nocall l2 102%N [97; 108; 115; 101]%N x r E eq_refl eq_refl A B).
  - intros l2 E. rewrite (accept_mismatch l2 38%N [38%N] 102%N _ E ltac:(discriminate)). rewrite (accept_mismatch l2 124%N [124%N] 102%N _ E ltac:(discriminate)).
    unfold s_true. rewrite (accept_mismatch l2 116%N [114; 117; 101]%N 102%N _ E ltac:(discriminate)). rewrite (accept_prefix l2 s_false (x :: r) E). reflexivity.
Qed.

Lemma sf_null_g fd ffd fcs x r p bs T : kwfol x -> exists q, lex_step Lex.SFilter (GX fd ffd fcs (s_null ++ x :: r) [] p p bs T)
  = LNext Lex.SFilter (GX fd ffd fcs (x :: r) [] q q bs (tk T_NULL s_null p :: T)).
Proof.
  intros Hx. destruct Hx as [A B].
  apply (sf_word fd ffd fcs s_null 110%N [117; 108; 108]%N (x :: r) p bs T T_NULL eq_refl eq_refl eq_refl).
  - intros l2 E. apply (fn_match_nocall l2 110%N [117; 108; 108]%N x r E eq_refl eq_refl A B).
  - intros l2 E. rewrite (accept_mismatch l2 38%N [38%N] 110%N _ E ltac:(discriminate)). rewrite (accept_mismatch l2 124%N [124%N] 110%N _ E ltac:(discriminate)).
    unfold s_true, s_false. rewrite (accept_mismatch l2 116%N [114; 117; 101]%N 110%N _ E ltac:(discriminate)). rewrite (accept_mismatch l2 102%N [97; 108; 115; 101]%N 110%N _ E ltac:(discriminate)).
    rewrite (accept_prefix l2 s_null (x :: r) E). reflexivity.
Qed.

Lemma num_head_facts c0 : (c0 = 45%N \/ isd c0 = true) ->
  in_ranges c0 ws_ranges = false /\ sf_special c0 = false /\ in_ranges c0 cls_fn_first = false /\ 38%N <> c0 /\ 124%N <> c0 /\ 116%N <> c0 /\ 102%N <> c0 /\ 110%N <> c0
  /\ is_blank c0 = false /\ c0 <> 46%N /\ c0 <> 91%N /\ c0 <> 61%N.
Proof.
  intros [-> | Hc0]; [repeat split; try reflexivity; discriminate|]. unfold isd in Hc0. unfold sf_special, cls_fn_first, is_blank. cbn [in_ranges ws_ranges].
  repeat split; lia.
Qed.

Lemma sf_int_g fd ffd fcs w x r p bs T : int_form w -> numfol x ->
  exists q, lex_step Lex.SFilter (GX fd ffd fcs (w ++ x :: r) [] p p bs T)
  = LNext Lex.SFilter (GX fd ffd fcs (x :: r) [] q q bs (tk T_INT w p :: T)).
Proof.
  intros Hw Hx. destruct (int_form_head w Hw) as (c0 & w' & Ew & Hc0). destruct (int_form_match w x r Hw Hx) as [MF MI].
  destruct (num_head_facts c0 Hc0) as (F1 & F2 & F3 & F4 & F5 & F6 & F7 & F8 & _).
  apply (sf_word fd ffd fcs w c0 w' (x :: r) p bs T T_INT Ew F1 F2).
  - intros l2 E. rewrite Ew in E. cbn [app] in E. apply (fn_nomatch_l l2 c0 _ E F3).
  - intros l2 E. pose proof E as E'. rewrite Ew in E'. cbn [app] in E'.
    rewrite (accept_mismatch l2 38%N [38%N] c0 _ E' F4). rewrite (accept_mismatch l2 124%N [124%N] c0 _ E' F5). unfold s_true, s_false, s_null.
    rewrite (accept_mismatch l2 116%N [114; 117; 101]%N c0 _ E' F6). rewrite (accept_mismatch l2 102%N [97; 108; 115; 101]%N c0 _ E' F7).
    rewrite (accept_mismatch l2 110%N [117; 108; 108]%N c0 _ E' F8).
    unfold l_accept_match. rewrite E. rewrite MF, MI. reflexivity.
Qed.

Lemma sf_float_g fd ffd fcs w x r p bs T : float_form w -> numfol x ->
  exists q, lex_step Lex.SFilter (GX fd ffd fcs (w ++ x :: r) [] p p bs T)
  = LNext Lex.SFilter (GX fd ffd fcs (x :: r) [] q q bs (tk T_FLOAT w p :: T)).
Proof.
  intros Hw Hx. destruct (float_form_head w Hw) as (c0 & w' & Ew & Hc0). pose proof (float_form_match w x r Hw Hx) as MF.
  destruct (num_head_facts c0 Hc0) as (F1 & F2 & F3 & F4 & F5 & F6 & F7 & F8 & _).
  apply (sf_word fd ffd fcs w c0 w' (x :: r) p bs T T_FLOAT Ew F1 F2).
  - intros l2 E. rewrite Ew in E. cbn [app] in E. apply (fn_nomatch_l l2 c0 _ E F3).
  - intros l2 E. pose proof E as E'. rewrite Ew in E'. cbn [app] in E'.
    rewrite (accept_mismatch l2 38%N [38%N] c0 _ E' F4). rewrite (accept_mismatch l2 124%N [124%N] c0 _ E' F5). unfold s_true, s_false, s_null.
    rewrite (accept_mismatch l2 116%N [114; 117; 101]%N c0 _ E' F6). rewrite (accept_mismatch l2 102%N [97; 108; 115; 101]%N c0 _ E' F7).
    rewrite (accept_mismatch l2 110%N [117; 108; 108]%N c0 _ E' F8).
    unfold l_accept_match. rewrite E. rewrite MF. reflexivity.
Qed.

(* the shape of a number token that spells a literal *)
Lemma float_lit_form v x : pmatch RE_FLOAT v -> py_float v = Some x -> float_form v.
Proof.
  intros Ht Hp. apply lang_float_form; [apply pmatch_lang; exact Ht|]. intros r0 ->. unfold py_float in Hp. cbn in Hp. discriminate Hp.
Qed.

(* comparison operators: two-character ones whatever follows, "<" and ">" unless "=" follows *)
Definition op_text (o : cmpop) : list N := op_str o.
Lemma sf_cmp_g fd ffd fcs o x r p bs T : ((o = OLt \/ o = OGt) -> x <> 61%N) ->
  exists q, lex_step Lex.SFilter (GX fd ffd fcs (op_str o ++ x :: r) [] p p bs T) = LNext Lex.SFilter (GX fd ffd fcs (x :: r) [] q q bs (tk (cmp_tok o) (op_str o) p :: T)).
Proof.
  intros Hx. destruct o; cbn [op_str app]; cbn [lex_step]; rewrite ignore_ws_nonws by reflexivity; eexists;
    try reflexivity.
  - cbn. unfold emit2, ceq, l_peek. cbn. assert (E : N.eqb x 61 = false) by (apply N.eqb_neq; apply Hx; left; reflexivity). rewrite E. reflexivity.
  - cbn. unfold emit2, ceq, l_peek. cbn. assert (E : N.eqb x 61 = false) by (apply N.eqb_neq; apply Hx; right; reflexivity). rewrite E. reflexivity.
Qed.

(* ================= every spelling of every query (numbers without exponent) ======================================================== *)
Definition st_of (a : ast) : lstate := match am a with MSeg => SSegment | MDesc => SDescendant | MBrk => SBracket | MFil => Lex.SFilter end.
Definition LA (a : ast) (rest : list N) (p : Z) (bs : list (N * Z)) (T : list token) : lexer := G (afd a) (affd a) (afcs a) rest p bs T.

(* what may follow an expression: blanks, then a closing bracket or parenthesis, a comma, or the first character of an operator *)
Definition ech (c : N) : Prop := c = 93%N \/ c = 44%N \/ c = 41%N \/ c = 38%N \/ c = 124%N \/ c = 61%N \/ c = 33%N \/ c = 60%N \/ c = 62%N.
Definition efol (fr : list N) : Prop := exists b c r, fr = b ++ c :: r /\ blanks b /\ ech c.
Definition bch (h : N) : Prop := is_blank h = true \/ ech h.
Lemma efol_head fr : efol fr -> exists h r, fr = h :: r /\ bch h.
Proof.
  intros (b & c & r & -> & Hb & Hc). destruct b as [|h b']; [exists c, r; split; [reflexivity | right; exact Hc]|].
  unfold blanks in Hb. cbn [forallb] in Hb. apply andb_true_iff in Hb as [Hh _]. exists h, (b' ++ c :: r). split; [reflexivity | left; exact Hh].
Qed.
Lemma bch_facts h : bch h -> numfol h /\ kwfol h /\ in_ranges h cls_name_char = false /\ isd h = false.
Proof.
  intros [Hb | He].
  - unfold is_blank in Hb. assert (X : h = 32%N \/ h = 10%N \/ h = 13%N \/ h = 9%N) by lia.
    destruct X as [-> | [-> | [-> | ->]]]; repeat split; try reflexivity; discriminate.
  - destruct He as [-> | [-> | [-> | [-> | [-> | [-> | [-> | [-> | ->]]]]]]]]; repeat split; try reflexivity; discriminate.
Qed.
Lemma ech_facts c : ech c -> is_blank c = false /\ c <> 46%N /\ c <> 91%N.
Proof. intros [-> | [-> | [-> | [-> | [-> | [-> | [-> | [-> | ->]]]]]]]]; repeat split; try reflexivity; discriminate. Qed.
Lemma efol_nn fr : efol fr -> nn_head fr.
Proof. intros H. destruct (efol_head fr H) as (h & r & -> & Hh). exact (proj1 (proj2 (proj2 (bch_facts h Hh)))). Qed.

(* the filter state skips blanks like the others *)
Lemma fil_ws fd ffd fcs b X p bs T : blanks b -> nbh X -> lex_step Lex.SFilter (G fd ffd fcs (b ++ X) p bs T) = lex_step Lex.SFilter (G fd ffd fcs X (p + zlen b) bs T).
Proof.
  intros Hb HX. pose proof (nbh_nb X HX) as Hn. cbn [lex_step].
  pose proof (ws_skip_g fd ffd fcs [] X (p + zlen b) bs T eq_refl Hn) as E0. cbn [app] in E0.
  rewrite (ws_skip_g fd ffd fcs b X p bs T Hb Hn), E0.
  replace (p + zlen b + zlen (@nil N)) with (p + zlen b) by (unfold zlen; cbn [length]; lia). reflexivity.
Qed.

(* from a filter-like state to the filter state proper, in front of a token that is neither "." nor "[" *)
Lemma to_fil a b c r p bs T : fl a -> blanks b -> is_blank c = false -> c <> 46%N -> c <> 91%N ->
  exists p', reachS (st_of a) (LA a (b ++ c :: r) p bs T) Lex.SFilter (LA a (c :: r) p' bs T).
Proof.
  intros [Hm | [Hm Hd]] Hb Hc H46 H91; unfold st_of, LA; rewrite Hm.
  - exists (p + zlen b). apply reachS_sim. apply sim_of_step. apply fil_ws; [exact Hb | apply nbh_cons; exact Hc].
  - exists (p + zlen b). eapply reachS_trans; [apply reachS_sim; apply sim_of_step; apply (seg_ws_g (afd a) (affd a) (afcs a) b (c :: r) p bs T Hb (nbh_cons c r Hc))|].
    apply reachS_step. unfold G. rewrite ssegment_nows by (try assumption; rewrite blank_ws; exact Hc). f_equal. apply GX_pos2. lia.
Qed.

Lemma rd_fil a T v c v' b fr p bs T0 : fl a -> blanks b -> v = c :: v' -> is_blank c = false -> c <> 46%N -> c <> 91%N ->
  (forall p1, exists q, lex_step Lex.SFilter (GX (afd a) (affd a) (afcs a) (v ++ fr) [] p1 p1 bs T0) = LNext Lex.SFilter (GX (afd a) (affd a) (afcs a) fr [] q q bs (tk T v p1 :: T0))) ->
  exists p' i, reachS (st_of a) (LA a (b ++ v ++ fr) p bs T0) Lex.SFilter (LA a fr p' bs (tk T v i :: T0)).
Proof.
  intros Hf Hb -> Hc H46 H91 Hstep. cbn [app]. destruct (to_fil a b c (v' ++ fr) p bs T0 Hf Hb Hc H46 H91) as (p1 & R1).
  destruct (Hstep p1) as (q & E). exists q, p1. eapply reachS_trans; [exact R1|]. apply reachS_step. exact E.
Qed.

Lemma sf_dquote fd ffd fcs r p bs T : lex_step Lex.SFilter (GX fd ffd fcs (34%N :: r) [] p p bs T) = LNext (SString 34 true) (GX fd ffd fcs r [34%N] p (p + 1) bs T).
Proof. cbn [lex_step]. rewrite ignore_ws_nonws by reflexivity. reflexivity. Qed.

Lemma F_str a b q body fr p bs T : fl a -> blanks b -> qok q -> lex_ok q body = true ->
  exists p' i, reachS (st_of a) (LA a (b ++ [q] ++ body ++ [q] ++ fr) p bs T) Lex.SFilter (LA a fr p' bs (tk (tt_of q) body i :: T)).
Proof.
  intros Hf Hb Hq Hl. assert (Hq3 : is_blank q = false /\ q <> 46%N /\ q <> 91%N) by (destruct Hq as [-> | ->]; repeat split; try reflexivity; discriminate).
  destruct Hq3 as (Q1 & Q2 & Q3). cbn [app]. destruct (to_fil a b q (body ++ q :: fr) p bs T Hf Hb Q1 Q2 Q3) as (p1 & R1).
  assert (E1 : lex_step Lex.SFilter (LA a (q :: body ++ q :: fr) p1 bs T) = LNext (SString q true) (GX (afd a) (affd a) (afcs a) (body ++ q :: fr) [q] p1 (p1 + 1) bs T)).
  { unfold LA, G. destruct Hq as [-> | ->]; [apply sf_quote | apply sf_dquote]. }
  destruct (lex_string_literal q true (GX (afd a) (affd a) (afcs a) (body ++ q :: fr) [q] p1 (p1 + 1) bs T) body fr Hq eq_refl Hl) as (k & _ & Hk).
  eexists; eexists. eapply reachS_trans; [exact R1|]. eapply reachS_trans; [apply reachS_step; exact E1|]. eapply reachS_steps. rewrite Hk.
  unfold after, with_string_token, LA, G, tk. cbn [l_pos l_fdepth l_ffd l_fcs l_bs l_toks LX]. reflexivity.
Qed.

Section FULL.
Variable cfg : envcfg.
Notation QT := (QT cfg). Notation SegT := (SegT cfg). Notation SelsT := (SelsT cfg). Notation SelT := (SelT cfg). Notation ET := (ET cfg).
Notation CT := (CT cfg). Notation TT := (TT cfg). Notation ArgsT := (ArgsT cfg). Notation ArgT := (ArgT cfg).

Definition fol_cb (fr : list N) : Prop := exists b c r, fr = b ++ c :: r /\ blanks b /\ (c = 44%N \/ c = 93%N).
Lemma fol_cb_efol fr : fol_cb fr -> efol fr.
Proof. intros (b & c & r & -> & Hb & [-> | ->]); exists b; eexists; eexists; (split; [reflexivity|]); (split; [exact Hb|]); unfold ech; auto. Qed.
Lemma fol_cb_sel fr : fol_cb fr -> fol_sel fr.
Proof. intros (b & c & r & -> & Hb & Hc). apply fol_blank; [exact Hb | destruct Hc as [-> | ->]; reflexivity]. Qed.

Definition F_QT (q : list seg) (t : list token) : Prop :=
  forall a z a' fr p bs T, okS a -> am a = MSeg -> sc z -> RunT a t z a' -> nn_head fr ->
    exists t' p', reachS SSegment (LA a (z ++ fr) p bs T) SSegment (LA a fr p' bs (rev t' ++ T)) /\ QT q t' /\ (z = [] \/ seg_hd z).
Definition F_SegT (g : seg) (t : list token) : Prop :=
  forall a z a' fr p bs T, okS a -> am a = MSeg -> sc z -> RunT a t z a' -> nn_head fr ->
    exists t' p', reachS SSegment (LA a (z ++ fr) p bs T) SSegment (LA a fr p' bs (rev t' ++ T)) /\ SegT g t' /\ seg_hd z.
Definition F_SelsT (ss : list sel) (t : list token) : Prop :=
  forall a z a' fr p j bs T, okS a -> am a = MBrk -> sc z -> RunT a t z a' -> fol_cb fr ->
    exists t' p', reachS SBracket (LA a (z ++ fr) p ((91%N, j) :: bs) T) (st_of a') (LA a' fr p' ((91%N, j) :: bs) (rev t' ++ T)) /\ SelsT ss t'.
Definition F_SelT (s : sel) (t : list token) : Prop :=
  forall a z a' fr p j bs T, okS a -> am a = MBrk -> sc z -> RunT a t z a' -> fol_cb fr ->
    exists t' p', reachS SBracket (LA a (z ++ fr) p ((91%N, j) :: bs) T) (st_of a') (LA a' fr p' ((91%N, j) :: bs) (rev t' ++ T)) /\ SelT s t'.
Definition F_ET (k : Z) (e : expr) (t : list token) : Prop :=
  forall a z a' fr p bs T, okS a -> 1 <= afd a -> fl a -> sc z -> RunT a t z a' -> efol fr ->
    exists t' p', reachS (st_of a) (LA a (z ++ fr) p bs T) (st_of a') (LA a' fr p' bs (rev t' ++ T)) /\ ET k e t'.
Definition F_CT (e : expr) (t : list token) : Prop :=
  forall a z a' fr p bs T, okS a -> 1 <= afd a -> fl a -> sc z -> RunT a t z a' -> efol fr ->
    exists t' p', reachS (st_of a) (LA a (z ++ fr) p bs T) (st_of a') (LA a' fr p' bs (rev t' ++ T)) /\ CT e t'.
Definition F_TT (w : ty3) (e : expr) (t : list token) : Prop :=
  forall a z a' fr p bs T, okS a -> 1 <= afd a -> fl a -> sc z -> RunT a t z a' -> efol fr ->
    exists t' p', reachS (st_of a) (LA a (z ++ fr) p bs T) (st_of a') (LA a' fr p' bs (rev t' ++ T)) /\ TT w e t'.
Definition F_ArgsT (tys : list ty3) (args : list expr) (t : list token) : Prop :=
  forall a z a' fr p bs T, okS a -> 1 <= afd a -> fl a -> incall a -> sc z -> RunT a t z a' -> efol fr ->
    exists t' p', reachS (st_of a) (LA a (z ++ fr) p bs T) (st_of a') (LA a' fr p' bs (rev t' ++ T)) /\ ArgsT tys args t'.
Definition F_ArgT (w : ty3) (e : expr) (t : list token) : Prop :=
  forall a z a' fr p bs T, okS a -> 1 <= afd a -> fl a -> sc z -> RunT a t z a' -> efol fr ->
    exists t' p', reachS (st_of a) (LA a (z ++ fr) p bs T) (st_of a') (LA a' fr p' bs (rev t' ++ T)) /\ ArgT w e t'.

Ltac retext Y := match goal with |- reachS _ (LA _ ?X _ _ _) _ _ => replace X with Y by (cbn [app pre post ty tval tk]; rewrite ?app_nil_r, <- ?app_assoc; cbn [app]; rewrite ?app_nil_r, <- ?app_assoc; reflexivity) end.
Ltac ftok Hs Hf := apply (fl_step _ _ _ _ Hf) in Hs; [|discriminate|discriminate]; cbn [fil_step] in Hs; inversion Hs; subst; clear Hs.

(* ---- literals ---- *)
Lemma f_ct_lit v t : lit_tok v t -> F_CT (ELit v) [t].
Proof.
  intros Hl a z a' fr p bs T Ho Hd Hf Hsc H Hfr. runc H k0 a1 b z' Hs Hb Hn Ht HR. runnil HR.
  destruct (efol_head fr Hfr) as (h & r & -> & Hh). destruct (bch_facts h Hh) as (Hnum & Hkw & _ & _).
 
  assert (Hscv : sc (tval t)) by (apply (sc_mid (b ++ pre k0 (ty t)) (tval t) (post (ty t) ++ [])); rewrite <- !app_assoc; exact Hsc).
  (* a token read by one step of the filter state, leaving the machine in the filter state with the same stacks *)
  assert (Fin : forall T0 vv c v', ty t = T0 -> tval t = vv -> vv = c :: v' -> is_blank c = false -> c <> 46%N -> c <> 91%N -> pre GBl T0 = [] -> post T0 = [] ->
            k0 = GBl -> a1 = amode_set a MFil ->
            (forall p1, exists q, lex_step Lex.SFilter (GX (afd a) (affd a) (afcs a) (vv ++ h :: r) [] p1 p1 bs T) = LNext Lex.SFilter (GX (afd a) (affd a) (afcs a) (h :: r) [] q q bs (tk T0 vv p1 :: T))) ->
            (forall i, lit_tok v (tk T0 vv i)) ->
            exists t' p', reachS (st_of a) (LA a ((b ++ pre k0 (ty t) ++ tval t ++ post (ty t) ++ []) ++ h :: r) p bs T) (st_of a1) (LA a1 (h :: r) p' bs (rev t' ++ T)) /\ CT (ELit v) t').
  { intros T0 vv c v' Ety Etv Evv Hc H46 H91 Hpre Hpost -> -> Hstep Hlit. rewrite Ety, Etv, Hpre, Hpost.
    destruct (rd_fil a T0 vv c v' b (h :: r) p bs T Hf Hb Evv Hc H46 H91 Hstep) as (p' & i & R). exists [tk T0 vv i], p'. split; [|constructor; apply Hlit].
    cbn [rev app]. retext (b ++ vv ++ h :: r). exact R. }
  destruct Hl as [[E Ev] | [[E Ev] | [[E Ev] | [[Hty (s0 & Hdec & Ev)] | [(E & Hz & x & Hp & Ev) | (E & Hz & x & Hp & Ev)]]]]].
  - rewrite E in Ht, Hs. cbn [tshape] in Ht. ftok Hs Hf. apply (Fin T_TRUE s_true 116%N [114; 117; 101]%N E Ht); try reflexivity; try discriminate.
    + intros p1. apply (sf_true_g _ _ _ h r p1 bs T Hkw).
    + intros i. left. split; reflexivity.
  - rewrite E in Ht, Hs. cbn [tshape] in Ht. ftok Hs Hf. apply (Fin T_FALSE s_false 102%N [97; 108; 115; 101]%N E Ht); try reflexivity; try discriminate.
    + intros p1. apply (sf_false_g _ _ _ h r p1 bs T Hkw).
    + intros i. right. left. split; reflexivity.
  - rewrite E in Ht, Hs. cbn [tshape] in Ht. ftok Hs Hf. apply (Fin T_NULL s_null 110%N [117; 108; 108]%N E Ht); try reflexivity; try discriminate.
    + intros p1. apply (sf_null_g _ _ _ h r p1 bs T Hkw).
    + intros i. right. right. left. split; reflexivity.
  - destruct (decode_reidx t s0 Hty Ht Hscv Hdec) as (q & Hq & Ety & Hlok & Hdec').
    assert (Hst : k0 = GBl /\ a1 = amode_set a MFil) by (destruct Hty as [E | E]; rewrite E in Hs; ftok Hs Hf; split; reflexivity). destruct Hst as [-> ->].
    destruct (F_str a b q (tval t) (h :: r) p bs T Hf Hb Hq Hlok) as (p' & i & R). exists [tk (tt_of q) (tval t) i], p'. split.
    + cbn [rev app]. rewrite Ety. destruct (qtt_pre q Hq) as [E1 E2]. fold (tt_of q) in E1, E2. rewrite E1, E2. retext (b ++ [q] ++ tval t ++ [q] ++ h :: r). exact R.
    + constructor. right. right. right. left. split; [unfold tk, tt_of; cbn [ty]; destruct (N.eqb q 39); [left | right]; reflexivity|]. exists s0. split; [apply Hdec' | exact Ev].
  - rewrite E in Ht, Hs. cbn [tshape] in Ht. ftok Hs Hf. pose proof (lang_int_form _ (pmatch_lang _ _ Ht)) as Hform.
    destruct (int_form_head _ Hform) as (c & v' & Ecv & Hc0). destruct (num_head_facts c Hc0) as (_ & _ & _ & _ & _ & _ & _ & _ & C1 & C2 & C3 & _).
    apply (Fin T_INT (tval t) c v' E eq_refl Ecv C1 C2 C3); try reflexivity.
    + intros p1. apply (sf_int_g _ _ _ (tval t) h r p1 bs T Hform Hnum).
    + intros i. right. right. right. right. left. cbn [ty tval tk]. split; [reflexivity|]. split; [exact Hz|]. exists x. split; [exact Hp | reflexivity].
  - rewrite E in Ht, Hs. cbn [tshape] in Ht. ftok Hs Hf. pose proof (float_lit_form _ x Ht Hp) as Hform.
    destruct (float_form_head _ Hform) as (c & v' & Ecv & Hc0). destruct (num_head_facts c Hc0) as (_ & _ & _ & _ & _ & _ & _ & _ & C1 & C2 & C3 & _).
    apply (Fin T_FLOAT (tval t) c v' E eq_refl Ecv C1 C2 C3); try reflexivity.
    + intros p1. apply (sf_float_g _ _ _ (tval t) h r p1 bs T Hform Hnum).
    + intros i. right. right. right. right. right. cbn [ty tval tk]. split; [reflexivity|]. split; [exact Hz|]. exists x. split; [exact Hp | reflexivity].
Qed.

(* what Proofs/TextSound.v says about the abstract states along a derivation *)
Lemma gs_qt q t : QT q t -> P_QT q t. Proof. apply (proj1 (grammar_spelled cfg)). Qed.
Lemma gs_seg g t : SegT g t -> P_SegT g t. Proof. apply (proj1 (proj2 (grammar_spelled cfg))). Qed.
Lemma gs_sels ss t : SelsT ss t -> P_SelsT ss t. Proof. apply (proj1 (proj2 (proj2 (grammar_spelled cfg)))). Qed.
Lemma gs_sel s t : SelT s t -> P_SelT s t. Proof. apply (proj1 (proj2 (proj2 (proj2 (grammar_spelled cfg))))). Qed.
Lemma gs_et k e t : ET k e t -> P_ET k e t. Proof. apply (proj1 (proj2 (proj2 (proj2 (proj2 (grammar_spelled cfg)))))). Qed.
Lemma gs_ct e t : CT e t -> P_CT e t. Proof. apply (proj1 (proj2 (proj2 (proj2 (proj2 (proj2 (grammar_spelled cfg))))))). Qed.
Lemma gs_tt w e t : TT w e t -> P_TT w e t. Proof. apply (proj1 (proj2 (proj2 (proj2 (proj2 (proj2 (proj2 (grammar_spelled cfg)))))))). Qed.
Lemma gs_args tys args t : ArgsT tys args t -> P_ArgsT tys args t. Proof. apply (proj1 (proj2 (proj2 (proj2 (proj2 (proj2 (proj2 (proj2 (grammar_spelled cfg))))))))). Qed.
Lemma gs_arg w e t : ArgT w e t -> P_ArgT w e t. Proof. apply (proj2 (proj2 (proj2 (proj2 (proj2 (proj2 (proj2 (proj2 (grammar_spelled cfg))))))))). Qed.

(* ---- segments ---- *)
Lemma f_sg_prop k i : F_SegT (Child [SName k]) [tk T_PROPERTY k i].
Proof.
  intros a z a' fr p bs T Ho Hm Hsc H Hf. runc H k0 a1 b z' Hs Hb Hn Ht HR. runnil HR. stepM Hs Hm.
  destruct (R_prop_g (afd a) (affd a) (afcs a) b k fr p T bs Hb (lang_name k (pmatch_lang _ _ Ht)) Hf) as (p' & i' & R). exists [tk T_PROPERTY k i'], p'. split; [|split].
  - cbn [rev app]. retext (b ++ [46%N] ++ k ++ fr). exact R.
  - constructor.
  - cbn [ty tval tk]. apply seg_hd_blank; [exact Hb|]. exists 46%N, (k ++ post T_PROPERTY ++ []). split; [reflexivity | right; left; reflexivity].
Qed.
Lemma f_sg_wild v i : F_SegT (Child [SWild]) [tk T_WILD v i].
Proof.
  intros a z a' fr p bs T Ho Hm Hsc H Hf. runc H k0 a1 b z' Hs Hb Hn Ht HR. runnil HR. stepM Hs Hm.
  destruct (R_wild_sh_g (afd a) (affd a) (afcs a) b fr p T bs Hb) as (p' & i' & R). exists [tk T_WILD [42%N] i'], p'. split; [|split].
  - cbn [rev app]. retext (b ++ [46%N] ++ [42%N] ++ fr). exact R.
  - constructor.
  - cbn [ty tval tk]. apply seg_hd_blank; [exact Hb|]. exists 46%N, ([42%N] ++ post T_WILD ++ []). split; [reflexivity | right; left; reflexivity].
Qed.

(* "]" and "," after a selector: the selector was plain (state a) or a filter (a filter-like state with one more level of the filter stacks) *)
Lemma rd_rb a a1 b2 fr p j bs T : am a = MBrk -> after_sel a a1 -> blanks b2 ->
  exists p' i, reachS (st_of a1) (LA a1 (b2 ++ [93%N] ++ fr) p ((91%N, j) :: bs) T) SSegment (LA (amode_set a MSeg) fr p' bs (tk T_RBRACKET [93%N] i :: T)).
Proof.
  intros Hm [-> | (Hf & E1 & E2 & E3)] Hb.
  - unfold st_of. rewrite Hm. exact (B_rb_g (afd a) (affd a) (afcs a) b2 fr p j T bs Hb).
  - cbn [app]. destruct (to_fil a1 b2 93 fr p ((91%N, j) :: bs) T Hf Hb eq_refl ltac:(discriminate) ltac:(discriminate)) as (p1 & R1).
    eexists; eexists. eapply reachS_trans; [exact R1|]. unfold LA, G. rewrite E2. eapply reachS_trans; [apply reachS_step; apply sf_close|].
    apply reachS_step. rewrite (GX_pos2 _ _ _ (93%N :: fr) [] p1 (p1 + 1 - 1) p1) by lia.
    rewrite (Requery.step_bracket_close (afd a1 - 1) (affd a) (afcs a1) bs fr p1 j T). cbn [amode_set afd affd afcs]. replace (afd a1 - 1) with (afd a) by lia. rewrite E3. reflexivity.
Qed.
Lemma rd_comma a a1 bc fr p j bs T : am a = MBrk -> after_sel a a1 -> blanks bc ->
  exists p' i, reachS (st_of a1) (LA a1 (bc ++ [44%N] ++ fr) p ((91%N, j) :: bs) T) SBracket (LA a fr p' ((91%N, j) :: bs) (tk T_COMMA [44%N] i :: T)).
Proof.
  intros Hm [-> | (Hf & E1 & E2 & E3)] Hb.
  - unfold st_of. rewrite Hm. exact (B_char_g (afd a) (affd a) (afcs a) bc 44 T_COMMA fr p _ T Hb (or_intror (or_introl (conj eq_refl eq_refl)))).
  - cbn [app]. destruct (to_fil a1 bc 44 fr p ((91%N, j) :: bs) T Hf Hb eq_refl ltac:(discriminate) ltac:(discriminate)) as (p1 & R1).
    eexists; eexists. eapply reachS_trans; [exact R1|]. unfold LA, G. rewrite E2. apply reachS_step.
    rewrite sf_comma_out by (rewrite E3; lia). replace (afd a1 - 1) with (afd a) by lia. rewrite E3. reflexivity.
Qed.

Lemma fol_cb_rb b r : blanks b -> fol_cb (b ++ [93%N] ++ r).
Proof. intros Hb. exists b, 93%N, r. split; [reflexivity|]. split; [exact Hb | right; reflexivity]. Qed.

Lemma f_close ss t v i : SelsT ss t -> F_SelsT ss t -> forall a z a' fr p j bs T, okS a -> am a = MBrk -> sc z -> RunT a (t ++ [tk T_RBRACKET v i]) z a' ->
  exists t' p' i', reachS SBracket (LA a (z ++ fr) p ((91%N, j) :: bs) T) SSegment (LA (amode_set a MSeg) fr p' bs (tk T_RBRACKET [93%N] i' :: rev t' ++ T)) /\ SelsT ss t' /\ a' = amode_set a MSeg.
Proof.
  intros HS0 IH a z a' fr p j bs T Ho Hm Hsc H. apply RunT_app in H as (z1 & z2 & a1 & -> & H1 & H2). apply sc_app in Hsc as [Hsc1 Hsc2].
  destruct (gs_sels ss t HS0 a z1 a1 Ho Hm Hsc1 H1) as (Has & _).
  runc H2 k0 a2 b2 z' Hs Hb2 Hn Ht HR. runnil HR. destruct (after_sel_steps a a1 Hm Has) as [_ E].
  assert (k0 = GBl /\ a2 = amode_set a MSeg) as [-> ->] by (rewrite E in Hs; inversion Hs; split; reflexivity). subst v.
  destruct (IH a z1 a1 ((b2 ++ [93%N] ++ fr)) p j bs T Ho Hm Hsc1 H1 (fol_cb_rb b2 fr Hb2)) as (t' & p1 & R1 & HS).
  destruct (rd_rb a a1 b2 fr p1 j bs (rev t' ++ T) Hm Has Hb2) as (p2 & i2 & R2). exists t', p2, i2. split; [|split; [exact HS | reflexivity]].
  eapply reachS_trans; [|exact R2]. retext (z1 ++ b2 ++ [93%N] ++ fr). exact R1.
Qed.

Lemma f_sg_br ss t v1 i1 v2 i2 : SelsT ss t -> F_SelsT ss t -> F_SegT (Child ss) (tk T_LBRACKET v1 i1 :: t ++ [tk T_RBRACKET v2 i2]).
Proof.
  intros HS0 IH a z a' fr p bs T Ho Hm Hsc H Hf. runc H k0 a1 b z' Hs Hb Hn Ht HR. stepM Hs Hm. do 4 (apply sc_app in Hsc as [_ Hsc]).
  destruct (R_lb_g (afd a) (affd a) (afcs a) b (z' ++ fr) p T bs Hb) as (p1 & i1' & j & R1).
  destruct (f_close ss t v2 i2 HS0 IH (amode_set a MBrk) z' a' fr p1 j bs (tk T_LBRACKET [91%N] i1' :: T) (okS_same _ _ (same_stk_mode a MBrk) Ho) eq_refl Hsc HR) as (t' & p2 & i2' & R2 & HS & ->).
  exists (tk T_LBRACKET [91%N] i1' :: t' ++ [tk T_RBRACKET [93%N] i2']), p2. split; [|split].
  - rewrite rev3. eapply reachS_trans; [|exact R2]. retext (b ++ [91%N] ++ z' ++ fr). exact R1.
  - constructor. exact HS.
  - cbn [ty tval tk pre post]. apply seg_hd_blank; [exact Hb|]. exists 91%N, ([] ++ z'). split; [reflexivity | right; right; reflexivity].
Qed.
Lemma f_sg_dprop k i v0 i0 : F_SegT (Desc [SName k]) [tk T_DOUBLE_DOT v0 i0; tk T_PROPERTY k i].
Proof.
  intros a z a' fr p bs T Ho Hm Hsc H Hf. runc H k0 a1 b z' Hs Hb Hn Ht HR. destruct (step_dd a k0 a1 Hm Hs) as [-> ->]. try subst v0.
  runc HR k1 a2 b1 z'' Hs1 Hb1 Hn1 Ht1 HR1. runnil HR1. unfold astep in Hs1. cbn in Hs1. inversion Hs1; subst. rewrite (Hn1 eq_refl).
  destruct (R_dd_g (afd a) (affd a) (afcs a) b (k ++ fr) p T bs Hb) as (p1 & i1 & R1).
  destruct (D_prop_g (afd a) (affd a) (afcs a) k fr p1 (tk T_DOUBLE_DOT [46; 46]%N i1 :: T) bs (lang_name k (pmatch_lang _ _ Ht1)) Hf) as (p2 & i2 & R2).
  exists [tk T_DOUBLE_DOT [46; 46]%N i1; tk T_PROPERTY k i2], p2. split; [|split].
  - cbn [rev app]. eapply reachS_trans; [|exact R2]. retext (b ++ [46; 46]%N ++ k ++ fr). exact R1.
  - constructor.
  - cbn [ty tval tk pre post]. apply seg_hd_blank; [exact Hb|]. eexists; eexists. split; [reflexivity | right; left; reflexivity].
Qed.
Lemma f_sg_dwild v i v0 i0 : F_SegT (Desc [SWild]) [tk T_DOUBLE_DOT v0 i0; tk T_WILD v i].
Proof.
  intros a z a' fr p bs T Ho Hm Hsc H Hf. runc H k0 a1 b z' Hs Hb Hn Ht HR. destruct (step_dd a k0 a1 Hm Hs) as [-> ->]. try subst v0.
  runc HR k1 a2 b1 z'' Hs1 Hb1 Hn1 Ht1 HR1. runnil HR1. unfold astep in Hs1. cbn in Hs1. inversion Hs1; subst. rewrite (Hn1 eq_refl). try subst v.
  destruct (R_dd_g (afd a) (affd a) (afcs a) b ([42%N] ++ fr) p T bs Hb) as (p1 & i1 & R1).
  destruct (D_wild_g (afd a) (affd a) (afcs a) fr p1 (tk T_DOUBLE_DOT [46; 46]%N i1 :: T) bs) as (p2 & i2 & R2).
  exists [tk T_DOUBLE_DOT [46; 46]%N i1; tk T_WILD [42%N] i2], p2. split; [|split].
  - cbn [rev app]. eapply reachS_trans; [|exact R2]. retext (b ++ [46; 46]%N ++ [42%N] ++ fr). exact R1.
  - constructor.
  - cbn [ty tval tk pre post]. apply seg_hd_blank; [exact Hb|]. eexists; eexists. split; [reflexivity | right; left; reflexivity].
Qed.
Lemma f_sg_dbr ss t v0 i0 v1 i1 v2 i2 : SelsT ss t -> F_SelsT ss t -> F_SegT (Desc ss) (tk T_DOUBLE_DOT v0 i0 :: tk T_LBRACKET v1 i1 :: t ++ [tk T_RBRACKET v2 i2]).
Proof.
  intros HS0 IH a z a' fr p bs T Ho Hm Hsc H Hf. runc H k0 a1 b z' Hs Hb Hn Ht HR. destruct (step_dd a k0 a1 Hm Hs) as [-> ->]. try subst v0.
  runc HR k1 a2 b1 z'' Hs1 Hb1 Hn1 Ht1 HR1. unfold astep in Hs1. cbn in Hs1. inversion Hs1; subst. rewrite (Hn1 eq_refl). try subst v1. do 8 (apply sc_app in Hsc as [_ Hsc]).
 
  destruct (R_dd_g (afd a) (affd a) (afcs a) b ([91%N] ++ z'' ++ fr) p T bs Hb) as (p1 & i1' & R1).
  destruct (D_lb_g (afd a) (affd a) (afcs a) (z'' ++ fr) p1 (tk T_DOUBLE_DOT [46; 46]%N i1' :: T) bs) as (p2 & i2' & j & R2).
  destruct (f_close ss t v2 i2 HS0 IH (amode_set (amode_set a MDesc) MBrk) z'' a' fr p2 j bs (tk T_LBRACKET [91%N] i2' :: tk T_DOUBLE_DOT [46; 46]%N i1' :: T) (okS_same _ _ (same_stk_mode a MBrk) Ho) eq_refl Hsc HR1)
    as (t' & p3 & i3' & R3 & HS & ->).
  exists (tk T_DOUBLE_DOT [46; 46]%N i1' :: tk T_LBRACKET [91%N] i2' :: t' ++ [tk T_RBRACKET [93%N] i3']), p3. split; [|split].
  - assert (Etoks : rev (tk T_DOUBLE_DOT [46; 46]%N i1' :: tk T_LBRACKET [91%N] i2' :: t' ++ [tk T_RBRACKET [93%N] i3']) ++ T
                    = tk T_RBRACKET [93%N] i3' :: rev t' ++ tk T_LBRACKET [91%N] i2' :: tk T_DOUBLE_DOT [46; 46]%N i1' :: T).
    { cbn [rev]. rewrite rev_app_distr. cbn [rev app]. rewrite <- !app_assoc. reflexivity. }
    rewrite Etoks. eapply reachS_trans; [|exact R3]. eapply reachS_trans; [|exact R2]. retext (b ++ [46; 46]%N ++ [91%N] ++ z'' ++ fr). exact R1.
  - constructor. exact HS.
  - cbn [ty tval tk pre post]. apply seg_hd_blank; [exact Hb|]. eexists; eexists. split; [reflexivity | right; left; reflexivity].
Qed.

Lemma f_qt_nil : F_QT [] [].
Proof. intros a z a' fr p bs T Ho Hm Hsc H Hf. runnil H. exists [], p. split; [apply reachS_refl|]. split; [constructor | left; reflexivity]. Qed.
Lemma f_qt_cons g tg q tq : SegT g tg -> F_SegT g tg -> F_QT q tq -> F_QT (g :: q) (tg ++ tq).
Proof.
  intros HG Hg Hq a z a' fr p bs T Ho Hm Hsc H Hf.
  apply RunT_app in H as (z1 & z2 & a1 & -> & H1 & H2). apply sc_app in Hsc as [Hsc1 Hsc2].
  destruct (gs_seg g tg HG a z1 a1 Ho Hm Hsc1 H1) as (-> & _).
  assert (Hf1 : nn_head (z2 ++ fr)).
  { destruct (Hq a z2 a' fr p bs T Ho Hm Hsc2 H2 Hf) as (_ & _ & _ & _ & [-> | Hh]); [exact Hf | apply seg_hd_nn; exact Hh]. }
  destruct (Hg a z1 a (z2 ++ fr) p bs T Ho Hm Hsc1 H1 Hf1) as (t1 & p1 & R1 & HS1 & Hh1).
  destruct (Hq a z2 a' fr p1 bs (rev t1 ++ T) Ho Hm Hsc2 H2 Hf) as (t2 & p2 & R2 & HQ2 & _).
  exists (t1 ++ t2), p2. split; [|split].
  - rewrite rev_app_distr, <- !app_assoc. eapply reachS_trans; [exact R1 | exact R2].
  - constructor; assumption.
  - right. destruct Hh1 as (c & r & -> & Hc). exists c, (r ++ z2). split; [reflexivity | exact Hc].
Qed.

(* ---- selectors ---- *)
Lemma st_of_brk a : am a = MBrk -> st_of a = SBracket. Proof. intros H. unfold st_of. rewrite H. reflexivity. Qed.

Lemma f_name t k : (ty t = T_SQ_STRING \/ ty t = T_DQ_STRING) -> decode_string_literal t = Ok k -> F_SelT (SName k) [t].
Proof.
  intros Hty Hd a z a' fr p j bs T Ho Hm Hsc H Hf. runc H k0 a1 b z' Hs Hb Hn Ht HR. runnil HR.
  assert (Hs' : k0 = GBl /\ a1 = a) by (unfold astep in Hs; rewrite Hm in Hs; destruct Hty as [E | E]; rewrite E in Hs; inversion Hs; split; reflexivity).
  destruct Hs' as [-> ->]. rewrite (st_of_brk a Hm).
  assert (Hscv : sc (tval t)) by (apply (sc_mid (b ++ pre GBl (ty t)) (tval t) (post (ty t) ++ [])); rewrite <- !app_assoc; exact Hsc).
  destruct (decode_reidx t k Hty Ht Hscv Hd) as (q & Hq & Ety & Hlok & Hdec).
  destruct (B_str_g (afd a) (affd a) (afcs a) b q (tval t) fr p ((91%N, j) :: bs) T Hb Hq Hlok) as (p' & i' & R). exists [tk (tt_of q) (tval t) i'], p'. split.
  - cbn [rev app]. rewrite Ety. destruct (qtt_pre q Hq) as [E1 E2]. fold (tt_of q) in E1, E2. rewrite E1, E2. retext (b ++ [q] ++ tval t ++ [q] ++ fr). exact R.
  - apply st_name; [unfold tk, tt_of; cbn [ty]; destruct (N.eqb q 39); [left | right]; reflexivity | apply Hdec].
Qed.
Lemma f_index ds j0 i : int_text_ok ds i -> in_range cfg i = true -> F_SelT (SIndex i) [tk T_INDEX ds j0].
Proof.
  intros Hi Hr a z a' fr p j bs T Ho Hm Hsc H Hf. destruct (fol_cb_sel fr Hf) as (c & r & -> & Hc). runc H k0 a1 b z' Hs Hb Hn Ht HR. runnil HR.
  assert (k0 = GBl /\ a1 = a) as [-> ->] by (unfold astep in Hs; rewrite Hm in Hs; cbn in Hs; inversion Hs; split; reflexivity). rewrite (st_of_brk a Hm).
  destruct (B_int_g (afd a) (affd a) (afcs a) b ds i c r p ((91%N, j) :: bs) T Hb Hi Hc) as (p' & i' & R). exists [tk T_INDEX ds i'], p'. split.
  - cbn [rev app]. retext (b ++ ds ++ c :: r). exact R.
  - constructor; assumption.
Qed.
Lemma f_wild v i : F_SelT SWild [tk T_WILD v i].
Proof.
  intros a z a' fr p j bs T Ho Hm Hsc H Hf. runc H k0 a1 b z' Hs Hb Hn Ht HR. runnil HR.
  assert (k0 = GBl /\ a1 = a) as [-> ->] by (unfold astep in Hs; rewrite Hm in Hs; cbn in Hs; inversion Hs; split; reflexivity). rewrite (st_of_brk a Hm). subst v.
  destruct (B_char_g (afd a) (affd a) (afcs a) b 42 T_WILD fr p ((91%N, j) :: bs) T Hb (or_introl (conj eq_refl eq_refl))) as (p' & i' & R). exists [tk T_WILD [42%N] i'], p'. split.
  - cbn [rev app]. retext (b ++ [42%N] ++ fr). exact R.
  - constructor.
Qed.

Lemma f_filter e t v i : F_ET 3 e t -> F_SelT (SFilter e) (tk T_FILTER v i :: t).
Proof.
  intros IH a z a' fr p j bs T Ho Hm Hsc H Hf. runc H k0 a1 b z' Hs Hb Hn Ht HR. stepM Hs Hm. do 4 (apply sc_app in Hsc as [_ Hsc]).
  destruct Ho as (O1 & O2 & O3).
  assert (Ho1 : okS (mkA MFil (afd a + 1) (zlen (afcs a) :: affd a) (afcs a))).
  { split; [exact O1|]. cbn [affd afcs afd]. split; [intros d r E; inversion E; lia | lia]. }
  destruct (IH _ z' a' fr (p + zlen b + 1) ((91%N, j) :: bs) (tk T_FILTER [63%N] (p + zlen b) :: T) Ho1 ltac:(cbn [afd]; lia) (or_introl eq_refl) Hsc HR (fol_cb_efol fr Hf)) as (t' & p' & R & HE).
  exists (tk T_FILTER [63%N] (p + zlen b) :: t'), p'. split; [|constructor; exact HE].
  replace (rev (tk T_FILTER [63%N] (p + zlen b) :: t') ++ T) with (rev t' ++ tk T_FILTER [63%N] (p + zlen b) :: T) by (cbn [rev]; rewrite <- app_assoc; reflexivity).
  eapply reachS_trans; [|exact R]. retext (b ++ [63%N] ++ z' ++ fr).
  eapply reachS_trans; [apply (reach_ws_g (afd a) (affd a) (afcs a) SBracket b ([63%N] ++ z' ++ fr) p _ T (or_intror eq_refl) Hb (nbh_cons 63 _ eq_refl))|].
  apply reachS_step. cbn [app]. unfold LA, G, st_of. cbn [am afd affd afcs]. apply sb_filter.
Qed.

Lemma f_ss_one s t : F_SelT s t -> F_SelsT [s] t.
Proof.
  intros IH a z a' fr p j bs T Ho Hm Hsc H Hf. destruct (IH a z a' fr p j bs T Ho Hm Hsc H Hf) as (t' & p' & R & HS). exists t', p'. split; [exact R | constructor; exact HS].
Qed.
Lemma f_ss_cons s t v i rest trest : SelT s t -> F_SelT s t -> F_SelsT rest trest -> F_SelsT (s :: rest) (t ++ tk T_COMMA v i :: trest).
Proof.
  intros HS0 IHs IHr a z a' fr p j bs T Ho Hm Hsc H Hf.
  apply RunT_app in H as (z1 & z2 & a1 & -> & H1 & H2). apply sc_app in Hsc as [Hsc1 Hsc2].
  destruct (gs_sel s t HS0 a z1 a1 Ho Hm Hsc1 H1) as (Has & _).
  runc H2 k0 a2 bc z' Hs Hbc Hn Ht HR. destruct (after_sel_steps a a1 Hm Has) as [E _].
  assert (k0 = GBl /\ a2 = a) as [-> ->] by (rewrite E in Hs; inversion Hs; split; reflexivity). subst v.
  destruct (IHs a z1 a1 (bc ++ [44%N] ++ z' ++ fr) p j bs T Ho Hm Hsc1 H1) as (t1 & p1 & R1 & HS1).
  { exists bc, 44%N, (z' ++ fr). split; [reflexivity|]. split; [exact Hbc | left; reflexivity]. }
  destruct (rd_comma a a1 bc (z' ++ fr) p1 j bs (rev t1 ++ T) Hm Has Hbc) as (p2 & i2 & R2).
  do 4 (apply sc_app in Hsc2 as [_ Hsc2]).
  destruct (IHr a z' a' fr p2 j bs (tk T_COMMA [44%N] i2 :: rev t1 ++ T) Ho Hm Hsc2 HR Hf) as (t2 & p3 & R3 & HS2).
  exists (t1 ++ tk T_COMMA [44%N] i2 :: t2), p3. split; [|constructor; assumption].
  rewrite rev_snoc_app. eapply reachS_trans; [|exact R3]. eapply reachS_trans; [|exact R2]. retext (z1 ++ bc ++ [44%N] ++ z' ++ fr). exact R1.
Qed.

(* --- slices --- *)
Lemma f_optI o t a z a' fr p bs T : OptI cfg o t -> am a = MBrk -> RunT a t z a' -> fol_sel fr ->
  exists t' p', reachS SBracket (LA a (z ++ fr) p bs T) SBracket (LA a fr p' bs (rev t' ++ T)) /\ OptI cfg o t' /\ a' = a.
Proof.
  intros Ho Hm H (c & r & -> & Hc). destruct o as [x|]; cbn [OptI] in Ho.
  - destruct Ho as (ds & j & -> & Hi & Hr). runc H k0 a1 b z' Hs Hb Hn Ht HR. runnil HR.
    assert (k0 = GBl /\ a1 = a) as [-> ->] by (unfold astep in Hs; rewrite Hm in Hs; cbn in Hs; inversion Hs; split; reflexivity).
    destruct (B_int_g (afd a) (affd a) (afcs a) b ds x c r p bs T Hb Hi Hc) as (p' & i' & R). exists [tk T_INDEX ds i'], p'. split; [|split; [|reflexivity]].
    + cbn [rev app]. retext (b ++ ds ++ c :: r). exact R.
    + exists ds, i'. split; [reflexivity|]. split; assumption.
  - subst t. runnil H. exists [], p. split; [apply reachS_refl|]. split; reflexivity.
Qed.
Lemma f_stepT c t a z a' fr p bs T : StepT cfg c t -> am a = MBrk -> RunT a t z a' -> fol_sel fr ->
  exists t' p', reachS SBracket (LA a (z ++ fr) p bs T) SBracket (LA a fr p' bs (rev t' ++ T)) /\ StepT cfg c t' /\ a' = a /\ colon_hd z.
Proof.
  intros [[-> ->] | (v & i & t0 & -> & Ho)] Hm H Hf.
  - runnil H. exists [], p. split; [apply reachS_refl|]. split; [left; split; reflexivity|]. split; [reflexivity | left; reflexivity].
  - destruct (run_colon a v i t0 z a' Hm H) as (b & z' & -> & Hb & HR).
    destruct (B_char_g (afd a) (affd a) (afcs a) b 58 T_COLON (z' ++ fr) p bs T Hb (or_intror (or_intror (conj eq_refl eq_refl)))) as (p1 & i1 & R1).
    destruct (f_optI c t0 a z' a' fr p1 bs (tk T_COLON [58%N] i1 :: T) Ho Hm HR Hf) as (t1 & p2 & R2 & Ho' & ->).
    exists (tk T_COLON [58%N] i1 :: t1), p2. split; [|split; [|split]].
    + replace (rev (tk T_COLON [58%N] i1 :: t1) ++ T) with (rev t1 ++ tk T_COLON [58%N] i1 :: T) by (cbn [rev]; rewrite <- app_assoc; reflexivity).
      eapply reachS_trans; [|exact R2]. retext (b ++ [58%N] ++ z' ++ fr). exact R1.
    + right. exists [58%N], i1, t1. split; [reflexivity | exact Ho'].
    + reflexivity.
    + right. exists b, z'. split; [reflexivity | exact Hb].
Qed.
Lemma f_slice x y c ta tb tc v1 i1 : OptI cfg x ta -> OptI cfg y tb -> StepT cfg c tc -> F_SelT (SSlice x y c) (ta ++ tk T_COLON v1 i1 :: tb ++ tc).
Proof.
  intros Hx Hy Hc a z a' fr p j bs T Ho Hm Hsc H Hf0. pose proof (fol_cb_sel fr Hf0) as Hf. apply RunT_app in H as (za & z2 & a1 & -> & H1 & H2).
  destruct (run_optI cfg x ta a za a1 Hx Hm H1) as [-> _].
  destruct (run_colon a v1 i1 (tb ++ tc) z2 a' Hm H2) as (b2 & z3 & -> & Hb2 & H3). apply RunT_app in H3 as (zb & zc & a2 & -> & H4 & H5).
  destruct (run_optI cfg y tb a zb a2 Hy Hm H4) as [-> _].
  assert (Hch : colon_hd zc) by (destruct (f_stepT c tc a zc a' fr 0 [] [] Hc Hm H5 Hf) as (_ & _ & _ & _ & _ & Hh); exact Hh).
  destruct (f_optI x ta a za a ((b2 ++ [58%N] ++ zb ++ zc) ++ fr) p ((91%N, j) :: bs) T Hx Hm H1) as (t1 & p1 & R1 & Hx' & _).
  { rewrite <- app_assoc. apply fol_blank; [exact Hb2 | reflexivity]. }
  destruct (B_char_g (afd a) (affd a) (afcs a) b2 58 T_COLON ((zb ++ zc) ++ fr) p1 ((91%N, j) :: bs) (rev t1 ++ T) Hb2 (or_intror (or_intror (conj eq_refl eq_refl)))) as (p2 & i2 & R2).
  destruct (f_optI y tb a zb a (zc ++ fr) p2 ((91%N, j) :: bs) (tk T_COLON [58%N] i2 :: rev t1 ++ T) Hy Hm H4 (fol_colon_hd zc fr Hch Hf)) as (t2 & p3 & R3 & Hy' & _).
  destruct (f_stepT c tc a zc a' fr p3 ((91%N, j) :: bs) (rev t2 ++ tk T_COLON [58%N] i2 :: rev t1 ++ T) Hc Hm H5 Hf) as (t3 & p4 & R4 & Hc' & -> & _).
  rewrite (st_of_brk a Hm). exists (t1 ++ tk T_COLON [58%N] i2 :: t2 ++ t3), p4. split; [|constructor; assumption].
  assert (Etoks : rev (t1 ++ tk T_COLON [58%N] i2 :: t2 ++ t3) ++ T = rev t3 ++ rev t2 ++ tk T_COLON [58%N] i2 :: rev t1 ++ T).
  { rewrite rev_snoc_app, rev_app_distr, <- !app_assoc. reflexivity. }
  rewrite Etoks. eapply reachS_trans; [rewrite <- app_assoc; exact R1|]. eapply reachS_trans; [|exact R4]. eapply reachS_trans; [|exact R3].
  unfold LA in *. rewrite <- !app_assoc. rewrite <- !app_assoc in R2. match goal with |- reachS _ (G _ _ _ ?X _ _ _) _ _ => replace X with (b2 ++ [58%N] ++ zb ++ zc ++ fr) by (cbn [app]; rewrite <- ?app_assoc; reflexivity) end. exact R2.
Qed.

(* ---- expressions ---- *)
Lemma LA_fil a rest p bs T : LA (amode_set a MFil) rest p bs T = LA a rest p bs T. Proof. reflexivity. Qed.
Lemma st_fil a : st_of (amode_set a MFil) = Lex.SFilter. Proof. reflexivity. Qed.
Lemma efol_app b c r : blanks b -> ech c -> efol (b ++ c :: r).
Proof. intros Hb Hc. exists b, c, r. split; [reflexivity | split; assumption]. Qed.

(* the first character of what a comparable, a test or "(" is spelled with is not "=" *)
Definition ne61 (z : list N) : Prop := exists c r, z = c :: r /\ c <> 61%N.
Lemma ne61_blank b x : blanks b -> ne61 x -> ne61 (b ++ x).
Proof.
  intros Hb Hx. destruct b as [|c b']; [exact Hx|]. unfold blanks in Hb. cbn [forallb] in Hb. apply andb_true_iff in Hb as [Hc _].
  exists c, (b' ++ x). split; [reflexivity|]. unfold is_blank in Hc. lia.
Qed.
Lemma tt_head w e t a z a' : TT w e t -> fl a -> RunT a t z a' -> ne61 z.
Proof.
  intros HT Hf H. inversion HT; subst.
  - runc H k0 a1 b z' Hs Hb Hn Ht HR. ftok Hs Hf. apply ne61_blank; [exact Hb|]. exists 64%N, (post T_CURRENT ++ z'). split; [reflexivity | discriminate].
  - runc H k0 a1 b z' Hs Hb Hn Ht HR. ftok Hs Hf. apply ne61_blank; [exact Hb|]. exists 36%N, (post T_ROOT ++ z'). split; [reflexivity | discriminate].
  - runc H k0 a1 b z' Hs Hb Hn Ht HR. ftok Hs Hf. apply ne61_blank; [exact Hb|]. cbn [pre app].
    apply pmatch_lang in Ht. unfold RE_FUNCTION_NAME in Ht. apply lang_seq_inv in Ht as (s1 & s2 & -> & Hl1 & _). apply lang_cls_inv in Hl1 as (c & -> & Hc).
    exists c, (s2 ++ post T_FUNCTION ++ z'). split; [reflexivity|]. cbn [xorb in_ranges] in Hc. intros ->. discriminate Hc.
Qed.
Lemma ct_head e t a z a' : CT e t -> fl a -> RunT a t z a' -> ne61 z.
Proof.
  intros HC Hf H. inversion HC; subst; [|eapply tt_head; eassumption].
  runc H k0 a1 b z' Hs Hb Hn Ht HR. apply ne61_blank; [exact Hb|].
  match goal with Hl : lit_tok _ _ |- _ => destruct Hl as [[E _] | [[E _] | [[E _] | [[Hty _] | [(E & _) | (E & _ & x & Hp & _)]]]]] end.
  - rewrite E in *. cbn [tshape] in Ht. rewrite Ht. ftok Hs Hf. eexists; eexists. split; [reflexivity | discriminate].
  - rewrite E in *. cbn [tshape] in Ht. rewrite Ht. ftok Hs Hf. eexists; eexists. split; [reflexivity | discriminate].
  - rewrite E in *. cbn [tshape] in Ht. rewrite Ht. ftok Hs Hf. eexists; eexists. split; [reflexivity | discriminate].
  - destruct Hty as [E | E]; rewrite E in *; ftok Hs Hf; eexists; eexists; (split; [reflexivity | discriminate]).
  - rewrite E in Ht, Hs. cbn [tshape] in Ht. ftok Hs Hf. pose proof (lang_int_form _ (pmatch_lang _ _ Ht)) as Hform.
    destruct (int_form_head _ Hform) as (c & v' & Ecv & Hc0). destruct (num_head_facts c Hc0) as (_ & _ & _ & _ & _ & _ & _ & _ & _ & _ & _ & C4).
    rewrite E, Ecv. cbn [pre app]. exists c, (v' ++ post T_INT ++ z'). split; [reflexivity | exact C4].
  - rewrite E in Ht, Hs. cbn [tshape] in Ht. ftok Hs Hf. pose proof (float_lit_form _ x Ht Hp) as Hform.
    destruct (float_form_head _ Hform) as (c & v' & Ecv & Hc0). destruct (num_head_facts c Hc0) as (_ & _ & _ & _ & _ & _ & _ & _ & _ & _ & _ & C4).
    rewrite E, Ecv. cbn [pre app]. exists c, (v' ++ post T_FLOAT ++ z'). split; [reflexivity | exact C4].
Qed.

(* reading one operator-like token in a filter-like state *)
Lemma rd_op a T v c v' b fr p bs T0 : fl a -> blanks b -> v = c :: v' -> ech c \/ c = 40%N ->
  (forall p1, exists q, lex_step Lex.SFilter (GX (afd a) (affd a) (afcs a) (v ++ fr) [] p1 p1 bs T0) = LNext Lex.SFilter (GX (afd a) (affd a) (afcs a) fr [] q q bs (tk T v p1 :: T0))) ->
  exists p' i, reachS (st_of a) (LA a (b ++ v ++ fr) p bs T0) Lex.SFilter (LA a fr p' bs (tk T v i :: T0)).
Proof.
  intros Hf Hb Ev Hc Hstep. assert (C : is_blank c = false /\ c <> 46%N /\ c <> 91%N) by (destruct Hc as [Hc | ->]; [exact (ech_facts c Hc) | repeat split; try reflexivity; discriminate]).
  destruct C as (C1 & C2 & C3). exact (rd_fil a T v c v' b fr p bs T0 Hf Hb Ev C1 C2 C3 Hstep).
Qed.

Lemma f_et_or x y tx v i ty0 : ET 4 x tx -> F_ET 4 x tx -> F_ET 3 y ty0 -> F_ET 3 (EOr x y) (tx ++ tk T_OR v i :: ty0).
Proof.
  intros HX IHx IHy a z a' fr p bs T Ho Hd Hf Hsc H Hfr. apply RunT_app in H as (z1 & z2 & a1 & -> & H1 & H2). apply sc_app in Hsc as [Hsc1 Hsc2].
 
  destruct (gs_et 4 x tx HX a z1 a1 Ho Hd Hf Hsc1 H1) as (Hf1 & S1 & _).
  runc H2 k0 a2 bo z' Hs Hbo Hn Ht HR. ftok Hs Hf1. do 4 (apply sc_app in Hsc2 as [_ Hsc2]).
  destruct (IHx a z1 a1 (bo ++ [124; 124]%N ++ z' ++ fr) p bs T Ho Hd Hf Hsc1 H1 (efol_app bo 124 _ Hbo ltac:(unfold ech; auto 10))) as (t1 & p1 & R1 & HE1).
  destruct (rd_op a1 T_OR [124; 124]%N 124%N [124%N] bo (z' ++ fr) p1 bs (rev t1 ++ T) Hf1 Hbo eq_refl ltac:(left; unfold ech; auto 10) (fun p1 => sf_or _ _ _ _ p1 bs _)) as (p2 & i2 & R2).
  destruct (IHy (amode_set a1 MFil) z' a' fr p2 bs (tk T_OR [124; 124]%N i2 :: rev t1 ++ T) (okS_fil a a1 Ho S1) ltac:(destruct S1 as (E & _); cbn [amode_set afd]; lia) (fl_mode_fil a1) Hsc2 HR Hfr)
    as (t2 & p3 & R3 & HE2).
  exists (t1 ++ tk T_OR [124; 124]%N i2 :: t2), p3. split; [|constructor; assumption].
  rewrite rev_snoc_app. eapply reachS_trans; [|exact R3]. eapply reachS_trans; [|exact R2]. retext (z1 ++ bo ++ [124; 124]%N ++ z' ++ fr). exact R1.
Qed.
Lemma f_et_34 e t : F_ET 4 e t -> F_ET 3 e t.
Proof. intros IH a z a' fr p bs T Ho Hd Hf Hsc H Hfr. destruct (IH a z a' fr p bs T Ho Hd Hf Hsc H Hfr) as (t' & p' & R & HE). exists t', p'. split; [exact R | apply et_34; exact HE]. Qed.
Lemma f_et_and x y tx v i ty0 : ET 5 x tx -> F_ET 5 x tx -> F_ET 4 y ty0 -> F_ET 4 (EAnd x y) (tx ++ tk T_AND v i :: ty0).
Proof.
  intros HX IHx IHy a z a' fr p bs T Ho Hd Hf Hsc H Hfr. apply RunT_app in H as (z1 & z2 & a1 & -> & H1 & H2). apply sc_app in Hsc as [Hsc1 Hsc2].
 
  destruct (gs_et 5 x tx HX a z1 a1 Ho Hd Hf Hsc1 H1) as (Hf1 & S1 & _).
  runc H2 k0 a2 bo z' Hs Hbo Hn Ht HR. ftok Hs Hf1. do 4 (apply sc_app in Hsc2 as [_ Hsc2]).
  destruct (IHx a z1 a1 (bo ++ [38; 38]%N ++ z' ++ fr) p bs T Ho Hd Hf Hsc1 H1 (efol_app bo 38 _ Hbo ltac:(unfold ech; auto 10))) as (t1 & p1 & R1 & HE1).
  destruct (rd_op a1 T_AND [38; 38]%N 38%N [38%N] bo (z' ++ fr) p1 bs (rev t1 ++ T) Hf1 Hbo eq_refl ltac:(left; unfold ech; auto 10) (fun p1 => sf_and _ _ _ _ p1 bs _)) as (p2 & i2 & R2).
  destruct (IHy (amode_set a1 MFil) z' a' fr p2 bs (tk T_AND [38; 38]%N i2 :: rev t1 ++ T) (okS_fil a a1 Ho S1) ltac:(destruct S1 as (E & _); cbn [amode_set afd]; lia) (fl_mode_fil a1) Hsc2 HR Hfr)
    as (t2 & p3 & R3 & HE2).
  exists (t1 ++ tk T_AND [38; 38]%N i2 :: t2), p3. split; [|constructor; assumption].
  rewrite rev_snoc_app. eapply reachS_trans; [|exact R3]. eapply reachS_trans; [|exact R2]. retext (z1 ++ bo ++ [38; 38]%N ++ z' ++ fr). exact R1.
Qed.
Lemma f_et_45 e t : F_ET 5 e t -> F_ET 4 e t.
Proof. intros IH a z a' fr p bs T Ho Hd Hf Hsc H Hfr. destruct (IH a z a' fr p bs T Ho Hd Hf Hsc H Hfr) as (t' & p' & R & HE). exists t', p'. split; [exact R | apply et_45; exact HE]. Qed.
Lemma f_et_57 e t : F_ET 7 e t -> F_ET 5 e t.
Proof. intros IH a z a' fr p bs T Ho Hd Hf Hsc H Hfr. destruct (IH a z a' fr p bs T Ho Hd Hf Hsc H Hfr) as (t' & p' & R & HE). exists t', p'. split; [exact R | apply et_57; exact HE]. Qed.

Lemma op_head o : exists c v', op_str o = c :: v' /\ ech c.
Proof. destruct o; cbn [op_str]; eexists; eexists; (split; [reflexivity | unfold ech; auto 10]). Qed.

Lemma f_et_cmp o x y ta v i tb : CT x ta -> CT y tb -> F_CT x ta -> F_CT y tb -> F_ET 5 (ECmp o x y) (ta ++ tk (cmp_tok o) v i :: tb).
Proof.
  intros HX HY IHx IHy a z a' fr p bs T Ho Hd Hf Hsc H Hfr. apply RunT_app in H as (z1 & z2 & a1 & -> & H1 & H2). apply sc_app in Hsc as [Hsc1 Hsc2].
 
  destruct (gs_ct x ta HX a z1 a1 Ho Hd Hf Hsc1 H1) as (Hf1 & S1 & _).
  apply RunT_cons_inv in H2 as (k0 & a2 & bo & z' & Hs & Hbo & Hn & Ht & HR & ->). cbn [ty tval tk] in Hs, Ht.
  destruct (cmp_tok_facts o a1 v k0 a2 Hf1 Hs Ht) as (-> & -> & Epre & Epost & Hvn & _). cbn [ty tval tk] in *. rewrite ?Epre, ?Epost in *.
  assert (Ev : v = op_str o) by (destruct o; cbn [cmp_tok tshape op_str] in *; exact Ht). subst v.
  do 4 (apply sc_app in Hsc2 as [_ Hsc2]). destruct (op_head o) as (c & v' & Eop & Hc).
  destruct (IHx a z1 a1 (bo ++ op_str o ++ z' ++ fr) p bs T Ho Hd Hf Hsc1 H1) as (t1 & p1 & R1 & HE1).
  { rewrite Eop. cbn [app]. apply efol_app; assumption. }
  destruct (ct_head y tb (amode_set a1 MFil) z' a' HY (fl_mode_fil a1) HR) as (c2 & r2 & Ez' & Hc2).
  destruct (rd_op a1 (cmp_tok o) (op_str o) c v' bo (z' ++ fr) p1 bs (rev t1 ++ T) Hf1 Hbo Eop (or_introl Hc)) as (p2 & i2 & R2).
  { intros p0. rewrite Ez'. cbn [app]. apply sf_cmp_g. intros _. exact Hc2. }
  destruct (IHy (amode_set a1 MFil) z' a' fr p2 bs (tk (cmp_tok o) (op_str o) i2 :: rev t1 ++ T) (okS_fil a a1 Ho S1) ltac:(destruct S1 as (E & _); cbn [amode_set afd]; lia) (fl_mode_fil a1) Hsc2 HR Hfr)
    as (t2 & p3 & R3 & HE2).
  exists (t1 ++ tk (cmp_tok o) (op_str o) i2 :: t2), p3. split; [|constructor; assumption].
  rewrite rev_snoc_app. eapply reachS_trans; [|exact R3]. eapply reachS_trans; [|exact R2]. retext (z1 ++ bo ++ op_str o ++ z' ++ fr). exact R1.
Qed.

(* parentheses *)
Lemma rd_lparen a b fr p bs T : fl a -> blanks b ->
  exists p' i j, reachS (st_of a) (LA a (b ++ [40%N] ++ fr) p bs T) Lex.SFilter (LA (mkA MFil (afd a) (affd a) (bump (afcs a))) fr p' ((40%N, j) :: bs) (tk T_LPAREN [40%N] i :: T)).
Proof.
  intros Hf Hb. cbn [app]. destruct (to_fil a b 40 fr p bs T Hf Hb eq_refl ltac:(discriminate) ltac:(discriminate)) as (p1 & R1).
  eexists; eexists; eexists. eapply reachS_trans; [exact R1|]. apply reachS_step. unfold LA, G. cbn [afd affd afcs]. apply sf_lparen.
Qed.
Lemma rd_rparen a b fr p j bs T : fl a -> blanks b ->
  exists p' i, reachS (st_of a) (LA a (b ++ [41%N] ++ fr) p ((40%N, j) :: bs) T) Lex.SFilter (LA (mkA MFil (afd a) (affd a) (unbump (afcs a))) fr p' bs (tk T_RPAREN [41%N] i :: T)).
Proof.
  intros Hf Hb. cbn [app]. destruct (to_fil a b 41 fr p ((40%N, j) :: bs) T Hf Hb eq_refl ltac:(discriminate) ltac:(discriminate)) as (p1 & R1).
  eexists; eexists. eapply reachS_trans; [exact R1|]. apply reachS_step. unfold LA, G. cbn [afd affd afcs]. apply sf_rparen.
Qed.

Lemma f_paren_core e t v1 i1 v2 i2 : ET 3 e t -> F_ET 3 e t -> forall a z a' fr p bs T, okS a -> 1 <= afd a -> fl a -> sc z -> RunT a (tk T_LPAREN v1 i1 :: t ++ [tk T_RPAREN v2 i2]) z a' ->
  exists t' p' j1 j2, reachS (st_of a) (LA a (z ++ fr) p bs T) (st_of a') (LA a' fr p' bs (tk T_RPAREN [41%N] j2 :: rev t' ++ tk T_LPAREN [40%N] j1 :: T)) /\ ET 3 e t'.
Proof.
  intros HE IH a z a' fr p bs T Ho Hd Hf Hsc H. runc H k0 a1 b z' Hs Hb Hn Ht HR. ftok Hs Hf. fold (bump (afcs a)) in HR.
  apply RunT_app in HR as (z1 & z2 & a2 & -> & H1 & H2). do 4 (apply sc_app in Hsc as [_ Hsc]). apply sc_app in Hsc as [Hsc1 Hsc2].
 
  destruct (gs_et 3 e t HE _ z1 a2 (okS_bump a Ho) Hd (or_introl eq_refl) Hsc1 H1) as (Hf2 & (S1 & S2 & S3) & _). cbn [afd affd afcs] in S1, S2, S3.
  runc H2 k1 a3 b2 z'' Hs2 Hb2 Hn2 Ht2 HR2. runnil HR2. ftok Hs2 Hf2. rewrite S3. fold (unbump (bump (afcs a))). rewrite (unbump_bump _ (proj1 Ho)).
  destruct (rd_lparen a b ((z1 ++ b2 ++ [41%N]) ++ fr) p bs T Hf Hb) as (p1 & i1' & j & R1).
  destruct (IH _ z1 a2 (b2 ++ [41%N] ++ fr) p1 ((40%N, j) :: bs) (tk T_LPAREN [40%N] i1' :: T) (okS_bump a Ho) Hd (or_introl eq_refl) Hsc1 H1 (efol_app b2 41 fr Hb2 ltac:(unfold ech; auto 10))) as (t' & p2 & R2 & HE').
  destruct (rd_rparen a2 b2 fr p2 j bs (rev t' ++ tk T_LPAREN [40%N] i1' :: T) Hf2 Hb2) as (p3 & i3 & R3).
  exists t', p3, i1', i3. split; [|exact HE'].
  assert (Eu : unbump (afcs a2) = afcs a) by (rewrite S3; apply unbump_bump; exact (proj1 Ho)). rewrite Eu in R3.
  eapply reachS_trans; [|exact R3]. eapply reachS_trans; [|exact R2].
  replace (z1 ++ b2 ++ [41%N] ++ fr) with ((z1 ++ b2 ++ [41%N]) ++ fr) by (rewrite <- !app_assoc; reflexivity).
  retext (b ++ [40%N] ++ (z1 ++ b2 ++ [41%N]) ++ fr). exact R1.
Qed.

Lemma rev_paren (x : token) (t : list token) (y : token) (T : list token) : rev (x :: t ++ [y]) ++ T = y :: rev t ++ x :: T.
Proof. cbn [rev]. rewrite rev_app_distr. cbn [rev app]. rewrite <- !app_assoc. reflexivity. Qed.

Lemma f_paren e t v1 i1 v2 i2 : ET 3 e t -> F_ET 3 e t -> F_ET 7 e (tk T_LPAREN v1 i1 :: t ++ [tk T_RPAREN v2 i2]).
Proof.
  intros HE IH a z a' fr p bs T Ho Hd Hf Hsc H Hfr.
  destruct (f_paren_core e t v1 i1 v2 i2 HE IH a z a' fr p bs T Ho Hd Hf Hsc H) as (t' & p' & j1 & j2 & R & HE').
  exists (tk T_LPAREN [40%N] j1 :: t' ++ [tk T_RPAREN [41%N] j2]), p'. split; [rewrite rev_paren; exact R | constructor; exact HE'].
Qed.
Lemma f_not_paren x t v0 i0 v1 i1 v2 i2 : ET 3 x t -> F_ET 3 x t -> F_ET 7 (ENot x) (tk T_NOT v0 i0 :: tk T_LPAREN v1 i1 :: t ++ [tk T_RPAREN v2 i2]).
Proof.
  intros HE IH a z a' fr p bs T Ho Hd Hf Hsc H Hfr. runc H k0 a1 b z' Hs Hb Hn Ht HR. ftok Hs Hf. do 4 (apply sc_app in Hsc as [_ Hsc]).
  assert (Hne : ne61 (z' ++ fr)).
  { pose proof HR as HR'. runc HR' k1 a2 b1 z'' Hs1 Hb1 Hn1 Ht1 HR1. rewrite <- app_assoc. apply ne61_blank; [exact Hb1|]. ftok Hs1 (fl_mode_fil a). eexists; eexists. split; [reflexivity | discriminate]. }
  destruct Hne as (c2 & r2 & Ez & Hc2).
  destruct (rd_op a T_NOT [33%N] 33%N [] b (z' ++ fr) p bs T Hf Hb eq_refl ltac:(left; unfold ech; auto 10)) as (p1 & i1' & R1).
  { intros p0. rewrite Ez. cbn [app]. eexists. apply sf_not. exact Hc2. }
  destruct (f_paren_core x t v1 i1 v2 i2 HE IH (amode_set a MFil) z' a' fr p1 bs (tk T_NOT [33%N] i1' :: T) (okS_same _ _ (same_stk_mode a MFil) Ho) Hd (fl_mode_fil a) Hsc HR)
    as (t' & p' & j1 & j2 & R & HE').
  exists (tk T_NOT [33%N] i1' :: tk T_LPAREN [40%N] j1 :: t' ++ [tk T_RPAREN [41%N] j2]), p'. split; [|constructor; exact HE'].
  replace (rev (tk T_NOT [33%N] i1' :: tk T_LPAREN [40%N] j1 :: t' ++ [tk T_RPAREN [41%N] j2]) ++ T) with (tk T_RPAREN [41%N] j2 :: rev t' ++ tk T_LPAREN [40%N] j1 :: tk T_NOT [33%N] i1' :: T)
    by (cbn [rev]; rewrite rev_app_distr; cbn [rev app]; rewrite <- !app_assoc; reflexivity).
  eapply reachS_trans; [|exact R]. retext (b ++ [33%N] ++ z' ++ fr). exact R1.
Qed.
Lemma f_not_test x t v0 i0 : TT TLogical x t -> F_TT TLogical x t -> F_ET 7 (ENot x) (tk T_NOT v0 i0 :: t).
Proof.
  intros HT IH a z a' fr p bs T Ho Hd Hf Hsc H Hfr. runc H k0 a1 b z' Hs Hb Hn Ht HR. ftok Hs Hf. do 4 (apply sc_app in Hsc as [_ Hsc]).
  destruct (tt_head TLogical x t (amode_set a MFil) z' a' HT (fl_mode_fil a) HR) as (c2 & r2 & Ez & Hc2).
  destruct (rd_op a T_NOT [33%N] 33%N [] b (z' ++ fr) p bs T Hf Hb eq_refl ltac:(left; unfold ech; auto 10)) as (p1 & i1' & R1).
  { intros p0. rewrite Ez. cbn [app]. eexists. apply sf_not. exact Hc2. }
  destruct (IH (amode_set a MFil) z' a' fr p1 bs (tk T_NOT [33%N] i1' :: T) (okS_same _ _ (same_stk_mode a MFil) Ho) Hd (fl_mode_fil a) Hsc HR Hfr) as (t' & p' & R & HT').
  exists (tk T_NOT [33%N] i1' :: t'), p'. split; [|constructor; exact HT'].
  replace (rev (tk T_NOT [33%N] i1' :: t') ++ T) with (rev t' ++ tk T_NOT [33%N] i1' :: T) by (cbn [rev]; rewrite <- app_assoc; reflexivity).
  eapply reachS_trans; [|exact R]. retext (b ++ [33%N] ++ z' ++ fr). exact R1.
Qed.
Lemma f_et_test x t : F_TT TLogical x t -> F_ET 7 x t.
Proof. intros IH a z a' fr p bs T Ho Hd Hf Hsc H Hfr. destruct (IH a z a' fr p bs T Ho Hd Hf Hsc H Hfr) as (t' & p' & R & HT). exists t', p'. split; [exact R | apply et_test; exact HT]. Qed.
Lemma f_ct_test x t : F_TT TValue x t -> F_CT x t.
Proof. intros IH a z a' fr p bs T Ho Hd Hf Hsc H Hfr. destruct (IH a z a' fr p bs T Ho Hd Hf Hsc H Hfr) as (t' & p' & R & HT). exists t', p'. split; [exact R | apply ct_test; exact HT]. Qed.

(* @ segments, $ segments *)
Lemma f_tt_query (rel : bool) want q t v i : QT q t -> F_QT q t -> (want = TValue -> singular q = true) ->
  F_TT want (if rel then ERel q else EAbs q) (tk (if rel then T_CURRENT else T_ROOT) v i :: t).
Proof.
  intros HQ0 IH Hsing a z a' fr p bs T Ho Hd Hf Hsc H Hfr. runc H k0 a1 b z' Hs Hb Hn Ht HR.
  assert (Hst : k0 = GBl /\ a1 = amode_set a MSeg /\ v = [if rel then 64%N else 36%N]).
  { destruct rel; cbn [tshape] in Ht; ftok Hs Hf; repeat split; reflexivity. }
  destruct Hst as (-> & -> & ->). do 4 (apply sc_app in Hsc as [_ Hsc]).
  assert (Ho1 : okS (amode_set a MSeg)) by (apply (okS_same a); [apply same_stk_mode | exact Ho]).
  destruct (gs_qt q t HQ0 (amode_set a MSeg) z' a' Ho1 eq_refl Hsc HR) as [-> _].
  assert (Hrd : exists p1 i1, reachS (st_of a) (LA a (b ++ [if rel then 64%N else 36%N] ++ z' ++ fr) p bs T) SSegment (LA a (z' ++ fr) p1 bs (tk (if rel then T_CURRENT else T_ROOT) [if rel then 64%N else 36%N] i1 :: T))).
  { cbn [app]. destruct (to_fil a b (if rel then 64%N else 36%N) (z' ++ fr) p bs T Hf Hb ltac:(destruct rel; reflexivity) ltac:(destruct rel; discriminate) ltac:(destruct rel; discriminate)) as (p1 & R1).
    eexists; eexists. eapply reachS_trans; [exact R1|]. apply reachS_step. unfold LA, G. destruct rel; [apply sf_current | apply sf_root]. }
  destruct Hrd as (p1 & i1 & R1).
  destruct (IH (amode_set a MSeg) z' (amode_set a MSeg) fr p1 bs (tk (if rel then T_CURRENT else T_ROOT) [if rel then 64%N else 36%N] i1 :: T) Ho1 eq_refl Hsc HR (efol_nn fr Hfr)) as (t' & p' & R & HQ & _).
  exists (tk (if rel then T_CURRENT else T_ROOT) [if rel then 64%N else 36%N] i1 :: t'), p'. split.
  - replace (rev (tk (if rel then T_CURRENT else T_ROOT) [if rel then 64%N else 36%N] i1 :: t') ++ T) with (rev t' ++ tk (if rel then T_CURRENT else T_ROOT) [if rel then 64%N else 36%N] i1 :: T)
      by (cbn [rev]; rewrite <- app_assoc; reflexivity).
    eapply reachS_trans; [|exact R]. destruct rel; [retext (b ++ [64%N] ++ z' ++ fr) | retext (b ++ [36%N] ++ z' ++ fr)]; exact R1.
  - destruct rel; constructor; assumption.
Qed.

(* function calls *)
Lemma lang_fname f : lang RE_FUNCTION_NAME f -> exists c cs, f = c :: cs /\ in_ranges c cls_fn_first = true /\ forallb (fun y => in_ranges y cls_fn_char) cs = true.
Proof.
  intros H. unfold RE_FUNCTION_NAME in H. apply lang_seq_inv in H as (s1 & s2 & -> & H1 & H2). apply lang_cls_inv in H1 as (c & -> & Hc). apply lang_star_cls in H2.
  exists c, s2. split; [reflexivity|]. split; [cbn [xorb] in Hc; unfold cls_fn_first; destruct (in_ranges c [(97, 122)]%N); [reflexivity | discriminate Hc] | exact H2].
Qed.
Lemma rd_fname a b f fr p bs T : fl a -> blanks b -> lang RE_FUNCTION_NAME f ->
  exists p' i j, reachS (st_of a) (LA a (b ++ f ++ [40%N] ++ fr) p bs T) Lex.SFilter (LA (mkA MFil (afd a) (affd a) (1 :: afcs a)) fr p' ((40%N, j) :: bs) (tk T_FUNCTION f i :: T)).
Proof.
  intros Hf Hb Hl. destruct (lang_fname f Hl) as (c & cs & -> & Hc & Hcs).
  assert (C : is_blank c = false /\ c <> 46%N /\ c <> 91%N) by (unfold cls_fn_first in Hc; cbn [in_ranges] in Hc; unfold is_blank; repeat split; lia).
  destruct C as (C1 & C2 & C3). cbn [app]. destruct (to_fil a b c (cs ++ 40%N :: fr) p bs T Hf Hb C1 C2 C3) as (p1 & R1).
  destruct (sf_fname (afd a) (affd a) (afcs a) c cs fr p1 bs T Hc Hcs) as (q & q' & E).
  exists q, p1, q'. eapply reachS_trans; [exact R1|]. apply reachS_step. exact E.
Qed.
Lemma rd_comma_in a d r0 bc fr p bs T : fl a -> affd a = d :: r0 -> (d <? zlen (afcs a)) = true -> blanks bc ->
  exists p' i, reachS (st_of a) (LA a (bc ++ [44%N] ++ fr) p bs T) Lex.SFilter (LA a fr p' bs (tk T_COMMA [44%N] i :: T)).
Proof.
  intros Hf Effd Hlt Hb. cbn [app]. destruct (to_fil a bc 44 fr p bs T Hf Hb eq_refl ltac:(discriminate) ltac:(discriminate)) as (p1 & R1).
  eexists; eexists. eapply reachS_trans; [exact R1|]. apply reachS_step. unfold LA, G. rewrite Effd. apply sf_comma_in. exact Hlt.
Qed.

Lemma f_tt_call want f d args t i v2 i2 : find_assoc f (reg cfg) = Some d -> ret_ok want (f_ret d) = true -> ArgsT (f_args d) args t -> F_ArgsT (f_args d) args t ->
  F_TT want (ECall f args) (tk T_FUNCTION f i :: t ++ [tk T_RPAREN v2 i2]).
Proof.
  intros Ef Hret HA IH a z a' fr p bs T Ho Hd Hf Hsc H Hfr. runc H k0 a1 b z' Hs Hb Hn Ht HR. ftok Hs Hf.
  apply RunT_app in HR as (z1 & z2 & a2 & -> & H1 & H2). do 4 (apply sc_app in Hsc as [_ Hsc]). apply sc_app in Hsc as [Hsc1 Hsc2].
 
  destruct Ho as (O1 & O2 & O3).
  assert (Ho1 : okS (mkA MFil (afd a) (affd a) (1 :: afcs a))).
  { split; [constructor; [lia | exact O1]|]. cbn [affd afcs afd]. split; [intros d0 r E; specialize (O2 d0 r E); unfold zlen in *; cbn [length]; lia | exact O3]. }
  assert (Hin : incall (mkA MFil (afd a) (affd a) (1 :: afcs a))) by (intros d0 r E; cbn [affd afcs] in *; specialize (O2 d0 r E); unfold zlen in *; cbn [length]; lia).
  destruct (gs_args _ args t HA _ z1 a2 Ho1 Hd (or_introl eq_refl) Hin Hsc1 H1) as (Hf2 & (S1 & S2 & S3) & _). cbn [afd affd afcs] in S1, S2, S3.
  runc H2 k1 a3 b2 z'' Hs2 Hb2 Hn2 Ht2 HR2. runnil HR2. ftok Hs2 Hf2. rewrite S3. cbn [Z.eqb Pos.eqb].
  destruct (rd_fname a b f ((z1 ++ b2 ++ [41%N]) ++ fr) p bs T Hf Hb (pmatch_lang _ _ Ht)) as (p1 & i1' & j & R1).
  destruct (IH _ z1 a2 (b2 ++ [41%N] ++ fr) p1 ((40%N, j) :: bs) (tk T_FUNCTION f i1' :: T) Ho1 Hd (or_introl eq_refl) Hin Hsc1 H1 (efol_app b2 41 fr Hb2 ltac:(unfold ech; auto 10))) as (t' & p2 & R2 & HA').
  destruct (rd_rparen a2 b2 fr p2 j bs (rev t' ++ tk T_FUNCTION f i1' :: T) Hf2 Hb2) as (p3 & i3 & R3).
  assert (Eu : unbump (afcs a2) = afcs a) by (rewrite S3; reflexivity). rewrite Eu in R3.
  exists (tk T_FUNCTION f i1' :: t' ++ [tk T_RPAREN [41%N] i3]), p3. split; [|econstructor; eassumption].
  rewrite rev_paren. eapply reachS_trans; [|exact R3]. eapply reachS_trans; [|exact R2].
  replace (z1 ++ b2 ++ [41%N] ++ fr) with ((z1 ++ b2 ++ [41%N]) ++ fr) by (rewrite <- !app_assoc; reflexivity).
  retext (b ++ f ++ [40%N] ++ (z1 ++ b2 ++ [41%N]) ++ fr). exact R1.
Qed.

Lemma f_as_nil : F_ArgsT [] [] [].
Proof. intros a z a' fr p bs T Ho Hd Hf Hin Hsc H Hfr. runnil H. exists [], p. split; [apply reachS_refl | constructor]. Qed.
Lemma f_as_one w e ta : F_ArgT w e ta -> F_ArgsT [w] [e] ta.
Proof. intros IH a z a' fr p bs T Ho Hd Hf Hin Hsc H Hfr. destruct (IH a z a' fr p bs T Ho Hd Hf Hsc H Hfr) as (t' & p' & R & HA). exists t', p'. split; [exact R | constructor; exact HA]. Qed.
Lemma f_as_cons w e ta v i tys args targs : ArgT w e ta -> F_ArgT w e ta -> F_ArgsT tys args targs -> args <> [] -> F_ArgsT (w :: tys) (e :: args) (ta ++ tk T_COMMA v i :: targs).
Proof.
  intros HA0 IHa IHr Hne a z a' fr p bs T Ho Hd Hf Hin Hsc H Hfr. apply RunT_app in H as (z1 & z2 & a1 & -> & H1 & H2). apply sc_app in Hsc as [Hsc1 Hsc2].
 
  destruct (gs_arg w e ta HA0 a z1 a1 Ho Hd Hf Hsc1 H1) as (Hf1 & S1 & _).
  runc H2 k0 a2 bc z' Hs Hbc Hn Ht HR. apply (fl_step _ _ _ _ Hf1) in Hs; [|discriminate|discriminate]. cbn [fil_step] in Hs.
  destruct S1 as (E1 & E2 & E3). destruct (affd a1) as [|d0 r0] eqn:Effd; [discriminate Hs|].
  assert (Hlt : d0 <? zlen (afcs a1) = true) by (rewrite E3; pose proof (Hin d0 r0 (eq_sym E2)); lia).
  rewrite Hlt in Hs. inversion Hs; subst k0 a2. clear Hs. subst v. do 4 (apply sc_app in Hsc2 as [_ Hsc2]).
  assert (S1' : same_stk a (amode_set a1 MFil)) by (repeat split; cbn [amode_set afd affd afcs]; congruence).
  destruct (IHa a z1 a1 (bc ++ [44%N] ++ z' ++ fr) p bs T Ho Hd Hf Hsc1 H1 (efol_app bc 44 _ Hbc ltac:(unfold ech; auto 10))) as (t1 & p1 & R1 & HA1).
  destruct (rd_comma_in a1 d0 r0 bc (z' ++ fr) p1 bs (rev t1 ++ T) Hf1 Effd Hlt Hbc) as (p2 & i2 & R2).
  destruct (IHr (amode_set a1 MFil) z' a' fr p2 bs (tk T_COMMA [44%N] i2 :: rev t1 ++ T) (okS_same _ _ S1' Ho) ltac:(cbn [amode_set afd]; lia) (fl_mode_fil a1)
              ltac:(intros d1 r1 E; cbn [amode_set affd afcs] in *; rewrite E3; apply (Hin d1 r1); congruence) Hsc2 HR Hfr) as (t2 & p3 & R3 & HA2).
  exists (t1 ++ tk T_COMMA [44%N] i2 :: t2), p3. split; [|constructor; assumption].
  rewrite rev_snoc_app. eapply reachS_trans; [|exact R3]. eapply reachS_trans; [|exact R2]. retext (z1 ++ bc ++ [44%N] ++ z' ++ fr). exact R1.
Qed.
Lemma f_ar_value e t : F_CT e t -> F_ArgT TValue e t.
Proof. intros IH a z a' fr p bs T Ho Hd Hf Hsc H Hfr. destruct (IH a z a' fr p bs T Ho Hd Hf Hsc H Hfr) as (t' & p' & R & HC). exists t', p'. split; [exact R | constructor; exact HC]. Qed.
Lemma f_ar_nodes e t : F_TT TNodes e t -> F_ArgT TNodes e t.
Proof. intros IH a z a' fr p bs T Ho Hd Hf Hsc H Hfr. destruct (IH a z a' fr p bs T Ho Hd Hf Hsc H Hfr) as (t' & p' & R & HC). exists t', p'. split; [exact R | constructor; exact HC]. Qed.
Lemma f_ar_logical e t : F_ET 3 e t -> F_ArgT TLogical e t.
Proof. intros IH a z a' fr p bs T Ho Hd Hf Hsc H Hfr. destruct (IH a z a' fr p bs T Ho Hd Hf Hsc H Hfr) as (t' & p' & R & HC). exists t', p'. split; [exact R | constructor; exact HC]. Qed.

Theorem lex_all :
  (forall q t, QT q t -> F_QT q t) /\ (forall g t, SegT g t -> F_SegT g t) /\ (forall ss t, SelsT ss t -> F_SelsT ss t) /\ (forall s t, SelT s t -> F_SelT s t) /\
  (forall k e t, ET k e t -> F_ET k e t) /\ (forall e t, CT e t -> F_CT e t) /\ (forall w e t, TT w e t -> F_TT w e t) /\
  (forall tys args t, ArgsT tys args t -> F_ArgsT tys args t) /\ (forall w a t, ArgT w a t -> F_ArgT w a t).
Proof.
  apply grammar_mutind.
  - exact f_qt_nil.
  - intros g tg q tq HG Hg _ Hq. apply f_qt_cons; assumption.
  - exact f_sg_prop.
  - exact f_sg_wild.
  - intros ss t v1 i1 v2 i2 HS H. apply f_sg_br; assumption.
  - exact f_sg_dprop.
  - exact f_sg_dwild.
  - intros ss t v0 i0 v1 i1 v2 i2 HS H. apply f_sg_dbr; assumption.
  - intros s t _ H. apply f_ss_one; exact H.
  - intros s t v i rest trest HS H _ Hr. apply f_ss_cons; assumption.
  - exact f_name.
  - exact f_index.
  - exact f_slice.
  - exact f_wild.
  - intros e t v i _ H. apply f_filter; exact H.
  - intros x y tx v i ty0 HX Hx _ Hy. apply f_et_or; assumption.
  - intros e t _ H. apply f_et_34; exact H.
  - intros x y tx v i ty0 HX Hx _ Hy. apply f_et_and; assumption.
  - intros e t _ H. apply f_et_45; exact H.
  - intros o a b ta v i tb HA Ha HB Hb. apply f_et_cmp; assumption.
  - intros e t _ H. apply f_et_57; exact H.
  - intros e t v1 i1 v2 i2 HE H. apply f_paren; assumption.
  - intros x t v0 i0 v1 i1 v2 i2 HE H. apply f_not_paren; assumption.
  - intros x t v0 i0 HT H. apply f_not_test; assumption.
  - intros x t _ H. apply f_et_test; exact H.
  - exact f_ct_lit.
  - intros x t _ H. apply f_ct_test; exact H.
  - intros want q t v i HQ Hq Hs. apply (f_tt_query true want q t v i HQ Hq Hs).
  - intros want q t v i HQ Hq Hs. apply (f_tt_query false want q t v i HQ Hq Hs).
  - intros want f d args t i v2 i2 Ef Hr HA H. eapply f_tt_call; eassumption.
  - exact f_as_nil.
  - intros t a ta _ H. apply f_as_one; exact H.
  - intros t a ta v i tys args targs HA Ha _ Hr Hne. apply f_as_cons; assumption.
  - intros a t _ H. apply f_ar_value; exact H.
  - intros a t _ H. apply f_ar_nodes; exact H.
  - intros a t _ H. apply f_ar_logical; exact H.
Qed.
End FULL.

(* EVERY SPELLING OF EVERY QUERY COMPILES, TO THAT QUERY (number literals: sign, digits and an optional fraction; no exponent part). *)
Theorem spelled_compiles cfg q t z a' : QT cfg q t -> sc z -> RunT a0 t z a' -> m_compile cfg (36%N :: z) = Ok q.
Proof.
  intros HQ Hsc HR.
  destruct (proj1 (lex_all cfg) q t HQ a0 z a' [] 1 [] [tk T_ROOT [36%N] 0] okS_a0 eq_refl Hsc HR I) as (t' & p' & R & HQ' & _). rewrite app_nil_r in R.
  assert (R0 : reachS SRoot (lexer_init (36%N :: z)) SSegment (G 0 [] [] [] p' [] (rev t' ++ [tk T_ROOT [36%N] 0]))).
  { eapply reachS_trans; [apply reachS_step; apply (Requery.step_root 0 [] [] z)|]. exact R. }
  destruct (reachS_stop _ _ _ _ _ R0 (Requery.step_seg_eof 0 [] [] [] p' _)) as [n Hn].
  assert (Etok : m_tokenize (36%N :: z) = Ok (tk T_ROOT [36%N] 0 :: t' ++ [tk T_EOF [] p'])).
  { unfold m_tokenize. destruct (lex_run_of_steps n _ _ _ Hn (lex_fuel (36%N :: z))) as [E | E]; [|exfalso; exact (lex_run_init_terminates _ E)].
    rewrite E. cbn [bind l_toks l_bs LX]. change (ttype_eqb (ty (tk T_EOF [] p')) T_ERROR) with false. cbv iota. cbn [rev]. rewrite rev_app_distr, rev_involutive. reflexivity. }
  unfold m_compile. rewrite Etok. cbn [bind]. destruct (parse_complete cfg q t' [36%N] 0 [] p' HQ') as [s Hs]. rewrite Hs. reflexivity.
Qed.
Print Assumptions spelled_compiles.

(* so compile() accepts exactly the spellings of queries, and returns the query spelled *)
Theorem compile_iff_spelled cfg q z : sc z ->
  ((exists t a', QT cfg q t /\ RunT a0 t z a') <-> m_compile cfg (36%N :: z) = Ok q).
Proof.
  intros Hsc. split.
  - intros (t & a' & HQ & HR). exact (spelled_compiles cfg q t z a' HQ Hsc HR).
  - intros Hc. destruct (compiles_spelled cfg _ q Hc) as (t & z' & a' & E & HQ & HR). inversion E; subst z'. exists t, a'. split; assumption.
Qed.

(* compiles_spelled, keeping the fact that the tokens are the lexer's *)
Theorem compiles_spelled_tok cfg text q : m_compile cfg text = Ok q ->
  exists root t e z a', m_tokenize text = Ok (root :: t ++ [e]) /\ text = 36%N :: z /\ QT cfg q t /\ RunT a0 t z a'.
Proof.
  intros Hc. destruct (compile_sound_tokens cfg text q Hc) as (root & t & e & Htok & Hroot & Hwf & HQ).
  destruct (tokenize_spelled text _ Htok) as (r & ts & y & a & E & _ & -> & HRun). inversion E; subst r ts. clear E.
  destruct (Run_RunT _ _ _ _ _ HRun) as (z & HT & Ez). rewrite lastT_snoc, (wf_last t e Hwf) in Ez. cbn [post app] in Ez. rewrite app_nil_r in Ez. subst z.
  apply RunT_app in HT as (z1 & z2 & a1 & -> & H1 & H2).
  apply RunT_cons_inv in H2 as (k0 & a2 & b & z' & Hs & Hb & Hn & Ht & HR & ->). rewrite (wf_last t e Hwf) in Hs, Ht. cbn [tshape] in Ht.
  assert (Hk : k0 = GNone) by (unfold astep in Hs; destruct (am a1); cbn in Hs; try discriminate Hs; inversion Hs; reflexivity).
  subst k0. apply RunT_nil_inv in HR as [-> _].
  assert (Ez2 : b ++ pre GNone (ty e) ++ tval e ++ post (ty e) ++ [] = []) by (rewrite (Hn eq_refl), Ht, (wf_last t e Hwf); reflexivity).
  rewrite Ez2, app_nil_r in *. exists root, t, e, z1, a1. split; [exact Htok|]. split; [reflexivity|]. split; assumption.
Qed.
