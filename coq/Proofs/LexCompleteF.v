(* C03, the lexer on every spelling of a query WITH filters (numbers without exponent part).  Forward lemmas for the filter state under
   general FOLLOW conditions (generalised from Proofs/ReparseF.v, where what follows a token is a blank, a comma or a closing bracket),
   then the induction over the expression productions of the token grammar, threading the lexer's three stacks. *)
From JP Require Import Base.Prelude Base.Json Model.Regex Model.Tokens Model.Lex Model.Ast Model.Parse Model.Api Spec.Types Spec.StringLit
  Proofs.StringProofs Proofs.LexString Proofs.LexNoCrash Proofs.LexInv Proofs.Requery Proofs.Reparse Proofs.ReparseF Proofs.ParseComplete Proofs.ParseSound
  Proofs.LexShape Proofs.LexSpell Proofs.AbnfDerive Proofs.TextSound Proofs.EvalProofs Proofs.LexComplete.
From Coq Require Import ZifyBool ZifyN.

(* what may follow a number: not a digit, not an exponent mark, not a dot (nor a minus sign or a colon) *)
Definition numfol (c : N) : Prop :=
  isd c = false /\ in_ranges c [(101, 101); (69, 69)]%N = false /\ in_ranges c [(46, 46)]%N = false
  /\ in_ranges c cls_digit = false /\ in_ranges c [(45, 45)]%N = false /\ in_ranges c [(58, 58)]%N = false.

Lemma int_match_g sign body c r : (sign = [] \/ sign = [45%N]) -> body <> [] -> forallb isd body = true -> numfol c ->
  re_match RE_INT ((sign ++ body) ++ c :: r) = Some (zlen (sign ++ body)).
Proof.
  intros Hs Hne Hd Hc. destruct Hc as (_ & HcE & _ & HcD & _).
  destruct body as [|d ds']; [congruence|]. cbn [forallb] in Hd. apply andb_true_iff in Hd as [Hd1 Hd2].
  destruct (digit_facts d Hd1) as (Ed & _ & _ & E45 & _).
  assert (Hds : forallb (fun x => in_ranges x cls_digit) ds' = true).
  { rewrite forallb_forall in *. intros x Hx. apply (digit_facts x (Hd2 x Hx)). }
  unfold re_match. set (s := (sign ++ d :: ds') ++ c :: r).
  replace (8 * length s + 64)%nat with (S (S (S (S (S (S (S (S (8 * length s + 56)))))))))%nat by lia.
  unfold RE_INT, re_minus_opt, re_digits, re_eE, ROpt, RPlus, RChar. subst s.
  assert (Hk : forall F n, (4 <= F)%nat -> rm F (RAlt (RSeq (RClass false [(101, 101); (69, 69)]%N)
                 (RSeq (RAlt (RClass false [(43, 43)]%N) REps) (RSeq (RClass false cls_digit) (RStar (RClass false cls_digit))))) REps) (c :: r) n (fun _ n0 => Some n0) = Some n).
  { intros F n HF. destruct F as [|[|[|F]]]; try lia. rewrite rm_alt_S, rm_seq_S, rm_class_S, HcE. cbn [xorb]. rewrite rm_eps_S. reflexivity. }
  destruct Hs as [-> | ->]; cbn [app].
  - rewrite rm_seq_S, rm_alt_S, rm_class_S, E45. cbn [xorb]. rewrite rm_eps_S, rm_seq_S, rm_seq_S, rm_class_S, Ed. cbn [xorb].
    rewrite (star_class cls_digit ds' _ (0 + 1) (c :: r) _ (zlen (d :: ds'))); [reflexivity | exact Hds | exact HcD | cbn [length app]; rewrite app_length; cbn [length]; lia |].
    rewrite Hk by (cbn [length app]; lia). f_equal. unfold zlen. cbn [length]. lia.
  - rewrite rm_seq_S, rm_alt_S, rm_class_S. change (in_ranges 45 [(45, 45)]%N) with true. cbn [xorb]. rewrite rm_seq_S, rm_seq_S, rm_class_S, Ed. cbn [xorb].
    rewrite (star_class cls_digit ds' _ (0 + 1 + 1) (c :: r) _ (zlen (45%N :: d :: ds'))); [reflexivity | exact Hds | exact HcD | cbn [length app]; rewrite app_length; cbn [length]; lia |].
    rewrite Hk by (cbn [length app]; lia). f_equal. unfold zlen. cbn [length]. lia.
Qed.

Lemma float_nomatch_g sign body c r : (sign = [] \/ sign = [45%N]) -> body <> [] -> forallb isd body = true -> numfol c ->
  re_match RE_FLOAT ((sign ++ body) ++ c :: r) = None.
Proof.
  intros Hs Hne Hd Hc. destruct Hc as (_ & HcE & Hc46 & HcD & Hc45 & Hc58).
  assert (Hhd : forall x, (isd x = true \/ x = c) -> in_ranges x [(101, 101); (69, 69)]%N = false /\ in_ranges x [(46, 46)]%N = false).
  { intros x [Hx | ->]; [destruct (digit_facts x Hx) as (_ & A & B & _); split; assumption | split; assumption]. }
  (* after the digits a '.' (first alternative) or an exponent mark (second) is required *)
  assert (K1 : forall F (K : list N -> Z -> option Z) R x tl n', (isd x = true \/ x = c) -> rm F (RSeq (RClass false [(46, 46)]%N) R) (x :: tl) n' K = None).
  { intros F K R x tl n' Hx. destruct F as [|[|F]]; try reflexivity. rewrite rm_seq_S, rm_class_S. rewrite (proj2 (Hhd x Hx)). reflexivity. }
  assert (K2 : forall F (K : list N -> Z -> option Z) R x tl n', (isd x = true \/ x = c) -> rm F (RSeq (RClass false [(101, 101); (69, 69)]%N) R) (x :: tl) n' K = None).
  { intros F K R x tl n' Hx. destruct F as [|[|F]]; try reflexivity. rewrite rm_seq_S, rm_class_S. rewrite (proj1 (Hhd x Hx)). reflexivity. }
  destruct body as [|d ds']; [congruence|]. pose proof Hd as Hd0. cbn [forallb] in Hd. apply andb_true_iff in Hd as [Hd1 _].
  destruct (digit_facts d Hd1) as (Ed & _ & _ & E45 & E58).
  unfold re_match. set (F := (8 * length ((sign ++ d :: ds') ++ c :: r) + 64)%nat). clearbody F.
  unfold RE_FLOAT, re_minus_opt, re_digits, re_eE, ROpt, RPlus, RChar.
  destruct F as [|F]; [reflexivity|]. rewrite rm_alt_S.
  (* the minus sign, if any: both ways of reading it fail *)
  assert (A : forall F R, (forall F' x tl n' K, (isd x = true \/ x = c) -> rm F' R (x :: tl) n' K = None) ->
              forall n K, rm F (RSeq (RAlt (RClass false [(45, 45)]%N) REps) (RSeq (RSeq (RClass false cls_digit) (RStar (RClass false cls_digit))) R)) ((sign ++ d :: ds') ++ c :: r) n K = None).
  { intros F0 R HR n K. destruct F0 as [|F0]; [reflexivity|]. rewrite rm_seq_S. destruct F0 as [|F0]; [reflexivity|]. rewrite rm_alt_S.
    assert (Hdig : forall F1 (l : list N) n1, forallb isd l = true -> rm F1 (RSeq (RSeq (RClass false cls_digit) (RStar (RClass false cls_digit))) R) (l ++ c :: r) n1 K = None).
    { intros F1 l n1 Hl. destruct F1 as [|F1]; [reflexivity|]. rewrite rm_seq_S. apply digits_then_fail; [exact Hl | exact HcD|]. intros x tl n' Hx. apply HR. exact Hx. }
    destruct Hs as [-> | ->]; cbn [app].
    - destruct F0 as [|F0]; [reflexivity|]. rewrite rm_class_S, E45. cbn [xorb]. destruct F0 as [|F0]; [reflexivity|]. rewrite rm_eps_S.
      apply (Hdig _ (d :: ds') n Hd0).
    - destruct F0 as [|F0]; [reflexivity|]. rewrite rm_class_S. change (in_ranges 45 [(45, 45)]%N) with true. cbn [xorb].
      rewrite (Hdig _ (d :: ds') (n + 1) Hd0). destruct F0 as [|F0]; [reflexivity|]. rewrite rm_eps_S.
      destruct F0 as [|F0]; [reflexivity|]. rewrite rm_seq_S. destruct F0 as [|F0]; [reflexivity|]. rewrite rm_seq_S. destruct F0 as [|F0]; [reflexivity|]. rewrite rm_class_S. reflexivity. }
  assert (E1 : rm F (RSeq (RAlt (RClass false [(58, 58)]%N) REps)
                 (RSeq (RAlt (RClass false [(45, 45)]%N) REps) (RSeq (RSeq (RClass false cls_digit) (RStar (RClass false cls_digit)))
                   (RSeq (RClass false [(46, 46)]%N) (RSeq (RSeq (RClass false cls_digit) (RStar (RClass false cls_digit)))
                     (RAlt (RSeq (RClass false [(101, 101); (69, 69)]%N) (RSeq (RAlt (RClass false [(43, 43); (45, 45)]%N) REps) (RSeq (RClass false cls_digit) (RStar (RClass false cls_digit))))) REps))))))
              ((sign ++ d :: ds') ++ c :: r) 0 (fun _ n => Some n) = None).
  { destruct F as [|F]; [reflexivity|]. rewrite rm_seq_S. destruct F as [|F]; [reflexivity|]. rewrite rm_alt_S.
    assert (E58' : forall F1 K1', rm F1 (RClass false [(58, 58)]%N) ((sign ++ d :: ds') ++ c :: r) 0 K1' = None).
    { intros F1 K1'. destruct F1 as [|F1]; [reflexivity|]. rewrite rm_class_S. destruct Hs as [-> | ->]; cbn [app]; [rewrite E58 | ]; reflexivity. }
    rewrite E58'. destruct F as [|F]; [reflexivity|]. rewrite rm_eps_S. apply A. intros F' x tl n' K Hx. apply K1. exact Hx. }
  rewrite E1. apply A. intros F' x tl n' K Hx. apply K2. exact Hx.
Qed.

(* sign digits "." digits followed by such a character: the FLOAT pattern takes exactly that *)
Definition re_exp_opt : re := RAlt (RSeq (RClass false [(101, 101); (69, 69)]%N) (RSeq (RAlt (RClass false [(43, 43); (45, 45)]%N) REps) (RSeq (RClass false cls_digit) (RStar (RClass false cls_digit))))) REps.
Definition re_dd : re := RSeq (RClass false cls_digit) (RStar (RClass false cls_digit)).

Lemma exp_none c r G n : in_ranges c [(101, 101); (69, 69)]%N = false -> (4 <= G)%nat -> rm G re_exp_opt (c :: r) n (fun _ n0 => Some n0) = Some n.
Proof. intros HcE HG. destruct G as [|[|[|G]]]; try lia. unfold re_exp_opt. rewrite rm_alt_S, rm_seq_S, rm_class_S, HcE. cbn [xorb]. rewrite rm_eps_S. reflexivity. Qed.

Lemma frac_rm f fs' c r G n : in_ranges f cls_digit = true -> forallb (fun x => in_ranges x cls_digit) fs' = true -> in_ranges c cls_digit = false ->
  in_ranges c [(101, 101); (69, 69)]%N = false -> (12 + length fs' <= G)%nat ->
  rm G (RSeq (RClass false [(46, 46)]%N) (RSeq re_dd re_exp_opt)) (46%N :: (f :: fs') ++ c :: r) n (fun _ n0 => Some n0) = Some (n + 1 + zlen (f :: fs')).
Proof.
  intros Ef Hfs HcD HcE HG. destruct G as [|[|[|[|[|G]]]]]; try lia. unfold re_dd. rewrite rm_seq_S, rm_class_S. change (in_ranges 46 [(46, 46)]%N) with true. cbn [xorb].
  rewrite rm_seq_S, rm_seq_S, rm_class_S. cbn [app]. rewrite Ef. cbn [xorb].
  rewrite (star_class cls_digit fs' _ (n + 1 + 1) (c :: r) _ (n + 1 + zlen (f :: fs'))); [reflexivity | exact Hfs | exact HcD | lia |].
  rewrite exp_none by (try assumption; lia). f_equal. unfold zlen. cbn [length]. lia.
Qed.
Lemma int_frac_rm d ds' f fs' c r G n : in_ranges d cls_digit = true -> forallb (fun x => in_ranges x cls_digit) ds' = true ->
  in_ranges f cls_digit = true -> forallb (fun x => in_ranges x cls_digit) fs' = true -> in_ranges c cls_digit = false ->
  in_ranges c [(101, 101); (69, 69)]%N = false -> (20 + length ds' + length fs' <= G)%nat ->
  rm G (RSeq re_dd (RSeq (RClass false [(46, 46)]%N) (RSeq re_dd re_exp_opt))) ((d :: ds') ++ 46%N :: (f :: fs') ++ c :: r) n (fun _ n0 => Some n0)
  = Some (n + zlen (d :: ds') + 1 + zlen (f :: fs')).
Proof.
  intros Ed Hds Ef Hfs HcD HcE HG. destruct G as [|[|[|G]]]; try lia. unfold re_dd at 1. rewrite rm_seq_S, rm_seq_S, rm_class_S. cbn [app]. rewrite Ed. cbn [xorb].
  rewrite (star_class cls_digit ds' _ (n + 1) (46%N :: (f :: fs') ++ c :: r) _ (n + zlen (d :: ds') + 1 + zlen (f :: fs'))); [reflexivity | exact Hds | reflexivity | lia |].
  rewrite frac_rm by (try assumption; lia). f_equal. unfold zlen. cbn [length]. lia.
Qed.

Lemma float_rm sign d ds' f fs' c r : (sign = [] \/ sign = [45%N]) -> isd d = true -> forallb isd ds' = true -> isd f = true -> forallb isd fs' = true -> numfol c ->
  forall F, (30 + length ds' + length fs' <= F)%nat ->
  rm F RE_FLOAT (sign ++ (d :: ds') ++ 46%N :: (f :: fs') ++ c :: r) 0 (fun _ n => Some n) = Some (zlen sign + zlen (d :: ds') + 1 + zlen (f :: fs')).
Proof.
  intros Hs Hd1 Hd2 Hf1 Hf2 Hc F HF. destruct Hc as (_ & HcE & _ & HcD & _ & _).
  destruct (digit_facts d Hd1) as (Ed & _ & _ & E45 & E58). destruct (digit_facts f Hf1) as (Ef & _ & _ & _ & _).
  assert (Hds : forallb (fun x => in_ranges x cls_digit) ds' = true) by (rewrite forallb_forall in *; intros x Hx; apply (digit_facts x (Hd2 x Hx))).
  assert (Hfs : forallb (fun x => in_ranges x cls_digit) fs' = true) by (rewrite forallb_forall in *; intros x Hx; apply (digit_facts x (Hf2 x Hx))).
  clear Hd1 Hd2 Hf1 Hf2.
  change RE_FLOAT with (RAlt (RSeq (RAlt (RClass false [(58, 58)]%N) REps) (RSeq (RAlt (RClass false [(45, 45)]%N) REps) (RSeq re_dd (RSeq (RClass false [(46, 46)]%N) (RSeq re_dd re_exp_opt)))))
                             (RSeq re_minus_opt (RSeq re_digits (RSeq re_eE (RSeq (RChar 45) re_digits))))).
  destruct F as [|[|[|[|[|[|F]]]]]]; try lia.
  rewrite rm_alt_S, rm_seq_S, rm_alt_S.
  assert (E58' : forall G K, rm G (RClass false [(58, 58)]%N) (sign ++ (d :: ds') ++ 46%N :: (f :: fs') ++ c :: r) 0 K = None).
  { intros G K. destruct G as [|G]; [reflexivity|]. rewrite rm_class_S. destruct Hs as [-> | ->]; cbn [app]; [rewrite E58 |]; reflexivity. }
  rewrite E58', rm_eps_S, rm_seq_S, rm_alt_S.
  destruct Hs as [-> | ->]; cbn [app].
  - rewrite rm_class_S, E45. cbn [xorb]. rewrite rm_eps_S. change (d :: ds' ++ 46%N :: f :: fs' ++ c :: r) with ((d :: ds') ++ 46%N :: (f :: fs') ++ c :: r).
    rewrite int_frac_rm by (try assumption; lia). f_equal.
  - rewrite rm_class_S. change (in_ranges 45 [(45, 45)]%N) with true. cbn [xorb]. change (d :: ds' ++ 46%N :: f :: fs' ++ c :: r) with ((d :: ds') ++ 46%N :: (f :: fs') ++ c :: r).
    rewrite int_frac_rm by (try assumption; lia). f_equal.
Qed.

Lemma float_match_g sign ip fp c r : (sign = [] \/ sign = [45%N]) -> ip <> [] -> forallb isd ip = true -> fp <> [] -> forallb isd fp = true -> numfol c ->
  re_match RE_FLOAT ((sign ++ ip ++ 46%N :: fp) ++ c :: r) = Some (zlen (sign ++ ip ++ 46%N :: fp)).
Proof.
  intros Hs Hne Hd Hfne Hfd Hc.
  destruct ip as [|d ds']; [congruence|]. cbn [forallb] in Hd. apply andb_true_iff in Hd as [Hd1 Hd2].
  destruct fp as [|f fs']; [congruence|]. cbn [forallb] in Hfd. apply andb_true_iff in Hfd as [Hf1 Hf2].
  unfold re_match. replace ((sign ++ (d :: ds') ++ 46%N :: f :: fs') ++ c :: r) with (sign ++ (d :: ds') ++ 46%N :: (f :: fs') ++ c :: r) by (rewrite <- !app_assoc; reflexivity).
  rewrite (float_rm sign d ds' f fs' c r Hs Hd1 Hd2 Hf1 Hf2 Hc).
  - f_equal. unfold zlen. repeat (progress (rewrite ?app_length; cbn [length])). lia.
  - repeat (progress (rewrite ?app_length; cbn [length])). lia.
Qed.
