(* C17, the queries nested in filters: with every random episode inside a filter expression modelled too (Model/NdEval2.v), the
   result of find() in nondeterministic mode does not depend on those episodes: m_find_nd2 sup nsup = m_find_nd sup.  The nested
   query returns a permutation of its deterministic nodelist, and a filter expression only uses a nodelist through its emptiness,
   its length, or its single node when it has exactly one. *)
From JP Require Import Base.Json Model.Ast Model.Eval Model.NdVisit Model.NdEval Model.NdEval2 Spec.Sem Spec.Types Spec.Nondet Spec.NondetQ.
From JP Require Import Proofs.AstInd Proofs.EvalProofs Proofs.CompareProofs Proofs.FilterProofs Proofs.NdSpec Proofs.NdSim Proofs.NdDepth Proofs.NdQuery.
From Coq Require Import Permutation Lia.

(* R of Proofs/FilterProofs.v with NodesType relaxed to "a permutation of" *)
Definition R' (want : ty3) (o : pyobj) (s : sval) : Prop :=
  match want with
  | TNodes => exists ns ns', o = PNodes ns /\ s = SN ns' /\ Permutation ns ns' /\ nodes_wf ns'
  | _ => R want o s
  end.
Definition A' (t : ty3) (u : pyobj) (s : sval) : Prop :=
  match t with
  | TNodes => exists ns ns', u = PNodes ns /\ s = SN ns' /\ Permutation ns ns' /\ nodes_wf ns'
  | _ => A t u s
  end.
Inductive args_ok' : list ty3 -> list pyobj -> list sval -> Prop :=
| AO'_nil : args_ok' [] [] []
| AO'_cons t ts u us s ss : A' t u s -> args_ok' ts us ss -> args_ok' (t :: ts) (u :: us) (s :: ss).

Lemma unpack_A' t o s : R' t o s ->
  A' t (match t with
        | TLogical => PVal (JBool (m_is_truthy o))
        | TNodes => o
        | TValue => match o with PNodes [] => PNothing | PNodes [n] => PVal (snd n) | _ => o end
        end) s.
Proof. destruct t; cbn [R' A']; intros H; [apply (unpack_A TValue o s H) | apply (unpack_A TLogical o s H) | exact H]. Qed.

Lemma perm_short {A} (a b : list A) : Permutation a b -> (length b <= 1)%nat -> a = b.
Proof.
  intros Hp Hl. destruct b as [|x [|y b]]; cbn [length] in Hl; try lia.
  - apply Permutation_nil. apply Permutation_sym. exact Hp.
  - apply Permutation_length_1_inv. apply Permutation_sym. exact Hp.
Qed.

Lemma nodes_wf_perm a b : Permutation a b -> nodes_wf b -> nodes_wf a.
Proof. unfold nodes_wf. intros Hp H. rewrite Forall_forall in *. intros x Hx. apply H. eapply Permutation_in; eassumption. Qed.

Lemma apply_ok' cfg d us svs : decl_ok d = true -> args_ok' (f_args d) us svs ->
  exists o, m_apply cfg d us = Ok o /\ R' (f_ret d) o (fn_sem (rx cfg) d svs).
Proof.
  intros Hd Ha.
  (* without NodesType parameters this is apply_ok *)
  assert (Hplain : forallb (fun t => match t with TNodes => false | _ => true end) (f_args d) = true ->
                   match f_ret d with TNodes => False | _ => True end ->
                   exists o, m_apply cfg d us = Ok o /\ R' (f_ret d) o (fn_sem (rx cfg) d svs)).
  { intros Hp Hret. assert (Ha0 : args_ok (f_args d) us svs).
    { clear Hd Hret. induction Ha as [|t ts u us s ss HA _ IH]; [constructor|]. cbn [forallb] in Hp. apply andb_true_iff in Hp as [H1 H2].
      constructor; [destruct t; try discriminate; exact HA | apply IH; exact H2]. }
    destruct (apply_ok cfg d us svs Hd Ha0) as [o [Eo Ro]]. exists o. split; [exact Eo|]. destruct (f_ret d); [exact Ro | exact Ro | destruct Hret]. }
  unfold decl_ok in Hd. destruct d as [targs tret impl]. cbn [f_impl f_args f_ret] in *.
  destruct impl as [| | | | | p |].
  - destruct targs as [|[] [|]]; try discriminate; destruct tret; try discriminate. apply Hplain; [reflexivity | exact I].
  - (* count *)
    destruct targs as [|[] [|]]; try discriminate; destruct tret; try discriminate.
    inversion Ha as [|t ts u us' s ss HA Hrest]; subst. inversion Hrest; subst. cbn [A'] in HA.
    destruct HA as (ns & ns' & -> & -> & Hp & Hw). unfold m_apply, fn_sem. cbn [f_impl m_py_len]. eexists. split; [reflexivity|].
    cbn [R' R f_ret]. eexists. split; [reflexivity|]. unfold zlen. rewrite (Permutation_length Hp). split; [constructor | reflexivity].
  - (* value *)
    destruct targs as [|[] [|]]; try discriminate; destruct tret; try discriminate.
    inversion Ha as [|t ts u us' s ss HA Hrest]; subst. inversion Hrest; subst. cbn [A'] in HA.
    destruct HA as (ns & ns' & -> & -> & Hp & Hw). unfold m_apply, fn_sem. cbn [f_impl f_ret R' R].
    destruct ns' as [|n [|n' ns']].
    + apply Permutation_sym, Permutation_nil in Hp. subst ns. eexists. split; [reflexivity|]. exists Nothing. repeat split. constructor.
    + apply Permutation_sym, Permutation_length_1_inv in Hp. subst ns. eexists. split; [reflexivity|]. exists (Val (snd n)). repeat split; [constructor|].
      inversion Hw; subst. assumption.
    + pose proof (Permutation_length Hp) as Hl. destruct ns as [|a [|b ns]]; cbn [length] in Hl; try lia.
      eexists. split; [reflexivity|]. exists Nothing. repeat split. constructor.
  - destruct targs as [|[] [|[] [|]]]; try discriminate; destruct tret; try discriminate. apply Hplain; [reflexivity | exact I].
  - destruct targs as [|[] [|[] [|]]]; try discriminate; destruct tret; try discriminate. apply Hplain; [reflexivity | exact I].
  - (* constant double *)
    exists p. split; [reflexivity|]. unfold fn_sem. cbn [f_impl f_ret].
    destruct tret, p as [v|ns|]; try discriminate; cbn [R' R sval_of_pyobj].
    + exists (Val v). repeat split; [constructor | exact Hd].
    + exists Nothing. repeat split. constructor.
    + destruct v; try discriminate. reflexivity.
    + destruct ns; try discriminate. exists [], []. repeat split; constructor.
  - (* echo double *)
    destruct targs as [|t ts]; try discriminate.
    inversion Ha as [|t' ts' u us' s ss HA Hrest]; subst. exists u. split; [reflexivity|]. unfold fn_sem. cbn [f_impl f_ret].
    assert (t = tret) by (destruct t, tret; try discriminate; reflexivity). subst tret.
    destruct t; cbn [A' A R' R] in *.
    + destruct HA as [c [-> [Hw Hu]]]. exists c. repeat split; [|exact Hw]. destruct c; subst u; constructor.
    + subst u. destruct (as_bool s); reflexivity.
    + exact HA.
Qed.

Lemma R'_coerce want ret o s : ret_ok want ret = true -> R' ret o s -> R' want o (coerce want ret s).
Proof.
  destruct want, ret; try discriminate; intros _ H; try exact H.
  cbn [R' R coerce] in *. destruct H as (ns & ns' & -> & -> & Hp & _). cbn [as_nodes m_is_truthy].
  destruct ns' as [|x ns']; [apply Permutation_sym, Permutation_nil in Hp; subst ns; reflexivity|].
  destruct ns as [|y ns]; [apply Permutation_nil in Hp; discriminate | reflexivity].
Qed.

(* ---- loops with a state ---- *)
Lemma st_filter_ok {S} (E : S -> node -> result (pyobj * S)) (p : node -> bool) cs :
  (forall c, In c cs -> forall st, exists o st', E st c = Ok (o, st') /\ p c = m_is_truthy o) ->
  forall st, exists st', st_filter E st cs = Ok (filter p cs, st').
Proof.
  induction cs as [|c cs IH]; intros H st; [exists st; reflexivity|].
  destruct (H c (or_introl eq_refl) st) as (o & st1 & Eo & Ep).
  destruct (IH (fun c' Hc' => H c' (or_intror Hc')) st1) as (st2 & E2).
  exists st2. cbn [st_filter]. rewrite Eo. cbn [bind fst snd]. rewrite E2. cbn [bind fst snd filter]. rewrite Ep. reflexivity.
Qed.

Section Nested.
  Variable cfg : envcfg.
  Notation rg := (reg cfg).
  Notation rxf := (rx cfg).
  Notation N := (max_depth cfg).
  Hypothesis Hreg : reg_ok rg = true.
  Hypothesis HN : (1 <= N)%nat.
  Notation good := (good cfg).
  Notation goods := (goods cfg).

  Lemma st_nodes_ok {S A} (F : S -> A -> result (list node * S)) (P : A -> list node -> Prop) (G : A -> Prop) :
    (forall x, G x -> forall st, exists r st', F st x = Ok (r, st') /\ P x r /\ goods r) ->
    forall xs, Forall G xs -> forall st, exists r st', st_nodes F st xs = Ok (r, st') /\ nd_each P xs r /\ goods r.
  Proof.
    intros HF. induction xs as [|x xs IH]; intros Hxs st.
    - exists [], st. repeat split; constructor.
    - inversion Hxs as [|? ? Hx Hxs']; subst. destruct (HF x Hx st) as (r1 & st1 & E1 & P1 & G1). destruct (IH Hxs' st1) as (r2 & st2 & E2 & P2 & G2).
      exists (r1 ++ r2), st2. cbn [st_nodes]. rewrite E1. cbn [bind fst snd]. rewrite E2. cbn [bind fst snd].
      repeat split; [constructor; assumption | apply goods_app; assumption].
  Qed.

  (* the local loops of g_sel / g_expr / g_seg under a name *)
  Definition g_sels (root : json) (n : node) :=
    fix go (sup : supply) (ss : list sel) : result (list node * supply) :=
      match ss with
      | [] => Ok ([], sup)
      | s :: ss' => do a <- g_sel cfg root sup s n; do b <- go (snd a) ss'; Ok (fst a ++ fst b, snd b)
      end.
  Definition g_segs (root : json) :=
    fix segs (sup : supply) (q : list seg) (ns : list node) : result (list node * supply) :=
      match q with [] => Ok (ns, sup) | sg :: q' => do a <- g_seg cfg root sup sg ns; segs (snd a) q' (fst a) end.
  Definition g_args (root cur : json) :=
    fix go (sup : supply) (args : list expr) : result (list pyobj * supply) :=
      match args with
      | [] => Ok ([], sup)
      | a :: args' => do x <- g_expr cfg root cur sup a; do r <- go (snd x) args'; Ok (fst x :: fst r, snd r)
      end.

  Definition filt_loop (root : json) (e : expr) :=
    fix go (sup : supply) (cs : list node) : result (list node * supply) :=
      match cs with
      | [] => Ok ([], sup)
      | c :: cs' =>
          do o <- g_expr cfg root (snd c) sup e;
          do r <- go (snd o) cs';
          Ok (if m_is_truthy (fst o) then c :: fst r else fst r, snd r)
      end.
  Lemma filt_loop_st root e cs : forall s0, filt_loop root e s0 cs = st_filter (fun sup c => g_expr cfg root (snd c) sup e) s0 cs.
  Proof.
    induction cs as [|c cs IH]; intros s0; [reflexivity|]. cbn [filt_loop st_filter]. fold (filt_loop root e).
    destruct (g_expr cfg root (snd c) s0 e) as [[o s1]| | |]; cbn [bind fst snd]; try reflexivity. rewrite IH. reflexivity.
  Qed.
  Lemma g_sel_filter root sup e n :
    g_sel cfg root sup (SFilter e) n = st_filter (fun sup c => g_expr cfg root (snd c) sup e) (snd (nd_children sup n)) (fst (nd_children sup n)).
  Proof. rewrite <- filt_loop_st. reflexivity. Qed.

  Definition Gs (s : sel) : Prop := wt_sel rg s = true -> forall root n, good root -> good (snd n) -> forall sup,
    exists r sup', g_sel cfg root sup s n = Ok (r, sup') /\ NondetQ.nd_sel rg rxf root n s r /\ goods r.
  Definition Ge (e : expr) : Prop := forall want root cur, wt_expr rg want e = true -> good root -> good cur -> forall sup,
    exists o sup', g_expr cfg root cur sup e = Ok (o, sup') /\ R' want o (s_expr rg rxf want root cur e).
  Definition Gg (g : seg) : Prop := wt_seg rg g = true -> forall root ns, good root -> goods ns -> forall sup,
    exists r sup', g_seg cfg root sup g ns = Ok (r, sup') /\ NondetQ.nd_seg rg rxf root g ns r /\ goods r.

  Lemma g_sels_ok root n ss : Forall Gs ss -> wt_sels cfg ss = true -> good root -> good (snd n) -> forall sup,
    exists r sup', g_sels root n sup ss = Ok (r, sup') /\ NondetQ.nd_sels rg rxf root ss n r /\ goods r.
  Proof.
    intros HF. induction HF as [|s ss Hs _ IH]; intros Hwt Hr Hn sup.
    - exists [], sup. repeat split; constructor.
    - cbn [wt_sels] in Hwt. apply andb_true_iff in Hwt as [H1 H2].
      destruct (Hs H1 root n Hr Hn sup) as (r1 & s1 & E1 & P1 & G1). destruct (IH H2 Hr Hn s1) as (r2 & s2 & E2 & P2 & G2).
      exists (r1 ++ r2), s2. cbn [g_sels]. rewrite E1. cbn [bind fst snd]. fold (g_sels root n). rewrite E2. cbn [bind fst snd].
      repeat split; [constructor; assumption | apply goods_app; assumption].
  Qed.

  Lemma g_segs_ok root q : Forall Gg q -> wt_segs cfg q = true -> good root -> forall ns sup, goods ns ->
    exists r sup', g_segs root sup q ns = Ok (r, sup') /\ NondetQ.nd_segs rg rxf root q ns r /\ goods r.
  Proof.
    intros HF. induction HF as [|sg q Hsg _ IH]; intros Hwt Hr ns sup Hns.
    - exists ns, sup. repeat split; [constructor | exact Hns].
    - cbn [wt_segs] in Hwt. apply andb_true_iff in Hwt as [H1 H2].
      destruct (Hsg H1 root ns Hr Hns sup) as (mid & s1 & E1 & P1 & G1). destruct (IH H2 Hr mid s1 G1) as (r & s2 & E2 & P2 & G2).
      exists r, s2. cbn [g_segs]. rewrite E1. cbn [bind fst snd]. fold (g_segs root). rewrite E2.
      repeat split; [econstructor; eassumption | exact G2].
  Qed.

  Lemma Pg_all q : Forall (Pg cfg) q.
  Proof. apply Forall_forall. intros g _. destruct (refine_all cfg Hreg HN) as [_ [_ Hg]]. apply Hg. Qed.

  (* a nested query in a position of type [want] *)
  Lemma g_query_R want root start q : Forall Gg q -> wt_segs cfg q = true ->
    match want with TValue => singular q | _ => true end = true -> good root -> good start -> forall sup,
    exists r sup', g_segs root sup q [([], start)] = Ok (r, sup') /\ R' want (PNodes r) (conv_nodes want (s_segs rg rxf root q [([], start)])).
  Proof.
    intros HF Hwt Hs Hr Hst sup.
    destruct (g_segs_ok root q HF Hwt Hr [([], start)] sup) as (r & s1 & E & P & _); [constructor; [exact Hst | constructor]|].
    exists r, s1. split; [exact E|].
    pose proof (nd_segs_perm rg rxf root q _ r [([], start)] P (Permutation_refl _)) as Hp.
    destruct (query_R cfg Hreg HN want root start q (Pg_all q) Hwt Hs Hr Hst) as (ns0 & _ & HR & Ens). rewrite <- Ens in *.
    destruct want; cbn [R'].
    - pose proof (singular_le1 cfg root q [([], start)] Hs ltac:(cbn; lia)) as Hl. rewrite <- Ens in Hl.
      rewrite (perm_short r ns0 Hp Hl). exact HR.
    - cbn [R conv_nodes as_bool m_is_truthy] in *. destruct ns0 as [|x ns0]; [apply Permutation_sym, Permutation_nil in Hp; subst r; reflexivity|].
      destruct r as [|y r]; [apply Permutation_nil in Hp; discriminate | reflexivity].
    - cbn [R conv_nodes] in HR. destruct HR as (ns1 & E1 & E2 & Hw). inversion E1; subst ns1. exists r, ns0. repeat split; assumption.
  Qed.

  Lemma g_args_ok root cur args : Forall Ge args -> forall tys, wt_args cfg tys args = true -> good root -> good cur -> forall sup,
    exists vs sup' us, g_args root cur sup args = Ok (vs, sup') /\ m_unpack tys vs = Ok us /\ args_ok' tys us (s_args cfg root cur tys args).
  Proof.
    intros HF. induction HF as [|a args Ha _ IH]; intros tys Hwt Hr Hc sup.
    - destruct tys; [|discriminate]. exists [], sup, []. repeat split. constructor.
    - destruct tys as [|t tys]; [discriminate|]. cbn [wt_args] in Hwt. apply andb_true_iff in Hwt as [H1 H2].
      destruct (Ha t root cur H1 Hr Hc sup) as (o & s1 & Eo & Ro).
      destruct (IH tys H2 Hr Hc s1) as (vs & s2 & us & Evs & Eus & Hok).
      exists (o :: vs), s2. eexists. cbn [g_args]. rewrite Eo. cbn [bind fst snd]. fold (g_args root cur). rewrite Evs. cbn [bind fst snd].
      split; [reflexivity|]. cbn [m_unpack]. rewrite Eus. cbn [bind]. split; [reflexivity|].
      cbn [s_args]. fold (s_args cfg root cur tys args). constructor; [|exact Hok]. apply unpack_A'. exact Ro.
  Qed.

  Lemma kids_goods sup n : good (snd n) -> kids_order n (fst (nd_children sup n)) /\ goods (fst (nd_children sup n)).
  Proof. intros Hn. pose proof (nd_children_order sup n) as Hk. split; [exact Hk | eapply kids_order_good; eassumption]. Qed.

  Theorem g_all : (forall s, Gs s) /\ (forall e, Ge e) /\ (forall g, Gg g).
  Proof.
    assert (Hdet : forall s, ff_sel s = true -> s <> SWild -> Gs s).
    { intros s Hff Hnw Hwt root n Hr Hn sup. exists (s_sel rg rxf root s n), sup.
      assert (E : g_sel cfg root sup s n = (do r <- m_sel cfg root s n; Ok (r, sup))) by (destruct s; try reflexivity; [congruence | discriminate]).
      rewrite E, (m_sel_ff cfg root s n Hff). cbn [bind]. split; [reflexivity|]. split.
      - destruct s; try reflexivity; [congruence | discriminate].
      - apply goods_iff. intros c Hc. eapply (s_sel_P good (good_hered cfg)); eassumption. }
    apply ast_ind; unfold Ge, Gg.
    - intros k. apply Hdet; [reflexivity | discriminate].
    - intros i. apply Hdet; [reflexivity | discriminate].
    - intros a b c. apply Hdet; [reflexivity | discriminate].
    - intros _ root n Hr Hn sup. destruct (kids_goods sup n Hn) as [Hk Hg].
      exists (fst (nd_children sup n)), (snd (nd_children sup n)). cbn [g_sel NondetQ.nd_sel]. split; [destruct (nd_children sup n); reflexivity|]. split; assumption.
    - (* filter selector *)
      intros e IHe Hwt root n Hr Hn sup. cbn [wt_sel] in Hwt. rewrite g_sel_filter. destruct (kids_goods sup n Hn) as [Hk Hg].
      set (cs := fst (nd_children sup n)) in *.
      destruct (st_filter_ok (fun sup c => g_expr cfg root (snd c) sup e) (fun c => as_bool (s_expr rg rxf TLogical root (snd c) e)) cs) with (st := snd (nd_children sup n)) as (s2 & E2).
      { intros c Hc st. rewrite goods_iff in Hg. destruct (IHe TLogical root (snd c) Hwt Hr (Hg c Hc) st) as (o & s1 & Eo & Ro). exists o, s1. split; [exact Eo | exact Ro]. }
      eexists. exists s2. split; [exact E2|]. split.
      + cbn [NondetQ.nd_sel]. exists cs. split; [exact Hk | reflexivity].
      + apply goods_iff. intros c Hc. apply filter_In in Hc as [Hc _]. rewrite goods_iff in Hg. exact (Hg c Hc).
    - (* literal *)
      intros v want root cur Hwt _ _ sup. destruct want; try discriminate. cbn [wt_expr] in Hwt.
      exists (PVal v), sup. split; [reflexivity|]. exists (Val v). repeat split; [constructor|].
      cbn [wf_c]. destruct v; try discriminate; reflexivity.
    - (* relative query *)
      intros q HF want root cur Hwt Hr Hc sup. cbn [wt_expr] in Hwt. apply andb_true_iff in Hwt as [H1 H2].
      destruct (g_query_R want root cur q HF H1 H2 Hr Hc sup) as (r & s1 & E & HR).
      exists (PNodes r), s1. rewrite s_expr_rel. split; [|exact HR].
      change (g_expr cfg root cur sup (ERel q)) with (do a <- g_segs root sup q [([], cur)]; Ok (PNodes (fst a), snd a)). rewrite E. reflexivity.
    - (* absolute query *)
      intros q HF want root cur Hwt Hr Hc sup. cbn [wt_expr] in Hwt. apply andb_true_iff in Hwt as [H1 H2].
      destruct (g_query_R want root root q HF H1 H2 Hr Hr sup) as (r & s1 & E & HR).
      exists (PNodes r), s1. rewrite s_expr_abs. split; [|exact HR].
      change (g_expr cfg root cur sup (EAbs q)) with (do a <- g_segs root sup q [([], root)]; Ok (PNodes (fst a), snd a)). rewrite E. reflexivity.
    - (* function call *)
      intros f args HF want root cur Hwt Hr Hc sup. cbn [wt_expr] in Hwt.
      change (g_expr cfg root cur sup (ECall f args)) with
        (match find_assoc f rg with
         | None => Ok (PNothing, sup)
         | Some d => do vs <- g_args root cur sup args; do us <- m_unpack (f_args d) (fst vs); do o <- m_apply cfg d us; Ok (o, snd vs)
         end).
      change (s_expr rg rxf want root cur (ECall f args)) with
        (match find_assoc f rg with
         | None => SV Nothing
         | Some d => coerce want (f_ret d) (fn_sem rxf d (s_args cfg root cur (f_args d) args))
         end).
      destruct (find_assoc f rg) as [d|] eqn:Ef; [|discriminate].
      apply andb_true_iff in Hwt as [Hret Hargs].
      destruct (g_args_ok root cur args HF (f_args d) Hargs Hr Hc sup) as (vs & s1 & us & Evs & Eus & Hok).
      rewrite Evs. cbn [bind fst snd]. rewrite Eus. cbn [bind].
      destruct (apply_ok' cfg d us _ (reg_ok_find _ _ _ Hreg Ef) Hok) as [o [Eo Ro]].
      exists o, s1. rewrite Eo. cbn [bind]. split; [reflexivity|]. apply R'_coerce; assumption.
    - (* not *)
      intros a IHa want root cur Hwt Hr Hc sup. cbn [wt_expr] in Hwt. apply andb_true_iff in Hwt as [Hl Ha].
      destruct want; try discriminate. destruct (IHa TLogical root cur Ha Hr Hc sup) as (o & s1 & Eo & Ro).
      cbn [g_expr s_expr]. rewrite Eo. cbn [bind fst snd]. eexists. eexists. split; [reflexivity|]. cbn [R' R] in *. rewrite Ro.
      destruct (m_is_truthy o); reflexivity.
    - (* and *)
      intros a b IHa IHb want root cur Hwt Hr Hc sup. cbn [wt_expr] in Hwt.
      apply andb_true_iff in Hwt as [Hwt Hb]. apply andb_true_iff in Hwt as [Hl Ha].
      destruct want; try discriminate. destruct (IHa TLogical root cur Ha Hr Hc sup) as (x & s1 & Ex & Rx).
      destruct (IHb TLogical root cur Hb Hr Hc s1) as (y & s2 & Ey & Ry).
      cbn [g_expr s_expr]. rewrite Ex. cbn [bind fst snd]. rewrite Ey. cbn [bind fst snd]. eexists. eexists. split; [reflexivity|].
      cbn [R' R] in *. rewrite Rx, Ry. destruct (m_is_truthy x), (m_is_truthy y); reflexivity.
    - (* or *)
      intros a b IHa IHb want root cur Hwt Hr Hc sup. cbn [wt_expr] in Hwt.
      apply andb_true_iff in Hwt as [Hwt Hb]. apply andb_true_iff in Hwt as [Hl Ha].
      destruct want; try discriminate. destruct (IHa TLogical root cur Ha Hr Hc sup) as (x & s1 & Ex & Rx).
      destruct (IHb TLogical root cur Hb Hr Hc s1) as (y & s2 & Ey & Ry).
      cbn [g_expr s_expr]. rewrite Ex. cbn [bind fst snd]. rewrite Ey. cbn [bind fst snd]. eexists. eexists. split; [reflexivity|].
      cbn [R' R] in *. rewrite Rx, Ry. destruct (m_is_truthy x), (m_is_truthy y); reflexivity.
    - (* comparison *)
      intros o a b IHa IHb want root cur Hwt Hr Hc sup. cbn [wt_expr] in Hwt.
      apply andb_true_iff in Hwt as [Hwt Hb]. apply andb_true_iff in Hwt as [Hl Ha].
      destruct want; try discriminate. destruct (IHa TValue root cur Ha Hr Hc sup) as (x & s1 & Ex & (ca & Esa & Rca & Wa)).
      destruct (IHb TValue root cur Hb Hr Hc s1) as (y & s2 & Ey & (cb & Esb & Rcb & Wb)).
      cbn [g_expr s_expr]. rewrite Ex. cbn [bind fst snd]. rewrite Ey. cbn [bind fst snd]. eexists. eexists. split; [reflexivity|].
      cbn [R' R]. rewrite Esa, Esb. cbn [as_val as_bool].
      rewrite (compare_table o ca cb x y Wa Wb Rca Rcb). destruct (cmp o ca cb); reflexivity.
    - (* child segment *)
      intros ss HF Hwt root ns Hr Hns sup. cbn [wt_seg] in Hwt. cbn [g_seg NondetQ.nd_seg].
      apply (st_nodes_ok (fun sup n => g_sels root n sup ss) (NondetQ.nd_sels rg rxf root ss) (fun n => good (snd n))); [|exact Hns].
      intros n Hn st. apply g_sels_ok; assumption.
    - (* descendant segment *)
      intros ss HF Hwt root ns Hr Hns sup. cbn [wt_seg] in Hwt. cbn [g_seg NondetQ.nd_seg].
      refine (st_nodes_ok _ (fun n r => exists o, Permutation o (descendants (fst n) (snd n)) /\ valid_order n (map fst o) = true /\ nd_each (NondetQ.nd_sels rg rxf root ss) o r) (fun n => good (snd n)) _ ns Hns sup).
      intros n Hn st. destruct (nd_visit_depth N (fst (take_sub st)) n HN) as [(vs & Ev & _) | (_ & Hbad)]; [|destruct Hn as [Hn _]; lia].
      rewrite Ev. cbn [bind]. destruct n as [loc v]. destruct (nd_visit_valid_at _ _ loc v vs (proj2 Hn) Ev) as [Hval Hperm].
      assert (Hvs : goods vs).
      { apply goods_iff. intros d Hd. eapply (descendants_P good (good_hered cfg)); [exact Hn | eapply Permutation_in; [exact Hperm | exact Hd]]. }
      destruct (st_nodes_ok (fun sup n => g_sels root n sup ss) (NondetQ.nd_sels rg rxf root ss) (fun n => good (snd n))
                  (fun n1 Hn1 st1 => g_sels_ok root n1 ss HF Hwt Hr Hn1 st1) vs Hvs (snd (take_sub st))) as (r & s2 & E2 & P2 & G2).
      exists r, s2. split; [exact E2|]. split; [|exact G2]. exists vs. split; [exact Hperm | split; [exact Hval | exact P2]].
  Qed.
End Nested.

(* ---- the whole query: the nested supply does not matter ---- *)
Section Top.
  Variable cfg : envcfg.
  Notation rg := (reg cfg).
  Notation rxf := (rx cfg).
  Notation N := (max_depth cfg).
  Hypothesis Hreg : reg_ok rg = true.
  Hypothesis HN : (1 <= N)%nat.
  Notation good := (good cfg).
  Notation goods := (goods cfg).

  Lemma nd2_sel_eq root s n : wt_sel rg s = true -> good root -> good (snd n) -> forall sup nsup,
    exists r sup' nsup', NdEval.nd_sel cfg root sup s n = Ok (r, sup') /\ nd2_sel cfg root (sup, nsup) s n = Ok (r, (sup', nsup')) /\ goods r.
  Proof.
    intros Hwt Hr Hn sup nsup.
    assert (Hdet : ff_sel s = true -> s <> SWild -> exists r sup' nsup',
              (do r0 <- m_sel cfg root s n; Ok (r0, sup)) = Ok (r, sup') /\ (do r0 <- m_sel cfg root s n; Ok (r0, (sup, nsup))) = Ok (r, (sup', nsup')) /\ goods r).
    { intros Hff _. exists (s_sel rg rxf root s n), sup, nsup. rewrite (m_sel_ff cfg root s n Hff). cbn [bind]. repeat split.
      apply goods_iff. intros c Hc. eapply (s_sel_P good (good_hered cfg)); eassumption. }
    destruct s as [k | i | a b c | | e]; cbn [NdEval.nd_sel nd2_sel fst snd]; try (apply Hdet; [reflexivity | discriminate]).
    - destruct (kids_goods cfg sup n Hn) as [_ Hg]. destruct (nd_children sup n) as [cs sup1]. exists cs, sup1, nsup. repeat split. exact Hg.
    - cbn [wt_sel] in Hwt. destruct (kids_goods cfg sup n Hn) as [Hk Hg]. destruct (nd_children sup n) as [cs sup1]. cbn [fst snd] in *.
      rewrite (filter_list_ok cfg Hreg HN root e cs Hwt Hr Hg). cbn [bind].
      destruct (st_filter_ok (fun nsup c => g_expr cfg root (snd c) nsup e) (fun c => as_bool (s_expr rg rxf TLogical root (snd c) e)) cs) with (st := nsup) as (s2 & E2).
      { intros c Hc st. rewrite goods_iff in Hg. destruct (g_all cfg Hreg HN) as [_ [He _]].
        destruct (He e TLogical root (snd c) Hwt Hr (Hg c Hc) st) as (o & s1 & Eo & Ro). exists o, s1. split; [exact Eo | exact Ro]. }
      rewrite E2. cbn [bind fst snd]. eexists. exists sup1, s2. repeat split.
      apply goods_iff. intros c Hc. apply filter_In in Hc as [Hc _]. rewrite goods_iff in Hg. exact (Hg c Hc).
  Qed.

  Lemma nd2_sels_eq root ss n : wt_sels cfg ss = true -> good root -> good (snd n) -> forall sup nsup,
    exists r sup' nsup', NdEval.nd_sels cfg root sup ss n = Ok (r, sup') /\ nd2_sels cfg root (sup, nsup) ss n = Ok (r, (sup', nsup')) /\ goods r.
  Proof.
    intros Hwt Hr Hn. induction ss as [|s ss IH]; intros sup nsup.
    - exists [], sup, nsup. repeat split. constructor.
    - cbn [wt_sels] in Hwt. apply andb_true_iff in Hwt as [H1 H2].
      destruct (nd2_sel_eq root s n H1 Hr Hn sup nsup) as (r1 & s1 & n1 & E1 & F1 & G1). destruct (IH H2 s1 n1) as (r2 & s2 & n2 & E2 & F2 & G2).
      exists (r1 ++ r2), s2, n2. cbn [NdEval.nd_sels nd2_sels]. rewrite E1, F1. cbn [bind fst snd]. rewrite E2, F2. cbn [bind fst snd].
      repeat split. apply goods_app; assumption.
  Qed.

  Lemma nodes_eq (F : supply -> node -> result (list node * supply)) (F2 : st2 -> node -> result (list node * st2)) :
    (forall n, good (snd n) -> forall sup nsup, exists r sup' nsup', F sup n = Ok (r, sup') /\ F2 (sup, nsup) n = Ok (r, (sup', nsup')) /\ goods r) ->
    forall ns, goods ns -> forall sup nsup,
    exists r sup' nsup', nd_nodes F sup ns = Ok (r, sup') /\ st_nodes F2 (sup, nsup) ns = Ok (r, (sup', nsup')) /\ goods r.
  Proof.
    intros HF. induction ns as [|n ns IH]; intros Hns sup nsup.
    - exists [], sup, nsup. repeat split. constructor.
    - inversion Hns as [|? ? Hn Hns']; subst.
      destruct (HF n Hn sup nsup) as (r1 & s1 & n1 & E1 & F1 & G1). destruct (IH Hns' s1 n1) as (r2 & s2 & n2 & E2 & F2' & G2).
      exists (r1 ++ r2), s2, n2. cbn [nd_nodes st_nodes]. rewrite E1, F1. cbn [bind fst snd]. rewrite E2, F2'. cbn [bind fst snd].
      repeat split. apply goods_app; assumption.
  Qed.

  Lemma nd2_seg_eq root sg : wt_seg rg sg = true -> good root -> forall ns, goods ns -> forall sup nsup,
    exists r sup' nsup', NdEval.nd_seg cfg root sup sg ns = Ok (r, sup') /\ nd2_seg cfg root (sup, nsup) sg ns = Ok (r, (sup', nsup')) /\ goods r.
  Proof.
    intros Hwt Hr ns Hns sup nsup. destruct sg as [ss | ss]; cbn [NdEval.nd_seg nd2_seg wt_seg] in *.
    - apply (nodes_eq (fun sup n => NdEval.nd_sels cfg root sup ss n) (fun st n => nd2_sels cfg root st ss n)); [|exact Hns].
      intros n Hn sup0 nsup0. apply nd2_sels_eq; assumption.
    - refine (nodes_eq _ _ _ ns Hns sup nsup). intros n Hn sup0 nsup0. cbn [fst snd]. destruct (take_sub sup0) as [s sup1]. cbn [fst snd].
      destruct (nd_visit_depth N s n HN) as [(vs & Ev & _) | (_ & Hbad)]; [|destruct Hn as [Hn _]; lia].
      rewrite Ev. cbn [bind]. destruct n as [loc v]. destruct (nd_visit_valid_at _ _ loc v vs (proj2 Hn) Ev) as [_ Hperm].
      assert (Hvs : goods vs).
      { apply goods_iff. intros d Hd. eapply (descendants_P good (good_hered cfg)); [exact Hn | eapply Permutation_in; [exact Hperm | exact Hd]]. }
      apply (nodes_eq (fun sup n => NdEval.nd_sels cfg root sup ss n) (fun st n => nd2_sels cfg root st ss n)); [|exact Hvs].
      intros n1 Hn1 sup2 nsup2. apply nd2_sels_eq; assumption.
  Qed.

  Lemma nd2_segs_eq root q : wt_query rg q = true -> good root -> forall ns, goods ns -> forall sup nsup,
    exists r sup' nsup', NdEval.nd_segs cfg root sup q ns = Ok (r, sup') /\ nd2_segs cfg root (sup, nsup) q ns = Ok (r, (sup', nsup')).
  Proof.
    intros Hwt Hr. induction q as [|sg q IH]; intros ns Hns sup nsup.
    - exists ns, sup, nsup. split; reflexivity.
    - unfold wt_query in Hwt. cbn [forallb] in Hwt. apply andb_true_iff in Hwt as [H1 H2].
      destruct (nd2_seg_eq root sg H1 Hr ns Hns sup nsup) as (mid & s1 & n1 & E1 & F1 & G1).
      destruct (IH H2 mid G1 s1 n1) as (r & s2 & n2 & E2 & F2).
      exists r, s2, n2. cbn [NdEval.nd_segs nd2_segs]. rewrite E1, F1. cbn [bind fst snd]. split; assumption.
  Qed.

  (* the result is a function of the scripts of the query's own episodes only, and is always a nodelist (no error within the depth limit) *)
  Theorem nested_independent q v sup nsup : wt_query rg q = true -> good v ->
    exists r, m_find_nd cfg sup q v = Ok r /\ m_find_nd2 cfg sup nsup q v = Ok r.
  Proof.
    intros Hwt Hv. destruct (nd2_segs_eq v q Hwt Hv [([], v)] ltac:(constructor; [exact Hv | constructor]) sup nsup) as (r & s2 & n2 & E & F).
    exists r. unfold m_find_nd, m_find_nd2. rewrite E, F. split; reflexivity.
  Qed.

  Corollary nd2_eq q v sup nsup : wt_query rg q = true -> good v -> m_find_nd2 cfg sup nsup q v = m_find_nd cfg sup q v.
  Proof. intros Hwt Hv. destruct (nested_independent q v sup nsup Hwt Hv) as (r & E & F). rewrite E, F. reflexivity. Qed.

  Corollary nd2_valid q v sup nsup r : wt_query rg q = true -> good v -> m_find_nd2 cfg sup nsup q v = Ok r -> nd_permitted rg rxf q v r.
  Proof. intros Hwt Hv E. rewrite nd2_eq in E by assumption. eapply nd_query_valid; eassumption. Qed.

  Corollary nd2_exhaustive q v r : wt_query rg q = true -> good v -> nd_permitted rg rxf q v r ->
    exists sup, forall nsup, m_find_nd2 cfg sup nsup q v = Ok r.
  Proof.
    intros Hwt Hv H. destruct (nd_query_exhaustive cfg Hreg HN q v r Hwt Hv H) as [sup E]. exists sup. intros nsup.
    rewrite nd2_eq by assumption. exact E.
  Qed.
End Top.
