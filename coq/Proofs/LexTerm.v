(* C13 (termination of the lexer): a potential function - four times the remaining text plus a small rank of the state -
   strictly decreases at every transition of the state machine, so the number of transitions is bounded by 4 * len + 4
   and the fuel the model gives the run loop (4 * len + 16) is never exhausted. *)
From JP Require Import Base.Prelude Model.Regex Model.Tokens Model.Lex.

(* --- every pattern the lexer matches consumes at least one character ------------------------------------------------ *)
Fixpoint minlen (r : re) : Z :=
  match r with
  | REps => 0
  | RClass _ _ => 1
  | RSeq a b => minlen a + minlen b
  | RAlt a b => Z.min (minlen a) (minlen b)
  | RStar _ => 0
  end.
Lemma minlen_nonneg r : 0 <= minlen r.
Proof. induction r; cbn [minlen]; lia. Qed.

Lemma rm_minlen : forall fuel r s n k x d,
  (forall s' n' y, k s' n' = Some y -> n' + d <= y) -> rm fuel r s n k = Some x -> n + minlen r + d <= x.
Proof.
  induction fuel as [|f IH]; intros r s n k x d Hk H; [discriminate|]. cbn [rm] in H. destruct r as [|neg rs|a b|a b|a]; cbn [minlen].
  - apply Hk in H. lia.
  - destruct s as [|c s']; [discriminate|]. destruct (xorb neg (in_ranges c rs)); [|discriminate]. apply Hk in H. lia.
  - apply (IH a s n _ x (minlen b + d)) in H; [lia|]. intros s' n' y Hy. apply (IH b s' n' k y d) in Hy; [lia | exact Hk].
  - destruct (rm f a s n k) eqn:E.
    + injection H as <-. apply (IH a s n k _ d) in E; [lia | exact Hk].
    + apply (IH b s n k x d) in H; [lia | exact Hk].
  - match type of H with match ?X with _ => _ end = _ => destruct X eqn:E end.
    + injection H as <-. apply (IH a s n _ _ d) in E; [pose proof (minlen_nonneg a); lia|].
      intros s' n' y Hy. destruct (n' =? n) eqn:En; [discriminate|]. apply (IH (RStar a) s' n' k y d) in Hy; [cbn [minlen] in Hy; lia | exact Hk].
    + apply Hk in H. lia.
Qed.
Lemma re_match_minlen r s n : re_match r s = Some n -> minlen r <= n.
Proof. unfold re_match. intros H. apply (rm_minlen _ _ _ _ _ _ 0) in H; [lia|]. intros s' n' y Hy. injection Hy as <-. lia. Qed.

(* --- how the primitives move through the text ------------------------------------------------------------------------------- *)
Definition L (l : lexer) : nat := length (l_rest l).
Lemma next_some l c l1 : l_next l = (Some c, l1) -> l_rest l = c :: l_rest l1 /\ l_cur l1 = c :: l_cur l.
Proof. unfold l_next. destruct (l_rest l) as [|d r]; intros H; inversion H; subst. split; reflexivity. Qed.
Lemma next_none l l1 : l_next l = (None, l1) -> l1 = l /\ l_rest l = [].
Proof. unfold l_next. destruct (l_rest l) as [|d r] eqn:E; intros H; inversion H; subst. split; reflexivity. Qed.
Lemma backup_some l l2 : l_backup l = Some l2 -> exists c, l_cur l = c :: l_cur l2 /\ l_rest l2 = c :: l_rest l.
Proof. unfold l_backup. destruct (l_cur l) as [|c r]; intros H; inversion H; subst. exists c. split; reflexivity. Qed.
Lemma next_snd_L l : (L (snd (l_next l)) <= L l)%nat /\ (l_rest l <> [] -> S (L (snd (l_next l))) = L l).
Proof. unfold L, l_next. destruct (l_rest l) as [|d r] eqn:E; cbn [snd l_rest upd_text length]; rewrite ?E; cbn [length]; split; try lia; intros; try congruence; lia. Qed.

Lemma skipn_push_len : forall k rest cur, (length (fst (skipn_push k rest cur)) = length rest - k)%nat.
Proof.
  induction k as [|k IH]; intros rest cur; cbn [skipn_push]; [cbn; lia|]. destruct rest as [|c r]; [cbn; lia|]. rewrite IH. cbn [length]. lia.
Qed.
Lemma advance_L l n : 0 <= n -> L (l_advance l n) = (L l - Z.to_nat n)%nat.
Proof.
  intros Hn. unfold L, l_advance. pose proof (skipn_push_len (Z.to_nat n) (l_rest l) (l_cur l)) as H.
  destruct (skipn_push (Z.to_nat n) (l_rest l) (l_cur l)) as [r c]. cbn [fst] in H. cbn [l_rest upd_text]. exact H.
Qed.
Lemma re_match_le r s n : re_match r s = Some n -> 0 <= n <= zlen s.
Proof.
  (* the bound of Proofs/LexInv.v, restated here to keep this file independent *)
  unfold re_match. intros H.
  assert (G : forall fuel r s n k x total, (forall s' n', 0 <= n' -> n' + zlen s' = total -> k s' n' = Some x -> 0 <= x <= total) ->
              0 <= n -> n + zlen s = total -> rm fuel r s n k = Some x -> 0 <= x <= total).
  { clear. induction fuel as [|f IH]; intros r s n k x total Hk Hn Ht H; [discriminate|]. cbn [rm] in H. destruct r as [|neg rs|a b|a b|a].
    - eapply Hk; eauto.
    - destruct s as [|c s']; [discriminate|]. destruct (xorb neg (in_ranges c rs)); [|discriminate]. eapply Hk; [| |exact H]; [lia|]. unfold zlen in *. cbn [length] in Ht. lia.
    - eapply (IH a s n); [| exact Hn | exact Ht | exact H]. intros s' n' Hn' Ht' H'. eapply (IH b s' n'); eauto.
    - destruct (rm f a s n k) eqn:E; [injection H as <-; eapply (IH a s n k); eauto | eapply (IH b s n k); eauto].
    - match type of H with match ?X with _ => _ end = _ => destruct X eqn:E end.
      + injection H as <-. eapply (IH a s n); [| exact Hn | exact Ht | exact E]. intros s' n' Hn' Ht' H'. cbv beta in H'. destruct (n' =? n); [discriminate|]. eapply (IH (RStar a) s' n'); eauto.
      + eapply Hk; eauto. }
  eapply (G _ _ _ _ _ _ (zlen s)); [| | |exact H]; [|lia|lia]. intros s' n' Hn' Ht' H'. injection H' as <-. unfold zlen in *. lia.
Qed.
Lemma accept_match_L r l b l' : l_accept_match r l = (b, l') ->
  (b = false -> l' = l) /\ (b = true -> (L l' + Z.to_nat (minlen r) <= L l)%nat).
Proof.
  unfold l_accept_match. destruct (re_match r (l_rest l)) as [n|] eqn:E; intros H; inversion H; subst; split; try discriminate; try reflexivity.
  intros _. pose proof (re_match_le _ _ _ E) as [H0 H1]. pose proof (re_match_minlen _ _ _ E) as Hm. rewrite advance_L by exact H0. unfold L, zlen in *. lia.
Qed.
Lemma is_prefix_length : forall p s, is_prefix p s = true -> (length p <= length s)%nat.
Proof. induction p as [|c p IH]; intros s H; [cbn; lia|]. destruct s as [|d s]; [discriminate|]. cbn [is_prefix] in H. apply andb_true_iff in H as [_ H]. apply IH in H. cbn [length]. lia. Qed.
Lemma accept_L p l b l' : l_accept p l = (b, l') -> (b = false -> l' = l) /\ (b = true -> (L l' + length p = L l)%nat).
Proof.
  unfold l_accept. destruct (is_prefix p (l_rest l)) eqn:E; intros H; inversion H; subst; split; try discriminate; try reflexivity.
  intros _. rewrite advance_L by (unfold zlen; lia). apply is_prefix_length in E. unfold L, zlen in *. rewrite Nat2Z.id. lia.
Qed.
Lemma ignore_ws_L l b l' : l_ignore_ws l = Some (b, l') -> (L l' <= L l)%nat /\ (b = false -> l' = l) /\ (b = true -> (L l' + 1 <= L l)%nat).
Proof.
  unfold l_ignore_ws. destruct (l_cur l); [|discriminate]. destruct (l_accept_match RE_WHITESPACE l) as [w a] eqn:E. intros H; inversion H; subst.
  destruct (accept_match_L _ _ _ _ E) as [A B]. destruct b.
  - specialize (B eq_refl). change (Z.to_nat (minlen RE_WHITESPACE)) with 1%nat in B. change (L (l_ignore a)) with (L a). repeat split; try discriminate; lia.
  - rewrite (A eq_refl). repeat split; try discriminate; try reflexivity; lia.
Qed.

(* --- the potential --------------------------------------------------------------------------------------------------------------------- *)
Definition rank (st : lstate) (l : lexer) : nat :=
  match l_rest l with
  | [] => match st with SString _ _ => 1 | _ => 0 end
  | c :: _ =>
      match st with
      | SSegment => if N.eqb c 46 || N.eqb c 91 then 1 else 3
      | Lex.SFilter => 2
      | SBracket => 1
      | SString _ _ => 1
      | _ => 0
      end
  end%nat.
Definition Phi (st : lstate) (l : lexer) : nat := (4 * L l + rank st l)%nat.
Lemma rank_le st l : (rank st l <= 3)%nat.
Proof. unfold rank. destruct (l_rest l), st; try lia. destruct (_ || _); lia. Qed.

Definition dec (st : lstate) (l : lexer) (o : lexout) : Prop :=
  match o with LNext st' l' => (Phi st' l' < Phi st l)%nat | _ => True end.

Ltac lens :=
  repeat match goal with H : l_next _ = (?o, _) |- _ => is_var o; destruct o end;
  repeat match goal with H : l_accept_match _ _ = (?b, _) |- _ => is_var b; destruct b end;
  repeat match goal with H : l_accept _ _ = (?b, _) |- _ => is_var b; destruct b end;
  repeat match goal with
  | H : l_next _ = (Some _, _) |- _ => apply next_some in H; destruct H as [? ?]
  | H : l_next _ = (None, _) |- _ => apply next_none in H; destruct H as [? ?]; subst
  | H : l_backup _ = Some _ |- _ => apply backup_some in H; destruct H as (? & ? & ?)
  | H : l_accept_match _ _ = (true, _) |- _ => apply accept_match_L in H; destruct H as [_ H]; specialize (H eq_refl)
  | H : l_accept_match _ _ = (false, _) |- _ => apply accept_match_L in H; destruct H as [H _]; specialize (H eq_refl); subst
  | H : l_accept _ _ = (true, _) |- _ => apply accept_L in H; destruct H as [_ H]; specialize (H eq_refl)
  | H : l_accept _ _ = (false, _) |- _ => apply accept_L in H; destruct H as [H _]; specialize (H eq_refl); subst
  | H : l_ignore_ws _ = Some (_, _) |- _ => apply ignore_ws_L in H; destruct H as (? & ? & ?)
  end.
Ltac head_splitD :=
  repeat match goal with
  | |- dec _ _ (let '(_, _) := ?X in _) => destruct X as [? ?] eqn:?
  | |- dec _ _ (match ?X with _ => _ end) => first [is_var X; destruct X | destruct X eqn:?]
  | |- dec _ _ (if ?X then _ else _) => destruct X eqn:?
  end.
(* a transition that consumed at least one character: the rank is irrelevant *)
Ltac consumed :=
  unfold Phi; match goal with |- (4 * L ?l' + rank ?st' ?l' < _)%nat => pose proof (rank_le st' l') end;
  repeat match goal with H : context [Z.to_nat (minlen ?r)] |- _ => let v := eval vm_compute in (Z.to_nat (minlen r)) in change (Z.to_nat (minlen r)) with v in H end;
  unfold L, s_true, s_false, s_null in *; cbn [l_rest l_emit l_ignore add_tok upd_text set_stacks push_bracket length] in *;
  repeat match goal with |- context [snd (l_next ?x)] => let H := fresh in pose proof (next_snd_L x) as H; unfold L in H; destruct H as [? ?]; generalize dependent (snd (l_next x)); intros end;
  repeat match goal with H : l_rest _ = _ :: _ |- _ => apply (f_equal (@length N)) in H; cbn [length] in H end;
  repeat match goal with H : l_rest _ = [] |- _ => apply (f_equal (@length N)) in H; cbn [length] in H end;
  lia.

Lemma dec_root l : dec SRoot l (lex_step SRoot l).
Proof. cbn [lex_step]. head_splitD; cbn [dec]; try exact I; lens; try discriminate; try consumed. Qed.
Lemma dec_desc l : dec SDescendant l (lex_step SDescendant l).
Proof. cbn [lex_step]. head_splitD; unfold l_error; cbn [dec]; try exact I; lens; try discriminate; try consumed. Qed.
Lemma dec_short l : dec SShorthand l (lex_step SShorthand l).
Proof. cbn [lex_step]. cbv zeta. head_splitD; unfold l_error; cbn [dec]; try exact I; lens; try discriminate; try consumed. Qed.
Lemma dec_bracket l : dec SBracket l (lex_step SBracket l).
Proof. cbn [lex_step]. head_splitD; unfold l_error; cbn [dec]; try exact I; lens; try discriminate; try consumed. Qed.
Lemma dec_segment l : dec SSegment l (lex_step SSegment l).
Proof.
  cbn [lex_step]. head_splitD; unfold l_error; cbn [dec]; try exact I; lens; try discriminate; try consumed.
  (* back to the filter: no character consumed unless blank space was skipped *)
  match goal with H1 : l_cur ?l1 = ?n :: _, H2 : l_cur ?l1 = ?x :: _ |- _ => rewrite H1 in H2; injection H2 as <- Hc end.
  destruct b.
  - match goal with H : true = true -> _ |- _ => specialize (H eq_refl) end. consumed.
  - match goal with H : false = false -> _ = _ |- _ => specialize (H eq_refl); subst end.
    unfold Phi, rank, L. match goal with H : l_rest ?l2 = _ :: _ |- context [l_rest ?l2] => rewrite !H end.
    match goal with H : l_rest l = _ :: _ |- _ => rewrite !H end. cbn [length].
    match goal with H : (?n =? 46)%N = false |- _ => rewrite H end. match goal with H : (?n =? 91)%N = false |- _ => rewrite H end. cbn [orb]. lia.
Qed.
Lemma dec_filter l : dec Lex.SFilter l (lex_step Lex.SFilter l).
Proof.
  cbn [lex_step]. head_splitD; unfold l_error, emit2; cbn [dec]; try exact I; lens; try discriminate;
    repeat match goal with |- context [if ?b then l_emit _ _ else l_emit _ _] => destruct b end;
    repeat match goal with |- context [match l_fcs ?x with _ => _ end] => destruct (l_fcs x) end;
    try consumed.
  - (* ']' is handed back to the bracket state *)
    cbn [l_cur l_rest set_stacks] in *.
    match goal with H1 : l_cur ?l1 = ?n :: _, H2 : l_cur ?l1 = ?x :: _ |- _ => rewrite H1 in H2; injection H2 as <- Hc end.
    destruct b.
    + match goal with H : true = true -> _ |- _ => specialize (H eq_refl) end. consumed.
    + match goal with H : false = false -> _ = _ |- _ => specialize (H eq_refl); subst end.
      unfold Phi, rank, L. match goal with H : l_rest ?l3 = _ :: _ |- context [l_rest ?l3] => rewrite !H end.
      match goal with H : l_rest l = _ :: _ |- _ => rewrite !H end. cbn [length]. lia.
  - (* '.' is handed back to the segment state *)
    match goal with H1 : l_cur ?l1 = ?n :: _, H2 : l_cur ?l1 = ?x :: _ |- _ => rewrite H1 in H2; injection H2 as <- Hc end.
    destruct b.
    + match goal with H : true = true -> _ |- _ => specialize (H eq_refl) end. consumed.
    + match goal with H : false = false -> _ = _ |- _ => specialize (H eq_refl); subst end.
      unfold Phi, rank, L. match goal with H : l_rest ?l3 = _ :: _ |- context [l_rest ?l3] => rewrite !H end.
      match goal with H : l_rest l = _ :: _ |- _ => rewrite !H end. cbn [length].
      match goal with H : (?n =? 46)%N = true |- _ => rewrite H end. cbn [orb]. lia.
  - (* a function name followed by '(' *)
    match goal with |- (Phi _ (l_ignore (snd (l_next ?e))) < _)%nat => pose proof (proj1 (next_snd_L e)) as Hs; set (fin := snd (l_next e)) in * end.
    change (Z.to_nat (minlen RE_FUNCTION_NAME)) with 1%nat in *.
    unfold Phi. pose proof (rank_le Lex.SFilter (l_ignore fin)). change (L (l_ignore fin)) with (L fin).
    unfold L in *. cbn [l_rest l_emit l_ignore add_tok upd_text set_stacks push_bracket] in Hs.
    repeat match goal with H : l_rest _ = _ :: _ |- _ => apply (f_equal (@length N)) in H; cbn [length] in H end. lia.
Qed.
Lemma dec_string q inf l : dec (SString q inf) l (lex_step (SString q inf) l).
Proof.
  cbn [lex_step]. cbv zeta. unfold l_peek. cbn [l_rest l_ignore upd_text]. destruct (l_rest l) as [|c r] eqn:E; cbn [dec].
  - (* end of the text right after the opening quote *)
    unfold Phi, rank, L. pose proof (proj1 (next_snd_L (l_emit (if N.eqb q 39 then T_SQ_STRING else T_DQ_STRING) (l_ignore l)))) as H. unfold L in H.
    cbn [l_rest l_emit l_ignore add_tok upd_text] in *. rewrite E in *. cbn [length] in *.
    destruct (l_rest (snd (l_next _))) eqn:E2; [|cbn [length] in H; lia]. cbn [length]. destruct inf; lia.
  - unfold Phi, rank, L. cbn [l_rest l_ignore upd_text]. rewrite E. lia.
Qed.
Lemma dec_body q inf l : dec (SStringBody q inf) l (lex_step (SStringBody q inf) l).
Proof.
  cbn [lex_step]. head_splitD; unfold l_error; cbn [dec]; try exact I; lens; try discriminate; try consumed.
  (* the closing quote: handed back, the token emitted, then consumed *)
  match goal with |- (Phi ?st (l_ignore (snd (l_next ?e))) < _)%nat =>
    pose proof (proj2 (next_snd_L e)) as Hs; set (fin := snd (l_next e)) in *; pose proof (rank_le st (l_ignore fin)) end.
  unfold Phi. change (L (l_ignore fin)) with (L fin). unfold L in *. cbn [l_rest l_emit l_ignore add_tok upd_text] in Hs.
  match goal with H : l_rest l1 = _ :: _ |- _ => rewrite H in Hs end. specialize (Hs ltac:(discriminate)). cbn [length] in Hs.
  match goal with H : l_rest l = _ :: _ |- _ => rewrite H end. cbn [length]. lia.
Qed.

Theorem lex_step_dec st l : dec st l (lex_step st l).
Proof.
  destruct st; [apply dec_root | apply dec_segment | apply dec_desc | apply dec_short | apply dec_bracket | apply dec_filter | apply dec_string | apply dec_body].
Qed.

(* the run loop: with more fuel than potential it never runs out *)
Theorem lex_run_terminates : forall fuel st l, (Phi st l < fuel)%nat -> lex_run fuel st l <> OutOfFuel.
Proof.
  induction fuel as [|f IH]; intros st l H; [lia|]. cbn [lex_run]. pose proof (lex_step_dec st l) as D.
  destruct (lex_step st l); cbn [dec] in D; try discriminate. apply IH. lia.
Qed.
Theorem tokenize_terminates q : m_tokenize q <> OutOfFuel.
Proof.
  unfold m_tokenize. assert (H : lex_run (lex_fuel q) SRoot (lexer_init q) <> OutOfFuel).
  { apply lex_run_terminates. unfold Phi, L, lex_fuel, lexer_init. cbn [l_rest]. pose proof (rank_le SRoot (lexer_init q)). unfold lexer_init in H. lia. }
  destruct (lex_run (lex_fuel q) SRoot (lexer_init q)) as [l| | |]; cbn [bind]; try discriminate; [|congruence].
  destruct (l_toks l) as [|t ts]; [destruct (l_bs l) as [|[c i] r]; discriminate|].
  destruct (ttype_eqb (ty t) T_ERROR); [discriminate|]. destruct (l_bs l) as [|[c i] r]; discriminate.
Qed.

