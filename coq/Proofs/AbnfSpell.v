(* From derivations of the RFC 9535 ABNF to spellings (Proofs/LexSpell.v / TextSound.v RunT) of derivations of the typed token grammar QT:
   queries without filter selectors.  With Proofs/LexComplete.v this gives: every string of the ABNF that contains no "?" compiles, in every
   environment whose integer range is wide enough for the integers it mentions. *)
From JP Require Import Base.Prelude Base.Json Model.Regex Model.Tokens Model.Lex Model.Ast Model.PyFloat Model.Parse Model.Api Spec.Abnf Spec.Rfc9535Grammar Spec.StringLit Spec.Types
  Proofs.StringProofs Proofs.LexString Proofs.LexNoCrash Proofs.LexInv Proofs.Requery Proofs.Reparse Proofs.ReparseF Proofs.ParseComplete Proofs.LexSpell Proofs.AbnfDerive Proofs.TextSound
  Proofs.EvalProofs Proofs.LexComplete Proofs.LexCompleteF Proofs.AbnfInvert.
From Coq Require Import ZifyBool ZifyN.

Definition aB : ast := amode_set a0 MBrk.
Definition aD : ast := amode_set a0 MDesc.

Lemma RunT_join a t1 z1 a1 t2 z2 a2 : RunT a t1 z1 a1 -> RunT a1 t2 z2 a2 -> RunT a (t1 ++ t2) (z1 ++ z2) a2.
Proof.
  intros H1 H2. induction H1 as [a | a t k a1 b ts z a3 Hs Hb Hn Ht HR IH]; [exact H2|].
  cbn [app]. replace ((b ++ pre k (ty t) ++ tval t ++ post (ty t) ++ z) ++ z2) with (b ++ pre k (ty t) ++ tval t ++ post (ty t) ++ (z ++ z2)) by (rewrite <- !app_assoc; reflexivity).
  econstructor; try eassumption. apply IH. exact H2.
Qed.

(* no "?" anywhere *)
Definition nq (s : list N) : Prop := ~ In 63%N s.
Lemma nq_app a b : nq (a ++ b) -> nq a /\ nq b.
Proof. unfold nq. intros H. split; intros X; apply H; apply in_or_app; [left | right]; exact X. Qed.

(* environments whose integer range contains [-B, B] *)
Definition wide (cfg : envcfg) (B : Z) : Prop := min_idx cfg <= - B /\ B <= max_idx cfg.
Lemma wide_le cfg B B' : B' <= B -> wide cfg B -> wide cfg B'.
Proof. unfold wide. lia. Qed.
Lemma wide_in cfg B i : wide cfg B -> Z.abs i <= B -> in_range cfg i = true.
Proof. unfold wide, in_range. lia. Qed.

(* ---- inside brackets: continuation that accepts any blanks first ---- *)
Definition BK (t' : list token) (z' : list N) (a' : ast) : Prop := forall b, blanks b -> RunT aB t' (b ++ z') a'.
Lemma blanks_app b1 b2 : blanks b1 -> blanks b2 -> blanks (b1 ++ b2).
Proof. unfold blanks. intros H1 H2. rewrite forallb_app, H1, H2. reflexivity. Qed.
Lemma bk_blank S t' z' a' : blanks S -> BK t' z' a' -> BK t' (S ++ z') a'.
Proof. intros HS H b Hb. rewrite app_assoc. apply H. apply blanks_app; assumption. Qed.
Definition brk_ty (T : ttype) : Prop := T = T_WILD \/ T = T_COMMA \/ T = T_COLON \/ T = T_INDEX \/ T = T_SQ_STRING \/ T = T_DQ_STRING.
Lemma bk_tok T v i t' z' a' : brk_ty T -> tshape T v -> BK t' z' a' -> BK (tk T v i :: t') (pre GBl T ++ v ++ post T ++ z') a'.
Proof.
  intros HT Hv H b Hb. apply (RT_cons aB (tk T v i) GBl aB b t' ([] ++ z') a'); [| exact Hb | discriminate | exact Hv | apply H; reflexivity].
  cbn [ty tk]. destruct HT as [-> | [-> | [-> | [-> | [-> | ->]]]]]; reflexivity.
Qed.

Lemma pm_index ds i : int_text_ok ds i -> pmatch RE_INDEX ds.
Proof.
  intros (_ & _ & (sign & body & -> & Hs & Hb & Hd) & _). exists []. apply index_match_signed; try assumption. exact I.
Qed.
Lemma pm_name nm : name_shape nm -> pmatch RE_PROPERTY nm.
Proof. intros H. exists []. apply name_match; [exact H | exact I]. Qed.

Section Sel.
  (* an integer of the ABNF as an INDEX token *)
  Lemma bk_int s : D (R r_int) s -> exists i, int_text_ok s i /\ forall j t' z' a', BK t' z' a' -> BK (tk T_INDEX s j :: t') (s ++ z') a'.
  Proof.
    intros H. pose proof (abnf_int s H) as Hi. exists (int_of_index s). split; [exact Hi|]. intros j t' z' a' HK.
    apply (bk_tok T_INDEX s j t' z' a' ltac:(unfold brk_ty; tauto) (pm_index _ _ Hi) HK).
  Qed.

  (* [int S] in front of a continuation *)
  Lemma bk_opt_int_S s : D (GOpt (GSeq (R r_int) S_)) s ->
    exists (o : option Z) B, 0 <= B /\ (forall cfg, wide cfg B -> exists t, OptI cfg o t /\ forall t' z' a', BK t' z' a' -> BK (t ++ t') (s ++ z') a').
  Proof.
    intros H. apply i_opt in H as [H | ->].
    - apply i_seq in H as (ds & S & -> & Hd & HS). apply i_S in HS. destruct (bk_int ds Hd) as (i & Hi & HK).
      exists (Some i), (Z.abs i). split; [lia|]. intros cfg Hw. exists [tk T_INDEX ds 0]. split.
      + cbn [OptI]. exists ds, 0. split; [reflexivity|]. split; [exact Hi | apply (wide_in cfg (Z.abs i)); [exact Hw | lia]].
      + intros t' z' a' K. cbn [app]. rewrite <- app_assoc. apply HK. apply bk_blank; assumption.
    - exists None, 0. split; [lia|]. intros cfg _. exists []. split; [reflexivity|]. intros t' z' a' K. exact K.
  Qed.
  (* [S int] *)
  Lemma bk_opt_S_int s : D (GOpt (GSeq S_ (R r_int))) s ->
    exists (o : option Z) B, 0 <= B /\ (forall cfg, wide cfg B -> exists t, OptI cfg o t /\ forall t' z' a', BK t' z' a' -> BK (t ++ t') (s ++ z') a').
  Proof.
    intros H. apply i_opt in H as [H | ->].
    - apply i_seq in H as (S & ds & -> & HS & Hd). apply i_S in HS. destruct (bk_int ds Hd) as (i & Hi & HK).
      exists (Some i), (Z.abs i). split; [lia|]. intros cfg Hw. exists [tk T_INDEX ds 0]. split.
      + cbn [OptI]. exists ds, 0. split; [reflexivity|]. split; [exact Hi | apply (wide_in cfg (Z.abs i)); [exact Hw | lia]].
      + intros t' z' a' K. cbn [app]. rewrite <- app_assoc. apply bk_blank; [exact HS|]. apply HK. exact K.
    - exists None, 0. split; [lia|]. intros cfg _. exists []. split; [reflexivity|]. intros t' z' a' K. exact K.
  Qed.

  Lemma bk_colon i t' z' a' : BK t' z' a' -> BK (tk T_COLON [58%N] i :: t') ([58%N] ++ z') a'.
  Proof. intros K. apply (bk_tok T_COLON [58%N] i t' z' a' ltac:(unfold brk_ty; tauto) eq_refl K). Qed.

  (* slice-selector = [start S] ":" S [end S] [":" [S step ]] *)
  Lemma bk_slice s : D (R r_slice_selector) s ->
    exists a b c B, 0 <= B /\ forall cfg, wide cfg B -> exists t, t <> [] /\ SelT cfg (SSlice a b c) t /\ forall t' z' a', BK t' z' a' -> BK (t ++ t') (s ++ z') a'.
  Proof.
    intros H. apply i_ref in H. cbn [rule_body GSeqs] in H.
    apply i_seq in H as (s1 & r & -> & H1 & H). apply i_seq in H as (c1 & r1 & -> & Hc & H). apply i_seq in H as (S2 & r2 & -> & HS2 & H). apply i_seq in H as (s3 & s4 & -> & H3 & H4).
    apply i_C in Hc. subst c1. apply i_S in HS2.
    destruct (bk_opt_int_S s1 H1) as (a & Ba & Ba0 & Ka). destruct (bk_opt_int_S s3 H3) as (b & Bb & Bb0 & Kb).
    assert (Hstep : exists c Bc, 0 <= Bc /\ forall cfg, wide cfg Bc -> exists tc, StepT cfg c tc /\ forall t' z' a', BK t' z' a' -> BK (tc ++ t') (s4 ++ z') a').
    { apply i_opt in H4 as [H4 | ->].
      - apply i_seq in H4 as (c2 & s5 & -> & Hc2 & H5). apply i_C in Hc2. subst c2. destruct (bk_opt_S_int s5 H5) as (c & Bc & Bc0 & Kc).
        exists c, Bc. split; [exact Bc0|]. intros cfg Hw. destruct (Kc cfg Hw) as (tc & Hoc & Kc'). exists (tk T_COLON [58%N] 0 :: tc). split.
        + right. exists [58%N], 0, tc. split; [reflexivity | exact Hoc].
        + intros t' z' a' K. cbn [app]. apply (bk_colon 0 (tc ++ t') (s5 ++ z') a'). apply Kc'. exact K.
      - exists None, 0. split; [lia|]. intros cfg _. exists []. split; [left; split; reflexivity|]. intros t' z' a' K. exact K. }
    destruct Hstep as (c & Bc & Bc0 & Kc).
    exists a, b, c, (Z.max Ba (Z.max Bb Bc)). split; [apply Z.le_trans with Ba; [exact Ba0 | apply Z.le_max_l]|]. intros cfg Hw.
    destruct (Ka cfg (wide_le cfg _ Ba (Z.le_max_l _ _) Hw)) as (ta & Hoa & Ka'). destruct (Kb cfg (wide_le cfg _ Bb (Z.le_trans _ _ _ (Z.le_max_l Bb Bc) (Z.le_max_r Ba _)) Hw)) as (tb & Hob & Kb').
    destruct (Kc cfg (wide_le cfg _ Bc (Z.le_trans _ _ _ (Z.le_max_r Bb Bc) (Z.le_max_r Ba _)) Hw)) as (tc & Hoc & Kc').
    exists (ta ++ tk T_COLON [58%N] 0 :: tb ++ tc). split; [destruct ta; discriminate|]. split; [apply st_slice; assumption|].
    intros t' z' a' K. rewrite <- !app_assoc. cbn [app]. rewrite <- !app_assoc. apply Ka'. apply bk_colon. apply bk_blank; [exact HS2|]. apply Kb'. apply Kc'. exact K.
  Qed.
End Sel.

Section Selector.

  Lemma bk_string s : D (R r_string_literal) s ->
    exists k, forall cfg, exists t, SelT cfg (SName k) [t] /\ forall t' z' a', BK t' z' a' -> BK (t :: t') (s ++ z') a'.
  Proof.
    intros H. apply abnf_string in H as (q & body & k & -> & Hq & Hd). exists k. intros cfg.
    assert (Hq' : q = 39%N \/ q = 34%N) by (destruct Hq; tauto).
    destruct (spec_lex_ok q Hq' (length body) body k (le_n _) Hd) as [Hlok Hsc].
    destruct Hq as [-> | ->].
    - exists (tk T_SQ_STRING body 0). split.
      + apply st_name; [left; reflexivity|]. unfold tk. rewrite (decode_sq body 0 Hlok Hsc), Hd. reflexivity.
      + intros t' z' a' K. replace ((39%N :: body ++ [39%N]) ++ z') with (pre GBl T_SQ_STRING ++ body ++ post T_SQ_STRING ++ z') by (cbn [pre post app]; rewrite <- app_assoc; reflexivity).
        apply bk_tok; [unfold brk_ty; tauto | exact Hlok | exact K].
    - exists (tk T_DQ_STRING body 0). split.
      + apply st_name; [right; reflexivity|]. unfold tk. rewrite (decode_dq body 0 Hlok Hsc), Hd. reflexivity.
      + intros t' z' a' K. replace ((34%N :: body ++ [34%N]) ++ z') with (pre GBl T_DQ_STRING ++ body ++ post T_DQ_STRING ++ z') by (cbn [pre post app]; rewrite <- app_assoc; reflexivity).
        apply bk_tok; [unfold brk_ty; tauto | exact Hlok | exact K].
  Qed.

  Lemma filter_has_q s : D (R r_filter_selector) s -> In 63%N s.
  Proof. intros H. apply i_ref in H. cbn [rule_body GSeqs] in H. apply i_seq in H as (a & r & -> & Ha & _). apply i_C in Ha. subst a. left. reflexivity. Qed.

  Lemma bk_selector s : D (R r_selector) s -> nq s ->
    exists sel B, 0 <= B /\ ff_sel sel = true /\ forall cfg, wide cfg B -> exists t, t <> [] /\ SelT cfg sel t /\ forall t' z' a', BK t' z' a' -> BK (t ++ t') (s ++ z') a'.
  Proof.
    intros H Hn. apply i_ref in H. cbn [rule_body GAlts] in H.
    apply i_alt in H as [H | H].
    { destruct (bk_string s H) as (k & Hk). exists (SName k), 0. split; [lia|]. split; [reflexivity|]. intros cfg _. destruct (Hk cfg) as (t & HS & K). exists [t]. split; [discriminate|]. split; [exact HS | exact K]. }
    apply i_alt in H as [H | H].
    { apply i_C in H. subst s. exists SWild, 0. split; [lia|]. split; [reflexivity|]. intros cfg _. exists [tk T_WILD [42%N] 0]. split; [discriminate|]. split; [apply st_wild|].
      intros t' z' a' K. apply (bk_tok T_WILD [42%N] 0 t' z' a' ltac:(unfold brk_ty; tauto) eq_refl K). }
    apply i_alt in H as [H | H].
    { destruct (bk_slice s H) as (a & b & c & B & B0 & K). exists (SSlice a b c), B. split; [exact B0|]. split; [reflexivity | exact K]. }
    apply i_alt in H as [H | H].
    { destruct (bk_int s H) as (i & Hi & K). exists (SIndex i), (Z.abs i). split; [lia|]. split; [reflexivity|]. intros cfg Hw. exists [tk T_INDEX s 0]. split; [discriminate|].
      split; [apply st_index; [exact Hi | apply (wide_in cfg (Z.abs i)); [exact Hw | lia]] | apply K]. }
    exfalso. apply Hn. apply filter_has_q. exact H.
  Qed.
End Selector.

Definition CPS (t : list token) (s : list N) : Prop := forall t' z' a', BK t' z' a' -> BK (t ++ t') (s ++ z') a'.

(* *(S "," S selector) *)
Lemma bk_more s : D (GStar (GSeqs [S_; C 44; S_; R r_selector])) s -> nq s ->
  exists rest B, 0 <= B /\ forallb ff_sel rest = true /\ forall cfg, wide cfg B ->
    exists tr, (forall s0 t0, SelT cfg s0 t0 -> SelsT cfg (s0 :: rest) (t0 ++ tr)) /\ CPS tr s.
Proof.
  intros H. remember (GStar (GSeqs [S_; C 44; S_; R r_selector])) as g eqn:Eg. induction H; try discriminate Eg; intros Hn.
  - exists [], 0. split; [lia|]. split; [reflexivity|]. intros cfg _. exists []. split; [intros s0 t0 H0; rewrite app_nil_r; apply ss_one; exact H0 | intros t' z' a' K; exact K].
  - inversion Eg; subst a. clear IHderives1. apply nq_app in Hn as [Hn1 Hn2]. destruct (IHderives2 eq_refl Hn2) as (rest & B2 & B20 & Hff & K2).
    cbn [GSeqs] in H0. apply i_seq in H0 as (S1 & r & -> & HS1 & H0). apply i_seq in H0 as (c & r1 & -> & Hc & H0). apply i_seq in H0 as (S2 & st & -> & HS2 & Hsel).
    apply i_C in Hc. subst c. apply i_S in HS1. apply i_S in HS2.
    apply nq_app in Hn1 as [_ Hn1]. apply nq_app in Hn1 as [_ Hn1]. apply nq_app in Hn1 as [_ Hn1].
    destruct (bk_selector st Hsel Hn1) as (sel & B1 & B10 & Hf1 & K1).
    exists (sel :: rest), (Z.max B1 B2). split; [apply Z.le_trans with B1; [exact B10 | apply Z.le_max_l]|]. split; [cbn [forallb]; rewrite Hf1, Hff; reflexivity|].
    intros cfg Hw. destruct (K1 cfg (wide_le cfg _ B1 (Z.le_max_l _ _) Hw)) as (t1 & _ & HS1' & C1). destruct (K2 cfg (wide_le cfg _ B2 (Z.le_max_r _ _) Hw)) as (tr & HS2' & C2).
    exists (tk T_COMMA [44%N] 0 :: t1 ++ tr). split.
    + intros s0 t0 H00. apply ss_cons; [exact H00 | apply HS2'; exact HS1'].
    + intros t' z' a' K. rewrite <- !app_assoc. cbn [app]. rewrite <- !app_assoc. apply bk_blank; [exact HS1|].
      apply (bk_tok T_COMMA [44%N] 0 _ _ a' ltac:(unfold brk_ty; tauto) eq_refl). apply bk_blank; [exact HS2|]. apply C1. apply C2. exact K.
Qed.

Lemma bk_close : BK [tk T_RBRACKET [93%N] 0] [93%N] a0.
Proof. intros b Hb. apply (RT_cons aB (tk T_RBRACKET [93%N] 0) GBl a0 b [] [] a0); [reflexivity | exact Hb | discriminate | reflexivity | constructor]. Qed.

(* bracketed-selection = "[" S selector *(S "," S selector) S "]" : after the "[" *)
Lemma brk_inner s : D (R r_bracketed_selection) s -> nq s ->
  exists ss B inner, s = 91%N :: inner /\ 0 <= B /\ forallb ff_sel ss = true /\ forall cfg, wide cfg B ->
    exists t, SelsT cfg ss t /\ RunT aB (t ++ [tk T_RBRACKET [93%N] 0]) inner a0.
Proof.
  intros H Hn. apply i_ref in H. cbn [rule_body GSeqs] in H.
  apply i_seq in H as (lb & r & -> & Hlb & H). apply i_seq in H as (S1 & r1 & -> & HS1 & H). apply i_seq in H as (st & r2 & -> & Hsel & H).
  apply i_seq in H as (more & r3 & -> & Hmore & H). apply i_seq in H as (S2 & rb & -> & HS2 & Hrb).
  apply i_C in Hlb. apply i_C in Hrb. subst lb rb. apply i_S in HS1. apply i_S in HS2.
  apply nq_app in Hn as [_ Hn]. apply nq_app in Hn as [_ Hn]. apply nq_app in Hn as [Hn1 Hn]. apply nq_app in Hn as [Hn2 _].
  destruct (bk_selector st Hsel Hn1) as (sel & B1 & B10 & Hf1 & K1). destruct (bk_more more Hmore Hn2) as (rest & B2 & B20 & Hf2 & K2).
  exists (sel :: rest), (Z.max B1 B2), (S1 ++ st ++ more ++ S2 ++ [93%N]). split; [reflexivity|]. split; [apply Z.le_trans with B1; [exact B10 | apply Z.le_max_l]|].
  split; [cbn [forallb]; rewrite Hf1, Hf2; reflexivity|]. intros cfg Hw.
  destruct (K1 cfg (wide_le cfg _ B1 (Z.le_max_l _ _) Hw)) as (t1 & _ & HS & C1). destruct (K2 cfg (wide_le cfg _ B2 (Z.le_max_r _ _) Hw)) as (tr & HSS & C2).
  exists (t1 ++ tr). split; [apply HSS; exact HS|].
  assert (K : BK ((t1 ++ tr) ++ [tk T_RBRACKET [93%N] 0]) (S1 ++ st ++ more ++ S2 ++ [93%N]) a0).
  { rewrite <- app_assoc. apply bk_blank; [exact HS1|]. apply C1. apply C2. apply bk_blank; [exact HS2|]. exact bk_close. }
  exact (K [] eq_refl).
Qed.

(* ---- segments ---- *)
Definition SegRun (s : list N) : Prop :=
  exists g B, 0 <= B /\ ff_seg g = true /\ forall cfg, wide cfg B -> exists t, SegT cfg g t /\ forall b, blanks b -> RunT a0 t (b ++ s) a0.

Lemma seg_child s : D (R r_child_segment) s -> nq s -> SegRun s.
Proof.
  intros H Hn. apply i_ref in H. cbn [rule_body] in H. apply i_alt in H as [H | H].
  - destruct (brk_inner s H Hn) as (ss & B & inner & -> & B0 & Hff & K). exists (Child ss), B. split; [exact B0|]. split; [exact Hff|]. intros cfg Hw.
    destruct (K cfg Hw) as (t & HS & HR). exists (tk T_LBRACKET [91%N] 0 :: t ++ [tk T_RBRACKET [93%N] 0]). split; [apply sg_br; exact HS|].
    intros b Hb. apply (RT_cons a0 (tk T_LBRACKET [91%N] 0) GBl aB b _ inner a0); [reflexivity | exact Hb | discriminate | reflexivity | exact HR].
  - apply i_seq in H as (dot & r & -> & Hd & H). apply i_C in Hd. subst dot. apply i_alt in H as [H | H].
    + apply i_C in H. subst r. exists (Child [SWild]), 0. split; [lia|]. split; [reflexivity|]. intros cfg _. exists [tk T_WILD [42%N] 0]. split; [apply sg_wild|].
      intros b Hb. apply (RT_cons a0 (tk T_WILD [42%N] 0) GDot a0 b [] [] a0); [reflexivity | exact Hb | discriminate | reflexivity | constructor].
    + pose proof (abnf_name r H) as Hnm. exists (Child [SName r]), 0. split; [lia|]. split; [reflexivity|]. intros cfg _. exists [tk T_PROPERTY r 0]. split; [apply sg_prop|].
      intros b Hb. replace (b ++ [46%N] ++ r) with (b ++ pre GDot T_PROPERTY ++ r ++ post T_PROPERTY ++ []) by (cbn [pre post app]; rewrite app_nil_r; reflexivity).
      apply (RT_cons a0 (tk T_PROPERTY r 0) GDot a0 b [] [] a0); [reflexivity | exact Hb | discriminate | apply pm_name; exact Hnm | constructor].
Qed.

Lemma seg_desc s : D (R r_descendant_segment) s -> nq s -> SegRun s.
Proof.
  intros H Hn. apply i_ref in H. cbn [rule_body GSeqs GAlts] in H. apply i_seq in H as (d1 & r & -> & Hd1 & H). apply i_seq in H as (d2 & r2 & -> & Hd2 & H).
  apply i_C in Hd1. apply i_C in Hd2. subst d1 d2. apply nq_app in Hn as [_ Hn]. apply nq_app in Hn as [_ Hn].
  assert (DD : forall b rest t a', blanks b -> RunT aD t rest a' -> RunT a0 (tk T_DOUBLE_DOT [46; 46]%N 0 :: t) (b ++ [46%N] ++ [46%N] ++ rest) a').
  { intros b rest t a' Hb HR. apply (RT_cons a0 (tk T_DOUBLE_DOT [46; 46]%N 0) GBl aD b t rest a'); [reflexivity | exact Hb | discriminate | reflexivity | exact HR]. }
  apply i_alt in H as [H | H].
  - destruct (brk_inner r2 H Hn) as (ss & B & inner & -> & B0 & Hff & K). exists (Desc ss), B. split; [exact B0|]. split; [exact Hff|]. intros cfg Hw.
    destruct (K cfg Hw) as (t & HS & HR). exists (tk T_DOUBLE_DOT [46; 46]%N 0 :: tk T_LBRACKET [91%N] 0 :: t ++ [tk T_RBRACKET [93%N] 0]). split; [apply sg_dbr; exact HS|].
    intros b Hb. apply DD; [exact Hb|]. apply (RT_cons aD (tk T_LBRACKET [91%N] 0) GNone aB [] _ inner a0); [reflexivity | reflexivity | reflexivity | reflexivity | exact HR].
  - apply i_alt in H as [H | H].
    + apply i_C in H. subst r2. exists (Desc [SWild]), 0. split; [lia|]. split; [reflexivity|]. intros cfg _. exists [tk T_DOUBLE_DOT [46; 46]%N 0; tk T_WILD [42%N] 0]. split; [apply sg_dwild|].
      intros b Hb. apply DD; [exact Hb|]. apply (RT_cons aD (tk T_WILD [42%N] 0) GNone a0 [] [] [] a0); [reflexivity | reflexivity | reflexivity | reflexivity | constructor].
    + pose proof (abnf_name r2 H) as Hnm. exists (Desc [SName r2]), 0. split; [lia|]. split; [reflexivity|]. intros cfg _. exists [tk T_DOUBLE_DOT [46; 46]%N 0; tk T_PROPERTY r2 0]. split; [apply sg_dprop|].
      intros b Hb. apply DD; [exact Hb|]. replace r2 with ([] ++ pre GNone T_PROPERTY ++ r2 ++ post T_PROPERTY ++ []) at 2 by (cbn [pre post app]; rewrite app_nil_r; reflexivity).
      apply (RT_cons aD (tk T_PROPERTY r2 0) GNone a0 [] [] [] a0); [reflexivity | reflexivity | reflexivity | apply pm_name; exact Hnm | constructor].
Qed.

Lemma seg_any s : D (R r_segment) s -> nq s -> SegRun s.
Proof. intros H Hn. apply i_ref in H. cbn [rule_body] in H. apply i_alt in H as [H | H]; [apply seg_child | apply seg_desc]; assumption. Qed.

(* segments = *(S segment) *)
Lemma segs_run z : D (R r_segments) z -> nq z ->
  exists q B, 0 <= B /\ filter_free q = true /\ forall cfg, wide cfg B -> exists t, QT cfg q t /\ RunT a0 t z a0.
Proof.
  intros H. apply i_ref in H. cbn [rule_body] in H. remember (GStar (GSeq S_ (R r_segment))) as g eqn:Eg. induction H; try discriminate Eg; intros Hn.
  - exists [], 0. split; [lia|]. split; [reflexivity|]. intros cfg _. exists []. split; constructor.
  - inversion Eg; subst a. clear IHderives1. apply nq_app in Hn as [Hn1 Hn2]. destruct (IHderives2 eq_refl Hn2) as (q & B2 & B20 & Hff & K2).
    apply i_seq in H0 as (S1 & st & -> & HS & Hseg). apply i_S in HS. apply nq_app in Hn1 as [_ Hn1]. destruct (seg_any st Hseg Hn1) as (g & B1 & B10 & Hf1 & K1).
    exists (g :: q), (Z.max B1 B2). split; [apply Z.le_trans with B1; [exact B10 | apply Z.le_max_l]|]. split; [unfold filter_free in *; cbn [forallb]; rewrite Hf1, Hff; reflexivity|].
    intros cfg Hw. destruct (K1 cfg (wide_le cfg _ B1 (Z.le_max_l _ _) Hw)) as (t1 & HS1 & R1). destruct (K2 cfg (wide_le cfg _ B2 (Z.le_max_r _ _) Hw)) as (t2 & HQ2 & R2).
    exists (t1 ++ t2). split; [apply qt_cons; assumption|]. apply RunT_join with (a1 := a0); [apply R1; exact HS | exact R2].
Qed.

(* ---- every string of the grammar consists of Unicode scalar values ---- *)
Fixpoint okexp (e : gexp) : bool :=
  match e with
  | GEps => true
  | GRange lo hi => ((hi <? 55296) || (57343 <? lo))%N && (hi <=? 1114111)%N
  | GSeq a b | GAlt a b => okexp a && okexp b
  | GStar a => okexp a
  | GRef _ => true
  end.
Lemma rules_ok : forallb (fun r => okexp (rule_body r)) all_rules = true.
Proof. vm_compute. reflexivity. Qed.
Lemma grammar_ok n : okexp (rfc_grammar n) = true.
Proof.
  unfold rfc_grammar. destruct (nth_error all_rules n) as [r|] eqn:E; [|reflexivity].
  pose proof rules_ok as H. rewrite forallb_forall in H. apply H. eapply nth_error_In. exact E.
Qed.
Lemma d_scalar e s : D e s -> okexp e = true -> sc s.
Proof.
  unfold sc. intros H. induction H; cbn [okexp]; intros Hok; try reflexivity.
  - cbn [forallb]. unfold is_scalar. lia.
  - apply andb_true_iff in Hok as [A B]. rewrite forallb_app, IHderives1, IHderives2 by assumption. reflexivity.
  - apply andb_true_iff in Hok as [A _]. apply IHderives. exact A.
  - apply andb_true_iff in Hok as [_ B]. apply IHderives. exact B.
  - rewrite forallb_app, IHderives1, IHderives2 by assumption. reflexivity.
  - apply IHderives. apply grammar_ok.
Qed.

(* ---- the theorem: every string of the ABNF without "?" compiles, whatever optional lexical form it uses ---- *)
Theorem abnf_no_filter_compiles s : rfc_query s -> nq s ->
  exists q B, filter_free q = true /\ forall cfg, wide cfg B -> m_compile cfg s = Ok q.
Proof.
  intros H Hn. pose proof (d_scalar _ _ H eq_refl) as Hsc. unfold rfc_query in H. apply i_ref in H. cbn [rule_body] in H. apply i_seq in H as (d & z & -> & Hd & Hz). apply i_C in Hd. subst d.
  apply nq_app in Hn as [_ Hn]. destruct (segs_run z Hz Hn) as (q & B & _ & Hff & K). exists q, B. split; [exact Hff|]. intros cfg Hw. destruct (K cfg Hw) as (t & HQ & HR).
  cbn [app]. apply (spelled_compiles_ff cfg q t z a0 HQ Hff); [|exact HR]. unfold sc in *. cbn [app forallb] in Hsc. apply andb_true_iff in Hsc as [_ Hsc]. exact Hsc.
Qed.
Print Assumptions abnf_no_filter_compiles.
