(* C19: whenever compile() raises a JSONPathError, the error carries an offset inside the query text. *)
From JP Require Import Base.Json Model.Tokens Model.Lex Model.Parse Model.Api Proofs.LexInv Proofs.ParseInv.

Theorem compile_offset_in_text cfg text c o : m_compile cfg text = Err c o -> exists i, o = Some i /\ 0 <= i <= zlen text.
Proof.
  unfold m_compile. pose proof (tokenize_offsets text) as Ht. pose proof (tokenize_ends_with_eof text) as He.
  destruct (m_tokenize text) as [toks|c1 [off|]| |]; cbn [bind]; try discriminate.
  - destruct (He toks eq_refl) as [Hne Hl].
    destruct (p_parse cfg toks) as [q s|c2 off|x s|] eqn:Ep; try discriminate.
    intros E. injection E as _ <-. destruct (parse_offsets cfg toks c2 off Hne Hl Ep) as (t & Hin & ->).
    exists (tidx t). split; [reflexivity|]. apply tok_ok_off. rewrite Forall_forall in Ht. apply Ht. exact Hin.
  - intros E. injection E as _ <-. exists off. split; [reflexivity | exact Ht].
  - destruct Ht.
Qed.

(* every token handed to the parser is the slice of the text found at its index *)
Theorem tokens_are_slices text toks : m_tokenize text = Ok toks ->
  Forall (fun t => exists a b, text = a ++ tval t ++ b /\ zlen a = tidx t) toks.
Proof. intros E. pose proof (tokenize_offsets text) as H. rewrite E in H. exact H. Qed.
