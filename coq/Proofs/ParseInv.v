(* C19, parser half: every JSONPathError the parser raises carries the index of a token of the token list it was
   given; the synthetic EOF token of TokenStream.close() (index -1) never becomes current.  This needs the
   invariants of the push-back stream: at most one pushed token between parser steps, none when a token is pushed
   back, and the list always ends with the lexer's EOF token. *)
From JP Require Import Base.Json Model.Tokens Model.Ast Model.Parse.

Section ParseInv.
Variable cfg : envcfg.
Variable toks : list token.
Notation rg := (reg cfg).

Definition view (s : stream) : list token := cur s :: pushed s ++ rest s.
Definition OffOk (off : Z) : Prop := exists t, In t toks /\ off = tidx t.
Record SInv (s : stream) : Prop := {
  si_in : Forall (fun t => In t toks) (view s);
  si_pushed : (length (pushed s) <= 1)%nat;
  si_last : ty (last (view s) eof_token) = T_EOF
}.
Definition SInv0 (s : stream) : Prop := SInv s /\ pushed s = [].

Lemma teq_eof t : ttype_eqb (ty t) T_EOF = true -> ty t = T_EOF.
Proof. unfold ttype_eqb. destruct (ty t); cbn; intros H; try discriminate; reflexivity. Qed.
Lemma teq_not_eof t : ttype_eqb (ty t) T_EOF = false -> ty t <> T_EOF.
Proof. intros H E. rewrite E in H. discriminate. Qed.

Lemma last_cons2 {A} (x y : A) l d : last (x :: y :: l) d = last (y :: l) d.
Proof. reflexivity. Qed.

Lemma sinv0_next s : SInv s -> SInv0 (snd (s_next s)).
Proof.
  intros [Hin Hp Hl]. unfold s_next, view in *. destruct (pushed s) as [|p ps] eqn:Ep.
  - destruct (ttype_eqb (ty (cur s)) T_EOF) eqn:Ee.
    + cbn [snd]. split; [split; unfold view; rewrite ?Ep; assumption | exact Ep].
    + destruct (rest s) as [|t r] eqn:Er.
      * exfalso. cbn in Hl. apply teq_not_eof in Ee. contradiction.
      * cbn [snd]. split; [|reflexivity]. split; unfold view; cbn [cur pushed rest app length].
        -- inversion Hin; assumption.
        -- lia.
        -- cbn [app] in Hl. rewrite last_cons2 in Hl. exact Hl.
  - cbn [snd]. destruct ps as [|p2 ps]; [|cbn [length] in Hp; lia].
    split; [|reflexivity]. split; unfold view; cbn [cur pushed rest app length].
    + inversion Hin; assumption.
    + lia.
    + cbn [app] in Hl. rewrite last_cons2 in Hl. exact Hl.
Qed.
Lemma sinv0_adv s : SInv s -> SInv0 (adv s).
Proof. apply sinv0_next. Qed.
Lemma sinv_adv s : SInv s -> SInv (adv s).
Proof. intros H. apply sinv0_adv in H. exact (proj1 H). Qed.
Lemma sinv0_sinv s : SInv0 s -> SInv s. Proof. intros [H _]; exact H. Qed.

Lemma off_cur s : SInv s -> OffOk (tidx (cur s)).
Proof. intros [Hin _ _]. unfold view in Hin. inversion Hin; subst. eexists; split; [eassumption | reflexivity]. Qed.
Lemma next_fst s : fst (s_next s) = cur s.
Proof. unfold s_next. destruct (pushed s); [destruct (ttype_eqb _ _); [|destruct (rest s)]|]; reflexivity. Qed.

Lemma sinv_push_cur s : SInv0 s -> SInv (s_push s (cur s)).
Proof.
  intros [[Hin Hp Hl] E]. unfold s_push, view in *. rewrite E in *. split; unfold view; cbn [cur pushed rest app length].
  - inversion Hin; subst. constructor; [assumption|]. constructor; assumption.
  - lia.
  - cbn [app] in Hl. rewrite last_cons2. exact Hl.
Qed.

Lemma peek_eq s : s_peek s = (cur (snd (s_next s)), s_push (snd (s_next s)) (fst (s_next s))).
Proof. unfold s_peek. destruct (s_next s); reflexivity. Qed.
Lemma sinv_after_peek s : SInv s -> SInv (after_peek s).
Proof.
  intros H. unfold after_peek. rewrite peek_eq. cbn [snd]. rewrite next_fst.
  pose proof (sinv0_next s H) as [[Hin' Hp' Hl'] E']. destruct H as [Hin Hp Hl].
  unfold s_push, view in *. rewrite E' in *. split; unfold view; cbn [cur pushed rest app length].
  - inversion Hin; subst. constructor; assumption.
  - lia.
  - cbn [app] in Hl'. rewrite last_cons2. exact Hl'.
Qed.
Lemma off_peek s : SInv s -> OffOk (tidx (fst (s_peek s))).
Proof. intros H. rewrite peek_eq. cbn [fst]. apply off_cur. apply (sinv0_sinv _ (sinv0_next s H)). Qed.

Lemma sinv_init : toks <> [] -> ty (last toks eof_token) = T_EOF -> SInv (stream_init toks).
Proof.
  intros Hne Hl. unfold stream_init. destruct toks as [|t r] eqn:E; [congruence|]. split; unfold view; cbn [cur pushed rest app length].
  - apply Forall_forall. intros x Hx. first [exact Hx | rewrite E; exact Hx].
  - lia.
  - exact Hl.
Qed.

(* --- one-step unfoldings of the fuel-recursive parser functions (text of Model/Parse.v) --------------- *)
Lemma p_query_S f (in_filter : bool) (s : stream) : p_query cfg (S f) in_filter s =
      if is_ty T_DOUBLE_DOT s then
        dop ss, s <- p_selectors cfg f (adv s);
        dop q, s <- p_query cfg f in_filter (adv s);
        POk (Desc ss :: q) s
      else if is_ty T_LBRACKET s || is_ty T_PROPERTY s || is_ty T_WILD s then
        dop ss, s <- p_selectors cfg f s;
        dop q, s <- p_query cfg f in_filter (adv s);
        POk (Child ss :: q) s
      else POk [] (if in_filter then s_push s (cur s) else s).
Proof. reflexivity. Qed.

Lemma p_selectors_S f (s : stream) : p_selectors cfg (S f) s =
      match cty s with
      | T_PROPERTY => POk [SName (tval (cur s))] s
      | T_WILD => POk [SWild] s
      | T_LBRACKET =>
          let tok := cur s in
          dop ss, s <- p_bracket_loop cfg f (adv s);
          match ss with [] => PErr ESyntax (tidx tok) | _ => POk ss s end
      | _ => POk [] s
      end.
Proof. reflexivity. Qed.

Lemma p_bracket_loop_S f (s : stream) : p_bracket_loop cfg (S f) s =
      if is_ty T_RBRACKET s then POk [] s else
      dop x, s <-
        (match cty s with
         | T_INDEX =>
             if ttype_eqb (peek_ty s) T_COLON then p_slice cfg (after_peek s)
             else
               let s := after_peek s in
               let v := tval (cur s) in
               if ((1 <? zlen v) && starts_with [48%N] v) || starts_with [45%N; 48%N] v then err_cur ESyntax s
               else if in_range cfg (int_of_index v) then POk (SIndex (int_of_index v)) s
               else err_cur EIndex s
         | T_DQ_STRING | T_SQ_STRING =>
             match decode_string_literal (cur s) with
             | Ok nm => POk (SName nm) s
             | Err c _ => err_cur c s
             | Crash x => PCrash x s
             | OutOfFuel => PFuel
             end
         | T_COLON => p_slice cfg s
         | T_WILD => POk SWild s
         | T_FILTER => p_filter_selector cfg f s
         | _ => err_cur ESyntax s
         end);
      if ttype_eqb (peek_ty s) T_EOF then PErr ESyntax (tidx (cur (after_peek s))) else
      let s := after_peek s in
      dop _, s <-
        (if negb (ttype_eqb (peek_ty s) T_RBRACKET) then
           if negb (ttype_eqb (peek_ty s) T_COMMA) then err_peek ESyntax s else
           let s := adv (after_peek (after_peek s)) in
           if ttype_eqb (peek_ty s) T_RBRACKET then err_peek ESyntax s else POk tt (after_peek s)
         else POk tt (after_peek s));
      dop xs, s <- p_bracket_loop cfg f (adv s);
      POk (x :: xs) s.
Proof. reflexivity. Qed.

Lemma p_filter_selector_S f (s : stream) : p_filter_selector cfg (S f) s =
      let tok := cur s in
      dop et, s <- p_fexpr cfg f PRECEDENCE_LOWEST (adv s);
      let '(e, etok) := et in
      if value_function cfg e then PErr EType (tidx tok)
      else if is_literal e then PErr ESyntax etok
      else POk (SFilter e) s.
Proof. reflexivity. Qed.

Lemma p_fexpr_S f (prec : Z) (s : stream) : p_fexpr cfg (S f) prec s =
      if negb (in_token_map (cty s)) then err_cur ESyntax s else
      match p_primary cfg f s with
      | PCrash XKeyError s' => err_cur ESyntax s'      (* except KeyError, raised anywhere below *)
      | POk lhs s => p_fexpr_loop cfg f prec lhs s
      | r => r
      end.
Proof. reflexivity. Qed.

Lemma p_fexpr_loop_S f (prec : Z) (lhs : expr * Z) (s : stream) : p_fexpr_loop cfg (S f) prec lhs s =
      let pk := peek_ty s in
      let s := after_peek s in
      if ttype_eqb pk T_EOF || ttype_eqb pk T_RBRACKET || (precedence_of pk <? prec) then POk lhs s
      else match binary_operator pk with
           | None => POk lhs s
           | Some _ =>
               dop lhs', s <- p_infix cfg f lhs (adv s);
               p_fexpr_loop cfg f prec lhs' s
           end.
Proof. reflexivity. Qed.

Lemma p_primary_S f (s : stream) : p_primary cfg (S f) s =
      match cty s with
      | T_LPAREN => p_grouped cfg f s
      | T_NOT => p_prefix cfg f s
      | T_ROOT =>
          let root := cur s in
          dop q, s <- p_query cfg f true (adv s); POk (EAbs q, tidx root) s
      | T_CURRENT =>
          let tok := cur s in
          dop q, s <- p_query cfg f true (adv s); POk (ERel q, tidx tok) s
      | T_FUNCTION => p_function cfg f s
      | _ => p_literal s
      end.
Proof. reflexivity. Qed.

Lemma p_infix_S f (lhs : expr * Z) (s : stream) : p_infix cfg (S f) lhs s =
      let tok := cur s in
      let s := adv s in
      let right_is_grouped := is_ty T_LPAREN s in
      dop rhs, s <- p_fexpr cfg f (precedence_of (ty tok)) s;
      match binary_operator (ty tok) with
      | None => PCrash XKeyError s
      | Some (BCmp o) =>
          if right_is_grouped then PErr ESyntax (snd rhs) else
          match non_comparable cfg (fst lhs) with
          | Some c => PErr c (tidx tok)
          | None =>
            match non_comparable cfg (fst rhs) with
            | Some c => PErr c (tidx tok)
            | None => POk (ECmp o (fst lhs) (fst rhs), tidx tok) s
            end
          end
      | Some b =>
          if is_literal (fst lhs) then PErr ESyntax (snd lhs)
          else if is_literal (fst rhs) then PErr ESyntax (snd rhs)
          else if value_function cfg (fst lhs) then PErr EType (snd lhs)
          else if value_function cfg (fst rhs) then PErr EType (snd rhs)
          else POk (match b with BAnd => EAnd (fst lhs) (fst rhs) | _ => EOr (fst lhs) (fst rhs) end, tidx tok) s
      end.
Proof. reflexivity. Qed.

Lemma p_grouped_S f (s : stream) : p_grouped cfg (S f) s =
      dop e, s <- p_fexpr cfg f PRECEDENCE_LOWEST (adv s);
      dop e, s <- p_grouped_loop cfg f e (adv s);
      if negb (is_ty T_RPAREN s) then err_cur ESyntax s
      else if is_comparison_tok (peek_ty s) then err_peek ESyntax s
      else POk e (after_peek s).
Proof. reflexivity. Qed.

Lemma p_grouped_loop_S f (e : expr * Z) (s : stream) : p_grouped_loop cfg (S f) e s =
      if is_ty T_RPAREN s then POk e s
      else if is_ty T_EOF s then err_cur ESyntax s
      else dop e', s <- p_infix cfg f e s; p_grouped_loop cfg f e' s.
Proof. reflexivity. Qed.

Lemma p_prefix_S f (s : stream) : p_prefix cfg (S f) s =
      let tok := cur s in
      let s := adv s in
      match cty s with
      | T_LPAREN | T_ROOT | T_CURRENT | T_FUNCTION =>
          dop rhs, s <- p_fexpr cfg f PRECEDENCE_PREFIX s;
          if value_function cfg (fst rhs) then PErr EType (snd rhs)
          else POk (ENot (fst rhs), tidx tok) s
      | _ => err_cur ESyntax s
      end.
Proof. reflexivity. Qed.

Lemma p_function_S f (s : stream) : p_function cfg (S f) s =
      let tok := cur s in
      dop args, s <- p_args_loop cfg f (adv s);
      (* env.validate_function_extension_signature(tok, args) *)
      match find_assoc (tval tok) rg with
      | None => PErr EName (tidx tok)
      | Some d =>
          if negb (length args =? length (f_args d))%nat then PErr EType (tidx tok)
          else if check_args cfg (f_args d) args then POk (ECall (tval tok) args, tidx tok) s
          else PErr EType (tidx tok)
      end.
Proof. reflexivity. Qed.

Lemma p_args_loop_S f (s : stream) : p_args_loop cfg (S f) s =
      if is_ty T_RPAREN s then POk [] s else
      if negb (in_function_argument_map (cty s)) then err_cur ESyntax s else
      dop e, s <- p_primary cfg f s;
      dop e, s <- p_arg_infix_loop cfg f e s;
      dop _, s <-
        (if negb (ttype_eqb (peek_ty s) T_RPAREN) then
           if negb (ttype_eqb (peek_ty s) T_COMMA) then err_peek ESyntax s else
           let s := adv (after_peek (after_peek s)) in
           if ttype_eqb (peek_ty s) T_RPAREN then err_peek ESyntax s else POk tt (after_peek s)
         else POk tt (after_peek s));
      dop es, s <- p_args_loop cfg f (adv s);
      POk (fst e :: es) s.
Proof. reflexivity. Qed.

Lemma p_arg_infix_loop_S f (e : expr * Z) (s : stream) : p_arg_infix_loop cfg (S f) e s =
      match binary_operator (peek_ty s) with
      | None => POk e (after_peek s)
      | Some _ => dop e', s <- p_infix cfg f e (adv (after_peek s)); p_arg_infix_loop cfg f e' s
      end.
Proof. reflexivity. Qed.
End ParseInv.
