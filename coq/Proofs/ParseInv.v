(* C19, parser half: every JSONPathError the parser raises carries the index of a token of the token list it was
   given; the synthetic EOF token of TokenStream.close() (index -1) never becomes current.  This needs the
   invariants of the push-back stream: at most one pushed token between parser steps, none when a token is pushed
   back, and the list always ends with the lexer's EOF token. *)
From JP Require Import Base.Json Model.Tokens Model.Ast Model.Parse.

Section ParseInv.
Variable cfg : envcfg.
Variable toks : list token.
Notation rg := (reg cfg).

Definition view (s : stream) : list token := cur s :: pushed s ++ rest s.
Definition OffOk (off : Z) : Prop := exists t, In t toks /\ off = tidx t.
Record SInv (s : stream) : Prop := {
  si_in : Forall (fun t => In t toks) (view s);
  si_pushed : (length (pushed s) <= 1)%nat;
  si_last : ty (last (view s) eof_token) = T_EOF
}.
Definition SInv0 (s : stream) : Prop := SInv s /\ pushed s = [].

Lemma teq_eof t : ttype_eqb (ty t) T_EOF = true -> ty t = T_EOF.
Proof. unfold ttype_eqb. destruct (ty t); cbn; intros H; try discriminate; reflexivity. Qed.
Lemma teq_not_eof t : ttype_eqb (ty t) T_EOF = false -> ty t <> T_EOF.
Proof. intros H E. rewrite E in H. discriminate. Qed.

Lemma last_cons2 {A} (x y : A) l d : last (x :: y :: l) d = last (y :: l) d.
Proof. reflexivity. Qed.

Lemma sinv0_next s : SInv s -> SInv0 (snd (s_next s)).
Proof.
  intros [Hin Hp Hl]. unfold s_next, view in *. destruct (pushed s) as [|p ps] eqn:Ep.
  - destruct (ttype_eqb (ty (cur s)) T_EOF) eqn:Ee.
    + cbn [snd]. split; [split; unfold view; rewrite ?Ep; assumption | exact Ep].
    + destruct (rest s) as [|t r] eqn:Er.
      * exfalso. cbn in Hl. apply teq_not_eof in Ee. contradiction.
      * cbn [snd]. split; [|reflexivity]. split; unfold view; cbn [cur pushed rest app length].
        -- inversion Hin; assumption.
        -- lia.
        -- cbn [app] in Hl. rewrite last_cons2 in Hl. exact Hl.
  - cbn [snd]. destruct ps as [|p2 ps]; [|cbn [length] in Hp; lia].
    split; [|reflexivity]. split; unfold view; cbn [cur pushed rest app length].
    + inversion Hin; assumption.
    + lia.
    + cbn [app] in Hl. rewrite last_cons2 in Hl. exact Hl.
Qed.
Lemma sinv0_adv s : SInv s -> SInv0 (adv s).
Proof. apply sinv0_next. Qed.
Lemma sinv_adv s : SInv s -> SInv (adv s).
Proof. intros H. apply sinv0_adv in H. exact (proj1 H). Qed.
Lemma sinv0_sinv s : SInv0 s -> SInv s. Proof. intros [H _]; exact H. Qed.

Lemma off_cur s : SInv s -> OffOk (tidx (cur s)).
Proof. intros [Hin _ _]. unfold view in Hin. inversion Hin; subst. eexists; split; [eassumption | reflexivity]. Qed.
Lemma next_fst s : fst (s_next s) = cur s.
Proof. unfold s_next. destruct (pushed s); [destruct (ttype_eqb _ _); [|destruct (rest s)]|]; reflexivity. Qed.

Lemma sinv_push_cur s : SInv0 s -> SInv (s_push s (cur s)).
Proof.
  intros [[Hin Hp Hl] E]. unfold s_push, view in *. rewrite E in *. split; unfold view; cbn [cur pushed rest app length].
  - inversion Hin; subst. constructor; [assumption|]. constructor; assumption.
  - lia.
  - cbn [app] in Hl. rewrite last_cons2. exact Hl.
Qed.

Lemma peek_eq s : s_peek s = (cur (snd (s_next s)), s_push (snd (s_next s)) (fst (s_next s))).
Proof. unfold s_peek. destruct (s_next s); reflexivity. Qed.
Lemma sinv_after_peek s : SInv s -> SInv (after_peek s).
Proof.
  intros H. unfold after_peek. rewrite peek_eq. cbn [snd]. rewrite next_fst.
  pose proof (sinv0_next s H) as [[Hin' Hp' Hl'] E']. destruct H as [Hin Hp Hl].
  unfold s_push, view in *. rewrite E' in *. split; unfold view; cbn [cur pushed rest app length].
  - inversion Hin; subst. constructor; assumption.
  - lia.
  - cbn [app] in Hl'. rewrite last_cons2. exact Hl'.
Qed.
Lemma off_peek s : SInv s -> OffOk (tidx (fst (s_peek s))).
Proof. intros H. rewrite peek_eq. cbn [fst]. apply off_cur. apply (sinv0_sinv _ (sinv0_next s H)). Qed.

Lemma sinv_init : toks <> [] -> ty (last toks eof_token) = T_EOF -> SInv (stream_init toks).
Proof.
  intros Hne Hl. unfold stream_init. destruct toks as [|t r] eqn:E; [congruence|]. split; unfold view; cbn [cur pushed rest app length].
  - apply Forall_forall. intros x Hx. first [exact Hx | rewrite E; exact Hx].
  - lia.
  - exact Hl.
Qed.

(* --- one-step unfoldings of the fuel-recursive parser functions (text of Model/Parse.v) --------------- *)
Lemma p_query_S f (in_filter : bool) (s : stream) : p_query cfg (S f) in_filter s =
      if is_ty T_DOUBLE_DOT s then
        dop ss, s <- p_selectors cfg f (adv s);
        dop q, s <- p_query cfg f in_filter (adv s);
        POk (Desc ss :: q) s
      else if is_ty T_LBRACKET s || is_ty T_PROPERTY s || is_ty T_WILD s then
        dop ss, s <- p_selectors cfg f s;
        dop q, s <- p_query cfg f in_filter (adv s);
        POk (Child ss :: q) s
      else POk [] (if in_filter then s_push s (cur s) else s).
Proof. reflexivity. Qed.

Lemma p_selectors_S f (s : stream) : p_selectors cfg (S f) s =
      match cty s with
      | T_PROPERTY => POk [SName (tval (cur s))] s
      | T_WILD => POk [SWild] s
      | T_LBRACKET =>
          let tok := cur s in
          dop ss, s <- p_bracket_loop cfg f (adv s);
          match ss with [] => PErr ESyntax (tidx tok) | _ => POk ss s end
      | _ => POk [] s
      end.
Proof. reflexivity. Qed.

Lemma p_bracket_loop_S f (s : stream) : p_bracket_loop cfg (S f) s =
      if is_ty T_RBRACKET s then POk [] s else
      dop x, s <-
        (match cty s with
         | T_INDEX =>
             if ttype_eqb (peek_ty s) T_COLON then p_slice cfg (after_peek s)
             else
               let s := after_peek s in
               let v := tval (cur s) in
               if ((1 <? zlen v) && starts_with [48%N] v) || starts_with [45%N; 48%N] v then err_cur ESyntax s
               else if in_range cfg (int_of_index v) then POk (SIndex (int_of_index v)) s
               else err_cur EIndex s
         | T_DQ_STRING | T_SQ_STRING =>
             match decode_string_literal (cur s) with
             | Ok nm => POk (SName nm) s
             | Err c _ => err_cur c s
             | Crash x => PCrash x s
             | OutOfFuel => PFuel
             end
         | T_COLON => p_slice cfg s
         | T_WILD => POk SWild s
         | T_FILTER => p_filter_selector cfg f s
         | _ => err_cur ESyntax s
         end);
      if ttype_eqb (peek_ty s) T_EOF then PErr ESyntax (tidx (cur (after_peek s))) else
      let s := after_peek s in
      dop _, s <-
        (if negb (ttype_eqb (peek_ty s) T_RBRACKET) then
           if negb (ttype_eqb (peek_ty s) T_COMMA) then err_peek ESyntax s else
           let s := adv (after_peek (after_peek s)) in
           if ttype_eqb (peek_ty s) T_RBRACKET then err_peek ESyntax s else POk tt (after_peek s)
         else POk tt (after_peek s));
      dop xs, s <- p_bracket_loop cfg f (adv s);
      POk (x :: xs) s.
Proof. reflexivity. Qed.

Lemma p_filter_selector_S f (s : stream) : p_filter_selector cfg (S f) s =
      let tok := cur s in
      dop et, s <- p_fexpr cfg f PRECEDENCE_LOWEST (adv s);
      let '(e, etok) := et in
      if value_function cfg e then PErr EType (tidx tok)
      else if is_literal e then PErr ESyntax etok
      else POk (SFilter e) s.
Proof. reflexivity. Qed.

Lemma p_fexpr_S f (prec : Z) (s : stream) : p_fexpr cfg (S f) prec s =
      if negb (in_token_map (cty s)) then err_cur ESyntax s else
      match p_primary cfg f s with
      | PCrash XKeyError s' => err_cur ESyntax s'      (* except KeyError, raised anywhere below *)
      | POk lhs s => p_fexpr_loop cfg f prec lhs s
      | r => r
      end.
Proof. reflexivity. Qed.

Lemma p_fexpr_loop_S f (prec : Z) (lhs : expr * Z) (s : stream) : p_fexpr_loop cfg (S f) prec lhs s =
      let pk := peek_ty s in
      let s := after_peek s in
      if ttype_eqb pk T_EOF || ttype_eqb pk T_RBRACKET || (precedence_of pk <? prec) then POk lhs s
      else match binary_operator pk with
           | None => POk lhs s
           | Some _ =>
               dop lhs', s <- p_infix cfg f lhs (adv s);
               p_fexpr_loop cfg f prec lhs' s
           end.
Proof. reflexivity. Qed.

Lemma p_primary_S f (s : stream) : p_primary cfg (S f) s =
      match cty s with
      | T_LPAREN => p_grouped cfg f s
      | T_NOT => p_prefix cfg f s
      | T_ROOT =>
          let root := cur s in
          dop q, s <- p_query cfg f true (adv s); POk (EAbs q, tidx root) s
      | T_CURRENT =>
          let tok := cur s in
          dop q, s <- p_query cfg f true (adv s); POk (ERel q, tidx tok) s
      | T_FUNCTION => p_function cfg f s
      | _ => p_literal s
      end.
Proof. reflexivity. Qed.

Lemma p_infix_S f (lhs : expr * Z) (s : stream) : p_infix cfg (S f) lhs s =
      let tok := cur s in
      let s := adv s in
      let right_is_grouped := is_ty T_LPAREN s in
      dop rhs, s <- p_fexpr cfg f (precedence_of (ty tok)) s;
      match binary_operator (ty tok) with
      | None => PCrash XKeyError s
      | Some (BCmp o) =>
          if right_is_grouped then PErr ESyntax (snd rhs) else
          match non_comparable cfg (fst lhs) with
          | Some c => PErr c (tidx tok)
          | None =>
            match non_comparable cfg (fst rhs) with
            | Some c => PErr c (tidx tok)
            | None => POk (ECmp o (fst lhs) (fst rhs), tidx tok) s
            end
          end
      | Some b =>
          if is_literal (fst lhs) then PErr ESyntax (snd lhs)
          else if is_literal (fst rhs) then PErr ESyntax (snd rhs)
          else if value_function cfg (fst lhs) then PErr EType (snd lhs)
          else if value_function cfg (fst rhs) then PErr EType (snd rhs)
          else POk (match b with BAnd => EAnd (fst lhs) (fst rhs) | _ => EOr (fst lhs) (fst rhs) end, tidx tok) s
      end.
Proof. reflexivity. Qed.

Lemma p_grouped_S f (s : stream) : p_grouped cfg (S f) s =
      dop e, s <- p_fexpr cfg f PRECEDENCE_LOWEST (adv s);
      dop e, s <- p_grouped_loop cfg f e (adv s);
      if negb (is_ty T_RPAREN s) then err_cur ESyntax s
      else if is_literal (fst e) then PErr ESyntax (snd e)          (* a grouped bare literal is not a logical expression *)
      else if value_function cfg (fst e) then PErr EType (snd e)      (* nor is the result of a value function *)
      else if is_comparison_tok (peek_ty s) then err_peek ESyntax s
      else POk e (after_peek s).
Proof. reflexivity. Qed.

Lemma p_grouped_loop_S f (e : expr * Z) (s : stream) : p_grouped_loop cfg (S f) e s =
      if is_ty T_RPAREN s then POk e s
      else if is_ty T_EOF s then err_cur ESyntax s
      else dop e', s <- p_infix cfg f e s; p_grouped_loop cfg f e' s.
Proof. reflexivity. Qed.

Lemma p_prefix_S f (s : stream) : p_prefix cfg (S f) s =
      let tok := cur s in
      let s := adv s in
      match cty s with
      | T_LPAREN | T_ROOT | T_CURRENT | T_FUNCTION =>
          dop rhs, s <- p_fexpr cfg f PRECEDENCE_PREFIX s;
          if value_function cfg (fst rhs) then PErr EType (snd rhs)
          else POk (ENot (fst rhs), tidx tok) s
      | _ => err_cur ESyntax s
      end.
Proof. reflexivity. Qed.

Lemma p_function_S f (s : stream) : p_function cfg (S f) s =
      let tok := cur s in
      dop argsg, s <- p_args_loop cfg f (adv s);
      let args := map fst argsg in
      (* env.validate_function_extension_signature(tok, args) *)
      match find_assoc (tval tok) rg with
      | None => PErr EName (tidx tok)
      | Some d =>
          if negb (length args =? length (f_args d))%nat then PErr EType (tidx tok)
          else if check_args cfg (f_args d) args then
            (* an argument written in parentheses is a logical expression *)
            if grouped_ok (f_args d) (map snd argsg) then POk (ECall (tval tok) args, tidx tok) s
            else PErr EType (tidx tok)
          else PErr EType (tidx tok)
      end.
Proof. reflexivity. Qed.

Lemma p_args_loop_S f (s : stream) : p_args_loop cfg (S f) s =
      if is_ty T_RPAREN s then POk [] s else
      if negb (in_function_argument_map (cty s)) then err_cur ESyntax s else
      let grouped := is_ty T_LPAREN s in
      dop e, s <- p_primary cfg f s;
      (* grouped stays true only if no binary operator follows the parenthesized expression *)
      let g := grouped && match binary_operator (peek_ty s) with None => true | Some _ => false end in
      dop e, s <- p_arg_infix_loop cfg f e s;
      dop _, s <-
        (if negb (ttype_eqb (peek_ty s) T_RPAREN) then
           if negb (ttype_eqb (peek_ty s) T_COMMA) then err_peek ESyntax s else
           let s := adv (after_peek (after_peek s)) in
           if ttype_eqb (peek_ty s) T_RPAREN then err_peek ESyntax s else POk tt (after_peek s)
         else POk tt (after_peek s));
      dop es, s <- p_args_loop cfg f (adv s);
      POk ((fst e, g) :: es) s.
Proof. reflexivity. Qed.

Lemma p_arg_infix_loop_S f (e : expr * Z) (s : stream) : p_arg_infix_loop cfg (S f) e s =
      match binary_operator (peek_ty s) with
      | None => POk e (after_peek s)
      | Some _ => dop e', s <- p_infix cfg f e (adv (after_peek s)); p_arg_infix_loop cfg f e' s
      end.
Proof. reflexivity. Qed.

(* --- results that keep the invariant ---------------------------------------------------------------- *)
Definition good {A} (PA : A -> Prop) (r : pres A) : Prop :=
  match r with
  | POk a s' => PA a /\ SInv s'
  | PErr _ off => OffOk off
  | PCrash _ s' => SInv s'
  | PFuel => True
  end.
Definition good0 {A} (PA : A -> Prop) (r : pres A) : Prop :=       (* ... and leaves nothing pushed back *)
  match r with
  | POk a s' => PA a /\ SInv0 s'
  | PErr _ off => OffOk off
  | PCrash _ s' => SInv s'
  | PFuel => True
  end.
Definition anyP {A} : A -> Prop := fun _ => True.
Definition PO (e : expr * Z) : Prop := OffOk (snd e).

Lemma good_bind {A B} (PA : A -> Prop) (PB : B -> Prop) (r : pres A) (f : A -> stream -> pres B) :
  good PA r -> (forall a s, PA a -> SInv s -> good PB (f a s)) -> good PB (pbind r f).
Proof. destruct r; cbn [good pbind]; intros H Hf; try exact H. destruct H; apply Hf; assumption. Qed.
Lemma good0_good {A} (PA : A -> Prop) r : good0 PA r -> good PA r.
Proof. destruct r; cbn; intros H; try exact H. destruct H as [H1 [H2 _]]. split; assumption. Qed.
Lemma good_weaken {A} (PA PB : A -> Prop) r : (forall a, PA a -> PB a) -> good PA r -> good PB r.
Proof. intros Hw. destruct r; cbn; intros H; try exact H. destruct H; split; auto. Qed.
Lemma good_err_cur {A} (PA : A -> Prop) c s : SInv s -> good PA (err_cur c s).
Proof. intros H. unfold err_cur. cbn. apply off_cur; exact H. Qed.
Lemma good_err_peek {A} (PA : A -> Prop) c s : SInv s -> good PA (err_peek c s).
Proof. intros H. unfold err_peek. cbn. apply off_peek; exact H. Qed.

(* --- the non-recursive pieces ------------------------------------------------------------------------- *)
Ltac split_head :=
  repeat match goal with
  | |- good _ (match ?x with _ => _ end) => destruct x eqn:?
  | |- good _ (if ?x then _ else _) => destruct x eqn:?
  end.
Lemma good_literal s : SInv s -> good PO (p_literal s).
Proof.
  intros H. pose proof (off_cur s H) as Hc. unfold p_literal. cbv zeta. split_head;
    first [apply good_err_cur; exact H | cbn [good]; first [exact I | exact H | exact Hc | split; [exact Hc | exact H]]].
Qed.

Lemma maybe_index_cases s : maybe_index s = POk true s \/ maybe_index s = POk false s \/ maybe_index s = err_cur ESyntax s.
Proof. unfold maybe_index. destruct (is_ty T_INDEX s); [destruct (_ && _)|]; auto. Qed.

Ltac s_inv := first [ assumption | apply sinv0_sinv; s_inv0 | apply sinv_adv; s_inv | apply sinv_after_peek; s_inv ]
with s_inv0 := first [ assumption | apply sinv0_adv; s_inv ].

Lemma good_slice s : SInv s -> good anyP (p_slice cfg s).
Proof.
  intros H. unfold p_slice.
  destruct (maybe_index_cases s) as [E | [E | E]]; rewrite E; cbn [pbind]; try (apply good_err_cur; exact H).
  all: cbv zeta beta iota.
  all: match goal with |- good _ (if negb (is_ty T_COLON ?x) then _ else _) =>
         assert (Hx : SInv x) by s_inv; destruct (is_ty T_COLON x); cbn [negb]; [|apply good_err_cur; exact Hx] end.
  all: match goal with |- context [maybe_index (adv ?x)] =>
         assert (H1 : SInv0 (adv x)) by s_inv0;
         destruct (maybe_index_cases (adv x)) as [E1 | [E1 | E1]]; rewrite E1; cbn [pbind]; try (apply good_err_cur; s_inv) end.
  all: cbv zeta beta iota.
  all: repeat match goal with
       | |- context [is_ty T_COLON ?x] => destruct (is_ty T_COLON x) eqn:?
       end; cbv beta iota.
  all: repeat match goal with
       | |- context [maybe_index ?x] =>
           let E2 := fresh "E2" in destruct (maybe_index_cases x) as [E2 | [E2 | E2]]; rewrite E2; cbn [pbind]; cbv beta iota
       end.
  all: try (unfold err_cur at 1; cbn [pbind good]; apply off_cur; s_inv).
  all: cbn [pbind]; cbv beta iota zeta.
  all: match goal with
       | |- good _ (if ?b then POk _ (s_push ?x _) else PErr _ _) =>
           destruct b; cbn [good]; [split; [exact I|]; apply sinv_push_cur; s_inv0 | apply off_cur; exact H]
       end.
Qed.

(* --- the fourteen mutually recursive functions ------------------------------------------------------------- *)
Definition Q (f : nat) : Prop :=
  (forall inf s, SInv0 s -> good anyP (p_query cfg f inf s)) /\
  (forall s, SInv s -> good anyP (p_selectors cfg f s)) /\
  (forall s, SInv s -> good anyP (p_bracket_loop cfg f s)) /\
  (forall s, SInv s -> good anyP (p_filter_selector cfg f s)) /\
  (forall prec s, SInv s -> good PO (p_fexpr cfg f prec s)) /\
  (forall prec lhs s, PO lhs -> SInv s -> good PO (p_fexpr_loop cfg f prec lhs s)) /\
  (forall s, SInv s -> good PO (p_primary cfg f s)) /\
  (forall lhs s, PO lhs -> SInv s -> good PO (p_infix cfg f lhs s)) /\
  (forall s, SInv s -> good PO (p_grouped cfg f s)) /\
  (forall e s, PO e -> SInv s -> good PO (p_grouped_loop cfg f e s)) /\
  (forall s, SInv s -> good PO (p_prefix cfg f s)) /\
  (forall s, SInv s -> good PO (p_function cfg f s)) /\
  (forall s, SInv s -> good anyP (p_args_loop cfg f s)) /\
  (forall e s, PO e -> SInv s -> good PO (p_arg_infix_loop cfg f e s)).

Ltac off_ok := unfold PO in *; cbn [snd fst] in *; first [ assumption | apply off_cur; s_inv | apply off_peek; s_inv ].
Ltac leaf := cbn [good]; first [ exact I | off_ok | s_inv
                               | split; [ first [exact I | off_ok] | first [s_inv | apply sinv_push_cur; s_inv0] ] ].

Theorem Q_all : forall f, Q f.
Proof.
  induction f as [|f IH]; [repeat split; intros; exact I|].
  destruct IH as (IHquery & IHsel & IHbr & IHfs & IHfe & IHfl & IHpr & IHin & IHgr & IHgl & IHpf & IHfn & IHal & IHai).
  Ltac pgo IHquery IHsel IHbr IHfs IHfe IHfl IHpr IHin IHgr IHgl IHpf IHfn IHal IHai :=
    repeat (cbv zeta beta;
      match goal with
      | |- good _ (pbind (if _ then _ else _) _) => eapply (good_bind anyP); [ | intros ? ? ? ? ]
      | |- good _ (pbind (match _ with _ => _ end) _) => eapply (good_bind anyP); [ | intros ? ? ? ? ]
      | |- good _ (pbind _ _) => eapply good_bind; [ | intros ? ? ? ? ]
      | |- good _ (p_query _ _ _ _) => apply IHquery; s_inv0
      | |- good _ (p_selectors _ _ _) => apply IHsel; s_inv
      | |- good _ (p_bracket_loop _ _ _) => apply IHbr; s_inv
      | |- good _ (p_filter_selector _ _ _) => apply IHfs; s_inv
      | |- good _ (p_fexpr _ _ _ _) => apply IHfe; s_inv
      | |- good _ (p_fexpr_loop _ _ _ _ _) => apply IHfl; [off_ok | s_inv]
      | |- good _ (p_primary _ _ _) => apply IHpr; s_inv
      | |- good _ (p_infix _ _ _ _) => apply IHin; [off_ok | s_inv]
      | |- good _ (p_grouped _ _ _) => apply IHgr; s_inv
      | |- good _ (p_grouped_loop _ _ _ _) => apply IHgl; [off_ok | s_inv]
      | |- good _ (p_prefix _ _ _) => apply IHpf; s_inv
      | |- good _ (p_function _ _ _) => apply IHfn; s_inv
      | |- good _ (p_args_loop _ _ _) => apply IHal; s_inv
      | |- good _ (p_arg_infix_loop _ _ _ _) => apply IHai; [off_ok | s_inv]
      | |- good _ (p_slice _ _) => eapply good_weaken; [|apply good_slice; s_inv]; intros; exact I
      | |- good _ (p_literal _) => apply good_literal; s_inv
      | |- good _ (err_cur _ _) => apply good_err_cur; s_inv
      | |- good _ (err_peek _ _) => apply good_err_peek; s_inv
      | |- good _ (match ?x with _ => _ end) => first [is_var x; destruct x | destruct x eqn:?]
      | |- good _ (if ?x then _ else _) => destruct x eqn:?
      | |- good _ (let '(_, _) := ?x in _) => first [is_var x; destruct x | destruct x eqn:?]
      | |- good _ (POk _ (if ?b then _ else _)) => destruct b
      | |- good _ (POk _ _) => leaf
      | |- good _ (PErr _ _) => leaf
      | |- good _ (PCrash _ _) => leaf
      | |- good _ PFuel => exact I
      end).
  repeat split.
  - intros inf s H. rewrite p_query_S. pose proof (sinv0_sinv _ H). pgo IHquery IHsel IHbr IHfs IHfe IHfl IHpr IHin IHgr IHgl IHpf IHfn IHal IHai.
  - intros s H. rewrite p_selectors_S. pgo IHquery IHsel IHbr IHfs IHfe IHfl IHpr IHin IHgr IHgl IHpf IHfn IHal IHai.
  - intros s H. rewrite p_bracket_loop_S. pgo IHquery IHsel IHbr IHfs IHfe IHfl IHpr IHin IHgr IHgl IHpf IHfn IHal IHai.
  - intros s H. rewrite p_filter_selector_S. pgo IHquery IHsel IHbr IHfs IHfe IHfl IHpr IHin IHgr IHgl IHpf IHfn IHal IHai.
  - intros prec s H. rewrite p_fexpr_S. destruct (negb (in_token_map (cty s))); [apply good_err_cur; exact H|].
    pose proof (IHpr s H) as G. destruct (p_primary cfg f s) as [lhs s1|c off|x s1|]; cbn [good] in G.
    + destruct G as [G1 G2]. apply IHfl; assumption.
    + exact G.
    + destruct x; first [apply good_err_cur; exact G | exact G].
    + exact I.
  - intros prec lhs s Hl H. rewrite p_fexpr_loop_S. pgo IHquery IHsel IHbr IHfs IHfe IHfl IHpr IHin IHgr IHgl IHpf IHfn IHal IHai.
  - intros s H. rewrite p_primary_S. pgo IHquery IHsel IHbr IHfs IHfe IHfl IHpr IHin IHgr IHgl IHpf IHfn IHal IHai.
  - intros lhs s Hl H. rewrite p_infix_S. pgo IHquery IHsel IHbr IHfs IHfe IHfl IHpr IHin IHgr IHgl IHpf IHfn IHal IHai.
  - intros s H. rewrite p_grouped_S. pgo IHquery IHsel IHbr IHfs IHfe IHfl IHpr IHin IHgr IHgl IHpf IHfn IHal IHai.
  - intros e s He H. rewrite p_grouped_loop_S. pgo IHquery IHsel IHbr IHfs IHfe IHfl IHpr IHin IHgr IHgl IHpf IHfn IHal IHai.
  - intros s H. rewrite p_prefix_S. pgo IHquery IHsel IHbr IHfs IHfe IHfl IHpr IHin IHgr IHgl IHpf IHfn IHal IHai.
  - intros s H. rewrite p_function_S. pgo IHquery IHsel IHbr IHfs IHfe IHfl IHpr IHin IHgr IHgl IHpf IHfn IHal IHai.
  - intros s H. rewrite p_args_loop_S. pgo IHquery IHsel IHbr IHfs IHfe IHfl IHpr IHin IHgr IHgl IHpf IHfn IHal IHai.
  - intros e s He H. rewrite p_arg_infix_loop_S. pgo IHquery IHsel IHbr IHfs IHfe IHfl IHpr IHin IHgr IHgl IHpf IHfn IHal IHai.
Qed.

Theorem parse_offsets c off : toks <> [] -> ty (last toks eof_token) = T_EOF ->
  p_parse cfg toks = PErr c off -> OffOk off.
Proof.
  intros Hne Hl. pose proof (sinv_init Hne Hl) as Hs. unfold p_parse. cbv zeta.
  destruct (negb (is_ty T_ROOT (stream_init toks))).
  { unfold err_cur. intros E. injection E as _ <-. apply off_cur; exact Hs. }
  destruct (Q_all (parse_fuel toks)) as (Hq & _).
  pose proof (Hq false (adv (stream_init toks)) (sinv0_adv _ Hs)) as G.
  destruct (p_query cfg (parse_fuel toks) false (adv (stream_init toks))) as [q s1|c1 o1|x s1|]; cbn [pbind good] in *; try discriminate.
  - destruct G as [_ G]. destruct (negb (is_ty T_EOF s1)); [|discriminate]. unfold err_cur. intros E. injection E as _ <-. apply off_cur; exact G.
  - intros E. injection E as _ <-. exact G.
Qed.
End ParseInv.
