(* The nondeterministic traversal does not look at locations: started at (l ++ loc, v) it does what it does at (loc, v), every location prefixed
   by l.  With it the exhaustiveness theorem of Proofs/NdExh.v (stated for the root of a value) holds from any node. *)
From JP Require Import Base.Json Model.NdVisit Spec.Sem Spec.Nondet Proofs.EvalProofs Proofs.NdSpec Proofs.NdSim Proofs.NdExh.
From Coq Require Import Permutation Lia.

Definition reloc (l : list key) (n : node) : node := (l ++ fst n, snd n).
Lemma reloc_snd l n : snd (reloc l n) = snd n. Proof. reflexivity. Qed.

Lemma children_reloc l n : children (reloc l n) = map (reloc l) (children n).
Proof.
  unfold children, reloc. cbn [fst snd]. destruct (snd n); try reflexivity; rewrite map_map; apply map_ext; intros x; cbn [fst snd]; rewrite app_assoc; reflexivity.
Qed.

Lemma remove_nth_map {A B} (g : A -> B) : forall j (l : list A), remove_nth j (map g l) = map g (remove_nth j l).
Proof. induction j as [|j IH]; intros [|x l]; cbn [remove_nth map]; try reflexivity. rewrite IH. reflexivity. Qed.
Lemma set_nth_map {A B} (g : A -> B) : forall j x (l : list A), set_nth j (g x) (map g l) = map g (set_nth j x l).
Proof. induction j as [|j IH]; intros x [|y l]; cbn [set_nth map]; try reflexivity. rewrite IH. reflexivity. Qed.
Lemma zlen_map {A B} (g : A -> B) (l : list A) : zlen (map g l) = zlen l.
Proof. unfold zlen. rewrite map_length. reflexivity. Qed.

Lemma apply_perm_map {A B} (g : A -> B) : forall fuel idx (pool : list A), apply_perm fuel idx (map g pool) = map g (apply_perm fuel idx pool).
Proof.
  induction fuel as [|f IH]; intros idx pool; [reflexivity|]. destruct pool as [|x pool]; [reflexivity|].
  cbn [apply_perm map]. change (g x :: map g pool) with (map g (x :: pool)). rewrite zlen_map, nth_error_map.
  destruct (nth_error (x :: pool) (Z.to_nat (idx mod zlen (x :: pool)))) as [y|]; cbn [option_map]; [|reflexivity].
  rewrite remove_nth_map, IH. reflexivity.
Qed.

Lemma shuffle_map {A B} (g : A -> B) script (items : list A) : shuffle script (map g items) = (map g (fst (shuffle script items)), snd (shuffle script items)).
Proof.
  unfold shuffle. destruct items as [|a [|b r]]; try reflexivity. cbn [map]. destruct (take1 script) as [p rs]. cbn [fst snd].
  change (g a :: g b :: map g r) with (map g (a :: b :: r)). rewrite apply_perm_map, map_length. reflexivity.
Qed.

Definition greloc (l : list key) (g : gen_state) : gen_state :=
  match g with Unstarted n => Unstarted (reloc l n) | Remaining ns => Remaining (map (reloc l) ns) end.

Lemma gen_next_reloc l script g :
  gen_next script (greloc l g) = let '(o, g', s') := gen_next script g in (option_map (reloc l) o, greloc l g', s').
Proof.
  destruct g as [n | [|x r]]; cbn [greloc gen_next map]; try reflexivity.
  rewrite reloc_snd, children_reloc. destruct (snd n); try (destruct (children n); reflexivity).
  rewrite shuffle_map. destruct (shuffle script (children n)) as [items s']. cbn [fst snd]. destruct items; reflexivity.
Qed.

Lemma drain_reloc l : forall fuel script g sk,
  drain fuel script (greloc l g) (map (reloc l) sk)
  = let '(sk', o, g', s') := drain fuel script g sk in (map (reloc l) sk', option_map (reloc l) o, greloc l g', s').
Proof.
  induction fuel as [|f IH]; intros script g sk; [reflexivity|]. cbn [drain]. rewrite gen_next_reloc.
  destruct (gen_next script g) as [[[nd|] g'] s']; cbn [option_map]; [|reflexivity].
  rewrite reloc_snd. destruct (is_container (snd nd)); [reflexivity|].
  replace (map (reloc l) sk ++ [reloc l nd]) with (map (reloc l) (sk ++ [nd])) by (rewrite map_app; reflexivity). apply IH.
Qed.

Definition preloc (l : list key) (pend : pending) : pending := map (fun e => (greloc l (fst e), snd e)) pend.
Definition rmap {A B} (f : A -> B) (r : result A) : result B :=
  match r with Ok x => Ok (f x) | Err e t => Err e t | Crash x => Crash x | OutOfFuel => OutOfFuel end.

Lemma nd_loop_reloc l : forall fuel limit script pend acc,
  nd_loop fuel limit script (preloc l pend) (map (reloc l) acc) = rmap (map (reloc l)) (nd_loop fuel limit script pend acc).
Proof.
  induction fuel as [|f IH]; intros limit script pend acc; [reflexivity|]. cbn [nd_loop].
  destruct pend as [|e pend']; [cbn [preloc map rmap]; rewrite map_rev; reflexivity|].
  set (P := e :: pend'). assert (HP : preloc l P = (greloc l (fst e), snd e) :: preloc l pend') by reflexivity.
  rewrite HP. rewrite <- HP. clear HP.
  assert (Ez : zlen (preloc l P) = zlen P) by (unfold preloc; apply zlen_map).
  assert (En : forall j, nth_error (preloc l P) j = option_map (fun e0 => (greloc l (fst e0), snd e0)) (nth_error P j)) by (intros j; unfold preloc; apply nth_error_map).
  destruct (take1 script) as [r script1]. rewrite Ez, En.
  destruct (nth_error P (Z.to_nat (r mod zlen P))) as [[g depth]|]; cbn [option_map fst snd]; [|reflexivity].
  pose proof (drain_reloc l (S (S f)) script1 g []) as Hd. cbn [map] in Hd. rewrite Hd. clear Hd.
  destruct (drain (S (S f)) script1 g []) as [[[sk o] g'] script2]. destruct o as [nd|]; cbn [option_map].
  - destruct (limit <? depth)%nat; [reflexivity|].
    replace (set_nth (Z.to_nat (r mod zlen P)) (greloc l g', depth) (preloc l P) ++ [(Unstarted (reloc l nd), S depth)])
      with (preloc l (set_nth (Z.to_nat (r mod zlen P)) (g', depth) P ++ [(Unstarted nd, S depth)])).
    + replace (reloc l nd :: rev (map (reloc l) sk) ++ map (reloc l) acc) with (map (reloc l) (nd :: rev sk ++ acc)) by (cbn [map]; rewrite map_app, map_rev; reflexivity).
      apply IH.
    + unfold preloc. rewrite map_app. cbn [map fst snd greloc]. f_equal. symmetry. apply (set_nth_map (fun e0 => (greloc l (fst e0), snd e0)) _ (g', depth)).
  - replace (remove_nth (Z.to_nat (r mod zlen P)) (preloc l P)) with (preloc l (remove_nth (Z.to_nat (r mod zlen P)) P))
      by (unfold preloc; rewrite remove_nth_map; reflexivity).
    replace (rev (map (reloc l) sk) ++ map (reloc l) acc) with (map (reloc l) (rev sk ++ acc)) by (rewrite map_app, map_rev; reflexivity).
    apply IH.
Qed.

Theorem nd_visit_reloc l limit script root : nd_visit limit script (reloc l root) = rmap (map (reloc l)) (nd_visit limit script root).
Proof.
  unfold nd_visit. destruct (limit <? 1)%nat; [reflexivity|]. rewrite reloc_snd.
  apply (nd_loop_reloc l _ limit script [(Unstarted root, 2%nat)] [root]).
Qed.

(* ---- the specification side: descendants and valid orders under a prefix ---- *)
Lemma map_flat_map {A B C} (g : B -> C) (f : A -> list B) (l : list A) : map g (flat_map f l) = flat_map (fun x => map g (f x)) l.
Proof. induction l as [|x l IH]; [reflexivity|]. cbn [flat_map]. rewrite map_app, IH. reflexivity. Qed.
Lemma flat_map_map {A B C} (g : A -> B) (f : B -> list C) (l : list A) : flat_map f (map g l) = flat_map (fun x => f (g x)) l.
Proof. induction l as [|x l IH]; [reflexivity|]. cbn [map flat_map]. rewrite IH. reflexivity. Qed.

Lemma flat_map_ext_in' {A B} (f g : A -> list B) (l : list A) : (forall x, In x l -> f x = g x) -> flat_map f l = flat_map g l.
Proof. induction l as [|x l IH]; intros H; [reflexivity|]. cbn [flat_map]. rewrite (H x (or_introl eq_refl)), IH; [reflexivity|]. intros y Hy. apply H. right. exact Hy. Qed.

Lemma descendants_reloc l : forall n v loc, (nesting v <= n)%nat -> descendants (l ++ loc) v = map (reloc l) (descendants loc v).
Proof.
  induction n as [|n IH]; intros v loc Hn; rewrite !descendants_unfold; cbn [map]; unfold reloc at 1; cbn [fst snd]; f_equal.
  - destruct v; cbn [nesting] in Hn; try lia; reflexivity.
  - change (l ++ loc, v) with (reloc l (loc, v)). rewrite children_reloc, flat_map_map, map_flat_map. apply flat_map_ext_in'.
    intros c Hc. unfold subtree. unfold reloc at 1 2. cbn [fst snd]. apply IH.
    pose proof (children_nesting (loc, v) c Hc) as Hlt. cbn [snd] in Hlt. lia.
Qed.

Lemma loc_eqb_app l a b : loc_eqb (l ++ a) (l ++ b) = loc_eqb a b.
Proof.
  destruct (loc_eqb a b) eqn:E.
  - apply loc_eqb_eq in E. subst. apply loc_eqb_refl.
  - apply loc_eqb_neq. intros H. apply app_inv_head in H. subst. rewrite loc_eqb_refl in E. discriminate.
Qed.
Lemma index_of_app l x : forall o i, index_of (l ++ x) (map (app l) o) i = index_of x o i.
Proof. induction o as [|y o IH]; intros i; [reflexivity|]. cbn [map index_of]. rewrite loc_eqb_app, IH. reflexivity. Qed.
Lemma before_app l o a b : before (map (app l) o) (l ++ a) (l ++ b) = before o a b.
Proof. unfold before. rewrite !index_of_app. reflexivity. Qed.
Lemma forallb_map {A B} (f : B -> bool) (g : A -> B) l : forallb f (map g l) = forallb (fun x => f (g x)) l.
Proof. induction l as [|x l IH]; [reflexivity|]. cbn [map forallb]. rewrite IH. reflexivity. Qed.

Lemma forallb_ext' {A} (f g : A -> bool) (l : list A) : (forall x, f x = g x) -> forallb f l = forallb g l.
Proof. intros H. induction l as [|x l IH]; [reflexivity|]. cbn [forallb]. rewrite H, IH. reflexivity. Qed.

Lemma valid_order_reloc l v o : valid_order (l, v) (map (app l) o) = valid_order ([], v) o.
Proof.
  unfold valid_order. cbn [fst snd].
  assert (Ed : descendants l v = map (reloc l) (descendants [] v)) by (rewrite <- (app_nil_r l) at 1; apply (descendants_reloc l (nesting v)); lia).
  rewrite Ed. rewrite !map_map. cbn [reloc fst]. rewrite !map_length.
  replace (map (fun x : node => l ++ fst x) (descendants [] v)) with (map (app l) (map fst (descendants [] v))) by (rewrite map_map; reflexivity).
  rewrite !forallb_map. f_equal; [f_equal|].
  - apply forallb_ext'. intros x. rewrite index_of_app. reflexivity.
  - apply forallb_ext'. intros x. rewrite <- (app_nil_r l) at 2. rewrite loc_eqb_app.
    destruct (loc_eqb x []) eqn:Ex; [reflexivity|].
    destruct (rev x) as [|k rp] eqn:Er.
    { apply (f_equal (@rev key)) in Er. rewrite rev_involutive in Er. subst x. discriminate Ex. }
    assert (Exx : x = rev rp ++ [k]) by (apply (f_equal (@rev key)) in Er; rewrite rev_involutive in Er; exact Er).
    rewrite Exx. rewrite app_assoc. rewrite !parent_and_prev_snoc. rewrite <- app_assoc. rewrite before_app.
    destruct k as [s|i]; [reflexivity|]. destruct (0 <? i); [|reflexivity]. rewrite <- !app_assoc. rewrite before_app. reflexivity.
Qed.

Lemma isc_reloc l n : isc (reloc l n) = isc n. Proof. reflexivity. Qed.
Lemma filter_isc_reloc l ns : filter isc (map (reloc l) ns) = map (reloc l) (filter isc ns).
Proof. induction ns as [|n ns IH]; [reflexivity|]. cbn [map filter]. rewrite isc_reloc. destruct (isc n); cbn [map]; rewrite IH; reflexivity. Qed.

(* C17_exhaustive from any node *)
Theorem nd_exhaustive_at limit loc v o : wf_json v = true -> (1 <= limit)%nat -> (nesting v <= limit)%nat ->
  Permutation o (descendants loc v) -> valid_order (loc, v) (map fst o) = true ->
  exists script ns, nd_visit limit script (loc, v) = Ok ns /\ filter isc ns = filter isc o.
Proof.
  intros Hw Hl Hn Hperm Hval.
  assert (Ed : descendants loc v = map (reloc loc) (descendants [] v)) by (rewrite <- (app_nil_r loc) at 1; apply (descendants_reloc loc (nesting v)); lia).
  rewrite Ed in Hperm. apply Permutation_map_inv in Hperm as (o' & -> & Hp').
  rewrite map_map in Hval. cbn [reloc fst] in Hval.
  replace (map (fun x : node => loc ++ fst x) o') with (map (app loc) (map fst o')) in Hval by (rewrite map_map; reflexivity).
  rewrite valid_order_reloc in Hval.
  destruct (nd_exhaustive limit v o' Hw Hl Hn (Permutation_sym Hp') Hval) as (script & ns & E & F).
  exists script, (map (reloc loc) ns). split.
  - pose proof (nd_visit_reloc loc limit script ([], v)) as H. unfold reloc at 1 in H. cbn [fst snd] in H. rewrite app_nil_r in H. rewrite H, E. reflexivity.
  - rewrite !filter_isc_reloc, F. reflexivity.
Qed.
