(* From the ABNF to spellings, the whole language with the built-in functions: the RFC grammar in which every function call is a well-typed use of
   length / count / value (value-typed: comparands and value arguments) or match / search (logical: tests), per RFC 9535 2.4.3 and the signatures of
   2.4.4 - 2.4.8 (bf_grammar).  Every string it derives compiles, in every environment that registers those five functions with those
   signatures and whose integer range contains the integers of the string.  The abstract machine of Proofs/LexSpell.v is run from arbitrary states
   (filters inside function arguments inside filters ...): the stacks it keeps are restored by every construct. *)
From JP Require Import Base.Prelude Base.Json Model.Regex Model.Tokens Model.Lex Model.Ast Model.PyFloat Model.Parse Model.Serialize Model.Api Spec.Abnf Spec.Rfc9535Grammar Spec.StringLit Spec.Types
  Proofs.StringProofs Proofs.LexString Proofs.LexNoCrash Proofs.LexInv Proofs.Requery Proofs.Reparse Proofs.NumMatch Proofs.ReparseF Proofs.ParseComplete Proofs.LexSpell Proofs.AbnfDerive Proofs.TextSound
  Proofs.EvalProofs Proofs.LexComplete Proofs.LexCompleteF Proofs.AbnfInvert Proofs.AbnfSpell Proofs.StringInQuery Proofs.AbnfSpellF.
From Coq Require Import ZifyBool ZifyN.

From JP Require Import Spec.BuiltinGrammar.
Notation DB := (derives bf_grammar).

(* rules whose derivations do not reach a function call: the same in both grammars *)
Definition lex_rules : list rule :=
  [r_B; r_S; r_string_literal; r_double_quoted; r_single_quoted; r_unescaped; r_escapable; r_hexchar; r_non_surrogate; r_high_surrogate; r_low_surrogate; r_HEXDIG;
   r_int; r_DIGIT1; r_slice_selector; r_literal; r_comparison_op; r_singular_query; r_singular_query_segments; r_name_segment; r_index_segment; r_number;
   r_frac; r_exp; r_member_name_shorthand; r_name_first; r_name_char; r_DIGIT; r_ALPHA].
Fixpoint lexexp (e : gexp) : bool :=
  match e with
  | GEps | GRange _ _ => true
  | GSeq a b | GAlt a b => lexexp a && lexexp b
  | GStar a => lexexp a
  | GRef n => existsb (fun r => Nat.eqb (rule_id r) n) lex_rules
  end.
Lemma lex_closed : forallb (fun r => lexexp (rule_body r)) lex_rules = true. Proof. vm_compute. reflexivity. Qed.
Lemma lex_same n : existsb (fun r => Nat.eqb (rule_id r) n) lex_rules = true -> bf_grammar n = rfc_grammar n /\ lexexp (rfc_grammar n) = true.
Proof.
  intros H. apply existsb_exists in H as (r & Hr & E). apply Nat.eqb_eq in E. subst n.
  assert (Hb : lexexp (rule_body r) = true) by (pose proof lex_closed as C; rewrite forallb_forall in C; apply C; exact Hr).
  unfold rfc_grammar, bf_grammar. rewrite all_rules_indexed. split; [|exact Hb].
  cbn [lex_rules In] in Hr. repeat (destruct Hr as [<- | Hr]; [reflexivity|]). contradiction.
Qed.
Lemma db_lex e s : DB e s -> lexexp e = true -> D e s.
Proof.
  intros H. induction H; cbn [lexexp]; intros Hl.
  - constructor.
  - constructor; assumption.
  - apply andb_true_iff in Hl as [A B]. constructor; auto.
  - apply andb_true_iff in Hl as [A B]. apply DAltL; auto.
  - apply andb_true_iff in Hl as [A B]. apply DAltR; auto.
  - constructor.
  - apply DStarS; auto.
  - destruct (lex_same n Hl) as [E1 E2]. apply DRef. rewrite <- E1. apply IHderives. rewrite E1. exact E2.
Qed.
Lemma db_rule r s : In r lex_rules -> DB (R r) s -> D (R r) s.
Proof. intros Hr H. apply (db_lex _ _ H). cbn [R lexexp]. apply existsb_exists. exists r. split; [exact Hr | apply Nat.eqb_refl]. Qed.

(* generic inversion for this grammar *)
Lemma b_ref n s : DB (GRef n) s -> DB (bf_grammar n) s.
Proof. intros H. inversion H; subst. assumption. Qed.
Lemma b_seq a b s : DB (GSeq a b) s -> exists s1 s2, s = s1 ++ s2 /\ DB a s1 /\ DB b s2.
Proof. intros H. inversion H; subst. eexists; eexists; split; [reflexivity | split; assumption]. Qed.
Lemma b_alt a b s : DB (GAlt a b) s -> DB a s \/ DB b s.
Proof. intros H. inversion H; subst; [left | right]; assumption. Qed.
Lemma b_eps s : DB GEps s -> s = []. Proof. intros H. inversion H. reflexivity. Qed.
Lemma b_C c s : DB (C c) s -> s = [c]. Proof. intros H. apply i_C. apply (db_lex _ _ H). reflexivity. Qed.
Lemma b_opt a s : DB (GOpt a) s -> DB a s \/ s = [].
Proof. intros H. apply b_alt in H as [H | H]; [left; exact H | right; apply b_eps; exact H]. Qed.
Lemma b_S b : DB S_ b -> blanks b. Proof. intros H. apply i_S. apply (db_rule r_S); [cbn; tauto | exact H]. Qed.
Lemma lexexp_lit : forall l, lexexp (GLit l) = true.
Proof. induction l as [|c l IH]; [reflexivity|]. destruct l as [|d l']; [reflexivity|]. change (GLit (c :: d :: l')) with (GSeq (GChar c) (GLit (d :: l'))). cbn [lexexp GChar]. exact IH. Qed.
Lemma b_lit l s : DB (GLit l) s -> s = l.
Proof. intros H. apply (i_lit l). apply (db_lex _ _ H). apply lexexp_lit. Qed.
Lemma bf_rule r : r <> r_comparable -> r <> r_test_expr -> bf_grammar (rule_id r) = rule_body r.
Proof. intros H1 H2. unfold bf_grammar. rewrite all_rules_indexed. destruct r; try reflexivity; congruence. Qed.

(* ---- abstract states with arbitrary stacks ---- *)
Definition ok0 (a : ast) : Prop := 0 <= afd a /\ Forall (fun n => 1 <= n) (afcs a).
Definition okF (f : ast) : Prop := 1 <= afd f /\ Forall (fun n => 1 <= n) (afcs f) /\ exists d0 r, affd f = d0 :: r /\ d0 <= zlen (afcs f).
Definition enter (a : ast) : ast := mkA MFil (afd a + 1) (zlen (afcs a) :: affd a) (afcs a).
Definition incall (f : ast) : ast := mkA MFil (afd f) (affd f) (1 :: afcs f).
Definition inpar (f : ast) : ast := mkA MFil (afd f) (affd f) (bump (afcs f)).
Lemma ok0_mode a m : ok0 a -> ok0 (amode_set a m). Proof. intros H. exact H. Qed.
Lemma okF_mode f m : okF f -> okF (amode_set f m). Proof. intros H. exact H. Qed.
Lemma okF_ok0 f : okF f -> ok0 f. Proof. intros (A & B & _). split; [lia | exact B]. Qed.
Lemma okF_enter a : ok0 a -> okF (enter a).
Proof. intros (A & B). split; [cbn [enter afd]; lia|]. split; [exact B|]. exists (zlen (afcs a)), (affd a). split; [reflexivity | cbn [enter afcs]; lia]. Qed.
Lemma okF_call f : okF f -> okF (incall f).
Proof.
  intros (A & B & d0 & r & E & Hd). split; [exact A|]. split; [cbn [incall afcs]; constructor; [lia | exact B]|]. exists d0, r. split; [exact E|].
  cbn [incall afcs]. unfold zlen in *. cbn [length]. lia.
Qed.
Lemma okF_par f : okF f -> okF (inpar f).
Proof.
  intros (A & B & d0 & r & E & Hd). split; [exact A|]. split; [|exists d0, r; split; [exact E|]]; cbn [inpar afcs]; destruct (afcs f) as [|n l]; cbn [bump]; try assumption.
  all: try (inversion B; subst; constructor; [lia | assumption]).
  all: try (unfold zlen in *; cbn [length] in *; lia).
Qed.
Lemma nz f : okF f -> (afd f =? 0) = false. Proof. intros (A & _). lia. Qed.

Definition fmode (m : amode) : Prop := m = MFil \/ m = MSeg.
(* tokens after which the machine is in the filter state with the same stacks *)
Definition fil_ty0 (T : ttype) : Prop :=
  T = T_SQ_STRING \/ T = T_DQ_STRING \/ T = T_NOT \/ T = T_NE \/ T = T_EQ \/ T = T_LE \/ T = T_LT \/ T = T_GE \/ T = T_GT \/ T = T_AND \/ T = T_OR \/ T = T_TRUE \/ T = T_FALSE \/ T = T_NULL
  \/ T = T_FLOAT \/ T = T_INT.
Lemma a_fil f m T : okF f -> fmode m -> fil_ty0 T -> astep (amode_set f m) T = Some (GBl, amode_set f MFil).
Proof.
  intros Hf Hm HT. pose proof (nz f Hf) as Hz. unfold fil_ty0 in HT.
  destruct Hm as [-> | ->]; cbn [astep am amode_set afd]; repeat (destruct HT as [-> | HT]); try subst T; rewrite ?Hz; reflexivity.
Qed.
Lemma a_query f m T : okF f -> fmode m -> T = T_ROOT \/ T = T_CURRENT -> astep (amode_set f m) T = Some (GBl, amode_set f MSeg).
Proof. intros Hf Hm HT. pose proof (nz f Hf) as Hz. destruct Hm as [-> | ->], HT as [-> | ->]; cbn [astep am amode_set afd]; rewrite ?Hz; reflexivity. Qed.
Lemma a_lp f m : okF f -> fmode m -> astep (amode_set f m) T_LPAREN = Some (GBl, inpar f).
Proof. intros Hf Hm. pose proof (nz f Hf) as Hz. destruct Hm as [-> | ->]; cbn [astep am amode_set afd]; rewrite ?Hz; reflexivity. Qed.
Lemma a_rp_par f m : okF f -> fmode m -> astep (amode_set (inpar f) m) T_RPAREN = Some (GBl, amode_set f MFil).
Proof.
  intros Hf Hm. pose proof (nz f Hf) as Hz. destruct Hf as (_ & B & _).
  assert (E : fil_step (amode_set (inpar f) m) T_RPAREN = Some (GBl, amode_set f MFil)).
  { cbn [fil_step amode_set inpar afd affd afcs]. fold (unbump (bump (afcs f))). rewrite (unbump_bump _ B). reflexivity. }
  destruct Hm as [-> | ->]; cbn [astep am amode_set inpar afd]; rewrite ?Hz; exact E.
Qed.
Lemma a_fn f m : okF f -> fmode m -> astep (amode_set f m) T_FUNCTION = Some (GBl, incall f).
Proof. intros Hf Hm. pose proof (nz f Hf) as Hz. destruct Hm as [-> | ->]; cbn [astep am amode_set afd]; rewrite ?Hz; reflexivity. Qed.
Lemma a_rp_call f m : okF f -> fmode m -> astep (amode_set (incall f) m) T_RPAREN = Some (GBl, amode_set f MFil).
Proof. intros Hf Hm. pose proof (nz f Hf) as Hz. destruct Hm as [-> | ->]; cbn [astep am amode_set incall afd]; rewrite ?Hz; reflexivity. Qed.
Lemma a_comma_call f m : okF f -> fmode m -> astep (amode_set (incall f) m) T_COMMA = Some (GBl, amode_set (incall f) MFil).
Proof.
  intros Hf Hm. pose proof (nz f Hf) as Hz. destruct Hf as (_ & _ & d0 & r & E & Hd).
  assert (E1 : fil_step (amode_set (incall f) m) T_COMMA = Some (GBl, amode_set (incall f) MFil)).
  { cbn [fil_step amode_set incall afd affd afcs]. rewrite E. replace (d0 <? zlen (1 :: afcs f)) with true by (unfold zlen in *; cbn [length]; lia). reflexivity. }
  destruct Hm as [-> | ->]; cbn [astep am amode_set incall afd]; rewrite ?Hz; exact E1.
Qed.
Lemma a_enter a : astep (amode_set a MBrk) T_FILTER = Some (GBl, enter a). Proof. reflexivity. Qed.
Lemma a_close a m : ok0 a -> fmode m -> astep (amode_set (enter a) m) T_RBRACKET = Some (GBl, amode_set a MSeg).
Proof.
  intros (A & _) Hm. assert (Hz : (afd a + 1 =? 0) = false) by lia.
  assert (E : fil_step (amode_set (enter a) m) T_RBRACKET = Some (GBl, amode_set a MSeg)).
  { cbn [fil_step amode_set enter afd affd afcs]. replace (afd a + 1 - 1) with (afd a) by lia. reflexivity. }
  destruct Hm as [-> | ->]; cbn [astep am amode_set enter afd]; rewrite ?Hz; exact E.
Qed.
Lemma a_comma_out a m : ok0 a -> fmode m -> astep (amode_set (enter a) m) T_COMMA = Some (GBl, amode_set a MBrk).
Proof.
  intros (A & _) Hm. assert (Hz : (afd a + 1 =? 0) = false) by lia.
  assert (E : fil_step (amode_set (enter a) m) T_COMMA = Some (GBl, amode_set a MBrk)).
  { cbn [fil_step amode_set enter afd affd afcs]. rewrite Z.ltb_irrefl. replace (afd a + 1 - 1) with (afd a) by lia. reflexivity. }
  destruct Hm as [-> | ->]; cbn [astep am amode_set enter afd]; rewrite ?Hz; exact E.
Qed.

Section AtState.
  Variable st0 : ast.

(* ---- inside brackets: continuation that accepts any blanks first ---- *)
Definition BKa (t' : list token) (z' : list N) (a' : ast) : Prop := forall b, blanks b -> RunT (amode_set st0 MBrk) t' (b ++ z') a'.
Lemma bka_blank S t' z' a' : blanks S -> BKa t' z' a' -> BKa t' (S ++ z') a'.
Proof. intros HS H b Hb. rewrite app_assoc. apply H. apply blanks_app; assumption. Qed.
Lemma bka_tok T v i t' z' a' : brk_ty T -> tshape T v -> BKa t' z' a' -> BKa (tk T v i :: t') (pre GBl T ++ v ++ post T ++ z') a'.
Proof.
  intros HT Hv H b Hb. apply (RT_cons (amode_set st0 MBrk) (tk T v i) GBl (amode_set st0 MBrk) b t' ([] ++ z') a'); [| exact Hb | discriminate | exact Hv | apply H; reflexivity].
  cbn [ty tk]. destruct HT as [-> | [-> | [-> | [-> | [-> | ->]]]]]; reflexivity.
Qed.


  (* an integer of the ABNF as an INDEX token *)
  Lemma bka_int s : D (R r_int) s -> exists i, int_text_ok s i /\ forall j t' z' a', BKa t' z' a' -> BKa (tk T_INDEX s j :: t') (s ++ z') a'.
  Proof.
    intros H. pose proof (abnf_int s H) as Hi. exists (int_of_index s). split; [exact Hi|]. intros j t' z' a' HK.
    apply (bka_tok T_INDEX s j t' z' a' ltac:(unfold brk_ty; tauto) (pm_index _ _ Hi) HK).
  Qed.

  (* [int S] in front of a continuation *)
  Lemma bka_opt_int_S s : D (GOpt (GSeq (R r_int) S_)) s ->
    exists (o : option Z) B, 0 <= B /\ (forall cfg, wide cfg B -> exists t, OptI cfg o t /\ forall t' z' a', BKa t' z' a' -> BKa (t ++ t') (s ++ z') a').
  Proof.
    intros H. apply i_opt in H as [H | ->].
    - apply i_seq in H as (ds & S & -> & Hd & HS). apply i_S in HS. destruct (bka_int ds Hd) as (i & Hi & HK).
      exists (Some i), (Z.abs i). split; [lia|]. intros cfg Hw. exists [tk T_INDEX ds 0]. split.
      + cbn [OptI]. exists ds, 0. split; [reflexivity|]. split; [exact Hi | apply (wide_in cfg (Z.abs i)); [exact Hw | lia]].
      + intros t' z' a' K. cbn [app]. rewrite <- app_assoc. apply HK. apply bka_blank; assumption.
    - exists None, 0. split; [lia|]. intros cfg _. exists []. split; [reflexivity|]. intros t' z' a' K. exact K.
  Qed.
  (* [S int] *)
  Lemma bka_opt_S_int s : D (GOpt (GSeq S_ (R r_int))) s ->
    exists (o : option Z) B, 0 <= B /\ (forall cfg, wide cfg B -> exists t, OptI cfg o t /\ forall t' z' a', BKa t' z' a' -> BKa (t ++ t') (s ++ z') a').
  Proof.
    intros H. apply i_opt in H as [H | ->].
    - apply i_seq in H as (S & ds & -> & HS & Hd). apply i_S in HS. destruct (bka_int ds Hd) as (i & Hi & HK).
      exists (Some i), (Z.abs i). split; [lia|]. intros cfg Hw. exists [tk T_INDEX ds 0]. split.
      + cbn [OptI]. exists ds, 0. split; [reflexivity|]. split; [exact Hi | apply (wide_in cfg (Z.abs i)); [exact Hw | lia]].
      + intros t' z' a' K. cbn [app]. rewrite <- app_assoc. apply bka_blank; [exact HS|]. apply HK. exact K.
    - exists None, 0. split; [lia|]. intros cfg _. exists []. split; [reflexivity|]. intros t' z' a' K. exact K.
  Qed.

  Lemma bka_colon i t' z' a' : BKa t' z' a' -> BKa (tk T_COLON [58%N] i :: t') ([58%N] ++ z') a'.
  Proof. intros K. apply (bka_tok T_COLON [58%N] i t' z' a' ltac:(unfold brk_ty; tauto) eq_refl K). Qed.

  (* slice-selector = [start S] ":" S [end S] [":" [S step ]] *)
  Lemma bka_slice s : D (R r_slice_selector) s ->
    exists a b c B, 0 <= B /\ forall cfg, wide cfg B -> exists t, t <> [] /\ SelT cfg (SSlice a b c) t /\ forall t' z' a', BKa t' z' a' -> BKa (t ++ t') (s ++ z') a'.
  Proof.
    intros H. apply i_ref in H. cbn [rule_body GSeqs] in H.
    apply i_seq in H as (s1 & r & -> & H1 & H). apply i_seq in H as (c1 & r1 & -> & Hc & H). apply i_seq in H as (S2 & r2 & -> & HS2 & H). apply i_seq in H as (s3 & s4 & -> & H3 & H4).
    apply i_C in Hc. subst c1. apply i_S in HS2.
    destruct (bka_opt_int_S s1 H1) as (a & Ba & Ba0 & Ka). destruct (bka_opt_int_S s3 H3) as (b & Bb & Bb0 & Kb).
    assert (Hstep : exists c Bc, 0 <= Bc /\ forall cfg, wide cfg Bc -> exists tc, StepT cfg c tc /\ forall t' z' a', BKa t' z' a' -> BKa (tc ++ t') (s4 ++ z') a').
    { apply i_opt in H4 as [H4 | ->].
      - apply i_seq in H4 as (c2 & s5 & -> & Hc2 & H5). apply i_C in Hc2. subst c2. destruct (bka_opt_S_int s5 H5) as (c & Bc & Bc0 & Kc).
        exists c, Bc. split; [exact Bc0|]. intros cfg Hw. destruct (Kc cfg Hw) as (tc & Hoc & Kc'). exists (tk T_COLON [58%N] 0 :: tc). split.
        + right. exists [58%N], 0, tc. split; [reflexivity | exact Hoc].
        + intros t' z' a' K. cbn [app]. apply (bka_colon 0 (tc ++ t') (s5 ++ z') a'). apply Kc'. exact K.
      - exists None, 0. split; [lia|]. intros cfg _. exists []. split; [left; split; reflexivity|]. intros t' z' a' K. exact K. }
    destruct Hstep as (c & Bc & Bc0 & Kc).
    exists a, b, c, (Z.max Ba (Z.max Bb Bc)). split; [apply Z.le_trans with Ba; [exact Ba0 | apply Z.le_max_l]|]. intros cfg Hw.
    destruct (Ka cfg (wide_le cfg _ Ba (Z.le_max_l _ _) Hw)) as (ta & Hoa & Ka'). destruct (Kb cfg (wide_le cfg _ Bb (Z.le_trans _ _ _ (Z.le_max_l Bb Bc) (Z.le_max_r Ba _)) Hw)) as (tb & Hob & Kb').
    destruct (Kc cfg (wide_le cfg _ Bc (Z.le_trans _ _ _ (Z.le_max_r Bb Bc) (Z.le_max_r Ba _)) Hw)) as (tc & Hoc & Kc').
    exists (ta ++ tk T_COLON [58%N] 0 :: tb ++ tc). split; [destruct ta; discriminate|]. split; [apply st_slice; assumption|].
    intros t' z' a' K. rewrite <- !app_assoc. cbn [app]. rewrite <- !app_assoc. apply Ka'. apply bka_colon. apply bka_blank; [exact HS2|]. apply Kb'. apply Kc'. exact K.
  Qed.


  Lemma bka_string s : D (R r_string_literal) s ->
    exists k, forall cfg, exists t, SelT cfg (SName k) [t] /\ forall t' z' a', BKa t' z' a' -> BKa (t :: t') (s ++ z') a'.
  Proof.
    intros H. apply abnf_string in H as (q & body & k & -> & Hq & Hd). exists k. intros cfg.
    assert (Hq' : q = 39%N \/ q = 34%N) by (destruct Hq; tauto).
    destruct (spec_lex_ok q Hq' (length body) body k (le_n _) Hd) as [Hlok Hsc].
    destruct Hq as [-> | ->].
    - exists (tk T_SQ_STRING body 0). split.
      + apply st_name; [left; reflexivity|]. unfold tk. rewrite (decode_sq body 0 Hlok Hsc), Hd. reflexivity.
      + intros t' z' a' K. replace ((39%N :: body ++ [39%N]) ++ z') with (pre GBl T_SQ_STRING ++ body ++ post T_SQ_STRING ++ z') by (cbn [pre post app]; rewrite <- app_assoc; reflexivity).
        apply bka_tok; [unfold brk_ty; tauto | exact Hlok | exact K].
    - exists (tk T_DQ_STRING body 0). split.
      + apply st_name; [right; reflexivity|]. unfold tk. rewrite (decode_dq body 0 Hlok Hsc), Hd. reflexivity.
      + intros t' z' a' K. replace ((34%N :: body ++ [34%N]) ++ z') with (pre GBl T_DQ_STRING ++ body ++ post T_DQ_STRING ++ z') by (cbn [pre post app]; rewrite <- app_assoc; reflexivity).
        apply bka_tok; [unfold brk_ty; tauto | exact Hlok | exact K].
  Qed.


End AtState.

(* ---- inside a filter, at any state ---- *)
Definition FKa (f : ast) (t' : list token) (z' : list N) (a' : ast) : Prop :=
  forall b, blanks b -> forall m, fmode m -> RunT (amode_set f m) t' (b ++ z') a'.
Lemma fka_blank f S t' z' a' : blanks S -> FKa f t' z' a' -> FKa f t' (S ++ z') a'.
Proof. intros HS H b Hb m Hm. rewrite app_assoc. apply H; [apply blanks_app; assumption | exact Hm]. Qed.
Lemma fka_tok f T v i t' z' a' : okF f -> fil_ty0 T -> tshape T v -> FKa f t' z' a' -> FKa f (tk T v i :: t') (pre GBl T ++ v ++ post T ++ z') a'.
Proof.
  intros Hf HT Hv H b Hb m Hm. apply (RT_cons (amode_set f m) (tk T v i) GBl (amode_set f MFil) b t' ([] ++ z') a'); [apply a_fil; assumption | exact Hb | discriminate | exact Hv|].
  apply (H [] eq_refl MFil). left. reflexivity.
Qed.
(* one token that moves between related states *)
Lemma fka_step f g T v i t' z' a' : (forall m, fmode m -> astep (amode_set f m) T = Some (GBl, amode_set g MFil)) -> tshape T v -> pre GBl T = [] ->
  FKa g t' z' a' -> FKa f (tk T v i :: t') (v ++ post T ++ z') a'.
Proof.
  intros Hs Hv Hp H b Hb m Hm. replace (b ++ v ++ post T ++ z') with (b ++ pre GBl T ++ v ++ post T ++ ([] ++ z')) by (rewrite Hp; reflexivity).
  apply (RT_cons (amode_set f m) (tk T v i) GBl (amode_set g MFil) b t' ([] ++ z') a'); [apply Hs; exact Hm | exact Hb | discriminate | exact Hv|].
  apply (H [] eq_refl MFil). left. reflexivity.
Qed.
Lemma mfil_id g : am g = MFil -> amode_set g MFil = g. Proof. intros H. destruct g; cbn in *; subst; reflexivity. Qed.

Lemma fka_lparen f t' z' a' : okF f -> FKa (inpar f) t' z' a' -> FKa f (tk T_LPAREN [40%N] 0 :: t') ([40%N] ++ z') a'.
Proof. intros Hf K. apply (fka_step f (inpar f) T_LPAREN [40%N] 0 t' z' a'); [intros m Hm; rewrite (mfil_id (inpar f) eq_refl); apply a_lp; assumption | reflexivity | reflexivity | exact K]. Qed.
Lemma fka_rparen f t' z' a' : okF f -> FKa f t' z' a' -> FKa (inpar f) (tk T_RPAREN [41%N] 0 :: t') ([41%N] ++ z') a'.
Proof. intros Hf K. apply (fka_step (inpar f) f T_RPAREN [41%N] 0 t' z' a'); [intros m Hm; apply a_rp_par; assumption | reflexivity | reflexivity | exact K]. Qed.
Lemma fka_call_open f fn t' z' a' : okF f -> pmatch RE_FUNCTION_NAME fn -> FKa (incall f) t' z' a' -> FKa f (tk T_FUNCTION fn 0 :: t') (fn ++ [40%N] ++ z') a'.
Proof. intros Hf Hfn K. apply (fka_step f (incall f) T_FUNCTION fn 0 t' z' a'); [intros m Hm; rewrite (mfil_id (incall f) eq_refl); apply a_fn; assumption | exact Hfn | reflexivity | exact K]. Qed.
Lemma fka_call_close f t' z' a' : okF f -> FKa f t' z' a' -> FKa (incall f) (tk T_RPAREN [41%N] 0 :: t') ([41%N] ++ z') a'.
Proof. intros Hf K. apply (fka_step (incall f) f T_RPAREN [41%N] 0 t' z' a'); [intros m Hm; apply a_rp_call; assumption | reflexivity | reflexivity | exact K]. Qed.
Lemma fka_call_comma f t' z' a' : okF f -> FKa (incall f) t' z' a' -> FKa (incall f) (tk T_COMMA [44%N] 0 :: t') ([44%N] ++ z') a'.
Proof. intros Hf K. apply (fka_step (incall f) (incall f) T_COMMA [44%N] 0 t' z' a'); [intros m Hm; apply a_comma_call; assumption | reflexivity | reflexivity | exact K]. Qed.

(* what follows a filter selector inside its brackets reads the same from the filter *)
Lemma bka_to_fka a t' z' a' : ok0 a -> cr_head t' -> BKa a t' z' a' -> FKa (enter a) t' z' a'.
Proof.
  intros Ha (tok & t'' & -> & Hty) K b Hb m Hm. specialize (K b Hb). apply RunT_cons_inv in K as (k & a1 & b0 & z0 & Hs & Hb0 & Hn & Ht & HR & E). rewrite E.
  apply (RT_cons (amode_set (enter a) m) tok k a1 b0 t'' z0 a'); [| exact Hb0 | exact Hn | exact Ht | exact HR].
  destruct Hty as [E1 | E1]; rewrite E1 in *.
  - assert (E0 : astep (amode_set a MBrk) T_COMMA = Some (GBl, amode_set a MBrk)) by reflexivity. rewrite E0 in Hs. inversion Hs; subst. apply a_comma_out; assumption.
  - assert (E0 : astep (amode_set a MBrk) T_RBRACKET = Some (GBl, amode_set a MSeg)) by reflexivity. rewrite E0 in Hs. inversion Hs; subst. apply a_close; assumption.
Qed.

Definition ECPSa (f : ast) (t : list token) (s : list N) : Prop := forall t' z' a', FKa f t' z' a' -> FKa f (t ++ t') (s ++ z') a'.

(* literal *)
Lemma fka_literal f s : okF f -> D (R r_literal) s -> exists v, forall cfg, exists t, CT cfg (ELit v) [t] /\ ECPSa f [t] s.
Proof.
  intros Hf H. apply i_ref in H. cbn [rule_body GAlts] in H.
  assert (Word : forall T w v0, fil_ty0 T -> tshape T w -> pre GBl T = [] -> post T = [] -> (forall i, lit_tok v0 (tk T w i)) -> s = w ->
            exists v, forall cfg, exists t, CT cfg (ELit v) [t] /\ ECPSa f [t] s).
  { intros T w v0 HT Hw Hpre Hpost Hl ->. exists v0. intros cfg. exists (tk T w 0). split; [apply ct_lit; apply Hl|]. intros t' z' a' K.
    pose proof (fka_tok f T w 0 t' z' a' Hf HT Hw K) as K'. rewrite Hpre, Hpost in K'. exact K'. }
  apply i_alt in H as [H | H].
  { destruct (abnf_number s H) as (Hz & Hform & x & Hx). destruct Hform as [Hfm | Hfm].
    - apply (Word T_INT s (JNum (match py_int_of_float x with Some z => NInt z | None => x end))); try reflexivity; [unfold fil_ty0; tauto | apply pm_int; exact Hfm|].
      intros i. right. right. right. right. left. split; [reflexivity|]. split; [exact Hz|]. exists x. split; [exact Hx | reflexivity].
    - apply (Word T_FLOAT s (JNum x)); try reflexivity; [unfold fil_ty0; tauto | apply pm_float; exact Hfm|].
      intros i. right. right. right. right. right. split; [reflexivity|]. split; [exact Hz|]. exists x. split; [exact Hx | reflexivity]. }
  apply i_alt in H as [H | H].
  { apply abnf_string in H as (q & body & k & -> & Hq & Hd). destruct (string_token q body k Hq Hd) as (Hlok & Hsc & Hdec & Hsh & Hpre & Hpost & Hty).
    exists (JStr k). intros cfg. exists (tk (tt_q q) body 0). split.
    - apply ct_lit. right. right. right. left. split; [exact Hty|]. exists k. split; [apply Hdec | reflexivity].
    - intros t' z' a' K. assert (HT : fil_ty0 (tt_q q)) by (destruct Hty as [-> | ->]; unfold fil_ty0; tauto).
      pose proof (fka_tok f _ body 0 t' z' a' Hf HT Hsh K) as K'. rewrite Hpre, Hpost in K'. cbn [app] in *. rewrite <- app_assoc. exact K'. }
  apply i_alt in H as [H | H]; [apply i_lit in H; apply (Word T_TRUE s_true (JBool true)); try reflexivity; [unfold fil_ty0; tauto | intros i; left; split; reflexivity | exact H]|].
  apply i_alt in H as [H | H]; [apply i_lit in H; apply (Word T_FALSE s_false (JBool false)); try reflexivity; [unfold fil_ty0; tauto | intros i; right; left; split; reflexivity | exact H]|].
  apply i_lit in H. apply (Word T_NULL s_null JNull); try reflexivity; [unfold fil_ty0; tauto | intros i; right; right; left; split; reflexivity | exact H].
Qed.

(* ---- environments: the integer range, and the five functions of RFC 9535 with their signatures ---- *)
Definition sig_ok (cfg : envcfg) (f : str) (args : list ty3) (ret : ty3) : Prop := exists d, find_assoc f (reg cfg) = Some d /\ f_args d = args /\ f_ret d = ret.
Definition std (cfg : envcfg) : Prop :=
  sig_ok cfg s_length [TValue] TValue /\ sig_ok cfg s_count [TNodes] TValue /\ sig_ok cfg s_value [TNodes] TValue /\
  sig_ok cfg s_match [TValue; TValue] TLogical /\ sig_ok cfg s_search [TValue; TValue] TLogical.
Definition WD (cfg : envcfg) (B : Z) : Prop := wide cfg B /\ std cfg.
Lemma WD_le cfg B B' : B' <= B -> WD cfg B -> WD cfg B'. Proof. intros H [A S]. split; [eapply wide_le; eassumption | exact S]. Qed.
Lemma WD_l cfg B1 B2 : WD cfg (Z.max B1 B2) -> WD cfg B1. Proof. apply WD_le. apply Z.le_max_l. Qed.
Lemma WD_r cfg B1 B2 : WD cfg (Z.max B1 B2) -> WD cfg B2. Proof. apply WD_le. apply Z.le_max_r. Qed.

Lemma nb_ref r s : r <> r_comparable -> r <> r_test_expr -> DB (R r) s -> DB (rule_body r) s.
Proof. intros H1 H2 H. unfold R in H. apply b_ref in H. rewrite (bf_rule r H1 H2) in H. exact H. Qed.
Lemma dbl r s : In r lex_rules -> DB (R r) s -> D (R r) s. Proof. apply db_rule. Qed.

Definition SelCPSa (a : ast) (s : list N) : Prop :=
  exists B, 0 <= B /\ forall cfg, WD cfg B -> exists sel t, t <> [] /\ SelT cfg sel t /\ forall t' z' a', cr_head t' -> BKa a t' z' a' -> BKa a (t ++ t') (s ++ z') a'.
Definition SegRunA (a : ast) (s : list N) : Prop :=
  exists B, 0 <= B /\ forall cfg, WD cfg B -> exists g t, SegT cfg g t /\ forall b, blanks b -> RunT (amode_set a MSeg) t (b ++ s) (amode_set a MSeg).

Lemma bka_close a : BKa a [tk T_RBRACKET [93%N] 0] [93%N] (amode_set a MSeg).
Proof. intros b Hb. apply (RT_cons (amode_set a MBrk) (tk T_RBRACKET [93%N] 0) GBl (amode_set a MSeg) b [] [] (amode_set a MSeg)); [reflexivity | exact Hb | discriminate | reflexivity | constructor]. Qed.

Section RecA.
  Variable NN : nat.
  Hypothesis IHsel : forall a s, ok0 a -> (length s < NN)%nat -> DB (R r_selector) s -> SelCPSa a s.

  Lemma bka_more a s : ok0 a -> (length s <= NN)%nat -> DB (GStar (GSeqs [S_; C 44; S_; R r_selector])) s ->
    exists B, 0 <= B /\ forall cfg, WD cfg B ->
      exists rest tr, (forall s0 t0, SelT cfg s0 t0 -> SelsT cfg (s0 :: rest) (t0 ++ tr)) /\ (tr = [] \/ cr_head tr) /\
                 forall t' z' a', cr_head t' -> BKa a t' z' a' -> BKa a (tr ++ t') (s ++ z') a'.
  Proof.
    intros Ha Hlen H. remember (GStar (GSeqs [S_; C 44; S_; R r_selector])) as g eqn:Eg. induction H; try discriminate Eg.
    - exists 0. split; [lia|]. intros cfg _. exists [], []. split; [intros s0 t0 H0; rewrite app_nil_r; apply ss_one; exact H0|]. split; [left; reflexivity | intros t' z' a' _ K; exact K].
    - inversion Eg; subst a0. clear IHderives1. assert (Hl2 : (length s2 <= NN)%nat) by (rewrite app_length in Hlen; lia). destruct (IHderives2 Hl2 eq_refl) as (B2 & B20 & K2).
      cbn [GSeqs] in H0. apply b_seq in H0 as (S1 & r & -> & HS1 & H0). apply b_seq in H0 as (c & r1 & -> & Hc & H0). apply b_seq in H0 as (S2 & sl & -> & HS2 & Hsel).
      apply b_C in Hc. subst c. apply b_S in HS1. apply b_S in HS2.
      assert (Hls : (length sl < NN)%nat) by (rewrite !app_length in Hlen; cbn [length] in Hlen; lia).
      destruct (IHsel a sl Ha Hls Hsel) as (B1 & B10 & K1).
      exists (Z.max B1 B2). split; [apply max_l0; exact B10|].
      intros cfg Hw. destruct (K1 cfg (WD_l _ _ _ Hw)) as (sel & t1 & Hne1 & HS1' & C1). destruct (K2 cfg (WD_r _ _ _ Hw)) as (rest & tr & HS2' & Htr & C2).
      exists (sel :: rest), (tk T_COMMA [44%N] 0 :: t1 ++ tr). split; [|split].
      + intros s0 t0 H00. apply ss_cons; [exact H00 | apply HS2'; exact HS1'].
      + right. eexists; eexists. split; [reflexivity | left; reflexivity].
      + intros t' z' a' Hh K. rewrite <- !app_assoc. cbn [app]. rewrite <- !app_assoc. apply bka_blank; [exact HS1|].
        apply (bka_tok a T_COMMA [44%N] 0 _ _ a' ltac:(unfold brk_ty; tauto) eq_refl). apply bka_blank; [exact HS2|]. apply C1.
        * destruct Htr as [-> | (tok & t'' & -> & Hty)]; [exact Hh | exists tok, (t'' ++ t'); split; [reflexivity | exact Hty]].
        * apply C2; assumption.
  Qed.

  Lemma brk_innerA a s : ok0 a -> (length s <= NN)%nat -> DB (R r_bracketed_selection) s ->
    exists B inner, s = 91%N :: inner /\ 0 <= B /\ forall cfg, WD cfg B ->
      exists ss t, SelsT cfg ss t /\ RunT (amode_set a MBrk) (t ++ [tk T_RBRACKET [93%N] 0]) inner (amode_set a MSeg).
  Proof.
    intros Ha Hlen H. apply nb_ref in H; try discriminate. cbn [rule_body GSeqs] in H.
    apply b_seq in H as (lb & r & -> & Hlb & H). apply b_seq in H as (S1 & r1 & -> & HS1 & H). apply b_seq in H as (sl & r2 & -> & Hsel & H).
    apply b_seq in H as (more & r3 & -> & Hmore & H). apply b_seq in H as (S2 & rb & -> & HS2 & Hrb).
    apply b_C in Hlb. apply b_C in Hrb. subst lb rb. apply b_S in HS1. apply b_S in HS2.
    assert (Hl1 : (length sl < NN)%nat) by (rewrite !app_length in Hlen; cbn [length] in Hlen; lia).
    assert (Hl2 : (length more <= NN)%nat) by (rewrite !app_length in Hlen; cbn [length] in Hlen; lia).
    destruct (IHsel a sl Ha Hl1 Hsel) as (B1 & B10 & K1). destruct (bka_more a more Ha Hl2 Hmore) as (B2 & B20 & K2).
    exists (Z.max B1 B2), (S1 ++ sl ++ more ++ S2 ++ [93%N]). split; [reflexivity|]. split; [apply max_l0; exact B10|]. intros cfg Hw.
    destruct (K1 cfg (WD_l _ _ _ Hw)) as (sel & t1 & _ & HS & C1). destruct (K2 cfg (WD_r _ _ _ Hw)) as (rest & tr & HSS & Htr & C2).
    exists (sel :: rest), (t1 ++ tr). split; [apply HSS; exact HS|].
    assert (Hrb : cr_head [tk T_RBRACKET [93%N] 0]) by (eexists; eexists; split; [reflexivity | right; reflexivity]).
    assert (K : BKa a ((t1 ++ tr) ++ [tk T_RBRACKET [93%N] 0]) (S1 ++ sl ++ more ++ S2 ++ [93%N]) (amode_set a MSeg)).
    { rewrite <- app_assoc. apply bka_blank; [exact HS1|]. apply C1.
      - destruct Htr as [-> | (tok & t'' & -> & Hty)]; [exact Hrb | exists tok, (t'' ++ [tk T_RBRACKET [93%N] 0]); split; [reflexivity | exact Hty]].
      - apply C2; [exact Hrb|]. apply bka_blank; [exact HS2|]. apply bka_close. }
    exact (K [] eq_refl).
  Qed.

  Lemma seg_childA a s : ok0 a -> (length s <= NN)%nat -> DB (R r_child_segment) s -> SegRunA a s.
  Proof.
    intros Ha Hlen H. apply nb_ref in H; try discriminate. cbn [rule_body] in H. apply b_alt in H as [H | H].
    - destruct (brk_innerA a s Ha Hlen H) as (B & inner & -> & B0 & K). exists B. split; [exact B0|]. intros cfg Hw.
      destruct (K cfg Hw) as (ss & t & HS & HR). exists (Child ss), (tk T_LBRACKET [91%N] 0 :: t ++ [tk T_RBRACKET [93%N] 0]). split; [apply sg_br; exact HS|].
      intros b Hb. apply (RT_cons (amode_set a MSeg) (tk T_LBRACKET [91%N] 0) GBl (amode_set a MBrk) b _ inner (amode_set a MSeg)); [reflexivity | exact Hb | discriminate | reflexivity | exact HR].
    - apply b_seq in H as (dot & r & -> & Hd & H). apply b_C in Hd. subst dot. apply b_alt in H as [H | H].
      + apply b_C in H. subst r. exists 0. split; [lia|]. intros cfg _. exists (Child [SWild]), [tk T_WILD [42%N] 0]. split; [apply sg_wild|].
        intros b Hb. apply (RT_cons (amode_set a MSeg) (tk T_WILD [42%N] 0) GDot (amode_set a MSeg) b [] [] (amode_set a MSeg)); [reflexivity | exact Hb | discriminate | reflexivity | constructor].
      + pose proof (abnf_name r (dbl r_member_name_shorthand r ltac:(cbn; tauto) H)) as Hnm. exists 0. split; [lia|]. intros cfg _. exists (Child [SName r]), [tk T_PROPERTY r 0]. split; [apply sg_prop|].
        intros b Hb. replace (b ++ [46%N] ++ r) with (b ++ pre GDot T_PROPERTY ++ r ++ post T_PROPERTY ++ []) by (cbn [pre post app]; rewrite app_nil_r; reflexivity).
        apply (RT_cons (amode_set a MSeg) (tk T_PROPERTY r 0) GDot (amode_set a MSeg) b [] [] (amode_set a MSeg)); [reflexivity | exact Hb | discriminate | apply pm_name; exact Hnm | constructor].
  Qed.

  Lemma seg_descA a s : ok0 a -> (length s <= NN)%nat -> DB (R r_descendant_segment) s -> SegRunA a s.
  Proof.
    intros Ha Hlen H. apply nb_ref in H; try discriminate. cbn [rule_body GSeqs GAlts] in H. apply b_seq in H as (d1 & r & -> & Hd1 & H). apply b_seq in H as (d2 & r2 & -> & Hd2 & H).
    apply b_C in Hd1. apply b_C in Hd2. subst d1 d2.
    assert (Hl2 : (length r2 <= NN)%nat) by (cbn [app length] in Hlen; lia).
    assert (DD : forall b rest t a', blanks b -> RunT (amode_set a MDesc) t rest a' -> RunT (amode_set a MSeg) (tk T_DOUBLE_DOT [46; 46]%N 0 :: t) (b ++ [46%N] ++ [46%N] ++ rest) a').
    { intros b rest t a' Hb HR. apply (RT_cons (amode_set a MSeg) (tk T_DOUBLE_DOT [46; 46]%N 0) GBl (amode_set a MDesc) b t rest a'); [reflexivity | exact Hb | discriminate | reflexivity | exact HR]. }
    apply b_alt in H as [H | H].
    - destruct (brk_innerA a r2 Ha Hl2 H) as (B & inner & -> & B0 & K). exists B. split; [exact B0|]. intros cfg Hw.
      destruct (K cfg Hw) as (ss & t & HS & HR). exists (Desc ss), (tk T_DOUBLE_DOT [46; 46]%N 0 :: tk T_LBRACKET [91%N] 0 :: t ++ [tk T_RBRACKET [93%N] 0]). split; [apply sg_dbr; exact HS|].
      intros b Hb. apply DD; [exact Hb|]. apply (RT_cons (amode_set a MDesc) (tk T_LBRACKET [91%N] 0) GNone (amode_set a MBrk) [] _ inner (amode_set a MSeg)); [reflexivity | reflexivity | reflexivity | reflexivity | exact HR].
    - apply b_alt in H as [H | H].
      + apply b_C in H. subst r2. exists 0. split; [lia|]. intros cfg _. exists (Desc [SWild]), [tk T_DOUBLE_DOT [46; 46]%N 0; tk T_WILD [42%N] 0]. split; [apply sg_dwild|].
        intros b Hb. apply DD; [exact Hb|]. apply (RT_cons (amode_set a MDesc) (tk T_WILD [42%N] 0) GNone (amode_set a MSeg) [] [] [] (amode_set a MSeg)); [reflexivity | reflexivity | reflexivity | reflexivity | constructor].
      + pose proof (abnf_name r2 (dbl r_member_name_shorthand r2 ltac:(cbn; tauto) H)) as Hnm. exists 0. split; [lia|]. intros cfg _. exists (Desc [SName r2]), [tk T_DOUBLE_DOT [46; 46]%N 0; tk T_PROPERTY r2 0]. split; [apply sg_dprop|].
        intros b Hb. apply DD; [exact Hb|]. replace r2 with ([] ++ pre GNone T_PROPERTY ++ r2 ++ post T_PROPERTY ++ []) at 2 by (cbn [pre post app]; rewrite app_nil_r; reflexivity).
        apply (RT_cons (amode_set a MDesc) (tk T_PROPERTY r2 0) GNone (amode_set a MSeg) [] [] [] (amode_set a MSeg)); [reflexivity | reflexivity | reflexivity | apply pm_name; exact Hnm | constructor].
  Qed.

  Lemma seg_anyA a s : ok0 a -> (length s <= NN)%nat -> DB (R r_segment) s -> SegRunA a s.
  Proof. intros Ha Hlen H. apply nb_ref in H; try discriminate. cbn [rule_body] in H. apply b_alt in H as [H | H]; [apply seg_childA | apply seg_descA]; assumption. Qed.

  Lemma segs_runA a z : ok0 a -> (length z <= NN)%nat -> DB (R r_segments) z ->
    exists B, 0 <= B /\ forall cfg, WD cfg B -> exists q t, QT cfg q t /\ RunT (amode_set a MSeg) t z (amode_set a MSeg).
  Proof.
    intros Ha Hlen H. apply nb_ref in H; try discriminate. cbn [rule_body] in H. remember (GStar (GSeq S_ (R r_segment))) as g eqn:Eg. induction H; try discriminate Eg.
    - exists 0. split; [lia|]. intros cfg _. exists [], []. split; constructor.
    - inversion Eg; subst a0. clear IHderives1. assert (Hl2 : (length s2 <= NN)%nat) by (rewrite app_length in Hlen; lia). destruct (IHderives2 Hl2 eq_refl) as (B2 & B20 & K2).
      apply b_seq in H0 as (S1 & sl & -> & HS & Hseg). apply b_S in HS. assert (Hl1 : (length sl <= NN)%nat) by (rewrite !app_length in Hlen; lia).
      destruct (seg_anyA a sl Ha Hl1 Hseg) as (B1 & B10 & K1).
      exists (Z.max B1 B2). split; [apply max_l0; exact B10|].
      intros cfg Hw. destruct (K1 cfg (WD_l _ _ _ Hw)) as (g & t1 & HS1 & R1). destruct (K2 cfg (WD_r _ _ _ Hw)) as (q & t2 & HQ2 & R2).
      exists (g :: q), (t1 ++ t2). split; [apply qt_cons; assumption|]. apply RunT_join with (a1 := amode_set a MSeg); [apply R1; exact HS | exact R2].
  Qed.
End RecA.
(* ---- singular queries (comparands) ---- *)
Lemma sing_segA a s : D (GAlt (R r_name_segment) (R r_index_segment)) s ->
  exists B, 0 <= B /\ forall cfg, WD cfg B -> exists g t, singular_seg g = true /\ SegT cfg g t /\ forall b, blanks b -> RunT (amode_set a MSeg) t (b ++ s) (amode_set a MSeg).
Proof.
  intros H.
  assert (Br : forall S1 mid S2 sel B, blanks S1 -> blanks S2 -> 0 <= B -> (match sel with SName _ | SIndex _ => True | _ => False end) ->
            (forall cfg, WD cfg B -> exists t, SelT cfg sel [t] /\ forall t' z' a', BKa a t' z' a' -> BKa a (t :: t') (mid ++ z') a') ->
            s = [91%N] ++ S1 ++ mid ++ S2 ++ [93%N] ->
            exists B, 0 <= B /\ forall cfg, WD cfg B -> exists g t, singular_seg g = true /\ SegT cfg g t /\ forall b, blanks b -> RunT (amode_set a MSeg) t (b ++ s) (amode_set a MSeg)).
  { intros S1 mid S2 sel B HS1 HS2 B0 Hsel K ->. exists B. split; [exact B0|]. intros cfg Hw. destruct (K cfg Hw) as (t & HS & C).
    exists (Child [sel]), (tk T_LBRACKET [91%N] 0 :: [t] ++ [tk T_RBRACKET [93%N] 0]). split; [destruct sel; try contradiction; reflexivity|]. split; [apply sg_br; apply ss_one; exact HS|].
    intros b Hb. apply (RT_cons (amode_set a MSeg) (tk T_LBRACKET [91%N] 0) GBl (amode_set a MBrk) b _ (S1 ++ mid ++ S2 ++ [93%N]) (amode_set a MSeg)); [reflexivity | exact Hb | discriminate | reflexivity|].
    assert (KK : BKa a ([t] ++ [tk T_RBRACKET [93%N] 0]) (S1 ++ mid ++ S2 ++ [93%N]) (amode_set a MSeg)) by (apply (bka_blank a); [exact HS1|]; apply C; apply (bka_blank a); [exact HS2|]; apply (bka_close a)).
    exact (KK [] eq_refl). }
  apply i_alt in H as [H | H].
  - apply i_ref in H. cbn [rule_body GSeqs] in H. apply i_alt in H as [H | H].
    + apply i_seq in H as (lb & r & -> & Hlb & H). apply i_seq in H as (S1 & r1 & -> & HS1 & H). apply i_seq in H as (sl & r2 & -> & Hstr & H). apply i_seq in H as (S2 & rb & -> & HS2 & Hrb).
      apply i_C in Hlb. apply i_C in Hrb. subst lb rb. apply i_S in HS1. apply i_S in HS2. destruct (bka_string a sl Hstr) as (k & Hk).
      apply (Br S1 sl S2 (SName k) 0 HS1 HS2 ltac:(lia) I); [|reflexivity]. intros cfg _. destruct (Hk cfg) as (t & HS & C). exists t. split; [exact HS | exact C].
    + apply i_seq in H as (dot & r & -> & Hd & H). apply i_C in Hd. subst dot. pose proof (abnf_name r H) as Hnm. exists 0. split; [lia|]. intros cfg _.
      exists (Child [SName r]), [tk T_PROPERTY r 0]. split; [reflexivity|]. split; [apply sg_prop|].
      intros b Hb. replace (b ++ [46%N] ++ r) with (b ++ pre GDot T_PROPERTY ++ r ++ post T_PROPERTY ++ []) by (cbn [pre post app]; rewrite app_nil_r; reflexivity).
      apply (RT_cons (amode_set a MSeg) (tk T_PROPERTY r 0) GDot (amode_set a MSeg) b [] [] (amode_set a MSeg)); [reflexivity | exact Hb | discriminate | apply pm_name; exact Hnm | constructor].
  - apply i_ref in H. cbn [rule_body GSeqs] in H.
    apply i_seq in H as (lb & r & -> & Hlb & H). apply i_seq in H as (S1 & r1 & -> & HS1 & H). apply i_seq in H as (sl & r2 & -> & Hint & H). apply i_seq in H as (S2 & rb & -> & HS2 & Hrb).
    apply i_C in Hlb. apply i_C in Hrb. subst lb rb. apply i_S in HS1. apply i_S in HS2. destruct (bka_int a sl Hint) as (i & Hi & C).
    apply (Br S1 sl S2 (SIndex i) (Z.abs i) HS1 HS2 ltac:(lia) I); [|reflexivity]. intros cfg Hw. exists (tk T_INDEX sl 0). split; [|apply C].
    apply st_index; [exact Hi | apply (wide_in cfg (Z.abs i)); [exact (proj1 Hw) | lia]].
Qed.

Lemma sing_segsA a z : D (R r_singular_query_segments) z ->
  exists B, 0 <= B /\ forall cfg, WD cfg B -> exists q t, singular q = true /\ QT cfg q t /\ RunT (amode_set a MSeg) t z (amode_set a MSeg).
Proof.
  intros H. apply i_ref in H. cbn [rule_body] in H. remember (GStar (GSeq S_ (GAlt (R r_name_segment) (R r_index_segment)))) as g eqn:Eg. induction H; try discriminate Eg.
  - exists 0. split; [lia|]. intros cfg _. exists [], []. split; [reflexivity|]. split; constructor.
  - inversion Eg; subst a0. clear IHderives1. destruct (IHderives2 eq_refl) as (B2 & B20 & K2).
    apply i_seq in H0 as (S1 & sl & -> & HS & Hseg). apply i_S in HS. destruct (sing_segA a sl Hseg) as (B1 & B10 & K1).
    exists (Z.max B1 B2). split; [apply max_l0; exact B10|].
    intros cfg Hw. destruct (K1 cfg (WD_l _ _ _ Hw)) as (g & t1 & Hsg & HS1 & R1). destruct (K2 cfg (WD_r _ _ _ Hw)) as (q & t2 & Hsq & HQ2 & R2).
    exists (g :: q), (t1 ++ t2). split; [unfold singular in *; cbn [forallb]; rewrite Hsg, Hsq; reflexivity|]. split; [apply qt_cons; assumption|].
    apply RunT_join with (a1 := amode_set a MSeg); [apply R1; exact HS | exact R2].
Qed.


(* "@" or "$" followed by segments run in the segment mode of the same stacks *)
Lemma fka_query f (rel : bool) z t : okF f -> RunT (amode_set f MSeg) t z (amode_set f MSeg) ->
  ECPSa f (tk (if rel then T_CURRENT else T_ROOT) [if rel then 64%N else 36%N] 0 :: t) ([if rel then 64%N else 36%N] ++ z).
Proof.
  intros Hf HR t' z' a' K b Hb m Hm.
  replace (b ++ ([if rel then 64%N else 36%N] ++ z) ++ z') with (b ++ pre GBl (if rel then T_CURRENT else T_ROOT) ++ [if rel then 64%N else 36%N] ++ post (if rel then T_CURRENT else T_ROOT) ++ (z ++ z'))
    by (destruct rel; cbn [pre post app]; rewrite <- ?app_assoc; reflexivity).
  apply (RT_cons (amode_set f m) (tk (if rel then T_CURRENT else T_ROOT) [if rel then 64%N else 36%N] 0) GBl (amode_set f MSeg) b _ (z ++ z') a').
  - apply a_query; [exact Hf | exact Hm | destruct rel; [right | left]; reflexivity].
  - exact Hb.
  - discriminate.
  - destruct rel; reflexivity.
  - apply RunT_join with (a1 := amode_set f MSeg); [exact HR|]. apply (K [] eq_refl MSeg). right. reflexivity.
Qed.

Definition COK (f : ast) (s : list N) : Prop := exists B, 0 <= B /\ forall cfg, WD cfg B -> exists e t, CT cfg e t /\ ECPSa f t s.
Definition EOKa (f : ast) (L : Z) (s : list N) : Prop := exists B, 0 <= B /\ forall cfg, WD cfg B -> exists e t, ET cfg L e t /\ ECPSa f t s.

Lemma fka_singular f s : okF f -> D (R r_singular_query) s -> COK f s.
Proof.
  intros Hf H. apply i_ref in H. cbn [rule_body] in H. apply i_seq in H as (hd & z & -> & Hhd & Hz). destruct (sing_segsA f z Hz) as (B & B0 & K).
  exists B. split; [exact B0|]. intros cfg Hw. destruct (K cfg Hw) as (q & t & Hs & HQ & HR).
  apply i_alt in Hhd as [Hh | Hh]; apply i_C in Hh; subst hd.
  - exists (ERel q), (tk T_CURRENT [64%N] 0 :: t). split; [apply ct_test; apply tt_rel; [exact HQ | intros _; exact Hs] | apply (fka_query f true z t Hf HR)].
  - exists (EAbs q), (tk T_ROOT [36%N] 0 :: t). split; [apply ct_test; apply tt_abs; [exact HQ | intros _; exact Hs] | apply (fka_query f false z t Hf HR)].
Qed.

Lemma pm_fname fn : fname_ok fn -> pmatch RE_FUNCTION_NAME fn.
Proof. intros (c & cs & -> & Hc & Hcs). exists [40%N]. apply fname_match; [exact Hc | exact Hcs | reflexivity]. Qed.
Lemma fn_names : fname_ok s_length /\ fname_ok s_count /\ fname_ok s_value /\ fname_ok s_match /\ fname_ok s_search.
Proof. repeat split; eexists; eexists; (split; [reflexivity | split; reflexivity]). Qed.

Section RecF.
  Variable NN : nat.
  Hypothesis IHsel : forall a s, ok0 a -> (length s < NN)%nat -> DB (R r_selector) s -> SelCPSa a s.

  (* filter-query = rel-query / jsonpath-query: the nodelist it denotes, for a test or a NodesType argument *)
  Lemma fka_filter_query f want s : okF f -> want <> TValue -> (length s <= NN)%nat -> DB (R r_filter_query) s ->
    exists B, 0 <= B /\ forall cfg, WD cfg B -> exists e t, TT cfg want e t /\ ECPSa f t s.
  Proof.
    intros Hf Hwant Hlen H. apply nb_ref in H; try discriminate. cbn [rule_body] in H.
    assert (Q : forall (rel : bool) z, (length z <= NN)%nat -> DB (R r_segments) z -> s = [if rel then 64%N else 36%N] ++ z ->
              exists B, 0 <= B /\ forall cfg, WD cfg B -> exists e t, TT cfg want e t /\ ECPSa f t s).
    { intros rel z Hlz Hz ->. destruct (segs_runA NN IHsel f z (okF_ok0 f Hf) Hlz Hz) as (B & B0 & K). exists B. split; [exact B0|]. intros cfg Hw. destruct (K cfg Hw) as (q & t & HQ & HR).
      destruct rel.
      - exists (ERel q), (tk T_CURRENT [64%N] 0 :: t). split; [apply tt_rel; [exact HQ | intros E; contradiction] | apply (fka_query f true z t Hf HR)].
      - exists (EAbs q), (tk T_ROOT [36%N] 0 :: t). split; [apply tt_abs; [exact HQ | intros E; contradiction] | apply (fka_query f false z t Hf HR)]. }
    apply b_alt in H as [H | H]; apply nb_ref in H; try discriminate; cbn [rule_body] in H; apply b_seq in H as (hd & z & -> & Hhd & Hz); apply b_C in Hhd; subst hd.
    - apply (Q true z); [cbn [app length] in Hlen; lia | exact Hz | reflexivity].
    - apply (Q false z); [cbn [app length] in Hlen; lia | exact Hz | reflexivity].
  Qed.

  Section Level.
    Variable M : nat.
    Hypothesis IHor : forall f s, okF f -> (length s < M)%nat -> (length s <= NN)%nat -> DB (R r_logical_or_expr) s -> EOKa f 3 s.
    Hypothesis IHv : forall f s, okF f -> (length s < M)%nat -> (length s <= NN)%nat -> DB (GRef id_vfn) s -> COK f s.

    (* one call with one argument: name "(" S arg S ")" *)
    Lemma call1_cps f fn s1 arg s2 ta : okF f -> fname_ok fn -> blanks s1 -> blanks s2 -> ECPSa (incall f) ta arg ->
      ECPSa f (tk T_FUNCTION fn 0 :: ta ++ [tk T_RPAREN [41%N] 0]) (fn ++ [40%N] ++ s1 ++ arg ++ s2 ++ [41%N]).
    Proof.
      intros Hf Hfn H1 H2 C t' z' a' K. rewrite <- !app_assoc. cbn [app]. rewrite <- !app_assoc.
      apply (fka_call_open f fn _ (s1 ++ arg ++ s2 ++ 41%N :: z') a' Hf (pm_fname fn Hfn)). apply fka_blank; [exact H1|]. apply C. apply fka_blank; [exact H2|].
      apply (fka_call_close f t' z' a' Hf K).
    Qed.

    (* an argument for a ValueType parameter: literal / singular query / a call returning a value *)
    Lemma fka_varg f s : okF f -> (length s < M)%nat -> (length s <= NN)%nat -> DB (GRef id_varg) s -> COK f s.
    Proof.
      intros Hf Hl HlN H. apply b_ref in H. change (bf_grammar id_varg) with (GAlts [R r_literal; R r_singular_query; GRef id_vfn]) in H. cbn [GAlts] in H.
      apply b_alt in H as [H | H].
      { destruct (fka_literal f s Hf (dbl r_literal s ltac:(cbn; tauto) H)) as (v & K). exists 0. split; [lia|]. intros cfg _. destruct (K cfg) as (t & HC & C). exists (ELit v), [t]. split; assumption. }
      apply b_alt in H as [H | H]; [apply fka_singular; [exact Hf | apply (dbl r_singular_query s ltac:(cbn; tauto) H)] | apply IHv; assumption].
    Qed.

    (* a call whose result is a value: length(value) / count(nodes) / value(nodes) *)
    Lemma fka_vfn f s : okF f -> (length s <= M)%nat -> (length s <= NN)%nat -> DB (GRef id_vfn) s -> COK f s.
    Proof.
      intros Hf Hl HlN H. apply b_ref in H.
      change (bf_grammar id_vfn) with (GAlts [call1 s_length (GRef id_varg); call1 s_count (R r_filter_query); call1 s_value (R r_filter_query)]) in H. cbn [GAlts] in H.
      pose proof fn_names as (N1 & N2 & N3 & _ & _).
      assert (Inv : forall fn argG, DB (call1 fn argG) s -> exists s1 arg s2, s = fn ++ [40%N] ++ s1 ++ arg ++ s2 ++ [41%N] /\ blanks s1 /\ blanks s2 /\ DB argG arg).
      { intros fn argG Hc. unfold call1 in Hc. cbn [GSeqs] in Hc. apply b_seq in Hc as (x0 & r0 & -> & Hx0 & Hc). apply b_seq in Hc as (x1 & r1 & -> & Hx1 & Hc). apply b_seq in Hc as (x2 & r2 & -> & Hx2 & Hc).
        apply b_seq in Hc as (x3 & r3 & -> & Hx3 & Hc). apply b_seq in Hc as (x4 & x5 & -> & Hx4 & Hx5). apply b_lit in Hx0. apply b_C in Hx1. apply b_C in Hx5. subst x0 x1 x5.
        exists x2, x3, x4. split; [reflexivity|]. split; [apply b_S; exact Hx2|]. split; [apply b_S; exact Hx4 | exact Hx3]. }
      assert (Call : forall fn tys s1 arg s2 B, fname_ok fn -> blanks s1 -> blanks s2 -> s = fn ++ [40%N] ++ s1 ++ arg ++ s2 ++ [41%N] -> 0 <= B ->
                (forall cfg, WD cfg B -> (exists d, find_assoc fn (reg cfg) = Some d /\ f_args d = [tys] /\ f_ret d = TValue) /\ exists e ta, ArgT cfg tys e ta /\ ECPSa (incall f) ta arg) -> COK f s).
      { intros fn tys s1 arg s2 B Hfn H1 H2 -> B0 K. exists B. split; [exact B0|]. intros cfg Hw. destruct (K cfg Hw) as ((d & Ed & Ea & Er) & e & ta & HA & C).
        exists (ECall fn [e]), (tk T_FUNCTION fn 0 :: ta ++ [tk T_RPAREN [41%N] 0]). split; [|apply call1_cps; assumption].
        apply ct_test. apply (tt_call cfg TValue fn d [e] ta 0 [41%N] 0 Ed); [rewrite Er; reflexivity | rewrite Ea; apply as_one; exact HA]. }
      apply b_alt in H as [H | H].
      { destruct (Inv _ _ H) as (s1 & arg & s2 & E & H1 & H2 & Harg).
        assert (La : (length arg < M)%nat /\ (length arg <= NN)%nat) by (rewrite E, !app_length in Hl, HlN; cbn [length] in Hl, HlN; lia).
        destruct (fka_varg (incall f) arg (okF_call f Hf) (proj1 La) (proj2 La) Harg) as (B & B0 & K).
        apply (Call s_length TValue s1 arg s2 B N1 H1 H2 E B0). intros cfg Hw. split; [exact (proj1 (proj2 Hw))|]. destruct (K cfg Hw) as (e & ta & HC & C). exists e, ta. split; [apply ar_value; exact HC | exact C]. }
      assert (Nodes : forall fn, fname_ok fn -> (forall cfg, WD cfg 0 -> sig_ok cfg fn [TNodes] TValue) -> DB (call1 fn (R r_filter_query)) s -> COK f s).
      { intros fn Hfn Hsig Hc. destruct (Inv _ _ Hc) as (s1 & arg & s2 & E & H1 & H2 & Harg).
        assert (La : (length arg <= NN)%nat) by (rewrite E, !app_length in HlN; cbn [length] in HlN; lia).
        destruct (fka_filter_query (incall f) TNodes arg (okF_call f Hf) ltac:(discriminate) La Harg) as (B & B0 & K).
        apply (Call fn TNodes s1 arg s2 B Hfn H1 H2 E B0). intros cfg Hw. split; [apply Hsig; apply (WD_le cfg B 0 B0 Hw)|]. destruct (K cfg Hw) as (e & ta & HT & C). exists e, ta. split; [apply ar_nodes; exact HT | exact C]. }
      apply b_alt in H as [H | H]; [apply (Nodes s_count N2 (fun cfg Hw => proj1 (proj2 (proj2 Hw))) H) | apply (Nodes s_value N3 (fun cfg Hw => proj1 (proj2 (proj2 (proj2 Hw)))) H)].
    Qed.

    (* comparable = literal / singular-query / a call returning a value *)
    Lemma fka_comparable f s : okF f -> (length s <= M)%nat -> (length s <= NN)%nat -> DB (R r_comparable) s -> COK f s.
    Proof.
      intros Hf Hl HlN H. unfold R in H. apply b_ref in H. change (bf_grammar (rule_id r_comparable)) with (GAlts [R r_literal; R r_singular_query; GRef id_vfn]) in H. cbn [GAlts] in H.
      apply b_alt in H as [H | H].
      { destruct (fka_literal f s Hf (dbl r_literal s ltac:(cbn; tauto) H)) as (v & K). exists 0. split; [lia|]. intros cfg _. destruct (K cfg) as (t & HC & C). exists (ELit v), [t]. split; assumption. }
      apply b_alt in H as [H | H]; [apply fka_singular; [exact Hf | apply (dbl r_singular_query s ltac:(cbn; tauto) H)] | apply fka_vfn; assumption].
    Qed.

    (* comparison-expr = comparable S comparison-op S comparable *)
    Lemma fka_comparison f s : okF f -> (length s <= M)%nat -> (length s <= NN)%nat -> DB (R r_comparison_expr) s -> EOKa f 5 s.
    Proof.
      intros Hf Hl HlN H. apply nb_ref in H; try discriminate. cbn [rule_body GSeqs] in H.
      apply b_seq in H as (s1 & r & -> & H1 & H). apply b_seq in H as (S1 & r1 & -> & HS1 & H). apply b_seq in H as (so & r2 & -> & Ho & H). apply b_seq in H as (S2 & s2 & -> & HS2 & H2).
      apply b_S in HS1. apply b_S in HS2. apply (dbl r_comparison_op) in Ho; [|cbn; tauto]. apply i_cmp_op in Ho as (o & ->). rewrite !app_length in Hl, HlN.
      destruct (fka_comparable f s1 Hf ltac:(lia) ltac:(lia) H1) as (B1 & B10 & K1). destruct (fka_comparable f s2 Hf ltac:(lia) ltac:(lia) H2) as (B2 & B20 & K2).
      exists (Z.max B1 B2). split; [apply max_l0; exact B10|]. intros cfg Hw.
      destruct (K1 cfg (WD_l _ _ _ Hw)) as (e1 & t1 & HC1 & C1). destruct (K2 cfg (WD_r _ _ _ Hw)) as (e2 & t2 & HC2 & C2).
      exists (ECmp o e1 e2), (t1 ++ tk (cmp_tok o) (op_str o) 0 :: t2). split; [apply et_cmp; assumption|].
      intros t' z' a' K. rewrite <- !app_assoc. cbn [app]. apply C1. apply fka_blank; [exact HS1|].
      assert (HT : fil_ty0 (cmp_tok o) /\ tshape (cmp_tok o) (op_str o) /\ pre GBl (cmp_tok o) = [] /\ post (cmp_tok o) = []) by (destruct o; unfold fil_ty0; cbn; tauto).
      destruct HT as (HT1 & HT2 & HT3 & HT4). pose proof (fka_tok f (cmp_tok o) (op_str o) 0 (t2 ++ t') (S2 ++ s2 ++ z') a' Hf HT1 HT2) as KT. rewrite HT3, HT4 in KT. cbn [app] in KT.
      apply KT. apply fka_blank; [exact HS2|]. apply C2. exact K.
    Qed.

    (* a call whose result is logical: match(value, value) / search(value, value) *)
    Lemma fka_lfn f s : okF f -> (length s <= M)%nat -> (length s <= NN)%nat -> DB (GRef id_lfn) s ->
      exists B, 0 <= B /\ forall cfg, WD cfg B -> exists e t, TT cfg TLogical e t /\ ECPSa f t s.
    Proof.
      intros Hf Hl HlN H. apply b_ref in H.
      change (bf_grammar id_lfn) with (GAlt (call2 s_match (GRef id_varg) (GRef id_varg)) (call2 s_search (GRef id_varg) (GRef id_varg))) in H.
      pose proof fn_names as (_ & _ & _ & N4 & N5).
      assert (Two : forall fn, fname_ok fn -> (forall cfg, WD cfg 0 -> sig_ok cfg fn [TValue; TValue] TLogical) -> DB (call2 fn (GRef id_varg) (GRef id_varg)) s ->
                exists B, 0 <= B /\ forall cfg, WD cfg B -> exists e t, TT cfg TLogical e t /\ ECPSa f t s).
      { intros fn Hfn Hsig Hc. unfold call2 in Hc. cbn [GSeqs] in Hc.
        apply b_seq in Hc as (x0 & r0 & -> & Hx0 & Hc). apply b_seq in Hc as (x1 & r1 & -> & Hx1 & Hc). apply b_seq in Hc as (x2 & r2 & -> & Hx2 & Hc). apply b_seq in Hc as (x3 & r3 & -> & Hx3 & Hc).
        apply b_seq in Hc as (x4 & r4 & -> & Hx4 & Hc). apply b_seq in Hc as (x5 & r5 & -> & Hx5 & Hc). apply b_seq in Hc as (x6 & r6 & -> & Hx6 & Hc). apply b_seq in Hc as (x7 & r7 & -> & Hx7 & Hc).
        apply b_seq in Hc as (x8 & x9 & -> & Hx8 & Hx9). apply b_lit in Hx0. apply b_C in Hx1. apply b_C in Hx5. apply b_C in Hx9. subst x0 x1 x5 x9.
        apply b_S in Hx2. apply b_S in Hx4. apply b_S in Hx6. apply b_S in Hx8. rewrite !app_length in Hl, HlN. cbn [length] in Hl, HlN.
        destruct (fka_varg (incall f) x3 (okF_call f Hf) ltac:(lia) ltac:(lia) Hx3) as (B1 & B10 & K1). destruct (fka_varg (incall f) x7 (okF_call f Hf) ltac:(lia) ltac:(lia) Hx7) as (B2 & B20 & K2).
        exists (Z.max B1 B2). split; [apply max_l0; exact B10|]. intros cfg Hw.
        destruct (K1 cfg (WD_l _ _ _ Hw)) as (e1 & t1 & HC1 & C1). destruct (K2 cfg (WD_r _ _ _ Hw)) as (e2 & t2 & HC2 & C2).
        destruct (Hsig cfg (WD_le cfg _ 0 (max_l0 B1 B2 B10) Hw)) as (d & Ed & Ea & Er).
        exists (ECall fn [e1; e2]), (tk T_FUNCTION fn 0 :: (t1 ++ tk T_COMMA [44%N] 0 :: t2) ++ [tk T_RPAREN [41%N] 0]). split.
        - apply (tt_call cfg TLogical fn d [e1; e2] (t1 ++ tk T_COMMA [44%N] 0 :: t2) 0 [41%N] 0 Ed); [rewrite Er; reflexivity|]. rewrite Ea.
          apply as_cons; [apply ar_value; exact HC1 | apply as_one; apply ar_value; exact HC2 | discriminate].
        - intros t' z' a' K. rewrite <- !app_assoc. cbn [app]. rewrite <- !app_assoc. cbn [app].
          apply (fka_call_open f fn _ (x2 ++ x3 ++ x4 ++ 44%N :: x6 ++ x7 ++ x8 ++ 41%N :: z') a' Hf (pm_fname fn Hfn)). apply fka_blank; [exact Hx2|]. apply C1. apply fka_blank; [exact Hx4|].
          replace ((t2 ++ [tk T_RPAREN [41%N] 0]) ++ t') with (t2 ++ tk T_RPAREN [41%N] 0 :: t') by (rewrite <- app_assoc; reflexivity).
          apply (fka_call_comma f (t2 ++ tk T_RPAREN [41%N] 0 :: t') (x6 ++ x7 ++ x8 ++ 41%N :: z') a' Hf). apply fka_blank; [exact Hx6|]. apply C2. apply fka_blank; [exact Hx8|].
          apply (fka_call_close f t' z' a' Hf K). }
      apply b_alt in H as [H | H]; [apply (Two s_match N4 (fun cfg Hw => proj1 (proj2 (proj2 (proj2 (proj2 Hw))))) H) | apply (Two s_search N5 (fun cfg Hw => proj2 (proj2 (proj2 (proj2 (proj2 Hw))))) H)].
    Qed.

    Lemma fka_not f t' z' a' : okF f -> FKa f t' z' a' -> FKa f (tk T_NOT [33%N] 0 :: t') ([33%N] ++ z') a'.
    Proof. intros Hf K. apply (fka_tok f T_NOT [33%N] 0 t' z' a' Hf ltac:(unfold fil_ty0; tauto) eq_refl K). Qed.

    (* test-expr = [logical-not-op S] (filter-query / a call returning a logical value) *)
    Lemma fka_test f s : okF f -> (length s <= M)%nat -> (length s <= NN)%nat -> DB (R r_test_expr) s -> EOKa f 7 s.
    Proof.
      intros Hf Hl HlN H. unfold R in H. apply b_ref in H.
      change (bf_grammar (rule_id r_test_expr)) with (GSeq (GOpt (GSeq (C 33) S_)) (GAlt (R r_filter_query) (GRef id_lfn))) in H.
      apply b_seq in H as (neg & fq & -> & Hneg & Hfq). rewrite app_length in Hl, HlN.
      assert (T : exists B, 0 <= B /\ forall cfg, WD cfg B -> exists e t, TT cfg TLogical e t /\ ECPSa f t fq).
      { apply b_alt in Hfq as [Hfq | Hfq]; [apply (fka_filter_query f TLogical fq Hf ltac:(discriminate) ltac:(lia) Hfq) | apply (fka_lfn f fq Hf ltac:(lia) ltac:(lia) Hfq)]. }
      destruct T as (B & B0 & K). exists B. split; [exact B0|]. intros cfg Hw. destruct (K cfg Hw) as (e & t & HT & C).
      apply b_opt in Hneg as [Hneg | ->].
      - apply b_seq in Hneg as (bang & S1 & -> & Hb & HS). apply b_C in Hb. subst bang. apply b_S in HS.
        exists (ENot e), (tk T_NOT [33%N] 0 :: t). split; [apply et_not_test; exact HT|]. intros t' z' a' K'. rewrite <- !app_assoc. cbn [app]. apply (fka_not f (t ++ t') (S1 ++ fq ++ z') a' Hf).
        apply fka_blank; [exact HS|]. apply C. exact K'.
      - exists e, t. split; [apply et_test; exact HT | exact C].
    Qed.

    (* paren-expr = [logical-not-op S] "(" S logical-expr S ")" *)
    Lemma fka_paren f s : okF f -> (length s <= M)%nat -> (length s <= NN)%nat -> DB (R r_paren_expr) s -> EOKa f 7 s.
    Proof.
      intros Hf Hlen HlN H. apply nb_ref in H; try discriminate. cbn [rule_body GSeqs] in H.
      apply b_seq in H as (neg & r & -> & Hneg & H). apply b_seq in H as (lp & r1 & -> & Hlp & H). apply b_seq in H as (S1 & r2 & -> & HS1 & H).
      apply b_seq in H as (ex & r3 & -> & Hex & H). apply b_seq in H as (S2 & rp & -> & HS2 & Hrp).
      apply b_C in Hlp. apply b_C in Hrp. subst lp rp. apply b_S in HS1. apply b_S in HS2.
      assert (Hl : (length ex < M)%nat) by (rewrite !app_length in Hlen; cbn [length] in Hlen; lia).
      assert (Hl' : (length ex <= NN)%nat) by (rewrite !app_length in HlN; cbn [length] in HlN; lia).
      destruct (IHor (inpar f) ex (okF_par f Hf) Hl Hl' Hex) as (B & B0 & K). exists B. split; [exact B0|]. intros cfg Hw. destruct (K cfg Hw) as (e & t & HE & C).
      assert (Inner : ECPSa f (tk T_LPAREN [40%N] 0 :: t ++ [tk T_RPAREN [41%N] 0]) ([40%N] ++ S1 ++ ex ++ S2 ++ [41%N])).
      { intros t' z' a' K'. rewrite <- !app_assoc. cbn [app]. apply (fka_lparen f _ (S1 ++ ex ++ S2 ++ 41%N :: z') a' Hf). apply fka_blank; [exact HS1|]. rewrite <- app_assoc. apply C. apply fka_blank; [exact HS2|].
        apply (fka_rparen f t' z' a' Hf K'). }
      apply b_opt in Hneg as [Hneg | ->].
      - apply b_seq in Hneg as (bang & S0 & -> & Hb & HS0). apply b_C in Hb. subst bang. apply b_S in HS0.
        exists (ENot e), (tk T_NOT [33%N] 0 :: tk T_LPAREN [40%N] 0 :: t ++ [tk T_RPAREN [41%N] 0]). split; [apply et_not_paren; exact HE|].
        intros t' z' a' K'. rewrite <- !app_assoc. cbn [app]. apply (fka_not f _ (S0 ++ 40%N :: S1 ++ ex ++ S2 ++ 41%N :: z') a' Hf). apply fka_blank; [exact HS0|].
        pose proof (Inner t' z' a' K') as KI. rewrite <- ?app_assoc in KI. cbn [app] in KI. rewrite <- ?app_assoc in KI. rewrite <- ?app_assoc. cbn [app]. rewrite <- ?app_assoc. exact KI.
      - exists e, (tk T_LPAREN [40%N] 0 :: t ++ [tk T_RPAREN [41%N] 0]). split; [apply et_paren; exact HE|]. cbn [app]. exact Inner.
    Qed.

    Lemma fka_basic f s : okF f -> (length s <= M)%nat -> (length s <= NN)%nat -> DB (R r_basic_expr) s -> EOKa f 5 s.
    Proof.
      intros Hf Hlen HlN H. apply nb_ref in H; try discriminate. cbn [rule_body GAlts] in H.
      assert (Up : EOKa f 7 s -> EOKa f 5 s).
      { intros (B & B0 & K). exists B. split; [exact B0|]. intros cfg Hw. destruct (K cfg Hw) as (e & t & HE & C). exists e, t. split; [apply et_57; exact HE | exact C]. }
      apply b_alt in H as [H | H]; [apply Up; apply fka_paren; assumption|]. apply b_alt in H as [H | H]; [apply fka_comparison; assumption | apply Up; apply fka_test; assumption].
    Qed.

    Lemma and_moreA f s : okF f -> (length s <= M)%nat -> (length s <= NN)%nat -> DB (GStar (GSeqs [S_; C 38; C 38; S_; R r_basic_expr])) s ->
      exists B, 0 <= B /\ forall cfg, WD cfg B -> exists tr, (forall x tx, ET cfg 5 x tx -> exists e, ET cfg 4 e (tx ++ tr)) /\ ECPSa f tr s.
    Proof.
      intros Hf Hlen HlN H. remember (GStar (GSeqs [S_; C 38; C 38; S_; R r_basic_expr])) as g eqn:Eg. induction H; try discriminate Eg.
      - exists 0. split; [lia|]. intros cfg _. exists []. split; [intros x tx Hx; exists x; rewrite app_nil_r; apply et_45; exact Hx | intros t' z' a' K; exact K].
      - inversion Eg; subst a. clear IHderives1. rewrite app_length in Hlen, HlN. destruct (IHderives2 ltac:(lia) ltac:(lia) eq_refl) as (B2 & B20 & K2).
        cbn [GSeqs] in H0. apply b_seq in H0 as (S1 & r & -> & HS1 & H0). apply b_seq in H0 as (c1 & r1 & -> & Hc1 & H0). apply b_seq in H0 as (c2 & r2 & -> & Hc2 & H0). apply b_seq in H0 as (S2 & bs & -> & HS2 & Hb).
        apply b_C in Hc1. apply b_C in Hc2. subst c1 c2. apply b_S in HS1. apply b_S in HS2. rewrite !app_length in Hlen, HlN. cbn [length] in Hlen, HlN.
        destruct (fka_basic f bs Hf ltac:(lia) ltac:(lia) Hb) as (B1 & B10 & K1).
        exists (Z.max B1 B2). split; [apply max_l0; exact B10|]. intros cfg Hw.
        destruct (K1 cfg (WD_l _ _ _ Hw)) as (e1 & t1 & HE1 & C1). destruct (K2 cfg (WD_r _ _ _ Hw)) as (tr & HT & C2).
        exists (tk T_AND [38; 38]%N 0 :: t1 ++ tr). split.
        + intros x tx Hx. destruct (HT e1 t1 HE1) as (e' & HE'). exists (EAnd x e'). apply et_and; assumption.
        + intros t' z' a' K. rewrite <- !app_assoc. cbn [app]. rewrite <- !app_assoc. apply fka_blank; [exact HS1|].
          apply (fka_tok f T_AND [38; 38]%N 0 _ (S2 ++ bs ++ s2 ++ z') a' Hf ltac:(unfold fil_ty0; tauto) eq_refl). apply fka_blank; [exact HS2|]. apply C1. apply C2. exact K.
    Qed.

    Lemma fka_and f s : okF f -> (length s <= M)%nat -> (length s <= NN)%nat -> DB (R r_logical_and_expr) s -> EOKa f 4 s.
    Proof.
      intros Hf Hlen HlN H. apply nb_ref in H; try discriminate. cbn [rule_body] in H. apply b_seq in H as (bs & more & -> & Hb & Hm). rewrite app_length in Hlen, HlN.
      destruct (fka_basic f bs Hf ltac:(lia) ltac:(lia) Hb) as (B1 & B10 & K1). destruct (and_moreA f more Hf ltac:(lia) ltac:(lia) Hm) as (B2 & B20 & K2).
      exists (Z.max B1 B2). split; [apply max_l0; exact B10|]. intros cfg Hw.
      destruct (K1 cfg (WD_l _ _ _ Hw)) as (e1 & t1 & HE1 & C1). destruct (K2 cfg (WD_r _ _ _ Hw)) as (tr & HT & C2).
      destruct (HT e1 t1 HE1) as (e & HE). exists e, (t1 ++ tr). split; [exact HE|]. intros t' z' a' K. rewrite <- !app_assoc. apply C1. apply C2. exact K.
    Qed.

    Lemma or_moreA f s : okF f -> (length s <= M)%nat -> (length s <= NN)%nat -> DB (GStar (GSeqs [S_; C 124; C 124; S_; R r_logical_and_expr])) s ->
      exists B, 0 <= B /\ forall cfg, WD cfg B -> exists tr, (forall x tx, ET cfg 4 x tx -> exists e, ET cfg 3 e (tx ++ tr)) /\ ECPSa f tr s.
    Proof.
      intros Hf Hlen HlN H. remember (GStar (GSeqs [S_; C 124; C 124; S_; R r_logical_and_expr])) as g eqn:Eg. induction H; try discriminate Eg.
      - exists 0. split; [lia|]. intros cfg _. exists []. split; [intros x tx Hx; exists x; rewrite app_nil_r; apply et_34; exact Hx | intros t' z' a' K; exact K].
      - inversion Eg; subst a. clear IHderives1. rewrite app_length in Hlen, HlN. destruct (IHderives2 ltac:(lia) ltac:(lia) eq_refl) as (B2 & B20 & K2).
        cbn [GSeqs] in H0. apply b_seq in H0 as (S1 & r & -> & HS1 & H0). apply b_seq in H0 as (c1 & r1 & -> & Hc1 & H0). apply b_seq in H0 as (c2 & r2 & -> & Hc2 & H0). apply b_seq in H0 as (S2 & bs & -> & HS2 & Hb).
        apply b_C in Hc1. apply b_C in Hc2. subst c1 c2. apply b_S in HS1. apply b_S in HS2. rewrite !app_length in Hlen, HlN. cbn [length] in Hlen, HlN.
        destruct (fka_and f bs Hf ltac:(lia) ltac:(lia) Hb) as (B1 & B10 & K1).
        exists (Z.max B1 B2). split; [apply max_l0; exact B10|]. intros cfg Hw.
        destruct (K1 cfg (WD_l _ _ _ Hw)) as (e1 & t1 & HE1 & C1). destruct (K2 cfg (WD_r _ _ _ Hw)) as (tr & HT & C2).
        exists (tk T_OR [124; 124]%N 0 :: t1 ++ tr). split.
        + intros x tx Hx. destruct (HT e1 t1 HE1) as (e' & HE'). exists (EOr x e'). apply et_or; assumption.
        + intros t' z' a' K. rewrite <- !app_assoc. cbn [app]. rewrite <- !app_assoc. apply fka_blank; [exact HS1|].
          apply (fka_tok f T_OR [124; 124]%N 0 _ (S2 ++ bs ++ s2 ++ z') a' Hf ltac:(unfold fil_ty0; tauto) eq_refl). apply fka_blank; [exact HS2|]. apply C1. apply C2. exact K.
    Qed.

    Lemma fka_or f s : okF f -> (length s <= M)%nat -> (length s <= NN)%nat -> DB (R r_logical_or_expr) s -> EOKa f 3 s.
    Proof.
      intros Hf Hlen HlN H. apply nb_ref in H; try discriminate. cbn [rule_body] in H. apply b_seq in H as (bs & more & -> & Hb & Hm). rewrite app_length in Hlen, HlN.
      destruct (fka_and f bs Hf ltac:(lia) ltac:(lia) Hb) as (B1 & B10 & K1). destruct (or_moreA f more Hf ltac:(lia) ltac:(lia) Hm) as (B2 & B20 & K2).
      exists (Z.max B1 B2). split; [apply max_l0; exact B10|]. intros cfg Hw.
      destruct (K1 cfg (WD_l _ _ _ Hw)) as (e1 & t1 & HE1 & C1). destruct (K2 cfg (WD_r _ _ _ Hw)) as (tr & HT & C2).
      destruct (HT e1 t1 HE1) as (e & HE). exists e, (t1 ++ tr). split; [exact HE|]. intros t' z' a' K. rewrite <- !app_assoc. apply C1. apply C2. exact K.
    Qed.
  End Level.

  Lemma level_all : forall M, (forall f s, okF f -> (length s <= M)%nat -> (length s <= NN)%nat -> DB (R r_logical_or_expr) s -> EOKa f 3 s) /\
                              (forall f s, okF f -> (length s <= M)%nat -> (length s <= NN)%nat -> DB (GRef id_vfn) s -> COK f s).
  Proof.
    induction M as [|M [IH1 IH2]].
    - split; intros f s Hf Hl HlN H; [apply (fka_or 0) | apply (fka_vfn 0)]; try assumption; intros; lia.
    - assert (A1 : forall f s, okF f -> (length s < S M)%nat -> (length s <= NN)%nat -> DB (R r_logical_or_expr) s -> EOKa f 3 s) by (intros f s Hf Hl; apply IH1; [exact Hf | lia]).
      assert (A2 : forall f s, okF f -> (length s < S M)%nat -> (length s <= NN)%nat -> DB (GRef id_vfn) s -> COK f s) by (intros f s Hf Hl; apply IH2; [exact Hf | lia]).
      split; intros f s Hf Hl HlN H; [apply (fka_or (S M) A1 A2) | apply (fka_vfn (S M) A1 A2)]; assumption.
  Qed.
End RecF.

(* ---- selectors, filter selectors included ---- *)
Lemma sel_stepA NN : (forall a s, ok0 a -> (length s < NN)%nat -> DB (R r_selector) s -> SelCPSa a s) ->
  forall a s, ok0 a -> (length s <= NN)%nat -> DB (R r_selector) s -> SelCPSa a s.
Proof.
  intros IHsel a s Ha Hlen H. apply nb_ref in H; try discriminate. cbn [rule_body GAlts] in H.
  apply b_alt in H as [H | H].
  { destruct (bka_string a s (dbl r_string_literal s ltac:(cbn; tauto) H)) as (k & Hk). exists 0. split; [lia|]. intros cfg _. destruct (Hk cfg) as (t & HS & K). exists (SName k), [t]. split; [discriminate|]. split; [exact HS|].
    intros t' z' a' _. apply K. }
  apply b_alt in H as [H | H].
  { apply b_C in H. subst s. exists 0. split; [lia|]. intros cfg _. exists SWild, [tk T_WILD [42%N] 0]. split; [discriminate|]. split; [apply st_wild|].
    intros t' z' a' _ K. apply (bka_tok a T_WILD [42%N] 0 t' z' a' ltac:(unfold brk_ty; tauto) eq_refl K). }
  apply b_alt in H as [H | H].
  { destruct (bka_slice a s (dbl r_slice_selector s ltac:(cbn; tauto) H)) as (x & y & c & B & B0 & K). exists B. split; [exact B0|]. intros cfg Hw. destruct (K cfg (proj1 Hw)) as (t & Hne & HS & C).
    exists (SSlice x y c), t. split; [exact Hne|]. split; [exact HS|]. intros t' z' a' _. apply C. }
  apply b_alt in H as [H | H].
  { destruct (bka_int a s (dbl r_int s ltac:(cbn; tauto) H)) as (i & Hi & K). exists (Z.abs i). split; [lia|]. intros cfg Hw. exists (SIndex i), [tk T_INDEX s 0]. split; [discriminate|].
    split; [apply st_index; [exact Hi | apply (wide_in cfg (Z.abs i)); [exact (proj1 Hw) | lia]] | intros t' z' a' _; apply K]. }
  (* filter-selector = "?" S logical-expr *)
  apply nb_ref in H; try discriminate. cbn [rule_body GSeqs] in H. apply b_seq in H as (qm & r & -> & Hq & H). apply b_seq in H as (S1 & ex & -> & HS1 & Hex). apply b_C in Hq. subst qm. apply b_S in HS1.
  assert (Hl : (length ex <= NN)%nat) by (rewrite !app_length in Hlen; cbn [length] in Hlen; lia).
  destruct (proj1 (level_all NN IHsel (length ex)) (enter a) ex (okF_enter a Ha) (le_n _) Hl Hex) as (B & B0 & K). exists B. split; [exact B0|]. intros cfg Hw. destruct (K cfg Hw) as (e & te & HE & C).
  exists (SFilter e), (tk T_FILTER [63%N] 0 :: te). split; [discriminate|]. split; [apply st_filter; exact HE|].
  intros t' z' a' Hh K' b Hb. rewrite <- !app_assoc. cbn [app].
  apply (RT_cons (amode_set a MBrk) (tk T_FILTER [63%N] 0) GBl (enter a) b (te ++ t') (S1 ++ ex ++ z') a'); [apply a_enter | exact Hb | discriminate | reflexivity|].
  pose proof (C t' z' a' (bka_to_fka a t' z' a' Ha Hh K') S1 HS1 MFil (or_introl eq_refl)) as R0. rewrite (mfil_id (enter a) eq_refl) in R0. exact R0.
Qed.

Theorem sel_allA : forall n a s, ok0 a -> (length s < n)%nat -> DB (R r_selector) s -> SelCPSa a s.
Proof.
  induction n as [|n IH]; intros a s Ha Hl H; [lia|]. apply (sel_stepA n (fun a0 s0 Ha0 => IH a0 s0 Ha0) a s Ha); [lia | exact H].
Qed.

Lemma ok0_a0 : ok0 a0. Proof. split; [cbn; lia | constructor]. Qed.

(* every string of this grammar consists of Unicode scalar values *)
Lemma bf_ok n : okexp (bf_grammar n) = true.
Proof.
  unfold bf_grammar. destruct (Nat.eqb n id_vfn); [reflexivity|]. destruct (Nat.eqb n id_varg); [reflexivity|]. destruct (Nat.eqb n id_lfn); [reflexivity|].
  destruct (nth_error all_rules n) as [r|] eqn:E; [|reflexivity].
  assert (Hb : okexp (rule_body r) = true) by (pose proof rules_ok as H; rewrite forallb_forall in H; apply H; eapply nth_error_In; exact E).
  destruct r; try exact Hb; reflexivity.
Qed.
Lemma db_scalar e s : DB e s -> okexp e = true -> sc s.
Proof.
  unfold sc. intros H. induction H; cbn [okexp]; intros Hok; try reflexivity.
  - cbn [forallb]. unfold is_scalar. lia.
  - apply andb_true_iff in Hok as [A B]. rewrite forallb_app, IHderives1, IHderives2 by assumption. reflexivity.
  - apply andb_true_iff in Hok as [A _]. apply IHderives. exact A.
  - apply andb_true_iff in Hok as [_ B]. apply IHderives. exact B.
  - rewrite forallb_app, IHderives1, IHderives2 by assumption. reflexivity.
  - apply IHderives. apply bf_ok.
Qed.

(* ---- the theorem ---- *)
Theorem abnf_builtin_compiles s : DB (R r_jsonpath_query) s ->
  exists B, forall cfg, wide cfg B -> std cfg -> exists q, m_compile cfg s = Ok q.
Proof.
  intros H. pose proof (db_scalar _ _ H eq_refl) as Hsc. apply nb_ref in H; try discriminate. cbn [rule_body] in H. apply b_seq in H as (dl & z & -> & Hd & Hz). apply b_C in Hd. subst dl.
  destruct (segs_runA (length z) (fun a s Ha Hl Hs => sel_allA (length z) a s Ha Hl Hs) a0 z ok0_a0 (le_n _) Hz) as (B & _ & K). exists B. intros cfg Hw Hstd.
  destruct (K cfg (conj Hw Hstd)) as (q & t & HQ & HR). exists q. cbn [app].
  apply (spelled_compiles cfg q t z a0 HQ); [|exact HR]. unfold sc in *. cbn [app forallb] in Hsc. apply andb_true_iff in Hsc as [_ Hsc]. exact Hsc.
Qed.
Print Assumptions abnf_builtin_compiles.

(* ---- every string of this grammar is a string of the RFC grammar ---- *)
Fixpoint tr (e : gexp) : gexp :=
  match e with
  | GSeq a b => GSeq (tr a) (tr b)
  | GAlt a b => GAlt (tr a) (tr b)
  | GStar a => GStar (tr a)
  | GRef n => if Nat.eqb n id_vfn then R r_function_expr else if Nat.eqb n id_varg then R r_function_argument else if Nat.eqb n id_lfn then R r_function_expr else GRef n
  | _ => e
  end.
Fixpoint nonew (e : gexp) : bool :=
  match e with
  | GSeq a b | GAlt a b => nonew a && nonew b
  | GStar a => nonew a
  | GRef n => negb (Nat.eqb n id_vfn || Nat.eqb n id_varg || Nat.eqb n id_lfn)
  | _ => true
  end.
Lemma tr_id e : nonew e = true -> tr e = e.
Proof.
  induction e; cbn [nonew tr]; intros H; try reflexivity.
  - apply andb_true_iff in H as [A B]. rewrite IHe1, IHe2 by assumption. reflexivity.
  - apply andb_true_iff in H as [A B]. rewrite IHe1, IHe2 by assumption. reflexivity.
  - rewrite IHe by assumption. reflexivity.
  - apply negb_true_iff in H. apply orb_false_iff in H as [H H3]. apply orb_false_iff in H as [H1 H2]. rewrite H1, H2, H3. reflexivity.
Qed.
Lemma rules_nonew : forallb (fun r => nonew (rule_body r)) all_rules = true. Proof. vm_compute. reflexivity. Qed.

Lemma fn_name_rfc f : In f [s_length; s_count; s_value; s_match; s_search] -> D (R r_function_name) f.
Proof. intros H. apply (accepts_sound rfc_grammar 200). cbn [In] in H. repeat (destruct H as [<- | H]; [vm_compute; reflexivity|]). contradiction. Qed.

(* a singular query is a filter query *)
Lemma sing_seg_is_seg s : D (GAlt (R r_name_segment) (R r_index_segment)) s -> D (R r_segment) s.
Proof.
  intros H. apply d_ref. cbn [rule_body]. apply DAltL. apply d_ref. cbn [rule_body].
  assert (Br : forall S1 mid S2, D S_ S1 -> D S_ S2 -> D (R r_selector) mid -> D (R r_bracketed_selection) ([91%N] ++ S1 ++ mid ++ S2 ++ [93%N])).
  { intros S1 mid S2 H1 H2 Hm. apply d_ref. cbn [rule_body GSeqs]. apply DSeq; [apply d_C|]. apply DSeq; [exact H1|]. apply DSeq; [exact Hm|].
    change (S2 ++ [93%N]) with ([] ++ S2 ++ [93%N]). apply DSeq; [apply DStar0|]. apply DSeq; [exact H2 | apply d_C]. }
  apply i_alt in H as [H | H]; apply i_ref in H; cbn [rule_body GSeqs] in H.
  - apply i_alt in H as [H | H].
    + apply i_seq in H as (lb & r & -> & Hlb & H). apply i_seq in H as (S1 & r1 & -> & HS1 & H). apply i_seq in H as (sl & r2 & -> & Hstr & H). apply i_seq in H as (S2 & rb & -> & HS2 & Hrb).
      apply i_C in Hlb. apply i_C in Hrb. subst lb rb. apply DAltL. apply Br; [exact HS1 | exact HS2|]. apply d_ref. cbn [rule_body GAlts]. apply DAltL. exact Hstr.
    + apply i_seq in H as (dot & r & -> & Hd & H). apply DAltR. apply DSeq; [exact Hd | apply DAltR; exact H].
  - apply i_seq in H as (lb & r & -> & Hlb & H). apply i_seq in H as (S1 & r1 & -> & HS1 & H). apply i_seq in H as (sl & r2 & -> & Hint & H). apply i_seq in H as (S2 & rb & -> & HS2 & Hrb).
    apply i_C in Hlb. apply i_C in Hrb. subst lb rb. apply DAltL. apply Br; [exact HS1 | exact HS2|]. apply d_ref. cbn [rule_body GAlts]. apply DAltR. apply DAltR. apply DAltR. apply DAltL. exact Hint.
Qed.
Lemma sing_is_fq s : D (R r_singular_query) s -> D (R r_filter_query) s.
Proof.
  intros H. apply i_ref in H. cbn [rule_body] in H. apply i_seq in H as (hd & z & -> & Hhd & Hz).
  assert (Hsegs : D (R r_segments) z).
  { apply i_ref in Hz. cbn [rule_body] in Hz. apply d_ref. cbn [rule_body]. remember (GStar (GSeq S_ (GAlt (R r_name_segment) (R r_index_segment)))) as g eqn:Eg.
    induction Hz; try discriminate Eg; [apply DStar0|]. inversion Eg; subst a. apply DStarS; [assumption | | apply IHHz2; reflexivity].
    apply i_seq in Hz1 as (S1 & sl & -> & HS & Hsl). apply DSeq; [exact HS | apply sing_seg_is_seg; exact Hsl]. }
  apply d_ref. cbn [rule_body]. apply i_alt in Hhd as [Hh | Hh]; [apply DAltL | apply DAltR]; apply d_ref; cbn [rule_body]; (apply DSeq; [exact Hh | exact Hsegs]).
Qed.

Lemma call_rfc fn (args : list N) : D (R r_function_name) fn -> D (GOpt (GSeq (R r_function_argument) (GStar (GSeqs [S_; C 44; S_; R r_function_argument])))) args ->
  forall s1 s2, D S_ s1 -> D S_ s2 -> D (R r_function_expr) (fn ++ [40%N] ++ s1 ++ args ++ s2 ++ [41%N]).
Proof.
  intros Hfn Ha s1 s2 H1 H2. apply d_ref. cbn [rule_body GSeqs]. apply DSeq; [exact Hfn|]. apply DSeq; [apply d_C|]. apply DSeq; [exact H1|]. apply DSeq; [exact Ha|]. apply DSeq; [exact H2 | apply d_C].
Qed.

Lemma db_rfc e s : DB e s -> D (tr e) s.
Proof.
  intros H. induction H; cbn [tr].
  - constructor.
  - constructor; assumption.
  - constructor; assumption.
  - apply DAltL; assumption.
  - apply DAltR; assumption.
  - constructor.
  - apply DStarS; assumption.
  - (* a reference *)
    unfold bf_grammar in IHderives.
    assert (Arg : forall x, D (tr (GRef id_varg)) x -> D (R r_function_argument) x) by (intros x Hx; exact Hx).
    assert (ArgQ : forall x, D (R r_filter_query) x -> D (R r_function_argument) x) by (intros x Hx; apply d_ref; cbn [rule_body GAlts]; apply DAltR; apply DAltL; exact Hx).
    assert (One : forall fn argG x, In fn [s_length; s_count; s_value; s_match; s_search] -> (forall y, D (tr argG) y -> D (R r_function_argument) y) -> D (tr (call1 fn argG)) x -> D (R r_function_expr) x).
    { intros fn argG x Hfn Harg Hx. unfold call1 in Hx. cbn [GSeqs tr] in Hx. apply i_seq in Hx as (x0 & r0 & -> & Hx0 & Hx). apply i_seq in Hx as (x1 & r1 & -> & Hx1 & Hx). apply i_seq in Hx as (x2 & r2 & -> & Hx2 & Hx).
      apply i_seq in Hx as (x3 & r3 & -> & Hx3 & Hx). apply i_seq in Hx as (x4 & x5 & -> & Hx4 & Hx5).
      assert (E0 : tr (GLit fn) = GLit fn) by (apply tr_id; clear; induction fn as [|c [|d l] IH]; try reflexivity; exact IH). rewrite E0 in Hx0. apply i_lit in Hx0. apply i_C in Hx1. apply i_C in Hx5. subst x0 x1 x5.
      apply call_rfc; [apply fn_name_rfc; exact Hfn | | exact Hx2 | exact Hx4]. apply DAltL. rewrite <- (app_nil_r x3). apply DSeq; [apply Harg; exact Hx3 | apply DStar0]. }
    assert (Two : forall fn x, In fn [s_length; s_count; s_value; s_match; s_search] -> D (tr (call2 fn (GRef id_varg) (GRef id_varg))) x -> D (R r_function_expr) x).
    { intros fn x Hfn Hx. unfold call2 in Hx. cbn [GSeqs tr] in Hx.
      apply i_seq in Hx as (x0 & r0 & -> & Hx0 & Hx). apply i_seq in Hx as (x1 & r1 & -> & Hx1 & Hx). apply i_seq in Hx as (x2 & r2 & -> & Hx2 & Hx). apply i_seq in Hx as (x3 & r3 & -> & Hx3 & Hx).
      apply i_seq in Hx as (x4 & r4 & -> & Hx4 & Hx). apply i_seq in Hx as (x5 & r5 & -> & Hx5 & Hx). apply i_seq in Hx as (x6 & r6 & -> & Hx6 & Hx). apply i_seq in Hx as (x7 & r7 & -> & Hx7 & Hx).
      apply i_seq in Hx as (x8 & x9 & -> & Hx8 & Hx9).
      assert (E0 : tr (GLit fn) = GLit fn) by (apply tr_id; clear; induction fn as [|c [|d l] IH]; try reflexivity; exact IH). rewrite E0 in Hx0. apply i_lit in Hx0. apply i_C in Hx1. apply i_C in Hx9. subst x0 x1 x9.
      replace (x2 ++ x3 ++ x4 ++ x5 ++ x6 ++ x7 ++ x8 ++ [41%N]) with (x2 ++ (x3 ++ (x4 ++ x5 ++ x6 ++ x7) ++ []) ++ x8 ++ [41%N]) by (rewrite <- !app_assoc; cbn [app]; rewrite <- ?app_assoc; reflexivity).
      apply call_rfc; [apply fn_name_rfc; exact Hfn | | exact Hx2 | exact Hx8]. apply DAltL. apply DSeq; [exact Hx3|]. apply DStarS; [destruct x4; [|discriminate]; apply i_C in Hx5; subst x5; discriminate | | apply DStar0].
      cbn [GSeqs]. apply DSeq; [exact Hx4|]. apply DSeq; [exact Hx5|]. apply DSeq; [exact Hx6 | exact Hx7]. }
    destruct (Nat.eqb n id_vfn) eqn:E1.
    { cbn [GAlts] in IHderives. cbn [tr] in IHderives. apply i_alt in IHderives as [Hc | Hc]; [apply (One s_length (GRef id_varg)); [cbn; tauto | exact Arg | exact Hc]|].
      apply i_alt in Hc as [Hc | Hc]; [apply (One s_count (R r_filter_query)); [cbn; tauto | exact ArgQ | exact Hc] | apply (One s_value (R r_filter_query)); [cbn; tauto | exact ArgQ | exact Hc]]. }
    destruct (Nat.eqb n id_varg) eqn:E2.
    { cbn [GAlts tr] in IHderives. apply d_ref. cbn [rule_body GAlts]. apply i_alt in IHderives as [Hc | Hc]; [apply DAltL; exact Hc|].
      apply i_alt in Hc as [Hc | Hc]; [apply DAltR; apply DAltL; apply sing_is_fq; exact Hc | apply DAltR; apply DAltR; apply DAltR; exact Hc]. }
    destruct (Nat.eqb n id_lfn) eqn:E3.
    { apply i_alt in IHderives as [Hc | Hc]; [apply (Two s_match); [cbn; tauto | exact Hc] | apply (Two s_search); [cbn; tauto | exact Hc]]. }
    apply DRef. unfold rfc_grammar. destruct (nth_error all_rules n) as [r|] eqn:E; [|exact IHderives].
    assert (Hb : tr (rule_body r) = rule_body r) by (apply tr_id; pose proof rules_nonew as Hn; rewrite forallb_forall in Hn; apply Hn; eapply nth_error_In; exact E).
    destruct r; try (rewrite Hb in IHderives; exact IHderives); cbn [GAlts tr rule_body] in *; exact IHderives.
Qed.

Theorem builtin_grammar_is_rfc s : DB (R r_jsonpath_query) s -> rfc_query s.
Proof. intros H. apply db_rfc in H. exact H. Qed.
Print Assumptions builtin_grammar_is_rfc.
