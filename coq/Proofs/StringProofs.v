(* C09: string literal decoding *)
From JP Require Import Base.Json Spec.StringLit Model.Tokens Model.Parse.

(* the shift/mask expression of _decode_hex_char equals the RFC formula for every surrogate pair:
   a finite domain (1024 x 1024), checked exhaustively by computation and lifted *)
Definition pair_ok (h l : Z) : bool :=
  (65536 + Z.lor (Z.shiftl (Z.land h 1023) 10) (Z.land l 1023)) =? (65536 + (h - 55296) * 1024 + (l - 56320)).
Definition range_list (lo : Z) (n : nat) : list Z := map (fun k => lo + Z.of_nat k) (seq 0 n).
Lemma all_pairs_ok : forallb (fun h => forallb (fun l => pair_ok h l) (range_list 56320 1024)) (range_list 55296 1024) = true.
Proof. vm_compute. reflexivity. Qed.

Lemma in_range_list lo n x : (lo <= x < lo + Z.of_nat n) -> In x (range_list lo n).
Proof.
  intros H. unfold range_list. apply in_map_iff. exists (Z.to_nat (x - lo)). split; [lia|]. apply in_seq. lia.
Qed.

Theorem surrogate_arith : forall h l, is_high h = true -> is_low l = true ->
  65536 + Z.lor (Z.shiftl (Z.land h 1023) 10) (Z.land l 1023) = 65536 + (h - 55296) * 1024 + (l - 56320).
Proof.
  intros h l Hh Hl. unfold is_high, is_low in *.
  apply andb_true_iff in Hh as [H1 H2]. apply andb_true_iff in Hl as [H3 H4].
  pose proof all_pairs_ok as A. rewrite forallb_forall in A.
  assert (Ih : In h (range_list 55296 1024)) by (apply in_range_list; lia).
  specialize (A h Ih). rewrite forallb_forall in A.
  assert (Il : In l (range_list 56320 1024)) by (apply in_range_list; lia).
  specialize (A l Il). unfold pair_ok in A. apply Z.eqb_eq in A. exact A.
Qed.

(* ================================================================================================
   C09_decode: the index-based decoder of parse.py (Model/Parse.v) equals the RFC decoder (Spec/StringLit.v)
   Part 1: the index arithmetic, restated on the suffix that starts at the index. *)
From Coq Require Import ZifyBool.

Lemma zlen_app {A} (a b : list A) : zlen (a ++ b) = zlen a + zlen b.
Proof. unfold zlen. rewrite app_length. lia. Qed.
Lemma zlen_cons {A} (x : A) l : zlen (x :: l) = 1 + zlen l.
Proof. unfold zlen. cbn [length]. lia. Qed.
Lemma zlen_nonneg {A} (l : list A) : 0 <= zlen l. Proof. unfold zlen. lia. Qed.

Lemma znth_aux_app {A} (pre s : list A) : forall k, 0 <= k -> znth_aux (pre ++ s) (zlen pre + k) = znth_aux s k.
Proof.
  induction pre as [|x pre IH]; intros k Hk; cbn [app].
  - unfold zlen. cbn [length]. replace (Z.of_nat 0 + k) with k by lia. reflexivity.
  - cbn [znth_aux]. rewrite zlen_cons. pose proof (zlen_nonneg pre).
    assert (E : (1 + zlen pre + k =? 0) = false) by lia. rewrite E.
    replace (1 + zlen pre + k - 1) with (zlen pre + k) by lia. apply IH. exact Hk.
Qed.
Lemma znth_app {A} (pre s : list A) k : 0 <= k -> znth (pre ++ s) (zlen pre + k) = znth s k.
Proof.
  intros Hk. unfold znth. pose proof (zlen_nonneg pre).
  assert (E1 : (zlen pre + k <? 0) = false) by lia. assert (E2 : (k <? 0) = false) by lia.
  rewrite E1, E2. apply znth_aux_app. exact Hk.
Qed.
Lemma znth_app0 {A} (pre s : list A) : znth (pre ++ s) (zlen pre) = znth s 0.
Proof. rewrite <- (znth_app pre s 0) by lia. f_equal. lia. Qed.

Definition hex4l (s : str) : option Z :=
  match s with
  | a :: b :: c :: d :: _ =>
      match hex_val a, hex_val b, hex_val c, hex_val d with
      | Some a', Some b', Some c', Some d' => Some (((a' * 16 + b') * 16 + c') * 16 + d')
      | _, _, _, _ => None
      end
  | _ => None
  end.

Lemma parse_hex4_app pre s : parse_hex4 (pre ++ s) (zlen pre) = hex4l s.
Proof.
  unfold parse_hex4. rewrite znth_app0, !znth_app by lia.
  destruct s as [|a [|b [|c [|d r]]]]; reflexivity.
Qed.

(* the list view of _decode_hex_char: [rest] is what follows the 'u', [base] the index of the 'u' *)
Definition dhc (rest : str) (base : Z) : dres :=
  if zlen rest <=? 3 then DSyntax else
  match hex4l rest with
  | None => DSyntax
  | Some cp =>
    if is_low_surrogate cp then DSyntax
    else if is_high_surrogate cp then
      if (9 <? zlen rest) && ceq_z (znth rest 4) 92 && ceq_z (znth rest 5) 117 then
        match hex4l (skipn 6 rest) with
        | None => DSyntax
        | Some low => if is_low_surrogate low
                      then DOk (65536 + (Z.lor (Z.shiftl (Z.land cp 1023) 10) (Z.land low 1023))) (base + 10)
                      else DSyntax
        end
      else DSyntax
    else DOk cp (base + 4)
  end.

Lemma skipn_zlen {A} n (l : list A) : (n <= length l)%nat -> zlen (firstn n l) = Z.of_nat n.
Proof. intros H. unfold zlen. rewrite firstn_length. lia. Qed.

Lemma decode_hex_char_app pre u rest :
  decode_hex_char (pre ++ u :: rest) (zlen pre) = dhc rest (zlen pre).
Proof.
  unfold decode_hex_char, dhc. rewrite zlen_app, zlen_cons.
  pose proof (zlen_nonneg pre). pose proof (zlen_nonneg rest).
  destruct (zlen rest <=? 3) eqn:E3.
  - assert (E : (zlen pre + (1 + zlen rest) <=? zlen pre + 4) = true) by lia. rewrite E. reflexivity.
  - assert (E : (zlen pre + (1 + zlen rest) <=? zlen pre + 4) = false) by lia. rewrite E.
    assert (Hpre : zlen pre + 1 = zlen (pre ++ [u])) by (rewrite zlen_app; reflexivity).
    replace (pre ++ u :: rest) with ((pre ++ [u]) ++ rest) by (rewrite <- app_assoc; reflexivity).
    rewrite Hpre, parse_hex4_app.
    destruct (hex4l rest) as [cp|]; [|reflexivity].
    destruct (is_low_surrogate cp); [reflexivity|].
    destruct (is_high_surrogate cp); [|f_equal; lia].
    rewrite !znth_app by lia.
    assert (E9 : (zlen (pre ++ [u]) + 9 <? zlen pre + (1 + zlen rest)) = (9 <? zlen rest)) by (rewrite <- Hpre; lia).
    rewrite E9. destruct (9 <? zlen rest) eqn:E10; [|reflexivity]. cbn [andb].
    destruct (ceq_z (znth rest 4) 92 && ceq_z (znth rest 5) 117); [|reflexivity].
    (* the low surrogate digits start 6 characters into rest *)
    assert (Hlen : (6 <= length rest)%nat) by (unfold zlen in E10; lia).
    assert (Hsplit : (pre ++ [u]) ++ rest = ((pre ++ [u]) ++ firstn 6 rest) ++ skipn 6 rest)
      by (rewrite <- (firstn_skipn 6 rest) at 1; rewrite app_assoc; reflexivity).
    assert (Hidx : zlen (pre ++ [u]) + 6 = zlen ((pre ++ [u]) ++ firstn 6 rest))
      by (rewrite (zlen_app (pre ++ [u])), skipn_zlen by exact Hlen; reflexivity).
    rewrite Hsplit, Hidx, parse_hex4_app.
    destruct (hex4l (skipn 6 rest)) as [low|]; [|reflexivity].
    destruct (is_low_surrogate low); [|reflexivity]. f_equal. rewrite <- Hpre. lia.
Qed.

(* the list view of _decode_escape_sequence *)
Definition de_list (ch : N) (rest : str) (base : Z) : dres :=
  if N.eqb ch 34 then DOk 34 base
  else if N.eqb ch 92 then DOk 92 base
  else if N.eqb ch 47 then DOk 47 base
  else if N.eqb ch 98 then DOk 8 base
  else if N.eqb ch 102 then DOk 12 base
  else if N.eqb ch 110 then DOk 10 base
  else if N.eqb ch 114 then DOk 13 base
  else if N.eqb ch 116 then DOk 9 base
  else if N.eqb ch 117 then dhc rest base
  else DSyntax.

Lemma decode_escape_app pre ch rest : decode_escape (pre ++ ch :: rest) (zlen pre) = de_list ch rest (zlen pre).
Proof.
  unfold decode_escape, de_list. rewrite znth_app0.
  change (znth (ch :: rest) 0) with (Some ch). cbv beta iota.
  destruct (N.eqb ch 34); [reflexivity|]. destruct (N.eqb ch 92); [reflexivity|]. destruct (N.eqb ch 47); [reflexivity|].
  destruct (N.eqb ch 98); [reflexivity|]. destruct (N.eqb ch 102); [reflexivity|]. destruct (N.eqb ch 110); [reflexivity|].
  destruct (N.eqb ch 114); [reflexivity|]. destruct (N.eqb ch 116); [reflexivity|].
  destruct (N.eqb ch 117); [apply decode_hex_char_app | reflexivity].
Qed.
Lemma decode_escape_end pre : decode_escape pre (zlen pre) = DIndexError.
Proof.
  unfold decode_escape. rewrite <- (app_nil_r pre) at 1. rewrite znth_app0. reflexivity.
Qed.

(* Part 2: the while loop of _unescape_string as a recursion on the remaining characters. *)
Definition shift (b : Z) (d : dres) : dres := match d with DOk cp k => DOk cp (b + k) | x => x end.

Lemma dhc_shift rest base : dhc rest base = shift base (dhc rest 0).
Proof.
  unfold dhc. destruct (zlen rest <=? 3); [reflexivity|]. destruct (hex4l rest) as [cp|]; [|reflexivity].
  destruct (is_low_surrogate cp); [reflexivity|]. destruct (is_high_surrogate cp); [|reflexivity].
  destruct ((9 <? zlen rest) && ceq_z (znth rest 4) 92 && ceq_z (znth rest 5) 117); [|reflexivity].
  destruct (hex4l (skipn 6 rest)) as [low|]; [|reflexivity]. destruct (is_low_surrogate low); reflexivity.
Qed.
Lemma de_list_shift e rest base : de_list e rest base = shift base (de_list e rest 0).
Proof.
  unfold de_list.
  destruct (N.eqb e 34); [cbn; f_equal; lia|]. destruct (N.eqb e 92); [cbn; f_equal; lia|]. destruct (N.eqb e 47); [cbn; f_equal; lia|].
  destruct (N.eqb e 98); [cbn; f_equal; lia|]. destruct (N.eqb e 102); [cbn; f_equal; lia|]. destruct (N.eqb e 110); [cbn; f_equal; lia|].
  destruct (N.eqb e 114); [cbn; f_equal; lia|]. destruct (N.eqb e 116); [cbn; f_equal; lia|].
  destruct (N.eqb e 117); [apply dhc_shift | reflexivity].
Qed.

Lemma dhc_consumed rest cp k : dhc rest 0 = DOk cp k -> 0 <= k <= zlen rest.
Proof.
  unfold dhc. pose proof (zlen_nonneg rest). destruct (zlen rest <=? 3) eqn:E3; [discriminate|].
  destruct (hex4l rest) as [c|]; [|discriminate]. destruct (is_low_surrogate c); [discriminate|].
  destruct (is_high_surrogate c).
  - destruct (9 <? zlen rest) eqn:E9; cbn [andb]; [|discriminate].
    destruct (ceq_z (znth rest 4) 92 && ceq_z (znth rest 5) 117); [|discriminate].
    destruct (hex4l (skipn 6 rest)) as [low|]; [|discriminate]. destruct (is_low_surrogate low); [|discriminate].
    intros Hx. inversion Hx. lia.
  - intros Hx. inversion Hx. lia.
Qed.
Lemma de_list_consumed e rest cp k : de_list e rest 0 = DOk cp k -> 0 <= k <= zlen rest.
Proof.
  unfold de_list. pose proof (zlen_nonneg rest).
  destruct (N.eqb e 34); [intros H0; inversion H0; lia|]. destruct (N.eqb e 92); [intros H0; inversion H0; lia|].
  destruct (N.eqb e 47); [intros H0; inversion H0; lia|]. destruct (N.eqb e 98); [intros H0; inversion H0; lia|].
  destruct (N.eqb e 102); [intros H0; inversion H0; lia|]. destruct (N.eqb e 110); [intros H0; inversion H0; lia|].
  destruct (N.eqb e 114); [intros H0; inversion H0; lia|]. destruct (N.eqb e 116); [intros H0; inversion H0; lia|].
  destruct (N.eqb e 117); [apply dhc_consumed | discriminate].
Qed.

Fixpoint ul (fuel : nat) (s : str) (acc : list N) : option (option str) :=
  match fuel with
  | O => None
  | S f =>
    match s with
    | [] => Some (Some (rev acc))
    | ch :: r =>
        if N.eqb ch 92 then
          match r with
          | [] => None
          | e :: r' =>
              match de_list e r' 0 with
              | DOk cp k => ul f (skipn (Z.to_nat k) r') (Z.to_N cp :: acc)
              | DSyntax => Some None
              | DIndexError => None
              end
          end
        else if (ch <=? 31)%N then Some None
        else ul f r (ch :: acc)
    end
  end.

Lemma unescape_loop_list : forall fuel pre s acc, unescape_loop fuel (pre ++ s) (zlen pre) acc = ul fuel s acc.
Proof.
  induction fuel as [|f IH]; intros pre s acc; [reflexivity|]. cbn [unescape_loop ul].
  pose proof (zlen_nonneg pre). rewrite zlen_app.
  destruct s as [|ch r].
  - assert (E : (zlen pre + zlen (@nil N) <=? zlen pre) = true) by (unfold zlen at 2; cbn [length]; lia). rewrite E. reflexivity.
  - pose proof (zlen_nonneg r). rewrite zlen_cons.
    assert (E : (zlen pre + (1 + zlen r) <=? zlen pre) = false) by lia. rewrite E.
    rewrite znth_app0. change (znth (ch :: r) 0) with (Some ch). cbv beta iota.
    assert (Hpre : zlen pre + 1 = zlen (pre ++ [ch])) by (rewrite zlen_app; reflexivity).
    assert (Hv : pre ++ ch :: r = (pre ++ [ch]) ++ r) by (rewrite <- app_assoc; reflexivity).
    destruct (N.eqb ch 92).
    + rewrite Hpre, Hv. destruct r as [|e r'].
      * rewrite app_nil_r. rewrite decode_escape_end. reflexivity.
      * rewrite decode_escape_app, de_list_shift.
        destruct (de_list e r' 0) as [cp k| |] eqn:Ed; cbn [shift]; try reflexivity.
        pose proof (de_list_consumed _ _ _ _ Ed) as Hk.
        assert (Hlen : (Z.to_nat k <= length r')%nat) by (unfold zlen in Hk; lia).
        assert (Hsplit : (pre ++ [ch]) ++ e :: r' = ((pre ++ [ch]) ++ e :: firstn (Z.to_nat k) r') ++ skipn (Z.to_nat k) r').
        { rewrite <- (firstn_skipn (Z.to_nat k) r') at 1. rewrite <- !app_assoc. reflexivity. }
        assert (Hidx : zlen (pre ++ [ch]) + k + 1 = zlen ((pre ++ [ch]) ++ e :: firstn (Z.to_nat k) r')).
        { rewrite (zlen_app (pre ++ [ch])), zlen_cons, skipn_zlen by exact Hlen. lia. }
        rewrite Hsplit, Hidx. apply IH.
    + destruct (ch <=? 31)%N; [reflexivity|]. rewrite Hpre, Hv. apply IH.
Qed.

Corollary unescape_loop_whole fuel v : unescape_loop fuel v 0 [] = ul fuel v [].
Proof. exact (unescape_loop_list fuel [] v []). Qed.

(* Part 3: the list recursion decodes exactly as the RFC says. *)
Fixpoint lex_ok (q : N) (s : str) : bool :=       (* what the lexer's string states let through *)
  match s with
  | [] => true
  | c :: r =>
      if N.eqb c 92 then
        match r with
        | d :: r' => (existsb (N.eqb d) [98; 102; 110; 114; 116; 117; 47; 92]%N || N.eqb d q) && lex_ok q r'
        | [] => false
        end
      else negb (N.eqb c q) && lex_ok q r
  end.
Definition is_scalar (c : N) : bool := (negb ((55296 <=? c) && (c <=? 57343)) && (c <=? 1114111))%N.

Lemma hex_val_hexv c : hex_val c = hexv c.
Proof.
  unfold hex_val, hexv. destruct ((48 <=? c) && (c <=? 57))%N; [reflexivity|].
  destruct ((65 <=? c) && (c <=? 70))%N; [f_equal; lia|]. destruct ((97 <=? c) && (c <=? 102))%N; [f_equal; lia | reflexivity].
Qed.
Lemma hex4l_hex4 a b c d r : hex4l (a :: b :: c :: d :: r) = hex4 a b c d.
Proof.
  unfold hex4l, hex4. rewrite !hex_val_hexv. destruct (hexv a), (hexv b), (hexv c), (hexv d); try reflexivity. f_equal. lia.
Qed.
Lemma is_low_eq x : is_low_surrogate x = is_low x. Proof. reflexivity. Qed.
Lemma is_high_eq x : is_high_surrogate x = is_high x. Proof. reflexivity. Qed.

(* the shape the RFC decoder inspects after "\u" *)
Definition dhc_spec (r' : str) : dres :=
  match r' with
  | h1 :: h2 :: h3 :: h4 :: r2 =>
    match hex4 h1 h2 h3 h4 with
    | None => DSyntax
    | Some x =>
      if is_low x then DSyntax
      else if is_high x then
        match r2 with
        | b :: u :: l1 :: l2 :: l3 :: l4 :: r3 =>
          if N.eqb b 92 && N.eqb u 117 then
            match hex4 l1 l2 l3 l4 with
            | Some y => if is_low y then DOk (65536 + (x - 55296) * 1024 + (y - 56320)) 10 else DSyntax
            | None => DSyntax
            end
          else DSyntax
        | _ => DSyntax
        end
      else DOk x 4
    end
  | _ => DSyntax
  end.

Lemma dhc_is_spec r' : dhc r' 0 = dhc_spec r'.
Proof.
  unfold dhc, dhc_spec.
  destruct r' as [|h1 [|h2 [|h3 [|h4 r2]]]]; try reflexivity.
  assert (E3 : (zlen (h1 :: h2 :: h3 :: h4 :: r2) <=? 3) = false) by (unfold zlen; cbn [length]; lia). rewrite E3.
  rewrite hex4l_hex4. destruct (hex4 h1 h2 h3 h4) as [x|]; [|reflexivity].
  rewrite is_low_eq, is_high_eq. destruct (is_low x); [reflexivity|]. destruct (is_high x) eqn:Eh; [|reflexivity].
  destruct r2 as [|b [|u [|l1 [|l2 [|l3 [|l4 r3]]]]]];
    try (match goal with |- context [9 <? zlen ?l] => assert (E9 : (9 <? zlen l) = false) by (unfold zlen; cbn [length]; lia); rewrite E9 end; reflexivity).
  assert (E9 : (9 <? zlen (h1 :: h2 :: h3 :: h4 :: b :: u :: l1 :: l2 :: l3 :: l4 :: r3)) = true) by (unfold zlen; cbn [length]; lia).
  rewrite E9. cbn [andb].
  change (znth (h1 :: h2 :: h3 :: h4 :: b :: u :: l1 :: l2 :: l3 :: l4 :: r3) 4) with (Some b).
  change (znth (h1 :: h2 :: h3 :: h4 :: b :: u :: l1 :: l2 :: l3 :: l4 :: r3) 5) with (Some u).
  cbn [ceq_z]. destruct (N.eqb b 92 && N.eqb u 117); [|reflexivity].
  change (skipn 6 (h1 :: h2 :: h3 :: h4 :: b :: u :: l1 :: l2 :: l3 :: l4 :: r3)) with (l1 :: l2 :: l3 :: l4 :: r3).
  rewrite hex4l_hex4. destruct (hex4 l1 l2 l3 l4) as [y|]; [|reflexivity].
  rewrite is_low_eq. destruct (is_low y) eqn:El; [|reflexivity].
  rewrite (surrogate_arith x y Eh El). reflexivity.
Qed.

Definition out_of (acc : list N) (o : option str) : option (option str) :=
  match o with Some t => Some (Some (rev acc ++ t)) | None => Some None end.

Lemma out_of_cons acc c o : out_of (c :: acc) o = out_of acc (match o with Some t => Some (c :: t) | None => None end).
Proof. destruct o; cbn [out_of rev]; [rewrite <- app_assoc|]; reflexivity. Qed.

Lemma skipn_length_le {A} k (l : list A) : (length (skipn k l) <= length l)%nat.
Proof. rewrite skipn_length. lia. Qed.

Lemma hex4_range a b c d x : hex4 a b c d = Some x -> 0 <= x < 65536.
Proof.
  unfold hex4, hexv. intros H.
  repeat match type of H with context [if ?t then _ else _] => destruct t eqn:? end; inversion H; lia.
Qed.

Lemma hexv_not_bs c v : hexv c = Some v -> N.eqb c 92 = false.
Proof.
  unfold hexv. intros H. apply N.eqb_neq. intros ->. cbn in H. discriminate.
Qed.
Lemma lex_ok_drop1 q c l : N.eqb c 92 = false -> lex_ok q (c :: l) = true -> lex_ok q l = true.
Proof. intros E H. cbn [lex_ok] in H. rewrite E in H. apply andb_true_iff in H as [_ H]. exact H. Qed.
Lemma lex_ok_drop4 q a b c d l x : hex4 a b c d = Some x -> lex_ok q (a :: b :: c :: d :: l) = true -> lex_ok q l = true.
Proof.
  unfold hex4. destruct (hexv a) eqn:Ea, (hexv b) eqn:Eb, (hexv c) eqn:Ec, (hexv d) eqn:Ed; try discriminate. intros _ H.
  apply (lex_ok_drop1 q d); [eapply hexv_not_bs; exact Ed|]. apply (lex_ok_drop1 q c); [eapply hexv_not_bs; exact Ec|].
  apply (lex_ok_drop1 q b); [eapply hexv_not_bs; exact Eb|]. apply (lex_ok_drop1 q a); [eapply hexv_not_bs; exact Ea|]. exact H.
Qed.
Lemma lex_ok_drop_bu q l : lex_ok q (92%N :: 117%N :: l) = true -> lex_ok q l = true.
Proof. cbn [lex_ok N.eqb]. intros H. apply andb_true_iff in H as [_ H]. exact H. Qed.
Lemma scal_drop (c : N) l : forallb is_scalar (c :: l) = true -> forallb is_scalar l = true.
Proof. cbn [forallb]. intros H. apply andb_true_iff in H as [_ H]. exact H. Qed.

(* double-quoted literals: the lexer passes the body through unchanged *)
Theorem ul_dq : forall fuel s acc, (length s < fuel)%nat -> lex_ok 34 s = true -> forallb is_scalar s = true ->
  ul fuel s acc = out_of acc (spec_decode 34 s).
Proof.
  induction fuel as [|f IH]; intros s acc Hf Hl Hs; [lia|]. cbn [ul].
  destruct s as [|ch r]; [cbn [spec_decode out_of]; rewrite app_nil_r; reflexivity|].
  cbn [lex_ok] in Hl. cbn [forallb] in Hs. apply andb_true_iff in Hs as [Hc Hs]. cbn [length] in Hf.
  cbn [spec_decode]. destruct (N.eqb ch 92) eqn:E92.
  - destruct r as [|e r']; [discriminate|]. apply andb_true_iff in Hl as [He Hl].
    cbn [forallb] in Hs. apply andb_true_iff in Hs as [_ Hs]. cbn [length] in Hf.
    assert (IHr : forall c, ul f r' (c :: acc) = out_of acc (match spec_decode 34 r' with Some t => Some (c :: t) | None => None end)).
    { intros c. rewrite IH by (try assumption; lia). apply out_of_cons. }
    unfold de_list.
    destruct (N.eqb e 34) eqn:E34; [cbn [skipn Z.to_nat]; apply (IHr 34%N)|].
    destruct (N.eqb e 98) eqn:E98; [apply N.eqb_eq in E98; subst e; cbn; apply (IHr 8%N)|].
    destruct (N.eqb e 102) eqn:E102; [apply N.eqb_eq in E102; subst e; cbn; apply (IHr 12%N)|].
    destruct (N.eqb e 110) eqn:E110; [apply N.eqb_eq in E110; subst e; cbn; apply (IHr 10%N)|].
    destruct (N.eqb e 114) eqn:E114; [apply N.eqb_eq in E114; subst e; cbn; apply (IHr 13%N)|].
    destruct (N.eqb e 116) eqn:E116; [apply N.eqb_eq in E116; subst e; cbn; apply (IHr 9%N)|].
    destruct (N.eqb e 47) eqn:E47; [apply N.eqb_eq in E47; subst e; cbn; apply (IHr 47%N)|].
    destruct (N.eqb e 92) eqn:Ee92; [apply N.eqb_eq in Ee92; subst e; cbn; apply (IHr 92%N)|].
    destruct (N.eqb e 117) eqn:E117.
    + (* \uXXXX *)
      rewrite dhc_is_spec. unfold dhc_spec.
      destruct r' as [|h1 [|h2 [|h3 [|h4 r2]]]]; try reflexivity.
      destruct (hex4 h1 h2 h3 h4) as [x|] eqn:Ex; [|reflexivity].
      destruct (is_low x); [reflexivity|]. destruct (is_high x).
      * destruct r2 as [|b [|u [|l1 [|l2 [|l3 [|l4 r3]]]]]]; try reflexivity.
        destruct (N.eqb b 92 && N.eqb u 117) eqn:Ebu; [|reflexivity].
        destruct (hex4 l1 l2 l3 l4) as [y|] eqn:Ey; [|reflexivity]. destruct (is_low y); [|reflexivity].
        change (skipn (Z.to_nat 10) (h1 :: h2 :: h3 :: h4 :: b :: u :: l1 :: l2 :: l3 :: l4 :: r3)) with r3.
        apply andb_true_iff in Ebu as [Eb Eu]. apply N.eqb_eq in Eb, Eu. subst b u.
        rewrite IH; [apply out_of_cons | cbn [length] in Hf; lia | | ].
        -- eapply lex_ok_drop4; [exact Ey|]. apply lex_ok_drop_bu. eapply lex_ok_drop4; [exact Ex | exact Hl].
        -- do 10 apply scal_drop in Hs. exact Hs.
      * change (skipn (Z.to_nat 4) (h1 :: h2 :: h3 :: h4 :: r2)) with r2.
        rewrite IH; [apply out_of_cons | cbn [length] in Hf; lia | | ].
        -- eapply lex_ok_drop4; [exact Ex | exact Hl].
        -- do 4 apply scal_drop in Hs. exact Hs.
    + (* not an escape the lexer lets through *)
      cbn [existsb] in He. rewrite E98, E102, E110, E114, E116, E117, E47, Ee92 in He. discriminate.
  - apply andb_true_iff in Hl as [Hq Hl]. apply negb_true_iff in Hq.
    unfold raw_ok. unfold is_scalar in Hc. rewrite E92, Hq. apply andb_true_iff in Hc as [Hc1 Hc2]. rewrite Hc1, Hc2.
    cbn [negb andb]. rewrite !andb_true_r.
    destruct (ch <=? 31)%N eqn:E31.
    + assert (E32 : (32 <=? ch)%N = false) by lia. rewrite E32. reflexivity.
    + assert (E32 : (32 <=? ch)%N = true) by lia. rewrite E32.
      rewrite IH by (try assumption; lia). apply out_of_cons.
Qed.

Theorem decode_dq body idx : lex_ok 34 body = true -> forallb is_scalar body = true ->
  decode_string_literal {| ty := T_DQ_STRING; tval := body; tidx := idx |}
  = match spec_decode 34 body with Some s => Ok s | None => Err ESyntax (Some idx) end.
Proof.
  intros Hl Hs. unfold decode_string_literal. cbn [ty tval tidx].
  change (ttype_eqb T_DQ_STRING T_SQ_STRING) with false. cbv iota.
  rewrite unescape_loop_whole, ul_dq by (try assumption; lia).
  destruct (spec_decode 34 body); reflexivity.
Qed.

(* --- single-quoted literals: the two str.replace passes ---------------------------------------- *)
Definition T (s : str) : str := replace_esc_sq (replace_dq s).

Lemma re_plain c X : N.eqb c 92 = false -> replace_esc_sq (c :: X) = c :: replace_esc_sq X.
Proof. intros E. cbn [replace_esc_sq]. destruct X as [|d X']; [reflexivity|]. rewrite E. reflexivity. Qed.
Lemma re_bs d X : replace_esc_sq (92%N :: d :: X) = if N.eqb d 39 then 39%N :: replace_esc_sq X else 92%N :: replace_esc_sq (d :: X).
Proof. cbn [replace_esc_sq N.eqb andb]. destruct (N.eqb d 39); reflexivity. Qed.

Lemma rd_cons c l : replace_dq (c :: l) = if N.eqb c 34 then 92%N :: 34%N :: replace_dq l else c :: replace_dq l.
Proof. reflexivity. Qed.
Lemma T_plain c l : N.eqb c 92 = false -> N.eqb c 34 = false -> T (c :: l) = c :: T l.
Proof. intros E1 E2. unfold T. rewrite rd_cons, E2. apply re_plain. exact E1. Qed.
Lemma T_dq l : T (34%N :: l) = 92%N :: 34%N :: T l.
Proof.
  unfold T. rewrite rd_cons. change (N.eqb 34 34) with true. cbv iota. rewrite re_bs.
  change (N.eqb 34 39) with false. cbv iota. rewrite re_plain by reflexivity. reflexivity.
Qed.
Lemma T_bs_sq l : T (92%N :: 39%N :: l) = 39%N :: T l.
Proof.
  unfold T. rewrite !rd_cons. change (N.eqb 92 34) with false. change (N.eqb 39 34) with false. cbv iota.
  rewrite re_bs. reflexivity.
Qed.
Lemma T_bs_other e l : N.eqb e 34 = false -> N.eqb e 39 = false -> N.eqb e 92 = false -> T (92%N :: e :: l) = 92%N :: e :: T l.
Proof.
  intros E1 E2 E3. unfold T. rewrite !rd_cons. change (N.eqb 92 34) with false. cbv iota. rewrite E1, re_bs, E2, re_plain by exact E3. reflexivity.
Qed.
Lemma T_hd_not_sq q l : lex_ok q l = true -> q = 39%N -> match T l with 39%N :: _ => match l with 92%N :: 39%N :: _ => True | _ => False end | _ => True end.
Proof.
  intros Hl ->. destruct l as [|c l]; [exact I|]. cbn [lex_ok] in Hl.
  destruct (N.eqb c 92) eqn:E92.
  - apply N.eqb_eq in E92. subst c. destruct l as [|d l']; [discriminate|].
    destruct (N.eqb d 39) eqn:Ed; [apply N.eqb_eq in Ed; subst d; rewrite T_bs_sq; exact I|].
    unfold T. rewrite !rd_cons. change (N.eqb 92 34) with false. cbv iota.
    destruct (N.eqb d 34) eqn:Ed34.
    + rewrite re_bs. change (N.eqb 92 39) with false. cbv iota. exact I.
    + rewrite re_bs, Ed. exact I.
  - apply andb_true_iff in Hl as [Hq _]. apply negb_true_iff in Hq.
    destruct (N.eqb c 34) eqn:E34; [apply N.eqb_eq in E34; subst c; rewrite T_dq; exact I|].
    rewrite T_plain by assumption. destruct c as [|p]; [exact I|]. apply N.eqb_neq in Hq.
    destruct (N.eq_dec (N.pos p) 39) as [E|E]; [congruence|].
    repeat (destruct p as [p|p|]; try exact I). congruence.
Qed.
Lemma T_bs_bs l : lex_ok 39 l = true -> T (92%N :: 92%N :: l) = 92%N :: 92%N :: T l.
Proof.
  intros Hl. unfold T. rewrite !rd_cons. change (N.eqb 92 34) with false. cbv iota. rewrite re_bs.
  change (N.eqb 92 39) with false. cbv iota.
  destruct (replace_dq l) as [|d Y] eqn:EY; [reflexivity|].
  rewrite re_bs. destruct (N.eqb d 39) eqn:Ed; [|reflexivity].
  (* d = 39 is the first character of replace_dq l, so l starts with a raw quote: excluded by lex_ok *)
  apply N.eqb_eq in Ed. subst d. destruct l as [|c l']; [discriminate|]. rewrite rd_cons in EY.
  destruct (N.eqb c 34) eqn:E34; [discriminate|]. inversion EY; subst c.
  cbn [lex_ok] in Hl. change (N.eqb 39 92) with false in Hl. cbv iota in Hl. change (N.eqb 39 39) with true in Hl. discriminate.
Qed.

(* hexadecimal prefixes are untouched by the two replace passes *)
Fixpoint hexs (n : nat) (l : str) : option (list Z) :=
  match n with
  | O => Some []
  | S k => match l with
           | [] => None
           | a :: l' => match hexv a with
                        | Some v => match hexs k l' with Some vs => Some (v :: vs) | None => None end
                        | None => None
                        end
           end
  end.
Lemma hexv_plain a v : hexv a = Some v -> N.eqb a 92 = false /\ N.eqb a 34 = false /\ N.eqb a 39 = false.
Proof. unfold hexv. intros H. repeat split; apply N.eqb_neq; intros ->; cbn in H; discriminate. Qed.
Lemma T_head_nonhex a l : hexv a = None -> exists a' rest, T (a :: l) = a' :: rest /\ hexv a' = None.
Proof.
  intros H. destruct (N.eqb a 34) eqn:E34.
  - apply N.eqb_eq in E34. subst a. rewrite T_dq. eexists. eexists. split; [reflexivity|]. reflexivity.
  - destruct (N.eqb a 92) eqn:E92.
    + apply N.eqb_eq in E92. subst a. unfold T. rewrite rd_cons. change (N.eqb 92 34) with false. cbv iota.
      destruct (replace_dq l) as [|d Y]; [eexists; eexists; split; reflexivity|].
      rewrite re_bs. destruct (N.eqb d 39); eexists; eexists; split; reflexivity.
    + rewrite T_plain by assumption. eexists. eexists. split; [reflexivity | exact H].
Qed.
Lemma hexs_T : forall n l, hexs n (T l) = hexs n l.
Proof.
  induction n as [|k IH]; intros l; [reflexivity|]. destruct l as [|a l']; [reflexivity|]. cbn [hexs].
  destruct (hexv a) as [v|] eqn:Ea.
  - destruct (hexv_plain a v Ea) as [E1 [E2 _]]. rewrite T_plain by assumption. cbn [hexs]. rewrite Ea, IH. reflexivity.
  - destruct (T_head_nonhex a l' Ea) as [a' [rest [-> Ha']]]. cbn [hexs]. rewrite Ha'. reflexivity.
Qed.
Lemma hex4l_hexs l : hex4l l = match hexs 4 l with Some [a; b; c; d] => Some (((a * 16 + b) * 16 + c) * 16 + d) | _ => None end.
Proof.
  destruct l as [|a [|b [|c [|d r]]]]; cbn [hex4l hexs]; rewrite ?hex_val_hexv;
    repeat match goal with |- context [hexv ?x] => destruct (hexv x) end; reflexivity.
Qed.
Lemma hex4l_T l : hex4l (T l) = hex4l l.
Proof. rewrite !hex4l_hexs, hexs_T. reflexivity. Qed.

Lemma T_hex4 a b c d x l : hex4 a b c d = Some x -> T (a :: b :: c :: d :: l) = a :: b :: c :: d :: T l.
Proof.
  unfold hex4. destruct (hexv a) eqn:Ea, (hexv b) eqn:Eb, (hexv c) eqn:Ec, (hexv d) eqn:Ed; try discriminate. intros _.
  destruct (hexv_plain _ _ Ea) as [A1 [A2 _]]. destruct (hexv_plain _ _ Eb) as [B1 [B2 _]].
  destruct (hexv_plain _ _ Ec) as [C1 [C2 _]]. destruct (hexv_plain _ _ Ed) as [D1 [D2 _]].
  rewrite !T_plain by assumption. reflexivity.
Qed.

(* what follows a high surrogate: "\u" and four more hexadecimal digits *)
Definition lowpart (l : str) : option Z :=
  match l with
  | b :: u :: rest => if N.eqb b 92 && N.eqb u 117 then hex4l rest else None
  | _ => None
  end.
Lemma lowpart_T l : lowpart (T l) = lowpart l.
Proof.
  destruct l as [|c l']; [reflexivity|].
  destruct (N.eqb c 34) eqn:E34.
  { apply N.eqb_eq in E34. subst c. rewrite T_dq. destruct l'; reflexivity. }
  destruct (N.eqb c 92) eqn:E92.
  2:{ rewrite T_plain by assumption. cbn [lowpart]. destruct (T l'), l'; cbn [lowpart]; rewrite ?E92; reflexivity. }
  apply N.eqb_eq in E92. subst c. destruct l' as [|d l'']; [reflexivity|].
  destruct (N.eqb d 39) eqn:E39.
  { apply N.eqb_eq in E39. subst d. rewrite T_bs_sq. cbn [lowpart]. destruct (T l''); reflexivity. }
  destruct (N.eqb d 34) eqn:Ed34.
  { apply N.eqb_eq in Ed34. subst d. unfold T. rewrite !rd_cons. change (N.eqb 92 34) with false. change (N.eqb 34 34) with true. cbv iota.
    rewrite re_bs. change (N.eqb 92 39) with false. cbv iota. rewrite re_bs. change (N.eqb 34 39) with false. cbv iota. reflexivity. }
  destruct (N.eqb d 92) eqn:Ed92.
  { apply N.eqb_eq in Ed92. subst d. unfold T. rewrite !rd_cons. change (N.eqb 92 34) with false. cbv iota.
    rewrite re_bs. change (N.eqb 92 39) with false. cbv iota.
    destruct (replace_dq l'') as [|e Y]; [reflexivity|]. rewrite re_bs. destruct (N.eqb e 39); reflexivity. }
  rewrite T_bs_other by assumption. cbn [lowpart N.eqb andb]. destruct (N.eqb d 117); [apply hex4l_T | reflexivity].
Qed.

Arguments T : simpl never.
Lemma dhc_spec_none l : hex4l l = None -> dhc_spec l = DSyntax.
Proof.
  destruct l as [|a [|b [|c [|d r]]]]; try reflexivity. rewrite hex4l_hex4. unfold dhc_spec. intros ->. reflexivity.
Qed.
Lemma dhc_spec_high h1 h2 h3 h4 l x : hex4 h1 h2 h3 h4 = Some x -> is_low x = false -> is_high x = true ->
  dhc_spec (h1 :: h2 :: h3 :: h4 :: l)
  = match lowpart l with
    | Some y => if is_low y then DOk (65536 + (x - 55296) * 1024 + (y - 56320)) 10 else DSyntax
    | None => DSyntax
    end.
Proof.
  intros Ex El Eh. unfold dhc_spec. rewrite Ex, El, Eh.
  destruct l as [|b [|u [|l1 [|l2 [|l3 [|l4 r3]]]]]]; cbn [lowpart]; try reflexivity;
    try (destruct (N.eqb b 92 && N.eqb u 117); reflexivity).
  rewrite hex4l_hex4. destruct (N.eqb b 92 && N.eqb u 117); [|reflexivity]. destruct (hex4 l1 l2 l3 l4); reflexivity.
Qed.
Lemma lowpart_some l y : lowpart l = Some y ->
  exists l1 l2 l3 l4 r3, l = 92%N :: 117%N :: l1 :: l2 :: l3 :: l4 :: r3 /\ hex4 l1 l2 l3 l4 = Some y.
Proof.
  destruct l as [|b [|u rest]]; try discriminate. cbn [lowpart].
  destruct (N.eqb b 92) eqn:Eb; [|discriminate]. destruct (N.eqb u 117) eqn:Eu; [|discriminate]. cbn [andb].
  apply N.eqb_eq in Eb, Eu. subst. destruct rest as [|l1 [|l2 [|l3 [|l4 r3]]]]; try discriminate.
  rewrite hex4l_hex4. intros H. do 5 eexists. split; [reflexivity | exact H].
Qed.

Theorem ul_sq : forall fuel s acc, (length (T s) < fuel)%nat -> lex_ok 39 s = true -> forallb is_scalar s = true ->
  ul fuel (T s) acc = out_of acc (spec_decode 39 s).
Proof.
  induction fuel as [|f IH]; intros s acc Hf Hl Hs; [lia|].
  destruct s as [|ch r].
  { change (T []) with (@nil N). cbn [ul spec_decode out_of]. rewrite app_nil_r. reflexivity. }
  cbn [lex_ok] in Hl. cbn [forallb] in Hs. apply andb_true_iff in Hs as [Hc Hs].
  assert (IHr : forall l c, (length (T l) < f)%nat -> lex_ok 39 l = true -> forallb is_scalar l = true ->
             ul f (T l) (c :: acc) = out_of acc (match spec_decode 39 l with Some t => Some (c :: t) | None => None end)).
  { intros l c H1 H2 H3. rewrite IH by assumption. apply out_of_cons. }
  cbn [spec_decode]. destruct (N.eqb ch 92) eqn:E92.
  - apply N.eqb_eq in E92. subst ch.
    destruct r as [|e r']; [discriminate|]. apply andb_true_iff in Hl as [He Hl].
    cbn [forallb] in Hs. apply andb_true_iff in Hs as [_ Hs].
    destruct (N.eqb e 39) eqn:E39.
    { apply N.eqb_eq in E39. subst e. rewrite T_bs_sq in Hf |- *. cbn [length] in Hf. cbn [ul].
      change (N.eqb 39 92) with false. change (39 <=? 31)%N with false. cbv iota. apply IHr; try assumption; lia. }
    destruct (N.eqb e 92) eqn:Ee92.
    { apply N.eqb_eq in Ee92. subst e. rewrite (T_bs_bs _ Hl) in Hf |- *. cbn [length] in Hf. cbn [ul].
      change (N.eqb 92 92) with true. cbv iota. unfold de_list. change (N.eqb 92 34) with false. change (N.eqb 92 92) with true.
      cbv iota. change (skipn (Z.to_nat 0) (T r')) with (T r'). apply IHr; try assumption; lia. }
    destruct (N.eqb e 34) eqn:E34; [apply N.eqb_eq in E34; subst e; cbn in He; discriminate|].
    rewrite (T_bs_other e r' E34 E39 Ee92) in Hf |- *. cbn [length] in Hf. cbn [ul].
    change (N.eqb 92 92) with true. cbv iota. unfold de_list. rewrite E34, Ee92.
    destruct (N.eqb e 98) eqn:E98; [apply N.eqb_eq in E98; subst e; cbn; apply IHr; try assumption; lia|].
    destruct (N.eqb e 102) eqn:E102; [apply N.eqb_eq in E102; subst e; cbn; apply IHr; try assumption; lia|].
    destruct (N.eqb e 110) eqn:E110; [apply N.eqb_eq in E110; subst e; cbn; apply IHr; try assumption; lia|].
    destruct (N.eqb e 114) eqn:E114; [apply N.eqb_eq in E114; subst e; cbn; apply IHr; try assumption; lia|].
    destruct (N.eqb e 116) eqn:E116; [apply N.eqb_eq in E116; subst e; cbn; apply IHr; try assumption; lia|].
    destruct (N.eqb e 47) eqn:E47; [apply N.eqb_eq in E47; subst e; cbn; apply IHr; try assumption; lia|].
    destruct (N.eqb e 117) eqn:E117.
    2:{ cbn [existsb] in He. rewrite E98, E102, E110, E114, E116, E117, E47, Ee92 in He. cbn in He. discriminate. }
    cbv iota. rewrite dhc_is_spec.
    destruct (hex4l r') as [x|] eqn:Ex4.
    2:{ rewrite dhc_spec_none by (rewrite hex4l_T; exact Ex4).
        destruct r' as [|h1 [|h2 [|h3 [|h4 r2]]]]; try reflexivity. rewrite hex4l_hex4 in Ex4. rewrite Ex4. reflexivity. }
    destruct r' as [|h1 [|h2 [|h3 [|h4 r2]]]]; try discriminate. rewrite hex4l_hex4 in Ex4.
    rewrite (T_hex4 _ _ _ _ _ r2 Ex4) in Hf |- *. cbn [length] in Hf.
    assert (Hl2 : lex_ok 39 r2 = true) by (eapply lex_ok_drop4; [exact Ex4 | exact Hl]).
    assert (Hs2 : forallb is_scalar r2 = true) by (do 4 apply scal_drop in Hs; exact Hs).
    destruct (is_low x) eqn:Elow.
    { unfold dhc_spec. rewrite Ex4, Elow. reflexivity. }
    destruct (is_high x) eqn:Ehigh.
    2:{ unfold dhc_spec. rewrite Ex4, Elow, Ehigh.
        change (skipn (Z.to_nat 4) (h1 :: h2 :: h3 :: h4 :: T r2)) with (T r2). apply IHr; try assumption; lia. }
    rewrite (dhc_spec_high _ _ _ _ _ _ Ex4 Elow Ehigh), lowpart_T. rewrite Ex4, Elow, Ehigh.
    destruct (lowpart r2) as [y|] eqn:Elp.
    2:{ destruct r2 as [|b [|u [|l1 [|l2 [|l3 [|l4 r3]]]]]]; try reflexivity. cbn [lowpart] in Elp. rewrite hex4l_hex4 in Elp.
        destruct (N.eqb b 92 && N.eqb u 117); [rewrite Elp|]; reflexivity. }
    apply lowpart_some in Elp as (l1 & l2 & l3 & l4 & r3 & -> & Ey).
    rewrite (T_bs_other 117 _ eq_refl eq_refl eq_refl), (T_hex4 _ _ _ _ _ r3 Ey) in Hf |- *. cbn [length] in Hf.
    cbv beta iota. change (N.eqb 92 92 && N.eqb 117 117) with true. cbv iota. rewrite Ey.
    destruct (is_low y); [|reflexivity].
    change (skipn (Z.to_nat 10) (h1 :: h2 :: h3 :: h4 :: 92%N :: 117%N :: l1 :: l2 :: l3 :: l4 :: T r3)) with (T r3).
    apply IHr; [lia | | ].
    + eapply lex_ok_drop4; [exact Ey|]. apply lex_ok_drop_bu. exact Hl2.
    + do 6 apply scal_drop in Hs2. exact Hs2.
  - apply andb_true_iff in Hl as [Hq Hl]. apply negb_true_iff in Hq.
    destruct (N.eqb ch 34) eqn:E34.
    { apply N.eqb_eq in E34. subst ch. rewrite T_dq in Hf |- *. cbn [length] in Hf. cbn [ul].
      change (N.eqb 92 92) with true. cbv iota. unfold de_list. change (N.eqb 34 34) with true. cbv iota.
      change (skipn (Z.to_nat 0) (T r)) with (T r). change (raw_ok 39 34) with true. cbv iota.
      apply IHr; try assumption; lia. }
    rewrite (T_plain ch r E92 E34) in Hf |- *. cbn [length] in Hf. cbn [ul]. rewrite E92.
    unfold raw_ok. unfold is_scalar in Hc. rewrite E92, Hq. apply andb_true_iff in Hc as [Hc1 Hc2]. rewrite Hc1, Hc2.
    cbn [negb andb]. rewrite !andb_true_r.
    destruct (ch <=? 31)%N eqn:E31.
    + assert (E32 : (32 <=? ch)%N = false) by lia. rewrite E32. reflexivity.
    + assert (E32 : (32 <=? ch)%N = true) by lia. rewrite E32. apply IHr; try assumption; lia.
Qed.

Theorem decode_sq body idx : lex_ok 39 body = true -> forallb is_scalar body = true ->
  decode_string_literal {| ty := T_SQ_STRING; tval := body; tidx := idx |}
  = match spec_decode 39 body with Some s => Ok s | None => Err ESyntax (Some idx) end.
Proof.
  intros Hl Hs. unfold decode_string_literal. cbn [ty tval tidx].
  change (ttype_eqb T_SQ_STRING T_SQ_STRING) with true. cbv iota. fold (T body).
  rewrite unescape_loop_whole, ul_sq by (try assumption; lia).
  destruct (spec_decode 39 body); reflexivity.
Qed.

Definition tt_of (q : N) : ttype := if N.eqb q 39 then T_SQ_STRING else T_DQ_STRING.
