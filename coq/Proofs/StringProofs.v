(* C09: string literal decoding *)
From JP Require Import Base.Json Spec.StringLit Model.Tokens Model.Parse.

(* the shift/mask expression of _decode_hex_char equals the RFC formula for every surrogate pair:
   a finite domain (1024 x 1024), checked exhaustively by computation and lifted *)
Definition pair_ok (h l : Z) : bool :=
  (65536 + Z.lor (Z.shiftl (Z.land h 1023) 10) (Z.land l 1023)) =? (65536 + (h - 55296) * 1024 + (l - 56320)).
Definition range_list (lo : Z) (n : nat) : list Z := map (fun k => lo + Z.of_nat k) (seq 0 n).
Lemma all_pairs_ok : forallb (fun h => forallb (fun l => pair_ok h l) (range_list 56320 1024)) (range_list 55296 1024) = true.
Proof. vm_compute. reflexivity. Qed.

Lemma in_range_list lo n x : (lo <= x < lo + Z.of_nat n) -> In x (range_list lo n).
Proof.
  intros H. unfold range_list. apply in_map_iff. exists (Z.to_nat (x - lo)). split; [lia|]. apply in_seq. lia.
Qed.

Theorem surrogate_arith : forall h l, is_high h = true -> is_low l = true ->
  65536 + Z.lor (Z.shiftl (Z.land h 1023) 10) (Z.land l 1023) = 65536 + (h - 55296) * 1024 + (l - 56320).
Proof.
  intros h l Hh Hl. unfold is_high, is_low in *.
  apply andb_true_iff in Hh as [H1 H2]. apply andb_true_iff in Hl as [H3 H4].
  pose proof all_pairs_ok as A. rewrite forallb_forall in A.
  assert (Ih : In h (range_list 55296 1024)) by (apply in_range_list; lia).
  specialize (A h Ih). rewrite forallb_forall in A.
  assert (Il : In l (range_list 56320 1024)) by (apply in_range_list; lia).
  specialize (A l Il). unfold pair_ok in A. apply Z.eqb_eq in A. exact A.
Qed.
