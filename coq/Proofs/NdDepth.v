(* C18, nondeterministic mode: for every script of random choices, the traversal completes exactly when the nesting of
   the value does not exceed the limit, and raises JSONPathRecursionError otherwise - the same line the deterministic
   traversal draws (C18_tree_complete / C18_tree_raises). *)
From JP Require Import Base.Json Spec.Sem Spec.Nondet Model.NdVisit Proofs.EvalProofs Proofs.NdSpec Proofs.NdSim.
From Coq Require Import Permutation.

Definition fits (limit : nat) (pend : pending) : Prop :=
  forall g d, In (g, d) pend -> forall c, In c (items g) -> (d - 1 + nesting (snd c) <= limit)%nat.
Definition shallow (limit : nat) (pend : pending) : Prop := forall g d, In (g, d) pend -> (1 <= d /\ d - 1 <= limit)%nat.

Lemma erel_exists g : exists qe, erel g qe.
Proof. destruct g; eexists; constructor. Qed.

Lemma nesting_container n m : is_container (snd n) = true -> (forall c, In c (children n) -> (nesting (snd c) <= m)%nat) ->
  (nesting (snd n) <= S m)%nat.
Proof.
  unfold children. destruct (snd n) as [| | | |l|mm]; try discriminate; intros _ H; cbn [nesting]; apply le_n_S.
  - assert (forall x, In x l -> (nesting x <= m)%nat).
    { intros x Hx. assert (exists i, In (i, x) (enum_from 0 l)) as [i Hi].
      { clear -Hx. generalize 0. induction l as [|a l IH]; intros j; [contradiction|]. destruct Hx as [-> | Hx]; [exists j; left; reflexivity|].
        destruct (IH Hx (j + 1)) as [i Hi]. exists i. right. exact Hi. }
      apply (H (fst n ++ [KIdx i], x)). apply in_map_iff. exists (i, x). split; [reflexivity | exact Hi]. }
    clear H. induction l as [|a l IH]; cbn [fold_right]; [lia|]. apply Nat.max_lub; [apply H0; left; reflexivity | apply IH; intros x Hx; apply H0; right; exact Hx].
  - assert (forall kv, In kv mm -> (nesting (snd kv) <= m)%nat).
    { intros kv Hkv. apply (H (fst n ++ [KName (fst kv)], snd kv)). apply in_map_iff. exists kv. split; [reflexivity | exact Hkv]. }
    clear H. induction mm as [|a l IH]; cbn [fold_right]; [lia|]. apply Nat.max_lub; [apply H0; left; reflexivity | apply IH; intros x Hx; apply H0; right; exact Hx].
Qed.

Lemma idx_in_range {A} (pend : list A) r : pend <> [] -> (Z.to_nat (r mod zlen pend) < length pend)%nat.
Proof.
  intros H. assert (0 < zlen pend) by (unfold zlen; destruct pend; [congruence | cbn [length]; lia]).
  pose proof (Z.mod_pos_bound r (zlen pend) H0). unfold zlen in *. lia.
Qed.

Lemma nd_loop_depth : forall fuel limit script pend acc, (phi pend < fuel)%nat -> shallow limit pend ->
  match nd_loop fuel limit script pend acc with
  | Ok _ => fits limit pend
  | Err c o => c = ERecursion /\ o = None /\ ~ fits limit pend
  | Crash _ => False
  | OutOfFuel => False
  end.
Proof.
  induction fuel as [|f IH]; intros limit script pend acc Hphi Hsh; [lia|]. cbn [nd_loop].
  destruct pend as [|e0 pend0] eqn:Epend; [intros g d []|]. rewrite <- Epend in *.
  assert (Hne : pend <> []) by (rewrite Epend; discriminate). clear e0 pend0 Epend.
  destruct (take1 script) as [r script1].
  destruct (nth_error pend (Z.to_nat (r mod zlen pend))) as [[g depth]|] eqn:En; [|apply nth_error_None in En; pose proof (idx_in_range pend r Hne); lia].
  apply nth_error_split in En as (p1 & p2 & Ep & Elen). rewrite <- Elen. subst pend. clear Hne.
  rewrite phi_app in Hphi. cbn [phi fst] in Hphi. unfold ecost in Hphi at 1.
  assert (Hlen : (length (items g) < S (S f))%nat) by (pose proof (lcost_len (items g)); lia).
  destruct (erel_exists g) as [qe He].
  destruct (drain (S (S f)) script1 g []) as [[[skipped res] g'] script2] eqn:Ed.
  destruct (drain_spec _ _ _ _ _ Hlen He _ _ _ _ Ed) as (sc & qe1 & Esk & Hsc & Hls & Hres). cbn [app] in Esk. subst skipped.
  assert (Hd : (1 <= depth /\ depth - 1 <= limit)%nat) by (apply (Hsh g depth); apply in_or_app; right; left; reflexivity).
  destruct res as [nd|].
  - destruct Hres as (Hc & qe' & Hst & He' & Hp).
    assert (Hnd : In nd (items g)) by (eapply Permutation_in; [apply Permutation_sym; exact Hp | apply in_or_app; right; left; reflexivity]).
    assert (Hn1 : (1 <= nesting (snd nd))%nat) by (destruct (snd nd); try discriminate; cbn [nesting]; lia).
    destruct (limit <? depth)%nat eqn:El.
    + (* the check fires: this very node does not fit *)
      apply Nat.ltb_lt in El. repeat split. intros Hfit. specialize (Hfit g depth ltac:(apply in_or_app; right; left; reflexivity) nd Hnd). lia.
    + apply Nat.ltb_ge in El. rewrite set_nth_mid.
      assert (Hphi' : (phi ((p1 ++ (g', depth) :: p2) ++ [(Unstarted nd, S depth)]) < f)%nat).
      { rewrite !phi_app. cbn [phi fst]. unfold ecost. cbn [items]. pose proof (children_cost nd Hc).
        apply lcost_perm in Hp. rewrite lcost_app in Hp. cbn [lcost] in Hp. rewrite (lcost_scalars sc Hsc) in Hp. lia. }
      assert (Hsh' : shallow limit ((p1 ++ (g', depth) :: p2) ++ [(Unstarted nd, S depth)])).
      { intros g0 d0 Hin. apply in_app_or in Hin as [Hin | [Hin | []]].
        - apply in_app_or in Hin as [Hin | [Hin | Hin]]; [apply (Hsh g0 d0); apply in_or_app; left; exact Hin | inversion Hin; subst g0 d0; exact Hd | apply (Hsh g0 d0); apply in_or_app; right; right; exact Hin].
        - inversion Hin; subst g0 d0. lia. }
      destruct Hd as [Hd1 Hd2].
      specialize (IH limit script2 _ (nd :: rev sc ++ acc) Hphi' Hsh').
      assert (Hsub : forall c, In c (items g') -> In c (items g)) by (intros c Hc0; eapply Permutation_in; [apply Permutation_sym; exact Hp | apply in_or_app; right; right; exact Hc0]).
      assert (Hfwd : fits limit (p1 ++ (g, depth) :: p2) -> fits limit ((p1 ++ (g', depth) :: p2) ++ [(Unstarted nd, S depth)])).
      { intros Hfit g0 d0 Hin c Hc0. apply in_app_or in Hin as [Hin | [Hin | []]].
        - apply in_app_or in Hin as [Hin | [Hin | Hin]].
          + apply (Hfit g0 d0); [apply in_or_app; left; exact Hin | exact Hc0].
          + inversion Hin; subst g0 d0. apply (Hfit g depth); [apply in_or_app; right; left; reflexivity | apply Hsub; exact Hc0].
          + apply (Hfit g0 d0); [apply in_or_app; right; right; exact Hin | exact Hc0].
        - inversion Hin; subst g0 d0. cbn [items] in Hc0. pose proof (children_nesting nd c Hc0).
          specialize (Hfit g depth ltac:(apply in_or_app; right; left; reflexivity) nd Hnd). lia. }
      assert (Hbwd : fits limit ((p1 ++ (g', depth) :: p2) ++ [(Unstarted nd, S depth)]) -> fits limit (p1 ++ (g, depth) :: p2)).
      { intros Hfit g0 d0 Hin c Hc0. apply in_app_or in Hin as [Hin | [Hin | Hin]].
        - apply (Hfit g0 d0); [apply in_or_app; left; apply in_or_app; left; exact Hin | exact Hc0].
        - inversion Hin; subst g0 d0. eapply Permutation_in in Hc0; [|exact Hp]. apply in_app_or in Hc0 as [Hc0 | [<- | Hc0]].
          + rewrite Forall_forall in Hsc. specialize (Hsc c Hc0). unfold scalar in Hsc. destruct (snd c); try discriminate; cbn [nesting]; lia.
          + assert (nesting (snd nd) <= S (limit - depth))%nat; [|lia]. apply nesting_container; [exact Hc|]. intros c' Hc'.
            specialize (Hfit (Unstarted nd) (S depth) ltac:(apply in_or_app; right; left; reflexivity) c' Hc'). lia.
          + apply (Hfit g' depth); [apply in_or_app; left; apply in_or_app; right; left; reflexivity | exact Hc0].
        - apply (Hfit g0 d0); [apply in_or_app; left; apply in_or_app; right; right; exact Hin | exact Hc0]. }
      destruct (nd_loop f limit script2 _ (nd :: rev sc ++ acc)) as [out|c o|x|]; try exact IH.
      * apply Hbwd. exact IH.
      * destruct IH as (-> & -> & Hnf). repeat split. intros Hfit. apply Hnf. apply Hfwd. exact Hfit.
  - destruct Hres as (Hnil & Hp). rewrite remove_nth_mid.
    assert (Hphi' : (phi (p1 ++ p2) < f)%nat) by (rewrite phi_app; lia).
    assert (Hsh' : shallow limit (p1 ++ p2)) by (intros g0 d0 Hin; apply (Hsh g0 d0); apply in_app_or in Hin as [Hin | Hin]; apply in_or_app; [left | right; right]; exact Hin).
    specialize (IH limit script2 _ (rev sc ++ acc) Hphi' Hsh').
    assert (Hfwd : fits limit (p1 ++ (g, depth) :: p2) -> fits limit (p1 ++ p2)).
    { intros Hfit g0 d0 Hin c Hc0. apply (Hfit g0 d0); [|exact Hc0]. apply in_app_or in Hin as [Hin | Hin]; apply in_or_app; [left | right; right]; exact Hin. }
    assert (Hbwd : fits limit (p1 ++ p2) -> fits limit (p1 ++ (g, depth) :: p2)).
    { intros Hfit g0 d0 Hin c Hc0. apply in_app_or in Hin as [Hin | [Hin | Hin]].
      - apply (Hfit g0 d0); [apply in_or_app; left; exact Hin | exact Hc0].
      - inversion Hin; subst g0 d0. eapply Permutation_in in Hc0; [|exact Hp]. rewrite Forall_forall in Hsc. specialize (Hsc c Hc0).
        unfold scalar in Hsc. destruct (snd c); try discriminate; cbn [nesting]; lia.
      - apply (Hfit g0 d0); [apply in_or_app; right; exact Hin | exact Hc0]. }
    destruct (nd_loop f limit script2 (p1 ++ p2) (rev sc ++ acc)) as [out|c o|x|]; try exact IH.
    + apply Hbwd. exact IH.
    + destruct IH as (-> & -> & Hnf). repeat split. intros Hfit. apply Hnf. apply Hfwd. exact Hfit.
Qed.

Theorem nd_visit_depth limit script root : (1 <= limit)%nat ->
  (exists ns, nd_visit limit script root = Ok ns /\ (nesting (snd root) <= limit)%nat)
  \/ (nd_visit limit script root = Err ERecursion None /\ (limit < nesting (snd root))%nat).
Proof.
  intros Hl. unfold nd_visit. assert (E : (limit <? 1)%nat = false) by (apply Nat.ltb_ge; exact Hl). rewrite E.
  assert (Hphi : (phi [(Unstarted root, 2%nat)] < 2 * count_nodes (snd root) + 2)%nat).
  { cbn [phi fst]. unfold ecost. cbn [items]. pose proof (cost_count (snd root)).
    destruct (is_container (snd root)) eqn:Ec; [pose proof (children_cost root Ec); lia | rewrite children_scalar by exact Ec; cbn [lcost]; lia]. }
  assert (Hsh : shallow limit [(Unstarted root, 2%nat)]) by (intros g d [Hin | []]; inversion Hin; subst; lia).
  pose proof (nd_loop_depth _ limit script _ [root] Hphi Hsh) as H.
  assert (Hiff : fits limit [(Unstarted root, 2%nat)] <-> (nesting (snd root) <= limit)%nat).
  { split.
    - intros Hfit. destruct (is_container (snd root)) eqn:Ec.
      + assert (nesting (snd root) <= S (limit - 1))%nat; [|lia]. apply nesting_container; [exact Ec|]. intros c Hc.
        specialize (Hfit (Unstarted root) 2%nat (or_introl eq_refl) c Hc). lia.
      + destruct (snd root); try discriminate; cbn [nesting]; lia.
    - intros Hn g d [Hin | []] c Hc. inversion Hin; subst. cbn [items] in Hc. pose proof (children_nesting root c Hc). lia. }
  destruct (nd_loop _ limit script _ [root]) as [out|c o|x|]; try contradiction.
  - left. exists out. split; [reflexivity | apply Hiff; exact H].
  - right. destruct H as (-> & -> & Hnf). split; [reflexivity|]. destruct (Nat.lt_ge_cases limit (nesting (snd root))) as [Hlt | Hge]; [exact Hlt | exfalso; apply Hnf; apply Hiff; exact Hge].
Qed.
