(* regenerated effect inventory satisfies the purity policy (Gen/Effects.v) *)
From JP Require Import Base.Json Model.EffectLang Gen.Effects Proofs.EffectsPolicy.
(* C14 / C16: every store and mutation in the package is of a tolerated kind *)
Theorem package_is_pure : pure_package g_effects g_bindings = true.
Proof. vm_compute. reflexivity. Qed.

