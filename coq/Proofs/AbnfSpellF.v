(* From the ABNF to spellings, with filter selectors: logical expressions, comparisons, parentheses, negation, existence tests, nested queries and
   nested filters - everything except function calls (whose validity depends on the registry).  The sub-language is given as a grammar: the RFC's
   rules with the function-expr alternative removed from comparable and test-expr (nf_grammar); its derivations are derivations of the RFC grammar. *)
From JP Require Import Base.Prelude Base.Json Model.Regex Model.Tokens Model.Lex Model.Ast Model.PyFloat Model.Parse Model.Serialize Model.Api Spec.Abnf Spec.Rfc9535Grammar Spec.StringLit Spec.Types
  Proofs.StringProofs Proofs.LexString Proofs.LexNoCrash Proofs.LexInv Proofs.Requery Proofs.Reparse Proofs.NumMatch Proofs.ReparseF Proofs.ParseComplete Proofs.LexSpell Proofs.AbnfDerive Proofs.TextSound
  Proofs.EvalProofs Proofs.LexComplete Proofs.LexCompleteF Proofs.AbnfInvert Proofs.AbnfSpell Proofs.StringInQuery.
From Coq Require Import ZifyBool ZifyN.

Definition nf_body (r : rule) : gexp :=
  match r with
  | r_comparable => GAlt (R r_literal) (R r_singular_query)
  | r_test_expr => GSeq (GOpt (GSeq (C 33) S_)) (R r_filter_query)
  | _ => rule_body r
  end.
Definition nf_grammar : grammar := fun n => match nth_error all_rules n with Some r => nf_body r | None => GRange 1 0 end.
Notation DN := (derives nf_grammar).

(* derivations of the sub-language are derivations of the RFC grammar *)
Lemma dn_d e s : DN e s -> D e s.
Proof.
  intros H. induction H; try (constructor; assumption).
  apply DRef. unfold nf_grammar, rfc_grammar in *. destruct (nth_error all_rules n) as [r|] eqn:E; [|exact IHderives].
    destruct r; try exact IHderives; cbn [nf_body rule_body GAlts] in *.
    + (* test-expr *) apply i_seq in IHderives as (s1 & s2 & -> & H1 & H2). apply DSeq; [exact H1 | apply DAltL; exact H2].
    + (* comparable *) apply i_alt in IHderives as [H1 | H1]; [apply DAltL; exact H1 | apply DAltR; apply DAltL; exact H1].
Qed.

(* generic inversion, for this grammar *)
Lemma n_ref r s : DN (R r) s -> DN (nf_body r) s.
Proof. unfold R. intros H. inversion H; subst. unfold nf_grammar in *. rewrite all_rules_indexed in *. assumption. Qed.
Lemma n_seq a b s : DN (GSeq a b) s -> exists s1 s2, s = s1 ++ s2 /\ DN a s1 /\ DN b s2.
Proof. intros H. inversion H; subst. eexists; eexists; split; [reflexivity | split; assumption]. Qed.
Lemma n_alt a b s : DN (GAlt a b) s -> DN a s \/ DN b s.
Proof. intros H. inversion H; subst; [left | right]; assumption. Qed.
Lemma n_eps s : DN GEps s -> s = []. Proof. intros H. inversion H. reflexivity. Qed.
Lemma n_C c s : DN (C c) s -> s = [c]. Proof. intros H. apply dn_d in H. apply i_C. exact H. Qed.
Lemma n_opt a s : DN (GOpt a) s -> DN a s \/ s = [].
Proof. intros H. apply n_alt in H as [H | H]; [left; exact H | right; apply n_eps; exact H]. Qed.
Lemma n_S b : DN S_ b -> blanks b. Proof. intros H. apply i_S. apply dn_d. exact H. Qed.
Lemma n_lit l s : DN (GLit l) s -> s = l. Proof. intros H. apply (i_lit l). apply dn_d. exact H. Qed.

(* ---- abstract states at filter depth d: no function call is ever open ---- *)
Definition st (m : amode) (d : nat) : ast := mkA m (Z.of_nat d) (repeat 0 d) [].
Lemma st_a0 : st MSeg 0 = a0. Proof. reflexivity. Qed.
Lemma st_enter d : astep (st MBrk d) T_FILTER = Some (GBl, st MFil (S d)).
Proof. unfold st. cbn [astep am afd affd afcs repeat]. rewrite Nat2Z.inj_succ. unfold Z.succ. reflexivity. Qed.
Lemma afd_nz d : (Z.of_nat (S d) =? 0) = false. Proof. lia. Qed.
(* leaving a filter: "]" closes the bracket of the filter selector, "," goes on with the next selector *)
Lemma st_close d m : m = MFil \/ m = MSeg -> astep (st m (S d)) T_RBRACKET = Some (GBl, st MSeg d).
Proof.
  intros [-> | ->]; unfold st; cbn [astep am afd affd afcs repeat fil_step]; rewrite ?afd_nz; cbn [fil_step affd afd afcs]; rewrite Nat2Z.inj_succ; unfold Z.succ;
    replace (Z.of_nat d + 1 - 1) with (Z.of_nat d) by lia; reflexivity.
Qed.
Lemma st_comma d m : m = MFil \/ m = MSeg -> astep (st m (S d)) T_COMMA = Some (GBl, st MBrk d).
Proof.
  intros [-> | ->]; unfold st; cbn [astep am afd affd afcs repeat fil_step]; rewrite ?afd_nz; cbn [fil_step affd afd afcs zlen length]; change (0 <? Z.of_nat 0) with false; cbv iota;
    rewrite Nat2Z.inj_succ; unfold Z.succ; replace (Z.of_nat d + 1 - 1) with (Z.of_nat d) by lia; reflexivity.
Qed.
(* tokens that leave the machine in the filter state *)
Definition fil_ty (T : ttype) : Prop :=
  T = T_SQ_STRING \/ T = T_DQ_STRING \/ T = T_NOT \/ T = T_NE \/ T = T_EQ \/ T = T_LE \/ T = T_LT \/ T = T_GE \/ T = T_GT \/ T = T_AND \/ T = T_OR \/ T = T_TRUE \/ T = T_FALSE \/ T = T_NULL
  \/ T = T_FLOAT \/ T = T_INT \/ T = T_LPAREN \/ T = T_RPAREN.
Lemma st_fil d m T : m = MFil \/ m = MSeg -> fil_ty T -> astep (st m (S d)) T = Some (GBl, st MFil (S d)).
Proof.
  intros Hm HT. unfold fil_ty in HT.
  destruct Hm as [-> | ->]; unfold st; cbn [astep am afd]; repeat (destruct HT as [-> | HT]); try subst T; rewrite ?afd_nz; reflexivity.
Qed.
Lemma st_query d m T : m = MFil \/ m = MSeg -> T = T_ROOT \/ T = T_CURRENT -> astep (st m (S d)) T = Some (GBl, st MSeg (S d)).
Proof. intros [-> | ->] [-> | ->]; unfold st; cbn [astep am afd]; rewrite ?afd_nz; reflexivity. Qed.

Section Depth.
  Variable d : nat.

(* ---- inside brackets: continuation that accepts any blanks first ---- *)
Definition BKd (t' : list token) (z' : list N) (a' : ast) : Prop := forall b, blanks b -> RunT (st MBrk d) t' (b ++ z') a'.
Lemma bkd_blank S t' z' a' : blanks S -> BKd t' z' a' -> BKd t' (S ++ z') a'.
Proof. intros HS H b Hb. rewrite app_assoc. apply H. apply blanks_app; assumption. Qed.
Lemma bkd_tok T v i t' z' a' : brk_ty T -> tshape T v -> BKd t' z' a' -> BKd (tk T v i :: t') (pre GBl T ++ v ++ post T ++ z') a'.
Proof.
  intros HT Hv H b Hb. apply (RT_cons (st MBrk d) (tk T v i) GBl (st MBrk d) b t' ([] ++ z') a'); [| exact Hb | discriminate | exact Hv | apply H; reflexivity].
  cbn [ty tk]. destruct HT as [-> | [-> | [-> | [-> | [-> | ->]]]]]; reflexivity.
Qed.


  (* an integer of the ABNF as an INDEX token *)
  Lemma bkd_int s : D (R r_int) s -> exists i, int_text_ok s i /\ forall j t' z' a', BKd t' z' a' -> BKd (tk T_INDEX s j :: t') (s ++ z') a'.
  Proof.
    intros H. pose proof (abnf_int s H) as Hi. exists (int_of_index s). split; [exact Hi|]. intros j t' z' a' HK.
    apply (bkd_tok T_INDEX s j t' z' a' ltac:(unfold brk_ty; tauto) (pm_index _ _ Hi) HK).
  Qed.

  (* [int S] in front of a continuation *)
  Lemma bkd_opt_int_S s : D (GOpt (GSeq (R r_int) S_)) s ->
    exists (o : option Z) B, 0 <= B /\ (forall cfg, wide cfg B -> exists t, OptI cfg o t /\ forall t' z' a', BKd t' z' a' -> BKd (t ++ t') (s ++ z') a').
  Proof.
    intros H. apply i_opt in H as [H | ->].
    - apply i_seq in H as (ds & S & -> & Hd & HS). apply i_S in HS. destruct (bkd_int ds Hd) as (i & Hi & HK).
      exists (Some i), (Z.abs i). split; [lia|]. intros cfg Hw. exists [tk T_INDEX ds 0]. split.
      + cbn [OptI]. exists ds, 0. split; [reflexivity|]. split; [exact Hi | apply (wide_in cfg (Z.abs i)); [exact Hw | lia]].
      + intros t' z' a' K. cbn [app]. rewrite <- app_assoc. apply HK. apply bkd_blank; assumption.
    - exists None, 0. split; [lia|]. intros cfg _. exists []. split; [reflexivity|]. intros t' z' a' K. exact K.
  Qed.
  (* [S int] *)
  Lemma bkd_opt_S_int s : D (GOpt (GSeq S_ (R r_int))) s ->
    exists (o : option Z) B, 0 <= B /\ (forall cfg, wide cfg B -> exists t, OptI cfg o t /\ forall t' z' a', BKd t' z' a' -> BKd (t ++ t') (s ++ z') a').
  Proof.
    intros H. apply i_opt in H as [H | ->].
    - apply i_seq in H as (S & ds & -> & HS & Hd). apply i_S in HS. destruct (bkd_int ds Hd) as (i & Hi & HK).
      exists (Some i), (Z.abs i). split; [lia|]. intros cfg Hw. exists [tk T_INDEX ds 0]. split.
      + cbn [OptI]. exists ds, 0. split; [reflexivity|]. split; [exact Hi | apply (wide_in cfg (Z.abs i)); [exact Hw | lia]].
      + intros t' z' a' K. cbn [app]. rewrite <- app_assoc. apply bkd_blank; [exact HS|]. apply HK. exact K.
    - exists None, 0. split; [lia|]. intros cfg _. exists []. split; [reflexivity|]. intros t' z' a' K. exact K.
  Qed.

  Lemma bkd_colon i t' z' a' : BKd t' z' a' -> BKd (tk T_COLON [58%N] i :: t') ([58%N] ++ z') a'.
  Proof. intros K. apply (bkd_tok T_COLON [58%N] i t' z' a' ltac:(unfold brk_ty; tauto) eq_refl K). Qed.

  (* slice-selector = [start S] ":" S [end S] [":" [S step ]] *)
  Lemma bkd_slice s : D (R r_slice_selector) s ->
    exists a b c B, 0 <= B /\ forall cfg, wide cfg B -> exists t, t <> [] /\ SelT cfg (SSlice a b c) t /\ forall t' z' a', BKd t' z' a' -> BKd (t ++ t') (s ++ z') a'.
  Proof.
    intros H. apply i_ref in H. cbn [rule_body GSeqs] in H.
    apply i_seq in H as (s1 & r & -> & H1 & H). apply i_seq in H as (c1 & r1 & -> & Hc & H). apply i_seq in H as (S2 & r2 & -> & HS2 & H). apply i_seq in H as (s3 & s4 & -> & H3 & H4).
    apply i_C in Hc. subst c1. apply i_S in HS2.
    destruct (bkd_opt_int_S s1 H1) as (a & Ba & Ba0 & Ka). destruct (bkd_opt_int_S s3 H3) as (b & Bb & Bb0 & Kb).
    assert (Hstep : exists c Bc, 0 <= Bc /\ forall cfg, wide cfg Bc -> exists tc, StepT cfg c tc /\ forall t' z' a', BKd t' z' a' -> BKd (tc ++ t') (s4 ++ z') a').
    { apply i_opt in H4 as [H4 | ->].
      - apply i_seq in H4 as (c2 & s5 & -> & Hc2 & H5). apply i_C in Hc2. subst c2. destruct (bkd_opt_S_int s5 H5) as (c & Bc & Bc0 & Kc).
        exists c, Bc. split; [exact Bc0|]. intros cfg Hw. destruct (Kc cfg Hw) as (tc & Hoc & Kc'). exists (tk T_COLON [58%N] 0 :: tc). split.
        + right. exists [58%N], 0, tc. split; [reflexivity | exact Hoc].
        + intros t' z' a' K. cbn [app]. apply (bkd_colon 0 (tc ++ t') (s5 ++ z') a'). apply Kc'. exact K.
      - exists None, 0. split; [lia|]. intros cfg _. exists []. split; [left; split; reflexivity|]. intros t' z' a' K. exact K. }
    destruct Hstep as (c & Bc & Bc0 & Kc).
    exists a, b, c, (Z.max Ba (Z.max Bb Bc)). split; [apply Z.le_trans with Ba; [exact Ba0 | apply Z.le_max_l]|]. intros cfg Hw.
    destruct (Ka cfg (wide_le cfg _ Ba (Z.le_max_l _ _) Hw)) as (ta & Hoa & Ka'). destruct (Kb cfg (wide_le cfg _ Bb (Z.le_trans _ _ _ (Z.le_max_l Bb Bc) (Z.le_max_r Ba _)) Hw)) as (tb & Hob & Kb').
    destruct (Kc cfg (wide_le cfg _ Bc (Z.le_trans _ _ _ (Z.le_max_r Bb Bc) (Z.le_max_r Ba _)) Hw)) as (tc & Hoc & Kc').
    exists (ta ++ tk T_COLON [58%N] 0 :: tb ++ tc). split; [destruct ta; discriminate|]. split; [apply st_slice; assumption|].
    intros t' z' a' K. rewrite <- !app_assoc. cbn [app]. rewrite <- !app_assoc. apply Ka'. apply bkd_colon. apply bkd_blank; [exact HS2|]. apply Kb'. apply Kc'. exact K.
  Qed.


  Lemma bkd_string s : D (R r_string_literal) s ->
    exists k, forall cfg, exists t, SelT cfg (SName k) [t] /\ forall t' z' a', BKd t' z' a' -> BKd (t :: t') (s ++ z') a'.
  Proof.
    intros H. apply abnf_string in H as (q & body & k & -> & Hq & Hd). exists k. intros cfg.
    assert (Hq' : q = 39%N \/ q = 34%N) by (destruct Hq; tauto).
    destruct (spec_lex_ok q Hq' (length body) body k (le_n _) Hd) as [Hlok Hsc].
    destruct Hq as [-> | ->].
    - exists (tk T_SQ_STRING body 0). split.
      + apply st_name; [left; reflexivity|]. unfold tk. rewrite (decode_sq body 0 Hlok Hsc), Hd. reflexivity.
      + intros t' z' a' K. replace ((39%N :: body ++ [39%N]) ++ z') with (pre GBl T_SQ_STRING ++ body ++ post T_SQ_STRING ++ z') by (cbn [pre post app]; rewrite <- app_assoc; reflexivity).
        apply bkd_tok; [unfold brk_ty; tauto | exact Hlok | exact K].
    - exists (tk T_DQ_STRING body 0). split.
      + apply st_name; [right; reflexivity|]. unfold tk. rewrite (decode_dq body 0 Hlok Hsc), Hd. reflexivity.
      + intros t' z' a' K. replace ((34%N :: body ++ [34%N]) ++ z') with (pre GBl T_DQ_STRING ++ body ++ post T_DQ_STRING ++ z') by (cbn [pre post app]; rewrite <- app_assoc; reflexivity).
        apply bkd_tok; [unfold brk_ty; tauto | exact Hlok | exact K].
  Qed.


End Depth.

(* ---- inside a filter ---- *)
Definition FKd (d : nat) (t' : list token) (z' : list N) (a' : ast) : Prop :=
  forall b, blanks b -> forall m, m = MFil \/ m = MSeg -> RunT (st m (S d)) t' (b ++ z') a'.
Lemma fkd_blank d S t' z' a' : blanks S -> FKd d t' z' a' -> FKd d t' (S ++ z') a'.
Proof. intros HS H b Hb m Hm. rewrite app_assoc. apply H; [apply blanks_app; assumption | exact Hm]. Qed.
Lemma fkd_tok d T v i t' z' a' : fil_ty T -> tshape T v -> FKd d t' z' a' -> FKd d (tk T v i :: t') (pre GBl T ++ v ++ post T ++ z') a'.
Proof.
  intros HT Hv H b Hb m Hm. apply (RT_cons (st m (S d)) (tk T v i) GBl (st MFil (S d)) b t' ([] ++ z') a'); [apply st_fil; assumption | exact Hb | discriminate | exact Hv|].
  apply (H [] eq_refl MFil). left. reflexivity.
Qed.
Definition cr_head (t' : list token) : Prop := exists tok t'', t' = tok :: t'' /\ (ty tok = T_COMMA \/ ty tok = T_RBRACKET).
(* what follows a filter selector inside its brackets reads the same from the filter state *)
Lemma bk_to_fk d t' z' a' : cr_head t' -> BKd d t' z' a' -> FKd d t' z' a'.
Proof.
  intros (tok & t'' & -> & Hty) K b Hb m Hm. specialize (K b Hb). apply RunT_cons_inv in K as (k & a1 & b0 & z0 & Hs & Hb0 & Hn & Ht & HR & E). rewrite E.
  apply (RT_cons (st m (S d)) tok k a1 b0 t'' z0 a'); [| exact Hb0 | exact Hn | exact Ht | exact HR].
  destruct Hty as [E1 | E1]; rewrite E1 in *.
  - assert (E0 : astep (st MBrk d) T_COMMA = Some (GBl, st MBrk d)) by reflexivity. rewrite E0 in Hs. inversion Hs; subst. apply st_comma. exact Hm.
  - assert (E0 : astep (st MBrk d) T_RBRACKET = Some (GBl, st MSeg d)) by reflexivity. rewrite E0 in Hs. inversion Hs; subst. apply st_close. exact Hm.
Qed.

Definition ECPS (d : nat) (t : list token) (s : list N) : Prop := forall t' z' a', FKd d t' z' a' -> FKd d (t ++ t') (s ++ z') a'.

Lemma pm_int v : int_form v -> pmatch RE_INT v.
Proof. intros H. exists [32%N]. apply (int_form_match v 32%N [] H). repeat split; reflexivity. Qed.
Lemma pm_float v : float_form v -> pmatch RE_FLOAT v.
Proof. intros H. exists [32%N]. apply (float_form_match v 32%N [] H). repeat split; reflexivity. Qed.

(* literal = number / string-literal / true / false / null *)
Lemma fk_literal d s : D (R r_literal) s -> exists v, forall cfg, exists t, CT cfg (ELit v) [t] /\ ECPS d [t] s.
Proof.
  intros H. apply i_ref in H. cbn [rule_body GAlts] in H.
  assert (Word : forall T w v0, fil_ty T -> tshape T w -> pre GBl T = [] -> post T = [] -> (forall i, lit_tok v0 (tk T w i)) -> s = w ->
            exists v, forall cfg, exists t, CT cfg (ELit v) [t] /\ ECPS d [t] s).
  { intros T w v0 HT Hw Hpre Hpost Hl ->. exists v0. intros cfg. exists (tk T w 0). split; [apply ct_lit; apply Hl|]. intros t' z' a' K.
    pose proof (fkd_tok d T w 0 t' z' a' HT Hw K) as K'. rewrite Hpre, Hpost in K'. exact K'. }
  apply i_alt in H as [H | H].
  { destruct (abnf_number s H) as (Hz & Hform & x & Hx). destruct Hform as [Hf | Hf].
    - apply (Word T_INT s (JNum (match py_int_of_float x with Some z => NInt z | None => x end))); try reflexivity; [unfold fil_ty; tauto | apply pm_int; exact Hf|].
      intros i. right. right. right. right. left. split; [reflexivity|]. split; [exact Hz|]. exists x. split; [exact Hx | reflexivity].
    - apply (Word T_FLOAT s (JNum x)); try reflexivity; [unfold fil_ty; tauto | apply pm_float; exact Hf|].
      intros i. right. right. right. right. right. split; [reflexivity|]. split; [exact Hz|]. exists x. split; [exact Hx | reflexivity]. }
  apply i_alt in H as [H | H].
  { apply abnf_string in H as (q & body & k & -> & Hq & Hd). destruct (StringInQuery.string_token q body k Hq Hd) as (Hlok & Hsc & Hdec & Hsh & Hpre & Hpost & Hty).
    exists (JStr k). intros cfg. exists (tk (StringInQuery.tt_q q) body 0). split.
    - apply ct_lit. right. right. right. left. split; [exact Hty|]. exists k. split; [apply Hdec | reflexivity].
    - intros t' z' a' K. assert (HT : fil_ty (StringInQuery.tt_q q)) by (destruct Hty as [-> | ->]; unfold fil_ty; tauto).
      pose proof (fkd_tok d _ body 0 t' z' a' HT Hsh K) as K'. rewrite Hpre, Hpost in K'. cbn [app] in *. rewrite <- app_assoc. exact K'. }
  apply i_alt in H as [H | H]; [apply i_lit in H; apply (Word T_TRUE s_true (JBool true)); try reflexivity; [unfold fil_ty; tauto | intros i; left; split; reflexivity | exact H]|].
  apply i_alt in H as [H | H]; [apply i_lit in H; apply (Word T_FALSE s_false (JBool false)); try reflexivity; [unfold fil_ty; tauto | intros i; right; left; split; reflexivity | exact H]|].
  apply i_lit in H. apply (Word T_NULL s_null JNull); try reflexivity; [unfold fil_ty; tauto | intros i; right; right; left; split; reflexivity | exact H].
Qed.

Definition SelCPS (d : nat) (s : list N) : Prop :=
  exists B, 0 <= B /\ forall cfg, wide cfg B -> exists sel t, t <> [] /\ SelT cfg sel t /\ forall t' z' a', cr_head t' -> BKd d t' z' a' -> BKd d (t ++ t') (s ++ z') a'.
Definition SegRunD (d : nat) (s : list N) : Prop :=
  exists B, 0 <= B /\ forall cfg, wide cfg B -> exists g t, SegT cfg g t /\ forall b, blanks b -> RunT (st MSeg d) t (b ++ s) (st MSeg d).

Lemma len_app3 (a b c : list N) : (length c <= length (a ++ b ++ c))%nat.
Proof. rewrite !app_length. lia. Qed.
Lemma max_l0 B1 B2 : 0 <= B1 -> 0 <= Z.max B1 B2. Proof. lia. Qed.

Section Rec.
  Variable NN : nat.
  Hypothesis IHsel : forall d s, (length s < NN)%nat -> DN (R r_selector) s -> SelCPS d s.

  (* *(S "," S selector) *)
  Lemma bkd_more d s : (length s <= NN)%nat -> DN (GStar (GSeqs [S_; C 44; S_; R r_selector])) s ->
    exists B, 0 <= B /\ forall cfg, wide cfg B ->
      exists rest tr, (forall s0 t0, SelT cfg s0 t0 -> SelsT cfg (s0 :: rest) (t0 ++ tr)) /\ (tr = [] \/ cr_head tr) /\
                 forall t' z' a', cr_head t' -> BKd d t' z' a' -> BKd d (tr ++ t') (s ++ z') a'.
  Proof.
    intros Hlen H. remember (GStar (GSeqs [S_; C 44; S_; R r_selector])) as g eqn:Eg. induction H; try discriminate Eg.
    - exists 0. split; [lia|]. intros cfg _. exists [], []. split; [intros s0 t0 H0; rewrite app_nil_r; apply ss_one; exact H0|]. split; [left; reflexivity | intros t' z' a' _ K; exact K].
    - inversion Eg; subst a. clear IHderives1. assert (Hl2 : (length s2 <= NN)%nat) by (rewrite app_length in Hlen; lia). destruct (IHderives2 Hl2 eq_refl) as (B2 & B20 & K2).
      cbn [GSeqs] in H0. apply n_seq in H0 as (S1 & r & -> & HS1 & H0). apply n_seq in H0 as (c & r1 & -> & Hc & H0). apply n_seq in H0 as (S2 & sl & -> & HS2 & Hsel).
      apply n_C in Hc. subst c. apply n_S in HS1. apply n_S in HS2.
      assert (Hls : (length sl < NN)%nat) by (rewrite !app_length in Hlen; cbn [length] in Hlen; lia).
      destruct (IHsel d sl Hls Hsel) as (B1 & B10 & K1).
      exists (Z.max B1 B2). split; [apply max_l0; exact B10|].
      intros cfg Hw. destruct (K1 cfg (wide_le cfg _ B1 (Z.le_max_l _ _) Hw)) as (sel & t1 & Hne1 & HS1' & C1). destruct (K2 cfg (wide_le cfg _ B2 (Z.le_max_r _ _) Hw)) as (rest & tr & HS2' & Htr & C2).
      exists (sel :: rest), (tk T_COMMA [44%N] 0 :: t1 ++ tr). split; [|split].
      + intros s0 t0 H00. apply ss_cons; [exact H00 | apply HS2'; exact HS1'].
      + right. eexists; eexists. split; [reflexivity | left; reflexivity].
      + intros t' z' a' Hh K. rewrite <- !app_assoc. cbn [app]. rewrite <- !app_assoc. apply bkd_blank; [exact HS1|].
        apply (bkd_tok d T_COMMA [44%N] 0 _ _ a' ltac:(unfold brk_ty; tauto) eq_refl). apply bkd_blank; [exact HS2|]. apply C1.
        * destruct Htr as [-> | (tok & t'' & -> & Hty)]; [exact Hh | exists tok, (t'' ++ t'); split; [reflexivity | exact Hty]].
        * apply C2; assumption.
  Qed.

  Lemma bkd_close d : BKd d [tk T_RBRACKET [93%N] 0] [93%N] (st MSeg d).
  Proof. intros b Hb. apply (RT_cons (st MBrk d) (tk T_RBRACKET [93%N] 0) GBl (st MSeg d) b [] [] (st MSeg d)); [reflexivity | exact Hb | discriminate | reflexivity | constructor]. Qed.

  Lemma brk_innerD d s : (length s <= NN)%nat -> DN (R r_bracketed_selection) s ->
    exists B inner, s = 91%N :: inner /\ 0 <= B /\ forall cfg, wide cfg B ->
      exists ss t, SelsT cfg ss t /\ RunT (st MBrk d) (t ++ [tk T_RBRACKET [93%N] 0]) inner (st MSeg d).
  Proof.
    intros Hlen H. apply n_ref in H. cbn [nf_body rule_body GSeqs] in H.
    apply n_seq in H as (lb & r & -> & Hlb & H). apply n_seq in H as (S1 & r1 & -> & HS1 & H). apply n_seq in H as (sl & r2 & -> & Hsel & H).
    apply n_seq in H as (more & r3 & -> & Hmore & H). apply n_seq in H as (S2 & rb & -> & HS2 & Hrb).
    apply n_C in Hlb. apply n_C in Hrb. subst lb rb. apply n_S in HS1. apply n_S in HS2.
    assert (Hl1 : (length sl < NN)%nat) by (rewrite !app_length in Hlen; cbn [length] in Hlen; lia).
    assert (Hl2 : (length more <= NN)%nat) by (rewrite !app_length in Hlen; cbn [length] in Hlen; lia).
    destruct (IHsel d sl Hl1 Hsel) as (B1 & B10 & K1). destruct (bkd_more d more Hl2 Hmore) as (B2 & B20 & K2).
    exists (Z.max B1 B2), (S1 ++ sl ++ more ++ S2 ++ [93%N]). split; [reflexivity|]. split; [apply max_l0; exact B10|]. intros cfg Hw.
    destruct (K1 cfg (wide_le cfg _ B1 (Z.le_max_l _ _) Hw)) as (sel & t1 & _ & HS & C1). destruct (K2 cfg (wide_le cfg _ B2 (Z.le_max_r _ _) Hw)) as (rest & tr & HSS & Htr & C2).
    exists (sel :: rest), (t1 ++ tr). split; [apply HSS; exact HS|].
    assert (Hrb : cr_head [tk T_RBRACKET [93%N] 0]) by (eexists; eexists; split; [reflexivity | right; reflexivity]).
    assert (K : BKd d ((t1 ++ tr) ++ [tk T_RBRACKET [93%N] 0]) (S1 ++ sl ++ more ++ S2 ++ [93%N]) (st MSeg d)).
    { rewrite <- app_assoc. apply bkd_blank; [exact HS1|]. apply C1.
      - destruct Htr as [-> | (tok & t'' & -> & Hty)]; [exact Hrb | exists tok, (t'' ++ [tk T_RBRACKET [93%N] 0]); split; [reflexivity | exact Hty]].
      - apply C2; [exact Hrb|]. apply bkd_blank; [exact HS2|]. apply bkd_close. }
    exact (K [] eq_refl).
  Qed.

  Lemma seg_childD d s : (length s <= NN)%nat -> DN (R r_child_segment) s -> SegRunD d s.
  Proof.
    intros Hlen H. apply n_ref in H. cbn [nf_body rule_body] in H. apply n_alt in H as [H | H].
    - destruct (brk_innerD d s Hlen H) as (B & inner & -> & B0 & K). exists B. split; [exact B0|]. intros cfg Hw.
      destruct (K cfg Hw) as (ss & t & HS & HR). exists (Child ss), (tk T_LBRACKET [91%N] 0 :: t ++ [tk T_RBRACKET [93%N] 0]). split; [apply sg_br; exact HS|].
      intros b Hb. apply (RT_cons (st MSeg d) (tk T_LBRACKET [91%N] 0) GBl (st MBrk d) b _ inner (st MSeg d)); [reflexivity | exact Hb | discriminate | reflexivity | exact HR].
    - apply n_seq in H as (dot & r & -> & Hd & H). apply n_C in Hd. subst dot. apply n_alt in H as [H | H].
      + apply n_C in H. subst r. exists 0. split; [lia|]. intros cfg _. exists (Child [SWild]), [tk T_WILD [42%N] 0]. split; [apply sg_wild|].
        intros b Hb. apply (RT_cons (st MSeg d) (tk T_WILD [42%N] 0) GDot (st MSeg d) b [] [] (st MSeg d)); [reflexivity | exact Hb | discriminate | reflexivity | constructor].
      + pose proof (abnf_name r (dn_d _ _ H)) as Hnm. exists 0. split; [lia|]. intros cfg _. exists (Child [SName r]), [tk T_PROPERTY r 0]. split; [apply sg_prop|].
        intros b Hb. replace (b ++ [46%N] ++ r) with (b ++ pre GDot T_PROPERTY ++ r ++ post T_PROPERTY ++ []) by (cbn [pre post app]; rewrite app_nil_r; reflexivity).
        apply (RT_cons (st MSeg d) (tk T_PROPERTY r 0) GDot (st MSeg d) b [] [] (st MSeg d)); [reflexivity | exact Hb | discriminate | apply pm_name; exact Hnm | constructor].
  Qed.

  Lemma seg_descD d s : (length s <= NN)%nat -> DN (R r_descendant_segment) s -> SegRunD d s.
  Proof.
    intros Hlen H. apply n_ref in H. cbn [nf_body rule_body GSeqs GAlts] in H. apply n_seq in H as (d1 & r & -> & Hd1 & H). apply n_seq in H as (d2 & r2 & -> & Hd2 & H).
    apply n_C in Hd1. apply n_C in Hd2. subst d1 d2.
    assert (Hl2 : (length r2 <= NN)%nat) by (cbn [app length] in Hlen; lia).
    assert (DD : forall b rest t a', blanks b -> RunT (st MDesc d) t rest a' -> RunT (st MSeg d) (tk T_DOUBLE_DOT [46; 46]%N 0 :: t) (b ++ [46%N] ++ [46%N] ++ rest) a').
    { intros b rest t a' Hb HR. apply (RT_cons (st MSeg d) (tk T_DOUBLE_DOT [46; 46]%N 0) GBl (st MDesc d) b t rest a'); [reflexivity | exact Hb | discriminate | reflexivity | exact HR]. }
    apply n_alt in H as [H | H].
    - destruct (brk_innerD d r2 Hl2 H) as (B & inner & -> & B0 & K). exists B. split; [exact B0|]. intros cfg Hw.
      destruct (K cfg Hw) as (ss & t & HS & HR). exists (Desc ss), (tk T_DOUBLE_DOT [46; 46]%N 0 :: tk T_LBRACKET [91%N] 0 :: t ++ [tk T_RBRACKET [93%N] 0]). split; [apply sg_dbr; exact HS|].
      intros b Hb. apply DD; [exact Hb|]. apply (RT_cons (st MDesc d) (tk T_LBRACKET [91%N] 0) GNone (st MBrk d) [] _ inner (st MSeg d)); [reflexivity | reflexivity | reflexivity | reflexivity | exact HR].
    - apply n_alt in H as [H | H].
      + apply n_C in H. subst r2. exists 0. split; [lia|]. intros cfg _. exists (Desc [SWild]), [tk T_DOUBLE_DOT [46; 46]%N 0; tk T_WILD [42%N] 0]. split; [apply sg_dwild|].
        intros b Hb. apply DD; [exact Hb|]. apply (RT_cons (st MDesc d) (tk T_WILD [42%N] 0) GNone (st MSeg d) [] [] [] (st MSeg d)); [reflexivity | reflexivity | reflexivity | reflexivity | constructor].
      + pose proof (abnf_name r2 (dn_d _ _ H)) as Hnm. exists 0. split; [lia|]. intros cfg _. exists (Desc [SName r2]), [tk T_DOUBLE_DOT [46; 46]%N 0; tk T_PROPERTY r2 0]. split; [apply sg_dprop|].
        intros b Hb. apply DD; [exact Hb|]. replace r2 with ([] ++ pre GNone T_PROPERTY ++ r2 ++ post T_PROPERTY ++ []) at 2 by (cbn [pre post app]; rewrite app_nil_r; reflexivity).
        apply (RT_cons (st MDesc d) (tk T_PROPERTY r2 0) GNone (st MSeg d) [] [] [] (st MSeg d)); [reflexivity | reflexivity | reflexivity | apply pm_name; exact Hnm | constructor].
  Qed.

  Lemma seg_anyD d s : (length s <= NN)%nat -> DN (R r_segment) s -> SegRunD d s.
  Proof. intros Hlen H. apply n_ref in H. cbn [nf_body rule_body] in H. apply n_alt in H as [H | H]; [apply seg_childD | apply seg_descD]; assumption. Qed.

  (* segments = *(S segment), at any filter depth *)
  Lemma segs_runD d z : (length z <= NN)%nat -> DN (R r_segments) z ->
    exists B, 0 <= B /\ forall cfg, wide cfg B -> exists q t, QT cfg q t /\ RunT (st MSeg d) t z (st MSeg d).
  Proof.
    intros Hlen H. apply n_ref in H. cbn [nf_body rule_body] in H. remember (GStar (GSeq S_ (R r_segment))) as g eqn:Eg. induction H; try discriminate Eg.
    - exists 0. split; [lia|]. intros cfg _. exists [], []. split; constructor.
    - inversion Eg; subst a. clear IHderives1. assert (Hl2 : (length s2 <= NN)%nat) by (rewrite app_length in Hlen; lia). destruct (IHderives2 Hl2 eq_refl) as (B2 & B20 & K2).
      apply n_seq in H0 as (S1 & sl & -> & HS & Hseg). apply n_S in HS. assert (Hl1 : (length sl <= NN)%nat) by (rewrite !app_length in Hlen; lia).
      destruct (seg_anyD d sl Hl1 Hseg) as (B1 & B10 & K1).
      exists (Z.max B1 B2). split; [apply max_l0; exact B10|].
      intros cfg Hw. destruct (K1 cfg (wide_le cfg _ B1 (Z.le_max_l _ _) Hw)) as (g & t1 & HS1 & R1). destruct (K2 cfg (wide_le cfg _ B2 (Z.le_max_r _ _) Hw)) as (q & t2 & HQ2 & R2).
      exists (g :: q), (t1 ++ t2). split; [apply qt_cons; assumption|]. apply RunT_join with (a1 := st MSeg d); [apply R1; exact HS | exact R2].
  Qed.
End Rec.

(* ---- singular queries (comparands) ---- *)
Lemma sing_seg d s : D (GAlt (R r_name_segment) (R r_index_segment)) s ->
  exists B, 0 <= B /\ forall cfg, wide cfg B -> exists g t, singular_seg g = true /\ SegT cfg g t /\ forall b, blanks b -> RunT (st MSeg d) t (b ++ s) (st MSeg d).
Proof.
  intros H.
  assert (Br : forall S1 mid S2 sel B, blanks S1 -> blanks S2 -> 0 <= B -> (match sel with SName _ | SIndex _ => True | _ => False end) ->
            (forall cfg, wide cfg B -> exists t, SelT cfg sel [t] /\ forall t' z' a', BKd d t' z' a' -> BKd d (t :: t') (mid ++ z') a') ->
            s = [91%N] ++ S1 ++ mid ++ S2 ++ [93%N] ->
            exists B, 0 <= B /\ forall cfg, wide cfg B -> exists g t, singular_seg g = true /\ SegT cfg g t /\ forall b, blanks b -> RunT (st MSeg d) t (b ++ s) (st MSeg d)).
  { intros S1 mid S2 sel B HS1 HS2 B0 Hsel K ->. exists B. split; [exact B0|]. intros cfg Hw. destruct (K cfg Hw) as (t & HS & C).
    exists (Child [sel]), (tk T_LBRACKET [91%N] 0 :: [t] ++ [tk T_RBRACKET [93%N] 0]). split; [destruct sel; try contradiction; reflexivity|]. split; [apply sg_br; apply ss_one; exact HS|].
    intros b Hb. apply (RT_cons (st MSeg d) (tk T_LBRACKET [91%N] 0) GBl (st MBrk d) b _ (S1 ++ mid ++ S2 ++ [93%N]) (st MSeg d)); [reflexivity | exact Hb | discriminate | reflexivity|].
    assert (KK : BKd d ([t] ++ [tk T_RBRACKET [93%N] 0]) (S1 ++ mid ++ S2 ++ [93%N]) (st MSeg d)) by (apply bkd_blank; [exact HS1|]; apply C; apply bkd_blank; [exact HS2|]; apply bkd_close).
    exact (KK [] eq_refl). }
  apply i_alt in H as [H | H].
  - apply i_ref in H. cbn [rule_body GSeqs] in H. apply i_alt in H as [H | H].
    + apply i_seq in H as (lb & r & -> & Hlb & H). apply i_seq in H as (S1 & r1 & -> & HS1 & H). apply i_seq in H as (sl & r2 & -> & Hstr & H). apply i_seq in H as (S2 & rb & -> & HS2 & Hrb).
      apply i_C in Hlb. apply i_C in Hrb. subst lb rb. apply i_S in HS1. apply i_S in HS2. destruct (bkd_string d sl Hstr) as (k & Hk).
      apply (Br S1 sl S2 (SName k) 0 HS1 HS2 ltac:(lia) I); [|reflexivity]. intros cfg _. destruct (Hk cfg) as (t & HS & C). exists t. split; [exact HS | exact C].
    + apply i_seq in H as (dot & r & -> & Hd & H). apply i_C in Hd. subst dot. pose proof (abnf_name r H) as Hnm. exists 0. split; [lia|]. intros cfg _.
      exists (Child [SName r]), [tk T_PROPERTY r 0]. split; [reflexivity|]. split; [apply sg_prop|].
      intros b Hb. replace (b ++ [46%N] ++ r) with (b ++ pre GDot T_PROPERTY ++ r ++ post T_PROPERTY ++ []) by (cbn [pre post app]; rewrite app_nil_r; reflexivity).
      apply (RT_cons (st MSeg d) (tk T_PROPERTY r 0) GDot (st MSeg d) b [] [] (st MSeg d)); [reflexivity | exact Hb | discriminate | apply pm_name; exact Hnm | constructor].
  - apply i_ref in H. cbn [rule_body GSeqs] in H.
    apply i_seq in H as (lb & r & -> & Hlb & H). apply i_seq in H as (S1 & r1 & -> & HS1 & H). apply i_seq in H as (sl & r2 & -> & Hint & H). apply i_seq in H as (S2 & rb & -> & HS2 & Hrb).
    apply i_C in Hlb. apply i_C in Hrb. subst lb rb. apply i_S in HS1. apply i_S in HS2. destruct (bkd_int d sl Hint) as (i & Hi & C).
    apply (Br S1 sl S2 (SIndex i) (Z.abs i) HS1 HS2 ltac:(lia) I); [|reflexivity]. intros cfg Hw. exists (tk T_INDEX sl 0). split; [|apply C].
    apply st_index; [exact Hi | apply (wide_in cfg (Z.abs i)); [exact Hw | lia]].
Qed.

Lemma sing_segs d z : D (R r_singular_query_segments) z ->
  exists B, 0 <= B /\ forall cfg, wide cfg B -> exists q t, singular q = true /\ QT cfg q t /\ RunT (st MSeg d) t z (st MSeg d).
Proof.
  intros H. apply i_ref in H. cbn [rule_body] in H. remember (GStar (GSeq S_ (GAlt (R r_name_segment) (R r_index_segment)))) as g eqn:Eg. induction H; try discriminate Eg.
  - exists 0. split; [lia|]. intros cfg _. exists [], []. split; [reflexivity|]. split; constructor.
  - inversion Eg; subst a. clear IHderives1. destruct (IHderives2 eq_refl) as (B2 & B20 & K2).
    apply i_seq in H0 as (S1 & sl & -> & HS & Hseg). apply i_S in HS. destruct (sing_seg d sl Hseg) as (B1 & B10 & K1).
    exists (Z.max B1 B2). split; [apply max_l0; exact B10|].
    intros cfg Hw. destruct (K1 cfg (wide_le cfg _ B1 (Z.le_max_l _ _) Hw)) as (g & t1 & Hsg & HS1 & R1). destruct (K2 cfg (wide_le cfg _ B2 (Z.le_max_r _ _) Hw)) as (q & t2 & Hsq & HQ2 & R2).
    exists (g :: q), (t1 ++ t2). split; [unfold singular in *; cbn [forallb]; rewrite Hsg, Hsq; reflexivity|]. split; [apply qt_cons; assumption|].
    apply RunT_join with (a1 := st MSeg d); [apply R1; exact HS | exact R2].
Qed.

(* "@" or "$" followed by segments that were run in the segment mode of this depth: one comparand / one test *)
Lemma fk_query d (rel : bool) z t : RunT (st MSeg (S d)) t z (st MSeg (S d)) ->
  ECPS d (tk (if rel then T_CURRENT else T_ROOT) [if rel then 64%N else 36%N] 0 :: t) ([if rel then 64%N else 36%N] ++ z).
Proof.
  intros HR t' z' a' K b Hb m Hm.
  replace (b ++ ([if rel then 64%N else 36%N] ++ z) ++ z') with (b ++ pre GBl (if rel then T_CURRENT else T_ROOT) ++ [if rel then 64%N else 36%N] ++ post (if rel then T_CURRENT else T_ROOT) ++ (z ++ z'))
    by (destruct rel; cbn [pre post app]; rewrite <- ?app_assoc; reflexivity).
  apply (RT_cons (st m (S d)) (tk (if rel then T_CURRENT else T_ROOT) [if rel then 64%N else 36%N] 0) GBl (st MSeg (S d)) b _ (z ++ z') a').
  - apply st_query; [exact Hm | destruct rel; [right | left]; reflexivity].
  - exact Hb.
  - discriminate.
  - destruct rel; reflexivity.
  - apply RunT_join with (a1 := st MSeg (S d)); [exact HR|]. apply (K [] eq_refl MSeg). right. reflexivity.
Qed.

Lemma fk_singular d s : D (R r_singular_query) s -> exists B, 0 <= B /\ forall cfg, wide cfg B -> exists e t, CT cfg e t /\ ECPS d t s.
Proof.
  intros H. apply i_ref in H. cbn [rule_body] in H. apply i_seq in H as (hd & z & -> & Hhd & Hz). destruct (sing_segs (S d) z Hz) as (B & B0 & K).
  exists B. split; [exact B0|]. intros cfg Hw. destruct (K cfg Hw) as (q & t & Hs & HQ & HR).
  apply i_alt in Hhd as [Hh | Hh]; apply i_C in Hh; subst hd.
  - exists (ERel q), (tk T_CURRENT [64%N] 0 :: t). split; [apply ct_test; apply tt_rel; [exact HQ | intros _; exact Hs] | apply (fk_query d true z t HR)].
  - exists (EAbs q), (tk T_ROOT [36%N] 0 :: t). split; [apply ct_test; apply tt_abs; [exact HQ | intros _; exact Hs] | apply (fk_query d false z t HR)].
Qed.

(* comparable = literal / singular-query   (function calls left out) *)
Lemma fk_comparable d s : DN (R r_comparable) s -> exists B, 0 <= B /\ forall cfg, wide cfg B -> exists e t, CT cfg e t /\ ECPS d t s.
Proof.
  intros H. apply n_ref in H. cbn [nf_body] in H. apply n_alt in H as [H | H]; apply dn_d in H.
  - destruct (fk_literal d s H) as (v & K). exists 0. split; [lia|]. intros cfg _. destruct (K cfg) as (t & HC & C). exists (ELit v), [t]. split; assumption.
  - apply fk_singular. exact H.
Qed.

Lemma i_cmp_op s : D (R r_comparison_op) s -> exists o, s = op_str o.
Proof.
  intros H. apply i_ref in H. cbn [rule_body GAlts] in H.
  apply i_alt in H as [H | H]; [apply i_lit in H; exists OEq; exact H|]. apply i_alt in H as [H | H]; [apply i_lit in H; exists ONe; exact H|].
  apply i_alt in H as [H | H]; [apply i_lit in H; exists OLe; exact H|]. apply i_alt in H as [H | H]; [apply i_lit in H; exists OGe; exact H|].
  apply i_alt in H as [H | H]; apply i_C in H; [exists OLt | exists OGt]; exact H.
Qed.

(* comparison-expr = comparable S comparison-op S comparable *)
Lemma fk_comparison d s : DN (R r_comparison_expr) s -> exists B, 0 <= B /\ forall cfg, wide cfg B -> exists e t, ET cfg 5 e t /\ ECPS d t s.
Proof.
  intros H. apply n_ref in H. cbn [nf_body rule_body GSeqs] in H.
  apply n_seq in H as (s1 & r & -> & H1 & H). apply n_seq in H as (S1 & r1 & -> & HS1 & H). apply n_seq in H as (so & r2 & -> & Ho & H). apply n_seq in H as (S2 & s2 & -> & HS2 & H2).
  apply n_S in HS1. apply n_S in HS2. apply dn_d in Ho. apply i_cmp_op in Ho as (o & ->).
  destruct (fk_comparable d s1 H1) as (B1 & B10 & K1). destruct (fk_comparable d s2 H2) as (B2 & B20 & K2).
  exists (Z.max B1 B2). split; [apply max_l0; exact B10|]. intros cfg Hw.
  destruct (K1 cfg (wide_le cfg _ B1 (Z.le_max_l _ _) Hw)) as (e1 & t1 & HC1 & C1). destruct (K2 cfg (wide_le cfg _ B2 (Z.le_max_r _ _) Hw)) as (e2 & t2 & HC2 & C2).
  exists (ECmp o e1 e2), (t1 ++ tk (cmp_tok o) (op_str o) 0 :: t2). split; [apply et_cmp; assumption|].
  intros t' z' a' K. rewrite <- !app_assoc. cbn [app]. apply C1. apply fkd_blank; [exact HS1|].
  assert (HT : fil_ty (cmp_tok o) /\ tshape (cmp_tok o) (op_str o) /\ pre GBl (cmp_tok o) = [] /\ post (cmp_tok o) = []) by (destruct o; unfold fil_ty; cbn; tauto).
  destruct HT as (HT1 & HT2 & HT3 & HT4). pose proof (fkd_tok d (cmp_tok o) (op_str o) 0 (t2 ++ t') (S2 ++ s2 ++ z') a' HT1 HT2) as KT. rewrite HT3, HT4 in KT. cbn [app] in KT.
  apply KT. apply fkd_blank; [exact HS2|]. apply C2. exact K.
Qed.

Section RecE.
  Variable NN : nat.
  Hypothesis IHsel : forall d s, (length s < NN)%nat -> DN (R r_selector) s -> SelCPS d s.

  (* filter-query = rel-query / jsonpath-query, as a test *)
  Lemma fk_filter_query d s : (length s <= NN)%nat -> DN (R r_filter_query) s ->
    exists B, 0 <= B /\ forall cfg, wide cfg B -> exists e t, TT cfg TLogical e t /\ ECPS d t s.
  Proof.
    intros Hlen H. apply n_ref in H. cbn [nf_body rule_body] in H.
    assert (Q : forall (rel : bool) z, (length z <= NN)%nat -> DN (R r_segments) z -> s = [if rel then 64%N else 36%N] ++ z ->
              exists B, 0 <= B /\ forall cfg, wide cfg B -> exists e t, TT cfg TLogical e t /\ ECPS d t s).
    { intros rel z Hlz Hz ->. destruct (segs_runD NN IHsel (S d) z Hlz Hz) as (B & B0 & K). exists B. split; [exact B0|]. intros cfg Hw. destruct (K cfg Hw) as (q & t & HQ & HR).
      destruct rel.
      - exists (ERel q), (tk T_CURRENT [64%N] 0 :: t). split; [apply tt_rel; [exact HQ | discriminate] | apply (fk_query d true z t HR)].
      - exists (EAbs q), (tk T_ROOT [36%N] 0 :: t). split; [apply tt_abs; [exact HQ | discriminate] | apply (fk_query d false z t HR)]. }
    apply n_alt in H as [H | H]; apply n_ref in H; cbn [nf_body rule_body] in H; apply n_seq in H as (hd & z & -> & Hhd & Hz); apply n_C in Hhd; subst hd.
    - apply (Q true z); [cbn [app length] in Hlen; lia | exact Hz | reflexivity].
    - apply (Q false z); [cbn [app length] in Hlen; lia | exact Hz | reflexivity].
  Qed.

  Lemma fk_not d t' z' a' : FKd d t' z' a' -> FKd d (tk T_NOT [33%N] 0 :: t') ([33%N] ++ z') a'.
  Proof. intros K. apply (fkd_tok d T_NOT [33%N] 0 t' z' a' ltac:(unfold fil_ty; tauto) eq_refl K). Qed.

  (* test-expr = [logical-not-op S] filter-query *)
  Lemma fk_test d s : (length s <= NN)%nat -> DN (R r_test_expr) s -> exists B, 0 <= B /\ forall cfg, wide cfg B -> exists e t, ET cfg 7 e t /\ ECPS d t s.
  Proof.
    intros Hlen H. apply n_ref in H. cbn [nf_body] in H. apply n_seq in H as (neg & fq & -> & Hneg & Hfq).
    assert (Hl : (length fq <= NN)%nat) by (rewrite app_length in Hlen; lia). destruct (fk_filter_query d fq Hl Hfq) as (B & B0 & K).
    exists B. split; [exact B0|]. intros cfg Hw. destruct (K cfg Hw) as (e & t & HT & C).
    apply n_opt in Hneg as [Hneg | ->].
    - apply n_seq in Hneg as (bang & S1 & -> & Hb & HS). apply n_C in Hb. subst bang. apply n_S in HS.
      exists (ENot e), (tk T_NOT [33%N] 0 :: t). split; [apply et_not_test; exact HT|]. intros t' z' a' K'. rewrite <- !app_assoc. cbn [app]. apply (fk_not d (t ++ t') (S1 ++ fq ++ z') a').
      apply fkd_blank; [exact HS|]. apply C. exact K'.
    - exists e, t. split; [apply et_test; exact HT | exact C].
  Qed.

  Definition EOK (d : nat) (L : Z) (s : list N) : Prop := exists B, 0 <= B /\ forall cfg, wide cfg B -> exists e t, ET cfg L e t /\ ECPS d t s.

  Lemma fk_lparen d t' z' a' : FKd d t' z' a' -> FKd d (tk T_LPAREN [40%N] 0 :: t') ([40%N] ++ z') a'.
  Proof. intros K. apply (fkd_tok d T_LPAREN [40%N] 0 t' z' a' ltac:(unfold fil_ty; tauto) eq_refl K). Qed.
  Lemma fk_rparen d t' z' a' : FKd d t' z' a' -> FKd d (tk T_RPAREN [41%N] 0 :: t') ([41%N] ++ z') a'.
  Proof. intros K. apply (fkd_tok d T_RPAREN [41%N] 0 t' z' a' ltac:(unfold fil_ty; tauto) eq_refl K). Qed.

  (* logical-or-expr and what it is made of; parentheses nest, so the statement for shorter texts is a hypothesis *)
  Section Level.
    Variable M : nat.
    Hypothesis IHor : forall d s, (length s < M)%nat -> (length s <= NN)%nat -> DN (R r_logical_or_expr) s -> EOK d 3 s.

    (* paren-expr = [logical-not-op S] "(" S logical-expr S ")" *)
    Lemma fk_paren d s : (length s <= M)%nat -> (length s <= NN)%nat -> DN (R r_paren_expr) s -> EOK d 7 s.
    Proof.
      intros Hlen HlN H. apply n_ref in H. cbn [nf_body rule_body GSeqs] in H.
      apply n_seq in H as (neg & r & -> & Hneg & H). apply n_seq in H as (lp & r1 & -> & Hlp & H). apply n_seq in H as (S1 & r2 & -> & HS1 & H).
      apply n_seq in H as (ex & r3 & -> & Hex & H). apply n_seq in H as (S2 & rp & -> & HS2 & Hrp).
      apply n_C in Hlp. apply n_C in Hrp. subst lp rp. apply n_S in HS1. apply n_S in HS2.
      assert (Hl : (length ex < M)%nat) by (rewrite !app_length in Hlen; cbn [length] in Hlen; lia).
      assert (Hl' : (length ex <= NN)%nat) by (rewrite !app_length in HlN; cbn [length] in HlN; lia).
      destruct (IHor d ex Hl Hl' Hex) as (B & B0 & K). exists B. split; [exact B0|]. intros cfg Hw. destruct (K cfg Hw) as (e & t & HE & C).
      assert (Inner : ECPS d (tk T_LPAREN [40%N] 0 :: t ++ [tk T_RPAREN [41%N] 0]) ([40%N] ++ S1 ++ ex ++ S2 ++ [41%N])).
      { intros t' z' a' K'. rewrite <- !app_assoc. cbn [app]. apply (fk_lparen d _ (S1 ++ ex ++ S2 ++ 41%N :: z') a'). apply fkd_blank; [exact HS1|]. rewrite <- app_assoc. apply C. apply fkd_blank; [exact HS2|].
        apply (fk_rparen d t' z' a' K'). }
      apply n_opt in Hneg as [Hneg | ->].
      - apply n_seq in Hneg as (bang & S0 & -> & Hb & HS0). apply n_C in Hb. subst bang. apply n_S in HS0.
        exists (ENot e), (tk T_NOT [33%N] 0 :: tk T_LPAREN [40%N] 0 :: t ++ [tk T_RPAREN [41%N] 0]). split; [apply et_not_paren; exact HE|].
        intros t' z' a' K'. rewrite <- !app_assoc. cbn [app]. apply (fk_not d _ (S0 ++ 40%N :: S1 ++ ex ++ S2 ++ 41%N :: z') a'). apply fkd_blank; [exact HS0|].
        pose proof (Inner t' z' a' K') as KI. rewrite <- ?app_assoc in KI. cbn [app] in KI. rewrite <- ?app_assoc in KI. rewrite <- ?app_assoc. cbn [app]. rewrite <- ?app_assoc. exact KI.
      - exists e, (tk T_LPAREN [40%N] 0 :: t ++ [tk T_RPAREN [41%N] 0]). split; [apply et_paren; exact HE|]. cbn [app]. exact Inner.
    Qed.

    (* basic-expr = paren-expr / comparison-expr / test-expr *)
    Lemma fk_basic d s : (length s <= M)%nat -> (length s <= NN)%nat -> DN (R r_basic_expr) s -> EOK d 5 s.
    Proof.
      intros Hlen HlN H. apply n_ref in H. cbn [nf_body rule_body GAlts] in H.
      assert (Up : EOK d 7 s -> EOK d 5 s).
      { intros (B & B0 & K). exists B. split; [exact B0|]. intros cfg Hw. destruct (K cfg Hw) as (e & t & HE & C). exists e, t. split; [apply et_57; exact HE | exact C]. }
      apply n_alt in H as [H | H]; [apply Up; apply fk_paren; assumption|]. apply n_alt in H as [H | H]; [apply fk_comparison; exact H | apply Up; apply fk_test; assumption].
    Qed.

    Lemma and_more d s : (length s <= M)%nat -> (length s <= NN)%nat -> DN (GStar (GSeqs [S_; C 38; C 38; S_; R r_basic_expr])) s ->
      exists B, 0 <= B /\ forall cfg, wide cfg B -> exists tr, (forall x tx, ET cfg 5 x tx -> exists e, ET cfg 4 e (tx ++ tr)) /\ ECPS d tr s.
    Proof.
      intros Hlen HlN H. remember (GStar (GSeqs [S_; C 38; C 38; S_; R r_basic_expr])) as g eqn:Eg. induction H; try discriminate Eg.
      - exists 0. split; [lia|]. intros cfg _. exists []. split; [intros x tx Hx; exists x; rewrite app_nil_r; apply et_45; exact Hx | intros t' z' a' K; exact K].
      - inversion Eg; subst a. clear IHderives1. rewrite app_length in Hlen, HlN. destruct (IHderives2 ltac:(lia) ltac:(lia) eq_refl) as (B2 & B20 & K2).
        cbn [GSeqs] in H0. apply n_seq in H0 as (S1 & r & -> & HS1 & H0). apply n_seq in H0 as (c1 & r1 & -> & Hc1 & H0). apply n_seq in H0 as (c2 & r2 & -> & Hc2 & H0). apply n_seq in H0 as (S2 & bs & -> & HS2 & Hb).
        apply n_C in Hc1. apply n_C in Hc2. subst c1 c2. apply n_S in HS1. apply n_S in HS2. rewrite !app_length in Hlen, HlN. cbn [length] in Hlen, HlN.
        destruct (fk_basic d bs ltac:(lia) ltac:(lia) Hb) as (B1 & B10 & K1).
        exists (Z.max B1 B2). split; [apply max_l0; exact B10|]. intros cfg Hw.
        destruct (K1 cfg (wide_le cfg _ B1 (Z.le_max_l _ _) Hw)) as (e1 & t1 & HE1 & C1). destruct (K2 cfg (wide_le cfg _ B2 (Z.le_max_r _ _) Hw)) as (tr & HT & C2).
        exists (tk T_AND [38; 38]%N 0 :: t1 ++ tr). split.
        + intros x tx Hx. destruct (HT e1 t1 HE1) as (e' & HE'). exists (EAnd x e'). apply et_and; assumption.
        + intros t' z' a' K. rewrite <- !app_assoc. cbn [app]. rewrite <- !app_assoc. apply fkd_blank; [exact HS1|].
          apply (fkd_tok d T_AND [38; 38]%N 0 _ (S2 ++ bs ++ s2 ++ z') a' ltac:(unfold fil_ty; tauto) eq_refl). apply fkd_blank; [exact HS2|]. apply C1. apply C2. exact K.
    Qed.

    (* logical-and-expr = basic-expr *(S "&&" S basic-expr) *)
    Lemma fk_and d s : (length s <= M)%nat -> (length s <= NN)%nat -> DN (R r_logical_and_expr) s -> EOK d 4 s.
    Proof.
      intros Hlen HlN H. apply n_ref in H. cbn [nf_body rule_body] in H. apply n_seq in H as (bs & more & -> & Hb & Hm). rewrite app_length in Hlen, HlN.
      destruct (fk_basic d bs ltac:(lia) ltac:(lia) Hb) as (B1 & B10 & K1). destruct (and_more d more ltac:(lia) ltac:(lia) Hm) as (B2 & B20 & K2).
      exists (Z.max B1 B2). split; [apply max_l0; exact B10|]. intros cfg Hw.
      destruct (K1 cfg (wide_le cfg _ B1 (Z.le_max_l _ _) Hw)) as (e1 & t1 & HE1 & C1). destruct (K2 cfg (wide_le cfg _ B2 (Z.le_max_r _ _) Hw)) as (tr & HT & C2).
      destruct (HT e1 t1 HE1) as (e & HE). exists e, (t1 ++ tr). split; [exact HE|]. intros t' z' a' K. rewrite <- !app_assoc. apply C1. apply C2. exact K.
    Qed.

    Lemma or_more d s : (length s <= M)%nat -> (length s <= NN)%nat -> DN (GStar (GSeqs [S_; C 124; C 124; S_; R r_logical_and_expr])) s ->
      exists B, 0 <= B /\ forall cfg, wide cfg B -> exists tr, (forall x tx, ET cfg 4 x tx -> exists e, ET cfg 3 e (tx ++ tr)) /\ ECPS d tr s.
    Proof.
      intros Hlen HlN H. remember (GStar (GSeqs [S_; C 124; C 124; S_; R r_logical_and_expr])) as g eqn:Eg. induction H; try discriminate Eg.
      - exists 0. split; [lia|]. intros cfg _. exists []. split; [intros x tx Hx; exists x; rewrite app_nil_r; apply et_34; exact Hx | intros t' z' a' K; exact K].
      - inversion Eg; subst a. clear IHderives1. rewrite app_length in Hlen, HlN. destruct (IHderives2 ltac:(lia) ltac:(lia) eq_refl) as (B2 & B20 & K2).
        cbn [GSeqs] in H0. apply n_seq in H0 as (S1 & r & -> & HS1 & H0). apply n_seq in H0 as (c1 & r1 & -> & Hc1 & H0). apply n_seq in H0 as (c2 & r2 & -> & Hc2 & H0). apply n_seq in H0 as (S2 & bs & -> & HS2 & Hb).
        apply n_C in Hc1. apply n_C in Hc2. subst c1 c2. apply n_S in HS1. apply n_S in HS2. rewrite !app_length in Hlen, HlN. cbn [length] in Hlen, HlN.
        destruct (fk_and d bs ltac:(lia) ltac:(lia) Hb) as (B1 & B10 & K1).
        exists (Z.max B1 B2). split; [apply max_l0; exact B10|]. intros cfg Hw.
        destruct (K1 cfg (wide_le cfg _ B1 (Z.le_max_l _ _) Hw)) as (e1 & t1 & HE1 & C1). destruct (K2 cfg (wide_le cfg _ B2 (Z.le_max_r _ _) Hw)) as (tr & HT & C2).
        exists (tk T_OR [124; 124]%N 0 :: t1 ++ tr). split.
        + intros x tx Hx. destruct (HT e1 t1 HE1) as (e' & HE'). exists (EOr x e'). apply et_or; assumption.
        + intros t' z' a' K. rewrite <- !app_assoc. cbn [app]. rewrite <- !app_assoc. apply fkd_blank; [exact HS1|].
          apply (fkd_tok d T_OR [124; 124]%N 0 _ (S2 ++ bs ++ s2 ++ z') a' ltac:(unfold fil_ty; tauto) eq_refl). apply fkd_blank; [exact HS2|]. apply C1. apply C2. exact K.
    Qed.

    (* logical-or-expr = logical-and-expr *(S "||" S logical-and-expr) *)
    Lemma fk_or d s : (length s <= M)%nat -> (length s <= NN)%nat -> DN (R r_logical_or_expr) s -> EOK d 3 s.
    Proof.
      intros Hlen HlN H. apply n_ref in H. cbn [nf_body rule_body] in H. apply n_seq in H as (bs & more & -> & Hb & Hm). rewrite app_length in Hlen, HlN.
      destruct (fk_and d bs ltac:(lia) ltac:(lia) Hb) as (B1 & B10 & K1). destruct (or_more d more ltac:(lia) ltac:(lia) Hm) as (B2 & B20 & K2).
      exists (Z.max B1 B2). split; [apply max_l0; exact B10|]. intros cfg Hw.
      destruct (K1 cfg (wide_le cfg _ B1 (Z.le_max_l _ _) Hw)) as (e1 & t1 & HE1 & C1). destruct (K2 cfg (wide_le cfg _ B2 (Z.le_max_r _ _) Hw)) as (tr & HT & C2).
      destruct (HT e1 t1 HE1) as (e & HE). exists e, (t1 ++ tr). split; [exact HE|]. intros t' z' a' K. rewrite <- !app_assoc. apply C1. apply C2. exact K.
    Qed.
  End Level.

  Lemma fk_or_all : forall M d s, (length s <= M)%nat -> (length s <= NN)%nat -> DN (R r_logical_or_expr) s -> EOK d 3 s.
  Proof.
    induction M as [|M IH]; intros d s Hlen HlN H.
    - apply (fk_or 0); [intros d' s' Hl'; lia | exact Hlen | exact HlN | exact H].
    - apply (fk_or (S M)); [intros d' s' Hl' HlN' H'; apply IH; [lia | exact HlN' | exact H'] | exact Hlen | exact HlN | exact H].
  Qed.
End RecE.

(* ---- selectors, filter selectors included ---- *)
Lemma sel_step NN : (forall d s, (length s < NN)%nat -> DN (R r_selector) s -> SelCPS d s) ->
  forall d s, (length s <= NN)%nat -> DN (R r_selector) s -> SelCPS d s.
Proof.
  intros IHsel d s Hlen H. apply n_ref in H. cbn [nf_body rule_body GAlts] in H.
  apply n_alt in H as [H | H].
  { destruct (bkd_string d s (dn_d _ _ H)) as (k & Hk). exists 0. split; [lia|]. intros cfg _. destruct (Hk cfg) as (t & HS & K). exists (SName k), [t]. split; [discriminate|]. split; [exact HS|].
    intros t' z' a' _. apply K. }
  apply n_alt in H as [H | H].
  { apply n_C in H. subst s. exists 0. split; [lia|]. intros cfg _. exists SWild, [tk T_WILD [42%N] 0]. split; [discriminate|]. split; [apply st_wild|].
    intros t' z' a' _ K. apply (bkd_tok d T_WILD [42%N] 0 t' z' a' ltac:(unfold brk_ty; tauto) eq_refl K). }
  apply n_alt in H as [H | H].
  { destruct (bkd_slice d s (dn_d _ _ H)) as (a & b & c & B & B0 & K). exists B. split; [exact B0|]. intros cfg Hw. destruct (K cfg Hw) as (t & Hne & HS & C).
    exists (SSlice a b c), t. split; [exact Hne|]. split; [exact HS|]. intros t' z' a' _. apply C. }
  apply n_alt in H as [H | H].
  { destruct (bkd_int d s (dn_d _ _ H)) as (i & Hi & K). exists (Z.abs i). split; [lia|]. intros cfg Hw. exists (SIndex i), [tk T_INDEX s 0]. split; [discriminate|].
    split; [apply st_index; [exact Hi | apply (wide_in cfg (Z.abs i)); [exact Hw | lia]] | intros t' z' a' _; apply K]. }
  (* filter-selector = "?" S logical-expr *)
  apply n_ref in H. cbn [nf_body rule_body GSeqs] in H. apply n_seq in H as (qm & r & -> & Hq & H). apply n_seq in H as (S1 & ex & -> & HS1 & Hex). apply n_C in Hq. subst qm. apply n_S in HS1.
  assert (Hl : (length ex <= NN)%nat) by (rewrite !app_length in Hlen; cbn [length] in Hlen; lia).
  destruct (fk_or_all NN IHsel (length ex) d ex (le_n _) Hl Hex) as (B & B0 & K). exists B. split; [exact B0|]. intros cfg Hw. destruct (K cfg Hw) as (e & te & HE & C).
  exists (SFilter e), (tk T_FILTER [63%N] 0 :: te). split; [discriminate|]. split; [apply st_filter; exact HE|].
  intros t' z' a' Hh K' b Hb. rewrite <- !app_assoc. cbn [app].
  apply (RT_cons (st MBrk d) (tk T_FILTER [63%N] 0) GBl (st MFil (S d)) b (te ++ t') (S1 ++ ex ++ z') a'); [apply st_enter | exact Hb | discriminate | reflexivity|].
  apply (C t' z' a' (bk_to_fk d t' z' a' Hh K') S1 HS1 MFil). left. reflexivity.
Qed.

Theorem sel_all : forall n d s, (length s < n)%nat -> DN (R r_selector) s -> SelCPS d s.
Proof.
  induction n as [|n IH]; intros d s Hl H; [lia|]. apply (sel_step n IH d s); [lia | exact H].
Qed.

(* ---- the theorem: every string of the grammar that makes no function call compiles, whatever optional lexical form it uses ---- *)
Theorem abnf_no_call_compiles s : DN (R r_jsonpath_query) s ->
  exists B, forall cfg, wide cfg B -> exists q, m_compile cfg s = Ok q.
Proof.
  intros H. pose proof (d_scalar _ _ (dn_d _ _ H) eq_refl) as Hsc. apply n_ref in H. cbn [nf_body rule_body] in H. apply n_seq in H as (dl & z & -> & Hd & Hz). apply n_C in Hd. subst dl.
  destruct (segs_runD (length z) (fun d s Hl Hs => sel_all (length z) d s Hl Hs) 0 z (le_n _) Hz) as (B & _ & K). exists B. intros cfg Hw. destruct (K cfg Hw) as (q & t & HQ & HR).
  exists q. cbn [app]. apply (spelled_compiles cfg q t z a0 HQ); [|exact HR]. unfold sc in *. cbn [app forallb] in Hsc. apply andb_true_iff in Hsc as [_ Hsc]. exact Hsc.
Qed.
Print Assumptions abnf_no_call_compiles.
