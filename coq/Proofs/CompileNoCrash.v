(* C13 (compile, exception classes): for every text of Unicode scalar values, the model's compile() never ends in an
   exception other than a JSONPathError - neither the lexer (IndexError on the filter stack) nor the string decoder
   (IndexError on a truncated escape) nor the parser's dispatch tables (KeyError) let one escape. *)
From JP Require Import Base.Json Spec.StringLit Model.Tokens Model.Lex Model.Parse Model.Api.
From JP Require Import Proofs.StringProofs Proofs.LexInv Proofs.LexNoCrash Proofs.ParseInv Proofs.ParseNoCrash.

Lemma scalar_slice text a v b : text = a ++ v ++ b -> forallb is_scalar text = true -> forallb is_scalar v = true.
Proof. intros -> H. rewrite !forallb_app in H. apply andb_true_iff in H as [_ H]. apply andb_true_iff in H as [H _]. exact H. Qed.

Lemma tokens_decode text toks : forallb is_scalar text = true -> m_tokenize text = Ok toks -> Forall TokOk toks.
Proof.
  intros Hs E. pose proof (tokenize_no_crash text) as A. pose proof (tokenize_offsets text) as B. rewrite E in A, B.
  rewrite Forall_forall in *. intros t Hin [Hty | Hty]; destruct (A t Hin) as [A1 A2]; destruct (B t Hin) as (a & b & Ea & _);
    pose proof (scalar_slice _ _ _ _ Ea Hs) as Hv; destruct t as [tt v i]; cbn [ty tval] in *; subst tt.
  - rewrite (decode_sq v i (A1 eq_refl) Hv). destruct (spec_decode 39 v); exact I.
  - rewrite (decode_dq v i (A2 eq_refl) Hv). destruct (spec_decode 34 v); exact I.
Qed.

Theorem compile_no_crash cfg text : forallb is_scalar text = true -> forall x, m_compile cfg text <> Crash x.
Proof.
  intros Hs x. unfold m_compile. pose proof (tokenize_no_crash text) as A. pose proof (tokenize_ends_with_eof text) as Ee.
  destruct (m_tokenize text) as [toks| | |] eqn:Et; cbn [bind]; try discriminate; [|intros E; inversion E; subst; exact A].
  destruct (Ee toks eq_refl) as [Hne Hl]. pose proof (tokens_decode text toks Hs Et) as Hk.
  destruct (p_parse cfg toks) as [q s|c off|y s|] eqn:Ep; try discriminate.
  exfalso. exact (parse_no_crash cfg toks Hk Hne Hl y s Ep).
Qed.

(* compile() terminates: neither the lexer's state machine (Proofs/LexTerm.v) nor the parser's recursion
   (Proofs/ParseTerm.v) exhausts the fuel the model gives it, whatever the text *)
From JP Require Import Proofs.LexTerm Proofs.ParseTerm.
Theorem compile_terminates cfg text : m_compile cfg text <> OutOfFuel.
Proof.
  unfold m_compile. pose proof (tokenize_terminates text) as A.
  destruct (m_tokenize text) as [toks| | |]; cbn [bind]; try discriminate; [|congruence].
  pose proof (parse_terminates cfg toks) as B. destruct (p_parse cfg toks); try discriminate. congruence.
Qed.

(* so compile() returns a query or raises a JSONPathError *)
Theorem compile_total cfg text : forallb is_scalar text = true ->
  (exists q, m_compile cfg text = Ok q) \/ (exists c off, m_compile cfg text = Err c off).
Proof.
  intros Hs. pose proof (compile_no_crash cfg text Hs) as A. pose proof (compile_terminates cfg text) as B.
  destruct (m_compile cfg text) as [q|c off|x|]; [left; eauto | right; eauto | exfalso; exact (A x eq_refl) | congruence].
Qed.
