(* C03 / C05 / C12, parser side: completeness of the parser on token streams.
   Every token sequence the RFC 9535 grammar derives for a query (token-level transcription of the ABNF: shorthand or
   bracketed segments, either quote style, optional parentheses around logical expressions, ...) that is well-typed
   for the registry and within the integer range is accepted by Parser.parse, which returns the query the tokens
   derive.  Pieces: fuel monotonicity (Proofs/ParseMono.v), the invariant of the push-back stream (Proofs/ParseTerm.v),
   the prefix property of the Pratt loop (loop_split: parsing at a higher precedence and continuing the loop at a lower
   one is parsing at the lower one), one lemma per production. *)
From JP Require Import Base.Prelude Model.Tokens Model.Ast Model.Parse.
From JP Require Import Spec.Types Proofs.ParseInv Proofs.ParseMono Proofs.ParseTerm Proofs.Requery Proofs.Reparse.

(* --- "for every large enough fuel the answer is a s" ---------------------------------------------------------------- *)
Definition stab {A} (F : nat -> pres A) (a : A) (s : stream) : Prop := exists f0, forall f, (f0 <= f)%nat -> F f = POk a s.

Lemma mono_le {A} (F : nat -> pres A) : (forall f, mono (F f) (F (S f))) ->
  forall f f', (f <= f')%nat -> F f <> PFuel -> F f' = F f.
Proof.
  intros HM f f' Hle Hne. induction Hle as [|f' Hle IH]; [reflexivity|].
  destruct (HM f') as [E | E]; [rewrite IH in E; contradiction | rewrite E; exact IH].
Qed.
Lemma stab_of {A} (F : nat -> pres A) a s f : (forall f, mono (F f) (F (S f))) -> F f = POk a s -> stab F a s.
Proof. intros HM E. exists f. intros f' Hle. rewrite (mono_le F HM f f' Hle) by (rewrite E; discriminate). exact E. Qed.

Section PC.
Variable cfg : envcfg.
Notation rg := (reg cfg).

Definition M_query := proj1 (M_all cfg 0).
Lemma mono_query inf s f : mono (p_query cfg f inf s) (p_query cfg (S f) inf s). Proof. apply (M_all cfg f). Qed.
Lemma mono_selectors s f : mono (p_selectors cfg f s) (p_selectors cfg (S f) s). Proof. apply (M_all cfg f). Qed.
Lemma mono_bracket s f : mono (p_bracket_loop cfg f s) (p_bracket_loop cfg (S f) s). Proof. apply (M_all cfg f). Qed.
Lemma mono_filter_selector s f : mono (p_filter_selector cfg f s) (p_filter_selector cfg (S f) s). Proof. apply (M_all cfg f). Qed.
Lemma mono_fexpr p s f : mono (p_fexpr cfg f p s) (p_fexpr cfg (S f) p s). Proof. apply (M_all cfg f). Qed.
Lemma mono_floop p l s f : mono (p_fexpr_loop cfg f p l s) (p_fexpr_loop cfg (S f) p l s). Proof. apply (M_all cfg f). Qed.
Lemma mono_primary s f : mono (p_primary cfg f s) (p_primary cfg (S f) s). Proof. apply (M_all cfg f). Qed.
Lemma mono_infix l s f : mono (p_infix cfg f l s) (p_infix cfg (S f) l s). Proof. apply (M_all cfg f). Qed.
Lemma mono_grouped s f : mono (p_grouped cfg f s) (p_grouped cfg (S f) s). Proof. apply (M_all cfg f). Qed.
Lemma mono_function s f : mono (p_function cfg f s) (p_function cfg (S f) s). Proof. apply (M_all cfg f). Qed.
Lemma mono_args s f : mono (p_args_loop cfg f s) (p_args_loop cfg (S f) s). Proof. apply (M_all cfg f). Qed.
Lemma mono_ainfix e s f : mono (p_arg_infix_loop cfg f e s) (p_arg_infix_loop cfg (S f) e s). Proof. apply (M_all cfg f). Qed.

(* the stream invariant of Proofs/ParseTerm.v survives every parse function (from T_all, at a fuel large enough) *)
Lemma J_primary f s a s' : J s -> p_primary cfg f s = POk a s' -> J s'.
Proof.
  intros HJ E. set (f' := Nat.max f (5 * W s + 2)).
  assert (E' : p_primary cfg f' s = POk a s').
  { rewrite (mono_le (fun f => p_primary cfg f s) (mono_primary s) f f') by (try rewrite E; try discriminate; unfold f'; lia). exact E. }
  destruct (T_all cfg f') as (_ & _ & _ & _ & _ & _ & H & _). specialize (H s HJ ltac:(unfold f'; lia)). rewrite E' in H. exact (proj1 H).
Qed.
Lemma J_infix f l s a s' : J s -> p_infix cfg f l s = POk a s' -> J s'.
Proof.
  intros HJ E. set (f' := Nat.max f (5 * W s + 4)).
  assert (E' : p_infix cfg f' l s = POk a s').
  { rewrite (mono_le (fun f => p_infix cfg f l s) (mono_infix l s) f f') by (try rewrite E; try discriminate; unfold f'; lia). exact E. }
  destruct (T_all cfg f') as (_ & _ & _ & _ & _ & _ & _ & H & _). specialize (H l s HJ ltac:(unfold f'; lia)). rewrite E' in H. exact (proj1 H).
Qed.

(* peek is idempotent on streams that satisfy the invariant *)
Lemma after_peek_idem s : J s -> after_peek (after_peek s) = after_peek s.
Proof.
  intros HJ. pose proof (J0_adv s HJ) as [_ E0]. rewrite (after_peek_eq s). unfold s_push. rewrite E0. cbn [app].
  unfold after_peek, s_peek, s_next. cbn [pushed cur rest snd fst s_push app]. reflexivity.
Qed.

(* --- the prefix property of the Pratt loop ------------------------------------------------------------------------------- *)
Lemma floop_S f prec lhs s : p_fexpr_loop cfg (S f) prec lhs s =
  (let pk := peek_ty s in
   let s := after_peek s in
   if ttype_eqb pk T_EOF || ttype_eqb pk T_RBRACKET || (precedence_of pk <? prec) then POk lhs s
   else match binary_operator pk with
        | None => POk lhs s
        | Some _ => dop lhs', s <- p_infix cfg f lhs (adv s); p_fexpr_loop cfg f prec lhs' s
        end).
Proof. reflexivity. Qed.

Lemma loop_split p p' : p <= p' -> forall f1 lhs s x s1, J s -> p_fexpr_loop cfg f1 p' lhs s = POk x s1 ->
  forall e s2, stab (fun f => p_fexpr_loop cfg f p x s1) e s2 -> stab (fun f => p_fexpr_loop cfg f p lhs s) e s2.
Proof.
  intros Hp. induction f1 as [|f1 IH]; intros lhs s x s1 HJ E e s2 Hst; [discriminate|].
  rewrite floop_S in E. cbv zeta in E.
  destruct (ttype_eqb (peek_ty s) T_EOF || ttype_eqb (peek_ty s) T_RBRACKET || (precedence_of (peek_ty s) <? p')) eqn:Estop.
  - (* the loop at p' stops here: the loop at p is what it does from here *)
    inversion E; subst x s1. destruct Hst as [f0 Hf0]. exists (S f0). intros f Hf. destruct f as [|f]; [lia|].
    specialize (Hf0 (S f) ltac:(lia)). rewrite floop_S in Hf0 |- *. cbv zeta in Hf0 |- *.
    rewrite (peek_after_peek s HJ), (after_peek_idem s HJ) in Hf0. exact Hf0.
  - destruct (binary_operator (peek_ty s)) as [b|] eqn:Eb.
    + destruct (p_infix cfg f1 lhs (adv (after_peek s))) as [lhs' s''| | |] eqn:Ei; cbn [pbind] in E; try discriminate.
      assert (HJ'' : J s'') by (eapply J_infix; [|exact Ei]; apply J_adv, J_after_peek; exact HJ).
      destruct (IH lhs' s'' x s1 HJ'' E e s2 Hst) as [f0 Hf0]. exists (S (Nat.max f0 f1)). intros f Hf. destruct f as [|f]; [lia|].
      rewrite floop_S. cbv zeta.
      assert (Estop' : ttype_eqb (peek_ty s) T_EOF || ttype_eqb (peek_ty s) T_RBRACKET || (precedence_of (peek_ty s) <? p) = false).
      { apply orb_false_iff in Estop as [Ea Eb']. rewrite Ea. cbn [orb]. apply Z.ltb_ge. apply Z.ltb_ge in Eb'. lia. }
      rewrite Estop', Eb.
      rewrite (mono_le (fun f => p_infix cfg f lhs (adv (after_peek s))) (mono_infix _ _) f1 f) by (try rewrite Ei; try discriminate; lia).
      rewrite Ei. cbn [pbind]. apply Hf0. lia.
    + inversion E; subst x s1. destruct Hst as [f0 Hf0]. exists (S f0). intros f Hf. destruct f as [|f]; [lia|].
      specialize (Hf0 (S f) ltac:(lia)). rewrite floop_S in Hf0 |- *. cbv zeta in Hf0 |- *.
      rewrite (peek_after_peek s HJ), (after_peek_idem s HJ) in Hf0. exact Hf0.
Qed.

Lemma fexpr_S f prec s : p_fexpr cfg (S f) prec s =
  (if negb (in_token_map (cty s)) then err_cur ESyntax s else
   match p_primary cfg f s with
   | PCrash XKeyError s' => err_cur ESyntax s'
   | POk lhs s => p_fexpr_loop cfg f prec lhs s
   | r => r
   end).
Proof. reflexivity. Qed.

Lemma fexpr_split p p' s x s1 e s2 : p <= p' -> J s ->
  stab (fun f => p_fexpr cfg f p' s) x s1 -> stab (fun f => p_fexpr_loop cfg f p x s1) e s2 ->
  stab (fun f => p_fexpr cfg f p s) e s2.
Proof.
  intros Hp HJ [f0 Hf0] Hst. pose proof (Hf0 (S f0) ltac:(lia)) as E. rewrite fexpr_S in E.
  destruct (negb (in_token_map (cty s))) eqn:Em; [discriminate|].
  destruct (p_primary cfg f0 s) as [lhs s0|c o|y s0|] eqn:Epr; try discriminate; [|destruct y; discriminate].
  assert (HJ0 : J s0) by (eapply J_primary; [exact HJ | exact Epr]).
  destruct (loop_split p p' Hp f0 lhs s0 x s1 HJ0 E e s2 Hst) as [f1 Hf1].
  exists (S (Nat.max f0 f1)). intros f Hf. destruct f as [|f]; [lia|]. rewrite fexpr_S, Em.
  rewrite (mono_le (fun f => p_primary cfg f s) (mono_primary s) f0 f) by (try rewrite Epr; try discriminate; lia).
  rewrite Epr. apply Hf1. lia.
Qed.

(* ================= the token-level grammar (RFC 9535 ABNF with the lexical layer taken away) ================= *)
Definition lit_tok (v : json) (t : token) : Prop :=
  (ty t = T_TRUE /\ v = JBool true) \/ (ty t = T_FALSE /\ v = JBool false) \/ (ty t = T_NULL /\ v = JNull) \/
  ((ty t = T_SQ_STRING \/ ty t = T_DQ_STRING) /\ exists s, decode_string_literal t = Ok s /\ v = JStr s) \/
  (ty t = T_INT /\ has_leading_zero (tval t) = false /\
     exists x, py_float (tval t) = Some x /\ v = JNum (match py_int_of_float x with Some z => NInt z | None => x end)) \/
  (ty t = T_FLOAT /\ has_leading_zero (tval t) = false /\ exists x, py_float (tval t) = Some x /\ v = JNum x).

Definition OptI (o : option Z) (t : list token) : Prop :=
  match o with
  | None => t = []
  | Some x => exists ds j, t = [tk T_INDEX ds j] /\ int_text_ok ds x /\ in_range cfg x = true
  end.
Definition StepT (c : option Z) (t : list token) : Prop :=
  (t = [] /\ c = None) \/ (exists v i t', t = tk T_COLON v i :: t' /\ OptI c t').

Definition cmp_tok (o : cmpop) : ttype :=
  match o with OEq => T_EQ | ONe => T_NE | OLt => T_LT | OLe => T_LE | OGt => T_GT | OGe => T_GE end.

Inductive QT : list seg -> list token -> Prop :=
| qt_nil : QT [] []
| qt_cons g tg q tq : SegT g tg -> QT q tq -> QT (g :: q) (tg ++ tq)
with SegT : seg -> list token -> Prop :=
| sg_prop k i : SegT (Child [SName k]) [tk T_PROPERTY k i]
| sg_wild v i : SegT (Child [SWild]) [tk T_WILD v i]
| sg_br ss t v1 i1 v2 i2 : SelsT ss t -> SegT (Child ss) (tk T_LBRACKET v1 i1 :: t ++ [tk T_RBRACKET v2 i2])
| sg_dprop k i v0 i0 : SegT (Desc [SName k]) [tk T_DOUBLE_DOT v0 i0; tk T_PROPERTY k i]
| sg_dwild v i v0 i0 : SegT (Desc [SWild]) [tk T_DOUBLE_DOT v0 i0; tk T_WILD v i]
| sg_dbr ss t v0 i0 v1 i1 v2 i2 : SelsT ss t -> SegT (Desc ss) (tk T_DOUBLE_DOT v0 i0 :: tk T_LBRACKET v1 i1 :: t ++ [tk T_RBRACKET v2 i2])
with SelsT : list sel -> list token -> Prop :=
| ss_one s t : SelT s t -> SelsT [s] t
| ss_cons s t v i rest trest : SelT s t -> SelsT rest trest -> SelsT (s :: rest) (t ++ tk T_COMMA v i :: trest)
with SelT : sel -> list token -> Prop :=
| st_name t k : (ty t = T_SQ_STRING \/ ty t = T_DQ_STRING) -> decode_string_literal t = Ok k -> SelT (SName k) [t]
| st_index ds j i : int_text_ok ds i -> in_range cfg i = true -> SelT (SIndex i) [tk T_INDEX ds j]
| st_slice a b c ta tb tc v1 i1 : OptI a ta -> OptI b tb -> StepT c tc -> SelT (SSlice a b c) (ta ++ tk T_COLON v1 i1 :: tb ++ tc)
| st_wild v i : SelT SWild [tk T_WILD v i]
| st_filter e t v i : ET 3 e t -> SelT (SFilter e) (tk T_FILTER v i :: t)
(* logical-expr at binding level 3 (||), 4 (&&), 5 (comparison), 7 (parenthesised, negated, test) *)
with ET : Z -> expr -> list token -> Prop :=
| et_or x y tx v i ty : ET 4 x tx -> ET 3 y ty -> ET 3 (EOr x y) (tx ++ tk T_OR v i :: ty)
| et_34 e t : ET 4 e t -> ET 3 e t
| et_and x y tx v i ty : ET 5 x tx -> ET 4 y ty -> ET 4 (EAnd x y) (tx ++ tk T_AND v i :: ty)
| et_45 e t : ET 5 e t -> ET 4 e t
| et_cmp o a b ta v i tb : CT a ta -> CT b tb -> ET 5 (ECmp o a b) (ta ++ tk (cmp_tok o) v i :: tb)
| et_57 e t : ET 7 e t -> ET 5 e t
| et_paren e t v1 i1 v2 i2 : ET 3 e t -> ET 7 e (tk T_LPAREN v1 i1 :: t ++ [tk T_RPAREN v2 i2])
| et_not_paren x t v0 i0 v1 i1 v2 i2 : ET 3 x t -> ET 7 (ENot x) (tk T_NOT v0 i0 :: tk T_LPAREN v1 i1 :: t ++ [tk T_RPAREN v2 i2])
| et_not_test x t v0 i0 : TT TLogical x t -> ET 7 (ENot x) (tk T_NOT v0 i0 :: t)
| et_test x t : TT TLogical x t -> ET 7 x t
(* comparable *)
with CT : expr -> list token -> Prop :=
| ct_lit v t : lit_tok v t -> CT (ELit v) [t]
| ct_test x t : TT TValue x t -> CT x t
(* filter-query / function-expr where a value of declared type [want] is expected *)
with TT : ty3 -> expr -> list token -> Prop :=
| tt_rel want q t v i : QT q t -> (want = TValue -> singular q = true) -> TT want (ERel q) (tk T_CURRENT v i :: t)
| tt_abs want q t v i : QT q t -> (want = TValue -> singular q = true) -> TT want (EAbs q) (tk T_ROOT v i :: t)
| tt_call want f d args t i v2 i2 : find_assoc f rg = Some d -> ret_ok want (f_ret d) = true -> ArgsT (f_args d) args t ->
    TT want (ECall f args) (tk T_FUNCTION f i :: t ++ [tk T_RPAREN v2 i2])
with ArgsT : list ty3 -> list expr -> list token -> Prop :=
| as_nil : ArgsT [] [] []
| as_one t a ta : ArgT t a ta -> ArgsT [t] [a] ta
| as_cons t a ta v i tys args targs : ArgT t a ta -> ArgsT tys args targs -> args <> [] -> ArgsT (t :: tys) (a :: args) (ta ++ tk T_COMMA v i :: targs)
with ArgT : ty3 -> expr -> list token -> Prop :=
| ar_value a t : CT a t -> ArgT TValue a t
| ar_nodes a t : TT TNodes a t -> ArgT TNodes a t
| ar_logical a t : ET 3 a t -> ArgT TLogical a t.

Scheme qt_mut := Minimality for QT Sort Prop
  with sg_mut := Minimality for SegT Sort Prop
  with ss_mut := Minimality for SelsT Sort Prop
  with st_mut := Minimality for SelT Sort Prop
  with et_mut := Minimality for ET Sort Prop
  with ct_mut := Minimality for CT Sort Prop
  with tt_mut := Minimality for TT Sort Prop
  with as_mut := Minimality for ArgsT Sort Prop
  with ar_mut := Minimality for ArgT Sort Prop.
Combined Scheme grammar_mutind from qt_mut, sg_mut, ss_mut, st_mut, et_mut, ct_mut, tt_mut, as_mut, ar_mut.

(* ================= streams ============================================================================================ *)
Definition strm (l : list token) : stream := match l with t :: r => SS t r | [] => SS eof_token [] end.
Notation Nx := after_sel.

Lemma J_SS c r : J (SS c r). Proof. unfold J, SS. cbn. split; [lia | intros _; constructor]. Qed.
Lemma J_strm l : J (strm l). Proof. destruct l; apply J_SS. Qed.

Lemma nx_peek_ty n r s : Nx n r s -> peek_ty s = ty n.
Proof. intros [(c & -> & Hc) | (c & ->)]; [apply peek_ty_SS; exact Hc | apply peek_ty_SP]. Qed.
Lemma nx_after_peek n r s : Nx n r s -> exists c, after_peek s = SP c n r.
Proof. intros [(c & -> & Hc) | (c & ->)]; exists c; [apply after_peek_SS; exact Hc | apply after_peek_SP]. Qed.
Lemma nx_adv n r s : Nx n r s -> adv s = SS n r.
Proof. intros [(c & -> & Hc) | (c & ->)]; [apply adv_SS; exact Hc | apply adv_SP]. Qed.
Lemma nx_SP c n r : Nx n r (SP c n r). Proof. right. exists c. reflexivity. Qed.
Lemma nx_SS c n r : ty c <> T_EOF -> Nx n r (SS c (n :: r)). Proof. intros H. left. exists c. split; [reflexivity | exact H]. Qed.

Ltac nt := first [ assumption | (cbn [ty tk]; discriminate) | (cbn [ty tk]; congruence) ].
Ltac strm := repeat first
  [ rewrite peek_ty_SP | rewrite after_peek_SP | rewrite adv_SP
  | rewrite peek_ty_SS by nt | rewrite after_peek_SS by nt | rewrite adv_SS by nt ].
Ltac tys := cbn [is_ty cty cur SS SP ty tk tval tidx ttype_eqb ttype_code Z.eqb Pos.eqb]; zeqb; cbn [negb orb andb]; cbv iota.
Ltac stp := cbn [pbind]; cbv beta iota zeta; strm; tys.
Ltac mi' := first [ erewrite mi_index; [ | reflexivity | eassumption ] | rewrite mi_other by (cbn [cur SS SP ty tk]; nt) ].

Lemma teqb_ne (t u : ttype) : t <> u -> ttype_eqb t u = false.
Proof. intros H. unfold ttype_eqb. apply teqb_false. exact H. Qed.

(* ================= selectors ======================================================================================== *)
Definition okr (o : option Z) : bool := match o with Some i => in_range cfg i | None => true end.

Lemma ito ds i : int_text_ok ds i -> int_of_index ds = i.
Proof. intros (_ & H & _). exact H. Qed.

Lemma sel_slice a b c ta tb tc v1 i1 n r : OptI a ta -> OptI b tb -> StepT c tc -> (ty n = T_COMMA \/ ty n = T_RBRACKET) ->
  forall f, p_bracket_loop cfg (S f) (strm ((ta ++ tk T_COLON v1 i1 :: tb ++ tc) ++ n :: r)) = tail cfg f (SSlice a b c) (SP n n r).
Proof.
  intros Ha Hb Hc Hn f.
  assert (N1 : ty n <> T_INDEX) by (destruct Hn as [-> | ->]; discriminate).
  assert (N2 : ty n <> T_COLON) by (destruct Hn as [-> | ->]; discriminate).
  assert (N3 : ty n <> T_EOF) by (destruct Hn as [-> | ->]; discriminate).
  assert (Hstep : (tc = [] /\ c = None) \/ (exists v i, tc = [tk T_COLON v i] /\ c = None) \/
                  (exists v i ds j x, tc = [tk T_COLON v i; tk T_INDEX ds j] /\ c = Some x /\ int_text_ok ds x /\ in_range cfg x = true)).
  { destruct Hc as [[-> ->] | (v & i & t' & -> & Hc)]; [left; split; reflexivity|]. right.
    destruct c as [x|]; cbn [OptI] in Hc; [destruct Hc as (ds & j & -> & H1 & H2); right; exists v, i, ds, j, x; split; [reflexivity|]; split; [reflexivity|]; split; assumption | subst t'; left; exists v, i; split; reflexivity]. }
  clear Hc.
  destruct a as [x|]; cbn [OptI] in Ha; [destruct Ha as (dsa & ja & -> & Ha1 & Ha2) | subst ta];
  (destruct b as [y|]; cbn [OptI] in Hb; [destruct Hb as (dsb & jb & -> & Hb1 & Hb2) | subst tb]);
  (destruct Hstep as [[-> ->] | [(v2 & i2 & -> & ->) | (v2 & i2 & dsc & jc & z & -> & -> & Hc1 & Hc2)]]);
  cbn [app strm]; rewrite pbl_unfold; tys; strm; tys; unfold p_slice;
  repeat (first [ mi' | progress (unfold is_ty, cty; cbn [cur SS SP]; rewrite (teqb_ne _ _ N2)) ]; stp);
  rewrite ?(ito _ _ Ha1), ?(ito _ _ Hb1), ?(ito _ _ Hc1), ?Ha2, ?Hb2, ?Hc2; cbn [andb pbind s_push SS SP cur pushed rest app]; try reflexivity.
Qed.

Definition P_SelT (s : sel) (t : list token) : Prop :=
  (exists y tl, t = y :: tl /\ ty y <> T_RBRACKET /\ ty y <> T_EOF) /\
  forall n r, (ty n = T_COMMA \/ ty n = T_RBRACKET) ->
    exists S1, Nx n r S1 /\ exists f0, forall f, (f0 <= f)%nat -> p_bracket_loop cfg (S f) (strm (t ++ n :: r)) = tail cfg f s S1.
Definition P_SelsT (ss : list sel) (t : list token) : Prop :=
  ss <> [] /\ (exists y tl, t = y :: tl /\ ty y <> T_RBRACKET /\ ty y <> T_EOF) /\
  forall v i r, stab (fun f => p_bracket_loop cfg f (strm (t ++ tk T_RBRACKET v i :: r))) ss (SS (tk T_RBRACKET v i) r).

Lemma case_name t k : (ty t = T_SQ_STRING \/ ty t = T_DQ_STRING) -> decode_string_literal t = Ok k -> P_SelT (SName k) [t].
Proof.
  intros Ht Hd. split; [exists t, []; split; [reflexivity | destruct Ht as [E | E]; rewrite E; split; discriminate]|].
  intros n r Hn. exists (SS t (n :: r)). split; [apply nx_SS; destruct Ht as [E | E]; rewrite E; discriminate|].
  exists 0%nat. intros f _. cbn [app strm]. rewrite pbl_unfold. unfold is_ty, cty. cbn [cur SS].
  destruct Ht as [E | E]; rewrite E; cbn [ttype_eqb ttype_code Z.eqb Pos.eqb]; cbv iota; rewrite Hd; reflexivity.
Qed.
Lemma case_index ds j i : int_text_ok ds i -> in_range cfg i = true -> P_SelT (SIndex i) [tk T_INDEX ds j].
Proof.
  intros Hi Hr. split; [eexists; eexists; split; [reflexivity | split; discriminate]|].
  intros n r Hn. exists (SP (tk T_INDEX ds j) n r). split; [apply nx_SP|]. exists 0%nat. intros f _. cbn [app strm].
  assert (N2 : ty n <> T_COLON) by (destruct Hn as [-> | ->]; discriminate).
  rewrite pbl_unfold. tys. strm. rewrite (teqb_ne _ _ N2). cbv iota zeta. tys.
  destruct Hi as (_ & E & _ & F). rewrite F, E, Hr. reflexivity.
Qed.
Lemma case_wild v i : P_SelT SWild [tk T_WILD v i].
Proof.
  split; [eexists; eexists; split; [reflexivity | split; discriminate]|].
  intros n r Hn. exists (SS (tk T_WILD v i) (n :: r)). split; [apply nx_SS; discriminate|]. exists 0%nat. intros f _. cbn [app strm].
  rewrite pbl_unfold. tys. reflexivity.
Qed.
Lemma case_slice a b c ta tb tc v1 i1 : OptI a ta -> OptI b tb -> StepT c tc -> P_SelT (SSlice a b c) (ta ++ tk T_COLON v1 i1 :: tb ++ tc).
Proof.
  intros Ha Hb Hc. split.
  - destruct a; cbn [OptI] in Ha; [destruct Ha as (ds & j & -> & _) | subst ta]; cbn [app]; eexists; eexists; (split; [reflexivity | split; discriminate]).
  - intros n r Hn. exists (SP n n r). split; [apply nx_SP|]. exists 0%nat. intros f _. apply sel_slice; assumption.
Qed.

Lemma case_ss_one s t : P_SelT s t -> P_SelsT [s] t.
Proof.
  intros [Hh H]. split; [discriminate|]. split; [exact Hh|]. intros v i r.
  destruct (H (tk T_RBRACKET v i) r (or_intror eq_refl)) as (S1 & Hnx & f0 & Hf0).
  exists (S (S f0)). intros f Hf. destruct f as [|[|f]]; try lia. rewrite Hf0 by lia.
  destruct Hnx as [(c & -> & Hc) | (c & ->)]; [apply tail_close_SS; exact Hc | apply tail_close_SP].
Qed.
Lemma case_ss_cons s t v i rest trest : P_SelT s t -> P_SelsT rest trest -> P_SelsT (s :: rest) (t ++ tk T_COMMA v i :: trest).
Proof.
  intros [Hh H] (Hne & (y & tl & -> & Hy & Hy') & Hrest). split; [discriminate|]. split.
  { destruct Hh as (y0 & tl0 & -> & A & B). cbn [app]. eexists; eexists; split; [reflexivity | split; assumption]. }
  intros v' i' r. destruct (Hrest v' i' r) as [f1 Hf1].
  destruct (H (tk T_COMMA v i) ((y :: tl) ++ tk T_RBRACKET v' i' :: r) (or_introl eq_refl)) as (S1 & Hnx & f0 & Hf0).
  exists (S (Nat.max f0 f1)). intros f Hf. destruct f as [|f]; [lia|].
  rewrite <- app_assoc. cbn [app]. rewrite Hf0 by lia. cbn [app] in Hnx, Hf1.
  destruct Hnx as [(c & -> & Hc) | (c & ->)]; [rewrite tail_comma_SS by assumption | rewrite tail_comma_SP by assumption];
    (specialize (Hf1 f ltac:(lia)); cbn [strm] in Hf1; rewrite Hf1; reflexivity).
Qed.

(* ================= segments and queries ============================================================================ *)
Definition qstop (t : ttype) : bool :=
  match t with T_DOUBLE_DOT | T_LBRACKET | T_PROPERTY | T_WILD => false | _ => true end.
Definition seghead (t : ttype) : bool := negb (qstop t).

Definition P_SegT (g : seg) (t : list token) : Prop :=
  (exists y tl, t = y :: tl /\ seghead (ty y) = true) /\
  forall inf rest q s_end, rest <> [] -> stab (fun f => p_query cfg f inf (strm rest)) q s_end ->
    stab (fun f => p_query cfg f inf (strm (t ++ rest))) (g :: q) s_end.
Definition P_QT (q : list seg) (t : list token) : Prop :=
  forall inf n r, qstop (ty n) = true -> stab (fun f => p_query cfg f inf (strm (t ++ n :: r))) q (if inf then SP n n r else SS n r).

Lemma case_qt_nil : P_QT [] [].
Proof.
  intros inf n r Hn. exists 1%nat. intros f Hf. destruct f as [|f]; [lia|]. cbn [app strm]. rewrite p_query_S.
  unfold is_ty, cty. cbn [cur SS]. unfold qstop in Hn. destruct (ty n); try discriminate; cbn [ttype_eqb ttype_code Z.eqb Pos.eqb orb]; cbv iota; destruct inf; reflexivity.
Qed.
Lemma case_qt_cons g tg q tq : P_SegT g tg -> P_QT q tq -> P_QT (g :: q) (tg ++ tq).
Proof.
  intros [_ Hg] Hq inf n r Hn. rewrite <- app_assoc. apply Hg; [destruct tq; discriminate|]. apply Hq. exact Hn.
Qed.

Lemma strm_cons x r : strm (x :: r) = SS x r. Proof. reflexivity. Qed.
Lemma rest_cons (rest : list token) : rest <> [] -> exists x r, rest = x :: r.
Proof. destruct rest as [|x r]; [congruence | eauto]. Qed.

Lemma case_sg_prop k i : P_SegT (Child [SName k]) [tk T_PROPERTY k i].
Proof.
  split; [eexists; eexists; split; reflexivity|]. intros inf rest q s_end Hne [f0 Hf0]. destruct (rest_cons rest Hne) as (x & r & ->).
  exists (S (S f0)). intros f Hf. destruct f as [|[|f]]; try lia. cbn [app strm]. rewrite p_query_S. tys. rewrite p_selectors_S. tys. cbn [pbind]. strm.
  rewrite <- strm_cons. rewrite Hf0 by lia. reflexivity.
Qed.
Lemma case_sg_wild v i : P_SegT (Child [SWild]) [tk T_WILD v i].
Proof.
  split; [eexists; eexists; split; reflexivity|]. intros inf rest q s_end Hne [f0 Hf0]. destruct (rest_cons rest Hne) as (x & r & ->).
  exists (S (S f0)). intros f Hf. destruct f as [|[|f]]; try lia. cbn [app strm]. rewrite p_query_S. tys. rewrite p_selectors_S. tys. cbn [pbind]. strm.
  rewrite <- strm_cons. rewrite Hf0 by lia. reflexivity.
Qed.
Lemma case_sg_br ss t v1 i1 v2 i2 : P_SelsT ss t -> P_SegT (Child ss) (tk T_LBRACKET v1 i1 :: t ++ [tk T_RBRACKET v2 i2]).
Proof.
  intros (Hne0 & (y & tl & -> & _ & Hy) & Hss). split; [eexists; eexists; split; reflexivity|].
  intros inf rest q s_end Hne [f0 Hf0]. destruct (rest_cons rest Hne) as (x & r & ->). destruct (Hss v2 i2 (x :: r)) as [f1 Hf1].
  exists (S (S (Nat.max f0 f1))). intros f Hf. destruct f as [|[|f]]; try lia. cbn [app strm]. rewrite p_query_S. tys. rewrite p_selectors_S. tys. strm.
  rewrite <- app_assoc. cbn [app]. cbn [app strm] in Hf1. rewrite Hf1 by lia. cbn [pbind].
  destruct ss; [congruence|]. cbn [pbind]. strm. rewrite <- strm_cons. rewrite Hf0 by lia. reflexivity.
Qed.
Lemma case_sg_dprop k i v0 i0 : P_SegT (Desc [SName k]) [tk T_DOUBLE_DOT v0 i0; tk T_PROPERTY k i].
Proof.
  split; [eexists; eexists; split; reflexivity|]. intros inf rest q s_end Hne [f0 Hf0]. destruct (rest_cons rest Hne) as (x & r & ->).
  exists (S (S f0)). intros f Hf. destruct f as [|[|f]]; try lia. cbn [app strm]. rewrite p_query_S. tys. strm. rewrite p_selectors_S. tys. cbn [pbind]. strm.
  rewrite <- strm_cons. rewrite Hf0 by lia. reflexivity.
Qed.
Lemma case_sg_dwild v i v0 i0 : P_SegT (Desc [SWild]) [tk T_DOUBLE_DOT v0 i0; tk T_WILD v i].
Proof.
  split; [eexists; eexists; split; reflexivity|]. intros inf rest q s_end Hne [f0 Hf0]. destruct (rest_cons rest Hne) as (x & r & ->).
  exists (S (S f0)). intros f Hf. destruct f as [|[|f]]; try lia. cbn [app strm]. rewrite p_query_S. tys. strm. rewrite p_selectors_S. tys. cbn [pbind]. strm.
  rewrite <- strm_cons. rewrite Hf0 by lia. reflexivity.
Qed.
Lemma case_sg_dbr ss t v0 i0 v1 i1 v2 i2 : P_SelsT ss t -> P_SegT (Desc ss) (tk T_DOUBLE_DOT v0 i0 :: tk T_LBRACKET v1 i1 :: t ++ [tk T_RBRACKET v2 i2]).
Proof.
  intros (Hne0 & (y & tl & -> & _ & Hy) & Hss). split; [eexists; eexists; split; reflexivity|].
  intros inf rest q s_end Hne [f0 Hf0]. destruct (rest_cons rest Hne) as (x & r & ->). destruct (Hss v2 i2 (x :: r)) as [f1 Hf1].
  exists (S (S (Nat.max f0 f1))). intros f Hf. destruct f as [|[|f]]; try lia. cbn [app strm]. rewrite p_query_S. tys. strm. rewrite p_selectors_S. tys. strm.
  rewrite <- app_assoc. cbn [app]. cbn [app strm] in Hf1. rewrite Hf1 by lia. cbn [pbind].
  destruct ss; [congruence|]. cbn [pbind]. strm. rewrite <- strm_cons. rewrite Hf0 by lia. reflexivity.
Qed.

(* ================= filter expressions ================================================================================ *)
Definition fol (k : Z) (t : ttype) : bool :=
  match t with
  | T_RBRACKET | T_RPAREN | T_COMMA => true
  | T_OR => 4 <=? k
  | T_AND => 5 <=? k
  | T_EQ | T_NE | T_LT | T_LE | T_GT | T_GE => 8 <=? k
  | _ => false
  end.
Definition stopsZ (p : Z) (t : ttype) : bool :=
  (precedence_of t <? p) || match binary_operator t with None => true | Some _ => false end.
(* the clause of check_well_typedness for one parameter *)
Definition carg (t : ty3) (a : expr) : bool :=
  match t with
  | TValue => is_literal a || (is_filter_query a && m_singular (query_of a)) || opt_ty_is (function_return_type rg a) TValue
  | TLogical => is_filter_query a || is_compound a || opt_ty_is (function_return_type rg a) TLogical || opt_ty_is (function_return_type rg a) TNodes
  | TNodes => is_filter_query a || opt_ty_is (function_return_type rg a) TNodes
  end.

Definition parsesE (p : Z) (t : list token) (e : expr) : Prop :=
  forall n r, exists i s', Nx n r s' /\ stab (fun f => p_fexpr cfg f p (strm (t ++ n :: r))) (e, i) s'.

Definition P_ET (k : Z) (e : expr) (t : list token) : Prop :=
  (exists y tl, t = y :: tl /\ in_token_map (ty y) = true /\ ty y <> T_RPAREN) /\
  is_literal e = false /\ value_function cfg e = false /\ carg TLogical e = true /\
  forall p n r, p <= k -> fol k (ty n) = true -> stopsZ p (ty n) = true ->
    exists i s', Nx n r s' /\ stab (fun f => p_fexpr cfg f p (strm (t ++ n :: r))) (e, i) s'.
Definition P_TT (want : ty3) (e : expr) (t : list token) : Prop :=
  (exists y tl, t = y :: tl /\ (ty y = T_CURRENT \/ ty y = T_ROOT \/ ty y = T_FUNCTION)) /\
  is_literal e = false /\ carg want e = true /\
  (want = TValue -> non_comparable cfg e = None) /\ (want <> TValue -> value_function cfg e = false) /\
  forall p n r, fol 8 (ty n) = true -> stopsZ p (ty n) = true ->
    exists i s', Nx n r s' /\ stab (fun f => p_fexpr cfg f p (strm (t ++ n :: r))) (e, i) s'.
Definition P_CT (e : expr) (t : list token) : Prop :=
  (exists y tl, t = y :: tl /\ in_token_map (ty y) = true /\ ty y <> T_LPAREN /\ ty y <> T_RPAREN) /\
  non_comparable cfg e = None /\ carg TValue e = true /\
  forall p n r, fol 8 (ty n) = true -> stopsZ p (ty n) = true ->
    exists i s', Nx n r s' /\ stab (fun f => p_fexpr cfg f p (strm (t ++ n :: r))) (e, i) s'.

Lemma loop_stop f p lhs s n r : Nx n r s -> stopsZ p (ty n) = true -> p_fexpr_loop cfg (S f) p lhs s = POk lhs (after_peek s).
Proof.
  intros Hnx Hs. rewrite floop_S. cbv zeta. rewrite (nx_peek_ty n r s Hnx).
  unfold stopsZ in Hs. destruct (ttype_eqb (ty n) T_EOF || ttype_eqb (ty n) T_RBRACKET || (precedence_of (ty n) <? p)) eqn:E; [reflexivity|].
  apply orb_false_iff in E as [_ E]. rewrite E in Hs. cbn [orb] in Hs. destruct (binary_operator (ty n)); [discriminate | reflexivity].
Qed.
Lemma nx_after_peek_nx n r s : Nx n r s -> Nx n r (after_peek s).
Proof. intros H. destruct (nx_after_peek n r s H) as [c ->]. apply nx_SP. Qed.

(* a primary whose result stream shows n next, followed by a loop that stops at n *)
Lemma fexpr_primary p t y tl n r e i s1 : t = y :: tl -> in_token_map (ty y) = true ->
  stab (fun f => p_primary cfg f (strm (t ++ n :: r))) (e, i) s1 -> Nx n r s1 -> stopsZ p (ty n) = true ->
  exists s', Nx n r s' /\ stab (fun f => p_fexpr cfg f p (strm (t ++ n :: r))) (e, i) s'.
Proof.
  intros -> Hm [f0 Hf0] Hnx Hs. exists (after_peek s1). split; [apply nx_after_peek_nx; exact Hnx|].
  exists (S (S f0)). intros f Hf. destruct f as [|[|f]]; try lia. rewrite fexpr_S. cbn [app strm] in *. unfold cty. cbn [cur SS]. rewrite Hm. cbn [negb].
  rewrite Hf0 by lia. apply (loop_stop f p (e, i) s1 n r Hnx Hs).
Qed.

Lemma lit_primary v t : lit_tok v t ->
  (forall f R, p_primary cfg (S f) (SS t R) = POk (ELit v, tidx t) (SS t R)) /\
  in_token_map (ty t) = true /\ ty t <> T_LPAREN /\ ty t <> T_RPAREN /\ ty t <> T_EOF.
Proof.
  intros H. unfold lit_tok in H.
  destruct H as [[E ->] | [[E ->] | [[E ->] | [[E (x & Hd & ->)] | [(E & Hz & x & Hf & ->) | (E & Hz & x & Hf & ->)]]]]];
    try (destruct E as [E | E]); (split; [intros f R; rewrite p_primary_S; unfold cty, p_literal; cbn [cur SS]; rewrite E; cbv iota zeta;
      rewrite ?Hd, ?Hz, ?Hf; unfold err_cur; cbv iota; try reflexivity | rewrite E; repeat split; discriminate]).
  destruct (py_int_of_float x); reflexivity.
Qed.

Lemma fol8_qstop t : fol 8 t = true -> qstop t = true.
Proof. destruct t; cbn; intros H; try discriminate; reflexivity. Qed.
Lemma fol_mono k k' t : k <= k' -> fol k t = true -> fol k' t = true.
Proof. intros Hk. destruct t; cbn; intros H; try discriminate; try reflexivity; apply Z.leb_le in H; apply Z.leb_le; lia. Qed.

Lemma case_ct_lit v t : lit_tok v t -> P_CT (ELit v) [t].
Proof.
  intros H. destruct (lit_primary v t H) as (Hp & Hm & N1 & N2 & N3).
  split; [exists t, []; repeat split; assumption|]. split; [reflexivity|]. split; [reflexivity|].
  intros p n r Hfol Hs. exists (tidx t).
  destruct (fexpr_primary p [t] t [] n r (ELit v) (tidx t) (SS t (n :: r)) eq_refl Hm) as (s' & Hnx & Hst);
    [exists 1%nat; intros f Hf; destruct f as [|f]; [lia|]; apply Hp | apply nx_SS; exact N3 | exact Hs|].
  exists s'. split; assumption.
Qed.

Lemma rest_app_cons (t : list token) n r : exists x r', t ++ n :: r = x :: r'.
Proof. destruct t; cbn [app]; eauto. Qed.

Lemma m_singular_eq q : m_singular q = singular q.
Proof. unfold m_singular, singular. induction q as [|g q IH]; [reflexivity|]. cbn [forallb]. rewrite IH. f_equal. Qed.

Lemma case_tt_query (rel : bool) want q t v i : P_QT q t -> (want = TValue -> singular q = true) ->
  P_TT want (if rel then ERel q else EAbs q) (tk (if rel then T_CURRENT else T_ROOT) v i :: t).
Proof.
  intros Hq Hs.
  assert (Hsing : want = TValue -> m_singular q = true) by (intros E; rewrite m_singular_eq; apply Hs; exact E).
  split; [eexists; eexists; split; [reflexivity | destruct rel; cbn [ty tk]; auto]|].
  split; [destruct rel; reflexivity|].
  split; [destruct want, rel; cbn [carg is_literal is_filter_query query_of orb andb]; try reflexivity; rewrite Hsing by reflexivity; reflexivity|].
  split; [intros E; destruct rel; unfold non_comparable; cbn [is_compound is_filter_query query_of andb]; rewrite (Hsing E); reflexivity|].
  split; [intros _; destruct rel; reflexivity|].
  intros p n r Hfol Hst. exists i.
  assert (Hprim : stab (fun f => p_primary cfg f (strm ((tk (if rel then T_CURRENT else T_ROOT) v i :: t) ++ n :: r))) (if rel then ERel q else EAbs q, i) (SP n n r)).
  { destruct (Hq true n r (fol8_qstop _ Hfol)) as [f0 Hf0]. exists (S f0). intros f Hf. destruct f as [|f]; [lia|].
    cbn [app strm]. rewrite p_primary_S. destruct (rest_app_cons t n r) as (x & r' & Er). rewrite Er in *.
    destruct rel; tys; strm; cbn [strm] in Hf0; rewrite Hf0 by lia; reflexivity. }
  destruct (fexpr_primary p (tk (if rel then T_CURRENT else T_ROOT) v i :: t) (tk (if rel then T_CURRENT else T_ROOT) v i) t n r _ i (SP n n r) eq_refl ltac:(destruct rel; reflexivity) Hprim (nx_SP n n r) Hst) as (s' & Hnx & Hs').
  exists s'. split; assumption.
Qed.

(* ================= function arguments ================================================================================== *)
Lemma ainfix_eq : forall f e s, p_arg_infix_loop cfg f e s = p_fexpr_loop cfg f 1 e s.
Proof.
  induction f as [|f IH]; intros e s; [reflexivity|]. rewrite p_arg_infix_loop_S, floop_S. cbv zeta.
  destruct (peek_ty s); cbn [binary_operator ttype_eqb ttype_code Z.eqb Pos.eqb orb precedence_of Z.ltb Z.compare Pos.compare Pos.compare_cont]; try reflexivity;
    destruct (p_infix cfg f e (adv (after_peek s))); cbn [pbind]; try reflexivity; apply IH.
Qed.

Lemma fexpr_parts s x s' : stab (fun f => p_fexpr cfg f 1 s) x s' ->
  exists lhs s0, stab (fun f => p_primary cfg f s) lhs s0 /\ stab (fun f => p_arg_infix_loop cfg f lhs s0) x s'.
Proof.
  intros [f0 Hf0]. pose proof (Hf0 (S f0) ltac:(lia)) as E. rewrite fexpr_S in E.
  destruct (negb (in_token_map (cty s))); [discriminate|].
  destruct (p_primary cfg f0 s) as [lhs s0|c o|y s0|] eqn:Epr; try discriminate; [|destruct y; discriminate].
  exists lhs, s0. split; [apply (stab_of _ _ _ f0 (mono_primary s) Epr)|].
  apply (stab_of (fun f => p_arg_infix_loop cfg f lhs s0) _ _ f0 (mono_ainfix lhs s0)). rewrite ainfix_eq. exact E.
Qed.

Definition P_ArgT (t : ty3) (a : expr) (ta : list token) : Prop :=
  (exists y tl, ta = y :: tl /\ in_token_map (ty y) = true /\ ty y <> T_RPAREN /\ (t <> TLogical -> ty y <> T_LPAREN)) /\
  carg t a = true /\
  forall n r, (ty n = T_COMMA \/ ty n = T_RPAREN) -> exists i s', Nx n r s' /\ stab (fun f => p_fexpr cfg f 1 (strm (ta ++ n :: r))) (a, i) s'.
Definition P_ArgsT (tys : list ty3) (args : list expr) (t : list token) : Prop :=
  (args <> [] -> exists y tl, t = y :: tl /\ ty y <> T_RPAREN) /\
  forall v i r, exists argsg, map fst argsg = args /\ grouped_ok tys (map snd argsg) = true /\ check_args cfg tys args = true /\
    length args = length tys /\
    stab (fun f => p_args_loop cfg f (strm (t ++ tk T_RPAREN v i :: r))) argsg (SS (tk T_RPAREN v i) r).

Lemma sep_follow n : (ty n = T_COMMA \/ ty n = T_RPAREN) -> fol 3 (ty n) = true /\ stopsZ 1 (ty n) = true.
Proof. intros [E | E]; rewrite E; split; reflexivity. Qed.

Lemma case_ar_value a t : P_CT a t -> P_ArgT TValue a t.
Proof.
  intros ((y & tl & -> & A & B & C) & _ & Hc & H). split; [exists y, tl; split; [reflexivity|]; split; [exact A|]; split; [exact C | intros _; exact B]|]. split; [exact Hc|].
  intros n r Hn. destruct (sep_follow n Hn) as [F S1]. apply H; [apply (fol_mono 3 8); [lia | exact F] | exact S1].
Qed.
Lemma case_ar_nodes a t : P_TT TNodes a t -> P_ArgT TNodes a t.
Proof.
  intros ((y & tl & -> & A) & _ & Hc & _ & _ & H). split.
  { exists y, tl. split; [reflexivity|]. destruct A as [E | [E | E]]; rewrite E; (split; [reflexivity|]; split; [discriminate | intros _; discriminate]). }
  split; [exact Hc|]. intros n r Hn. destruct (sep_follow n Hn) as [F S1]. apply H; [apply (fol_mono 3 8); [lia | exact F] | exact S1].
Qed.
Lemma case_ar_logical a t : P_ET 3 a t -> P_ArgT TLogical a t.
Proof.
  intros ((y & tl & -> & A & B) & _ & _ & Hc & H). split; [exists y, tl; split; [reflexivity|]; split; [exact A|]; split; [exact B | congruence]|]. split; [exact Hc|].
  intros n r Hn. destruct (sep_follow n Hn) as [F S1]. apply H; [lia | exact F | exact S1].
Qed.

(* one argument, up to its separator *)
Lemma arg_step t a ta n r : P_ArgT t a ta -> (ty n = T_COMMA \/ ty n = T_RPAREN) ->
  exists (g : bool) (s' : stream), Nx n r s' /\ (negb g || ty3_eqb t TLogical) = true /\
    exists f0, forall f, (f0 <= f)%nat -> forall (K : expr * Z -> stream -> pres (list (expr * bool))),
      p_args_loop cfg (S f) (strm (ta ++ n :: r)) =
      (dop _, s <- (if negb (ttype_eqb (peek_ty s') T_RPAREN) then
                      if negb (ttype_eqb (peek_ty s') T_COMMA) then err_peek ESyntax s' else
                      let s := adv (after_peek (after_peek s')) in
                      if ttype_eqb (peek_ty s) T_RPAREN then err_peek ESyntax s else POk tt (after_peek s)
                    else POk tt (after_peek s'));
       dop es, s <- p_args_loop cfg f (adv s); POk ((a, g) :: es) s).
Proof.
  intros ((y & tl & -> & Hm & Hrp & Hlp) & _ & H) Hn. destruct (H n r Hn) as (i & s' & Hnx & Hst).
  destruct (fexpr_parts _ _ _ Hst) as (lhs & s0 & [f1 Hf1] & [f2 Hf2]).
  exists (is_ty T_LPAREN (SS y (tl ++ n :: r)) && match binary_operator (peek_ty s0) with None => true | Some _ => false end), s'.
  split; [exact Hnx|]. split.
  { destruct (ty3_eqb t TLogical) eqn:Et; [apply orb_true_r|].
    assert (Hne : t <> TLogical) by (intros ->; discriminate). unfold is_ty, cty. cbn [cur SS]. rewrite (teqb_ne _ _ (Hlp Hne)). reflexivity. }
  exists (Nat.max f1 f2). intros f Hf K. cbn [app strm] in *. rewrite p_args_loop_S.
  unfold is_ty at 1, cty at 1. cbn [cur SS]. rewrite (teqb_ne _ _ Hrp). cbv iota.
  unfold in_function_argument_map, cty. cbn [cur SS]. rewrite Hm. cbn [negb]. cbv zeta.
  rewrite Hf1 by lia. cbn [pbind]. rewrite Hf2 by lia. cbn [pbind fst]. reflexivity.
Qed.

Lemma case_as_nil : P_ArgsT [] [] [].
Proof.
  split; [congruence|]. intros v i r. exists []. repeat split. exists 1%nat. intros f Hf. destruct f as [|f]; [lia|].
  cbn [app strm]. rewrite p_args_loop_S. tys. reflexivity.
Qed.
Lemma args_close f v i r : p_args_loop cfg (S f) (SS (tk T_RPAREN v i) r) = POk [] (SS (tk T_RPAREN v i) r).
Proof. rewrite p_args_loop_S. tys. reflexivity. Qed.

Lemma case_as_one t a ta : P_ArgT t a ta -> P_ArgsT [t] [a] ta.
Proof.
  intros HA. pose proof HA as ((y & tl & -> & _ & Hrp & _) & Hc & _). split; [intros _; exists y, tl; split; [reflexivity | exact Hrp]|].
  intros v i r. destruct (arg_step t a (y :: tl) (tk T_RPAREN v i) r HA (or_intror eq_refl)) as (g & s' & Hnx & Hg & f0 & Hf0).
  exists [(a, g)]. split; [reflexivity|]. split; [cbn [map snd grouped_ok]; rewrite Hg; reflexivity|].
  split; [cbn [check_args]; unfold carg in Hc; destruct t; rewrite Hc; reflexivity|]. split; [reflexivity|].
  exists (S (S f0)). intros f Hf. destruct f as [|[|f]]; try lia. rewrite (Hf0 (S f) ltac:(lia) (fun _ s => POk [] s)).
  rewrite (nx_peek_ty _ _ _ Hnx). tys. cbn [pbind]. destruct (nx_after_peek _ _ _ Hnx) as [c ->]. strm. rewrite args_close. reflexivity.
Qed.
Lemma case_as_cons t a ta v i tys args targs : P_ArgT t a ta -> P_ArgsT tys args targs -> args <> [] ->
  P_ArgsT (t :: tys) (a :: args) (ta ++ tk T_COMMA v i :: targs).
Proof.
  intros HA [Hhead Hrest] Hne. pose proof HA as ((y & tl & -> & _ & Hrp & _) & Hc & _).
  split; [intros _; exists y, (tl ++ tk T_COMMA v i :: targs); split; [reflexivity | exact Hrp]|].
  intros v' i' r. destruct (Hhead Hne) as (y2 & tl2 & -> & Hy2).
  destruct (Hrest v' i' r) as (argsg & Emap & Hgo & Hck & Hlen & [f1 Hf1]).
  destruct (arg_step t a (y :: tl) (tk T_COMMA v i) ((y2 :: tl2) ++ tk T_RPAREN v' i' :: r) HA (or_introl eq_refl)) as (g & s' & Hnx & Hg & f0 & Hf0).
  exists ((a, g) :: argsg). split; [cbn [map fst]; rewrite Emap; reflexivity|]. split; [cbn [map snd grouped_ok]; rewrite Hg, Hgo; reflexivity|].
  split; [cbn [check_args]; unfold carg in Hc; destruct t; rewrite Hc, Hck; reflexivity|]. split; [cbn [length]; rewrite Hlen; reflexivity|].
  exists (S (Nat.max f0 f1)). intros f Hf. destruct f as [|f]; [lia|]. rewrite <- app_assoc. cbn [app]. cbn [app] in Hf0.
  rewrite (Hf0 f ltac:(lia) (fun _ s => POk [] s)). rewrite (nx_peek_ty _ _ _ Hnx). tys. cbn [pbind].
  destruct (nx_after_peek _ _ _ Hnx) as [c ->]. cbn [app]. strm. unfold ttype_eqb. rewrite (teqb_false _ _ Hy2). cbv iota. cbn [pbind]. strm.
  cbn [app strm] in Hf1. rewrite Hf1 by lia. reflexivity.
Qed.

Lemma ret_ok_carg want f d args : find_assoc f rg = Some d -> ret_ok want (f_ret d) = true -> carg want (ECall f args) = true.
Proof.
  intros Ef Hr. unfold carg, function_return_type. rewrite Ef. cbn [is_literal is_filter_query is_compound orb andb opt_ty_is].
  destruct want, (f_ret d); cbn in Hr |- *; try discriminate; reflexivity.
Qed.

Lemma case_tt_call want f d args t i v2 i2 : find_assoc f rg = Some d -> ret_ok want (f_ret d) = true -> P_ArgsT (f_args d) args t ->
  P_TT want (ECall f args) (tk T_FUNCTION f i :: t ++ [tk T_RPAREN v2 i2]).
Proof.
  intros Ef Hr [_ HA]. split; [eexists; eexists; split; [reflexivity | cbn [ty tk]; auto]|]. split; [reflexivity|].
  split; [eapply ret_ok_carg; eassumption|].
  split; [intros ->; unfold non_comparable, function_return_type; cbn [is_compound is_filter_query andb]; rewrite Ef; destruct (f_ret d); try discriminate; reflexivity|].
  split; [intros Hw; unfold value_function, function_return_type; rewrite Ef; cbn [opt_ty_is]; destruct want, (f_ret d); cbn in Hr |- *; try discriminate; try reflexivity; congruence|].
  intros p n r Hfol Hst. exists i.
  assert (Hprim : stab (fun f0 => p_primary cfg f0 (strm ((tk T_FUNCTION f i :: t ++ [tk T_RPAREN v2 i2]) ++ n :: r))) (ECall f args, i) (SS (tk T_RPAREN v2 i2) (n :: r))).
  { destruct (HA v2 i2 (n :: r)) as (argsg & Emap & Hgo & Hck & Hlen & [f0 Hf0]). exists (S (S f0)). intros f1 Hf1. destruct f1 as [|[|f1]]; try lia.
    cbn [app strm]. rewrite p_primary_S. tys. rewrite p_function_S. cbv zeta. rewrite <- app_assoc. cbn [app].
    destruct (rest_app_cons t (tk T_RPAREN v2 i2) (n :: r)) as (x & r' & Er). rewrite Er in *. strm. cbn [strm] in Hf0. rewrite Hf0 by lia. cbn [pbind cur SS tval tk tidx].
    rewrite Emap, Ef, Hlen, Nat.eqb_refl, Hck, Hgo. reflexivity. }
  assert (Hrp : ty (tk T_RPAREN v2 i2) <> T_EOF) by discriminate.
  destruct (fexpr_primary p (tk T_FUNCTION f i :: t ++ [tk T_RPAREN v2 i2]) (tk T_FUNCTION f i) (t ++ [tk T_RPAREN v2 i2]) n r _ i _ eq_refl eq_refl Hprim (nx_SS _ n r Hrp) Hst) as (s' & Hnx & Hs').
  exists s'. split; assumption.
Qed.

Lemma case_ct_test x t : P_TT TValue x t -> P_CT x t.
Proof.
  intros ((y & tl & -> & A) & _ & Hc & Hn & _ & H). split.
  { exists y, tl. split; [reflexivity|]. destruct A as [E | [E | E]]; rewrite E; repeat split; discriminate. }
  split; [apply Hn; reflexivity|]. split; [exact Hc|]. exact H.
Qed.

(* ================= logical expressions ================================================================================= *)
Lemma fol7_stops7 t : fol 7 t = true -> stopsZ 7 t = true.
Proof. destruct t; cbn; intros H; try discriminate; reflexivity. Qed.
Lemma fol7_not_cmp t : fol 7 t = true -> is_comparison_tok t = false.
Proof. destruct t; cbn; intros H; try discriminate; reflexivity. Qed.

Lemma case_et_test x t : P_TT TLogical x t -> P_ET 7 x t.
Proof.
  intros ((y & tl & -> & A) & Hl & Hc & _ & Hv & H). split.
  { exists y, tl. split; [reflexivity|]. destruct A as [E | [E | E]]; rewrite E; split; [reflexivity | discriminate | reflexivity | discriminate | reflexivity | discriminate]. }
  split; [exact Hl|]. split; [apply Hv; discriminate|]. split; [exact Hc|].
  intros p n r _ Hf Hs. apply H; [apply (fol_mono 7 8); [lia | exact Hf] | exact Hs].
Qed.

Lemma case_paren e t v1 i1 v2 i2 : P_ET 3 e t -> P_ET 7 e (tk T_LPAREN v1 i1 :: t ++ [tk T_RPAREN v2 i2]).
Proof.
  intros (_ & Hl & Hv & Hc & H). split; [eexists; eexists; split; [reflexivity | split; [reflexivity | discriminate]]|].
  split; [exact Hl|]. split; [exact Hv|]. split; [exact Hc|].
  intros p n r _ Hf Hs. destruct (H 1 (tk T_RPAREN v2 i2) (n :: r) ltac:(lia) eq_refl eq_refl) as (ie & s1 & Hnx & [f0 Hf0]).
  exists ie.
  assert (Hprim : stab (fun f => p_primary cfg f (strm ((tk T_LPAREN v1 i1 :: t ++ [tk T_RPAREN v2 i2]) ++ n :: r))) (e, ie) (SP (tk T_RPAREN v2 i2) n r)).
  { exists (S (S (S f0))). intros f Hf1. destruct f as [|[|[|f]]]; try lia. cbn [app strm]. rewrite p_primary_S. tys. rewrite p_grouped_S.
    rewrite <- app_assoc. cbn [app]. destruct (rest_app_cons t (tk T_RPAREN v2 i2) (n :: r)) as (x & r' & Er). rewrite Er in *. strm. cbn [strm] in Hf0.
    unfold PRECEDENCE_LOWEST. rewrite Hf0 by lia. cbn [pbind]. rewrite (nx_adv _ _ _ Hnx). rewrite p_grouped_loop_S. tys. cbn [pbind]. tys.
    cbn [fst snd]. rewrite Hl, Hv. strm. rewrite (fol7_not_cmp _ Hf). reflexivity. }
  assert (Hlp : in_token_map (ty (tk T_LPAREN v1 i1)) = true) by reflexivity.
  destruct (fexpr_primary p _ (tk T_LPAREN v1 i1) (t ++ [tk T_RPAREN v2 i2]) n r e ie _ eq_refl Hlp Hprim (nx_SP _ n r) Hs) as (s' & Hnx' & Hs').
  exists s'. split; assumption.
Qed.

Lemma case_not x t' y tl v0 i0 : t' = y :: tl -> (ty y = T_LPAREN \/ ty y = T_ROOT \/ ty y = T_CURRENT \/ ty y = T_FUNCTION) ->
  value_function cfg x = false ->
  (forall n r, fol 7 (ty n) = true -> exists i s', Nx n r s' /\ stab (fun f => p_fexpr cfg f 7 (strm (t' ++ n :: r))) (x, i) s') ->
  P_ET 7 (ENot x) (tk T_NOT v0 i0 :: t').
Proof.
  intros -> Hy Hv H. split; [eexists; eexists; split; [reflexivity | split; [reflexivity | discriminate]]|].
  split; [reflexivity|]. split; [reflexivity|]. split; [reflexivity|].
  intros p n r _ Hf Hs. destruct (H n r Hf) as (ix & s1 & Hnx & [f0 Hf0]). exists i0.
  assert (Hprim : stab (fun f => p_primary cfg f (strm ((tk T_NOT v0 i0 :: y :: tl) ++ n :: r))) (ENot x, i0) s1).
  { exists (S (S f0)). intros f Hf1. destruct f as [|[|f]]; try lia. cbn [app strm] in *. rewrite p_primary_S. tys. rewrite p_prefix_S. cbv zeta. strm.
    unfold cty. cbn [cur SS]. unfold PRECEDENCE_PREFIX.
    destruct Hy as [E | [E | [E | E]]]; rewrite E; cbv iota; rewrite Hf0 by lia; cbn [pbind fst snd]; rewrite Hv; reflexivity. }
  assert (Hnt : in_token_map (ty (tk T_NOT v0 i0)) = true) by reflexivity.
  destruct (fexpr_primary p _ (tk T_NOT v0 i0) (y :: tl) n r (ENot x) i0 _ eq_refl Hnt Hprim Hnx Hs) as (s' & Hnx' & Hs').
  exists s'. split; assumption.
Qed.

Lemma case_not_test x t v0 i0 : P_TT TLogical x t -> P_ET 7 (ENot x) (tk T_NOT v0 i0 :: t).
Proof.
  intros ((y & tl & -> & A) & _ & _ & _ & Hv & H). apply (case_not x (y :: tl) y tl v0 i0 eq_refl); [tauto | apply Hv; discriminate|].
  intros n r Hf. apply H; [apply (fol_mono 7 8); [lia | exact Hf] | apply fol7_stops7; exact Hf].
Qed.
Lemma case_not_paren x t v0 i0 v1 i1 v2 i2 : P_ET 3 x t -> P_ET 7 (ENot x) (tk T_NOT v0 i0 :: tk T_LPAREN v1 i1 :: t ++ [tk T_RPAREN v2 i2]).
Proof.
  intros H3. pose proof (case_paren x t v1 i1 v2 i2 H3) as (_ & _ & Hv & _ & H).
  apply (case_not x _ (tk T_LPAREN v1 i1) (t ++ [tk T_RPAREN v2 i2]) v0 i0 eq_refl); [left; reflexivity | exact Hv|].
  intros n r Hf. apply H; [lia | exact Hf | apply fol7_stops7; exact Hf].
Qed.

Lemma case_et_57 e t : P_ET 7 e t -> P_ET 5 e t.
Proof. intros (A & B & C & D & H). repeat split; try assumption. intros p n r Hp Hf Hs. apply H; [lia | apply (fol_mono 5 7); [lia | exact Hf] | exact Hs]. Qed.
Lemma case_et_45 e t : P_ET 5 e t -> P_ET 4 e t.
Proof. intros (A & B & C & D & H). repeat split; try assumption. intros p n r Hp Hf Hs. apply H; [lia | apply (fol_mono 4 5); [lia | exact Hf] | exact Hs]. Qed.
Lemma case_et_34 e t : P_ET 4 e t -> P_ET 3 e t.
Proof. intros (A & B & C & D & H). repeat split; try assumption. intros p n r Hp Hf Hs. apply H; [lia | apply (fol_mono 3 4); [lia | exact Hf] | exact Hs]. Qed.

(* one turn of the Pratt loop: the operator T, then its right operand, then the loop stops at n *)
Lemma loop_infix p T v i b lhs il trhs y tl n r rhs ir s1 s2 e :
  Nx (tk T v i) (trhs ++ n :: r) s1 -> trhs = y :: tl -> binary_operator T = Some b -> (precedence_of T <? p) = false ->
  stab (fun f => p_fexpr cfg f (precedence_of T) (strm (trhs ++ n :: r))) (rhs, ir) s2 -> Nx n r s2 -> stopsZ p (ty n) = true ->
  (forall s,
     match b with
     | BCmp o =>
         if is_ty T_LPAREN (strm (trhs ++ n :: r)) then PErr ESyntax ir else
         match non_comparable cfg lhs with
         | Some c => PErr c i
         | None => match non_comparable cfg rhs with Some c => PErr c i | None => POk (ECmp o lhs rhs, i) s end
         end
     | _ =>
         if is_literal lhs then PErr ESyntax il
         else if is_literal rhs then PErr ESyntax ir
         else if value_function cfg lhs then PErr EType il
         else if value_function cfg rhs then PErr EType ir
         else POk (match b with BAnd => EAnd lhs rhs | _ => EOr lhs rhs end, i) s
     end = POk (e, i) s) ->
  stab (fun f => p_fexpr_loop cfg f p (lhs, il) s1) (e, i) (after_peek s2).
Proof.
  intros Hnx1 -> Hb Hprec [f0 Hf0] Hnx2 Hs Hcomb. exists (S (S (S f0))). intros f Hf. destruct f as [|[|[|f]]]; try lia.
  rewrite floop_S. cbv zeta. rewrite (nx_peek_ty _ _ _ Hnx1). cbn [ty tk]. rewrite Hprec, Hb.
  assert (E1 : ttype_eqb T T_EOF = false) by (destruct T; try discriminate; reflexivity).
  assert (E2 : ttype_eqb T T_RBRACKET = false) by (destruct T; try discriminate; reflexivity).
  rewrite E1, E2. cbn [orb]. destruct (nx_after_peek _ _ _ Hnx1) as [c ->]. strm.
  assert (HT : ty (tk T v i) <> T_EOF) by (cbn [ty tk]; intros ->; discriminate).
  rewrite p_infix_S. cbv zeta. cbn [app] in *. rewrite !(adv_SS _ _ _ HT). cbn [cur SS ty tk tidx]. cbn [strm] in Hf0. rewrite Hf0 by lia. cbn [pbind fst snd]. rewrite Hb.
  specialize (Hcomb s2). cbn [strm] in Hcomb. destruct b; rewrite Hcomb; cbn [pbind]; apply (loop_stop _ p (e, i) s2 n r Hnx2 Hs).
Qed.

Lemma cmp_tok_facts o : binary_operator (cmp_tok o) = Some (BCmp o) /\ precedence_of (cmp_tok o) = 5 /\ fol 8 (cmp_tok o) = true /\ stopsZ 7 (cmp_tok o) = true.
Proof. destruct o; repeat split. Qed.
Lemma fol5_stops5 t : fol 5 t = true -> stopsZ 5 t = true.
Proof. destruct t; cbn; intros H; try discriminate; reflexivity. Qed.
Lemma fol4_stops4 t : fol 4 t = true -> stopsZ 4 t = true.
Proof. destruct t; cbn; intros H; try discriminate; reflexivity. Qed.
Lemma fol3_stops3 t : fol 3 t = true -> stopsZ 3 t = true.
Proof. destruct t; cbn; intros H; try discriminate; reflexivity. Qed.

Lemma case_et_cmp o a b ta v i tb : P_CT a ta -> P_CT b tb -> P_ET 5 (ECmp o a b) (ta ++ tk (cmp_tok o) v i :: tb).
Proof.
  intros ((ya & tla & -> & Ama & _ & Arp) & Ana & _ & Ha) ((yb & tlb & -> & Amb & Blp & Brp) & Bnb & _ & Hb).
  destruct (cmp_tok_facts o) as (Fb & Fp & Ff & Fs).
  split; [exists ya, (tla ++ tk (cmp_tok o) v i :: yb :: tlb); split; [reflexivity | split; assumption]|].
  split; [reflexivity|]. split; [reflexivity|]. split; [reflexivity|].
  intros p n r Hp Hf Hs.
  destruct (Ha 7 (tk (cmp_tok o) v i) ((yb :: tlb) ++ n :: r) Ff Fs) as (ia & s1 & Hnx1 & Hst1).
  destruct (Hb 5 n r (fol_mono 5 8 _ ltac:(lia) Hf) (fol5_stops5 _ Hf)) as (ib & s2 & Hnx2 & Hst2).
  exists i, (after_peek s2). split; [apply nx_after_peek_nx; exact Hnx2|].
  rewrite <- app_assoc. cbn [app].
  apply (fexpr_split p 7 _ (a, ia) s1); [lia | apply J_strm | exact Hst1|].
  apply (loop_infix p (cmp_tok o) v i (BCmp o) a ia (yb :: tlb) yb tlb n r b ib s1 s2 (ECmp o a b)); try assumption; try reflexivity.
  - rewrite Fp. apply Z.ltb_ge. lia.
  - rewrite Fp. exact Hst2.
  - intros s. cbn [app strm]. unfold is_ty, cty. cbn [cur SS]. rewrite (teqb_ne _ _ Blp), Ana, Bnb. reflexivity.
Qed.

Lemma case_et_and x y tx v i ty0 : P_ET 5 x tx -> P_ET 4 y ty0 -> P_ET 4 (EAnd x y) (tx ++ tk T_AND v i :: ty0).
Proof.
  intros ((yx & tlx & -> & Amx & Arx) & Alx & Avx & _ & Hx) ((yy & tly & -> & Amy & Ary) & Aly & Avy & _ & Hy).
  split; [exists yx, (tlx ++ tk T_AND v i :: yy :: tly); split; [reflexivity | split; assumption]|].
  split; [reflexivity|]. split; [reflexivity|]. split; [reflexivity|].
  intros p n r Hp Hf Hs.
  destruct (Hx 5 (tk T_AND v i) ((yy :: tly) ++ n :: r) ltac:(lia) eq_refl eq_refl) as (ia & s1 & Hnx1 & Hst1).
  destruct (Hy 4 n r ltac:(lia) Hf (fol4_stops4 _ Hf)) as (ib & s2 & Hnx2 & Hst2).
  exists i, (after_peek s2). split; [apply nx_after_peek_nx; exact Hnx2|].
  rewrite <- app_assoc. cbn [app].
  apply (fexpr_split p 5 _ (x, ia) s1); [lia | apply J_strm | exact Hst1|].
  apply (loop_infix p T_AND v i BAnd x ia (yy :: tly) yy tly n r y ib s1 s2 (EAnd x y)); try assumption; try reflexivity.
  - apply Z.ltb_ge. cbn. lia.
  - intros s. rewrite Alx, Aly, Avx, Avy. reflexivity.
Qed.
Lemma case_et_or x y tx v i ty0 : P_ET 4 x tx -> P_ET 3 y ty0 -> P_ET 3 (EOr x y) (tx ++ tk T_OR v i :: ty0).
Proof.
  intros ((yx & tlx & -> & Amx & Arx) & Alx & Avx & _ & Hx) ((yy & tly & -> & Amy & Ary) & Aly & Avy & _ & Hy).
  split; [exists yx, (tlx ++ tk T_OR v i :: yy :: tly); split; [reflexivity | split; assumption]|].
  split; [reflexivity|]. split; [reflexivity|]. split; [reflexivity|].
  intros p n r Hp Hf Hs.
  destruct (Hx 4 (tk T_OR v i) ((yy :: tly) ++ n :: r) ltac:(lia) eq_refl eq_refl) as (ia & s1 & Hnx1 & Hst1).
  destruct (Hy 3 n r ltac:(lia) Hf (fol3_stops3 _ Hf)) as (ib & s2 & Hnx2 & Hst2).
  exists i, (after_peek s2). split; [apply nx_after_peek_nx; exact Hnx2|].
  rewrite <- app_assoc. cbn [app].
  apply (fexpr_split p 4 _ (x, ia) s1); [lia | apply J_strm | exact Hst1|].
  apply (loop_infix p T_OR v i BOr x ia (yy :: tly) yy tly n r y ib s1 s2 (EOr x y)); try assumption; try reflexivity.
  - apply Z.ltb_ge. cbn. lia.
  - intros s. rewrite Alx, Aly, Avx, Avy. reflexivity.
Qed.

Lemma case_st_filter e t v i : P_ET 3 e t -> P_SelT (SFilter e) (tk T_FILTER v i :: t).
Proof.
  intros (_ & Hl & Hv & _ & H). split; [eexists; eexists; split; [reflexivity | split; discriminate]|].
  intros n r Hn. assert (Hf : fol 3 (ty n) = true /\ stopsZ 1 (ty n) = true) by (destruct Hn as [E | E]; rewrite E; split; reflexivity).
  destruct (H 1 n r ltac:(lia) (proj1 Hf) (proj2 Hf)) as (ie & s1 & Hnx & [f0 Hf0]). exists s1. split; [exact Hnx|].
  exists (S f0). intros f Hf1. destruct f as [|f]; [lia|]. cbn [app strm]. rewrite pbl_unfold. tys. rewrite p_filter_selector_S. cbv zeta.
  destruct (rest_app_cons t n r) as (x & r' & Er). rewrite Er in *. strm. cbn [strm] in Hf0. unfold PRECEDENCE_LOWEST. rewrite Hf0 by lia. cbn [pbind].
  rewrite Hv, Hl. reflexivity.
Qed.

(* ================= all productions together ============================================================================ *)
Theorem grammar_parses :
  (forall q t, QT q t -> P_QT q t) /\ (forall g t, SegT g t -> P_SegT g t) /\ (forall ss t, SelsT ss t -> P_SelsT ss t) /\
  (forall s t, SelT s t -> P_SelT s t) /\ (forall k e t, ET k e t -> P_ET k e t) /\ (forall e t, CT e t -> P_CT e t) /\
  (forall w e t, TT w e t -> P_TT w e t) /\ (forall tys args t, ArgsT tys args t -> P_ArgsT tys args t) /\
  (forall ty a t, ArgT ty a t -> P_ArgT ty a t).
Proof.
  apply grammar_mutind.
  - exact case_qt_nil.
  - intros g tg q tq _ Hg _ Hq. apply case_qt_cons; assumption.
  - exact case_sg_prop.
  - exact case_sg_wild.
  - intros ss t v1 i1 v2 i2 _ H. apply case_sg_br; exact H.
  - exact case_sg_dprop.
  - exact case_sg_dwild.
  - intros ss t v0 i0 v1 i1 v2 i2 _ H. apply case_sg_dbr; exact H.
  - intros s t _ H. apply case_ss_one; exact H.
  - intros s t v i rest trest _ H _ Hr. apply case_ss_cons; assumption.
  - exact case_name.
  - exact case_index.
  - exact case_slice.
  - exact case_wild.
  - intros e t v i _ H. apply case_st_filter; exact H.
  - intros x y tx v i ty0 _ Hx _ Hy. apply case_et_or; assumption.
  - intros e t _ H. apply case_et_34; exact H.
  - intros x y tx v i ty0 _ Hx _ Hy. apply case_et_and; assumption.
  - intros e t _ H. apply case_et_45; exact H.
  - intros o a b ta v i tb _ Ha _ Hb. apply case_et_cmp; assumption.
  - intros e t _ H. apply case_et_57; exact H.
  - intros e t v1 i1 v2 i2 _ H. apply case_paren; exact H.
  - intros x t v0 i0 v1 i1 v2 i2 _ H. apply case_not_paren; exact H.
  - intros x t v0 i0 _ H. apply case_not_test; exact H.
  - intros x t _ H. apply case_et_test; exact H.
  - exact case_ct_lit.
  - intros x t _ H. apply case_ct_test; exact H.
  - intros want q t v i _ Hq Hs. apply (case_tt_query true want q t v i Hq Hs).
  - intros want q t v i _ Hq Hs. apply (case_tt_query false want q t v i Hq Hs).
  - intros want f d args t i v2 i2 Ef Hr _ HA. eapply case_tt_call; eassumption.
  - exact case_as_nil.
  - intros t a ta _ H. apply case_as_one; exact H.
  - intros t a ta v i tys args targs _ Ha _ Hr Hne. apply case_as_cons; assumption.
  - intros a t _ H. apply case_ar_value; exact H.
  - intros a t _ H. apply case_ar_nodes; exact H.
  - intros a t _ H. apply case_ar_logical; exact H.
Qed.

(* Parser.parse on ROOT, the tokens of a query, EOF *)
Theorem parse_complete q t v0 i0 v1 i1 : QT q t ->
  exists s, p_parse cfg (tk T_ROOT v0 i0 :: t ++ [tk T_EOF v1 i1]) = POk q s.
Proof.
  intros H. destruct grammar_parses as (Hq & _). specialize (Hq q t H false (tk T_EOF v1 i1) [] eq_refl). destruct Hq as [f0 Hf0].
  pose proof (parse_terminates cfg (tk T_ROOT v0 i0 :: t ++ [tk T_EOF v1 i1])) as Hterm.
  unfold p_parse in *. cbv zeta in *. cbn [stream_init] in *. change {| cur := tk T_ROOT v0 i0; pushed := []; rest := t ++ [tk T_EOF v1 i1] |} with (SS (tk T_ROOT v0 i0) (t ++ [tk T_EOF v1 i1])) in *.
  revert Hterm. tys. destruct (rest_app_cons t (tk T_EOF v1 i1) []) as (x & r' & Er). rewrite Er in *. strm. cbn [strm] in Hf0. intros Hterm.
  set (F := parse_fuel (tk T_ROOT v0 i0 :: x :: r')) in *.
  assert (E : p_query cfg F false (SS x r') = POk q (SS (tk T_EOF v1 i1) [])).
  { pose proof (mono_le (fun f => p_query cfg f false (SS x r')) (mono_query false (SS x r')) F (Nat.max F f0) ltac:(lia)) as Hm. cbv beta in Hm.
    rewrite (Hf0 (Nat.max F f0)) in Hm by lia. symmetry. apply Hm. intros Eq. rewrite Eq in Hterm. apply Hterm. reflexivity. }
  rewrite E. cbn [pbind]. tys. eexists. reflexivity.
Qed.
End PC.
