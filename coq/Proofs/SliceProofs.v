(* C07: CPython slice/index arithmetic (Model/Slice.v) = RFC 9535 procedure (Spec/Slice.v) *)
From JP Require Import Base.Json Model.Slice Spec.Slice.
From Coq Require Import ZifyBool.

Lemma range_len_nonneg lo hi step : step <> 0 -> 0 <= py_range_len lo hi step.
Proof.
  intros Hs. unfold py_range_len.
  destruct (0 <? step) eqn:E1.
  - destruct (lo <? hi) eqn:E2; [|lia].
    assert (0 <= (hi - lo - 1) / step) by (apply Z.div_pos; lia). lia.
  - destruct (hi <? lo) eqn:E2; [|lia].
    assert (0 <= (lo - hi - 1) / (- step)) by (apply Z.div_pos; lia). lia.
Qed.

Lemma range_len_up_step lo hi step :
  0 < step -> lo < hi -> py_range_len lo hi step = 1 + py_range_len (lo + step) hi step.
Proof.
  intros Hs Hl. unfold py_range_len.
  assert (E1 : (0 <? step) = true) by lia. rewrite E1.
  assert (E2 : (lo <? hi) = true) by lia. rewrite E2.
  destruct (lo + step <? hi) eqn:E3.
  - replace (hi - lo - 1) with ((hi - (lo + step) - 1) + 1 * step) by lia.
    rewrite Z.div_add by lia. lia.
  - rewrite Z.div_small by lia. lia.
Qed.

Lemma range_len_down_step lo hi step :
  step < 0 -> hi < lo -> py_range_len lo hi step = 1 + py_range_len (lo + step) hi step.
Proof.
  intros Hs Hl. unfold py_range_len.
  assert (E1 : (0 <? step) = false) by lia. rewrite E1.
  assert (E2 : (hi <? lo) = true) by lia. rewrite E2.
  destruct (hi <? lo + step) eqn:E3.
  - replace (lo - hi - 1) with ((lo + step - hi - 1) + 1 * (- step)) by lia.
    rewrite Z.div_add by lia. lia.
  - rewrite Z.div_small by lia. lia.
Qed.

Lemma py_range_cons lo hi step :
  step <> 0 -> py_range_len lo hi step = 1 + py_range_len (lo + step) hi step ->
  py_range lo hi step = lo :: py_range (lo + step) hi step.
Proof.
  intros Hs E. unfold py_range. rewrite E.
  pose proof (range_len_nonneg (lo + step) hi step Hs) as Hn.
  replace (Z.to_nat (1 + py_range_len (lo + step) hi step))
    with (S (Z.to_nat (py_range_len (lo + step) hi step))) by lia.
  cbn [seq map]. f_equal; [lia|].
  rewrite <- seq_shift, map_map. apply map_ext. intros k. lia.
Qed.

Lemma py_range_nil lo hi step : py_range_len lo hi step = 0 -> py_range lo hi step = [].
Proof. intros E. unfold py_range. rewrite E. reflexivity. Qed.

Lemma loop_up_range fuel : forall i upper step,
  0 < step -> py_range_len i upper step <= Z.of_nat fuel ->
  loop_up fuel i upper step = py_range i upper step.
Proof.
  induction fuel as [|f IH]; intros i upper step Hs Hf; cbn [loop_up].
  - symmetry. apply py_range_nil. pose proof (range_len_nonneg i upper step). lia.
  - destruct (i <? upper) eqn:E.
    + assert (Hl : i < upper) by lia.
      pose proof (range_len_up_step i upper step Hs Hl) as Hr.
      rewrite (py_range_cons i upper step) by lia. f_equal. apply IH; lia.
    + symmetry. apply py_range_nil. unfold py_range_len.
      assert (E1 : (0 <? step) = true) by lia. rewrite E1, E. reflexivity.
Qed.

Lemma loop_down_range fuel : forall i lower step,
  step < 0 -> py_range_len i lower step <= Z.of_nat fuel ->
  loop_down fuel i lower step = py_range i lower step.
Proof.
  induction fuel as [|f IH]; intros i lower step Hs Hf; cbn [loop_down].
  - symmetry. apply py_range_nil. pose proof (range_len_nonneg i lower step). lia.
  - destruct (lower <? i) eqn:E.
    + assert (Hl : lower < i) by lia.
      pose proof (range_len_down_step i lower step Hs Hl) as Hr.
      rewrite (py_range_cons i lower step) by lia. f_equal. apply IH; lia.
    + symmetry. apply py_range_nil. unfold py_range_len.
      assert (E1 : (0 <? step) = false) by lia. rewrite E1, E. reflexivity.
Qed.

(* every index a loop selects lies between the bounds *)
Lemma loop_up_bounds fuel : forall i upper step, 0 < step ->
  Forall (fun j => i <= j < upper) (loop_up fuel i upper step).
Proof.
  induction fuel as [|f IH]; intros i upper step Hs; cbn [loop_up]; [constructor|].
  destruct (i <? upper) eqn:E; [|constructor].
  constructor; [lia|]. eapply Forall_impl; [|apply IH; exact Hs]. cbn. intros; lia.
Qed.
Lemma loop_down_bounds fuel : forall i lower step, step < 0 ->
  Forall (fun j => lower < j <= i) (loop_down fuel i lower step).
Proof.
  induction fuel as [|f IH]; intros i lower step Hs; cbn [loop_down]; [constructor|].
  destruct (lower <? i) eqn:E; [|constructor].
  constructor; [lia|]. eapply Forall_impl; [|apply IH; exact Hs]. cbn. intros; lia.
Qed.

Lemma range_len_le_up lo hi step : 0 < step -> 0 <= lo -> py_range_len lo hi step <= Z.max 0 (hi - lo).
Proof.
  intros Hs Hl. unfold py_range_len. assert (E1 : (0 <? step) = true) by lia. rewrite E1.
  destruct (lo <? hi) eqn:E; [|lia].
  assert ((hi - lo - 1) / step <= hi - lo - 1).
  { apply Z.div_le_upper_bound; [lia|]. nia. }
  lia.
Qed.
Lemma range_len_le_down lo hi step : step < 0 -> py_range_len lo hi step <= Z.max 0 (lo - hi).
Proof.
  intros Hs. unfold py_range_len. assert (E1 : (0 <? step) = false) by lia. rewrite E1.
  destruct (hi <? lo) eqn:E; [|lia].
  assert ((lo - hi - 1) / (- step) <= lo - hi - 1).
  { apply Z.div_le_upper_bound; [lia|]. nia. }
  lia.
Qed.

Definition opt_default (d : Z) (o : option Z) : Z := match o with Some x => x | None => d end.

(* slice.indices agrees with Bounds (with the RFC's defaults) *)
Lemma indices_bounds_up len s e step :
  0 <= len -> 0 < step ->
  py_slice_indices len s e (Some step)
  = (fst (bounds (opt_default 0 s) (opt_default len e) step len),
     snd (bounds (opt_default 0 s) (opt_default len e) step len), step).
Proof.
  intros Hl Hs. unfold py_slice_indices, bounds, normalize.
  assert (E1 : (step <? 0) = false) by lia. assert (E2 : (0 <=? step) = true) by lia.
  rewrite E1, E2. cbn [fst snd].
  destruct s as [s|], e as [e|]; cbn [opt_default];
    repeat match goal with |- context [if ?b then _ else _] => destruct b eqn:? end;
    f_equal; try f_equal; lia.
Qed.

Lemma indices_bounds_down len s e step :
  0 <= len -> step < 0 ->
  py_slice_indices len s e (Some step)
  = (snd (bounds (opt_default (len - 1) s) (opt_default (- len - 1) e) step len),
     fst (bounds (opt_default (len - 1) s) (opt_default (- len - 1) e) step len), step).
Proof.
  intros Hl Hs. unfold py_slice_indices, bounds, normalize.
  assert (E1 : (step <? 0) = true) by lia. assert (E2 : (0 <=? step) = false) by lia.
  rewrite E1, E2. cbn [fst snd].
  destruct s as [s|], e as [e|]; cbn [opt_default];
    repeat match goal with |- context [if ?b then _ else _] => destruct b eqn:? end;
    f_equal; try f_equal; lia.
Qed.

Lemma bounds_range_up start end_ step len : 0 <= len -> 0 < step ->
  0 <= fst (bounds start end_ step len) /\ snd (bounds start end_ step len) <= len.
Proof. intros. unfold bounds. assert (E : (0 <=? step) = true) by lia. rewrite E. cbn. lia. Qed.
Lemma bounds_range_down start end_ step len : 0 <= len -> step < 0 ->
  -1 <= fst (bounds start end_ step len) /\ snd (bounds start end_ step len) <= len - 1.
Proof. intros. unfold bounds. assert (E : (0 <=? step) = false) by lia. rewrite E. cbn. lia. Qed.

(* the model's index list is the RFC's, for every fuel >= slice_fuel *)
Lemma slice_indices_agree fuel len s e t :
  0 <= len -> (slice_fuel len <= fuel)%nat -> t <> Some 0 ->
  (let '(lo, hi, st) := py_slice_indices len s e t in py_range lo hi st) = rfc_slice_fuel fuel len s e t.
Proof.
  intros Hl Hf Ht. unfold rfc_slice_fuel, slice_fuel in *.
  set (step := match t with Some x => x | None => 1 end).
  assert (Hstep : step <> 0) by (destruct t as [x|]; subst step; [intros ->; apply Ht; reflexivity | lia]).
  assert (Et : py_slice_indices len s e t = py_slice_indices len s e (Some step))
    by (destruct t; reflexivity).
  rewrite Et. assert (E0 : (step =? 0) = false) by lia. rewrite E0.
  destruct (0 <? step) eqn:Epos.
  - assert (E2 : (0 <=? step) = true) by lia. rewrite E2.
    rewrite indices_bounds_up by lia.
    replace (match s with Some x => x | None => 0 end) with (opt_default 0 s) by reflexivity.
    replace (match e with Some x => x | None => len end) with (opt_default len e) by reflexivity.
    destruct (bounds (opt_default 0 s) (opt_default len e) step len) as [lower upper] eqn:Eb. cbn [fst snd].
    symmetry. apply loop_up_range; [lia|].
    pose proof (bounds_range_up (opt_default 0 s) (opt_default len e) step len Hl ltac:(lia)) as Hb.
    rewrite Eb in Hb. cbn [fst snd] in Hb.
    pose proof (range_len_le_up lower upper step ltac:(lia) ltac:(lia)). lia.
  - assert (E2 : (0 <=? step) = false) by lia. rewrite E2.
    rewrite indices_bounds_down by lia.
    replace (match s with Some x => x | None => len - 1 end) with (opt_default (len - 1) s) by reflexivity.
    replace (match e with Some x => x | None => - len - 1 end) with (opt_default (- len - 1) e) by reflexivity.
    destruct (bounds (opt_default (len - 1) s) (opt_default (- len - 1) e) step len) as [lower upper] eqn:Eb. cbn [fst snd].
    symmetry. apply loop_down_range; [lia|].
    pose proof (bounds_range_down (opt_default (len - 1) s) (opt_default (- len - 1) e) step len Hl ltac:(lia)) as Hb.
    rewrite Eb in Hb. cbn [fst snd] in Hb.
    pose proof (range_len_le_down upper lower step ltac:(lia)). lia.
Qed.

Lemma rfc_slice_in_range fuel len s e t : 0 <= len ->
  Forall (fun i => 0 <= i < len) (rfc_slice_fuel fuel len s e t).
Proof.
  intros Hl. unfold rfc_slice_fuel.
  set (step := match t with Some x => x | None => 1 end).
  destruct (step =? 0) eqn:E0; [constructor|].
  match goal with |- context [bounds ?a ?b step len] => destruct (bounds a b step len) as [lower upper] eqn:Eb;
    pose proof (bounds_range_up a b step len Hl) as Hup; pose proof (bounds_range_down a b step len Hl) as Hdn end.
  rewrite Eb in Hup, Hdn. cbn [fst snd] in Hup, Hdn.
  destruct (0 <? step) eqn:Epos.
  - eapply Forall_impl; [|apply loop_up_bounds; lia]. cbn. intros. lia.
  - eapply Forall_impl; [|apply loop_down_bounds; lia]. cbn. intros. lia.
Qed.

(* more fuel than slice_fuel never changes the RFC result *)
Lemma rfc_slice_fuel_irrelevant fuel len s e t : 0 <= len -> (slice_fuel len <= fuel)%nat ->
  rfc_slice_fuel fuel len s e t = rfc_slice len s e t.
Proof.
  intros Hl Hf. unfold rfc_slice.
  destruct (match t with Some 0 => true | _ => false end) eqn:Et.
  - destruct t as [[| |]|]; try discriminate. reflexivity.
  - assert (t <> Some 0) by (intros ->; discriminate).
    rewrite <- (slice_indices_agree fuel) by assumption.
    rewrite <- (slice_indices_agree (slice_fuel len)) by (auto; lia). reflexivity.
Qed.

Lemma combine_flat_map (l : list json) idxs :
  Forall (fun i => 0 <= i < zlen l) idxs ->
  combine idxs (flat_map (fun i => match znth l i with Some x => [x] | None => [] end) idxs)
  = flat_map (fun i => match znth l i with Some x => [(i, x)] | None => [] end) idxs.
Proof.
  induction 1 as [|i idxs Hi _ IH]; [reflexivity|]. cbn [flat_map].
  destruct (znth_in_range l i Hi) as [x Hx]. rewrite Hx. cbn. f_equal. exact IH.
Qed.

Definition select_at (l : list json) (idxs : list Z) : list (Z * json) :=
  flat_map (fun i => match znth l i with Some x => [(i, x)] | None => [] end) idxs.

Theorem slice_model_is_rfc (l : list json) s e t :
  m_slice_select l s e t = select_at l (rfc_slice (zlen l) s e t)
  /\ Forall (fun i => 0 <= i < zlen l) (rfc_slice (zlen l) s e t).
Proof.
  assert (Hl : 0 <= zlen l) by (unfold zlen; lia).
  split; [|apply rfc_slice_in_range; exact Hl].
  unfold m_slice_select.
  destruct (match t with Some 0 => true | _ => false end) eqn:Et.
  - destruct t as [[| |]|]; try discriminate. reflexivity.
  - assert (Ht : t <> Some 0) by (intros ->; discriminate).
    pose proof (slice_indices_agree (slice_fuel (zlen l)) (zlen l) s e t Hl (le_n _) Ht) as Hag.
    fold (rfc_slice (zlen l) s e t) in Hag.
    pose proof (rfc_slice_in_range (slice_fuel (zlen l)) (zlen l) s e t Hl) as Hr.
    fold (rfc_slice (zlen l) s e t) in Hr.
    destruct (py_slice_indices (zlen l) s e t) as [[lo hi] st].
    replace (match t with Some 0 => [] | _ => combine (py_range lo hi st)
       (flat_map (fun i => match znth l i with Some x => [x] | None => [] end) (py_range lo hi st)) end)
      with (combine (py_range lo hi st)
       (flat_map (fun i => match znth l i with Some x => [x] | None => [] end) (py_range lo hi st))).
    2:{ destruct t as [[| |]|]; try reflexivity. discriminate. }
    rewrite Hag. apply combine_flat_map. exact Hr.
Qed.

Theorem index_model_is_rfc (l : list json) i :
  m_index_select l i = select_at l (rfc_index (zlen l) i).
Proof.
  assert (Hl : 0 <= zlen l) by (unfold zlen; lia).
  unfold m_index_select, rfc_index, py_list_getitem, m_normalized_index, normalize, select_at.
  destruct (0 <=? i) eqn:E1.
  - assert (E2 : (i <? 0) = false) by lia. rewrite E2, ?E1. cbn [andb].
    destruct (i <? zlen l) eqn:E3; cbn [andb flat_map].
    + destruct (znth_in_range l i ltac:(lia)) as [x Hx]. rewrite Hx. reflexivity.
    + rewrite znth_out_of_range by lia. reflexivity.
  - assert (E2 : (i <? 0) = true) by lia. rewrite E2. cbn [andb].
    destruct (0 <=? zlen l + i) eqn:E3.
    + assert (E4 : (zlen l + i <? zlen l) = true) by lia. rewrite E4. cbn [andb flat_map].
      replace (i + zlen l) with (zlen l + i) by lia.
      destruct (znth_in_range l (zlen l + i) ltac:(lia)) as [x Hx]. rewrite Hx.
      assert (E5 : (Z.abs i <=? zlen l) = true) by lia. rewrite E5. reflexivity.
    + cbn [andb flat_map]. rewrite znth_out_of_range by lia. reflexivity.
Qed.

(* locations are non-negative positions inside the array *)
Corollary slice_locations_nonneg l s e t : Forall (fun p => 0 <= fst p < zlen l) (m_slice_select l s e t).
Proof.
  destruct (slice_model_is_rfc l s e t) as [-> Hr]. unfold select_at.
  induction Hr as [|i idxs Hi _ IH]; [constructor|]. cbn [flat_map].
  destruct (znth l i); [constructor; [exact Hi|exact IH] | exact IH].
Qed.
Corollary index_locations_nonneg l i : Forall (fun p => 0 <= fst p < zlen l) (m_index_select l i).
Proof.
  rewrite index_model_is_rfc. unfold rfc_index, select_at.
  destruct ((0 <=? normalize i (zlen l)) && (normalize i (zlen l) <? zlen l)) eqn:E; [|constructor].
  cbn [flat_map]. destruct (znth l (normalize i (zlen l))); constructor; [cbn; lia|constructor].
Qed.
