(* C19: Token.position computes the line and column of its offset in the query text. *)
From JP Require Import Base.Prelude Model.Position Spec.Position.
From Coq Require Import ZifyBool.

Lemma count_lf_spec : forall s (n : nat), count_lf s (Z.of_nat n) = Z.of_nat (length (filter is_lf (firstn n s))).
Proof.
  induction s as [|c s IH]; intros n; cbn [count_lf]; [destruct n; reflexivity|].
  destruct n as [|n].
  - reflexivity.
  - assert (E : (Z.of_nat (S n) <=? 0) = false) by lia. rewrite E.
    replace (Z.of_nat (S n) - 1) with (Z.of_nat n) by lia. rewrite IH. cbn [firstn filter]. unfold is_lf at 2.
    destruct (N.eqb c 10); cbn [length]; lia.
Qed.

(* generalized invariant of the rfind scan: pos - last - 1 characters since the last LF seen *)
Lemma rfind_spec : forall s (n : nat) pos last acc,
  acc = pos - last - 1 -> 0 <= acc ->
  (pos + Z.of_nat n) - rfind_lf_from s pos (pos + Z.of_nat n) last - 1 = since_last_lf (firstn n s) acc
  \/ (length s < n)%nat.
Proof.
  induction s as [|c s IH]; intros n pos last acc Hacc Hpos.
  - destruct n; [left; cbn; lia | right; cbn; lia].
  - destruct n as [|n].
    + left. cbn [rfind_lf_from firstn since_last_lf]. assert (E : (pos + Z.of_nat 0 <=? pos) = true) by lia. rewrite E. lia.
    + cbn [rfind_lf_from firstn since_last_lf]. assert (E : (pos + Z.of_nat (S n) <=? pos) = false) by lia. rewrite E.
      replace (pos + Z.of_nat (S n)) with ((pos + 1) + Z.of_nat n) by lia.
      unfold is_lf. destruct (N.eqb c 10).
      * destruct (IH n (pos + 1) pos 0) as [H|H]; [lia | lia | left; exact H | right; cbn; lia].
      * destruct (IH n (pos + 1) last (acc + 1)) as [H|H]; [lia | lia | left; exact H | right; cbn; lia].
Qed.

Theorem position_is_line_col : forall (query : str) (off : nat), (off <= length query)%nat ->
  m_position query (Z.of_nat off) = (line_of query off, col_of query off).
Proof.
  intros q off Hle. unfold m_position, line_of, col_of, rfind_lf. rewrite count_lf_spec. f_equal; [lia|].
  destruct (rfind_spec q off 0 (-1) 0 ltac:(lia) ltac:(lia)) as [H|H]; [|lia].
  cbn [Z.add] in H. exact H.
Qed.
