(* The enumeration nd_results of Spec/NondetQ.v (what the C17 check compares the implementation's complete outcome sets with) lists exactly the
   nodelists the relation nd_permitted (what the theorems are about) holds of. *)
From JP Require Import Base.Json Model.Ast Model.NdVisit Spec.Sem Spec.Types Spec.Nondet Spec.NondetQ.
From JP Require Import Proofs.AstInd Proofs.EvalProofs Proofs.FilterProofs Proofs.NdSpec Proofs.NdSim Proofs.NdExh Proofs.NdReloc Proofs.NdQuery.
From Coq Require Import Permutation Lia.

(* ---- all permutations ---- *)
Lemma nth_split_perm {A} : forall (l : list A) i x, nth_error l i = Some x -> Permutation l (x :: firstn i l ++ skipn (S i) l).
Proof.
  induction l as [|y l IH]; intros [|i] x H; cbn in *; try discriminate.
  - inversion H. apply Permutation_refl.
  - eapply perm_trans; [apply perm_skip; apply (IH i x H) | apply perm_swap].
Qed.
Lemma nth_split_len {A} : forall (l : list A) i x, nth_error l i = Some x -> length (firstn i l ++ skipn (S i) l) = pred (length l).
Proof. intros l i x H. pose proof (Permutation_length (nth_split_perm l i x H)) as E. cbn [length] in E. lia. Qed.

Lemma all_perms_sound {A} : forall f (l p : list A), In p (all_perms f l) -> (length l <= f)%nat -> Permutation p l.
Proof.
  induction f as [|f IH]; intros l p H Hl.
  - destruct l; [|cbn in Hl; lia]. destruct H as [<- | []]. constructor.
  - cbn [all_perms] in H. destruct l as [|y l']; [destruct H as [<- | []]; constructor|]. set (l := y :: l') in *.
    apply in_flat_map in H as (i & _ & H). destruct (nth_error l i) as [x|] eqn:E; [|contradiction]. apply in_map_iff in H as (p' & <- & Hp').
    apply IH in Hp'; [|rewrite (nth_split_len l i x E); lia]. apply Permutation_sym. eapply perm_trans; [apply (nth_split_perm l i x E) | apply perm_skip; apply Permutation_sym; exact Hp'].
Qed.
Lemma all_perms_complete {A} : forall f (p l : list A), Permutation p l -> (length l <= f)%nat -> In p (all_perms f l).
Proof.
  induction f as [|f IH]; intros p l Hp Hl.
  - destruct l; [|cbn in Hl; lia]. apply Permutation_sym, Permutation_nil in Hp. subst. left. reflexivity.
  - destruct l as [|y l']; [apply Permutation_sym, Permutation_nil in Hp; subst; cbn; left; reflexivity|]. set (l := y :: l') in *. cbn [all_perms]. fold l.
    destruct p as [|x p']; [apply Permutation_nil in Hp; discriminate|].
    assert (Hx : In x l) by (eapply Permutation_in; [exact Hp | left; reflexivity]). apply In_nth_error in Hx as (i & E).
    assert (Hi : (i < length l)%nat) by (apply nth_error_Some; rewrite E; discriminate).
    change (match l with [] => [[]] | _ => flat_map (fun i => match nth_error l i with Some x => map (cons x) (all_perms f (firstn i l ++ skipn (S i) l)) | None => [] end) (seq 0 (length l)) end)
      with (flat_map (fun i => match nth_error l i with Some x => map (cons x) (all_perms f (firstn i l ++ skipn (S i) l)) | None => [] end) (seq 0 (length l))).
    apply in_flat_map. exists i. split; [apply in_seq; lia|]. rewrite E. apply in_map. apply IH; [|rewrite (nth_split_len l i x E); cbn [length] in Hl |- *; lia].
    apply Permutation_cons_inv with (a := x). eapply perm_trans; [exact Hp | apply (nth_split_perm l i x E)].
Qed.

Lemma kid_orders_spec n cs : In cs (kid_orders n) <-> kids_order n cs.
Proof.
  unfold kid_orders, kids_order. destruct (snd n); try (split; [intros [<- | []]; reflexivity | intros ->; left; reflexivity]).
  split; [intros H; apply (all_perms_sound _ _ _ H (le_n _)) | intros H; apply all_perms_complete; [exact H | apply le_n]].
Qed.

(* ---- one choice from each set ---- *)
Lemma cat_choices_spec {A} (P : A -> list node -> Prop) (E : A -> list (list node)) :
  (forall x r1, P x r1 <-> In r1 (E x)) -> forall xs r, nd_each P xs r <-> In r (cat_choices (map E xs)).
Proof.
  intros HE. induction xs as [|x xs IH]; intros r; cbn [map cat_choices].
  - split; [intros H; inversion H; left; reflexivity | intros [<- | []]; constructor].
  - split.
    + intros H. inversion H; subst. apply in_flat_map. exists r1. split; [apply HE; assumption|]. apply in_map. apply IH. assumption.
    + intros H. apply in_flat_map in H as (r1 & H1 & H2). apply in_map_iff in H2 as (r2 & <- & H2). constructor; [apply HE; exact H1 | apply IH; exact H2].
Qed.

(* ---- the enumeration of visiting orders lists exactly the runs of the frontier relation ---- *)
Lemma ne_cons_opt {A} (q : list A) (l : list (list A)) : ne ((match q with [] => [] | _ => [q] end) ++ l) = ne (q :: l).
Proof. destruct q; reflexivity. Qed.
Lemma ne_perm {A} (a b : list (list A)) : Permutation a b -> Permutation (ne a) (ne b).
Proof. apply Permutation_filter. Qed.

Lemma picks_sound {A} : forall (qs pre : list (list A)) x qs', In (x, qs') (picks pre qs) ->
  exists q r, Permutation (rev pre ++ qs) ((x :: q) :: r) /\ Permutation (ne qs') (ne (q :: r)).
Proof.
  induction qs as [|q0 qs IH]; intros pre x qs' H; [contradiction|]. destruct q0 as [|x0 q0]; cbn [picks] in H.
  - destruct (IH pre x qs' H) as (q & r & P1 & P2). exists q, ([] :: r). split.
    + eapply perm_trans; [apply Permutation_sym; apply Permutation_middle|]. eapply perm_trans; [apply perm_skip; exact P1 | apply perm_swap].
    + exact P2.
  - destruct H as [H | H].
    + inversion H; subst. exists q0, (rev pre ++ qs). split; [apply Permutation_sym; apply Permutation_middle|].
      destruct q0 as [|y q1]; [cbn [app]; apply Permutation_refl|]. apply ne_perm. cbn [app]. apply Permutation_sym. apply Permutation_middle.
    + destruct (IH ((x0 :: q0) :: pre) x qs' H) as (q & r & P1 & P2). exists q, r. split; [|exact P2]. cbn [rev] in P1. rewrite <- app_assoc in P1. exact P1.
Qed.
Lemma picks_complete {A} : forall (a b pre : list (list A)) x q, exists qs', In (x, qs') (picks pre (a ++ (x :: q) :: b)) /\ Permutation (ne qs') (ne (rev pre ++ a ++ q :: b)).
Proof.
  induction a as [|q0 a IH]; intros b pre x q; cbn [app picks].
  - eexists. split; [left; reflexivity|]. destruct q as [|y q1]; [cbn [app]; rewrite !ne_app; apply Permutation_refl | cbn [app]; apply Permutation_refl].
  - destruct q0 as [|x0 q0].
    + destruct (IH b pre x q) as (qs' & H1 & H2). exists qs'. split; [exact H1|]. eapply perm_trans; [exact H2|]. rewrite !(ne_app (rev pre)). apply Permutation_app_head. cbn [app]. change (ne ([] :: a ++ q :: b)) with (ne (a ++ q :: b)). apply Permutation_refl.
    + destruct (IH b ((x0 :: q0) :: pre) x q) as (qs' & H1 & H2). exists qs'. split; [right; exact H1|]. cbn [rev] in H2. rewrite <- app_assoc in H2. exact H2.
Qed.
Lemma picks_nil {A} : forall (qs pre : list (list A)), picks pre qs = [] -> concat qs = [].
Proof. induction qs as [|q qs IH]; intros pre H; [reflexivity|]. destruct q; cbn [picks] in H; [cbn [concat app]; apply (IH pre H) | discriminate]. Qed.

Definition total (qs : list (list node)) : nat := length (flat_map subtree (concat qs)).
Lemma total_perm_ne a b : Permutation (ne a) (ne b) -> total a = total b.
Proof.
  intros H. unfold total. rewrite <- (concat_ne a), <- (concat_ne b). apply Permutation_length. apply Permutation_flat_map. apply Permutation_concat. exact H.
Qed.
Lemma subtree_unfold x : subtree x = x :: flat_map subtree (children x).
Proof. unfold subtree. destruct x as [l v]. cbn [fst snd]. apply descendants_unfold. Qed.
Lemma total_step x q r : total (((x :: q) :: r)) = S (total ((q :: r) ++ queues_of x)).
Proof.
  unfold total. cbn [concat app flat_map]. rewrite subtree_unfold. cbn [app length]. f_equal. rewrite concat_app, concat_queues_of. cbn [concat]. rewrite !flat_map_app, !app_length. lia.
Qed.

Lemma orders_sound : forall f qs o, (total qs < f)%nat -> In o (all_orders_from f qs) -> reach qs o.
Proof.
  induction f as [|f IH]; intros qs o Hf H; [lia|]. cbn [all_orders_from] in H. destruct (picks [] qs) as [|p ps] eqn:Ep.
  - destruct H as [<- | []]. cbn [reach]. apply (picks_nil qs [] Ep).
  - rewrite <- Ep in H. apply in_flat_map in H as ([x qs'] & Hp & H). apply in_map_iff in H as (rest & <- & Hrest). cbn [fst snd] in *.
    destruct (picks_sound qs [] x qs' Hp) as (q & r & P1 & P2). cbn [rev app] in P1.
    assert (Et : total qs = S (total ((q :: r) ++ queues_of x))) by (rewrite <- total_step; apply total_perm_ne; apply ne_perm; exact P1).
    assert (P3 : Permutation (ne (qs' ++ queues_of x)) (ne ((q :: r) ++ queues_of x))) by (rewrite !ne_app; apply Permutation_app_tail; exact P2).
    cbn [reach]. exists (q :: r). split; [exists q, r; split; [exact P1 | reflexivity]|].
    apply (reach_perm_ne rest (qs' ++ queues_of x)); [exact P3|]. apply IH; [|exact Hrest]. rewrite (total_perm_ne _ _ P3). lia.
Qed.
Lemma orders_complete : forall o f qs, (length o < f)%nat -> reach qs o -> In o (all_orders_from f qs).
Proof.
  induction o as [|x rest IH]; intros f qs Hf H; (destruct f as [|f]; [lia|]); cbn [all_orders_from reach] in *.
  - destruct (picks [] qs) as [|[y qs'] ps] eqn:Ep; [left; reflexivity|]. exfalso.
    destruct (picks_sound qs [] y qs' ltac:(rewrite Ep; left; reflexivity)) as (q & r & P1 & _). cbn [rev app] in P1. apply Permutation_concat in P1. rewrite H in P1. apply Permutation_nil in P1. discriminate P1.
  - destruct H as (qs'' & (q & r & P1 & ->) & Hr).
    assert (Hin : In (x :: q) qs) by (eapply Permutation_in; [apply Permutation_sym; exact P1 | left; reflexivity]). apply in_split in Hin as (a & b & ->).
    destruct (picks_complete a b [] x q) as (qs' & Hp & P2). cbn [rev app] in P2.
    assert (P3 : Permutation (a ++ b) r) by (apply Permutation_sym; apply Permutation_cons_app_inv with (a := x :: q); apply Permutation_sym; exact P1).
    assert (P4 : Permutation (ne (qs' ++ queues_of x)) (ne ((q :: r) ++ queues_of x))).
    { rewrite !ne_app. apply Permutation_app_tail. eapply perm_trans; [exact P2|]. apply ne_perm. eapply perm_trans; [apply Permutation_sym; apply Permutation_middle | apply perm_skip; exact P3]. }
    destruct (picks [] (a ++ (x :: q) :: b)) as [|p ps] eqn:Ep; [contradiction|]. rewrite <- Ep. apply in_flat_map. exists (x, qs'). split; [rewrite Ep; exact Hp|]. cbn [fst snd]. apply in_map.
    apply IH; [cbn [length] in Hf; lia|]. apply (reach_perm_ne rest ((q :: r) ++ queues_of x)); [apply Permutation_sym; exact P4 | exact Hr].
Qed.

Lemma all_orders_spec n o : In o (all_orders n) <-> exists o', o = n :: o' /\ reach (queues_of n) o'.
Proof.
  unfold all_orders. destruct n as [loc v]. cbn [fst snd]. split.
  - intros H. apply in_map_iff in H as (o' & <- & H). exists o'. split; [reflexivity|]. apply (orders_sound _ _ _) in H; [exact H|].
    unfold total. rewrite concat_queues_of. rewrite descendants_unfold. cbn [length]. lia.
  - intros (o' & -> & H). apply in_map. apply orders_complete; [|exact H].
    pose proof (reach_nodes o' _ H) as P. rewrite concat_queues_of in P. apply Permutation_length in P. rewrite descendants_unfold. cbn [length]. lia.
Qed.

(* ---- the enumeration and the relation ---- *)
Section Enum.
  Variable cfg : envcfg.
  Notation rg := (reg cfg).
  Notation rxf := (rx cfg).
  Notation W := (fun v : json => wf_json v = true).
  Definition wfs (ns : list node) : Prop := forall c, In c ns -> wf_json (snd c) = true.

  Lemma e_sel_spec root n s r : In r (e_sel rg rxf root n s) <-> NondetQ.nd_sel rg rxf root n s r.
  Proof.
    destruct s; cbn [e_sel NondetQ.nd_sel]; try (split; [intros [<- | []]; reflexivity | intros ->; left; reflexivity]).
    - apply kid_orders_spec.
    - split.
      + intros H. apply in_map_iff in H as (cs & <- & Hcs). exists cs. split; [apply kid_orders_spec; exact Hcs | reflexivity].
      + intros (cs & Hk & ->). apply in_map. apply kid_orders_spec. exact Hk.
  Qed.
  Lemma e_sels_spec root ss n r : In r (e_sels rg rxf root ss n) <-> NondetQ.nd_sels rg rxf root ss n r.
  Proof. unfold e_sels, NondetQ.nd_sels. symmetry. apply (cat_choices_spec (NondetQ.nd_sel rg rxf root n) (e_sel rg rxf root n)). intros s r1. symmetry. apply e_sel_spec. Qed.

  (* what a selector yields is among the children of the node *)
  Lemma nd_sel_wf root n s r : wf_json (snd n) = true -> NondetQ.nd_sel rg rxf root n s r -> wfs r.
  Proof.
    intros Hn H c Hc.
    assert (Kids : forall cs, kids_order n cs -> In c cs -> wf_json (snd c) = true).
    { intros cs Hk Hin. eapply (children_P W hereditary_wf n c Hn). unfold kids_order in Hk. destruct (snd n); try (subst cs; exact Hin). eapply Permutation_in; eassumption. }
    destruct s; cbn [NondetQ.nd_sel] in H; try (subst r; eapply (s_sel_P W hereditary_wf rg rxf root _ n c Hn); exact Hc).
    - apply (Kids r H Hc).
    - destruct H as (cs & Hk & ->). apply filter_In in Hc as [Hc _]. apply (Kids cs Hk Hc).
  Qed.
  Lemma nd_each_wf {A} (P : A -> list node -> Prop) (G : A -> Prop) xs r : (forall x r1, G x -> P x r1 -> wfs r1) -> (forall x, In x xs -> G x) -> nd_each P xs r -> wfs r.
  Proof.
    intros HP HG H. induction H as [|x xs r1 r2 H1 _ IH]; [intros c []|]. intros c Hc. apply in_app_or in Hc as [Hc | Hc].
    - apply (HP x r1 (HG x (or_introl eq_refl)) H1 c Hc).
    - apply IH; [intros y Hy; apply HG; right; exact Hy | exact Hc].
  Qed.
  Lemma nd_sels_wf root ss n r : wf_json (snd n) = true -> NondetQ.nd_sels rg rxf root ss n r -> wfs r.
  Proof. intros Hn H. apply (nd_each_wf (NondetQ.nd_sel rg rxf root n) (fun _ => True) ss r); [intros s r1 _ H1; apply (nd_sel_wf root n s r1 Hn H1) | intros; exact I | exact H]. Qed.

  (* one input node of a descendant segment *)
  Lemma desc_node_spec root ss n r1 : wf_json (snd n) = true ->
    In r1 (flat_map (fun o => cat_choices (map (e_sels rg rxf root ss) o)) (all_orders n)) <->
    exists o, Permutation o (descendants (fst n) (snd n)) /\ valid_order n (map fst o) = true /\ nd_each (NondetQ.nd_sels rg rxf root ss) o r1.
  Proof.
    intros Hw. destruct n as [loc v]. cbn [fst snd] in *.
    assert (CS : forall o r, In r (cat_choices (map (e_sels rg rxf root ss) o)) <-> nd_each (NondetQ.nd_sels rg rxf root ss) o r).
    { intros o r. symmetry. apply (cat_choices_spec (NondetQ.nd_sels rg rxf root ss) (e_sels rg rxf root ss)). intros x r0. symmetry. apply e_sels_spec. }
    split.
    - intros H. apply in_flat_map in H as (o & Ho & Hr). apply all_orders_spec in Ho as (o' & -> & Hreach). exists ((loc, v) :: o'). split; [|split].
      + rewrite descendants_unfold. apply perm_skip. pose proof (reach_nodes o' _ Hreach) as P. rewrite concat_queues_of in P. exact P.
      + apply (reach_valid loc v o' Hw Hreach).
      + apply CS. exact Hr.
    - intros (o & Hp & Hv & He).
      destruct (nd_exhaustive_at (S (nesting v)) loc v o Hw ltac:(lia) ltac:(lia) Hp Hv) as (script & ns & Ev & Hf).
      pose proof (nd_visit_reach (S (nesting v)) script (loc, v)) as Hr. rewrite Ev in Hr. destruct Hr as (o'' & -> & Hreach).
      apply in_flat_map. exists ((loc, v) :: o''). split; [apply all_orders_spec; exists o''; split; [reflexivity | exact Hreach]|]. apply CS.
      pose proof (proj1 (nd_each_scalar_nil _ isc (nd_sels_scalar cfg root ss) o r1) He) as G. rewrite <- Hf in G.
      exact (proj2 (nd_each_scalar_nil _ isc (nd_sels_scalar cfg root ss) ((loc, v) :: o'') r1) G).
  Qed.

  Lemma e_seg_spec root sg ns r : wfs ns -> (In r (e_seg rg rxf root sg ns) <-> NondetQ.nd_seg rg rxf root sg ns r).
  Proof.
    intros Hns. destruct sg as [ss | ss]; cbn [e_seg NondetQ.nd_seg].
    - symmetry. apply (cat_choices_spec (NondetQ.nd_sels rg rxf root ss) (e_sels rg rxf root ss)). intros x r0. symmetry. apply e_sels_spec.
    - (* per input node, with the well-formedness of that node *)
      revert r. induction ns as [|n ns IH]; intros r; cbn [map cat_choices].
      + split; [intros [<- | []]; constructor | intros H; inversion H; left; reflexivity].
      + assert (Hn : wf_json (snd n) = true) by (apply Hns; left; reflexivity). assert (Hns' : wfs ns) by (intros c Hc; apply Hns; right; exact Hc).
        split.
        * intros H. apply in_flat_map in H as (r1 & H1 & H2). apply in_map_iff in H2 as (r2 & <- & H2). constructor; [apply (desc_node_spec root ss n r1 Hn); exact H1 | apply (IH Hns'); exact H2].
        * intros H. inversion H; subst. apply in_flat_map. exists r1. split; [apply (desc_node_spec root ss n r1 Hn); assumption | apply in_map; apply (IH Hns'); assumption].
  Qed.

  Lemma nd_seg_wf root sg ns r : wfs ns -> NondetQ.nd_seg rg rxf root sg ns r -> wfs r.
  Proof.
    intros Hns H. destruct sg as [ss | ss]; cbn [NondetQ.nd_seg] in H.
    - apply (nd_each_wf (NondetQ.nd_sels rg rxf root ss) (fun n => wf_json (snd n) = true) ns r); [intros n r1 Hn H1; apply (nd_sels_wf root ss n r1 Hn H1) | exact Hns | exact H].
    - apply (nd_each_wf _ (fun n => wf_json (snd n) = true) ns r) in H; [exact H | | exact Hns].
      intros n r1 Hn (o & Hp & _ & He). apply (nd_each_wf (NondetQ.nd_sels rg rxf root ss) (fun d => wf_json (snd d) = true) o r1); [intros d r2 Hd H2; apply (nd_sels_wf root ss d r2 Hd H2) | | exact He].
      intros d Hd. eapply (descendants_P W hereditary_wf (snd n) (fst n) d Hn). eapply Permutation_in; eassumption.
  Qed.

  Lemma e_segs_spec root q : forall ns r, wfs ns -> (In r (e_segs rg rxf root q ns) <-> NondetQ.nd_segs rg rxf root q ns r).
  Proof.
    induction q as [|sg q IH]; intros ns r Hns; cbn [e_segs].
    - split; [intros [<- | []]; constructor | intros H; inversion H; left; reflexivity].
    - split.
      + intros H. apply in_flat_map in H as (mid & H1 & H2). apply (e_seg_spec root sg ns mid Hns) in H1. econstructor; [exact H1|]. apply IH; [apply (nd_seg_wf root sg ns mid Hns H1) | exact H2].
      + intros H. inversion H; subst. apply in_flat_map. exists mid. split; [apply (e_seg_spec root sg ns mid Hns); assumption|]. apply IH; [eapply nd_seg_wf; eassumption | assumption].
  Qed.

  Theorem nd_results_spec q v r : wf_json v = true -> (In r (nd_results rg rxf q v) <-> nd_permitted rg rxf q v r).
  Proof. intros Hw. apply e_segs_spec. intros c [<- | []]. exact Hw. Qed.
End Enum.
Print Assumptions nd_results_spec.
