(* C09 inside whole queries: a string literal the RFC derives, as a name selector and as the right side of a comparison, decodes to its RFC value
   in the query compile() returns - the lexer's string states reached from the bracket state and from the filter state, then the parser. *)
From JP Require Import Base.Prelude Base.Json Model.Regex Model.Tokens Model.Lex Model.Ast Model.Parse Model.Api Spec.StringLit Spec.Types
  Proofs.StringProofs Proofs.LexString Proofs.LexNoCrash Proofs.Requery Proofs.Reparse Proofs.ParseComplete Proofs.LexSpell Proofs.TextSound Proofs.EvalProofs
  Proofs.LexComplete Proofs.LexCompleteF Proofs.AbnfSpell.

Definition tt_q (q : N) : ttype := if N.eqb q 39 then T_SQ_STRING else T_DQ_STRING.

Lemma string_token q body k : qok q -> spec_decode q body = Some k ->
  lex_ok q body = true /\ sc body /\ (forall i, decode_string_literal (tk (tt_q q) body i) = Ok k) /\ tshape (tt_q q) body /\ pre GBl (tt_q q) = [q] /\ post (tt_q q) = [q]
  /\ (tt_q q = T_SQ_STRING \/ tt_q q = T_DQ_STRING).
Proof.
  intros Hq Hd. assert (Hq' : q = 39%N \/ q = 34%N) by (destruct Hq; tauto).
  destruct (spec_lex_ok q Hq' (length body) body k (le_n _) Hd) as [Hlok Hsc]. split; [exact Hlok|]. split; [exact Hsc|].
  destruct Hq as [-> | ->]; unfold tt_q; [change (N.eqb 39 39) with true | change (N.eqb 34 39) with false]; cbv iota.
  - split; [intros i; unfold tk; rewrite (decode_sq body i Hlok Hsc), Hd; reflexivity|]. split; [exact Hlok|]. split; [reflexivity|]. split; [reflexivity | left; reflexivity].
  - split; [intros i; unfold tk; rewrite (decode_dq body i Hlok Hsc), Hd; reflexivity|]. split; [exact Hlok|]. split; [reflexivity|]. split; [reflexivity | right; reflexivity].
Qed.

Lemma sc_cons c l : is_scalar c = true -> sc l -> sc (c :: l).
Proof. unfold sc. intros H1 H2. cbn [forallb]. rewrite H1, H2. reflexivity. Qed.
Lemma sc_app_intro a b : sc a -> sc b -> sc (a ++ b).
Proof. unfold sc. intros H1 H2. rewrite forallb_app, H1, H2. reflexivity. Qed.
Lemma sc_q q : qok q -> is_scalar q = true. Proof. intros [-> | ->]; reflexivity. Qed.

(*  $[ <literal> ]  *)
Theorem string_name_selector cfg q body k : qok q -> spec_decode q body = Some k ->
  m_compile cfg ([36; 91]%N ++ q :: body ++ [q; 93%N]) = Ok [Child [SName k]].
Proof.
  intros Hq Hd. destruct (string_token q body k Hq Hd) as (Hlok & Hsc & Hdec & Hsh & Hpre & Hpost & Hty).
  set (t := tk (tt_q q) body 0).
  apply (spelled_compiles_ff cfg [Child [SName k]] ([tk T_LBRACKET [91%N] 0; t; tk T_RBRACKET [93%N] 0] ++ []) ([91%N] ++ q :: body ++ [q; 93%N]) a0).
  - apply qt_cons; [|constructor]. apply (sg_br cfg [SName k] [t] [91%N] 0 [93%N] 0). apply ss_one. apply st_name; [exact Hty | apply Hdec].
  - reflexivity.
  - apply sc_cons; [reflexivity|]. apply sc_cons; [apply sc_q; exact Hq|]. apply sc_app_intro; [exact Hsc|]. apply sc_cons; [apply sc_q; exact Hq|]. reflexivity.
  - cbn [app]. apply (RT_cons a0 (tk T_LBRACKET [91%N] 0) GBl aB [] _ (q :: body ++ [q; 93%N]) a0); [reflexivity | reflexivity | discriminate | reflexivity|].
    replace (q :: body ++ [q; 93%N]) with ([] ++ pre GBl (ty t) ++ tval t ++ post (ty t) ++ [93%N]) by (unfold t; cbn [ty tval tk]; rewrite Hpre, Hpost; cbn [app]; rewrite <- ?app_assoc; reflexivity).
    apply (RT_cons aB t GBl aB [] _ [93%N] a0); [unfold t; cbn [ty tk]; destruct Hty as [-> | ->]; reflexivity | reflexivity | discriminate | exact Hsh|].
    apply (RT_cons aB (tk T_RBRACKET [93%N] 0) GBl a0 [] [] [] a0); [reflexivity | reflexivity | discriminate | reflexivity | constructor].
Qed.

(*  $[?@== <literal> ]  *)
Definition aF1 : ast := mkA MFil 1 [0] [].
Definition aS1 : ast := mkA MSeg 1 [0] [].
Theorem string_comparison cfg q body k : qok q -> spec_decode q body = Some k ->
  m_compile cfg ([36; 91; 63; 64; 61; 61]%N ++ q :: body ++ [q; 93%N]) = Ok [Child [SFilter (ECmp OEq (ERel []) (ELit (JStr k)))]].
Proof.
  intros Hq Hd. destruct (string_token q body k Hq Hd) as (Hlok & Hsc & Hdec & Hsh & Hpre & Hpost & Hty).
  set (t := tk (tt_q q) body 0).
  apply (spelled_compiles cfg _ ([tk T_LBRACKET [91%N] 0; tk T_FILTER [63%N] 0; tk T_CURRENT [64%N] 0; tk T_EQ [61; 61]%N 0; t; tk T_RBRACKET [93%N] 0] ++ []) ([91; 63; 64; 61; 61]%N ++ q :: body ++ [q; 93%N]) a0).
  - apply qt_cons; [|constructor].
    apply (sg_br cfg _ ([tk T_FILTER [63%N] 0; tk T_CURRENT [64%N] 0; tk T_EQ [61; 61]%N 0; t]) [91%N] 0 [93%N] 0). apply ss_one.
    apply (st_filter cfg _ [tk T_CURRENT [64%N] 0; tk T_EQ [61; 61]%N 0; t] [63%N] 0). apply et_34. apply et_45.
    apply (et_cmp cfg OEq (ERel []) (ELit (JStr k)) [tk T_CURRENT [64%N] 0] [61; 61]%N 0 [t]).
    + apply ct_test. apply (tt_rel cfg TValue [] [] [64%N] 0); [constructor | reflexivity].
    + apply ct_lit. right. right. right. left. split; [exact Hty|]. exists k. split; [apply Hdec | reflexivity].
  - apply sc_cons; [reflexivity|]. apply sc_cons; [reflexivity|]. apply sc_cons; [reflexivity|]. apply sc_cons; [reflexivity|]. apply sc_cons; [reflexivity|].
    apply sc_cons; [apply sc_q; exact Hq|]. apply sc_app_intro; [exact Hsc|]. apply sc_cons; [apply sc_q; exact Hq|]. reflexivity.
  - cbn [app]. apply (RT_cons a0 (tk T_LBRACKET [91%N] 0) GBl aB [] _ (63%N :: 64%N :: 61%N :: 61%N :: q :: body ++ [q; 93%N]) a0); [reflexivity | reflexivity | discriminate | reflexivity|].
    apply (RT_cons aB (tk T_FILTER [63%N] 0) GBl aF1 [] _ (64%N :: 61%N :: 61%N :: q :: body ++ [q; 93%N]) a0); [reflexivity | reflexivity | discriminate | reflexivity|].
    apply (RT_cons aF1 (tk T_CURRENT [64%N] 0) GBl aS1 [] _ (61%N :: 61%N :: q :: body ++ [q; 93%N]) a0); [reflexivity | reflexivity | discriminate | reflexivity|].
    apply (RT_cons aS1 (tk T_EQ [61; 61]%N 0) GBl aF1 [] _ (q :: body ++ [q; 93%N]) a0); [reflexivity | reflexivity | discriminate | reflexivity|].
    replace (q :: body ++ [q; 93%N]) with ([] ++ pre GBl (ty t) ++ tval t ++ post (ty t) ++ [93%N]) by (unfold t; cbn [ty tval tk]; rewrite Hpre, Hpost; cbn [app]; rewrite <- ?app_assoc; reflexivity).
    apply (RT_cons aF1 t GBl aF1 [] _ [93%N] a0); [unfold t; cbn [ty tk]; destruct Hty as [-> | ->]; reflexivity | reflexivity | discriminate | exact Hsh|].
    apply (RT_cons aF1 (tk T_RBRACKET [93%N] 0) GBl a0 [] [] [] a0); [reflexivity | reflexivity | discriminate | reflexivity | constructor].
Qed.
Print Assumptions string_comparison.
