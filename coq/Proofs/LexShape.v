(* C04, lexical layer (part): the token list the lexer returns has the shape Proofs/ParseSound.v asks for - it starts with ROOT,
   ends with the only EOF, every INDEX token is an optional minus sign followed by digits, and every ".." is followed by a name, a
   wildcard or an opening bracket.  An invariant of the state machine over (state, tokens emitted so far). *)
From JP Require Import Base.Prelude Model.Regex Model.Tokens Model.Lex Proofs.LexNoCrash Proofs.Requery Proofs.ParseSound.
From Coq Require Import Wf_nat ZifyBool ZifyN.

(* --- what the INDEX pattern can match ----------------------------------------------------------------------------------------- *)
Lemma star_sound cls : forall F s n x, rm F (RStar (RClass false cls)) s n (fun _ m => Some m) = Some x ->
  exists k, x = n + Z.of_nat k /\ (k <= length s)%nat /\ forallb (fun c => in_ranges c cls) (firstn k s) = true.
Proof.
  induction F as [F IH] using lt_wf_ind. intros s n x H. destruct F as [|f]; [discriminate|]. rewrite rm_star_S in H.
  destruct (rm f (RClass false cls) s n (fun s' n' => if n' =? n then None else rm f (RStar (RClass false cls)) s' n' (fun _ m => Some m))) as [y|] eqn:E.
  - inversion H; subst y. destruct f as [|f']; [discriminate|]. rewrite rm_class_S in E. destruct s as [|c s']; [discriminate|].
    destruct (xorb false (in_ranges c cls)) eqn:Ec; [|discriminate]. assert (En : (n + 1 =? n) = false) by lia. rewrite En in E.
    destruct (IH (S f') ltac:(lia) s' (n + 1) x E) as (k & -> & Hk & Hd).
    exists (S k). repeat split; [lia | cbn [length]; lia|]. cbn [firstn forallb]. rewrite Hd. cbn [xorb] in Ec. destruct (in_ranges c cls); [reflexivity | discriminate].
  - inversion H; subst. exists 0%nat. repeat split; [lia | lia].
Qed.

Lemma index_sound s n : re_match RE_INDEX s = Some n -> 0 <= n /\ (Z.to_nat n <= length s)%nat /\ idx_wf (firstn (Z.to_nat n) s).
Proof.
  unfold re_match. set (F := (8 * length s + 64)%nat). clearbody F. unfold RE_INDEX, re_minus_opt, re_digits, ROpt, RPlus, RChar.
  destruct F as [|F]; [discriminate|]. rewrite rm_seq_S. destruct F as [|F]; [discriminate|]. rewrite rm_alt_S.
  (* the digits, after an optional sign that took sg characters *)
  assert (D : forall F' s' sg x, rm F' (RSeq (RClass false cls_digit) (RStar (RClass false cls_digit))) s' sg (fun _ m => Some m) = Some x ->
              exists k, x = sg + Z.of_nat (S k) /\ (S k <= length s')%nat /\ forallb isd (firstn (S k) s') = true).
  { intros F' s' sg x H. destruct F' as [|F']; [discriminate|]. rewrite rm_seq_S in H. destruct F' as [|F']; [discriminate|]. rewrite rm_class_S in H.
    destruct s' as [|d s'']; [discriminate|]. destruct (xorb false (in_ranges d cls_digit)) eqn:Ed; [|discriminate].
    destruct (star_sound cls_digit _ _ _ _ H) as (k & -> & Hk & Hd). exists k. repeat split; [lia | cbn [length]; lia|].
    cbn [firstn forallb]. cbn [xorb] in Ed. unfold cls_digit in *. cbn [in_ranges] in Ed. rewrite orb_false_r in Ed.
    assert (H0 : isd d = true) by (destruct ((48 <=? d) && (d <=? 57))%N eqn:X; [exact X | discriminate]). rewrite H0. cbn [andb].
    rewrite forallb_forall in *. intros c Hc. specialize (Hd c Hc). cbn [in_ranges] in Hd. rewrite orb_false_r in Hd. exact Hd. }
  intros H.
  destruct (rm F (RClass false [(45, 45)]%N) s 0 (fun s' n' => rm (S F) (RSeq (RClass false cls_digit) (RStar (RClass false cls_digit))) s' n' (fun _ m => Some m))) as [y|] eqn:E1.
  - assert (y = n) by congruence. subst y. destruct F as [|F']; [discriminate|]. rewrite rm_class_S in E1. destruct s as [|c s']; [discriminate|].
    destruct (xorb false (in_ranges c [(45, 45)]%N)) eqn:Ec; [|discriminate]. cbn [xorb in_ranges] in Ec. assert (c = 45%N) by (destruct ((45 <=? c)%N) eqn:A; destruct ((c <=? 45)%N) eqn:B; cbn in Ec; try discriminate; apply N.leb_le in A; apply N.leb_le in B; lia). subst c.
    destruct (D _ _ _ _ E1) as (k & -> & Hk & Hd). replace (Z.to_nat (0 + 1 + Z.of_nat (S k))) with (S (S k)) by lia.
    split; [lia|]. split; [cbn [length]; lia|]. exists [45%N], (firstn (S k) s'). split; [reflexivity|]. split; [right; reflexivity|]. split; [destruct s'; [cbn in Hk; lia | discriminate] | exact Hd].
  - destruct F as [|F']; [discriminate|]. rewrite rm_eps_S in H.
    destruct (D _ _ _ _ H) as (k & -> & Hk & Hd). replace (Z.to_nat (0 + Z.of_nat (S k))) with (S k) by lia.
    split; [lia|]. split; [exact Hk|]. exists [], (firstn (S k) s). split; [reflexivity|]. split; [left; reflexivity|]. split; [destruct s; [cbn in Hk; lia | discriminate] | exact Hd].
Qed.

(* --- the invariant ---------------------------------------------------------------------------------------------------------------- *)
Definition tokK (t : token) : Prop := ty t <> T_EOF /\ ty t <> T_ERROR /\ (ty t = T_INDEX -> idx_wf (tval t)).
(* most recent token first *)
Fixpoint ddok (l : list token) : Prop :=
  match l with
  | x :: r => match r with t :: _ => (ty t = T_DOUBLE_DOT -> seghd (ty x)) /\ ddok r | [] => True end
  | [] => True
  end.
Definition rootlast (l : list token) : Prop := exists pre r, l = pre ++ [r] /\ ty r = T_ROOT.
Definition KT (st : lstate) (toks : list token) : Prop :=
  Forall tokK toks /\ ddok toks /\ (forall t r, toks = t :: r -> ty t = T_DOUBLE_DOT -> st = SDescendant) /\
  ((st = SRoot /\ toks = []) \/ (st <> SRoot /\ rootlast toks)).
Definition K (st : lstate) (l : lexer) : Prop := KT st (l_toks l).
Definition okK (o : lexout) : Prop :=
  match o with
  | LNext st' l' => K st' l'
  | LStop l' => match l_toks l' with
                | t :: r => ty t = T_ERROR \/ (ty t = T_EOF /\ Forall tokK r /\ ddok r /\ (forall x r', r = x :: r' -> ty x <> T_DOUBLE_DOT) /\ rootlast r)
                | [] => False
                end
  | _ => True
  end.

Lemma keep_ok st st' toks : KT st toks -> st <> SDescendant -> st <> SRoot -> st' <> SRoot -> KT st' toks.
Proof.
  intros (A & B & C & D) H1 H2 H3. split; [exact A|]. split; [exact B|]. split.
  - intros t r E Ht. exfalso. apply H1. exact (C t r E Ht).
  - right. split; [exact H3|]. destruct D as [[D _] | [_ D]]; [contradiction | exact D].
Qed.
Lemma emit_ok st st' toks t : KT st toks -> st <> SRoot -> st' <> SRoot -> tokK t ->
  (ty t = T_DOUBLE_DOT -> st' = SDescendant) -> (st = SDescendant -> seghd (ty t)) -> KT st' (t :: toks).
Proof.
  intros (A & B & C & D) H1 H2 Ht Hdd Hsd. split; [constructor; assumption|]. split.
  - cbn [ddok]. destruct toks as [|t0 r0]; [exact I|]. split; [|exact B]. intros E. apply Hsd. exact (C t0 r0 eq_refl E).
  - split; [intros t1 r1 E Hd; inversion E; subst; apply Hdd; exact Hd|]. right. split; [exact H2|].
    destruct D as [[D _] | [_ (pre & r & -> & Hr)]]; [contradiction|]. exists (t :: pre), r. split; [reflexivity | exact Hr].
Qed.
Lemma root_ok t : ty t = T_ROOT -> KT SSegment [t].
Proof.
  intros E. split; [constructor; [unfold tokK; rewrite E; repeat split; discriminate | constructor]|]. split; [exact I|]. split; [intros t1 r1 E1 Hd; inversion E1; subst; congruence|].
  right. split; [discriminate|]. exists [], t. split; [reflexivity | exact E].
Qed.
Lemma stop_err toks t : ty t = T_ERROR -> match t :: toks with t0 :: r => ty t0 = T_ERROR \/ (ty t0 = T_EOF /\ Forall tokK r /\ ddok r /\ (forall x r', r = x :: r' -> ty x <> T_DOUBLE_DOT) /\ rootlast r) | [] => False end.
Proof. intros E. left. exact E. Qed.

Lemma tokK_other T v i : T <> T_EOF -> T <> T_ERROR -> T <> T_INDEX -> tokK {| ty := T; tval := v; tidx := i |}.
Proof. intros A B C. repeat split; cbn [ty]; try assumption. intros E. contradiction. Qed.

Ltac head_splitK :=
  repeat match goal with
  | |- okK (let '(_, _) := ?X in _) => destruct X as [? ?] eqn:?
  | |- okK (match ?X with _ => _ end) => first [is_var X; destruct X | destruct X eqn:?]
  | |- okK (if ?X then _ else _) => destruct X eqn:?
  end.
(* leaves: no token, or one token of a type fixed by the branch *)
Ltac finK HK :=
  unfold emit2, l_error in *;
  repeat match goal with |- context [if ?b then l_emit _ _ else l_emit _ _] => destruct b end;
  repeat match goal with |- context [match l_fcs ?x with _ => _ end] => destruct (l_fcs x) eqn:? end;
  frames; cbn [okK]; unfold K; prw;
  first
  [ exact I
  | (left; reflexivity)
  | (apply (keep_ok _ _ _ HK); discriminate)
  | (apply (emit_ok _ _ _ _ HK); [discriminate | discriminate | apply tokK_other; discriminate | (intros E0; first [discriminate E0 | reflexivity]) | (intros E0; first [discriminate E0 | (cbn [ty]; unfold seghd; auto)])])
  | idtac ].

Lemma step_root_K l : K SRoot l -> okK (lex_step SRoot l).
Proof.
  intros HK. cbn [lex_step]. head_splitK; finK HK.
  destruct HK as (_ & _ & _ & [[_ E] | [E _]]); [|congruence]. rewrite E. apply root_ok. reflexivity.
Qed.

Lemma step_desc_K l : K SDescendant l -> okK (lex_step SDescendant l).
Proof. intros HK. cbn [lex_step]. head_splitK; finK HK. Qed.
Lemma step_short_K l : K SShorthand l -> okK (lex_step SShorthand l).
Proof. intros HK. cbn [lex_step]. cbv zeta. head_splitK; finK HK. Qed.
Lemma step_seg_K l : K SSegment l -> okK (lex_step SSegment l).
Proof.
  intros HK. cbn [lex_step]. head_splitK; finK HK.
  right. destruct HK as (A & B & C & D). split; [reflexivity|]. split; [exact A|]. split; [exact B|]. split.
  - intros x r' E Hd. specialize (C x r' E Hd). discriminate.
  - destruct D as [[D _] | [_ D]]; [discriminate | exact D].
Qed.

Lemma step_filter_K l : K Lex.SFilter l -> okK (lex_step Lex.SFilter l).
Proof. intros HK. cbn [lex_step]. head_splitK; finK HK. Qed.

Lemma ignore_ws_cur l b l0 : l_ignore_ws l = Some (b, l0) -> l_cur l0 = [].
Proof.
  unfold l_ignore_ws. destruct (l_cur l) eqn:Ec; [|discriminate]. unfold l_accept_match. destruct (re_match RE_WHITESPACE (l_rest l)); intros H; inversion H; subst; [reflexivity | exact Ec].
Qed.
Lemma bracket_index_tok l b l0 n l1 l2 l3 : l_ignore_ws l = Some (b, l0) -> l_next l0 = (Some n, l1) -> l_backup l1 = Some l2 ->
  l_accept_match RE_INDEX l2 = (true, l3) -> idx_wf (rev (l_cur l3)).
Proof.
  intros H0 H1 H2 H3. pose proof (ignore_ws_cur _ _ _ H0) as C0.
  assert (C1 : l_cur l1 = [n]) by (rewrite (next_cur _ _ _ H1), C0; reflexivity).
  assert (C2 : l_cur l2 = []). { unfold l_backup in H2. rewrite C1 in H2. inversion H2; subst. reflexivity. }
  unfold l_accept_match in H3. destruct (re_match RE_INDEX (l_rest l2)) as [m|] eqn:Em; [|discriminate]. inversion H3; subst l3.
  destruct (index_sound _ _ Em) as (Hm0 & Hml & Hw). unfold l_advance. rewrite (LexInv.skipn_push_spec _ _ _ Hml). cbn [l_cur upd_text].
  rewrite C2, app_nil_r, rev_involutive. exact Hw.
Qed.

Lemma step_bracket_K l : K SBracket l -> okK (lex_step SBracket l).
Proof.
  intros HK. cbn [lex_step]. head_splitK;
    try (match goal with |- context [T_INDEX] => idtac end;
         match goal with
         | A : l_ignore_ws l = Some (?b, ?l0), C : l_next ?l0 = (Some ?n, ?l1), D : l_backup ?l1 = Some ?l2, E : l_accept_match RE_INDEX ?l2 = (true, ?l3) |- _ =>
             pose proof (bracket_index_tok _ _ _ _ _ _ _ A C D E) as Hidx
         end);
    finK HK.
  apply (emit_ok _ _ _ _ HK); [discriminate | discriminate | | intros E0; discriminate E0 | intros E0; discriminate E0].
  repeat split; cbn [ty tval]; try discriminate. intros _. exact Hidx.
Qed.

Lemma after_ne (inf : bool) : (if inf then Lex.SFilter else SBracket) <> SRoot. Proof. destruct inf; discriminate. Qed.
Lemma strtokK q v i : tokK {| ty := if N.eqb q 39 then T_SQ_STRING else T_DQ_STRING; tval := v; tidx := i |}.
Proof. destruct (N.eqb q 39); apply tokK_other; discriminate. Qed.
Lemma str_not_dd q : (if N.eqb q 39 then T_SQ_STRING else T_DQ_STRING) <> T_DOUBLE_DOT. Proof. destruct (N.eqb q 39); discriminate. Qed.

Lemma step_string_K q inf l : K (SString q inf) l -> okK (lex_step (SString q inf) l).
Proof.
  intros HK. cbn [lex_step]. cbv zeta. destruct (l_peek (l_ignore l)); cbn [okK]; unfold K.
  - cbn [l_toks l_ignore upd_text]. apply (keep_ok _ _ _ HK); discriminate.
  - pose proof (frame_next_snd (l_emit (if N.eqb q 39 then T_SQ_STRING else T_DQ_STRING) (l_ignore l))) as (_ & _ & _ & _ & F5).
    cbn [l_toks l_ignore upd_text]. rewrite F5. cbn [l_toks l_emit l_ignore add_tok upd_text].
    apply (emit_ok _ _ _ _ HK); [discriminate | apply after_ne | apply strtokK | intros E; cbn [ty] in E; exfalso; exact (str_not_dd q E) | intros E; discriminate E].
Qed.

Lemma step_body_K q inf l : K (SStringBody q inf) l -> okK (lex_step (SStringBody q inf) l).
Proof.
  intros HK. cbn [lex_step].
  destruct (l_next l) as [c l1] eqn:En. pose proof (frame_next _ _ _ En) as (_ & _ & _ & _ & E5).
  destruct c as [c'|]; [|unfold l_error; cbn [okK l_toks add_tok]; left; reflexivity].
  destruct (N.eqb c' 92).
  - destruct (l_peek l1); [|unfold l_error; cbn [okK l_toks add_tok]; left; reflexivity].
    destruct (existsb (N.eqb n) ESCAPES || N.eqb n q); [|unfold l_error; cbn [okK l_toks add_tok]; left; reflexivity].
    cbn [okK]. unfold K. pose proof (frame_next_snd l1) as (_ & _ & _ & _ & F5). rewrite F5, E5. apply (keep_ok _ _ _ HK); discriminate.
  - destruct (N.eqb c' q).
    + destruct (l_backup l1) as [l2|] eqn:Eb; [|exact I]. cbn [okK]. unfold K. apply frame_backup in Eb. destruct Eb as (_ & _ & _ & _ & B5).
      pose proof (frame_next_snd (l_emit (if N.eqb q 39 then T_SQ_STRING else T_DQ_STRING) l2)) as (_ & _ & _ & _ & F5).
      cbn [l_toks l_ignore upd_text]. rewrite F5. cbn [l_toks l_emit l_ignore add_tok upd_text]. rewrite B5, E5.
      apply (emit_ok _ _ _ _ HK); [discriminate | apply after_ne | apply strtokK | intros E; cbn [ty] in E; exfalso; exact (str_not_dd q E) | intros E; discriminate E].
    + cbn [okK]. unfold K. rewrite E5. apply (keep_ok _ _ _ HK); discriminate.
Qed.

Theorem lex_step_K st l : K st l -> okK (lex_step st l).
Proof.
  destruct st; [apply step_root_K | apply step_seg_K | apply step_desc_K | apply step_short_K | apply step_bracket_K | apply step_filter_K
               | apply step_string_K | apply step_body_K].
Qed.

Lemma K_init q : K SRoot (lexer_init q).
Proof. unfold K, lexer_init. cbn [l_toks]. split; [constructor|]. split; [exact I|]. split; [intros t r E; discriminate | left; split; reflexivity]. Qed.

Theorem lex_run_K : forall fuel st l, K st l -> match lex_run fuel st l with Ok l' => okK (LStop l') | _ => True end.
Proof.
  induction fuel as [|f IH]; intros st l H; [exact I|]. cbn [lex_run].
  pose proof (lex_step_K st l H) as Hs. destruct (lex_step st l); cbn [okK] in Hs; [apply IH; exact Hs | exact Hs | exact I | exact I].
Qed.

(* the token list, oldest first: wf of everything after ROOT *)
Lemma wf_of_rev : forall r (e : token), ty e = T_EOF -> Forall tokK r -> ddok r -> (forall x r', r = x :: r' -> ty x <> T_DOUBLE_DOT) -> wf (rev r ++ [e]).
Proof.
  (* by induction on the tokens newest first, generalising what follows *)
  assert (G : forall r (suf : list token), Forall tokK r -> ddok r -> wf suf ->
              (forall x r' y s', r = x :: r' -> suf = y :: s' -> ty x = T_DOUBLE_DOT -> seghd (ty y)) -> wf (rev r ++ suf)).
  { induction r as [|x r IH]; intros suf HF Hd Hs Hx; [exact Hs|]. cbn [rev]. rewrite <- app_assoc. cbn [app].
    inversion HF as [|? ? (T1 & T2 & T3) HF']; subst. apply IH; [exact HF' | destruct r; [exact I | apply Hd] | |].
    - destruct suf as [|y s']; [destruct Hs|]. cbn [wf]. split; [exact T1|]. split; [exact T3|]. split; [intros E; apply (Hx x r y s' eq_refl eq_refl E) | exact Hs].
    - intros x0 r' y s' E1 E2 Hdd. inversion E2; subst y s'. subst r. cbn [ddok] in Hd. apply Hd. exact Hdd. }
  intros r e He HF Hd Hh. apply G; [exact HF | exact Hd | exact He|]. intros x r' y s' E1 E2 Hdd. exfalso. exact (Hh x r' E1 Hdd).
Qed.

Theorem tokenize_wf q toks : m_tokenize q = Ok toks -> exists root t e, toks = root :: t ++ [e] /\ ty root = T_ROOT /\ wf (t ++ [e]).
Proof.
  unfold m_tokenize. pose proof (lex_run_K (lex_fuel q) SRoot (lexer_init q) (K_init q)) as H.
  destruct (lex_run (lex_fuel q) SRoot (lexer_init q)) as [l| | |]; cbn [bind]; try discriminate. cbn [okK] in H.
  destruct (l_toks l) as [|e r] eqn:Et; [contradiction|].
  destruct (ttype_eqb (ty e) T_ERROR) eqn:Ee; [discriminate|]. destruct (l_bs l) as [|[c i] bs]; [|discriminate]. intros E. inversion E; subst toks.
  destruct H as [H | (He & HF & Hd & Hh & (pre & root & -> & Hroot))]; [rewrite H in Ee; discriminate|].
  exists root, (rev pre), e. cbn [rev]. rewrite rev_app_distr. cbn [rev app]. split; [reflexivity|]. split; [exact Hroot|].
  (* the tokens after ROOT, newest first, are pre *)
  apply wf_of_rev; [exact He | apply Forall_app in HF; exact (proj1 HF) | | ].
  - clear -Hd. induction pre as [|x p IH]; [exact I|]. cbn [app ddok] in *. destruct p as [|y p']; [exact I|]. cbn [app] in *. split; [apply Hd | apply IH; apply Hd].
  - intros x r' E1. apply (Hh x (r' ++ [root])). rewrite E1. reflexivity.
Qed.

(* compile(): whatever it accepts, its token list is derived by the token-level grammar for the query it returns *)
From JP Require Import Model.Ast Model.Parse Model.Api Proofs.ParseComplete.
Theorem compile_sound_tokens cfg text q : m_compile cfg text = Ok q ->
  exists root t e, m_tokenize text = Ok (root :: t ++ [e]) /\ ty root = T_ROOT /\ wf (t ++ [e]) /\ QT cfg q t.
Proof.
  unfold m_compile. destruct (m_tokenize text) as [toks| | |] eqn:Et; cbn [bind]; try discriminate.
  destruct (tokenize_wf text toks Et) as (root & t & e & -> & Hr & W). destruct (p_parse cfg (root :: t ++ [e])) as [q0 s| | |] eqn:Ep; try discriminate.
  intros E. inversion E; subst q0. exists root, t, e. split; [reflexivity|]. split; [exact Hr|]. split; [exact W|]. exact (parse_sound cfg root t e q s Hr W Ep).
Qed.
