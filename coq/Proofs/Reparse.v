(* C12 for filter-free queries: the text str() prints for a query built from name, index, slice and wildcard selectors
   in child and descendant segments compiles to that query again (a slice step that was omitted is printed, and read
   back, as 1), so compiling the printed text and printing again gives the same text, and the reparsed query selects
   the same nodes.  End to end through serializer, lexer and parser models. *)
From JP Require Import Base.Json Spec.StringLit Spec.NormPath Spec.Sem Model.Regex Model.Tokens Model.Lex Model.Ast Model.Parse Model.Serialize Model.Api.
From JP Require Import Proofs.StringProofs Proofs.LexString Proofs.LexInv Proofs.ParseInv Proofs.SerializeProofs Proofs.Requery.
From Coq Require Import ZifyBool.

(* --- integers as printed by repr() ---------------------------------------------------------------------------------- *)
Lemma repr_nat_norm n : repr_nat n = norm_index n. Proof. reflexivity. Qed.

Definition int_text_ok (ds : str) (i : Z) : Prop :=
  ds <> [] /\ int_of_index ds = i /\
  (exists sign body, ds = sign ++ body /\ (sign = [] \/ sign = [45%N]) /\ body <> [] /\ forallb isd body = true) /\
  ((((1 <? zlen ds) && starts_with [48%N] ds) || starts_with [45%N; 48%N] ds) = false).

Lemma repr_int_ok i : int_text_ok (repr_int i) i.
Proof.
  unfold repr_int. destruct (i <? 0) eqn:Ei.
  - assert (Hp : 0 <= - i) by lia. destruct (norm_index_spec (- i) Hp) as (Hne & Hd & Hv & Hh & Hz). rewrite repr_nat_norm. set (ds := norm_index (- i)) in *.
    destruct ds as [|d ds'] eqn:Eds; [congruence|]. assert (Hd1 : isd d = true) by (cbn [forallb] in Hd; apply andb_true_iff in Hd; tauto).
    repeat split; try discriminate.
    + unfold int_of_index. rewrite Hv. lia.
    + exists [45%N], (d :: ds'). repeat split; auto; discriminate.
    + assert (d <> 48%N) by (apply (Hh ltac:(lia))). unfold starts_with. cbn [andb]. unfold isd in Hd1.
      assert (E : N.eqb 48 d = false) by lia. rewrite E. cbn. rewrite ?andb_false_r, ?orb_false_r. reflexivity.
  - assert (Hp : 0 <= i) by lia. destruct (norm_index_spec i Hp) as (Hne & Hd & Hv & Hh & Hz). rewrite repr_nat_norm. set (ds := norm_index i) in *.
    destruct ds as [|d ds'] eqn:Eds; [congruence|]. assert (Hd1 : isd d = true) by (cbn [forallb] in Hd; apply andb_true_iff in Hd; tauto). unfold isd in Hd1.
    repeat split; try discriminate.
    + unfold int_of_index. destruct d as [|pd]; [exact Hv|]. repeat (destruct pd as [pd|pd|]; try exact Hv); exfalso; lia.
    + exists [], (d :: ds'). repeat split; auto; discriminate.
    + unfold starts_with. assert (E45 : N.eqb 45 d = false) by lia. rewrite E45. cbn [andb orb]. rewrite orb_false_r.
      destruct (N.eqb 48 d) eqn:E48; [|rewrite andb_false_r; reflexivity]. apply N.eqb_eq in E48. subst d.
      destruct (Z.eq_dec i 0) as [E0 | E0]; [specialize (Hz E0); inversion Hz; subst; reflexivity|]. exfalso. apply Hh; [lia | reflexivity].
Qed.

(* the lexer's INDEX pattern on a printed integer followed by a character that is not a digit *)
Lemma index_match_signed sign body rest : (sign = [] \/ sign = [45%N]) -> body <> [] -> forallb isd body = true ->
  match rest with c :: _ => isd c = false | [] => True end ->
  re_match RE_INDEX ((sign ++ body) ++ rest) = Some (zlen (sign ++ body)).
Proof.
  intros [-> | ->] Hne Hd Hr; [exact (index_match body rest Hne Hd Hr)|].
  destruct body as [|d ds']; [congruence|]. cbn [forallb] in Hd. apply andb_true_iff in Hd as [Hd1 Hd2].
  unfold re_match. set (s := ([45%N] ++ d :: ds') ++ rest).
  replace (8 * length s + 64)%nat with (S (S (S (S (S (S (8 * length s + 58)))))))%nat by lia.
  unfold RE_INDEX, re_minus_opt, re_digits, ROpt, RPlus, RChar. subst s. cbn [app].
  rewrite rm_seq_S, rm_alt_S, rm_class_S. change (in_ranges 45 [(45, 45)]%N) with true. cbn [xorb]. rewrite rm_seq_S, rm_class_S.
  assert (Ed : in_ranges d cls_digit = true) by (unfold isd in Hd1; unfold cls_digit; cbn [in_ranges]; lia).
  rewrite Ed. cbn [xorb].
  rewrite (star_class cls_digit ds' _ (0 + 1 + 1) rest (fun _ n => Some n) (zlen (45%N :: d :: ds'))); [reflexivity | | | | ].
  - rewrite forallb_forall in *. intros c Hc. specialize (Hd2 c Hc). unfold isd in Hd2. unfold cls_digit. cbn [in_ranges]. lia.
  - destruct rest as [|c r]; [exact I|]. unfold isd in Hr. unfold cls_digit. cbn [in_ranges]. lia.
  - cbn [length app]. rewrite app_length. lia.
  - f_equal. unfold zlen. cbn [length]. lia.
Qed.

Section LexGenR.
Variables (fd0 : Z) (ffd0 fcs0 : list Z) (bs0 : list (N * Z)).
Local Notation LX := (Requery.LX fd0 ffd0 fcs0).
Local Notation ignore_ws_nonws := (Requery.ignore_ws_nonws fd0 ffd0 fcs0).
Local Notation ignore_ws_nil := (Requery.ignore_ws_nil fd0 ffd0 fcs0).
Local Notation LX_pos := (Requery.LX_pos fd0 ffd0 fcs0).
Local Notation step_root := (Requery.step_root fd0 ffd0 fcs0).
Local Notation step_seg_open := (Requery.step_seg_open fd0 ffd0 fcs0 bs0).
Local Notation step_seg_eof := (Requery.step_seg_eof fd0 ffd0 fcs0 bs0).
Local Notation step_bracket_quote := (Requery.step_bracket_quote fd0 ffd0 fcs0).
Local Notation step_bracket_close := (Requery.step_bracket_close fd0 ffd0 fcs0 bs0).
Local Notation step_bracket_index := (Requery.step_bracket_index fd0 ffd0 fcs0).

(* --- more single steps of the lexer ------------------------------------------------------------------------------------ *)
Lemma ws_match1 c r : in_ranges c ws_ranges = false -> re_match RE_WHITESPACE (32%N :: c :: r) = Some 1.
Proof.
  intros H. unfold re_match. set (s := 32%N :: c :: r).
  replace (8 * length s + 64)%nat with (S (S (S (S (S (8 * length s + 59))))))%nat by lia.
  unfold RE_WHITESPACE, RPlus. subst s. rewrite rm_seq_S, rm_class_S. fold ws_ranges. change (in_ranges 32 ws_ranges) with true. cbn [xorb].
  rewrite (star_class ws_ranges [] _ (0 + 1) (c :: r) (fun _ n => Some n) 1); [reflexivity | reflexivity | exact H | cbn [length]; lia | reflexivity].
Qed.

Lemma sbracket_ws c r p bs T : in_ranges c ws_ranges = false ->
  lex_step SBracket (LX (32%N :: c :: r) [] p p bs T) = lex_step SBracket (LX (c :: r) [] (p + 1) (p + 1) bs T).
Proof.
  intros H. cbn [lex_step]. rewrite (ignore_ws_nonws c r (p + 1) bs T H).
  assert (E : l_ignore_ws (LX (32%N :: c :: r) [] p p bs T) = Some (true, LX (c :: r) [] (p + 1) (p + 1) bs T)).
  { unfold l_ignore_ws, l_accept_match. cbn [l_cur l_rest LX]. rewrite (ws_match1 c r H). reflexivity. }
  rewrite E. reflexivity.
Qed.

Lemma step_bracket_char c t r p bs T :
  (c = 42%N /\ t = T_WILD) \/ (c = 44%N /\ t = T_COMMA) \/ (c = 58%N /\ t = T_COLON) ->
  lex_step SBracket (LX (c :: r) [] p p bs T) = LNext SBracket (LX r [] (p + 1) (p + 1) bs (tk t [c] p :: T)).
Proof. intros [[-> ->] | [[-> ->] | [-> ->]]]; cbn [lex_step]; rewrite ignore_ws_nonws by reflexivity; reflexivity. Qed.

Lemma step_bracket_int ds i c r q bs T : int_text_ok ds i -> isd c = false ->
  lex_step SBracket (LX (ds ++ c :: r) [] q q bs T)
  = LNext SBracket (LX (c :: r) [] (q + zlen ds) (q + zlen ds) bs (tk T_INDEX ds q :: T)).
Proof.
  intros (Hne & _ & (sign & body & -> & Hs & Hb & Hd) & _) Hc.
  assert (Hm : re_match RE_INDEX ((sign ++ body) ++ c :: r) = Some (zlen (sign ++ body))) by (apply index_match_signed; assumption).
  set (ds := sign ++ body) in *. destruct ds as [|d ds'] eqn:Eds; [congruence|].
  assert (Hd0 : d = 45%N \/ isd d = true).
  { destruct Hs as [-> | ->]; cbn [app] in Eds.
    - right. destruct body as [|b0 body']; [congruence|]. inversion Eds; subst. cbn [forallb] in Hd. apply andb_true_iff in Hd. tauto.
    - left. inversion Eds. reflexivity. }
  cbn [lex_step app]. rewrite ignore_ws_nonws by (destruct Hd0 as [-> | Hd0]; [reflexivity | unfold isd in Hd0; cbn [in_ranges ws_ranges]; lia]).
  change (l_next (LX (d :: ds' ++ c :: r) [] q q bs T)) with (Some d, LX (ds' ++ c :: r) [d] q (q + 1) bs T). cbv beta iota.
  assert (E93 : N.eqb d 93 = false) by (destruct Hd0 as [-> | Hd0]; [reflexivity | unfold isd in Hd0; lia]).
  assert (E42 : N.eqb d 42 = false) by (destruct Hd0 as [-> | Hd0]; [reflexivity | unfold isd in Hd0; lia]).
  assert (E63 : N.eqb d 63 = false) by (destruct Hd0 as [-> | Hd0]; [reflexivity | unfold isd in Hd0; lia]).
  assert (E44 : N.eqb d 44 = false) by (destruct Hd0 as [-> | Hd0]; [reflexivity | unfold isd in Hd0; lia]).
  assert (E58 : N.eqb d 58 = false) by (destruct Hd0 as [-> | Hd0]; [reflexivity | unfold isd in Hd0; lia]).
  assert (E39 : N.eqb d 39 = false) by (destruct Hd0 as [-> | Hd0]; [reflexivity | unfold isd in Hd0; lia]).
  assert (E34 : N.eqb d 34 = false) by (destruct Hd0 as [-> | Hd0]; [reflexivity | unfold isd in Hd0; lia]).
  rewrite E93, E42, E63, E44, E58, E39, E34.
  change (l_backup (LX (ds' ++ c :: r) [d] q (q + 1) bs T)) with (Some (LX (d :: ds' ++ c :: r) [] q (q + 1 - 1) bs T)). cbv iota.
  unfold l_accept_match. cbn [l_rest LX]. change (d :: ds' ++ c :: r) with ((d :: ds') ++ c :: r). rewrite Hm.
  unfold l_advance. cbn [l_rest l_cur LX]. unfold zlen at 1. rewrite Nat2Z.id.
  rewrite LexInv.skipn_push_spec by (rewrite app_length; lia). rewrite skipn_len_app, firstn_len_app.
  unfold l_emit, l_ignore, add_tok, upd_text, tk, LX. cbn [l_rest l_cur l_start l_pos l_fdepth l_ffd l_fcs l_bs l_toks].
  rewrite app_nil_r, rev_involutive. replace (q + 1 - 1 + zlen (d :: ds')) with (q + zlen (d :: ds')) by lia. reflexivity.
Qed.

Lemma step_seg_dotdot r p T : lex_step SSegment (LX (46%N :: 46%N :: r) [] p p bs0 T)
  = LNext SDescendant (LX r [] (p + 1 + 1) (p + 1 + 1) bs0 (tk T_DOUBLE_DOT [46%N; 46%N] p :: T)).
Proof. cbn [lex_step]. rewrite ignore_ws_nonws by reflexivity. reflexivity. Qed.
Lemma step_desc_open r p T : lex_step SDescendant (LX (91%N :: r) [] p p bs0 T)
  = LNext SBracket (LX r [] (p + 1) (p + 1) ((91%N, p + 1 - 1) :: bs0) (tk T_LBRACKET [91%N] p :: T)).
Proof. reflexivity. Qed.

(* --- one selector ------------------------------------------------------------------------------------------------------------ *)
Definition sel_ok (s : sel) : Prop :=
  match s with SName k => forallb is_scalar k = true | SFilter _ => False | _ => True end.
Definition opt_tok (o : option Z) (p : Z) : list token := match o with Some x => [tk T_INDEX (repr_int x) p] | None => [] end.
Definition step1 (c : option Z) : Z := match c with Some x => x | None => 1 end.
Definition sel_toks (s : sel) (p : Z) : list token :=
  match s with
  | SName k => [tk T_SQ_STRING (flat_map norm_char k) (p + 1)]
  | SIndex i => [tk T_INDEX (repr_int i) p]
  | SWild => [tk T_WILD [42%N] p]
  | SSlice a b c =>
      let la := zlen (opt_int_str a []) in let lb := zlen (opt_int_str b []) in
      opt_tok a p ++ [tk T_COLON [58%N] (p + la)] ++ opt_tok b (p + la + 1) ++ [tk T_COLON [58%N] (p + la + 1 + lb)]
      ++ [tk T_INDEX (repr_int (step1 c)) (p + la + 1 + lb + 1)]
  | SFilter _ => []
  end.

Lemma lex_steps_0 st l : lex_steps 0 st l = LNext st l. Proof. reflexivity. Qed.

Lemma lex_opt_int o c r p bs T : isd c = false ->
  exists n, (n <= 1)%nat /\
    lex_steps n SBracket (LX (opt_int_str o [] ++ c :: r) [] p p bs T)
    = LNext SBracket (LX (c :: r) [] (p + zlen (opt_int_str o [])) (p + zlen (opt_int_str o [])) bs (rev (opt_tok o p) ++ T)).
Proof.
  intros Hc. destruct o as [x|]; cbn [opt_int_str opt_tok rev app].
  - exists 1%nat. split; [lia|]. rewrite lex_steps_1. apply (step_bracket_int _ x); [apply repr_int_ok | exact Hc].
  - exists 0%nat. split; [lia|]. rewrite lex_steps_0. f_equal. change (zlen (@nil N)) with 0. apply LX_pos. lia.
Qed.

Lemma opt_step_text c : opt_int_str c [49%N] = repr_int (step1 c).
Proof. destruct c; reflexivity. Qed.

Lemma sel_str_name k : sel_str (SName k) = 39%N :: flat_map norm_char k ++ [39%N].
Proof. cbn [sel_str]. rewrite canonical_string_is_norm_name. reflexivity. Qed.

Lemma lex_sel s c r p i0 T : sel_ok s -> (c = 44%N \/ c = 93%N) ->
  exists n, (n <= length (sel_str s) + 2)%nat /\
    lex_steps n SBracket (LX (sel_str s ++ c :: r) [] p p ((91%N, i0) :: bs0) T)
    = LNext SBracket (LX (c :: r) [] (p + zlen (sel_str s)) (p + zlen (sel_str s)) ((91%N, i0) :: bs0) (rev (sel_toks s p) ++ T)).
Proof.
  intros Hok Hc. assert (Hcd : isd c = false) by (destruct Hc as [-> | ->]; reflexivity).
  destruct s as [k|i|a b st| |e]; cbn [sel_ok] in Hok; [| | | |contradiction].
  - (* name *) rewrite sel_str_name. set (body := flat_map norm_char k).
    set (l1 := LX (body ++ 39%N :: c :: r) [39%N] p (p + 1) ((91%N, i0) :: bs0) T).
    destruct (lex_string_literal 39 false l1 body (c :: r) (or_introl eq_refl) eq_refl (lex_ok_norm k Hok)) as [n [Hn Hs]].
    exists (1 + n)%nat. split; [cbn [length]; rewrite app_length; cbn [length]; lia|].
    cbn [app]. rewrite <- app_assoc. cbn [app].
    rewrite (lex_steps_app 1 n _ _ _ _ (eq_trans (lex_steps_1 _ _) (step_bracket_quote _ p _ _))). fold l1. rewrite Hs.
    change (after false) with SBracket. f_equal. cbn [sel_toks rev app]. fold body.
    transitivity (LX (c :: r) [] (p + 1 + zlen body + 1) (p + 1 + zlen body + 1) ((91%N, i0) :: bs0) (tk T_SQ_STRING body (p + 1) :: T)); [reflexivity|].
    apply LX_pos. unfold zlen. cbn [length]. rewrite app_length. cbn [length]. lia.
  - (* index *) exists 1%nat. split; [lia|]. rewrite lex_steps_1. cbn [sel_str sel_toks rev app]. apply (step_bracket_int _ i); [apply repr_int_ok | exact Hcd].
  - (* slice *) cbn [sel_str sel_toks]. rewrite opt_step_text. set (ta := opt_int_str a []). set (tb := opt_int_str b []). set (tc := repr_int (step1 st)).
    assert (Htxt : (ta ++ [58%N] ++ tb ++ [58%N] ++ tc) ++ c :: r = ta ++ 58%N :: tb ++ 58%N :: tc ++ c :: r) by (rewrite <- !app_assoc; reflexivity).
    rewrite Htxt.
    destruct (lex_opt_int a 58%N (tb ++ 58%N :: tc ++ c :: r) p ((91%N, i0) :: bs0) T eq_refl) as (n1 & Hn1 & E1). fold ta in E1.
    pose proof (step_bracket_char 58%N T_COLON (tb ++ 58%N :: tc ++ c :: r) (p + zlen ta) ((91%N, i0) :: bs0) (rev (opt_tok a p) ++ T) ltac:(right; right; split; reflexivity)) as E2.
    destruct (lex_opt_int b 58%N (tc ++ c :: r) (p + zlen ta + 1) ((91%N, i0) :: bs0) (tk T_COLON [58%N] (p + zlen ta) :: rev (opt_tok a p) ++ T) eq_refl) as (n3 & Hn3 & E3). fold tb in E3.
    pose proof (step_bracket_char 58%N T_COLON (tc ++ c :: r) (p + zlen ta + 1 + zlen tb) ((91%N, i0) :: bs0) (rev (opt_tok b (p + zlen ta + 1)) ++ tk T_COLON [58%N] (p + zlen ta) :: rev (opt_tok a p) ++ T) ltac:(right; right; split; reflexivity)) as E4.
    pose proof (step_bracket_int tc (step1 st) c r (p + zlen ta + 1 + zlen tb + 1) ((91%N, i0) :: bs0) (tk T_COLON [58%N] (p + zlen ta + 1 + zlen tb) :: rev (opt_tok b (p + zlen ta + 1)) ++ tk T_COLON [58%N] (p + zlen ta) :: rev (opt_tok a p) ++ T) (repr_int_ok _) Hcd) as E5.
    assert (Htc : (1 <= length tc)%nat) by (destruct (repr_int_ok (step1 st)) as [Hne _]; fold tc in Hne; destruct tc; [congruence | cbn [length]; lia]).
    exists (n1 + (1 + (n3 + (1 + 1))))%nat. split; [rewrite !app_length; cbn [length]; lia|].
    rewrite (lex_steps_app n1 _ _ _ _ _ E1). rewrite (lex_steps_app 1 _ _ _ _ _ (eq_trans (lex_steps_1 _ _) E2)).
    rewrite (lex_steps_app n3 _ _ _ _ _ E3). rewrite (lex_steps_app 1 _ _ _ _ _ (eq_trans (lex_steps_1 _ _) E4)).
    rewrite lex_steps_1, E5. f_equal.
    rewrite (LX_pos (c :: r) [] (p + zlen ta + 1 + zlen tb + 1 + zlen tc) (p + zlen (ta ++ [58%N] ++ tb ++ [58%N] ++ tc))) by (rewrite !zl_app; unfold zlen; cbn [length]; lia).
    f_equal. rewrite !rev_app_distr. cbn [rev app]. rewrite <- !app_assoc. reflexivity.
  - (* wildcard *) exists 1%nat. split; [lia|]. rewrite lex_steps_1. cbn [sel_str sel_toks rev app]. apply step_bracket_char. left. split; reflexivity.
Qed.

(* --- a bracketed list of selectors, a segment, a query -------------------------------------------------------------------------- *)
Definition sels_text (ss : list sel) : str := str_join [44; 32]%N (map sel_str ss).
Fixpoint sels_toks (ss : list sel) (p : Z) : list token :=
  match ss with
  | [] => []
  | s :: rest =>
      match rest with
      | [] => sel_toks s p
      | _ => sel_toks s p ++ tk T_COMMA [44%N] (p + zlen (sel_str s)) :: sels_toks rest (p + zlen (sel_str s) + 2)
      end
  end.

Lemma sel_str_head s : sel_ok s -> exists c r, sel_str s = c :: r /\ in_ranges c ws_ranges = false.
Proof.
  destruct s as [k|i|a b st| |e]; cbn [sel_ok]; intros H; [| | | |contradiction].
  - rewrite sel_str_name. eexists; eexists; split; reflexivity.
  - destruct (repr_int_ok i) as (Hne & _ & (sign & body & E & Hs & Hb & Hd) & _). cbn [sel_str]. rewrite E.
    destruct Hs as [-> | ->]; cbn [app]; [|eexists; eexists; split; reflexivity].
    destruct body as [|d ds]; [congruence|]. cbn [forallb] in Hd. apply andb_true_iff in Hd as [Hd _]. unfold isd in Hd.
    eexists; eexists; split; [reflexivity|]. cbn [in_ranges ws_ranges]. lia.
  - cbn [sel_str]. destruct a as [x|]; cbn [opt_int_str app]; [|eexists; eexists; split; reflexivity].
    destruct (repr_int_ok x) as (Hne & _ & (sign & body & E & Hs & Hb & Hd) & _). rewrite E.
    destruct Hs as [-> | ->]; cbn [app]; [|eexists; eexists; split; reflexivity].
    destruct body as [|d ds]; [congruence|]. cbn [forallb] in Hd. apply andb_true_iff in Hd as [Hd _]. unfold isd in Hd.
    eexists; eexists; split; [reflexivity|]. cbn [in_ranges ws_ranges]. lia.
  - eexists; eexists; split; reflexivity.
Qed.

Lemma lex_steps_ws n c r p bs T : in_ranges c ws_ranges = false ->
  lex_steps (S n) SBracket (LX (32%N :: c :: r) [] p p bs T) = lex_steps (S n) SBracket (LX (c :: r) [] (p + 1) (p + 1) bs T).
Proof. intros H. cbn [lex_steps]. rewrite (sbracket_ws c r p bs T H). reflexivity. Qed.

Lemma lex_sels : forall ss r p i0 T, ss <> [] -> Forall sel_ok ss ->
  exists n, (1 <= n)%nat /\ (n <= length (sels_text ss) + 2 * length ss)%nat /\
    lex_steps n SBracket (LX (sels_text ss ++ 93%N :: r) [] p p ((91%N, i0) :: bs0) T)
    = LNext SBracket (LX (93%N :: r) [] (p + zlen (sels_text ss)) (p + zlen (sels_text ss)) ((91%N, i0) :: bs0) (rev (sels_toks ss p) ++ T)).
Proof.
  induction ss as [|s rest IH]; intros r p i0 T Hne Hok; [congruence|]. inversion Hok as [|s0 l0 Hs Hrest]; subst.
  destruct rest as [|s2 rest'].
  - unfold sels_text. cbn [map str_join flat_map sels_toks]. rewrite app_nil_r.
    destruct (lex_sel s 93%N r p i0 T Hs (or_intror eq_refl)) as (n & Hn & E).
    assert (1 <= n)%nat. { destruct n; [|lia]. rewrite lex_steps_0 in E. inversion E as [E1]. destruct (sel_str_head s Hs) as (c & r0 & Ec & _). rewrite Ec in E1. cbn [app] in E1.
      apply (f_equal (@length _)) in E1. cbn [length] in E1. rewrite app_length in E1. cbn [length] in E1. lia. }
    exists n. cbn [length]. repeat split; try lia. exact E.
  - assert (Htxt : sels_text (s :: s2 :: rest') = sel_str s ++ 44%N :: 32%N :: sels_text (s2 :: rest')).
    { unfold sels_text. cbn [map str_join flat_map]. cbn [app]. reflexivity. }
    rewrite Htxt. rewrite <- app_assoc. cbn [app].
    destruct (lex_sel s 44%N (32%N :: sels_text (s2 :: rest') ++ 93%N :: r) p i0 T Hs (or_introl eq_refl)) as (n1 & Hn1 & E1).
    pose proof (step_bracket_char 44%N T_COMMA (32%N :: sels_text (s2 :: rest') ++ 93%N :: r) (p + zlen (sel_str s)) ((91%N, i0) :: bs0) (rev (sel_toks s p) ++ T) ltac:(right; left; split; reflexivity)) as E2.
    destruct (IH r (p + zlen (sel_str s) + 1 + 1) i0 (tk T_COMMA [44%N] (p + zlen (sel_str s)) :: rev (sel_toks s p) ++ T) ltac:(discriminate) Hrest) as (n3 & Hn3a & Hn3b & E3).
    destruct n3 as [|n3']; [lia|].
    assert (Hhd : exists c r0, sels_text (s2 :: rest') = c :: r0 /\ in_ranges c ws_ranges = false).
    { inversion Hrest; subst. destruct (sel_str_head s2 H1) as (c & r0 & Ec & Hc). unfold sels_text. cbn [map str_join]. rewrite Ec. cbn [app]. eauto. }
    destruct Hhd as (c & r0 & Ec & Hc).
    exists (n1 + (1 + S n3'))%nat. repeat split; [lia | |].
    + rewrite app_length. cbn [length] in *. lia.
    + rewrite (lex_steps_app n1 _ _ _ _ _ E1). rewrite (lex_steps_app 1 _ _ _ _ _ (eq_trans (lex_steps_1 _ _) E2)).
      rewrite Ec. cbn [app]. rewrite (lex_steps_ws n3' c _ _ _ _ Hc). rewrite Ec in E3. cbn [app] in E3. rewrite E3. f_equal.
      rewrite (LX_pos (93%N :: r) [] (p + zlen (sel_str s) + 1 + 1 + zlen (c :: r0)) (p + zlen (sel_str s ++ 44%N :: 32%N :: c :: r0))) by (rewrite zl_app; unfold zlen; cbn [length]; lia).
      f_equal. cbn [sels_toks]. rewrite rev_app_distr. cbn [rev]. rewrite <- !app_assoc. cbn [app].
      replace (p + zlen (sel_str s) + 2) with (p + zlen (sel_str s) + 1 + 1) by lia. reflexivity.
Qed.

Definition seg_sels (g : seg) : list sel := match g with Child ss | Desc ss => ss end.
Definition seg_ok (g : seg) : Prop := seg_sels g <> [] /\ Forall sel_ok (seg_sels g).
Definition seg_toks2 (g : seg) (p : Z) : list token :=
  match g with
  | Child ss => tk T_LBRACKET [91%N] p :: sels_toks ss (p + 1) ++ [tk T_RBRACKET [93%N] (p + 1 + zlen (sels_text ss))]
  | Desc ss => tk T_DOUBLE_DOT [46%N; 46%N] p :: tk T_LBRACKET [91%N] (p + 2) :: sels_toks ss (p + 3) ++ [tk T_RBRACKET [93%N] (p + 3 + zlen (sels_text ss))]
  end.
Lemma seg_str_text g : seg_str g = match g with Child ss => 91%N :: sels_text ss ++ [93%N] | Desc ss => [46; 46; 91]%N ++ sels_text ss ++ [93%N] end.
Proof.
  destruct g as [ss|ss]; cbn [seg_str]; unfold sels_text; do 2 f_equal; induction ss as [|s ss IH]; try reflexivity; cbn [map]; f_equal; exact IH.
Qed.

Lemma sels_text_len (ss : list sel) : (length ss <= length (sels_text ss) + 1)%nat.
Proof.
  unfold sels_text. destruct ss as [|s ss]; [cbn; lia|]. cbn [map str_join length]. rewrite app_length.
  assert (forall l : list str, length l <= length (flat_map (fun x => [44; 32]%N ++ x) l))%nat.
  { induction l as [|x l IH]; [cbn; lia|]. cbn [flat_map]. rewrite !app_length. cbn [length]. lia. }
  specialize (H (map sel_str ss)). rewrite map_length in H. lia.
Qed.

Lemma lex_seg g r p T : seg_ok g ->
  exists n, (1 <= n)%nat /\ (n <= 3 * length (seg_str g))%nat /\
    lex_steps n SSegment (LX (seg_str g ++ r) [] p p bs0 T)
    = LNext SSegment (LX r [] (p + zlen (seg_str g)) (p + zlen (seg_str g)) bs0 (rev (seg_toks2 g p) ++ T)).
Proof.
  intros [Hne Hok]. rewrite seg_str_text.
  pose proof sels_text_len as Hlen.
  destruct g as [ss|ss]; cbn [seg_sels] in *.
  - destruct (lex_sels ss r (p + 1) (p + 1 - 1) (tk T_LBRACKET [91%N] p :: T) Hne Hok) as (n & Hn1 & Hn2 & E).
    exists (1 + (n + 1))%nat. repeat split; [lia | cbn [length]; rewrite app_length; cbn [length]; specialize (Hlen ss); lia |].
    cbn [app]. rewrite <- app_assoc. cbn [app].
    rewrite (lex_steps_app 1 _ _ _ _ _ (eq_trans (lex_steps_1 _ _) (step_seg_open _ p T))).
    rewrite (lex_steps_app n 1 _ _ _ _ E). rewrite lex_steps_1, step_bracket_close. f_equal.
    rewrite (LX_pos r [] (p + 1 + zlen (sels_text ss) + 1) (p + zlen (91%N :: sels_text ss ++ [93%N]))) by (unfold zlen; cbn [length]; rewrite app_length; cbn [length]; lia).
    f_equal. cbn [seg_toks2 rev]. rewrite rev_app_distr. cbn [rev app]. rewrite <- !app_assoc. reflexivity.
  - destruct (lex_sels ss r (p + 1 + 1 + 1) (p + 1 + 1 + 1 - 1) (tk T_LBRACKET [91%N] (p + 1 + 1) :: tk T_DOUBLE_DOT [46%N; 46%N] p :: T) Hne Hok) as (n & Hn1 & Hn2 & E).
    exists (1 + (1 + (n + 1)))%nat. repeat split; [lia | cbn [length app]; rewrite app_length; cbn [length]; specialize (Hlen ss); lia |].
    cbn [app]. rewrite <- app_assoc. cbn [app].
    rewrite (lex_steps_app 1 _ _ _ _ _ (eq_trans (lex_steps_1 _ _) (step_seg_dotdot _ p T))).
    rewrite (lex_steps_app 1 _ _ _ _ _ (eq_trans (lex_steps_1 _ _) (step_desc_open _ (p + 1 + 1) _))).
    rewrite (lex_steps_app n 1 _ _ _ _ E). rewrite lex_steps_1, step_bracket_close. f_equal.
    rewrite (LX_pos r [] (p + 1 + 1 + 1 + zlen (sels_text ss) + 1) (p + zlen (46%N :: 46%N :: 91%N :: sels_text ss ++ [93%N]))) by (unfold zlen; cbn [length]; rewrite app_length; cbn [length]; lia).
    f_equal. cbn [seg_toks2 rev]. rewrite rev_app_distr. cbn [rev app]. rewrite <- !app_assoc. cbn [app].
    replace (p + 2) with (p + 1 + 1) by lia. replace (p + 3) with (p + 1 + 1 + 1) by lia. reflexivity.
Qed.

Fixpoint q_toks (q : list seg) (p : Z) : list token :=
  match q with
  | [] => [tk T_EOF [] p]
  | g :: q' => seg_toks2 g p ++ q_toks q' (p + zlen (seg_str g))
  end.

Lemma lex_query : forall q p T, Forall seg_ok q ->
  exists n, (1 <= n)%nat /\ (n <= 3 * length (flat_map seg_str q) + 1)%nat /\
    lex_steps n SSegment (LX (flat_map seg_str q) [] p p bs0 T)
    = LStop (LX [] [] (p + zlen (flat_map seg_str q)) (p + zlen (flat_map seg_str q)) bs0 (rev (q_toks q p) ++ T)).
Proof.
  induction q as [|g q IH]; intros p T H.
  - exists 1%nat. cbn [flat_map length q_toks rev app]. repeat split; try lia. rewrite lex_steps_1, step_seg_eof.
    f_equal. change (zlen (@nil N)) with 0. rewrite (LX_pos [] [] (p + 0) p) by lia. reflexivity.
  - inversion H as [|g' q' Hg Hq]; subst. cbn [flat_map q_toks].
    destruct (lex_seg g (flat_map seg_str q) p T Hg) as (n1 & Hn1a & Hn1b & E1).
    destruct (IH (p + zlen (seg_str g)) (rev (seg_toks2 g p) ++ T) Hq) as (n2 & Hn2a & Hn2b & E2).
    exists (n1 + n2)%nat. repeat split; [lia | rewrite app_length; lia |].
    rewrite (lex_steps_app n1 n2 _ _ _ _ E1), E2. f_equal.
    rewrite rev_app_distr, <- app_assoc.
    rewrite (LX_pos [] [] (p + zlen (seg_str g) + zlen (flat_map seg_str q)) (p + zlen (seg_str g ++ flat_map seg_str q))) by (rewrite zl_app; lia).
    reflexivity.
Qed.

End LexGenR.

Theorem tokenize_str q : Forall seg_ok q -> m_tokenize (m_str q) = Ok (tk T_ROOT [36%N] 0 :: q_toks q 1).
Proof.
  intros H. unfold m_tokenize, m_str.
  destruct (lex_query 0 [] [] [] q 1 [tk T_ROOT [36%N] 0] H) as (n & Hn & Hn1 & E).
  assert (Hrun : lex_steps (1 + n) SRoot (lexer_init (36%N :: flat_map seg_str q))
                 = LStop (LX 0 [] [] [] [] (1 + zlen (flat_map seg_str q)) (1 + zlen (flat_map seg_str q)) [] (rev (q_toks q 1) ++ [tk T_ROOT [36%N] 0]))).
  { change (lexer_init (36%N :: flat_map seg_str q)) with (LX 0 [] [] (36%N :: flat_map seg_str q) [] 0 0 [] []).
    rewrite (lex_steps_app 1 n _ _ _ _ (eq_trans (lex_steps_1 _ _) (step_root 0 [] [] _))). exact E. }
  assert (Hle : (1 + n <= lex_fuel (36%N :: flat_map seg_str q))%nat) by (unfold lex_fuel; cbn [length]; lia).
  rewrite (lex_run_ge (1 + n) _ _ _ _ Hle Hrun). cbn [bind l_toks l_bs LX].
  assert (Hrev : exists t ts, rev (q_toks q 1) ++ [tk T_ROOT [36%N] 0] = t :: ts /\ ty t = T_EOF).
  { clear. generalize 1. induction q as [|g q IH]; intros p; cbn [q_toks rev app].
    - eexists; eexists; split; reflexivity.
    - destruct (IH (p + zlen (seg_str g))) as (t & ts & Et & Hty). rewrite rev_app_distr, <- app_assoc.
      destruct (rev (q_toks q (p + zlen (seg_str g)))) as [|t' ts'] eqn:Er.
      + exfalso. apply (f_equal (@length token)) in Er. rewrite rev_length in Er. destruct q; cbn [q_toks length] in Er; [discriminate|]. rewrite app_length in Er. destruct s; cbn [seg_toks2 length] in Er; lia.
      + cbn [app] in *. inversion Et; subst. eexists; eexists; split; [reflexivity | exact Hty]. }
  destruct Hrev as (t & ts & Et & Hty). rewrite Et, Hty. change (ttype_eqb T_EOF T_ERROR) with false. cbv iota.
  rewrite <- Et. rewrite rev_app_distr, rev_involutive. reflexivity.
Qed.

(* --- the parser on those tokens ------------------------------------------------------------------------------------------------- *)
Definition SP (c n : token) (r : list token) : stream := {| cur := c; pushed := [n]; rest := r |}.
Ltac ssimpl2 := cbn [SS SP adv s_next s_peek s_push after_peek peek_ty cty is_ty err_cur err_peek cur pushed rest ty tval tidx tk
                     ttype_eqb ttype_code Z.eqb Pos.eqb fst snd pbind app]; zeqb; cbn [negb orb andb]; cbv iota.

Section Reparse.
Variable cfg : envcfg.

Definition canon_sel (s : sel) : sel := match s with SSlice a b c => SSlice a b (Some (step1 c)) | _ => s end.
Definition sel_range (s : sel) : Prop :=
  match s with
  | SIndex i => in_range cfg i = true
  | SSlice a b c => (match a with Some x => in_range cfg x = true | None => True end) /\
                    (match b with Some x => in_range cfg x = true | None => True end) /\ in_range cfg (step1 c) = true
  | _ => True
  end.

(* stream operations on the two shapes that occur *)
Lemma teqb_false (t u : ttype) : t <> u -> (ttype_code t =? ttype_code u) = false.
Proof. intros H. destruct t, u; try reflexivity; congruence. Qed.
Lemma next_SS c t r : ty c <> T_EOF -> s_next (SS c (t :: r)) = (c, SS t r).
Proof. intros H. unfold s_next, SS. cbn [cur pushed rest]. unfold ttype_eqb. rewrite (teqb_false _ _ H). reflexivity. Qed.
Lemma next_SP c n r : s_next (SP c n r) = (c, SS n r). Proof. reflexivity. Qed.
Lemma adv_SS c t r : ty c <> T_EOF -> adv (SS c (t :: r)) = SS t r.
Proof. intros H. unfold adv. rewrite next_SS by exact H. reflexivity. Qed.
Lemma adv_SP c n r : adv (SP c n r) = SS n r. Proof. reflexivity. Qed.
Lemma peek_SS c t r : ty c <> T_EOF -> s_peek (SS c (t :: r)) = (t, SP c t r).
Proof. intros H. unfold s_peek. rewrite next_SS by exact H. reflexivity. Qed.
Lemma peek_SP c n r : s_peek (SP c n r) = (n, SP c n r). Proof. reflexivity. Qed.
Lemma peek_ty_SS c t r : ty c <> T_EOF -> peek_ty (SS c (t :: r)) = ty t.
Proof. intros H. unfold peek_ty. rewrite peek_SS by exact H. reflexivity. Qed.
Lemma peek_ty_SP c n r : peek_ty (SP c n r) = ty n. Proof. reflexivity. Qed.
Lemma after_peek_SS c t r : ty c <> T_EOF -> after_peek (SS c (t :: r)) = SP c t r.
Proof. intros H. unfold after_peek. rewrite peek_SS by exact H. reflexivity. Qed.
Lemma after_peek_SP c n r : after_peek (SP c n r) = SP c n r. Proof. reflexivity. Qed.

Ltac nt := first [ assumption | (cbn [ty tk]; discriminate) ].
Ltac strm := repeat first
  [ rewrite peek_ty_SP | rewrite after_peek_SP | rewrite adv_SP
  | rewrite peek_ty_SS by nt | rewrite after_peek_SS by nt | rewrite adv_SS by nt ].
Ltac tys := cbn [is_ty cty cur SS SP ty tk tval tidx ttype_eqb ttype_code Z.eqb Pos.eqb]; zeqb; cbn [negb orb andb]; cbv iota.

(* what follows a parsed selector inside the brackets *)
Definition tail (f : nat) (x : sel) (s : stream) : pres (list sel) :=
  if ttype_eqb (peek_ty s) T_EOF then PErr ESyntax (tidx (cur (after_peek s))) else
  let s := after_peek s in
  dop _, s <-
    (if negb (ttype_eqb (peek_ty s) T_RBRACKET) then
       if negb (ttype_eqb (peek_ty s) T_COMMA) then err_peek ESyntax s else
       let s := adv (after_peek (after_peek s)) in
       if ttype_eqb (peek_ty s) T_RBRACKET then err_peek ESyntax s else POk tt (after_peek s)
     else POk tt (after_peek s));
  dop xs, s <- p_bracket_loop cfg f (adv s);
  POk (x :: xs) s.

Lemma tail_close_SS f x c v i R : ty c <> T_EOF ->
  tail (S f) x (SS c (tk T_RBRACKET v i :: R)) = POk [x] (SS (tk T_RBRACKET v i) R).
Proof. intros Hc. unfold tail. cbv zeta. strm. tys. cbn [pbind]. strm. rewrite pl_close. reflexivity. Qed.
Lemma tail_close_SP f x c v i R :
  tail (S f) x (SP c (tk T_RBRACKET v i) R) = POk [x] (SS (tk T_RBRACKET v i) R).
Proof. unfold tail. cbv zeta. strm. tys. cbn [pbind]. strm. rewrite pl_close. reflexivity. Qed.
Lemma tail_comma_SS f x c vc ic y R : ty c <> T_EOF -> ty y <> T_RBRACKET ->
  tail f x (SS c (tk T_COMMA vc ic :: y :: R)) = dop xs, s <- p_bracket_loop cfg f (SS y R); POk (x :: xs) s.
Proof.
  intros Hc Hy. unfold tail. cbv zeta. strm. tys. unfold ttype_eqb. rewrite (teqb_false _ _ Hy). cbn [pbind]. strm. reflexivity.
Qed.
Lemma tail_comma_SP f x c vc ic y R : ty y <> T_RBRACKET ->
  tail f x (SP c (tk T_COMMA vc ic) (y :: R)) = dop xs, s <- p_bracket_loop cfg f (SS y R); POk (x :: xs) s.
Proof.
  intros Hy. unfold tail. cbv zeta. strm. tys. unfold ttype_eqb. rewrite (teqb_false _ _ Hy). cbn [pbind]. strm. reflexivity.
Qed.

Lemma pbl_unfold f s : p_bracket_loop cfg (S f) s =
  if is_ty T_RBRACKET s then POk [] s else
  dop x, s1 <-
    (match cty s with
     | T_INDEX =>
         if ttype_eqb (peek_ty s) T_COLON then p_slice cfg (after_peek s)
         else
           let s := after_peek s in
           let v := tval (cur s) in
           if ((1 <? zlen v) && starts_with [48%N] v) || starts_with [45%N; 48%N] v then err_cur ESyntax s
           else if in_range cfg (int_of_index v) then POk (SIndex (int_of_index v)) s
           else err_cur EIndex s
     | T_DQ_STRING | T_SQ_STRING =>
         match decode_string_literal (cur s) with
         | Ok nm => POk (SName nm) s
         | Err c _ => err_cur c s
         | Crash x => PCrash x s
         | OutOfFuel => PFuel
         end
     | T_COLON => p_slice cfg s
     | T_WILD => POk SWild s
     | T_FILTER => p_filter_selector cfg f s
     | _ => err_cur ESyntax s
     end);
  tail f x s1.
Proof. reflexivity. Qed.

Lemma mi_index s ds j i : cur s = tk T_INDEX ds j -> int_text_ok ds i -> maybe_index s = POk true s.
Proof.
  intros Ec (_ & _ & _ & F). unfold maybe_index, is_ty, cty. rewrite Ec. cbn [ty tk tval]. change (ttype_eqb T_INDEX T_INDEX) with true. cbv iota.
  destruct (1 <? zlen ds), (starts_with [48%N] ds), (starts_with [45%N; 48%N] ds); cbn in F |- *; try discriminate; reflexivity.
Qed.
Lemma mi_other s : ty (cur s) <> T_INDEX -> maybe_index s = POk false s.
Proof. intros H. unfold maybe_index, is_ty, cty, ttype_eqb. rewrite (teqb_false _ _ H). reflexivity. Qed.

Ltac mi := first [ erewrite mi_index; [ | reflexivity | apply repr_int_ok ] | rewrite mi_other by (cbn [cur SS SP ty tk]; nt) ].
Ltac stp := cbn [pbind]; cbv beta iota zeta; strm; tys.

Lemma int_of_repr i : int_of_index (repr_int i) = i.
Proof. destruct (repr_int_ok i) as (_ & H & _). exact H. Qed.

Lemma slice_SS x y k pa pb pk c1 c2 n r : ty n <> T_INDEX -> ty n <> T_COLON -> ty n <> T_EOF ->
  in_range cfg x = true -> in_range cfg y = true -> in_range cfg k = true ->
  p_slice cfg (SP (tk T_INDEX (repr_int x) pa) (tk T_COLON [58%N] c1) (tk T_INDEX (repr_int y) pb :: tk T_COLON [58%N] c2 :: tk T_INDEX (repr_int k) pk :: n :: r))
  = POk (SSlice (Some x) (Some y) (Some k)) (SP n n r).
Proof.
  intros H1 H2 H3 Rx Ry Rk. unfold p_slice. mi. stp. mi. stp. mi. stp. rewrite !int_of_repr, Rx, Ry, Rk. reflexivity.
Qed.

Lemma slice_SN x k pa pk c1 c2 n r : ty n <> T_INDEX -> ty n <> T_COLON -> ty n <> T_EOF ->
  in_range cfg x = true -> in_range cfg k = true ->
  p_slice cfg (SP (tk T_INDEX (repr_int x) pa) (tk T_COLON [58%N] c1) (tk T_COLON [58%N] c2 :: tk T_INDEX (repr_int k) pk :: n :: r))
  = POk (SSlice (Some x) None (Some k)) (SP n n r).
Proof.
  intros H1 H2 H3 Rx Rk. unfold p_slice. mi. stp. mi. stp. mi. stp. rewrite !int_of_repr, Rx, Rk. reflexivity.
Qed.
Lemma slice_NS y k pb pk c1 c2 n r : ty n <> T_INDEX -> ty n <> T_COLON -> ty n <> T_EOF ->
  in_range cfg y = true -> in_range cfg k = true ->
  p_slice cfg (SS (tk T_COLON [58%N] c1) (tk T_INDEX (repr_int y) pb :: tk T_COLON [58%N] c2 :: tk T_INDEX (repr_int k) pk :: n :: r))
  = POk (SSlice None (Some y) (Some k)) (SP n n r).
Proof.
  intros H1 H2 H3 Ry Rk. unfold p_slice. mi. stp. mi. stp. mi. stp. rewrite !int_of_repr, Ry, Rk. reflexivity.
Qed.
Lemma slice_NN k pk c1 c2 n r : ty n <> T_INDEX -> ty n <> T_COLON -> ty n <> T_EOF ->
  in_range cfg k = true ->
  p_slice cfg (SS (tk T_COLON [58%N] c1) (tk T_COLON [58%N] c2 :: tk T_INDEX (repr_int k) pk :: n :: r))
  = POk (SSlice None None (Some k)) (SP n n r).
Proof.
  intros H1 H2 H3 Rk. unfold p_slice. mi. stp. mi. stp. mi. stp. rewrite !int_of_repr, Rk. reflexivity.
Qed.

Definition after_sel (n : token) (r : list token) (S1 : stream) : Prop :=
  (exists c, S1 = SS c (n :: r) /\ ty c <> T_EOF) \/ (exists c, S1 = SP c n r).

Lemma sel_parse f s p n r : sel_ok s -> sel_range s -> (ty n = T_COMMA \/ ty n = T_RBRACKET) ->
  exists t0 ts S1, sel_toks s p = t0 :: ts /\
    p_bracket_loop cfg (S f) (SS t0 (ts ++ n :: r)) = tail f (canon_sel s) S1 /\ after_sel n r S1.
Proof.
  intros Hok Hr Hn.
  assert (N1 : ty n <> T_INDEX) by (destruct Hn as [-> | ->]; discriminate).
  assert (N2 : ty n <> T_COLON) by (destruct Hn as [-> | ->]; discriminate).
  assert (N3 : ty n <> T_EOF) by (destruct Hn as [-> | ->]; discriminate).
  destruct s as [k|i|a b c| |e]; cbn [sel_ok sel_range canon_sel] in *; [| | | |contradiction].
  - (* name *) eexists; eexists; eexists. split; [reflexivity|]. cbn [app]. split.
    + rewrite pbl_unfold. tys. change (tk T_SQ_STRING (flat_map norm_char k) (p + 1)) with {| ty := T_SQ_STRING; tval := flat_map norm_char k; tidx := p + 1 |}.
      rewrite (decode_sq _ _ (lex_ok_norm k Hok)); [rewrite decode_norm_body by exact Hok; cbn [pbind]; reflexivity|].
      destruct (spec_lex_ok 39 (or_introl eq_refl) _ _ k (le_n _) (decode_norm_body k Hok)) as [_ B]. exact B.
    + left. eexists. split; [reflexivity | discriminate].
  - (* index *) destruct (repr_int_ok i) as (_ & _ & _ & F).
    eexists; eexists; eexists. split; [reflexivity|]. cbn [app]. split.
    + rewrite pbl_unfold. tys. strm. unfold ttype_eqb. rewrite (teqb_false _ _ N2). cbv iota zeta. tys. rewrite F, int_of_repr, Hr. cbn [pbind]. reflexivity.
    + right. eexists. reflexivity.
  - (* slice *) destruct Hr as (Ra & Rb & Rc). cbn [sel_toks].
    destruct a as [x|], b as [y|]; cbn [opt_tok opt_int_str app].
    + eexists; eexists; eexists. split; [reflexivity|]. cbn [app]. split; [|right; eexists; reflexivity].
      rewrite pbl_unfold. tys. strm. tys. rewrite (slice_SS x y (step1 c)); try assumption. cbn [pbind]. reflexivity.
    + eexists; eexists; eexists. split; [reflexivity|]. cbn [app]. split; [|right; eexists; reflexivity].
      rewrite pbl_unfold. tys. strm. tys. rewrite (slice_SN x (step1 c)); try assumption. cbn [pbind]. reflexivity.
    + eexists; eexists; eexists. split; [reflexivity|]. cbn [app]. split; [|right; eexists; reflexivity].
      rewrite pbl_unfold. tys. rewrite (slice_NS y (step1 c)); try assumption. cbn [pbind]. reflexivity.
    + eexists; eexists; eexists. split; [reflexivity|]. cbn [app]. split; [|right; eexists; reflexivity].
      rewrite pbl_unfold. tys. rewrite (slice_NN (step1 c)); try assumption. cbn [pbind]. reflexivity.
  - (* wildcard *) eexists; eexists; eexists. split; [reflexivity|]. cbn [app]. split.
    + rewrite pbl_unfold. tys. cbn [pbind]. reflexivity.
    + left. eexists. split; [reflexivity | discriminate].
Qed.

Lemma sel_toks_head s p : sel_ok s -> exists t0 ts, sel_toks s p = t0 :: ts /\ ty t0 <> T_RBRACKET /\ ty t0 <> T_EOF.
Proof.
  destruct s as [k|i|a b c| |e]; cbn [sel_ok sel_toks]; intros H; [| | | |contradiction];
    try (eexists; eexists; split; [reflexivity | split; discriminate]).
  destruct a; cbn [opt_tok app]; eexists; eexists; (split; [reflexivity | split; discriminate]).
Qed.
Lemma sels_toks_head ss p : ss <> [] -> Forall sel_ok ss -> exists t0 ts, sels_toks ss p = t0 :: ts /\ ty t0 <> T_RBRACKET /\ ty t0 <> T_EOF.
Proof.
  destruct ss as [|s rest]; [congruence|]. intros _ H. inversion H; subst. destruct (sel_toks_head s p H2) as (t0 & ts & E & A & B).
  cbn [sels_toks]. destruct rest; rewrite E; cbn [app]; eauto.
Qed.

Lemma sels_toks_cons2 s s2 r p : sels_toks (s :: s2 :: r) p
  = sel_toks s p ++ tk T_COMMA [44%N] (p + zlen (sel_str s)) :: sels_toks (s2 :: r) (p + zlen (sel_str s) + 2).
Proof. reflexivity. Qed.

Lemma sels_parse : forall ss p F v i R, ss <> [] -> Forall sel_ok ss -> Forall sel_range ss -> (2 * length ss + 1 <= F)%nat ->
  exists t0 ts, sels_toks ss p = t0 :: ts /\
    p_bracket_loop cfg F (SS t0 (ts ++ tk T_RBRACKET v i :: R)) = POk (map canon_sel ss) (SS (tk T_RBRACKET v i) R).
Proof.
  induction ss as [|s rest IH]; intros p F v i R Hne Hok Hrg HF; [congruence|].
  inversion Hok as [|s0 l0 Hs Hrest]; subst. inversion Hrg as [|s1 l1 Hr1 Hrrest]; subst.
  destruct rest as [|s2 rest'].
  - destruct F as [|[|f]]; try (cbn [length] in HF; lia).
    destruct (sel_parse (S f) s p (tk T_RBRACKET v i) R Hs Hr1 (or_intror eq_refl)) as (t0 & ts & S1 & Et & Ep & Ha).
    exists t0, ts. split; [cbn [sels_toks]; exact Et|]. rewrite Ep. cbn [map].
    destruct Ha as [(c & -> & Hc) | (c & ->)]; [apply tail_close_SS; exact Hc | apply tail_close_SP].
  - destruct F as [|f]; [cbn [length] in HF; lia|].
    destruct (IH (p + zlen (sel_str s) + 2) f v i R ltac:(discriminate) Hrest Hrrest ltac:(cbn [length] in *; lia)) as (t0' & ts' & Et' & Ep').
    destruct (sels_toks_head (s2 :: rest') (p + zlen (sel_str s) + 2) ltac:(discriminate) Hrest) as (t0'' & ts'' & Et'' & Hty & _).
    rewrite Et' in Et''. inversion Et''; subst t0'' ts''.
    destruct (sel_parse f s p (tk T_COMMA [44%N] (p + zlen (sel_str s))) (t0' :: ts' ++ tk T_RBRACKET v i :: R) Hs Hr1 (or_introl eq_refl)) as (t0 & ts & S1 & Et & Ep & Ha).
    exists t0, (ts ++ tk T_COMMA [44%N] (p + zlen (sel_str s)) :: t0' :: ts'). split.
    + rewrite sels_toks_cons2, Et, Et'. reflexivity.
    + rewrite <- app_assoc. cbn [app]. rewrite Ep. cbn [map].
      destruct Ha as [(c & -> & Hc) | (c & ->)]; [rewrite tail_comma_SS by assumption | rewrite tail_comma_SP by assumption]; rewrite Ep'; reflexivity.
Qed.

Definition canon_seg (g : seg) : seg := match g with Child ss => Child (map canon_sel ss) | Desc ss => Desc (map canon_sel ss) end.
Definition seg_range (g : seg) : Prop := Forall sel_range (seg_sels g).

Lemma q_toks_cons q p : exists t r, q_toks q p = t :: r /\ (q = [] -> ty t = T_EOF).
Proof. destruct q as [|g q]; cbn [q_toks]; [eauto|]. destruct g; cbn [seg_toks2 app]; eexists; eexists; (split; [reflexivity | discriminate]). Qed.

Lemma parse_q : forall q p F, Forall seg_ok q -> Forall seg_range q ->
  (fold_right (fun g a => 2 * length (seg_sels g) + 4 + a) 4 q <= F)%nat ->
  exists e, ty e = T_EOF /\
    p_query cfg F false (match q_toks q p with t :: r => SS t r | [] => SS eof_token [] end) = POk (map canon_seg q) (SS e []).
Proof.
  induction q as [|g q IH]; intros p F Hok Hrg HF.
  - destruct F as [|f]; [cbn [fold_right] in HF; lia|]. cbn [q_toks map]. exists (tk T_EOF [] p). split; [reflexivity|].
    rewrite p_query_S. tys. reflexivity.
  - inversion Hok as [|g0 l0 [Hne Hs] Hq]; subst. inversion Hrg as [|g1 l1 Hr Hrq]; subst. cbn [fold_right] in HF.
    destruct (q_toks_cons q (p + zlen (seg_str g))) as (t & r & Et & _).
    destruct F as [|[|f]]; try lia.
    destruct (IH (p + zlen (seg_str g)) (S f) Hq Hrq ltac:(lia)) as (e & He & Hpq). rewrite Et in Hpq.
    exists e. split; [exact He|]. cbn [q_toks map].
    destruct g as [ss|ss]; cbn [seg_sels seg_toks2 canon_seg] in *.
    + destruct (sels_parse ss (p + 1) f [93%N] (p + 1 + zlen (sels_text ss)) (t :: r) Hne Hs Hr ltac:(lia)) as (t0 & ts & Ets & Eps).
      rewrite Ets, Et. cbn [app]. rewrite <- app_assoc. cbn [app].
      rewrite p_query_S. tys. rewrite p_selectors_S. tys. cbv zeta. rewrite adv_SS by nt. rewrite Eps. cbn [pbind].
      destruct (map canon_sel ss) eqn:Em; [destruct ss; [congruence | discriminate]|]. rewrite <- Em. cbn [pbind].
      rewrite adv_SS by nt. rewrite Hpq. cbn [pbind]. reflexivity.
    + destruct (sels_parse ss (p + 3) f [93%N] (p + 3 + zlen (sels_text ss)) (t :: r) Hne Hs Hr ltac:(lia)) as (t0 & ts & Ets & Eps).
      rewrite Ets, Et. cbn [app]. rewrite <- app_assoc. cbn [app].
      rewrite p_query_S. tys. rewrite adv_SS by nt. rewrite p_selectors_S. tys. cbv zeta. rewrite adv_SS by nt. rewrite Eps. cbn [pbind].
      destruct (map canon_sel ss) eqn:Em; [destruct ss; [congruence | discriminate]|]. rewrite <- Em. cbn [pbind].
      rewrite adv_SS by nt. rewrite Hpq. cbn [pbind]. reflexivity.
Qed.

Lemma sels_toks_len : forall ss p, Forall sel_ok ss -> (length ss <= length (sels_toks ss p))%nat.
Proof.
  induction ss as [|s rest IH]; intros p H; [cbn; lia|]. inversion H as [|s0 l0 Hs Hrest]; subst.
  destruct (sel_toks_head s p Hs) as (t0 & ts & Es & _).
  destruct rest as [|s2 rest'].
  - cbn [sels_toks length]. rewrite Es. cbn [length]. lia.
  - rewrite sels_toks_cons2, app_length, Es. cbn [length]. specialize (IH (p + zlen (sel_str s) + 2) Hrest). cbn [length] in IH. lia.
Qed.
Lemma q_toks_length : forall q p, Forall seg_ok q -> (fold_right (fun g a => 2 * length (seg_sels g) + 4 + a) 4 q <= 6 * length (q_toks q p) + 10)%nat.
Proof.
  induction q as [|g q IH]; intros p H; cbn [fold_right q_toks length]; [lia|]. inversion H as [|g0 l0 [_ Hs] Hq]; subst.
  rewrite app_length. specialize (IH (p + zlen (seg_str g)) Hq).
  destruct g as [ss|ss]; cbn [seg_sels seg_toks2 length] in *; rewrite app_length; cbn [length].
  - pose proof (sels_toks_len ss (p + 1) Hs). lia.
  - pose proof (sels_toks_len ss (p + 3) Hs). lia.
Qed.

Theorem compile_str q : Forall seg_ok q -> Forall seg_range q -> m_compile cfg (m_str q) = Ok (map canon_seg q).
Proof.
  intros Hok Hrg. unfold m_compile. rewrite (tokenize_str q Hok). cbn [bind]. unfold p_parse. cbv zeta.
  destruct (q_toks_cons q 1) as (t & r & Et & _).
  destruct (parse_q q 1 (parse_fuel (tk T_ROOT [36%N] 0 :: q_toks q 1)) Hok Hrg) as (e & He & Hq).
  { unfold parse_fuel. cbn [length]. pose proof (q_toks_length q 1 Hok). lia. }
  rewrite Et in Hq. unfold stream_init. rewrite Et. tys.
  change {| cur := tk T_ROOT [36%N] 0; pushed := []; rest := t :: r |} with (SS (tk T_ROOT [36%N] 0) (t :: r)). rewrite adv_SS by nt.
  rewrite Hq. cbn [pbind]. destruct e as [te ve ie]. cbn [ty] in He. subst te. tys. reflexivity.
Qed.
End Reparse.

(* --- printing again, and selecting again ---------------------------------------------------------------------------------------- *)
Lemma sel_str_canon s : sel_str (canon_sel s) = sel_str s.
Proof. destruct s as [k|i|a b c| |e]; try reflexivity. cbn [canon_sel sel_str]. destruct c; reflexivity. Qed.
Lemma sels_text_canon ss : sels_text (map canon_sel ss) = sels_text ss.
Proof. unfold sels_text. rewrite map_map. f_equal. apply map_ext. intros s. apply sel_str_canon. Qed.
Lemma seg_str_canon g : seg_str (canon_seg g) = seg_str g.
Proof. rewrite !seg_str_text. destruct g as [ss|ss]; cbn [canon_seg]; rewrite sels_text_canon; reflexivity. Qed.
Theorem str_canon q : m_str (map canon_seg q) = m_str q.
Proof. unfold m_str. f_equal. induction q as [|g q IH]; [reflexivity|]. cbn [map flat_map]. rewrite seg_str_canon, IH. reflexivity. Qed.

From JP Require Import Spec.Slice.
Lemma s_sel_canon rg rxf root s n : s_sel rg rxf root (canon_sel s) n = s_sel rg rxf root s n.
Proof. destruct s as [k|i|a b c| |e]; reflexivity. Qed.
Lemma sels_canon rg rxf root n : forall ss,
  (fix go (ss : list sel) : list node := match ss with [] => [] | s :: ss' => s_sel rg rxf root s n ++ go ss' end) (map canon_sel ss)
  = (fix go (ss : list sel) : list node := match ss with [] => [] | s :: ss' => s_sel rg rxf root s n ++ go ss' end) ss.
Proof.
  set (go := fix go (ss : list sel) : list node := match ss with [] => [] | s :: ss' => s_sel rg rxf root s n ++ go ss' end).
  induction ss as [|s ss IH]; [reflexivity|]. cbn [map].
  change (go (canon_sel s :: map canon_sel ss)) with (s_sel rg rxf root (canon_sel s) n ++ go (map canon_sel ss)).
  change (go (s :: ss)) with (s_sel rg rxf root s n ++ go ss). rewrite s_sel_canon, IH. reflexivity.
Qed.
Lemma s_seg_canon rg rxf root g ns : s_seg rg rxf root (canon_seg g) ns = s_seg rg rxf root g ns.
Proof.
  destruct g as [ss|ss]; cbn [canon_seg s_seg].
  - apply flat_map_ext. intros n. apply sels_canon.
  - apply flat_map_ext. intros n. apply flat_map_ext. intros d. apply sels_canon.
Qed.
Theorem sem_canon rg rxf q v : sem rg rxf (map canon_seg q) v = sem rg rxf q v.
Proof.
  unfold sem, s_segs. generalize [(@nil key, v)]. induction q as [|g q IH]; intros ns; [reflexivity|].
  cbn [map run_segs_s]. rewrite s_seg_canon. apply IH.
Qed.
