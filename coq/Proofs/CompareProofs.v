(* C06: the model of _compare/_eq/_lt equals the RFC comparison table. *)
From JP Require Import Base.Json Model.Ast Model.Compare Model.Eval Spec.Compare.

(* --- names as sets ------------------------------------------------------- *)
Lemma existsb_str_in k ks : existsb (str_eqb k) ks = true <-> In k ks.
Proof.
  rewrite existsb_exists. split.
  - intros [x [Hx He]]. apply str_eqb_eq in He. subst. exact Hx.
  - intros H. exists k. split; [exact H | apply str_eqb_refl].
Qed.

Lemma names_distinct_NoDup ks : names_distinct ks = true -> NoDup ks.
Proof.
  induction ks as [|k ks IH]; cbn [names_distinct]; intros H; constructor.
  - apply andb_true_iff in H as [H _]. apply negb_true_iff in H. intros Hin.
    apply existsb_str_in in Hin. congruence.
  - apply IH. apply andb_true_iff in H as [_ H]. exact H.
Qed.

Lemma find_assoc_some_in {A} k (m : list (str * A)) v : find_assoc k m = Some v -> In k (map fst m).
Proof.
  induction m as [|[k' x] m IH]; cbn [find_assoc map fst In]; [discriminate|].
  destruct (str_eqb k k') eqn:E; intros H; [left; apply str_eqb_eq in E; congruence | right; apply IH; exact H].
Qed.
Lemma find_assoc_in_some {A} k (m : list (str * A)) : In k (map fst m) -> exists v, find_assoc k m = Some v.
Proof.
  induction m as [|[k' x] m IH]; cbn [find_assoc map fst In]; [tauto|].
  destruct (str_eqb k k') eqn:E; [eauto|]. intros [H|H]; [subst; rewrite str_eqb_refl in E; discriminate | apply IH; exact H].
Qed.

(* the two formulations of "x's members are found equal in y" share this loop *)
Definition members_in (eq : json -> json -> bool) (y : list (str * json)) :=
  fix go (x : list (str * json)) : bool :=
    match x with
    | [] => true
    | (k, v) :: x' => match find_assoc k y with Some v' => eq v v' && go x' | None => false end
    end.

Lemma members_in_incl eq y x : members_in eq y x = true -> incl (map fst x) (map fst y).
Proof.
  induction x as [|[k v] x IH]; cbn [members_in map fst]; intros H a Ha; [destruct Ha|].
  destruct (find_assoc k y) as [v'|] eqn:Ef; [|discriminate]. apply andb_true_iff in H as [_ H].
  destruct Ha as [<-|Ha]; [eapply find_assoc_some_in; exact Ef | apply IH; assumption].
Qed.

Lemma members_in_ext eq1 eq2 y x :
  Forall (fun kv => forall b, eq1 (snd kv) b = eq2 (snd kv) b) x -> members_in eq1 y x = members_in eq2 y x.
Proof.
  induction 1 as [|[k v] x Hk _ IH]; cbn [members_in]; [reflexivity|].
  destruct (find_assoc k y); [|reflexivity]. cbn [snd] in Hk. rewrite Hk, IH. reflexivity.
Qed.

(* Python dict equality (same number of keys, every left key found equal on the right) is map equality
   when names are distinct *)
Lemma dict_eq_is_map_eq eq x y :
  names_distinct (map fst x) = true -> names_distinct (map fst y) = true ->
  ((length x =? length y)%nat && members_in eq y x)
  = (members_in eq y x && forallb (fun k => existsb (str_eqb k) (map fst x)) (map fst y)).
Proof.
  intros Hx Hy. apply names_distinct_NoDup in Hx, Hy.
  destruct (members_in eq y x) eqn:Em; [|rewrite andb_false_r; reflexivity].
  rewrite andb_true_r. cbn [andb]. pose proof (members_in_incl _ _ _ Em) as Hincl.
  destruct (forallb (fun k => existsb (str_eqb k) (map fst x)) (map fst y)) eqn:Ef.
  - rewrite forallb_forall in Ef.
    assert (Hincl' : incl (map fst y) (map fst x)) by (intros k Hk; apply existsb_str_in; apply Ef; exact Hk).
    pose proof (NoDup_incl_length Hx Hincl). pose proof (NoDup_incl_length Hy Hincl').
    rewrite !map_length in *. apply Nat.eqb_eq. lia.
  - apply Nat.eqb_neq. intros Hlen. assert (forallb (fun k => existsb (str_eqb k) (map fst x)) (map fst y) = true); [|congruence].
    apply forallb_forall. intros k Hk. apply existsb_str_in.
    apply (NoDup_length_incl (l := map fst x) (l' := map fst y) Hx); [rewrite !map_length; lia | exact Hincl | exact Hk].
Qed.

Lemma m_json_eq_spec : forall a b, wf_json a = true -> wf_json b = true -> m_json_eq a b = json_eq a b.
Proof.
  induction a as [| x | n | s | l IH | m IH] using json_ind'; intros b Ha Hb; destruct b as [| y | n' | s' | l' | m'];
    try reflexivity.
  - (* arrays *)
    cbn [m_json_eq json_eq]. cbn [wf_json] in Ha, Hb. revert l' Hb.
    induction IH as [|x l Px _ IHl]; intros l' Hb; destruct l' as [|y l']; try reflexivity.
    cbn [forallb] in Ha, Hb. apply andb_true_iff in Ha as [Ha1 Ha2]. apply andb_true_iff in Hb as [Hb1 Hb2].
    rewrite Px by assumption. f_equal. apply IHl; assumption.
  - (* objects *)
    cbn [m_json_eq json_eq]. cbn [wf_json] in Ha, Hb.
    apply andb_true_iff in Ha as [Ha1 Ha2]. apply andb_true_iff in Hb as [Hb1 Hb2].
    change ((length m =? length m')%nat && members_in m_json_eq m' m
            = (members_in json_eq m' m && forallb (fun k => existsb (str_eqb k) (map fst m)) (map fst m'))).
    rewrite <- dict_eq_is_map_eq by assumption. f_equal.
    (* pointwise agreement on members, using wf of the values found in m' *)
    clear Ha1 Hb1. revert Ha2. induction IH as [|[k v] m Pk _ IHm]; intros Ha2; cbn [members_in]; [reflexivity|].
    cbn [forallb snd] in Ha2, Pk. apply andb_true_iff in Ha2 as [Hv Hm].
    destruct (find_assoc k m') as [v'|] eqn:Ef; [|reflexivity].
    assert (Hv' : wf_json v' = true).
    { rewrite forallb_forall in Hb2. clear - Ef Hb2. induction m' as [|[k' x] m' IH]; cbn [find_assoc] in Ef; [discriminate|].
      destruct (str_eqb k k'); [inversion Ef; subst; apply (Hb2 (k', v')); left; reflexivity|].
      apply IH; [|exact Ef]. intros z Hz. apply Hb2. right. exact Hz. }
    rewrite Pk by assumption. rewrite IHm by assumption. reflexivity.
Qed.

(* --- comparands as they reach ComparisonExpression.evaluate -------------- *)
Inductive reaches : comparand -> pyobj -> Prop :=
| R_value v : reaches (Val v) (PVal v)                          (* literal, function result *)
| R_single loc v : reaches (Val v) (PNodes [(loc, v)])          (* singular query selecting one node *)
| R_nothing : reaches Nothing PNothing                           (* function result Nothing *)
| R_empty : reaches Nothing (PNodes []).                         (* singular query selecting nothing *)

Definition wf_c (c : comparand) : bool := match c with Nothing => true | Val v => wf_json v end.

Lemma m_eq_table a b pa pb : wf_c a = true -> wf_c b = true -> reaches a pa -> reaches b pb ->
  m_eq (m_unwrap1 pa) (m_unwrap1 pb) = c_eq a b.
Proof.
  intros Ha Hb Ra Rb. destruct Ra, Rb; cbn [m_unwrap1 snd m_eq c_eq wf_c] in *;
    try reflexivity; try (apply m_json_eq_spec; assumption).
Qed.

Lemma m_lt_table a b pa pb : reaches a pa -> reaches b pb -> m_lt (m_unwrap1 pa) (m_unwrap1 pb) = c_lt a b.
Proof.
  intros Ra Rb. destruct Ra as [v|loc v| |], Rb as [w|loc' w| |]; cbn [m_unwrap1 snd m_lt c_lt];
    try reflexivity; try (destruct v; reflexivity);
    destruct v; try reflexivity; destruct w; reflexivity.
Qed.

Theorem compare_table o a b pa pb : wf_c a = true -> wf_c b = true -> reaches a pa -> reaches b pb ->
  m_cmp o (m_unwrap1 pa) (m_unwrap1 pb) = cmp o a b.
Proof.
  intros Ha Hb Ra Rb. destruct o; cbn [m_cmp cmp];
    rewrite ?(m_eq_table a b pa pb), ?(m_lt_table a b pa pb), ?(m_lt_table b a pb pa) by assumption; reflexivity.
Qed.
